(* NoopPipeline2.v — the end-to-end theorems for the pipeline with the no-op ordering (Model/PipelineNoop.v:
   [layout_component_n], [layout_n]), part 2.

   S1  Sections SummaryN / E2N / E34N: the derivations of Proofs/E2EOutput.v (E1 - E4 from the backbone), as replayed in
       BKPipeline2.v for [backbone_x], replayed for [NoopPipeline.backbone_n] (no field about the ordering heuristic is used
       by the derivations: the ordering enters only through [s4_oc : order_contract g3 g3'] inside [stage45]).
   S2  One component ([component_input g], [modelled_p5 (o_p5 o)], [layout_component_n bk o g = Ok (g', x)]):
       [Gn1_output_graph], [Gn2_bands], [Gn2_band_separation], [Gn2_acyclic_input_has_no_upward_edge], [Gn3_endpoints],
       [Gn4_route_shape] — the statements of BKPipeline2.Gx1 .. Gx4 (with the hypothesis [o_p4 o = OtherPositioner]); the
       [_any] forms drop the hypothesis on the positioner: they hold for ALL FIVE positioners.
   S3  The whole layout: [layout_component_n_single], [Gn7_layout_output] = the statement of [BKPipeline2.Gx7_layout_output]
       for [layout_n bk]; [layout_n_reports_no_crossings]: the third output list is [].
   S4  Examples: the component [wc_g] and the three-component input [wl_edges] through [layout_component_n] / [layout_n]. *)
From Autog Require Import Base Graph Populate Phase1 Phase2 Phase3 Phase4 Phase5 Layout Wmedian Pipeline BK PipelineBK PipelineNoop Check.
From Autog.Proofs Require Import ListLemmas Consistent PopulateProofs SizesProofs ComponentsProofs SelfLoopProofs Summary.
From Autog.Proofs Require CBBase CBGreedy CBGreedyRanks CBDepthFirst CBHasCycles CycleBreaking LongestPath
                          OptNormalize OptVbalance OptPipeline CollectProofs.
From Autog.Proofs Require Import Positioners Routes BreakMerge SinkColoringProofs Shift E2EBridge E2EBackbone E2EOutput E2EFrontend.
From Autog.Proofs Require Import NSBridge WholeBridge WholeCrossings WholeLayout.
From Autog.Proofs Require Import BKPipeline NoopPipeline.
From Coq Require Import Permutation Lia Lqa.
Local Open Scope nat_scope.

(* ====================================================================================================== *)
(** * 1. E1 - E4 from [backbone_n] (Proofs/E2EOutput.v / BKPipeline2.v, replayed)                           *)
(* ====================================================================================================== *)

Section SummaryN.
  Variables (bk : Z) (o : options) (g g' : graph) (x : option Z) (g0 : graph) (del : list nat) (g1 g2 g3 : graph) (k : nat)
            (g3' : graph) (g4 gm : graph) (routes : list (nat * list nat)) (g5 : graph).
  Hypothesis CI : component_input g.
  Hypothesis BB : backbone_n bk o g g' x g0 del g1 g2 g3 k g3' g4 gm routes g5.

  Let S01 := nb_s01 _ _ _ _ _ _ _ _ _ _ _ _ _ _ _ _ BB.
  Let S23 := nb_s23 _ _ _ _ _ _ _ _ _ _ _ _ _ _ _ _ BB.
  Let S45 := nb_s45 _ _ _ _ _ _ _ _ _ _ _ _ _ _ _ _ BB.
  Let PP := s2_post _ _ _ _ S23.

  Lemma nsum_lengths :
    length (g_na g2) = length (g_na g) /\ length (g_ea g2) = length (g_ea g) /\
    length (g_na g5) = length (g_na g) + k /\
    g_E g2 = filter (fun e => negb (self_loop g e)) (g_E g) /\ g_N g2 = g_N g /\
    g_E g5 = g_E g2 /\ g_N g5 = g_N g ++ iota (length (g_na g)) k /\ g_L g5 = g_L g4.
  Proof.
    destruct (rev_star_frame _ _ (s1_rs _ _ _ _ S01)) as (F1 & F2 & _ & F4 & F5 & _).
    assert (NA2 : length (g_na g2) = length (g_na g)).
    { rewrite (p2_na _ _ PP), F4. apply (s0_na _ _ _ _ S01). }
    split; [exact NA2|]. split.
    { rewrite (p2_ea _ _ PP), F5, (s0_ea _ _ _ _ S01). reflexivity. }
    split.
    { rewrite (s5_na _ _ _ _ _ _ _ _ _ S45), (sm_na _ _ _ _ _ _ _ _ _ S45), (s4_na _ _ _ _ _ _ _ _ _ S45),
        (s3_na _ _ _ _ S23), NA2. reflexivity. }
    split.
    { rewrite (p2_E _ _ PP), F2. apply (s0_E _ _ _ _ S01). }
    assert (N2 : g_N g2 = g_N g).
    { rewrite (p2_N _ _ PP), F1. apply (s0_N _ _ _ _ S01). }
    split; [exact N2|]. split.
    { rewrite (s5_E _ _ _ _ _ _ _ _ _ S45). apply (sm_E _ _ _ _ _ _ _ _ _ S45). }
    split.
    { rewrite (s5_N _ _ _ _ _ _ _ _ _ S45), (sm_N _ _ _ _ _ _ _ _ _ S45), (s4_N _ _ _ _ _ _ _ _ _ S45),
        (s3_N _ _ _ _ S23), N2, NA2. reflexivity. }
    rewrite (s5_L _ _ _ _ _ _ _ _ _ S45). apply (sm_L _ _ _ _ _ _ _ _ _ S45).
  Qed.

  (* a listed edge of the input that is not a self loop *)
  Definition nnonloop (e : nat) : Prop := In e (g_E g) /\ self_loop g e = false.

  Lemma nnonloop_E2 : forall e, nnonloop e <-> In e (g_E g2).
  Proof.
    intros e. destruct nsum_lengths as (_ & _ & _ & -> & _). unfold nnonloop. rewrite filter_In, negb_true_iff. tauto.
  Qed.

  (* the record of a non-loop edge when phase 2 hands it on: the input record, possibly reversed *)
  Lemma nsum_edge2 : forall e, nnonloop e ->
    e_pts (gedge g2 e) = [] /\ e_delta (gedge g2 e) = 1%Z /\
    ((e_rev (gedge g2 e) = false /\ e_from (gedge g2 e) = e_from (gedge g e) /\ e_to (gedge g2 e) = e_to (gedge g e)) \/
     (e_rev (gedge g2 e) = true /\ e_from (gedge g2 e) = e_to (gedge g e) /\ e_to (gedge g2 e) = e_from (gedge g e))).
  Proof.
    intros e He. apply nnonloop_E2 in He. rewrite (p2_E _ _ PP) in He.
    destruct (s1_edge _ _ _ _ S01 e He) as (HeE & _ & FR & D1 & P1).
    destruct (edge_eq_tc_fields _ _ (p2_edge _ _ PP e)) as (-> & -> & -> & _ & -> & -> & _).
    split; [exact P1|]. split; [exact D1|].
    destruct (ci_edges _ CI e HeE) as (RV & _).
    destruct FR as [->| ->]; [left|right]; cbn; rewrite RV; repeat split; reflexivity.
  Qed.

  (* the record of a non-loop edge after phase 5 *)
  Lemma nsum_edge5 : forall e, nnonloop e ->
    exists r pts, In r routes /\ fst r = e /\
      gedge g5 e = set_pts pts (set_ahs (e_rev (gedge g2 e)) (gedge g2 e)) /\
      routed (o_p5 o) (o_layer_spacing o) gm r pts /\
      route_ok g2 gm r /\ chain_y_eq gm (o_layer_spacing o) (snd r).
  Proof.
    intros e He. apply nnonloop_E2 in He. pose proof He as He'.
    rewrite <- (sm_fst _ _ _ _ _ _ _ _ _ S45) in He'. apply in_map_iff in He'. destruct He' as (r & Er & Hr).
    destruct (s5_edge _ _ _ _ _ _ _ _ _ S45 r Hr) as (pts & P1 & P2).
    pose proof (sm_routes _ _ _ _ _ _ _ _ _ S45) as RO. rewrite Forall_forall in RO. destruct (RO r Hr) as [RO1 RO2].
    exists r, pts. rewrite Er in P1. rewrite (sm_edge _ _ _ _ _ _ _ _ _ S45 e He) in P1. auto 10.
  Qed.

  (* the self loops come back untouched (up to the scratch fields of network simplex) *)
  Lemma nsum_loop5 : forall e, In e del -> In e (g_E g) /\ self_loop g e = true /\ edge_eq_tc (gedge g5 e) (gedge g e).
  Proof.
    intros e He. rewrite (s0_del _ _ _ _ S01) in He. apply filter_In in He. destruct He as [HeE Hs].
    split; [exact HeE|]. split; [exact Hs|].
    assert (N2 : ~ In e (g_E g2)).
    { intros H. apply nnonloop_E2 in H. destruct H as [_ H]. congruence. }
    rewrite (s5_other _ _ _ _ _ _ _ _ _ S45 e N2).
    destruct nsum_lengths as (_ & EA & _).
    rewrite (sm_other _ _ _ _ _ _ _ _ _ S45 e); [|rewrite EA; apply (c_E_lt _ (ci_cons _ CI) e HeE)|exact N2].
    rewrite <- (s1_other _ _ _ _ S01 e); [apply (p2_edge _ _ PP e)|]. rewrite <- (p2_E _ _ PP). exact N2.
  Qed.

  Lemma nsum_post_range : forall e, In e del ->
    e_from (gedge g5 e) < length (g_na g5) /\ e_to (gedge g5 e) < length (g_na g5).
  Proof.
    intros e He. destruct (nsum_loop5 e He) as (HeE & _ & TC).
    destruct (edge_eq_tc_fields _ _ TC) as (-> & -> & _).
    destruct nsum_lengths as (_ & _ & -> & _).
    pose proof (ci_cons _ CI) as C.
    pose proof (c_N_lt _ C _ (c_from _ C e HeE)). pose proof (c_N_lt _ C _ (c_to _ C e HeE)). lia.
  Qed.

  (* node fields: g' against g4 (everything but adjacency), g' against g3 (not x, y, pos), old nodes against g *)
  Lemma nsum_node4 : forall n,
    n_layer (gnode g' n) = n_layer (gnode g4 n) /\ n_virt (gnode g' n) = n_virt (gnode g4 n) /\
    n_x (gnode g' n) = n_x (gnode g4 n) /\ n_y (gnode g' n) = n_y (gnode g4 n) /\
    n_w (gnode g' n) = n_w (gnode g4 n) /\ n_h (gnode g' n) = n_h (gnode g4 n).
  Proof.
    intros n. rewrite (nb_e6 _ _ _ _ _ _ _ _ _ _ _ _ _ _ _ _ BB).
    destruct (post_process_facts g5 del nsum_post_range) as (_ & _ & _ & _ & _ & _ & _ & _ & PN). cbv zeta in PN.
    destruct (PN n) as (-> & _ & -> & -> & -> & -> & ->).
    rewrite (gnode_same_na _ _ n (s5_na _ _ _ _ _ _ _ _ _ S45)).
    pose proof (sm_node _ _ _ _ _ _ _ _ _ S45 n) as Sb.
    destruct (same_but_in_fields _ _ Sb) as (-> & -> & _). destruct (same_but_in_geom _ _ Sb) as (-> & -> & -> & ->).
    repeat split; reflexivity.
  Qed.

  Lemma nsum_node3 : forall n,
    n_layer (gnode g' n) = n_layer (gnode g3 n) /\ n_virt (gnode g' n) = n_virt (gnode g3 n) /\
    n_w (gnode g' n) = n_w (gnode g3 n) /\ n_h (gnode g' n) = n_h (gnode g3 n).
  Proof.
    intros n. destruct (nsum_node4 n) as (-> & -> & _ & _ & -> & ->).
    pose proof (s4_node _ _ _ _ _ _ _ _ _ S45 n) as E.
    destruct (gnode g4 n), (gnode g3 n). unfold set_pos, set_x, set_y in E. cbn in *. inversion E. repeat split; reflexivity.
  Qed.

  Lemma nsum_node_old : forall n, n < length (g_na g) ->
    n_layer (gnode g3 n) = n_layer (gnode g2 n) /\ n_virt (gnode g3 n) = false /\
    n_w (gnode g3 n) = n_w (gnode g n) /\ n_h (gnode g3 n) = n_h (gnode g n).
  Proof.
    intros n Hn. destruct nsum_lengths as (NA2 & _). rewrite <- NA2 in Hn.
    pose proof (s3_old _ _ _ _ S23 n Hn) as Sb.
    destruct (same_but_in_fields _ _ Sb) as (-> & -> & _). destruct (same_but_in_geom _ _ Sb) as (_ & _ & -> & ->).
    split; [reflexivity|]. rewrite (p2_node _ _ PP n). cbn [set_layer n_virt n_w n_h].
    destruct (rev_star_frame _ _ (s1_rs _ _ _ _ S01)) as (_ & _ & _ & _ & _ & F6 & _).
    destruct (same_but_adj_fields _ _ (F6 n)) as (_ & _ & -> & _ & _ & -> & ->).
    destruct (node_attrs_fields _ _ (s0_attrs _ _ _ _ S01 n)) as (_ & _ & -> & _ & _ & -> & ->).
    split; [apply (ci_nonvirt _ CI)|]. split; reflexivity.
  Qed.
End SummaryN.

Lemma nE1_of_backbone : forall bk o g g' x g0 del g1 g2 g3 k g3' g4 gm routes g5,
  component_input g -> backbone_n bk o g g' x g0 del g1 g2 g3 k g3' g4 gm routes g5 -> E1_statement g g'.
Proof.
  intros bk o g g' x g0 del g1 g2 g3 k g3' g4 gm routes g5 CI BB.
  pose proof (nsum_lengths _ _ _ _ _ _ _ _ _ _ _ _ _ _ _ _ BB) as (NA2 & EA2 & NA5 & E2 & N2 & E5 & N5 & L5).
  pose proof (nsum_post_range _ _ _ _ _ _ _ _ _ _ _ _ _ _ _ _ CI BB) as RNG.
  destruct (post_process_facts g5 del RNG) as (Q1 & Q2 & Q3 & Q4 & Q5 & Q6 & Q7 & Q8 & Q9). cbv zeta in *.
  rewrite <- (nb_e6 _ _ _ _ _ _ _ _ _ _ _ _ _ _ _ _ BB) in *.
  pose proof (nb_s01 _ _ _ _ _ _ _ _ _ _ _ _ _ _ _ _ BB) as S01.
  pose proof (nb_s23 _ _ _ _ _ _ _ _ _ _ _ _ _ _ _ _ BB) as S23.
  assert (EE : g_E g5 ++ del = filter (fun e => negb (self_loop g e)) (g_E g) ++ filter (self_loop g) (g_E g)).
  { rewrite E5, E2, (s0_del _ _ _ _ S01). reflexivity. }
  assert (INE : forall e, In e (g_E g) -> In e (g_E g5 ++ del)).
  { intros e He. rewrite EE. apply in_or_app. destruct (self_loop g e) eqn:Es; [right|left]; apply filter_In; split; auto.
    rewrite Es. reflexivity. }
  split; [rewrite Q2; exact EE|]. split; [|split; [|split]].
  - intros e He. split; [|split; [|apply Q5, INE, He]].
    + destruct (self_loop g e) eqn:Es.
      * assert (Hd : In e del) by (rewrite (s0_del _ _ _ _ S01); apply filter_In; auto).
        destruct (nsum_loop5 _ _ _ _ _ _ _ _ _ _ _ _ _ _ _ _ CI BB e Hd) as (_ & _ & TC).
        destruct (edge_eq_tc_fields _ _ TC) as (F1 & F2 & _ & _ & F5 & _).
        rewrite Q7; [exact F1|]. right. rewrite F5. apply (ci_edges _ CI e He).
      * destruct (nsum_edge5 _ _ _ _ _ _ _ _ _ _ _ _ _ _ _ _ BB e (conj He Es)) as (r & pts & _ & _ & G5 & _).
        destruct (nsum_edge2 _ _ _ _ _ _ _ _ _ _ _ _ _ _ _ _ CI BB e (conj He Es)) as (_ & _ & [(R & F & T)|(R & F & T)]).
        -- rewrite Q7; [rewrite G5; cbn; exact F|]. right. rewrite G5. cbn. exact R.
        -- rewrite Q6; [rewrite G5; cbn; exact T|apply INE, He|rewrite G5; cbn; exact R].
    + destruct (self_loop g e) eqn:Es.
      * assert (Hd : In e del) by (rewrite (s0_del _ _ _ _ S01); apply filter_In; auto).
        destruct (nsum_loop5 _ _ _ _ _ _ _ _ _ _ _ _ _ _ _ _ CI BB e Hd) as (_ & _ & TC).
        destruct (edge_eq_tc_fields _ _ TC) as (F1 & F2 & _ & _ & F5 & _).
        rewrite Q7; [exact F2|]. right. rewrite F5. apply (ci_edges _ CI e He).
      * destruct (nsum_edge5 _ _ _ _ _ _ _ _ _ _ _ _ _ _ _ _ BB e (conj He Es)) as (r & pts & _ & _ & G5 & _).
        destruct (nsum_edge2 _ _ _ _ _ _ _ _ _ _ _ _ _ _ _ _ CI BB e (conj He Es)) as (_ & _ & [(R & F & T)|(R & F & T)]).
        -- rewrite Q7; [rewrite G5; cbn; exact T|]. right. rewrite G5. cbn. exact R.
        -- rewrite Q6; [rewrite G5; cbn; exact F|apply INE, He|rewrite G5; cbn; exact R].
  - intros e He Es.
    assert (Hd : In e del) by (rewrite (s0_del _ _ _ _ S01); apply filter_In; auto).
    destruct (nsum_loop5 _ _ _ _ _ _ _ _ _ _ _ _ _ _ _ _ CI BB e Hd) as (_ & _ & TC).
    destruct (edge_eq_tc_fields _ _ TC) as (_ & _ & _ & _ & _ & F6 & _).
    destruct (Q8 e) as [-> _]. rewrite F6. apply (ci_edges _ CI e He).
  - exists (iota (length (g_na g)) k). split; [rewrite Q1; exact N5|].
    intros v Hv. apply BreakMerge.in_iota in Hv. split; [lia|].
    destruct (nsum_node3 _ _ _ _ _ _ _ _ _ _ _ _ _ _ _ _ CI BB v) as (_ & -> & _).
    apply (s3_new _ _ _ _ S23). rewrite NA2. exact Hv.
  - intros n Hn. pose proof (c_N_lt _ (ci_cons _ CI) n Hn) as Hlt.
    destruct (nsum_node3 _ _ _ _ _ _ _ _ _ _ _ _ _ _ _ _ CI BB n) as (_ & -> & -> & ->).
    destruct (nsum_node_old _ _ _ _ _ _ _ _ _ _ _ _ _ _ _ _ CI BB n Hlt) as (_ & ? & ? & ?). auto.
Qed.

Section E2N.
  Variables (bk : Z) (o : options) (g g' : graph) (x : option Z) (g0 : graph) (del : list nat) (g1 g2 g3 : graph) (k : nat)
            (g3' : graph) (g4 gm : graph) (routes : list (nat * list nat)) (g5 : graph).
  Hypothesis CI : component_input g.
  Hypothesis BB : backbone_n bk o g g' x g0 del g1 g2 g3 k g3' g4 gm routes g5.

  Let S01 := nb_s01 _ _ _ _ _ _ _ _ _ _ _ _ _ _ _ _ BB.
  Let S23 := nb_s23 _ _ _ _ _ _ _ _ _ _ _ _ _ _ _ _ BB.
  Let S45 := nb_s45 _ _ _ _ _ _ _ _ _ _ _ _ _ _ _ _ BB.
  Let PP := s2_post _ _ _ _ S23.

  (* the final graph has the layer list, the node list and the arena size of the phase-4 output *)
  Lemma nout_frame : g_L g' = g_L g4 /\ g_N g' = g_N g4 /\ length (g_na g') = length (g_na g4) /\
                    g_E g' = g_E g2 ++ del.
  Proof.
    pose proof (nsum_lengths _ _ _ _ _ _ _ _ _ _ _ _ _ _ _ _ BB) as (NA2 & EA2 & NA5 & E2 & N2 & E5 & N5 & L5).
    destruct (post_process_facts g5 del (nsum_post_range _ _ _ _ _ _ _ _ _ _ _ _ _ _ _ _ CI BB)) as (Q1 & Q2 & Q3 & Q4 & _).
    cbv zeta in *. rewrite <- (nb_e6 _ _ _ _ _ _ _ _ _ _ _ _ _ _ _ _ BB) in *.
    split; [congruence|]. split.
    { rewrite Q1, (s5_N _ _ _ _ _ _ _ _ _ S45). apply (sm_N _ _ _ _ _ _ _ _ _ S45). }
    split.
    { rewrite Q4, (s5_na _ _ _ _ _ _ _ _ _ S45). apply (sm_na _ _ _ _ _ _ _ _ _ S45). }
    rewrite Q2, E5. reflexivity.
  Qed.

  (* the layer of an end of a non-loop edge, read in g', is its layer in g2 *)
  Lemma nout_layer_old : forall n, n < length (g_na g) -> n_layer (gnode g' n) = layer_of g2 n.
  Proof.
    intros n Hn. destruct (nsum_node3 _ _ _ _ _ _ _ _ _ _ _ _ _ _ _ _ CI BB n) as (-> & _).
    destruct (nsum_node_old _ _ _ _ _ _ _ _ _ _ _ _ _ _ _ _ CI BB n Hn) as (-> & _). reflexivity.
  Qed.

  Lemma nE2_of_backbone : E2_statement (o_layer_spacing o) g g'.
  Proof.
    destruct nout_frame as (OL & ON & ONA & OE).
    assert (GL : forall j, glayer g' j = glayer g4 j) by (intros j; unfold glayer; rewrite OL; reflexivity).
    assert (WF' : layers_wf g').
    { unfold layers_wf. rewrite OL, ONA. apply (s4_wf _ _ _ _ _ _ _ _ _ S45). }
    assert (PL' : forall n, In n (g_N g') ->
              (0 <= n_layer (gnode g' n))%Z /\ In n (l_nodes (glayer g' (Z.to_nat (n_layer (gnode g' n)))))).
    { intros n Hn. rewrite ON in Hn. destruct (s4_placed _ _ _ _ _ _ _ _ _ S45 n Hn) as [P0 P1].
      destruct (nsum_node4 _ _ _ _ _ _ _ _ _ _ _ _ _ _ _ _ CI BB n) as (-> & _). rewrite GL. split; assumption. }
    split; [exact WF'|]. split; [exact PL'|]. split.
    - intros j n Hn.
      assert (HnN : In n (g_N g')).
      { rewrite ON, (s4_N _ _ _ _ _ _ _ _ _ S45). apply (s3_inl _ _ _ _ S23 j).
        apply (s4_inl _ _ _ _ _ _ _ _ _ S45). rewrite <- GL. exact Hn. }
      split; [exact HnN|]. split.
      + apply (layers_wf_unique g' n); [exact WF'|exact Hn|apply PL', HnN].
      + rewrite GL in Hn. destruct (s4_y _ _ _ _ _ _ _ _ _ S45 j n Hn) as [Y1 Y2].
        destruct (nsum_node4 _ _ _ _ _ _ _ _ _ _ _ _ _ _ _ _ CI BB n) as (_ & _ & _ & Hy & _ & Hh).
        unfold nY, nH in *. rewrite Hy, Hh, OL, GL. split; assumption.
    - intros e He Es. cbv zeta.
      destruct (nE1_of_backbone _ _ _ _ _ _ _ _ _ _ _ _ _ _ _ _ CI BB) as (_ & EN & _).
      destruct (EN e He) as (-> & -> & _).
      pose proof (ci_cons _ CI) as C.
      rewrite !nout_layer_old; [|apply (c_N_lt _ C), (c_to _ C e He)|apply (c_N_lt _ C), (c_from _ C e He)].
      destruct (nsum_edge5 _ _ _ _ _ _ _ _ _ _ _ _ _ _ _ _ BB e (conj He Es)) as (r & pts & _ & _ & G5 & _).
      destruct (post_process_facts g5 del (nsum_post_range _ _ _ _ _ _ _ _ _ _ _ _ _ _ _ _ CI BB))
        as (_ & _ & _ & _ & _ & _ & _ & Q8 & _). cbv zeta in Q8.
      rewrite <- (nb_e6 _ _ _ _ _ _ _ _ _ _ _ _ _ _ _ _ BB) in Q8. destruct (Q8 e) as [_ ->]. rewrite G5. cbn [set_pts set_ahs e_ahs].
      assert (He2 : In e (g_E g2)) by (apply (nnonloop_E2 _ _ _ _ _ _ _ _ _ _ _ _ _ _ _ _ BB); split; assumption).
      pose proof (p2_span _ _ PP e He2) as SP.
      destruct (nsum_edge2 _ _ _ _ _ _ _ _ _ _ _ _ _ _ _ _ CI BB e (conj He Es)) as (_ & _ & [(R & F & T)|(R & F & T)]);
        rewrite R; rewrite F, T in SP; (split; [lia|split; split; intros; try discriminate; try lia; try reflexivity]).
  Qed.
End E2N.

Section E34N.
  Variables (bk : Z) (o : options) (g g' : graph) (x : option Z) (g0 : graph) (del : list nat) (g1 g2 g3 : graph) (k : nat)
            (g3' : graph) (g4 gm : graph) (routes : list (nat * list nat)) (g5 : graph).
  Hypothesis CI : component_input g.
  Hypothesis BB : backbone_n bk o g g' x g0 del g1 g2 g3 k g3' g4 gm routes g5.

  Let S01 := nb_s01 _ _ _ _ _ _ _ _ _ _ _ _ _ _ _ _ BB.
  Let S23 := nb_s23 _ _ _ _ _ _ _ _ _ _ _ _ _ _ _ _ BB.
  Let S45 := nb_s45 _ _ _ _ _ _ _ _ _ _ _ _ _ _ _ _ BB.
  Let PP := s2_post _ _ _ _ S23.

  (* the geometry read by the routers is the same in the merged graph and in the final graph *)
  Lemma ngeom_gm_out : forall n,
    nX gm n = nX g' n /\ nY gm n = nY g' n /\ nW gm n = nW g' n /\ nH gm n = nH g' n /\
    layer_of gm n = layer_of g' n /\ layer_h_of gm n = layer_h_of g' n /\
    n_virt (gnode gm n) = n_virt (gnode g' n).
  Proof.
    intros n. destruct (nsum_node4 _ _ _ _ _ _ _ _ _ _ _ _ _ _ _ _ CI BB n) as (A1 & A2 & A3 & A4 & A5 & A6).
    pose proof (sm_node _ _ _ _ _ _ _ _ _ S45 n) as Sb.
    destruct (same_but_in_fields _ _ Sb) as (B1 & B2 & _). destruct (same_but_in_geom _ _ Sb) as (B3 & B4 & B5 & B6).
    assert (LY : layer_of gm n = layer_of g' n) by (unfold layer_of; congruence).
    unfold nX, nY, nW, nH. repeat split; try congruence.
    unfold layer_h_of, glayer. rewrite LY.
    destruct (nout_frame _ _ _ _ _ _ _ _ _ _ _ _ _ _ _ _ CI BB) as (-> & _).
    rewrite (sm_L _ _ _ _ _ _ _ _ _ S45). reflexivity.
  Qed.

  Lemma nstart_point_out : forall n, start_point gm n = start_point g' n.
  Proof. intros n. destruct (ngeom_gm_out n) as (A & B & C & D & _). unfold start_point. rewrite A, B, C, D. reflexivity. Qed.
  Lemma nend_point_out : forall n, end_point gm n = end_point g' n.
  Proof. intros n. destruct (ngeom_gm_out n) as (A & B & C & _). unfold end_point. rewrite A, B, C. reflexivity. Qed.
  Lemma nbend_out : forall n, bend gm n = bend g' n.
  Proof. intros n. destruct (ngeom_gm_out n) as (A & B & C & _ & _ & F & _). unfold bend. rewrite A, B, C, F. reflexivity. Qed.

  (* everything the route theorems need about one non-loop edge *)
  Lemma nroute_setup : forall e, In e (g_E g) -> self_loop g e = false ->
    exists mid pts,
      let a := upper_end g' e in let b := lower_end g' e in
      e_pts (gedge g' e) = pts /\
      routed (o_p5 o) (o_layer_spacing o) gm (e, a :: mid ++ [b]) pts /\
      is_flat gm e = false /\ e_pts (gedge gm e) = [] /\
      e_from (gedge gm e) = a /\ e_to (gedge gm e) = b /\
      (e_ahs (gedge g' e) = false -> a = e_from (gedge g' e) /\ b = e_to (gedge g' e)) /\
      (e_ahs (gedge g' e) = true -> a = e_to (gedge g' e) /\ b = e_from (gedge g' e)) /\
      Z.of_nat (length (a :: mid ++ [b])) = (n_layer (gnode g' b) - n_layer (gnode g' a) + 1)%Z /\
      (1 <= n_layer (gnode g' b) - n_layer (gnode g' a))%Z /\
      (forall v, In v mid -> In v (g_N g') /\ length (g_na g) <= v /\ n_virt (gnode gm v) = true) /\
      chain_layers gm (a :: mid ++ [b]) /\
      chain_y_eq gm (o_layer_spacing o) (a :: mid ++ [b]) /\
      In a (g_N g4).
  Proof.
    intros e He Es.
    pose proof (nsum_lengths _ _ _ _ _ _ _ _ _ _ _ _ _ _ _ _ BB) as (NA2 & EA2 & NA5 & E2 & N2 & E5 & N5 & L5).
    destruct (nsum_edge5 _ _ _ _ _ _ _ _ _ _ _ _ _ _ _ _ BB e (conj He Es)) as (r & pts & Hr & Er & G5 & RT & RO & CY).
    destruct RO as (mid & Ens & LEN & Hmid & CL). rewrite Er in *.
    destruct (post_process_facts g5 del (nsum_post_range _ _ _ _ _ _ _ _ _ _ _ _ _ _ _ _ CI BB))
      as (_ & _ & _ & _ & _ & _ & _ & Q8 & _). cbv zeta in Q8.
    rewrite <- (nb_e6 _ _ _ _ _ _ _ _ _ _ _ _ _ _ _ _ BB) in Q8. destruct (Q8 e) as [QP QA].
    destruct (nE1_of_backbone _ _ _ _ _ _ _ _ _ _ _ _ _ _ _ _ CI BB) as (_ & EN & _). destruct (EN e He) as (EF & ET & _).
    assert (He2 : In e (g_E g2)) by (apply (nnonloop_E2 _ _ _ _ _ _ _ _ _ _ _ _ _ _ _ _ BB); split; assumption).
    pose proof (sm_edge _ _ _ _ _ _ _ _ _ S45 e He2) as GM.
    pose proof (p2_span _ _ PP e He2) as SP.
    destruct (nsum_edge2 _ _ _ _ _ _ _ _ _ _ _ _ _ _ _ _ CI BB e (conj He Es)) as (P2 & _ & OR).
    pose proof (ci_cons _ CI) as C.
    pose proof (c_N_lt _ C _ (c_from _ C e He)) as LF. pose proof (c_N_lt _ C _ (c_to _ C e He)) as LT.
    assert (AHS : e_ahs (gedge g' e) = e_rev (gedge g2 e)) by (rewrite QA, G5; reflexivity).
    assert (UA : upper_end g' e = e_from (gedge g2 e) /\ lower_end g' e = e_to (gedge g2 e)).
    { unfold upper_end, lower_end. rewrite AHS, EF, ET. destruct OR as [(R & F & T)|(R & F & T)]; rewrite R, F, T; auto. }
    destruct UA as [UA UB].
    assert (LYo : forall n, n < length (g_na g) -> n_layer (gnode g' n) = layer_of g2 n).
    { intros n Hn. apply (nout_layer_old _ _ _ _ _ _ _ _ _ _ _ _ _ _ _ _ CI BB n Hn). }
    assert (LA : e_from (gedge g2 e) < length (g_na g) /\ e_to (gedge g2 e) < length (g_na g)).
    { destruct OR as [(_ & F & T)|(_ & F & T)]; rewrite F, T; auto. }
    exists mid, pts. cbv zeta. rewrite UA, UB.
    split; [rewrite QP, G5; reflexivity|]. split; [rewrite <- Ens, <- Er; destruct r; exact RT|].
    split.
    { unfold is_flat. rewrite GM. cbn [set_ahs e_from e_to]. apply Z.eqb_neq.
      destruct (ngeom_gm_out (e_from (gedge g2 e))) as (_ & _ & _ & _ & -> & _).
      destruct (ngeom_gm_out (e_to (gedge g2 e))) as (_ & _ & _ & _ & -> & _).
      unfold layer_of at 1 2. rewrite !LYo by apply LA. lia. }
    split; [rewrite GM; exact P2|]. split; [rewrite GM; reflexivity|]. split; [rewrite GM; reflexivity|].
    split.
    { intros HA. rewrite AHS in HA. destruct OR as [(R & F & T)|(R & F & T)]; [|congruence]. rewrite EF, ET. auto. }
    split.
    { intros HA. rewrite AHS in HA. destruct OR as [(R & F & T)|(R & F & T)]; [congruence|]. rewrite EF, ET. auto. }
    split.
    { rewrite <- Ens, LEN. unfold span. rewrite !LYo by apply LA. reflexivity. }
    split.
    { rewrite !LYo by apply LA. exact SP. }
    split.
    { intros v Hv. destruct (Hmid v Hv) as [Rg Vt]. rewrite NA2 in Rg.
      destruct (nout_frame _ _ _ _ _ _ _ _ _ _ _ _ _ _ _ _ CI BB) as (_ & -> & _).
      split; [|split; [lia|exact Vt]].
      rewrite (s4_N _ _ _ _ _ _ _ _ _ S45), (s3_N _ _ _ _ S23). apply in_or_app. right.
      apply BreakMerge.in_iota. rewrite (sm_na _ _ _ _ _ _ _ _ _ S45), (s4_na _ _ _ _ _ _ _ _ _ S45), (s3_na _ _ _ _ S23) in Rg.
      rewrite NA2. lia. }
    split; [rewrite <- Ens; exact CL|]. split; [rewrite <- Ens; exact CY|].
    rewrite (s4_N _ _ _ _ _ _ _ _ _ S45), (s3_N _ _ _ _ S23). apply in_or_app. left.
    apply (s2_ends _ _ _ _ S23 e He2).
  Qed.

  Lemma nE3_of_backbone : modelled_p5 (o_p5 o) -> E3_statement g g'.
  Proof.
    intros O5 e He Es. cbv zeta.
    destruct (nroute_setup e He Es) as (mid & pts & RS). cbv zeta in RS.
    destruct RS as (EP & RT & FL & PN & EA & EB & AH0 & AH1 & LEN & LY & VM & _ & CY & _).
    rewrite EP. set (a := upper_end g' e) in *. set (b := lower_end g' e) in *.
    assert (ENDS : exists l, pts = start_point g' a :: l ++ [end_point g' b]).
    { rewrite <- nstart_point_out, <- nend_point_out. destruct O5 as [E|[E|E]]; rewrite E in RT; cbn [routed fst snd] in RT.
      - rewrite (route_straight_ends gm e a mid b FL) in RT. exists []. exact RT.
      - destruct (route_polyline_first_last gm e a mid b FL) as (l & RP & _); [|exact PN|].
        + intros n Hn. apply (VM n Hn).
        + rewrite RP in RT. injection RT as <-. exists l. reflexivity.
      - destruct (route_ortho_ends gm (o_layer_spacing o) e a mid b FL PN) as (l & RP). exists l. rewrite RT. exact RP. }
    destruct ENDS as (l & ->).
    split; [discriminate|]. split; [reflexivity|]. split.
    { change (start_point g' a :: l ++ [end_point g' b]) with ((start_point g' a :: l) ++ [end_point g' b]).
      rewrite last_last. reflexivity. }
    split; [lia|]. split; assumption.
  Qed.

  Lemma nE4_of_backbone : modelled_p5 (o_p5 o) -> E4_statement (o_p5 o) (o_layer_spacing o) g g'.
  Proof.
    intros O5 e He Es. unfold E4_shape. cbv zeta.
    destruct (nroute_setup e He Es) as (mid & pts & RS). cbv zeta in RS.
    destruct RS as (EP & RT & FL & PN & EA & EB & AH0 & AH1 & LEN & LY & VM & CL & CY & INA).
    rewrite EP. set (a := upper_end g' e) in *. set (b := lower_end g' e) in *.
    destruct O5 as [E|[E|E]]; rewrite E in RT |- *; cbn [routed fst snd] in RT.
    - rewrite (route_straight_ends gm e a mid b FL) in RT. rewrite RT, nstart_point_out, nend_point_out. reflexivity.
    - rewrite (route_polyline_ok gm e a mid b FL) in RT; [|intros n Hn; apply (VM n Hn)|exact PN].
      injection RT as RT. exists mid.
      assert (LH0 : forall n, (0 <= layer_h_of gm n)%Q).
      { intros n. unfold layer_h_of, glayer. rewrite (sm_L _ _ _ _ _ _ _ _ _ S45). apply (s4_lh0 _ _ _ _ _ _ _ _ _ S45). }
      split; [|split; [|split; [|split]]].
      + rewrite <- RT, nstart_point_out, nend_point_out. f_equal. f_equal. apply map_ext. intros n. apply nbend_out.
      + rewrite <- LEN, <- RT. cbn [length]. rewrite !app_length, map_length. reflexivity.
      + apply (chain_layers_transfer gm); [|exact CL]. intros n. symmetry. apply (ngeom_gm_out n).
      + intros v Hv. destruct (VM v Hv) as (V1 & V2 & V3).
        split; [exact V1|]. split; [exact V2|]. split; [rewrite <- V3; symmetry; apply (ngeom_gm_out v)|].
        destruct (bend_in_band gm v (LH0 v)) as [B1 B2].
        rewrite <- nbend_out. destruct (ngeom_gm_out v) as (_ & <- & _ & _ & _ & <- & _). split; assumption.
      + intros SP0. rewrite <- RT. apply (y_mono_from gm (o_layer_spacing o) mid a b); [exact SP0| |apply chain_y_eq_ge, CY|].
        * unfold start_point. cbn [snd].
          destruct (s4_placed _ _ _ _ _ _ _ _ _ S45 a INA) as [_ PA].
          destruct (s4_y _ _ _ _ _ _ _ _ _ S45 _ a PA) as [_ HH].
          pose proof (sm_node _ _ _ _ _ _ _ _ _ S45 a) as Sb.
          destruct (same_but_in_fields _ _ Sb) as (_ & B2 & _). destruct (same_but_in_geom _ _ Sb) as (_ & _ & _ & B6).
          unfold layer_h_of, glayer, layer_of, nH in *. rewrite (sm_L _ _ _ _ _ _ _ _ _ S45), B2, B6. lra.
        * intros n _. apply LH0.
    - split.
      + rewrite RT. apply route_ortho_all_hv; [exact FL|exact PN|left; auto|exact CY].
      + destruct (route_ortho_ends gm (o_layer_spacing o) e a mid b FL PN) as (l & RP). exists l.
        rewrite RT, RP, nstart_point_out, nend_point_out. reflexivity.
  Qed.
End E34N.

(* ====================================================================================================== *)
(** * 2. One connected component (at least two nodes)                                                      *)
(* ====================================================================================================== *)

(* the backbone with the network-simplex premise discharged (NSBridge.ns_premise_holds); there is no ordering premise *)
Lemma backbone_n_holds : forall bk o g g' x,
  component_input g -> modelled_p5 (o_p5 o) -> layout_component_n bk o g = Ok (g', x) ->
  exists g0 del g1 g2 g3 k g3' g4 gm routes g5, backbone_n bk o g g' x g0 del g1 g2 g3 k g3' g4 gm routes g5.
Proof. exact pipeline_backbone_Fn. Qed.

(* ---------- any positioner ---------- *)
Theorem Gn1_output_graph_any : forall bk o g g' x, component_input g -> modelled_p5 (o_p5 o) ->
  layout_component_n bk o g = Ok (g', x) -> E1_statement g g'.
Proof.
  intros bk o g g' x CI O5 H.
  destruct (backbone_n_holds bk o g g' x CI O5 H) as (g0 & del & g1 & g2 & g3 & k & g3' & g4 & gm & routes & g5 & BB).
  eapply nE1_of_backbone; eassumption.
Qed.

Theorem Gn2_bands_any : forall bk o g g' x, component_input g -> modelled_p5 (o_p5 o) ->
  layout_component_n bk o g = Ok (g', x) -> E2_statement (o_layer_spacing o) g g'.
Proof.
  intros bk o g g' x CI O5 H.
  destruct (backbone_n_holds bk o g g' x CI O5 H) as (g0 & del & g1 & g2 & g3 & k & g3' & g4 & gm & routes & g5 & BB).
  eapply nE2_of_backbone; eassumption.
Qed.

Theorem Gn2_band_separation_any : forall bk o g g' x, component_input g -> modelled_p5 (o_p5 o) ->
  layout_component_n bk o g = Ok (g', x) ->
  forall k n m, In n (l_nodes (glayer g' k)) -> In m (l_nodes (glayer g' (S k))) ->
    (Phase4.nY g' n + Phase4.nH g' n + o_layer_spacing o <= Phase4.nY g' m)%Q.
Proof.
  intros bk o g g' x CI O5 H k n m Hn Hm.
  destruct (Gn2_bands_any bk o g g' x CI O5 H) as (_ & _ & B & _).
  destruct (B k n Hn) as (_ & _ & -> & Hh). destruct (B (S k) m Hm) as (_ & _ & -> & _).
  rewrite ysum_S. fold (glayer g' k). lra.
Qed.

Theorem Gn2_acyclic_input_has_no_upward_edge_any : forall bk o g g' x, component_input g -> modelled_p5 (o_p5 o) ->
  layout_component_n bk o g = Ok (g', x) -> CBBase.ranked (fst (ignore_self_loops g)) ->
  forall e, In e (g_E g) -> self_loop g e = false -> e_ahs (gedge g' e) = false.
Proof.
  intros bk o g g' x CI O5 H RK e He Es.
  destruct (backbone_n_holds bk o g g' x CI O5 H) as (g0 & del & g1 & g2 & g3 & k & g3' & g4 & gm & routes & g5 & BB).
  pose proof (nb_s01 _ _ _ _ _ _ _ _ _ _ _ _ _ _ _ _ BB) as S01.
  pose proof (nb_s23 _ _ _ _ _ _ _ _ _ _ _ _ _ _ _ _ BB) as S23.
  assert (Eg0 : g0 = fst (ignore_self_loops g)) by (rewrite (nb_e0 _ _ _ _ _ _ _ _ _ _ _ _ _ _ _ _ BB); reflexivity).
  rewrite <- Eg0 in RK.
  pose proof (CBHasCycles.acyclic_input_untouched (o_p1 o) g0 (s0_c _ _ _ _ S01) (s0_nsl _ _ _ _ S01) RK) as P1.
  rewrite (nb_e1 _ _ _ _ _ _ _ _ _ _ _ _ _ _ _ _ BB) in P1. injection P1 as E10.
  destruct (nsum_edge5 _ _ _ _ _ _ _ _ _ _ _ _ _ _ _ _ BB e (conj He Es)) as (r & pts & _ & _ & G5 & _).
  destruct (post_process_facts g5 del (nsum_post_range _ _ _ _ _ _ _ _ _ _ _ _ _ _ _ _ CI BB))
    as (_ & _ & _ & _ & _ & _ & _ & Q8 & _). cbv zeta in Q8.
  rewrite <- (nb_e6 _ _ _ _ _ _ _ _ _ _ _ _ _ _ _ _ BB) in Q8. destruct (Q8 e) as [_ ->]. rewrite G5. cbn [set_pts set_ahs e_ahs].
  destruct (edge_eq_tc_fields _ _ (p2_edge _ _ (s2_post _ _ _ _ S23) e)) as (_ & _ & _ & _ & -> & _).
  rewrite E10. unfold gedge. rewrite (s0_ea _ _ _ _ S01). apply (ci_edges _ CI e He).
Qed.

Theorem Gn3_endpoints_any : forall bk o g g' x, component_input g -> modelled_p5 (o_p5 o) ->
  layout_component_n bk o g = Ok (g', x) -> E3_statement g g'.
Proof.
  intros bk o g g' x CI O5 H.
  destruct (backbone_n_holds bk o g g' x CI O5 H) as (g0 & del & g1 & g2 & g3 & k & g3' & g4 & gm & routes & g5 & BB).
  eapply nE3_of_backbone; eassumption.
Qed.

Theorem Gn4_route_shape_any : forall bk o g g' x, component_input g -> modelled_p5 (o_p5 o) ->
  layout_component_n bk o g = Ok (g', x) -> E4_statement (o_p5 o) (o_layer_spacing o) g g'.
Proof.
  intros bk o g g' x CI O5 H.
  destruct (backbone_n_holds bk o g g' x CI O5 H) as (g0 & del & g1 & g2 & g3 & k & g3' & g4 & gm & routes & g5 & BB).
  eapply nE4_of_backbone; eassumption.
Qed.

(* ---------- the requested statements: those of Gx1 .. Gx4 with [layout_component_n] ---------- *)
Theorem Gn1_output_graph : forall bk o g g' x,
  component_input g -> o_p4 o = OtherPositioner -> modelled_p5 (o_p5 o) ->
  layout_component_n bk o g = Ok (g', x) -> E1_statement g g'.
Proof. intros bk o g g' x CI _ O5 H. exact (Gn1_output_graph_any bk o g g' x CI O5 H). Qed.
Print Assumptions Gn1_output_graph.

Theorem Gn2_bands : forall bk o g g' x,
  component_input g -> o_p4 o = OtherPositioner -> modelled_p5 (o_p5 o) ->
  layout_component_n bk o g = Ok (g', x) -> E2_statement (o_layer_spacing o) g g'.
Proof. intros bk o g g' x CI _ O5 H. exact (Gn2_bands_any bk o g g' x CI O5 H). Qed.
Print Assumptions Gn2_bands.

Theorem Gn2_band_separation : forall bk o g g' x,
  component_input g -> o_p4 o = OtherPositioner -> modelled_p5 (o_p5 o) ->
  layout_component_n bk o g = Ok (g', x) ->
  forall k n m, In n (l_nodes (glayer g' k)) -> In m (l_nodes (glayer g' (S k))) ->
    (Phase4.nY g' n + Phase4.nH g' n + o_layer_spacing o <= Phase4.nY g' m)%Q.
Proof. intros bk o g g' x CI _ O5 H. exact (Gn2_band_separation_any bk o g g' x CI O5 H). Qed.
Print Assumptions Gn2_band_separation.

Theorem Gn2_acyclic_input_has_no_upward_edge : forall bk o g g' x,
  component_input g -> o_p4 o = OtherPositioner -> modelled_p5 (o_p5 o) ->
  layout_component_n bk o g = Ok (g', x) -> CBBase.ranked (fst (ignore_self_loops g)) ->
  forall e, In e (g_E g) -> self_loop g e = false -> e_ahs (gedge g' e) = false.
Proof. intros bk o g g' x CI _ O5 H. exact (Gn2_acyclic_input_has_no_upward_edge_any bk o g g' x CI O5 H). Qed.
Print Assumptions Gn2_acyclic_input_has_no_upward_edge.

Theorem Gn3_endpoints : forall bk o g g' x,
  component_input g -> o_p4 o = OtherPositioner -> modelled_p5 (o_p5 o) ->
  layout_component_n bk o g = Ok (g', x) -> E3_statement g g'.
Proof. intros bk o g g' x CI _ O5 H. exact (Gn3_endpoints_any bk o g g' x CI O5 H). Qed.
Print Assumptions Gn3_endpoints.

Theorem Gn4_route_shape : forall bk o g g' x,
  component_input g -> o_p4 o = OtherPositioner -> modelled_p5 (o_p5 o) ->
  layout_component_n bk o g = Ok (g', x) -> E4_statement (o_p5 o) (o_layer_spacing o) g g'.
Proof. intros bk o g g' x CI _ O5 H. exact (Gn4_route_shape_any bk o g g' x CI O5 H). Qed.
Print Assumptions Gn4_route_shape.

(* ====================================================================================================== *)
(** * 3. The whole layout                                                                                  *)
(* ====================================================================================================== *)

Lemma phase4x_single_n : forall bk alg p g, length (g_N g) = 1 -> phase4x bk alg p g = phase4 alg p g.
Proof.
  intros bk alg p g L1. destruct alg; try reflexivity.
  cbn [phase4x]. unfold phase4_bk. rewrite L1. reflexivity.
Qed.

(* a single-node component takes the short cut of every phase: the ordering option makes no difference *)
Lemma layout_component_n_single : forall bk o c,
  length (g_N c) = 1 -> layout_component_n bk o c = layout_component o c.
Proof.
  intros bk o c L1. unfold layout_component_n, layout_component.
  destruct (ignore_self_loops c) as [g0 del] eqn:E0.
  assert (N0 : g_N g0 = g_N c).
  { replace g0 with (fst (ignore_self_loops c)) by (rewrite E0; reflexivity). apply ignore_self_loops_N. }
  unfold phase1. rewrite N0, L1. cbn [Nat.eqb bind].
  unfold phase2, assign_layers. rewrite N0, L1. cbn [Nat.eqb bind].
  destruct (init_layer_slices g0) as [g2|] eqn:SL; cbn [bind]; [|reflexivity].
  destruct (slices_facts g0 g2 SL) as (_ & _ & N2 & _).
  unfold phase3_noop, phase3_wmedian. rewrite N2, N0, L1. cbn [Nat.eqb bind].
  rewrite phase4x_single_n by (rewrite N2, N0; exact L1). reflexivity.
Qed.

(* [WholeLayout.layout_components_collected] for [layout_components_n] *)
Lemma layout_components_n_collected : forall bk o cs shift ns oes xs,
  o_virtual o = false ->
  (forall c c' x, In c cs -> layout_component_n bk o c = Ok (c', x) -> E1_statement c c') ->
  layout_components_n bk o cs shift = Ok (ns, oes, xs) ->
  map (fun on => (on_id on, on_w on, on_h on)) ns =
    flat_map (fun c => map (fun n => (n, n_w (gnode c n), n_h (gnode c n))) (g_N c)) cs /\
  map (fun oe => (oe_from oe, oe_to oe)) oes =
    flat_map (fun c => map (fun e => (e_from (gedge c e), e_to (gedge c e))) (nl_sl c)) cs.
Proof.
  intros bk o cs; induction cs as [|c rest IH]; intros shift ns oes xs OV P H.
  - cbn in H. injection H as <- <- <-. split; reflexivity.
  - cbn [layout_components_n] in H.
    destruct (layout_component_n bk o c) as [[c' x]|e] eqn:Ec; cbn [bind] in H; [|discriminate].
    destruct (layout_components_n bk o rest (shift + rightmost c' + o_node_spacing o)%Q) as [[[ns' es'] xs']|e] eqn:Er;
      cbn [bind] in H; [|discriminate].
    injection H as <- <- <-.
    destruct (IH _ _ _ _ OV (fun c0 c0' x0 Hc => P c0 c0' x0 (or_intror Hc)) Er) as [I1 I2].
    destruct (collected_of_E1 c c' shift (P c c' x (or_introl eq_refl) Ec)) as [C1 C2].
    rewrite OV. cbn [flat_map]. rewrite !map_app, I1, I2, C1, C2. split; reflexivity.
Qed.

(* no component reports a crossing number: the list of crossing numbers is empty *)
Lemma layout_components_n_xs : forall bk o cs shift ns oes xs,
  layout_components_n bk o cs shift = Ok (ns, oes, xs) -> xs = [].
Proof.
  intros bk o cs; induction cs as [|c rest IH]; intros shift ns oes xs H.
  - cbn in H. injection H as _ _ <-. reflexivity.
  - cbn [layout_components_n] in H.
    destruct (layout_component_n bk o c) as [[c' x]|e] eqn:Ec; cbn [bind] in H; [|discriminate].
    destruct (layout_components_n bk o rest (shift + rightmost c' + o_node_spacing o)%Q) as [[[ns' es'] xs']|e] eqn:Er;
      cbn [bind] in H; [|discriminate].
    apply layout_component_n_none in Ec. subst x. injection H as _ _ <-. apply (IH _ _ _ _ Er).
Qed.

Theorem layout_n_reports_no_crossings : forall (A : Type) (eqA : A -> A -> bool) bk o fixed sizes es ids ns oes xs,
  layout_n A eqA bk o fixed sizes es = Ok (ids, (ns, oes, xs)) -> xs = [].
Proof.
  intros A eqA bk o fixed sizes es ids ns oes xs LAY. unfold layout_n in LAY.
  destruct (populate A eqA es) as [[ids0 g]|] eqn:POP; cbn [bind] in LAY; [|discriminate].
  destruct ids0 as [|i0 t0]; [discriminate|].
  destruct (layout_components_n bk o (components (apply_sizes A eqA fixed sizes (i0 :: t0) g)) 0) as [[[ns' es'] xs']|] eqn:LC;
    cbn [bind] in LAY; [|discriminate].
  injection LAY as _ _ _ <-. apply (layout_components_n_xs _ _ _ _ _ _ _ LC).
Qed.
Print Assumptions layout_n_reports_no_crossings.

Section W4n.
  Variable A : Type.
  Variable eqA : A -> A -> bool.
  Hypothesis OK : forall x y, eqA x y = true <-> x = y.
  Variables (bk : Z) (o : options) (fixed : option (Q * Q)) (sizes : option (list (A * (Q * Q)))) (es : list (list A)).
  Variables (ids : list A) (ns : list onode) (oes : list oedge) (xs : list Z).
  Hypothesis O5 : modelled_p5 (o_p5 o).
  Hypothesis LAY : layout_n A eqA bk o fixed sizes es = Ok (ids, (ns, oes, xs)).

  Lemma layout_n_inv : exists g,
    populate A eqA es = Ok (ids, g) /\ ids <> [] /\
    layout_components_n bk o (components (apply_sizes A eqA fixed sizes ids g)) 0 = Ok (ns, oes, xs).
  Proof.
    unfold layout_n in LAY. destruct (populate A eqA es) as [[ids0 g]|] eqn:POP; cbn [bind] in LAY; [|discriminate].
    destruct ids0 as [|i0 t0]; [discriminate|].
    destruct (layout_components_n bk o (components (apply_sizes A eqA fixed sizes (i0 :: t0) g)) 0) as [r|] eqn:LC;
      cbn [bind] in LAY; [|discriminate].
    injection LAY as <- ->. exists g. split; [reflexivity|]. split; [discriminate|exact LC].
  Qed.

  (* every component the layout processes satisfies E1 *)
  Lemma layout_components_n_E1 : forall g, populate A eqA es = Ok (ids, g) ->
    forall c c' x, In c (components (apply_sizes A eqA fixed sizes ids g)) -> layout_component_n bk o c = Ok (c', x) ->
      E1_statement c c'.
  Proof.
    intros g POP c c' x Hc LC.
    destruct (front_components A eqA OK es ids g fixed sizes POP c Hc) as (FC & _).
    destruct (Nat.le_gt_cases 2 (length (g_N c))) as [TWO|ONE].
    - apply (Gn1_output_graph_any bk o c c' x); [|exact O5|exact LC].
      apply (frontend_component_input A eqA OK es ids g fixed sizes POP c Hc TWO).
    - assert (L1 : length (g_N c) = 1).
      { pose proof (fc_nonempty _ FC). destruct (g_N c) as [|n [|m t]]; cbn in *; [congruence|reflexivity|lia]. }
      rewrite (layout_component_n_single bk o c L1) in LC.
      apply (single_E1 o c c' x FC L1 LC).
  Qed.

  Theorem W4a_layout_n_output : o_virtual o = false ->
    NoDup ids /\ (forall x, In x ids <-> exists p, In p es /\ In x p) /\
    Permutation (map on_id ns) (iota 0 (length ids)) /\
    (forall a, In a ns -> exists x, nth_error ids (on_id a) = Some x /\
                                    (on_w a, on_h a) = size_of A eqA fixed sizes x (0, 0)%Q) /\
    Permutation (map (id_pair A ids) oes) es.
  Proof.
    intros OV. destruct layout_n_inv as (g & POP & _ & LC).
    pose proof (populate_wf eqA OK es POP) as P.
    destruct (front_g1 A eqA OK es ids g fixed sizes POP) as (C1 & EA1 & N1 & E1 & NA1 & _ & SZ1).
    set (g1 := apply_sizes A eqA fixed sizes ids g) in *.
    destruct (components_partition g1 C1) as (P1 & _ & _ & _ & _ & P6 & P7 & _). cbv zeta in *.
    destruct (layout_components_n_collected bk o (components g1) 0 ns oes xs OV (layout_components_n_E1 g POP) LC) as [CN CE].
    assert (GN : forall c, In c (components g1) -> forall n, gnode c n = gnode g1 n).
    { intros c Hc n. unfold gnode. destruct (P1 c Hc) as (-> & _). reflexivity. }
    assert (GE : forall c, In c (components g1) -> forall e, gedge c e = gedge g e).
    { intros c Hc e. unfold gedge. destruct (P1 c Hc) as (_ & -> & _). rewrite EA1. reflexivity. }
    (* nodes *)
    assert (CN' : map (fun on => (on_id on, on_w on, on_h on)) ns =
                  map (fun n => (n, n_w (gnode g1 n), n_h (gnode g1 n))) (flat_map g_N (components g1))).
    { rewrite CN, <- flat_map_map_outer. apply flat_map_ext_in. intros c Hc. apply map_ext. intros n.
      rewrite (GN c Hc n). reflexivity. }
    assert (PN : Permutation (flat_map g_N (components g1)) (iota 0 (length ids))).
    { rewrite flat_map_concat_map, <- N1. exact P6. }
    split; [apply (p_nodup P)|]. split.
    { intros x. split; [apply (p_ids_sound P)|]. intros (p & Hp & Hx). apply (p_ids_complete P p x Hp Hx). }
    split.
    { replace (map on_id ns) with (map (fun t : nat * Q * Q => fst (fst t)) (map (fun on => (on_id on, on_w on, on_h on)) ns))
        by (rewrite map_map; reflexivity).
      rewrite CN', map_map. cbn [fst]. rewrite map_id. exact PN. }
    split.
    { intros a Ha.
      assert (Hin : In (on_id a, on_w a, on_h a) (map (fun on => (on_id on, on_w on, on_h on)) ns))
        by (apply (in_map (fun on => (on_id on, on_w on, on_h on))), Ha).
      rewrite CN' in Hin. apply in_map_iff in Hin. destruct Hin as (n & En & Hn). injection En as E1' E2' E3'.
      apply (Permutation_in _ PN) in Hn. apply ListLemmas.in_iota in Hn.
      destruct (nth_error ids n) as [x|] eqn:Ex; [|apply nth_error_None in Ex; lia].
      exists x. rewrite <- E1', <- E2', <- E3'. split; [exact Ex|apply (SZ1 n x Ex)]. }
    (* edges *)
    assert (CE' : map (fun oe => (oe_from oe, oe_to oe)) oes =
                  map (fun e => (e_from (gedge g e), e_to (gedge g e))) (flat_map nl_sl (components g1))).
    { rewrite CE, <- flat_map_map_outer. apply flat_map_ext_in. intros c Hc. apply map_ext. intros e.
      rewrite (GE c Hc e). reflexivity. }
    assert (PE : Permutation (flat_map nl_sl (components g1)) (iota 0 (length es))).
    { eapply Permutation_trans; [|rewrite <- E1; rewrite <- flat_map_concat_map in P7; exact P7].
      apply flat_map_perm_pointwise. intros c _. unfold nl_sl.
      eapply Permutation_trans; [apply Permutation_app_comm|]. apply filter_partition_perm. }
    set (pr := fun t : nat * nat => match nth_error ids (fst t), nth_error ids (snd t) with
                                    | Some s, Some t' => [s; t'] | _, _ => [] end).
    replace (map (id_pair A ids) oes) with (map pr (map (fun oe => (oe_from oe, oe_to oe)) oes))
      by (rewrite map_map; reflexivity).
    rewrite CE', map_map.
    eapply Permutation_trans; [apply Permutation_map, PE|].
    rewrite (map_iota_nth_error _ _ es 0); [apply Permutation_refl|].
    intros i p Hi. cbn [Nat.add]. destruct (p_arity P p (nth_error_In _ _ Hi)) as (s & t & ->).
    destruct (p_edge P i Hi) as (F & T & _). unfold pr. cbn [fst snd]. rewrite F, T. reflexivity.
  Qed.
End W4n.

(* the statement of [BKPipeline2.Gx7_layout_output] (= [Final.G7_layout_output]) for [layout_n bk]: any Brandes-Koepf
   variant, any positioner *)
Theorem Gn7_layout_output : forall (A : Type) (eqA : A -> A -> bool), (forall x y, eqA x y = true <-> x = y) ->
  forall bk o fixed sizes es ids ns oes xs, modelled_p5 (o_p5 o) ->
  layout_n A eqA bk o fixed sizes es = Ok (ids, (ns, oes, xs)) -> o_virtual o = false ->
  NoDup ids /\ (forall x, In x ids <-> exists p, In p es /\ In x p) /\
  Permutation (map on_id ns) (iota 0 (length ids)) /\
  (forall a, In a ns -> exists x, nth_error ids (on_id a) = Some x /\
                                  (on_w a, on_h a) = SizesProofs.size_of A eqA fixed sizes x (0, 0)%Q) /\
  Permutation (map (id_pair A ids) oes) es.
Proof.
  intros A eqA OK bk o fixed sizes es ids ns oes xs O5 LAY OV.
  exact (W4a_layout_n_output A eqA OK bk o fixed sizes es ids ns oes xs O5 LAY OV).
Qed.
Print Assumptions Gn7_layout_output.

(* ====================================================================================================== *)
(** * 4. Examples                                                                                          *)
(* ====================================================================================================== *)

(* the options of WholeCrossings.wc_o with the Brandes-Koepf positioner *)
Definition nx_o : options := mkOptions DepthFirst LongestPath OtherPositioner Polyline 1 0 5 7 false.

Example nx_o_p4 : o_p4 nx_o = OtherPositioner. Proof. reflexivity. Qed.
Example nx_o_p5 : modelled_p5 (o_p5 nx_o). Proof. right; left; reflexivity. Qed.

(* (a) one component: a root above K(3,3), the long edge 6 -> 4 (broken by a helper node), a self loop *)
Definition nx_out : graph := Eval vm_compute in
  match layout_component_n (-1) nx_o wc_g with Ok (g, _) => g | Err _ => empty_graph end.

Example nx_component_runs : layout_component_n (-1) nx_o wc_g = Ok (nx_out, None).
Proof. vm_compute. reflexivity. Qed.

(* the bands keep the order of the layering (the weighted-median heuristic reorders the last band to [4; 6; 5] and reports
   9 crossings), every node is numbered with its index in its band *)
Example nx_component_eval :
  map l_nodes (g_L nx_out) = [[0]; [1; 2; 3; 7]; [4; 5; 6]] /\
  map (pos_of nx_out) (g_N nx_out) = [0; 0; 1; 2; 0; 1; 2; 3]%Z /\
  length (e_pts (gedge nx_out 13)) = 3 /\
  (match layout_component_x (-1) nx_o wc_g with Ok (g, x) => Some (map l_nodes (g_L g), x) | Err _ => None end)
    = Some ([[0]; [1; 2; 3; 7]; [4; 6; 5]], Some 9%Z).
Proof. vm_compute. repeat split; reflexivity. Qed.

(* the theorems on the example: their hypotheses are satisfiable *)
Example nx_backbone : exists g0 del g1 g2 g3 k g3' g4 gm routes g5,
  backbone_n (-1) nx_o wc_g nx_out None g0 del g1 g2 g3 k g3' g4 gm routes g5.
Proof.
  exact (pipeline_backbone_n _ _ _ _ _ wc_input nx_o_p5 (ns_premise_longest_path nx_o _ eq_refl) nx_component_runs).
Qed.

Example nx_Gn : E1_statement wc_g nx_out /\ E2_statement 7 wc_g nx_out /\ E3_statement wc_g nx_out /\
                E4_statement Polyline 7 wc_g nx_out.
Proof.
  pose proof nx_component_runs as R.
  split; [exact (Gn1_output_graph _ _ _ _ _ wc_input nx_o_p4 nx_o_p5 R)|].
  split; [exact (Gn2_bands _ _ _ _ _ wc_input nx_o_p4 nx_o_p5 R)|].
  split; [exact (Gn3_endpoints _ _ _ _ _ wc_input nx_o_p4 nx_o_p5 R)|exact (Gn4_route_shape _ _ _ _ _ wc_input nx_o_p4 nx_o_p5 R)].
Qed.
Print Assumptions nx_Gn.

Example nx_Gn2_sep : forall k n m, In n (l_nodes (glayer nx_out k)) -> In m (l_nodes (glayer nx_out (S k))) ->
  (Phase4.nY nx_out n + Phase4.nH nx_out n + 7 <= Phase4.nY nx_out m)%Q.
Proof. exact (Gn2_band_separation _ _ _ _ _ wc_input nx_o_p4 nx_o_p5 nx_component_runs). Qed.

(* the example is acyclic once its self loop is put aside: no edge carries the arrow-head-at-start flag *)
Definition nx_rk (n : nat) : Z := match n with 0 => 0 | 1 | 2 | 3 => 1 | _ => 2 end.

Example nx_ranked : CBBase.ranked (fst (ignore_self_loops wc_g)).
Proof.
  exists nx_rk.
  assert (F : forallb (fun e => Z.ltb (nx_rk (e_from (gedge (fst (ignore_self_loops wc_g)) e)))
                                      (nx_rk (e_to (gedge (fst (ignore_self_loops wc_g)) e))))
                      (g_E (fst (ignore_self_loops wc_g))) = true) by (vm_compute; reflexivity).
  intros e He. rewrite forallb_forall in F. apply Z.ltb_lt. exact (F e He).
Qed.

Example nx_Gn2_acyclic : forall e, In e (g_E wc_g) -> self_loop wc_g e = false -> e_ahs (gedge nx_out e) = false.
Proof. exact (Gn2_acyclic_input_has_no_upward_edge _ _ _ _ _ wc_input nx_o_p4 nx_o_p5 nx_component_runs nx_ranked). Qed.

(* (b) the whole layout: WholeLayout.wl_edges — a diamond with the long edge 10 -> 40 and a self loop, a single node
   with a self loop and its own size, an antiparallel pair *)
Definition nx_result := Eval vm_compute in
  match layout_n nat Nat.eqb (-1) nx_o (Some (10, 6)%Q) wl_sizes wl_edges with
  | Ok (_, r) => r
  | Err _ => ([], [], [])
  end.
Definition nx_ns : list onode := fst (fst nx_result).
Definition nx_oes : list oedge := snd (fst nx_result).
Definition nx_xs : list Z := snd nx_result.

Example nx_layout_n :
  layout_n nat Nat.eqb (-1) nx_o (Some (10, 6)%Q) wl_sizes wl_edges = Ok (wl_ids, (nx_ns, nx_oes, nx_xs)).
Proof. vm_compute. reflexivity. Qed.

Example nx_layout_n_eval :
  map on_id nx_ns = [0; 1; 2; 3; 4; 5; 6] /\
  map (fun e => (oe_from e, oe_to e, length (oe_pts e), oe_ahs e)) nx_oes =
    [(0, 1, 2, false); (0, 2, 2, false); (1, 3, 2, false); (2, 3, 2, false); (0, 3, 3, false); (3, 3, 0, false);
     (4, 4, 0, false); (5, 6, 2, false); (6, 5, 2, true)].
Proof. vm_compute. repeat split; reflexivity. Qed.

Example nx_no_crossings : nx_xs = [].
Proof. exact (layout_n_reports_no_crossings nat Nat.eqb _ _ _ _ _ _ _ _ _ nx_layout_n). Qed.

Example nx_Gn7 :
  Permutation (map on_id nx_ns) (iota 0 7) /\ Permutation (map (id_pair nat wl_ids) nx_oes) wl_edges.
Proof.
  destruct (Gn7_layout_output nat Nat.eqb Nat.eqb_eq (-1) nx_o (Some (10, 6)%Q) wl_sizes wl_edges wl_ids nx_ns nx_oes nx_xs
              nx_o_p5 nx_layout_n eq_refl) as (_ & _ & A & _ & B).
  split; assumption.
Qed.
Print Assumptions nx_Gn7.
