(* NoopTotal.v — "Layout always returns" with the no-op ordering: [layout_component_n] and [layout_n]
   (Model/PipelineNoop.v) return Ok, under the input conditions of BKTotal3.layout_x_total (the Brandes-Koepf positioner or
   one of VAlign / PackRight / SinkColoring, a modelled router, the pivot budget of network simplex).
   Mirrors BKTotal3.v / TotalPipeline.v; phase 3 is total because break_long_edges is (NoopPipeline.phase3_noop_contract),
   and its result satisfies the ordering contract (NoopPipeline.number_positions_contract_wm), which is all that the
   totality proofs of phase 4 and 5 use about the ordered state. *)
From Autog Require Import Base Graph Populate Phase1 Phase2 Phase3 Phase4 Phase5 Layout Wmedian Pipeline BK PipelineBK PipelineNoop.
From Autog.Proofs Require Import ListLemmas Consistent SelfLoopProofs ComponentsProofs.
From Autog.Proofs Require CBBase CBGreedy CBGreedyRanks CBDepthFirst CBHasCycles CycleBreaking LongestPath
                          OptNormalize OptVbalance OptPipeline WmedianProofs Optimality NSOptFinal.
From Autog.Proofs Require Import Positioners Routes BreakMerge SinkColoringProofs E2EBridge E2EBackbone E2EOutput
                                 E2EFrontend NSBridge WholeBridge.
From Autog.Proofs Require NSDefs OptInit TotalNS TotalWmedian TotalSink PopulateProofs SizesProofs Summary.
From Autog.Proofs Require Import TotalPipeline.
Import TotalNS.
From Autog.Proofs Require BKProofs BKTotal BKTotal2.
From Autog.Proofs Require Import BKTotal3 NoopPipeline.
From Coq Require Import Permutation Lia Lqa.
Local Open Scope nat_scope.

(* ====================================================================================================== *)
(** * 1. One component                                                                                     *)
(* ====================================================================================================== *)
Theorem layout_component_n_total : forall bk o g,
  component_input g -> modelled_p5 (o_p5 o) -> o_p4 o = OtherPositioner \/ modelled_p4 (o_p4 o) -> p2_ready o g ->
  exists g', layout_component_n bk o g = Ok (g', None).
Proof.
  intros bk o g CI O5 O4 RD. unfold layout_component_n.
  destruct (ignore_self_loops g) as [g0 del] eqn:E0.
  assert (Eg0 : g0 = fst (ignore_self_loops g)) by (rewrite E0; reflexivity).
  destruct (phase1_returns o g CI) as [g1 P1]. rewrite <- Eg0 in P1. rewrite P1. cbn [bind].
  pose proof (stage01_ok o g g0 del g1 CI E0 P1) as S01.
  destruct (phase2_returns o g g0 del g1 CI S01 RD) as [g2 P2]. rewrite P2. cbn [bind].
  assert (TWO1 : 2 <= length (g_N g1)).
  { destruct (rev_star_frame _ _ (s1_rs _ _ _ _ S01)) as (-> & _). rewrite (s0_N _ _ _ _ S01). apply (ci_two _ CI). }
  pose proof (ns_premise_holds o g CI) as NS.
  assert (LO : forall g2a, match o_p2 o with
                           | LongestPath => exec_longest_path g1
                           | NetworkSimplex => exec_network_simplex (Layout.ns_params o) g1
                           end = Ok g2a -> layering_ok g1 g2a).
  { intros g2a Hg. destruct (o_p2 o) eqn:EA.
    - apply lp_layering_ok; [apply (s1_c _ _ _ _ S01)|apply (s1_ranked _ _ _ _ S01)| |exact Hg].
      intros e He. apply (s1_edge _ _ _ _ S01 e He).
    - apply (NS EA g1); [rewrite <- Eg0; exact P1|exact Hg]. }
  pose proof (phase2_no_empty_band o g g0 del g1 g2 S01 TWO1 P2) as NE2.
  destruct (stage23_ok (o_p2 o) (Layout.ns_params o) g1 g2 (s1_c _ _ _ _ S01) (s1_nonvirt _ _ _ _ S01) TWO1
              (s1_some_edge _ _ _ _ S01) LO P2) as (g3 & k & BR & S23).
  (* phase 3 *)
  destruct (phase3_noop_contract g1 g2 g3 k (s1_c _ _ _ _ S01) S23 BR) as (P3 & OC & OCw & _).
  rewrite P3. cbn [bind].
  pose proof (stage23_layered g1 g2 g3 k (s1_c _ _ _ _ S01) S23 BR) as LY3.
  set (g3' := number_positions g3) in *.
  (* phase 4 *)
  pose proof S23 as [PP PRE LOK WF2 PL2 INL2 ENDS TWO L1 S1 S2 S3 S4 S5 S6 S7 S8 WF3 PL3 SL SLH SUB SINL].
  destruct (order_contract_facts g3 g3' OC) as (T1 & OWF & OPL & OIN & OINL & OLH).
  pose proof OC as [Q1 Q2 Q3 Q4 Q5 Q6 Q7 Q8].
  assert (N3' : Nat.eqb (length (g_N g3')) 1 = false).
  { apply Nat.eqb_neq. rewrite Q2, S2, app_length. lia. }
  assert (P4 : exists g4, phase4x bk (o_p4 o) (p4_params o) g3' = Ok g4 /\ same_topology g3' g4).
  { destruct O4 as [O4|O4].
    - unfold phase4x. rewrite O4.
      pose proof (ordered_bk_wf g1 g2 g3 k g3' S23 LY3 OCw NE2) as BW.
      destruct (BKTotal2.phase4_bk_total bk (p4_params o) g3' BW) as [g4 P4]. exists g4. split; [exact P4|].
      apply (phase4_bk_same_topology bk (p4_params o) g3' g4 N3' P4).
    - assert (P4 : exists g4, phase4 (o_p4 o) (p4_params o) g3' = Ok g4).
      { unfold phase4. rewrite N3'. destruct O4 as [EA|[EA|EA]]; rewrite EA; cbn [bind]; try (eexists; reflexivity).
        destruct (TotalSink.exec_sink_coloring_total (node_spacing (p4_params o)) g3'
                    (ordered_sc_proper g3 g3' LY3 (s3_span _ _ _ _ S23) OCw)) as [g4 E4].
        rewrite E4. cbn [bind]. eexists. reflexivity. }
      destruct P4 as [g4 P4]. exists g4.
      assert (NO : o_p4 o <> OtherPositioner) by (destruct O4 as [E|[E|E]]; rewrite E; discriminate).
      split; [rewrite BKPipeline.phase4x_eq by exact NO; exact P4|].
      assert (LH3' : forall kk, (0 <= l_h (glayer g3' kk))%Q).
      { intros kk. rewrite OLH, SLH. destruct (p2_wh _ _ PP kk) as [_ ->]. apply Qle_refl. }
      destruct (phase4_facts (o_p4 o) (p4_params o) g3' g4 O4 N3' P4 (OWF WF3) LH3') as (F1 & F2 & F3 & F4 & F5 & F6 & F7 & F8 & F9 & F10).
      split; [exact F1|]. split; [exact F3|]. split; [exact F4|]. intros n.
      destruct (set_xy_fields _ _ (F5 n)) as (-> & -> & -> & _ & -> & _). repeat split; reflexivity. }
  destruct P4 as (g4 & P4 & T2). rewrite P4. cbn [bind].
  (* phase 5 *)
  pose proof (same_topology_trans _ _ _ T1 T2) as T.
  destruct (break_phase4_merge_roundtrip g2 g3 g4 PRE BR T)
    as (gm & routes & M & A1 & A2 & A3 & A4' & A5' & A6 & A7 & A8 & A9).
  assert (ND : NoDup (map fst routes)) by (rewrite A8; apply (bp_nodup PRE)).
  destruct (phase5_returns (o_p5 o) (o_layer_spacing o) g2 g4 gm routes O5 M ND A9) as [g5 P5].
  rewrite P5. cbn [bind]. eexists. reflexivity.
Qed.
Print Assumptions layout_component_n_total.

(* ====================================================================================================== *)
(** * 2. The whole Layout                                                                                  *)
(* ====================================================================================================== *)
Lemma single_node_component_n_total : forall bk o c,
  length (g_N c) = 1 -> (forall n, In n (g_N c) -> (0 <= layer_of c n)%Z) ->
  exists g', layout_component_n bk o c = Ok (g', None).
Proof.
  intros bk o c ONE NN. unfold layout_component_n.
  destruct (ignore_self_loops c) as [g0 del] eqn:E0.
  assert (Eg0 : g0 = fst (ignore_self_loops c)) by (rewrite E0; reflexivity).
  assert (N0 : g_N g0 = g_N c) by (rewrite Eg0; apply ignore_self_loops_N).
  assert (ONE0 : Nat.eqb (length (g_N g0)) 1 = true) by (rewrite N0, ONE; reflexivity).
  unfold phase1. rewrite ONE0. cbn [bind].
  unfold phase2, assign_layers. rewrite ONE0. cbn [bind].
  assert (NN0 : OptVbalance.layers_nonneg g0).
  { intros n Hn. rewrite N0 in Hn. unfold layer_of. rewrite Eg0.
    destruct (node_attrs_fields _ _ (ignore_self_loops_attrs c n)) as (-> & _). apply (NN n Hn). }
  destruct (init_layer_slices_total g0 NN0) as [g2 E2]. rewrite E2. cbn [bind].
  destruct (slices_facts g0 g2 E2) as (_ & _ & N2 & _).
  assert (ONE2 : Nat.eqb (length (g_N g2)) 1 = true) by (rewrite N2; exact ONE0).
  unfold phase3_noop. rewrite ONE2. cbn [bind].
  rewrite (BKTotal3.phase4x_single bk (o_p4 o) (p4_params o) g2 ONE2).
  unfold phase4. rewrite ONE2.
  destruct (g_N g2) as [|n t] eqn:EN; [cbn in ONE2; discriminate|]. cbn [bind].
  unfold phase5. cbn [upd_layer with_L g_N]. rewrite EN. cbn [length] in *. rewrite ONE2.
  cbn [bind]. eexists. reflexivity.
Qed.

Lemma layout_components_n_total : forall bk o cs shift,
  (forall c, In c cs -> exists g', layout_component_n bk o c = Ok (g', None)) ->
  exists ns oes, layout_components_n bk o cs shift = Ok (ns, oes, []).
Proof.
  intros bk o cs; induction cs as [|c rest IH]; intros shift H; cbn [layout_components_n].
  - eexists. eexists. reflexivity.
  - destruct (H c (or_introl eq_refl)) as (g' & E). rewrite E. cbn [bind].
    destruct (IH (shift + rightmost g' + o_node_spacing o)%Q (fun c' Hc' => H c' (or_intror Hc'))) as (ns & es & E').
    rewrite E'. cbn [bind]. eexists. eexists. reflexivity.
Qed.

Section LayoutNTotal.
  Variable A : Type.
  Variable eqA : A -> A -> bool.
  Hypothesis eqA_ok : forall x y, eqA x y = true <-> x = y.

  (* the statement of BKTotal3.layout_x_total for [layout_n], same conditions ([BKTotal3.layout_x_options_ok]: the ordering
     needs no condition; the budget condition concerns the network-simplex LAYERING); moreover the result reports no
     crossing number *)
  Theorem layout_n_total_strong : forall bk o fixed sizes es,
    es <> [] -> Forall (fun p => length p = 2) es -> layout_x_options_ok A o es ->
    exists ids ns oes, layout_n A eqA bk o fixed sizes es = Ok (ids, (ns, oes, [])).
  Proof.
    intros bk o fixed sizes es NE ARITY (O4 & O5 & BUD). unfold layout_n.
    destruct (proj2 (@PopulateProofs.populate_ok_iff A eqA es) ARITY) as (ids & g & POP).
    rewrite POP. cbn [bind].
    pose proof (PopulateProofs.populate_wf eqA eqA_ok es POP) as P.
    (* ids is not empty *)
    assert (Hids : exists i0 ids', ids = i0 :: ids').
    { destruct ids as [|i0 ids']; [|eauto]. exfalso. destruct es as [|p es']; [congruence|].
      destruct (PopulateProofs.p_arity P p (or_introl eq_refl)) as (s & t & ->).
      apply (PopulateProofs.p_ids_complete P [s; t] s (or_introl eq_refl) (or_introl eq_refl)). }
    destruct Hids as (i0 & ids' & EI).
    assert (Hmatch : forall (X : Type) (a b : X), match ids with [] => a | _ :: _ => b end = b) by (intros; rewrite EI; reflexivity).
    rewrite Hmatch.
    destruct (Summary.frontend_consistent A eqA eqA_ok es ids g fixed sizes POP) as [C1 CC]. cbv zeta in *.
    set (g1 := apply_sizes A eqA fixed sizes ids g) in *.
    destruct (SizesProofs.apply_sizes_spec A eqA fixed sizes ids g (PopulateProofs.p_na_len P)) as (S1 & S2 & S3 & S4 & S5 & S6).
    cbv zeta in *. fold g1 in S1, S2, S3, S4, S5, S6.
    destruct (components_partition g1 C1) as (P1 & P2 & _ & _ & _ & _ & _ & _ & _ & _ & P11 & _). cbv zeta in *.
    (* the number of nodes *)
    assert (LenIds : length ids <= 2 * length es).
    { rewrite <- (length_concat_pairs A es ARITY). apply (NoDup_incl_length (PopulateProofs.p_nodup P)).
      intros x Hx. destruct (PopulateProofs.p_ids_sound P x Hx) as (p & Hp & Hxp). apply in_concat. eauto. }
    destruct (layout_components_n_total bk o (components g1) 0%Q) as (ns & oes & E); [|rewrite E; cbn [bind]; eauto].
    intros c Hc.
    assert (LenC : length (g_N c) <= length ids).
    { rewrite (P2 c Hc). eapply Nat.le_trans; [apply filter_length_le'|].
      rewrite S2, (PopulateProofs.p_N P), SinkColoringProofs.length_iota. lia. }
    destruct (Nat.le_gt_cases 2 (length (g_N c))) as [TWO|SMALL].
    - apply layout_component_n_total.
      + apply (frontend_component_input A eqA eqA_ok es ids g fixed sizes POP c Hc TWO).
      + exact O5.
      + exact O4.
      + intros ENS. split; [apply (component_connected g1 c C1 Hc)|].
        apply (sqrt_budget_mono _ (length (g_N c)) (2 * length es)); [lia|apply BUD, ENS].
    - assert (ONE : length (g_N c) = 1).
      { pose proof (P11 c Hc) as NEc. destruct (g_N c); [congruence|cbn [length] in *; lia]. }
      apply single_node_component_n_total; [exact ONE|].
      intros n Hn. destruct (P1 c Hc) as (NA & _ & _). unfold layer_of, gnode. rewrite NA. fold (gnode g1 n).
      assert (Hlt : n < length ids).
      { rewrite (P2 c Hc) in Hn. apply filter_In in Hn. destruct Hn as [Hn _].
        rewrite S2, (PopulateProofs.p_N P) in Hn. apply ListLemmas.in_iota in Hn. lia. }
      destruct (nth_error ids n) as [x|] eqn:En; [|apply nth_error_None in En; lia].
      destruct (S6 n x En) as (_ & _ & _ & -> & _).
      destruct (PopulateProofs.p_node_rest P Hlt) as (-> & _). lia.
  Qed.

  (* the requested form: the statement of BKTotal3.layout_x_total *)
  Theorem layout_n_total : forall bk o fixed sizes es,
    es <> [] -> Forall (fun p => length p = 2) es -> layout_x_options_ok A o es ->
    exists ids r, layout_n A eqA bk o fixed sizes es = Ok (ids, r).
  Proof.
    intros bk o fixed sizes es NE ARITY OO.
    destruct (layout_n_total_strong bk o fixed sizes es NE ARITY OO) as (ids & ns & oes & E). eauto.
  Qed.
End LayoutNTotal.
Print Assumptions layout_n_total.
Print Assumptions layout_n_total_strong.

(* ====================================================================================================== *)
(** * 3. Examples: the hypotheses are satisfiable                                                          *)
(* ====================================================================================================== *)
(* the input of TotalPipeline.v: a cycle, a long edge 1->4 over 2->5->4, a self-loop-only node, a second component *)
Example ex_layout_n_total_ns : forall bk,
  exists ids r, layout_n nat Nat.eqb bk (ex_opts Greedy NetworkSimplex OtherPositioner Polyline) None None ex_input = Ok (ids, r).
Proof.
  intros bk. apply (layout_n_total nat Nat.eqb nat_eqb_ok).
  - discriminate.
  - repeat constructor.
  - split; [left; reflexivity|]. split; [right; left; reflexivity|]. intros _. vm_compute. discriminate.
Qed.

Example ex_layout_n_total_lp : forall bk,
  exists ids r, layout_n nat Nat.eqb bk (ex_opts DepthFirst LongestPath SinkColoring Ortho) None None ex_input = Ok (ids, r).
Proof.
  intros bk. apply (layout_n_total nat Nat.eqb nat_eqb_ok).
  - discriminate.
  - repeat constructor.
  - split; [right; right; right; reflexivity|]. split; [right; right; reflexivity|]. intros E. discriminate E.
Qed.

Example ex_layout_n_runs :
  map (fun bk => is_ok (layout_n nat Nat.eqb bk (ex_opts Greedy NetworkSimplex OtherPositioner Polyline) None None ex_input))
      [-1; 0; 1; 2; 3]%Z = [true; true; true; true; true].
Proof. vm_compute. reflexivity. Qed.
