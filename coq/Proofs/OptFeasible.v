(* OptFeasible.v — PART 3: feasibility (all slacks >= 0) is preserved by the steps of the algorithm.
   - [tree_shift_feasible]: the step of feasible_loop (shift the tree by the slack of a minimal crossing edge)
   - [min_slack_spec], [exchange_feasible], [pivot_step_feasible]: the pivot step
   - [tight_tree_spec]: tight_tree changes nothing but tree flags, and only on tight edges *)
From Autog Require Import Base Graph Populate Phase2 Optimality OptNormalize OptVbalance.

(* ------------------------------------------------------------------------------------------------ *)
(* graph updates that keep nodes and the geometry of the edges                                       *)
(* ------------------------------------------------------------------------------------------------ *)
Definition egeom (a b : edge) : Prop :=
  e_from a = e_from b /\ e_to a = e_to b /\ e_delta a = e_delta b /\ e_weight a = e_weight b.

Definition geom_same (g g' : graph) : Prop :=
  g_na g' = g_na g /\ g_N g' = g_N g /\ g_E g' = g_E g /\ forall e, egeom (gedge g' e) (gedge g e).

Lemma egeom_refl : forall a, egeom a a.
Proof. intros a. repeat split. Qed.

Lemma egeom_trans : forall a b c, egeom a b -> egeom b c -> egeom a c.
Proof. intros a b c (A1 & A2 & A3 & A4) (B1 & B2 & B3 & B4). repeat split; congruence. Qed.

Lemma geom_same_refl : forall g, geom_same g g.
Proof. intros g. repeat split. Qed.

Lemma geom_same_trans : forall g1 g2 g3, geom_same g1 g2 -> geom_same g2 g3 -> geom_same g1 g3.
Proof.
  intros g1 g2 g3 (A1 & A2 & A3 & A4) (B1 & B2 & B3 & B4).
  repeat split; try congruence; destruct (A4 e) as (P1 & P2 & P3 & P4); destruct (B4 e) as (Q1 & Q2 & Q3 & Q4);
    congruence.
Qed.

Lemma gedge_upd_edge : forall g a k e,
  gedge (upd_edge g a k) e =
  if (Nat.eqb e a && Nat.ltb e (length (g_ea g)))%bool then k (gedge g e) else gedge g e.
Proof. intros g a k e. unfold gedge, upd_edge, with_ea; cbn [g_ea]. apply nth_upd. Qed.

Lemma geom_same_upd_edge : forall g a k, (forall ed, egeom (k ed) ed) -> geom_same g (upd_edge g a k).
Proof.
  intros g a k Hk. repeat split; rewrite gedge_upd_edge;
    destruct (Nat.eqb e a && Nat.ltb e (length (g_ea g)))%bool; try reflexivity; apply Hk.
Qed.

Lemma slack_geom_same : forall g g' e, geom_same g g' -> slack g' e = slack g e.
Proof.
  intros g g' e (A1 & _ & _ & A4). destruct (A4 e) as (P1 & P2 & P3 & _).
  unfold slack, layer_of, gnode. cbv zeta. rewrite A1, P1, P2, P3. reflexivity.
Qed.

Arguments slack_geom_same {g g'}.

Lemma geom_same_fold : forall (F : graph -> nat -> graph),
  (forall g e, geom_same g (F g e)) -> forall l g, geom_same g (fold_left F l g).
Proof.
  intros F HF l; induction l as [|x t IH]; intros g; cbn [fold_left]; [apply geom_same_refl|].
  eapply geom_same_trans; [apply HF | apply IH].
Qed.

Lemma set_cut_values_geom : forall g ll, geom_same g (set_cut_values g ll).
Proof.
  intros g ll. unfold set_cut_values. apply geom_same_fold. intros g1 e.
  destruct (negb (e_tree (gedge g1 e))); [apply geom_same_refl|].
  apply geom_same_upd_edge. intros ed. repeat split.
Qed.

Lemma feasible_geom_same : forall g g', geom_same g g' -> feasible g -> feasible g'.
Proof.
  intros g g' G Hf e He. pose proof G as (A1 & A2 & A3 & A4). rewrite A3 in He.
  rewrite (slack_geom_same e G). apply Hf. exact He.
Qed.

Arguments feasible_geom_same {g g'}.

(* ------------------------------------------------------------------------------------------------ *)
(* slack after shifting a set of nodes                                                               *)
(* ------------------------------------------------------------------------------------------------ *)
Lemma slack_shift : forall g d (p : nat -> bool) l e,
  NoDup l -> (forall n, In n l -> (n < length (g_na g))%nat) ->
  slack (shift_nodes (fun z => z + d) p l g) e =
  slack g e + (if (mem_nat (e_to (gedge g e)) l && p (e_to (gedge g e)))%bool then d else 0)
            - (if (mem_nat (e_from (gedge g e)) l && p (e_from (gedge g e)))%bool then d else 0).
Proof.
  intros g d p l e Hnd Hr.
  destruct (shift_nodes_spec (fun z => z + d) p l g Hnd Hr) as [L Hl].
  unfold slack. cbv zeta. rewrite (lay_only_gedge L e). rewrite !Hl.
  destruct (mem_nat (e_to (gedge g e)) l && p (e_to (gedge g e)))%bool;
    destruct (mem_nat (e_from (gedge g e)) l && p (e_from (gedge g e)))%bool; lia.
Qed.

(* ------------------------------------------------------------------------------------------------ *)
(* 3: the step of feasible_loop                                                                      *)
(* ------------------------------------------------------------------------------------------------ *)
Definition crossing (g : graph) (tree : list nat) (e : nat) : Prop :=
  mem_nat (e_from (gedge g e)) tree <> mem_nat (e_to (gedge g e)) tree.

(* the graph feasible_loop continues with, once it has chosen the edge e *)
Definition tree_shift (g : graph) (tree : list nat) (e : nat) : graph :=
  let d := slack g e in
  let d := if mem_nat (e_to (gedge g e)) tree then - d else d in
  fold_left (fun g n => upd_node g n (fun nd => set_layer (n_layer nd + d) nd)) tree g.

Theorem tree_shift_feasible : forall g tree e,
  NoDup tree -> (forall n, In n tree -> (n < length (g_na g))%nat) ->
  feasible g -> In e (g_E g) -> crossing g tree e ->
  (* e has minimal slack among the edges crossing the tree boundary in the same direction *)
  (forall e', In e' (g_E g) -> crossing g tree e' ->
              mem_nat (e_to (gedge g e')) tree = mem_nat (e_to (gedge g e)) tree ->
              slack g e <= slack g e') ->
  feasible (tree_shift g tree e) /\
  slack (tree_shift g tree e) e = 0 /\
  (forall e', ~ crossing g tree e' -> slack (tree_shift g tree e) e' = slack g e').
Proof.
  intros g tree e Hnd Hr Hf He Hc Hmin.
  unfold tree_shift. cbv zeta.
  set (d := if mem_nat (e_to (gedge g e)) tree then - slack g e else slack g e).
  change (fold_left (fun g n => upd_node g n (fun nd => set_layer (n_layer nd + d) nd)) tree g)
    with (shift_nodes (fun z => z + d) (fun _ => true) tree g).
  assert (Hs : forall e', slack (shift_nodes (fun z => z + d) (fun _ => true) tree g) e' =
                          slack g e' + (if mem_nat (e_to (gedge g e')) tree then d else 0)
                                     - (if mem_nat (e_from (gedge g e')) tree then d else 0)).
  { intros e'. rewrite (slack_shift g d (fun _ => true) tree e' Hnd Hr). rewrite !andb_true_r. reflexivity. }
  assert (L : lay_only g (shift_nodes (fun z => z + d) (fun _ => true) tree g))
    by (apply (shift_nodes_spec (fun z => z + d) (fun _ => true) tree g Hnd Hr)).
  pose proof (Hf e He) as Hse.
  unfold crossing in Hc.
  split; [|split].
  - intros e' He'. rewrite (lay_only_E L) in He'. rewrite Hs. pose proof (Hf e' He') as Hse'.
    specialize (Hmin e' He'). unfold crossing in Hmin. unfold d.
    destruct (mem_nat (e_to (gedge g e')) tree) eqn:T'; destruct (mem_nat (e_from (gedge g e')) tree) eqn:F';
      destruct (mem_nat (e_to (gedge g e)) tree) eqn:T; destruct (mem_nat (e_from (gedge g e)) tree) eqn:F;
      try congruence; try lia;
      (assert (Hm : slack g e <= slack g e') by (apply Hmin; congruence); lia).
  - rewrite Hs. unfold d.
    destruct (mem_nat (e_to (gedge g e)) tree) eqn:T; destruct (mem_nat (e_from (gedge g e)) tree) eqn:F;
      try congruence; lia.
  - intros e' Hnc. rewrite Hs. unfold crossing in Hnc.
    destruct (mem_nat (e_to (gedge g e')) tree) eqn:T'; destruct (mem_nat (e_from (gedge g e')) tree) eqn:F';
      try lia; exfalso; apply Hnc; congruence.
Qed.
Print Assumptions tree_shift_feasible.

(* ------------------------------------------------------------------------------------------------ *)
(* first-minimum selection folds (min_slack_non_tree_edge, incident_non_tree_edge)                    *)
(* ------------------------------------------------------------------------------------------------ *)
Section ArgMin.
  Variable A : Type.
  Variables (keep : A -> bool) (key : A -> Z) (out : A -> nat).

  Definition amin_step (acc : option Z * option nat) (x : A) : option Z * option nat :=
    if keep x then
      match fst acc with
      | Some ms => if key x <? ms then (Some (key x), Some (out x)) else acc
      | None => (Some (key x), Some (out x))
      end
    else acc.

  Definition amin_inv (seen : list A) (acc : option Z * option nat) : Prop :=
    match acc with
    | (None, None) => forall x, In x seen -> keep x = false
    | (Some s, Some r) => (exists x, In x seen /\ keep x = true /\ key x = s /\ out x = r) /\
                          forall x, In x seen -> keep x = true -> s <= key x
    | _ => False
    end.

  Lemma amin_fold : forall l seen acc, amin_inv seen acc ->
    amin_inv (seen ++ l) (fold_left amin_step l acc).
  Proof.
    induction l as [|x t IH]; intros seen acc I; cbn [fold_left].
    - rewrite app_nil_r. exact I.
    - replace (seen ++ x :: t) with ((seen ++ [x]) ++ t) by (rewrite <- app_assoc; reflexivity).
      apply IH. unfold amin_step. destruct acc as [[s|] [r|]]; cbn [fst amin_inv] in *; try contradiction.
      + destruct I as [[w (Hw1 & Hw2 & Hw3 & Hw4)] Hmin].
        destruct (keep x) eqn:Ek.
        * destruct (key x <? s) eqn:El.
          -- apply Z.ltb_lt in El. split.
             ++ exists x. split; [apply in_or_app; right; left; reflexivity|]. repeat split; assumption.
             ++ intros y Hy Hky. apply in_app_or in Hy. destruct Hy as [Hy|[Hy|[]]].
                ** specialize (Hmin y Hy Hky). lia.
                ** subst y. lia.
          -- apply Z.ltb_ge in El. split.
             ++ exists w. split; [apply in_or_app; left; exact Hw1|]. repeat split; assumption.
             ++ intros y Hy Hky. apply in_app_or in Hy. destruct Hy as [Hy|[Hy|[]]].
                ** apply Hmin; assumption.
                ** subst y. exact El.
        * split.
          -- exists w. split; [apply in_or_app; left; exact Hw1|]. repeat split; assumption.
          -- intros y Hy Hky. apply in_app_or in Hy. destruct Hy as [Hy|[Hy|[]]].
             ++ apply Hmin; assumption.
             ++ subst y. congruence.
      + destruct (keep x) eqn:Ek.
        * split.
          -- exists x. split; [apply in_or_app; right; left; reflexivity|]. repeat split; assumption.
          -- intros y Hy Hky. apply in_app_or in Hy. destruct Hy as [Hy|[Hy|[]]].
             ++ rewrite (I y Hy) in Hky. discriminate.
             ++ subst y. lia.
        * intros y Hy. apply in_app_or in Hy. destruct Hy as [Hy|[Hy|[]]]; [apply I; exact Hy | subst y; exact Ek].
  Qed.

  Lemma amin_spec : forall l r, snd (fold_left amin_step l (None, None)) = Some r ->
    (exists x, In x l /\ keep x = true /\ out x = r /\ forall y, In y l -> keep y = true -> key x <= key y).
  Proof.
    intros l r H.
    assert (I0 : amin_inv [] (None, None)) by (cbn; intros x []).
    pose proof (amin_fold l [] (None, None) I0) as I. cbn [app] in I.
    destruct (fold_left amin_step l (None, None)) as [[s|] [r'|]]; cbn [snd] in H; cbn [amin_inv] in I;
      try contradiction; try discriminate.
    inversion H; subst r'. destruct I as [[x (Hx1 & Hx2 & Hx3 & Hx4)] Hmin].
    exists x. repeat split; try assumption. intros y Hy Hk. rewrite Hx3. apply Hmin; assumption.
  Qed.

  Lemma amin_none : forall l, snd (fold_left amin_step l (None, None)) = None ->
    forall x, In x l -> keep x = false.
  Proof.
    intros l H.
    assert (I0 : amin_inv [] (None, None)) by (cbn; intros x []).
    pose proof (amin_fold l [] (None, None) I0) as I. cbn [app] in I.
    destruct (fold_left amin_step l (None, None)) as [[s|] [r'|]]; cbn [snd] in H; cbn [amin_inv] in I;
      try contradiction; try discriminate.
    exact I.
  Qed.
End ArgMin.
Arguments amin_step {A}. Arguments amin_spec {A}. Arguments amin_none {A}.

Lemma fold_left_ext : forall A B (f f' : A -> B -> A) l a,
  (forall a b, f a b = f' a b) -> fold_left f l a = fold_left f' l a.
Proof.
  intros A B f f' l; induction l as [|x t IH]; intros a H; cbn [fold_left]; [reflexivity|].
  rewrite H. apply IH. exact H.
Qed.

Arguments fold_left_ext {A B}.

(* ------------------------------------------------------------------------------------------------ *)
(* 3: the pivot step                                                                                 *)
(* ------------------------------------------------------------------------------------------------ *)
(* head -> tail edges w.r.t. the tree edge e, as in_head_component sees them *)
Definition head_to_tail (g : graph) (ll : limlow) (e f : nat) : bool :=
  in_head_component g ll (e_from (gedge g f)) e && negb (in_head_component g ll (e_to (gedge g f)) e).

Theorem min_slack_spec : forall g ll e f, min_slack_non_tree_edge g ll e = Some f ->
  In f (g_E g) /\ f <> e /\ e_tree (gedge g f) = false /\ head_to_tail g ll e f = true /\
  forall f', In f' (g_E g) -> f' <> e -> e_tree (gedge g f') = false -> head_to_tail g ll e f' = true ->
             slack g f <= slack g f'.
Proof.
  intros g ll e f H. unfold min_slack_non_tree_edge in H.
  set (keep := fun f => (negb (Nat.eqb f e || e_tree (gedge g f)) && head_to_tail g ll e f)%bool).
  rewrite (fold_left_ext _ (amin_step keep (slack g) (fun f => f))) in H.
  2:{ intros acc x. unfold amin_step, keep, head_to_tail.
      destruct (Nat.eqb x e || e_tree (gedge g x))%bool; cbn [negb andb]; [reflexivity|].
      destruct (in_head_component g ll (e_from (gedge g x)) e && negb (in_head_component g ll (e_to (gedge g x)) e))%bool;
        reflexivity. }
  apply amin_spec in H. destruct H as [x (Hx1 & Hx2 & Hx3 & Hmin)]. subst x.
  unfold keep in Hx2. apply andb_prop in Hx2. destruct Hx2 as [Ha Hb].
  apply negb_true_iff in Ha. apply orb_false_iff in Ha. destruct Ha as [Ha1 Ha2]. apply Nat.eqb_neq in Ha1.
  repeat split; try assumption.
  intros f' Hf' Hne Ht Hh. apply Hmin; [exact Hf'|]. unfold keep.
  apply Nat.eqb_neq in Hne. rewrite Hne, Ht, Hh. reflexivity.
Qed.
Print Assumptions min_slack_spec.

(* exchange keeps all slacks >= 0 if f has minimal slack among ALL head -> tail edges *)
Theorem exchange_feasible : forall g ll e f g' ll',
  nodes_wf g -> edges_in g -> feasible g -> In f (g_E g) ->
  (forall f', In f' (g_E g) -> head_to_tail g ll e f' = true -> slack g f <= slack g f') ->
  exchange g ll e f = Ok (g', ll') ->
  feasible g' /\ (head_to_tail g ll e f = true -> slack g' f = 0).
Proof.
  intros g ll e f g' ll' [Hnd Hr] Ein Hf HfE Hmin Hex.
  unfold exchange in Hex. cbv zeta in Hex.
  set (d := slack g f) in *.
  set (g1 := if 0 <? d
             then fold_left (fun g' n => if negb (in_head_component g ll n e)
                                         then upd_node g' n (fun nd => set_layer (n_layer nd - d) nd) else g')
                            (g_N g) g
             else g) in *.
  set (g2 := upd_edge (upd_edge g1 e (set_tree false)) f (set_tree true)) in *.
  destruct (set_stree_values g2) as [ll2|err] eqn:Es; cbn [bind] in Hex; [|discriminate].
  inversion Hex; subst g' ll'. clear Hex.
  assert (G12 : geom_same g1 (set_cut_values g2 ll2)).
  { eapply geom_same_trans; [|apply set_cut_values_geom].
    unfold g2. eapply geom_same_trans; apply geom_same_upd_edge; intros ed; repeat split. }
  assert (Hs1 : forall x, In x (g_E g) ->
            slack g1 x = slack g x
              + (if (0 <? d) && negb (in_head_component g ll (e_to (gedge g x)) e) then - d else 0)
              - (if (0 <? d) && negb (in_head_component g ll (e_from (gedge g x)) e) then - d else 0)).
  { intros x Hx. unfold g1. destruct (0 <? d) eqn:Ed; cbn [andb]; [|lia].
    change (fold_left (fun g' n => if negb (in_head_component g ll n e)
                                   then upd_node g' n (fun nd => set_layer (n_layer nd - d) nd) else g')
                      (g_N g) g)
      with (shift_nodes (fun z => z + - d) (fun n => negb (in_head_component g ll n e)) (g_N g) g).
    rewrite (slack_shift g (- d) (fun n => negb (in_head_component g ll n e)) (g_N g) x Hnd Hr).
    destruct (Ein x Hx) as [Hfrom Hto]. apply mem_nat_In in Hfrom, Hto. rewrite Hfrom, Hto.
    cbn [andb]. reflexivity. }
  assert (E1 : g_E g1 = g_E g).
  { unfold g1. destruct (0 <? d); [|reflexivity].
    change (fold_left (fun g' n => if negb (in_head_component g ll n e)
                                   then upd_node g' n (fun nd => set_layer (n_layer nd - d) nd) else g')
                      (g_N g) g)
      with (shift_nodes (fun z => z + - d) (fun n => negb (in_head_component g ll n e)) (g_N g) g).
    apply lay_only_E. apply (shift_nodes_spec (fun z => z + - d) (fun n => negb (in_head_component g ll n e)) (g_N g) g Hnd Hr). }
  pose proof (Hf f HfE) as Hd0. fold d in Hd0.
  split.
  - intros x Hx. pose proof G12 as (_ & _ & B3 & _). rewrite B3, E1 in Hx.
    rewrite (slack_geom_same x G12). rewrite (Hs1 x Hx). pose proof (Hf x Hx) as Hsx.
    specialize (Hmin x Hx). unfold head_to_tail in Hmin. fold d in Hmin.
    destruct (0 <? d) eqn:Ed; cbn [andb]; [|lia]. apply Z.ltb_lt in Ed.
    destruct (in_head_component g ll (e_to (gedge g x)) e); destruct (in_head_component g ll (e_from (gedge g x)) e);
      cbn [negb andb] in *; try lia; (specialize (Hmin eq_refl); lia).
  - intros Hh. rewrite (slack_geom_same f G12). rewrite (Hs1 f HfE). unfold head_to_tail in Hh.
    apply andb_prop in Hh. destruct Hh as [Ha Hb]. apply negb_true_iff in Hb. rewrite Ha, Hb. fold d.
    cbn [negb]. rewrite andb_true_r, andb_false_r.
    destruct (0 <? d) eqn:Ed; [lia|]. apply Z.ltb_ge in Ed. lia.
Qed.
Print Assumptions exchange_feasible.

(* One step of pivot_loop. The only fact about lim/low numbering that is used: no tree edge other than e
   goes from the head component to the tail component (true when in_head_component is correct, because
   removing e from the spanning tree leaves exactly these two components). *)
Theorem pivot_step_feasible : forall g ll e f g' ll',
  nodes_wf g -> edges_in g -> feasible g ->
  (forall f', In f' (g_E g) -> e_tree (gedge g f') = true -> f' <> e -> head_to_tail g ll e f' = false) ->
  head_to_tail g ll e e = false ->
  min_slack_non_tree_edge g ll e = Some f ->
  exchange g ll e f = Ok (g', ll') ->
  feasible g' /\ slack g' f = 0.
Proof.
  intros g ll e f g' ll' W Ein Hf Htree He Hmin Hex.
  destruct (min_slack_spec g ll e f Hmin) as (HfE & Hne & Hnt & Hh & Hm).
  assert (Hall : forall f', In f' (g_E g) -> head_to_tail g ll e f' = true -> slack g f <= slack g f').
  { intros f' Hf' Hh'. destruct (Nat.eq_dec f' e) as [->|Hne']; [congruence|].
    destruct (e_tree (gedge g f')) eqn:Et.
    - rewrite (Htree f' Hf' Et Hne') in Hh'. discriminate.
    - apply Hm; assumption. }
  destruct (exchange_feasible g ll e f g' ll' W Ein Hf HfE Hall Hex) as [H1 H2].
  split; [exact H1 | apply H2; exact Hh].
Qed.
Print Assumptions pivot_step_feasible.

(* ------------------------------------------------------------------------------------------------ *)
(* 3: tight_tree                                                                                     *)
(* ------------------------------------------------------------------------------------------------ *)
(* g' differs from g only by tree flags that were switched on, and only on edges that are tight *)
Definition tt_rel (g g' : graph) : Prop :=
  g_na g' = g_na g /\ g_N g' = g_N g /\ g_E g' = g_E g /\ g_L g' = g_L g /\
  length (g_ea g') = length (g_ea g) /\
  forall e, gedge g' e = gedge g e \/ (gedge g' e = set_tree true (gedge g e) /\ slack g e = 0).

Lemma tt_rel_geom : forall g g', tt_rel g g' -> geom_same g g'.
Proof.
  intros g g' (A1 & A2 & A3 & _ & _ & A6). repeat split; try assumption;
    destruct (A6 e) as [H|[H _]]; rewrite H; reflexivity.
Qed.

Arguments tt_rel_geom {g g'}.

Lemma tt_rel_refl : forall g, tt_rel g g.
Proof. intros g. repeat split. intros e. left. reflexivity. Qed.

Lemma tt_rel_trans : forall g1 g2 g3, tt_rel g1 g2 -> tt_rel g2 g3 -> tt_rel g1 g3.
Proof.
  intros g1 g2 g3 R12 R23. pose proof (tt_rel_geom R12) as G12.
  destruct R12 as (A1 & A2 & A3 & A4 & A5 & A6). destruct R23 as (B1 & B2 & B3 & B4 & B5 & B6).
  repeat split; try congruence.
  intros e. destruct (B6 e) as [HB|[HB HsB]]; destruct (A6 e) as [HA|[HA HsA]].
  - left. congruence.
  - right. split; [congruence | exact HsA].
  - right. split; [congruence|]. rewrite <- (slack_geom_same e G12). exact HsB.
  - right. split; [|exact HsA]. rewrite HB, HA. destruct (gedge g1 e); reflexivity.
Qed.

Lemma tt_rel_flag : forall g e, slack g e = 0 -> tt_rel g (upd_edge g e (set_tree true)).
Proof.
  intros g e Hs. repeat split.
  - unfold upd_edge, with_ea; cbn [g_ea]. apply length_upd.
  - intros x. rewrite gedge_upd_edge.
    destruct (Nat.eqb x e) eqn:Exe; cbn [andb]; [|left; reflexivity].
    apply Nat.eqb_eq in Exe. subst x.
    destruct (Nat.ltb e (length (g_ea g))); [right; split; [reflexivity|exact Hs] | left; reflexivity].
Qed.

Definition tt_loop (rec : nat -> tt_st -> res tt_st) (n : nat) : list nat -> tt_st -> res tt_st :=
  fix loop (es : list nat) (st : tt_st) : res tt_st :=
    match es with
    | [] => Ok st
    | e :: t =>
        let '(g, ve, vn) := st in
        if mem_nat e ve then loop t st else
        let ve := e :: ve in
        let m := connected_node g e n in
        if e_tree (gedge g e) then do st' <- rec m (g, ve, vn); loop t st'
        else if negb (mem_nat m vn) && (slack g e =? 0) then
               do st' <- rec m (upd_edge g e (set_tree true), ve, vn); loop t st'
             else loop t (g, ve, vn)
    end.

Lemma tight_tree_S : forall f n g ve vn,
  tight_tree (S f) n (g, ve, vn) = tt_loop (tight_tree f) n (all_edges g n) (g, ve, n :: vn).
Proof. intros. reflexivity. Qed.

Definition gof (st : tt_st) : graph := fst (fst st).

Lemma tt_loop_rel : forall rec n,
  (forall m st st', rec m st = Ok st' -> tt_rel (gof st) (gof st')) ->
  forall es st st', tt_loop rec n es st = Ok st' -> tt_rel (gof st) (gof st').
Proof.
  intros rec n Hrec es; induction es as [|e t IH]; intros st st' H.
  - cbn [tt_loop] in H. inversion H. apply tt_rel_refl.
  - destruct st as [[g ve] vn]. cbn [tt_loop] in H. fold (tt_loop rec n) in H.
    destruct (mem_nat e ve) eqn:Em; [apply (IH _ _ H)|].
    cbv zeta in H.
    destruct (e_tree (gedge g e)) eqn:Et.
    + destruct (rec (connected_node g e n) (g, e :: ve, vn)) as [st1|err] eqn:Er; cbn [bind] in H; [|discriminate].
      eapply tt_rel_trans; [apply (Hrec _ _ _ Er) | apply (IH _ _ H)].
    + destruct (negb (mem_nat (connected_node g e n) vn) && (slack g e =? 0))%bool eqn:Ec.
      * apply andb_prop in Ec. destruct Ec as [_ Ez]. apply Z.eqb_eq in Ez.
        destruct (rec (connected_node g e n) (upd_edge g e (set_tree true), e :: ve, vn)) as [st1|err] eqn:Er;
          cbn [bind] in H; [|discriminate].
        eapply tt_rel_trans; [apply (tt_rel_flag g e Ez)|].
        eapply tt_rel_trans; [apply (Hrec _ _ _ Er) | apply (IH _ _ H)].
      * apply (IH _ _ H).
Qed.

Theorem tight_tree_spec : forall fuel n st st',
  tight_tree fuel n st = Ok st' -> tt_rel (gof st) (gof st').
Proof.
  induction fuel as [|f IH]; intros n st st' H.
  - cbn in H. discriminate.
  - destruct st as [[g ve] vn]. rewrite tight_tree_S in H.
    apply (tt_loop_rel (tight_tree f) n (IH) _ _ _ H).
Qed.
Print Assumptions tight_tree_spec.

(* readable corollaries *)
Corollary tight_tree_flags_tight : forall fuel n g ve vn g' ve' vn',
  tight_tree fuel n (g, ve, vn) = Ok (g', ve', vn') ->
  (forall e, slack g' e = slack g e) /\
  (forall n, gnode g' n = gnode g n) /\
  (forall e, e_tree (gedge g' e) = true -> e_tree (gedge g e) = true \/ slack g' e = 0).
Proof.
  intros fuel n g ve vn g' ve' vn' H. apply tight_tree_spec in H. cbn [gof fst] in H.
  pose proof (tt_rel_geom H) as G. split; [|split].
  - intros e. apply slack_geom_same. exact G.
  - intros m. unfold gnode. destruct H as (A1 & _). rewrite A1. reflexivity.
  - intros e Ht. rewrite (slack_geom_same e G). destruct H as (_ & _ & _ & _ & _ & A6).
    destruct (A6 e) as [HA|[_ HA]]; [left; rewrite <- HA; exact Ht | right; exact HA].
Qed.

(* feasible_loop clears all flags first: then every tree edge produced by tight_tree is tight *)
Corollary tight_tree_all_tight : forall fuel n g ve vn g' ve' vn',
  (forall e, e_tree (gedge g e) = false) ->
  tight_tree fuel n (g, ve, vn) = Ok (g', ve', vn') ->
  feasible g -> feasible g' /\ forall e, e_tree (gedge g' e) = true -> slack g' e = 0.
Proof.
  intros fuel n g ve vn g' ve' vn' Hnone H Hf.
  destruct (tight_tree_flags_tight fuel n g ve vn g' ve' vn' H) as (Hs & _ & Ht).
  split.
  - apply tight_tree_spec in H. cbn [gof fst] in H. apply (feasible_geom_same (tt_rel_geom H) Hf).
  - intros e He. destruct (Ht e He) as [Hc|Hc]; [rewrite Hnone in Hc; discriminate | exact Hc].
Qed.

(* ================================================================================================ *)
(* The complete feasible_loop: feasibility is preserved and on success every tree edge is tight       *)
(* ================================================================================================ *)

(* ---------- transport of the well-formedness predicates along geom_same ---------- *)
Lemma filter_ext_in' : forall (p q : nat -> bool) l, (forall x, p x = q x) -> filter p l = filter q l.
Proof.
  intros p q l H; induction l as [|x t IH]; cbn [filter]; [reflexivity|]. rewrite H, IH. reflexivity.
Qed.

Lemma adj_ok_geom_same : forall g g', geom_same g g' -> adj_ok g -> adj_ok g'.
Proof.
  intros g g' (A1 & A2 & A3 & A4) A n Hn. rewrite A2 in Hn. specialize (A n Hn).
  destruct A as (B1 & B2 & B3 & B4).
  assert (Hgn : gnode g' n = gnode g n) by (unfold gnode; rewrite A1; reflexivity).
  rewrite Hgn, A3.
  assert (Hto : forall e, e_to (gedge g' e) = e_to (gedge g e)) by (intros e; apply (A4 e)).
  assert (Hfrom : forall e, e_from (gedge g' e) = e_from (gedge g e)) by (intros e; apply (A4 e)).
  split; [|split; [|split]].
  - intros e. rewrite Hto. apply B1.
  - intros e. rewrite Hfrom. apply B2.
  - rewrite B3. f_equal. apply filter_ext_in'. intros e. rewrite Hto. reflexivity.
  - rewrite B4. f_equal. apply filter_ext_in'. intros e. rewrite Hfrom. reflexivity.
Qed.

Arguments adj_ok_geom_same {g g'}.

Lemma vb_wf_geom_same : forall g g', geom_same g g' -> vb_wf g -> vb_wf g'.
Proof.
  intros g g' G [[W1 W1'] W2 W3]. pose proof G as (A1 & A2 & A3 & A4). constructor.
  - split; rewrite A2; [exact W1|]. rewrite A1. exact W1'.
  - intros e He. rewrite A3 in He. rewrite A2. destruct (A4 e) as (P1 & P2 & _). rewrite P1, P2.
    apply W2. exact He.
  - apply (adj_ok_geom_same G W3).
Qed.
Arguments vb_wf_geom_same {g g'}.

(* ---------- the adjacency facts tight_tree needs ---------- *)
Definition ADJ (g : graph) : Prop :=
  forall n, In n (g_N g) -> forall e, In e (all_edges g n) ->
    In e (g_E g) /\ (e_to (gedge g e) = n \/ e_from (gedge g e) = n).

Lemma adj_ok_ADJ : forall g, adj_ok g -> ADJ g.
Proof.
  intros g A n Hn e He. destruct (A n Hn) as (B1 & B2 & _). unfold all_edges in He.
  apply in_app_or in He. destruct He as [He|He].
  - apply B1 in He. destruct He as [H1 H2]. split; [exact H1 | left; exact H2].
  - apply B2 in He. destruct He as [H1 H2]. split; [exact H1 | right; exact H2].
Qed.

Lemma conn_ends : forall g e n, e_to (gedge g e) = n \/ e_from (gedge g e) = n ->
  (e_from (gedge g e) = n \/ e_from (gedge g e) = connected_node g e n) /\
  (e_to (gedge g e) = n \/ e_to (gedge g e) = connected_node g e n).
Proof.
  intros g e n H. unfold connected_node.
  destruct (Nat.eqb (e_to (gedge g e)) n) eqn:E.
  - apply Nat.eqb_eq in E. split; [right; reflexivity | left; exact E].
  - apply Nat.eqb_neq in E. destruct H as [H|H]; [contradiction|]. split; [left; exact H | right; reflexivity].
Qed.

Lemma conn_geom : forall g g' e n, geom_same g g' -> connected_node g' e n = connected_node g e n.
Proof.
  intros g g' e n (_ & _ & _ & A4). destruct (A4 e) as (P1 & P2 & _). unfold connected_node.
  rewrite P1, P2. reflexivity.
Qed.

(* ---------- clean-mode invariant of tight_tree ---------- *)
Definition flagged_in (E : list nat) (g : graph) (ve : list nat) : Prop :=
  forall e, In e E -> e_tree (gedge g e) = true -> In e ve.
Definition flagged_ends (E : list nat) (g : graph) (vn : list nat) : Prop :=
  forall e, In e E -> e_tree (gedge g e) = true -> In (e_from (gedge g e)) vn /\ In (e_to (gedge g e)) vn.

Definition tt_post (gb g : graph) (ve vn : list nat) (g' : graph) (ve' vn' : list nat) : Prop :=
  tt_rel g g' /\ NoDup vn' /\ incl vn' (g_N gb) /\ incl vn vn' /\ incl ve ve' /\
  flagged_in (g_E gb) g' ve' /\ flagged_ends (g_E gb) g' vn'.

Definition tt_rec_ok (gb : graph) (rec : nat -> tt_st -> res tt_st) : Prop :=
  forall m g ve vn g' ve' vn', rec m (g, ve, vn) = Ok (g', ve', vn') ->
    geom_same gb g -> In m (g_N gb) -> ~ In m vn -> NoDup vn -> incl vn (g_N gb) ->
    flagged_in (g_E gb) g ve -> flagged_ends (g_E gb) g (m :: vn) ->
    tt_post gb g ve (m :: vn) g' ve' vn'.

Lemma flag_upd : forall g e x, e_tree (gedge (upd_edge g e (set_tree true)) x) = true ->
  x = e \/ e_tree (gedge g x) = true.
Proof.
  intros g e x H. rewrite gedge_upd_edge in H.
  destruct (Nat.eqb x e) eqn:Exe; cbn [andb] in H.
  - left. apply Nat.eqb_eq. exact Exe.
  - right. exact H.
Qed.

Lemma tt_loop_clean : forall gb rec n,
  ADJ gb -> edges_in gb -> In n (g_N gb) -> tt_rec_ok gb rec ->
  forall es g ve vn g' ve' vn',
    tt_loop rec n es (g, ve, vn) = Ok (g', ve', vn') ->
    incl es (all_edges gb n) -> geom_same gb g -> In n vn -> NoDup vn -> incl vn (g_N gb) ->
    flagged_in (g_E gb) g ve -> flagged_ends (g_E gb) g vn ->
    tt_post gb g ve vn g' ve' vn'.
Proof.
  intros gb rec n HADJ Hein HnN Hrec es; induction es as [|e t IH];
    intros g ve vn g' ve' vn' H Hes G Hnvn Hnd Hincl HQ HP.
  - cbn [tt_loop] in H. inversion H; subst. unfold tt_post.
    split; [apply tt_rel_refl|]. repeat split; try assumption; try apply incl_refl; apply HP; assumption.
  - cbn [tt_loop] in H. fold (tt_loop rec n) in H.
    assert (Hes' : incl t (all_edges gb n)) by (intros x Hx; apply Hes; right; exact Hx).
    destruct (mem_nat e ve) eqn:Em; [apply (IH _ _ _ _ _ _ H Hes' G Hnvn Hnd Hincl HQ HP)|].
    cbv zeta in H.
    destruct (HADJ n HnN e (Hes e (or_introl eq_refl))) as [HeE Hend].
    destruct (e_tree (gedge g e)) eqn:Et.
    { (* impossible: a flagged edge has already been visited *)
      exfalso. pose proof (HQ e HeE Et) as Hin. apply mem_nat_In in Hin. congruence. }
    pose proof G as (G1 & G2 & G3 & G4).
    assert (Hend_g : e_to (gedge g e) = n \/ e_from (gedge g e) = n).
    { destruct (G4 e) as (P1 & P2 & _). rewrite P1, P2. exact Hend. }
    destruct (conn_ends g e n Hend_g) as [Cf Ct].
    set (m := connected_node g e n) in *.
    assert (HQ' : flagged_in (g_E gb) g (e :: ve)) by (intros x Hx Hxt; right; apply HQ; assumption).
    destruct (negb (mem_nat m vn) && (slack g e =? 0))%bool eqn:Ec.
    + apply andb_prop in Ec. destruct Ec as [Emv Ez]. apply Z.eqb_eq in Ez.
      apply negb_true_iff in Emv.
      assert (Hmv : ~ In m vn) by (intros Hin; apply mem_nat_In in Hin; congruence).
      destruct (rec m (upd_edge g e (set_tree true), e :: ve, vn)) as [[[g3 ve3] vn3]|err] eqn:Er;
        cbn [bind] in H; [|discriminate].
      set (g2 := upd_edge g e (set_tree true)) in *.
      assert (R2 : tt_rel g g2) by (apply tt_rel_flag; exact Ez).
      assert (G2' : geom_same gb g2) by (eapply geom_same_trans; [exact G | apply (tt_rel_geom R2)]).
      assert (HmN : In m (g_N gb)).
      { destruct (Hein e HeE) as [Hf Ht]. destruct (G4 e) as (P1 & P2 & _). rewrite <- P1 in Hf. rewrite <- P2 in Ht.
        destruct Cf as [Cf|Cf]; [|rewrite <- Cf; exact Hf].
        destruct Ct as [Ct|Ct]; [|rewrite <- Ct; exact Ht].
        (* self loop at n: m = n *)
        unfold m, connected_node. rewrite Ct, Nat.eqb_refl. rewrite Cf. exact HnN. }
      assert (HQ2 : flagged_in (g_E gb) g2 (e :: ve)).
      { intros x Hx Hxt. apply flag_upd in Hxt. destruct Hxt as [->|Hxt]; [left; reflexivity|].
        right. apply HQ; assumption. }
      assert (HP2 : flagged_ends (g_E gb) g2 (m :: vn)).
      { intros x Hx Hxt. destruct (tt_rel_geom R2) as (_ & _ & _ & Q4). destruct (Q4 x) as (P1 & P2 & _).
        rewrite P1, P2. apply flag_upd in Hxt. destruct Hxt as [->|Hxt].
        - split.
          + destruct Cf as [Cf|Cf]; [right; rewrite Cf; exact Hnvn | left; symmetry; exact Cf].
          + destruct Ct as [Ct|Ct]; [right; rewrite Ct; exact Hnvn | left; symmetry; exact Ct].
        - destruct (HP x Hx Hxt) as [Ha Hb]. split; right; assumption. }
      destruct (Hrec m g2 (e :: ve) vn g3 ve3 vn3 Er G2' HmN Hmv Hnd Hincl HQ2 HP2)
        as (R3 & Hnd3 & Hincl3 & Hsub3 & Hve3 & HQ3 & HP3).
      assert (G3' : geom_same gb g3) by (eapply geom_same_trans; [exact G2' | apply (tt_rel_geom R3)]).
      assert (Hnvn3 : In n vn3) by (apply Hsub3; right; exact Hnvn).
      destruct (IH _ _ _ _ _ _ H Hes' G3' Hnvn3 Hnd3 Hincl3 HQ3 HP3)
        as (R4 & Hnd4 & Hincl4 & Hsub4 & Hve4 & HQ4 & HP4).
      unfold tt_post. split; [eapply tt_rel_trans; [exact R2|]; eapply tt_rel_trans; eassumption|].
      repeat split; try assumption.
      * intros x Hx. apply Hsub4. apply Hsub3. right. exact Hx.
      * intros x Hx. apply Hve4. apply Hve3. right. exact Hx.
      * apply HP4; assumption.
      * apply HP4; assumption.
    + destruct (IH _ _ _ _ _ _ H Hes' G Hnvn Hnd Hincl HQ' HP)
        as (R4 & Hnd4 & Hincl4 & Hsub4 & Hve4 & HQ4 & HP4).
      unfold tt_post. split; [exact R4|]. repeat split; try assumption.
      * intros x Hx. apply Hve4. right. exact Hx.
      * apply HP4; assumption.
      * apply HP4; assumption.
Qed.

Lemma tt_clean : forall gb, ADJ gb -> edges_in gb -> forall fuel, tt_rec_ok gb (tight_tree fuel).
Proof.
  intros gb HADJ Hein fuel; induction fuel as [|f IH];
    intros m g ve vn g' ve' vn' H G HmN Hmv Hnd Hincl HQ HP.
  - cbn in H. discriminate.
  - rewrite tight_tree_S in H.
    assert (Eall : all_edges g m = all_edges gb m).
    { destruct G as (G1 & _). unfold all_edges, gnode. rewrite G1. reflexivity. }
    rewrite Eall in H.
    apply (tt_loop_clean gb (tight_tree f) m HADJ Hein HmN IH _ _ _ _ _ _ _ H); try assumption.
    + apply incl_refl.
    + left; reflexivity.
    + constructor; assumption.
    + intros x [Hx|Hx]; [subst x; exact HmN | apply Hincl; exact Hx].
Qed.

(* ---------- clearing the tree flags ---------- *)
Definition clear_flags (g : graph) : graph := fold_left (fun g e => upd_edge g e (set_tree false)) (g_E g) g.

Lemma clear_flags_geom : forall g, geom_same g (clear_flags g).
Proof.
  intros g. unfold clear_flags. apply geom_same_fold. intros g1 e.
  apply geom_same_upd_edge. intros ed. repeat split.
Qed.

Lemma gedge_overflow : forall g e, (length (g_ea g) <= e)%nat -> gedge g e = edge0.
Proof. intros g e H. unfold gedge. apply nth_overflow. exact H. Qed.

Lemma clear_fold_flag : forall l g e,
  e_tree (gedge (fold_left (fun g e => upd_edge g e (set_tree false)) l g) e) = true ->
  ~ In e l /\ e_tree (gedge g e) = true.
Proof.
  induction l as [|a t IH]; intros g e H; cbn [fold_left] in H.
  - split; [intros []|exact H].
  - apply IH in H. destruct H as [Hnt H]. rewrite gedge_upd_edge in H.
    destruct (Nat.eqb e a) eqn:Eea; cbn [andb] in H.
    + apply Nat.eqb_eq in Eea. subst a. destruct (Nat.ltb e (length (g_ea g))) eqn:El.
      * cbn in H. discriminate.
      * apply Nat.ltb_ge in El. rewrite (gedge_overflow g e El) in H. cbn in H. discriminate.
    + apply Nat.eqb_neq in Eea. split; [|exact H]. intros [Hin|Hin]; [congruence|contradiction].
Qed.

Lemma clear_flags_none : forall g e, In e (g_E g) -> e_tree (gedge (clear_flags g) e) = false.
Proof.
  intros g e He. destruct (e_tree (gedge (clear_flags g) e)) eqn:Et; [|reflexivity].
  apply clear_fold_flag in Et. destruct Et as [Hn _]. contradiction.
Qed.

(* ---------- incident_non_tree_edge as a first-minimum selection ---------- *)
Definition inc_cands (g : graph) (tree : list nat) : list (nat * nat) :=
  flat_map (fun n => if mem_nat n tree then map (pair n) (all_edges g n) else []) (g_N g).

Definition inc_keep (g : graph) (tree : list nat) (c : nat * nat) : bool :=
  negb (self_loop g (snd c)) &&
  negb (e_tree (gedge g (snd c)) || mem_nat (connected_node g (snd c) (fst c)) tree).

Definition inc_step (g : graph) (tree : list nat) :=
  amin_step (inc_keep g tree) (fun c => slack g (snd c)) (fun c : nat * nat => snd c).

Lemma inc_eq : forall g tree,
  incident_non_tree_edge g tree = snd (fold_left (inc_step g tree) (inc_cands g tree) (None, None)).
Proof.
  intros g tree. unfold incident_non_tree_edge.
  match goal with |- (let '(_, cand) := ?X in cand) = _ => transitivity (snd X); [destruct X; reflexivity|] end.
  f_equal. unfold inc_cands. generalize (@None Z, @None nat). generalize (g_N g).
  induction l as [|n t IH]; intros acc; cbn [fold_left flat_map]; [reflexivity|].
  rewrite fold_left_app. rewrite IH. f_equal.
  destruct (mem_nat n tree); cbn [negb]; [|reflexivity].
  generalize (all_edges g n). clear. intros es. revert acc.
  induction es as [|e es IHes]; intros acc; cbn [fold_left map]; [reflexivity|].
  rewrite IHes. f_equal.
  unfold inc_step, amin_step, inc_keep. cbn [fst snd].
  destruct (self_loop g e); cbn [negb andb]; [reflexivity|].
  destruct (e_tree (gedge g e) || mem_nat (connected_node g e n) tree)%bool; reflexivity.
Qed.

Lemma in_inc_cands : forall g tree n e,
  In (n, e) (inc_cands g tree) <-> In n (g_N g) /\ mem_nat n tree = true /\ In e (all_edges g n).
Proof.
  intros g tree n e. unfold inc_cands. rewrite in_flat_map. split.
  - intros [x [Hx Hin]]. destruct (mem_nat x tree) eqn:Em; [|destruct Hin].
    apply in_map_iff in Hin. destruct Hin as [e' [Hp He']]. inversion Hp; subst. repeat split; assumption.
  - intros (Hn & Hm & He). exists n. split; [exact Hn|]. rewrite Hm. apply in_map. exact He.
Qed.

(* the edge chosen by feasible_loop is a crossing edge of g_E of minimal slack among all crossing edges,
   provided no flagged edge crosses the boundary of [tree] *)
Lemma incident_spec : forall g tree e,
  adj_ok g -> edges_in g ->
  (forall x, In x (g_E g) -> e_tree (gedge g x) = true -> ~ crossing g tree x) ->
  incident_non_tree_edge g tree = Some e ->
  In e (g_E g) /\ crossing g tree e /\
  forall e', In e' (g_E g) -> crossing g tree e' -> slack g e <= slack g e'.
Proof.
  intros g tree e A Hein Hflag H. rewrite inc_eq in H. unfold inc_step in H.
  apply amin_spec in H. destruct H as [[n e0] (Hc & Hk & Ho & Hmin)]. cbn [snd fst] in *. subst e0.
  apply in_inc_cands in Hc. destruct Hc as (HnN & Hnt & Hea).
  destruct (adj_ok_ADJ g A n HnN e Hea) as [HeE Hend].
  unfold inc_keep in Hk. cbn [fst snd] in Hk. apply andb_prop in Hk. destruct Hk as [Hsl Hk2].
  apply negb_true_iff in Hsl, Hk2. apply orb_false_iff in Hk2. destruct Hk2 as [Htf Hcm].
  unfold self_loop in Hsl. apply Nat.eqb_neq in Hsl.
  split; [exact HeE|]. split.
  - unfold crossing. destruct (conn_ends g e n Hend) as [Cf Ct].
    destruct Cf as [Cf|Cf]; destruct Ct as [Ct|Ct]; try congruence.
  - intros e' He' Hcr. unfold crossing in Hcr.
    destruct (Hein e' He') as [Hf' Ht'].
    assert (Hnt' : e_tree (gedge g e') = false).
    { destruct (e_tree (gedge g e')) eqn:Et; [|reflexivity]. exfalso. apply (Hflag e' He' Et). exact Hcr. }
    assert (Hns : self_loop g e' = false).
    { unfold self_loop. apply Nat.eqb_neq. intros Heq. rewrite Heq in Hcr. congruence. }
    (* the endpoint of e' inside the tree *)
    destruct (mem_nat (e_from (gedge g e')) tree) eqn:Mf; destruct (mem_nat (e_to (gedge g e')) tree) eqn:Mt;
      try congruence.
    + apply (Hmin (e_from (gedge g e'), e')).
      * apply in_inc_cands. split; [exact Hf'|]. split; [exact Mf|].
        unfold all_edges. apply in_or_app. right. apply (A _ Hf'). split; [exact He'|reflexivity].
      * unfold inc_keep. cbn [fst snd]. rewrite Hns, Hnt'. cbn [negb andb orb].
        unfold connected_node. destruct (Nat.eqb (e_to (gedge g e')) (e_from (gedge g e'))) eqn:Eq.
        -- apply Nat.eqb_eq in Eq. rewrite Eq in Mt. congruence.
        -- rewrite Mt. reflexivity.
    + apply (Hmin (e_to (gedge g e'), e')).
      * apply in_inc_cands. split; [exact Ht'|]. split; [exact Mt|].
        unfold all_edges. apply in_or_app. left. apply (A _ Ht'). split; [exact He'|reflexivity].
      * unfold inc_keep. cbn [fst snd]. rewrite Hns, Hnt'. cbn [negb andb orb].
        unfold connected_node. rewrite Nat.eqb_refl. rewrite Mf. reflexivity.
Qed.

(* ---------- the loop ---------- *)
Lemma feasible_loop_S : forall f g,
  feasible_loop (S f) g =
  match g_N g with
  | [] => Err (ErrIndex 25)
  | root :: _ =>
      let g0 := clear_flags g in
      do st <- tight_tree (S (length (g_na g0))) root (g0, [], []);
      let '(g1, _, tree) := st in
      if Nat.eqb (length tree) (length (g_N g1)) then Ok g1 else
      match incident_non_tree_edge g1 tree with
      | None => Err ErrNoIncidentEdge
      | Some e => feasible_loop f (tree_shift g1 tree e)
      end
  end.
Proof. intros. reflexivity. Qed.

(* what links the input of feasible_loop to its output: same node/edge lists, same edge geometry,
   same adjacency lists (only layers and tree flags differ) *)
Definition fl_rel (g g' : graph) : Prop :=
  g_N g' = g_N g /\ g_E g' = g_E g /\ (forall e, egeom (gedge g' e) (gedge g e)) /\
  (forall n, n_in (gnode g' n) = n_in (gnode g n) /\ n_out (gnode g' n) = n_out (gnode g n)).

Lemma fl_rel_refl : forall g, fl_rel g g.
Proof. intros g. repeat split. Qed.

Lemma fl_rel_trans : forall g1 g2 g3, fl_rel g1 g2 -> fl_rel g2 g3 -> fl_rel g1 g3.
Proof.
  intros g1 g2 g3 (A1 & A2 & A3 & A4) (B1 & B2 & B3 & B4). repeat split; try congruence.
  - destruct (A3 e) as (P & _), (B3 e) as (Q & _); congruence.
  - destruct (A3 e) as (_ & P & _), (B3 e) as (_ & Q & _); congruence.
  - destruct (A3 e) as (_ & _ & P & _), (B3 e) as (_ & _ & Q & _); congruence.
  - destruct (A3 e) as (_ & _ & _ & P), (B3 e) as (_ & _ & _ & Q); congruence.
  - destruct (A4 n) as (P & _), (B4 n) as (Q & _); congruence.
  - destruct (A4 n) as (_ & P), (B4 n) as (_ & Q); congruence.
Qed.

Lemma fl_rel_geom : forall g g', geom_same g g' -> fl_rel g g'.
Proof.
  intros g g' (A1 & A2 & A3 & A4). repeat split; try assumption; try apply A4;
    unfold gnode; rewrite A1; reflexivity.
Qed.

Lemma fl_rel_lay : forall g g', lay_only g g' -> fl_rel g g'.
Proof.
  intros g g' L. repeat split; try (rewrite (lay_only_gedge L e); reflexivity).
  - exact (lay_only_N L).
  - exact (lay_only_E L).
  - exact (lay_only_in L n).
  - exact (lay_only_out L n).
Qed.

Arguments fl_rel_geom {g g'}. Arguments fl_rel_lay {g g'}.

Theorem feasible_loop_feasible : forall fuel g g',
  vb_wf g -> feasible g -> feasible_loop fuel g = Ok g' ->
  feasible g' /\
  (forall e, In e (g_E g') -> e_tree (gedge g' e) = true -> slack g' e = 0) /\
  vb_wf g' /\ fl_rel g g'.
Proof.
  induction fuel as [|f IH]; intros g g' W Hf H.
  - cbn in H. discriminate.
  - rewrite feasible_loop_S in H.
    destruct (g_N g) as [|root rest] eqn:EN; [discriminate|].
    cbv zeta in H.
    pose proof (clear_flags_geom g) as G0.
    set (g0 := clear_flags g) in *.
    destruct (tight_tree (S (length (g_na g0))) root (g0, [], [])) as [[[g1 ve] tree]|err] eqn:Ett;
      cbn [bind] in H; [|discriminate].
    pose proof (vb_wf_geom_same G0 W) as W0.
    pose proof (tight_tree_spec _ _ _ _ Ett) as R1. cbn [gof fst] in R1.
    pose proof (tt_rel_geom R1) as G1.
    pose proof (vb_wf_geom_same G1 W0) as W1.
    assert (Hf0 : feasible g0) by (apply (feasible_geom_same G0 Hf)).
    assert (Hf1 : feasible g1) by (apply (feasible_geom_same G1 Hf0)).
    assert (E01 : g_E g1 = g_E g0) by (destruct G1 as (_ & _ & X & _); exact X).
    assert (N01 : g_N g1 = g_N g0) by (destruct G1 as (_ & X & _); exact X).
    assert (E0 : g_E g0 = g_E g) by (destruct G0 as (_ & _ & X & _); exact X).
    assert (N0 : g_N g0 = g_N g) by (destruct G0 as (_ & X & _); exact X).
    (* tree flags of g1 sit on tight edges *)
    assert (Htight : forall e, In e (g_E g1) -> e_tree (gedge g1 e) = true -> slack g1 e = 0).
    { intros e He Ht. destruct (tight_tree_flags_tight _ _ _ _ _ _ _ _ Ett) as (_ & _ & Hfl).
      destruct (Hfl e Ht) as [Hc|Hc]; [|exact Hc].
      rewrite E01, E0 in He. unfold g0 in Hc. rewrite (clear_flags_none g e He) in Hc. discriminate. }
    destruct (Nat.eqb (length tree) (length (g_N g1))) eqn:Elen.
    + inversion H; subst g'. split; [exact Hf1|]. split; [exact Htight|]. split; [exact W1|].
      eapply fl_rel_trans; apply fl_rel_geom; eassumption.
    + destruct (incident_non_tree_edge g1 tree) as [e|] eqn:Einc; [|discriminate].
      (* clean-mode facts about tight_tree *)
      destruct W0 as [[Hnd0 Hr0] Hein0 A0].
      assert (HrootN : In root (g_N g0)) by (rewrite N0, EN; left; reflexivity).
      destruct (tt_clean g0 (adj_ok_ADJ g0 A0) Hein0 _ root g0 [] [] g1 ve tree Ett
                  (geom_same_refl g0) HrootN (fun x => x) (NoDup_nil nat) (fun x Hx => match Hx with end))
        as (_ & HndT & HinclT & _ & _ & _ & HPT).
      { intros x Hx Hxt. unfold g0 in Hxt. rewrite E0 in Hx. rewrite (clear_flags_none g x Hx) in Hxt.
        discriminate. }
      { intros x Hx Hxt. unfold g0 in Hxt. rewrite E0 in Hx. rewrite (clear_flags_none g x Hx) in Hxt.
        discriminate. }
      pose proof W1 as [[Hnd1 Hr1] Hein1 A1].
      assert (Hnocross : forall x, In x (g_E g1) -> e_tree (gedge g1 x) = true -> ~ crossing g1 tree x).
      { intros x Hx Hxt Hcr. rewrite E01 in Hx. destruct (HPT x Hx Hxt) as [Ha Hb].
        apply mem_nat_In in Ha, Hb. unfold crossing in Hcr. congruence. }
      destruct (incident_spec g1 tree e A1 Hein1 Hnocross Einc) as (HeE & Hcr & Hmin).
      assert (HrT : forall n, In n tree -> (n < length (g_na g1))%nat).
      { intros n Hn. apply Hr1. rewrite N01. apply HinclT. exact Hn. }
      destruct (tree_shift_feasible g1 tree e HndT HrT Hf1 HeE Hcr (fun e' He' Hc' _ => Hmin e' He' Hc'))
        as (Hf2 & _ & _).
      assert (L2 : lay_only g1 (tree_shift g1 tree e)).
      { unfold tree_shift. cbv zeta.
        match goal with |- lay_only _ (fold_left _ _ _) =>
          set (d := if mem_nat (e_to (gedge g1 e)) tree then - slack g1 e else slack g1 e) end.
        apply (shift_nodes_spec (fun z => z + d) (fun _ => true) tree g1 HndT HrT). }
      assert (W2 : vb_wf (tree_shift g1 tree e)) by (apply (vb_wf_lay_only L2); exact W1).
      destruct (IH _ _ W2 Hf2 H) as (R1' & R2' & R3' & R4').
      split; [exact R1'|]. split; [exact R2'|]. split; [exact R3'|].
      eapply fl_rel_trans; [|exact R4'].
      eapply fl_rel_trans; [apply (fl_rel_geom G0)|].
      eapply fl_rel_trans; [apply (fl_rel_geom G1)|]. apply (fl_rel_lay L2).
Qed.
Print Assumptions feasible_loop_feasible.

(* ------------------------------------------------------------------------------------------------ *)
(* Examples: the hypotheses of the theorems above are satisfiable                                     *)
(* ------------------------------------------------------------------------------------------------ *)
(* a star 0->1, 0->2 on layers 0,3,2; tree = [0]; the edge 0->2 (index 1) has minimal slack 1 *)
Definition ex_star : graph :=
  mkGraph
    [ mkNode [] [0;1]%nat 0 0 false 0 0 0 0;
      mkNode [0]%nat [] 3 0 false 0 0 0 0;
      mkNode [1]%nat [] 2 0 false 0 0 0 0 ]
    [ mkEdge 0 1 1 1 false false 0 [] false;
      mkEdge 0 2 1 1 false false 0 [] false ]
    [0;1;2]%nat [0;1]%nat [].

Example ex_tree_shift :
  feasible (tree_shift ex_star [0%nat] 1%nat) /\ slack (tree_shift ex_star [0%nat] 1%nat) 1%nat = 0 /\
  map (layer_of (tree_shift ex_star [0%nat] 1%nat)) [0;1;2]%nat = [1; 3; 2].
Proof.
  assert (H : feasible (tree_shift ex_star [0%nat] 1%nat) /\ slack (tree_shift ex_star [0%nat] 1%nat) 1%nat = 0 /\
              (forall e', ~ crossing ex_star [0%nat] e' ->
                          slack (tree_shift ex_star [0%nat] 1%nat) e' = slack ex_star e')).
  { apply tree_shift_feasible.
    - constructor; [intros []|constructor].
    - intros n [<-|[]]. cbn. lia.
    - intros e [<-|[<-|[]]]; apply Z.leb_le; vm_compute; reflexivity.
    - right; left; reflexivity.
    - unfold crossing. vm_compute. discriminate.
    - intros e' [<-|[<-|[]]] _ _; apply Z.leb_le; vm_compute; reflexivity. }
  destruct H as (H1 & H2 & _). split; [exact H1|]. split; [exact H2|]. vm_compute. reflexivity.
Qed.

(* the pivot step on the state produced by feasible_tree for ex_edges2 (which needs real pivots) *)
Definition ft_full (es : list (list nat)) : res (graph * limlow) :=
  do st <- @populate nat Nat.eqb es; feasible_tree (snd st).

Definition pivot_hyps_b (g : graph) (ll : limlow) : bool :=
  match neg_cut_tree_edge g with
  | None => false
  | Some e =>
      nodes_wfb g && edges_inb g && feasibleb g
      && forallb (fun f' => negb (e_tree (gedge g f')) || Nat.eqb f' e || negb (head_to_tail g ll e f')) (g_E g)
      && negb (head_to_tail g ll e e)
      && match min_slack_non_tree_edge g ll e with
         | Some f => is_ok (exchange g ll e f)
         | None => false
         end
  end.

Example ex_pivot_hyps :
  match ft_full ex_edges2 with Ok (g, ll) => pivot_hyps_b g ll | Err _ => false end = true.
Proof. vm_compute. reflexivity. Qed.
