(* OptInit.v — PART 3, first item: on a consistent acyclic graph, [init_layers] (Kahn-style longest path
   from the sources) produces a layering in which every edge of g_E is feasible; hence so does
   [feasible_tree]. *)
From Autog Require Import Base Graph Populate Phase2 Optimality OptNormalize OptVbalance OptFeasible.
From Coq Require Import Permutation.

(* ------------------------------------------------------------------------------------------------ *)
(* the loop of the model, with its inner step named                                                  *)
(* ------------------------------------------------------------------------------------------------ *)
Definition il_step (n : nat) (acc : graph * list Z * list nat) (e : nat) : graph * list Z * list nat :=
  let '(g, unseen, q) := acc in
  let m := e_to (gedge g e) in
  let g := upd_node g m (set_layer (Z.max (layer_of g m) (layer_of g n + e_delta (gedge g e)))) in
  let unseen := upd unseen m (fun z => z - 1) in
  if nth m unseen 0 =? 0 then (g, unseen, q ++ [m]) else (g, unseen, q).

Lemma init_layers_loop_S : forall f g n rest unseen,
  init_layers_loop (S f) g (n :: rest) unseen =
  let '(g', unseen', rest') := fold_left (il_step n) (n_out (gnode g n)) (g, unseen, rest) in
  init_layers_loop f g' rest' unseen'.
Proof. intros. reflexivity. Qed.

Lemma init_layers_loop_nil : forall f g unseen, init_layers_loop f g [] unseen = Ok g.
Proof. intros f g unseen. destruct f; reflexivity. Qed.

(* ------------------------------------------------------------------------------------------------ *)
(* generic list facts                                                                                 *)
(* ------------------------------------------------------------------------------------------------ *)
Lemma filter_len_remove : forall (p : nat -> bool) l e, NoDup l -> In e l -> p e = true ->
  S (length (filter (fun x => p x && negb (Nat.eqb x e)) l)) = length (filter p l).
Proof.
  intros p l e; induction l as [|x t IH]; intros Hnd Hin Hp; [destruct Hin|].
  inversion Hnd as [|x' t' Hx Ht]; subst. cbn [filter].
  destruct (Nat.eq_dec x e) as [->|Hne].
  - rewrite Hp, Nat.eqb_refl. cbn [negb andb length]. f_equal. f_equal.
    apply filter_ext_in. intros y Hy.
    assert (Hye : Nat.eqb y e = false) by (apply Nat.eqb_neq; intros ->; contradiction).
    rewrite Hye. cbn [negb]. apply andb_true_r.
  - destruct Hin as [Hin|Hin]; [contradiction|].
    assert (Hxe : Nat.eqb x e = false) by (apply Nat.eqb_neq; exact Hne).
    rewrite Hxe. cbn [negb]. rewrite andb_true_r.
    destruct (p x); cbn [length]; rewrite <- (IH Ht Hin Hp); reflexivity.
Qed.

Lemma filter_length_zero : forall (p : nat -> bool) l,
  length (filter p l) = 0%nat <-> forall x, In x l -> p x = false.
Proof.
  intros p l; induction l as [|x t IH]; cbn [filter].
  - split; [intros _ y [] | reflexivity].
  - destruct (p x) eqn:Ep; cbn [length].
    + split; [discriminate|]. intros H. rewrite (H x (or_introl eq_refl)) in Ep. discriminate.
    + rewrite IH. split.
      * intros H y [Hy|Hy]; [subst y; exact Ep | apply H; exact Hy].
      * intros H y Hy. apply H. right. exact Hy.
Qed.

Lemma nth_fold_set_nth : forall (f : nat -> Z) l acc m,
  (forall n, In n l -> (n < length acc)%nat) ->
  nth m (fold_left (fun l n => set_nth l n (f n)) l acc) 0 = if mem_nat m l then f m else nth m acc 0.
Proof.
  intros f l; induction l as [|a t IH]; intros acc m Hr; cbn [fold_left]; [reflexivity|].
  rewrite IH.
  2:{ intros n Hn. unfold set_nth. rewrite length_upd. apply Hr. right. exact Hn. }
  unfold mem_nat at 2; cbn [existsb]. fold (mem_nat m t).
  destruct (mem_nat m t); [rewrite orb_true_r; reflexivity|]. rewrite orb_false_r.
  unfold set_nth. rewrite nth_upd.
  destruct (Nat.eqb m a) eqn:Ema; cbn [andb]; [|reflexivity].
  apply Nat.eqb_eq in Ema. subst a.
  assert (Hlt : (m < length acc)%nat) by (apply Hr; left; reflexivity).
  apply Nat.ltb_lt in Hlt. rewrite Hlt. reflexivity.
Qed.

Lemma length_fold_set_nth : forall (f : nat -> Z) l acc,
  length (fold_left (fun l n => set_nth l n (f n)) l acc) = length acc.
Proof.
  intros f l; induction l as [|a t IH]; intros acc; cbn [fold_left]; [reflexivity|].
  rewrite IH. unfold set_nth. apply length_upd.
Qed.

(* ------------------------------------------------------------------------------------------------ *)
(* the invariant                                                                                      *)
(* ------------------------------------------------------------------------------------------------ *)
Section InitLayers.
  Variable g0 : graph.
  Variable rank : nat -> nat.
  Hypothesis Hwf : vb_wf g0.
  Hypothesis HndE : NoDup (g_E g0).
  Hypothesis Hrank : forall e, In e (g_E g0) -> (rank (e_from (gedge g0 e)) < rank (e_to (gedge g0 e)))%nat.

  Let E0 := g_E g0.
  Let N0 := g_N g0.
  Let to0 (e : nat) := e_to (gedge g0 e).
  Let from0 (e : nat) := e_from (gedge g0 e).

  (* number of in-edges of m that have not been processed yet *)
  Definition ucnt (P : list nat) (m : nat) : nat :=
    length (filter (fun x => Nat.eqb (to0 x) m && negb (mem_nat x P)) E0).

  Lemma ucnt_zero_iff : forall P m, ucnt P m = 0%nat <-> forall e, In e E0 -> to0 e = m -> In e P.
  Proof.
    intros P m. unfold ucnt. rewrite filter_length_zero. split.
    - intros H e He Ht. specialize (H e He). apply Nat.eqb_eq in Ht. rewrite Ht in H. cbn [andb] in H.
      apply negb_false_iff in H. apply mem_nat_In. exact H.
    - intros H e He. destruct (Nat.eqb (to0 e) m) eqn:Et; cbn [andb]; [|reflexivity].
      apply Nat.eqb_eq in Et. apply negb_false_iff. apply mem_nat_In. apply H; assumption.
  Qed.

  Lemma ucnt_zero_cons : forall P e m, ucnt P m = 0%nat -> ucnt (e :: P) m = 0%nat.
  Proof.
    intros P e m H. apply ucnt_zero_iff. intros x Hx Ht. right. revert x Hx Ht. apply ucnt_zero_iff. exact H.
  Qed.

  Lemma ucnt_cons_other : forall P e m, to0 e <> m -> ucnt (e :: P) m = ucnt P m.
  Proof.
    intros P e m Hne. unfold ucnt. f_equal. apply filter_ext_in. intros x _.
    destruct (Nat.eqb (to0 x) m) eqn:Et; cbn [andb]; [|reflexivity].
    apply Nat.eqb_eq in Et. unfold mem_nat; cbn [existsb].
    assert (Hxe : Nat.eqb x e = false) by (apply Nat.eqb_neq; intros ->; contradiction).
    rewrite Hxe. reflexivity.
  Qed.

  Lemma ucnt_cons_same : forall P e, In e E0 -> ~ In e P -> S (ucnt (e :: P) (to0 e)) = ucnt P (to0 e).
  Proof.
    intros P e He HnP. unfold ucnt.
    rewrite <- (filter_len_remove (fun x => Nat.eqb (to0 x) (to0 e) && negb (mem_nat x P)) E0 e HndE He).
    2:{ rewrite Nat.eqb_refl. cbn [andb]. apply negb_true_iff.
        destruct (mem_nat e P) eqn:Em; [apply mem_nat_In in Em; contradiction | reflexivity]. }
    f_equal. f_equal. apply filter_ext_in. intros x _. unfold mem_nat; cbn [existsb].
    destruct (Nat.eqb (to0 x) (to0 e)); destruct (Nat.eqb x e); destruct (existsb (Nat.eqb x) P); reflexivity.
  Qed.

  Record il_inv (P C : list nat) (g : graph) (unseen : list Z) : Prop := mkIlInv {
    ii_lay : lay_only g0 g;
    ii_len : length unseen = length (g_na g0);
    ii_slack : forall e, In e P -> 0 <= slack g e;
    ii_unseen : forall m, In m N0 -> nth m unseen 0 = Z.of_nat (ucnt P m);
    ii_src : forall e, In e P -> ucnt P (from0 e) = 0%nat;
    ii_nodup : NoDup C;
    ii_incl : incl C N0;
    ii_closed : forall m, In m N0 -> (In m C <-> ucnt P m = 0%nat)
  }.

  Lemma il_step_inv : forall n C P g unseen e,
    il_inv P C g unseen -> In n C -> In e E0 -> from0 e = n -> ~ In e P ->
    let m := to0 e in
    let g1 := upd_node g m (set_layer (Z.max (layer_of g m) (layer_of g n + e_delta (gedge g0 e)))) in
    let unseen1 := upd unseen m (fun z => z - 1) in
    il_inv (e :: P) (if nth m unseen1 0 =? 0 then C ++ [m] else C) g1 unseen1.
  Proof.
    intros n C P g unseen e I HnC He Hfrom HnP m g1 unseen1.
    destruct I as [L Hlen Hsl Hun Hsrc HndC HinclC Hcl].
    pose proof Hwf as [[HndN HrN] Hein _].
    destruct (Hein e He) as [HfN HtN]. fold (from0 e) in HfN. fold (to0 e) in HtN. fold m in HtN.
    assert (HnN : In n N0) by (apply HinclC; exact HnC).
    assert (Hnm : n <> m).
    { pose proof (Hrank e He) as Hr. fold (from0 e) (to0 e) in Hr. rewrite Hfrom in Hr. fold m in Hr.
      intros ->. lia. }
    assert (Hm_lt : (m < length (g_na g))%nat) by (rewrite (lay_only_len L); apply HrN; exact HtN).
    assert (Hlay1 : forall x, layer_of g1 x =
                      if Nat.eqb x m then Z.max (layer_of g m) (layer_of g n + e_delta (gedge g0 e))
                      else layer_of g x).
    { intros x. unfold g1. rewrite layer_of_set_layer.
      destruct (Nat.eqb x m) eqn:Exm; cbn [andb]; [|reflexivity].
      apply Nat.eqb_eq in Exm. subst x. apply Nat.ltb_lt in Hm_lt. rewrite Hm_lt. reflexivity. }
    assert (L1 : lay_only g g1) by (exact (lay_only_upd_node g m (fun _ => _))).
    assert (L01 : lay_only g0 g1) by (eapply lay_only_trans; eassumption).
    assert (Hun_m : ucnt P m <> 0%nat).
    { intros Hz. apply HnP. revert Hz. rewrite ucnt_zero_iff. intros Hz. apply Hz; [exact He|reflexivity]. }
    assert (Hun_n : ucnt P n = 0%nat) by (apply Hcl; assumption).
    assert (HmC : ~ In m C) by (intros Hin; apply Hun_m; apply Hcl; assumption).
    assert (Hcs : S (ucnt (e :: P) m) = ucnt P m) by (apply ucnt_cons_same; assumption).
    assert (Hun1 : forall x, In x N0 -> nth x unseen1 0 = Z.of_nat (ucnt (e :: P) x)).
    { intros x Hx. unfold unseen1. rewrite nth_upd.
      destruct (Nat.eqb x m) eqn:Exm; cbn [andb].
      - apply Nat.eqb_eq in Exm. subst x.
        assert (Hlt : (m < length unseen)%nat) by (rewrite Hlen; apply HrN; exact HtN).
        apply Nat.ltb_lt in Hlt. rewrite Hlt. rewrite (Hun m Hx). lia.
      - apply Nat.eqb_neq in Exm. rewrite (Hun x Hx). rewrite ucnt_cons_other; [reflexivity|].
        fold m. intros Heq. apply Exm. symmetry. exact Heq. }
    constructor.
    - exact L01.
    - unfold unseen1. rewrite length_upd. exact Hlen.
    - (* slacks of processed edges *)
      intros e2 [He2|He2].
      + subst e2. unfold slack. cbv zeta. rewrite (lay_only_gedge L01 e).
        fold (to0 e) (from0 e). rewrite Hfrom. fold m. rewrite !Hlay1.
        rewrite Nat.eqb_refl. apply Nat.eqb_neq in Hnm. rewrite Hnm. lia.
      + pose proof (Hsl e2 He2) as Hs. pose proof (Hsrc e2 He2) as Hz.
        assert (Hfm : from0 e2 <> m) by (intros Heq; rewrite Heq in Hz; contradiction).
        unfold slack in Hs |- *. cbv zeta in Hs |- *.
        rewrite (lay_only_gedge L01 e2). rewrite (lay_only_gedge L e2) in Hs.
        fold (to0 e2) (from0 e2) in Hs |- *. rewrite !Hlay1.
        apply Nat.eqb_neq in Hfm. rewrite Hfm.
        destruct (Nat.eqb (to0 e2) m) eqn:Et; [|exact Hs].
        apply Nat.eqb_eq in Et. rewrite Et in Hs. lia.
    - exact Hun1.
    - intros e2 [He2|He2].
      + subst e2. rewrite Hfrom. apply ucnt_zero_cons. exact Hun_n.
      + apply ucnt_zero_cons. apply Hsrc. exact He2.
    - destruct (nth m unseen1 0 =? 0); [|exact HndC].
      apply Permutation_NoDup with (l := m :: C).
      + apply Permutation_cons_append.
      + constructor; assumption.
    - destruct (nth m unseen1 0 =? 0); [|exact HinclC].
      intros x Hx. apply in_app_or in Hx. destruct Hx as [Hx|[Hx|[]]]; [apply HinclC; exact Hx | subst x; exact HtN].
    - intros x Hx. destruct (Nat.eq_dec x m) as [->|Hxm].
      + destruct (nth m unseen1 0 =? 0) eqn:Ez.
        * apply Z.eqb_eq in Ez. rewrite (Hun1 m HtN) in Ez. split; [intros _; lia|].
          intros _. apply in_or_app. right. left. reflexivity.
        * apply Z.eqb_neq in Ez. rewrite (Hun1 m HtN) in Ez. split; [intros Hin; contradiction | intros Hz; lia].
      + assert (Hsame : ucnt (e :: P) x = ucnt P x).
        { apply ucnt_cons_other. fold m. intros Heq. apply Hxm. symmetry. exact Heq. }
        rewrite Hsame. rewrite <- (Hcl x Hx).
        destruct (nth m unseen1 0 =? 0); [|reflexivity].
        split; [|intros Hin; apply in_or_app; left; exact Hin].
        intros Hin. apply in_app_or in Hin. destruct Hin as [Hin|[Hin|[]]]; [exact Hin | congruence].
  Qed.

  Lemma il_inner : forall n done es P g unseen q,
    il_inv P (done ++ n :: q) g unseen ->
    NoDup es -> (forall e, In e es -> In e E0 /\ from0 e = n /\ ~ In e P) ->
    exists g' unseen' q',
      fold_left (il_step n) es (g, unseen, q) = (g', unseen', q') /\
      il_inv (rev es ++ P) (done ++ n :: q') g' unseen'.
  Proof.
    intros n done es; induction es as [|e t IH]; intros P g unseen q I Hnd Hes.
    - exists g, unseen, q. split; [reflexivity | exact I].
    - inversion Hnd as [|e' t' He_t Ht]; subst.
      destruct (Hes e (or_introl eq_refl)) as (HeE & Hfrom & HnP).
      assert (HnC : In n (done ++ n :: q)) by (apply in_or_app; right; left; reflexivity).
      pose proof (il_step_inv n (done ++ n :: q) P g unseen e I HnC HeE Hfrom HnP) as I1.
      cbv zeta in I1.
      cbn [fold_left]. unfold il_step at 2.
      rewrite (lay_only_gedge (ii_lay _ _ _ _ I) e). fold (to0 e).
      set (g1 := upd_node g (to0 e) (set_layer (Z.max (layer_of g (to0 e)) (layer_of g n + e_delta (gedge g0 e))))) in *.
      set (unseen1 := upd unseen (to0 e) (fun z => z - 1)) in *.
      assert (Hes' : forall x, In x t -> In x E0 /\ from0 x = n /\ ~ In x (e :: P)).
      { intros x Hx. destruct (Hes x (or_intror Hx)) as (A & B & C). repeat split; try assumption.
        intros [Hxe|HxP]; [subst x; contradiction | contradiction]. }
      destruct (nth (to0 e) unseen1 0 =? 0).
      + replace ((done ++ n :: q) ++ [to0 e]) with (done ++ n :: (q ++ [to0 e])) in I1
          by (rewrite <- app_assoc; reflexivity).
        destruct (IH (e :: P) g1 unseen1 (q ++ [to0 e]) I1 Ht Hes') as (g' & u' & q' & Hfold & I').
        exists g', u', q'. split; [exact Hfold|].
        cbn [rev]. rewrite <- app_assoc. exact I'.
      + destruct (IH (e :: P) g1 unseen1 q I1 Ht Hes') as (g' & u' & q' & Hfold & I').
        exists g', u', q'. split; [exact Hfold|].
        cbn [rev]. rewrite <- app_assoc. exact I'.
  Qed.

  Lemma nodup_out : forall n, In n N0 -> NoDup (n_out (gnode g0 n)).
  Proof.
    intros n Hn. pose proof Hwf as [_ _ A]. destruct (A n Hn) as (_ & Aout & _ & Lout).
    apply NoDup_incl_NoDup with (l := filter (fun e => Nat.eqb (e_from (gedge g0 e)) n) (g_E g0)).
    - apply NoDup_filter. exact HndE.
    - rewrite Lout. apply Nat.le_refl.
    - intros e He. apply filter_In in He. destruct He as [He Hf]. apply Nat.eqb_eq in Hf.
      apply Aout. split; assumption.
  Qed.

  Lemma il_outer : forall fuel g queue unseen done P g',
    init_layers_loop fuel g queue unseen = Ok g' ->
    il_inv P (done ++ queue) g unseen ->
    (forall e, In e E0 -> In (from0 e) done -> In e P) ->
    (forall e, In e P -> In (from0 e) done) ->
    exists P' done' unseen',
      il_inv P' done' g' unseen' /\ (forall e, In e E0 -> In (from0 e) done' -> In e P').
  Proof.
    induction fuel as [|f IH]; intros g queue unseen done P g' H I HdP HPd.
    - destruct queue as [|n rest]; [|cbn in H; discriminate].
      cbn in H. inversion H; subst g'. rewrite app_nil_r in I. exists P, done, unseen. split; assumption.
    - destruct queue as [|n rest].
      + rewrite init_layers_loop_nil in H. inversion H; subst g'. rewrite app_nil_r in I.
        exists P, done, unseen. split; assumption.
      + rewrite init_layers_loop_S in H.
        pose proof (ii_lay _ _ _ _ I) as L.
        assert (HnN : In n N0).
        { apply (ii_incl _ _ _ _ I). apply in_or_app. right. left. reflexivity. }
        assert (Hn_done : ~ In n done).
        { pose proof (ii_nodup _ _ _ _ I) as Hnd. apply NoDup_remove_2 in Hnd.
          intros Hin. apply Hnd. apply in_or_app. left. exact Hin. }
        rewrite (lay_only_out L n) in H.
        pose proof Hwf as [_ _ A]. destruct (A n HnN) as (_ & Aout & _ & _).
        destruct (il_inner n done (n_out (gnode g0 n)) P g unseen rest I (nodup_out n HnN))
          as (g1 & u1 & q1 & Hfold & I1).
        { intros e He. apply Aout in He. destruct He as [HeE Hf]. repeat split; try assumption.
          intros HeP. apply Hn_done. rewrite <- Hf. apply HPd. exact HeP. }
        rewrite Hfold in H.
        replace (done ++ n :: q1) with ((done ++ [n]) ++ q1) in I1 by (rewrite <- app_assoc; reflexivity).
        apply (IH g1 q1 u1 (done ++ [n]) (rev (n_out (gnode g0 n)) ++ P) g' H I1).
        * intros e He Hd. apply in_or_app. apply in_app_or in Hd. destruct Hd as [Hd|[Hd|[]]].
          -- right. apply HdP; assumption.
          -- left. apply in_rev. rewrite rev_involutive. apply Aout. split; [exact He | symmetry; exact Hd].
        * intros e He. apply in_or_app. apply in_app_or in He. destruct He as [He|He].
          -- right. left. apply in_rev in He. apply Aout in He. destruct He as [_ Hf]. symmetry. exact Hf.
          -- left. apply HPd. exact He.
  Qed.

  (* when the queue has run empty every node has been processed: acyclicity *)
  Lemma il_all_done : forall P done g unseen,
    il_inv P done g unseen -> (forall e, In e E0 -> In (from0 e) done -> In e P) ->
    forall m, In m N0 -> In m done.
  Proof.
    intros P done g unseen I HdP.
    assert (Hstrong : forall k m, (rank m < k)%nat -> In m N0 -> In m done).
    { induction k as [|k IHk]; intros m Hk Hm; [lia|].
      apply (ii_closed _ _ _ _ I m Hm). apply ucnt_zero_iff. intros e He Ht.
      apply HdP; [exact He|]. pose proof Hwf as [_ Hein _]. destruct (Hein e He) as [HfN _].
      apply IHk; [|exact HfN]. pose proof (Hrank e He) as Hr. fold (to0 e) in Hr. rewrite Ht in Hr.
      fold (from0 e) in Hr |- *. lia. }
    intros m Hm. apply (Hstrong (S (rank m)) m); [lia | exact Hm].
  Qed.

  Lemma il_init_inv :
    il_inv [] (filter (fun n => Nat.eqb (indeg g0 n) 0) N0) g0
           (fold_left (fun l n => set_nth l n (Z.of_nat (indeg g0 n))) N0 (repeat 0 (length (g_na g0)))).
  Proof.
    pose proof Hwf as [[HndN HrN] Hein A].
    assert (Hu0 : forall m, In m N0 -> ucnt [] m = indeg g0 m).
    { intros m Hm. destruct (A m Hm) as (_ & _ & Lin & _). unfold ucnt, indeg. rewrite Lin.
      f_equal. apply filter_ext_in. intros x _. cbn. apply andb_true_r. }
    constructor.
    - apply lay_only_refl.
    - rewrite length_fold_set_nth. apply repeat_length.
    - intros e [].
    - intros m Hm. rewrite nth_fold_set_nth.
      + apply mem_nat_In in Hm. rewrite Hm. rewrite Hu0 by (apply mem_nat_In; exact Hm). reflexivity.
      + intros n Hn. rewrite repeat_length. apply HrN. exact Hn.
    - intros e [].
    - apply NoDup_filter. exact HndN.
    - intros x Hx. apply filter_In in Hx. apply Hx.
    - intros m Hm. rewrite (Hu0 m Hm). rewrite filter_In. rewrite Nat.eqb_eq. tauto.
  Qed.

  Lemma init_layers_feasible_sec : forall g', init_layers g0 = Ok g' -> feasible g' /\ lay_only g0 g'.
  Proof.
    intros g' H. unfold init_layers in H.
    destruct (il_outer _ _ _ _ [] [] g' H il_init_inv) as (P' & done' & u' & I & HdP).
    - intros e _ [].
    - intros e [].
    - pose proof (ii_lay _ _ _ _ I) as L. split; [|exact L].
      intros e He. rewrite (lay_only_E L) in He. apply (ii_slack _ _ _ _ I). apply HdP; [exact He|].
      apply (il_all_done P' done' g' u' I HdP). pose proof Hwf as [_ Hein _]. apply (Hein e He).
  Qed.
End InitLayers.

(* ------------------------------------------------------------------------------------------------ *)
(* Theorems                                                                                          *)
(* ------------------------------------------------------------------------------------------------ *)
(* acyclicity, witnessed by a topological numbering *)
Definition acyclic (g : graph) : Prop :=
  exists rank : nat -> nat,
    forall e, In e (g_E g) -> (rank (e_from (gedge g e)) < rank (e_to (gedge g e)))%nat.

Theorem init_layers_feasible : forall g g',
  vb_wf g -> NoDup (g_E g) -> acyclic g ->
  init_layers g = Ok g' -> feasible g' /\ lay_only g g'.
Proof.
  intros g g' W HndE [rank Hrank] H. exact (init_layers_feasible_sec g rank W HndE Hrank g' H).
Qed.
Print Assumptions init_layers_feasible.

(* feasible_tree = init_layers ; feasible_loop ; cut values.  Its result is feasible, and every tree edge is tight *)
Lemma set_cut_values_tree : forall g ll e, e_tree (gedge (set_cut_values g ll) e) = e_tree (gedge g e).
Proof.
  intros g ll e. unfold set_cut_values. generalize (g_E g) at 1. intros l. revert g.
  induction l as [|a t IH]; intros g; cbn [fold_left]; [reflexivity|].
  rewrite IH. destruct (negb (e_tree (gedge g a))); [reflexivity|].
  rewrite gedge_upd_edge. destruct (Nat.eqb e a && Nat.ltb e (length (g_ea g)))%bool; reflexivity.
Qed.

Theorem feasible_tree_feasible : forall g g' ll,
  vb_wf g -> NoDup (g_E g) -> acyclic g ->
  feasible_tree g = Ok (g', ll) ->
  feasible g' /\ (forall e, In e (g_E g') -> e_tree (gedge g' e) = true -> slack g' e = 0) /\ fl_rel g g'.
Proof.
  intros g g' ll W HndE Hac H. unfold feasible_tree in H.
  destruct (init_layers g) as [g1|err] eqn:E1; cbn [bind] in H; [|discriminate].
  destruct (init_layers_feasible g g1 W HndE Hac E1) as [Hf1 L1].
  destruct (feasible_loop (S (length (g_N g1))) g1) as [g2|err] eqn:E2; cbn [bind] in H; [|discriminate].
  destruct (feasible_loop_feasible _ g1 g2 (vb_wf_lay_only L1 W) Hf1 E2) as (Hf2 & Ht2 & W2 & R2).
  destruct (set_stree_values g2) as [ll2|err] eqn:E3; cbn [bind] in H; [|discriminate].
  inversion H; subst g' ll. clear H.
  pose proof (set_cut_values_geom g2 ll2) as G3.
  split; [apply (feasible_geom_same G3 Hf2)|]. split.
  - intros e He Ht. pose proof G3 as (_ & _ & B3 & _). rewrite B3 in He.
    rewrite set_cut_values_tree in Ht. rewrite (slack_geom_same e G3). apply Ht2; assumption.
  - eapply fl_rel_trans; [apply (fl_rel_lay L1)|]. eapply fl_rel_trans; [exact R2 | apply (fl_rel_geom G3)].
Qed.
Print Assumptions feasible_tree_feasible.

(* ------------------------------------------------------------------------------------------------ *)
(* Examples: the hypotheses hold for graphs built by Populate                                         *)
(* ------------------------------------------------------------------------------------------------ *)
Definition acyclicb (rank : nat -> nat) (g : graph) : bool :=
  forallb (fun e => Nat.ltb (rank (e_from (gedge g e))) (rank (e_to (gedge g e)))) (g_E g).

Lemma acyclicb_ok : forall rank g, acyclicb rank g = true -> acyclic g.
Proof.
  intros rank g H. exists rank. intros e He. unfold acyclicb in H. rewrite forallb_forall in H.
  apply Nat.ltb_lt. apply H. exact He.
Qed.

Definition pop_graph (es : list (list nat)) : graph :=
  match @populate nat Nat.eqb es with Ok st => snd st | Err _ => empty_graph end.

(* ex_edges2 of Optimality.v; a topological numbering is given by hand *)
Definition ex_rank2 (n : nat) : nat := nth n [1; 2; 2; 2; 5; 2; 3; 4; 1; 0]%nat 0%nat.

Example ex_init_hyps :
  vb_wfb (pop_graph ex_edges2) = true /\ nodupb (g_E (pop_graph ex_edges2)) = true /\
  acyclicb ex_rank2 (pop_graph ex_edges2) = true.
Proof. vm_compute. repeat split; reflexivity. Qed.

Example ex_init_result :
  match feasible_tree (pop_graph ex_edges2) with
  | Ok (g', _) => feasibleb g' && forallb (fun e => negb (e_tree (gedge g' e)) || (slack g' e =? 0)) (g_E g')
  | Err _ => false
  end = true.
Proof. vm_compute. reflexivity. Qed.

Example ex_init_applied : forall g' ll, feasible_tree (pop_graph ex_edges2) = Ok (g', ll) -> feasible g'.
Proof.
  intros g' ll H. destruct ex_init_hyps as (H1 & H2 & H3).
  apply (feasible_tree_feasible (pop_graph ex_edges2) g' ll (vb_wfb_ok _ H1) (nodupb_NoDup _ H2)
           (acyclicb_ok ex_rank2 _ H3) H).
Qed.
