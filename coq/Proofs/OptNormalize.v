(* OptNormalize.v — PART 2(a): [normalize] translates the layering of the nodes of g_N by a constant.
   Hence slacks, total length and the optimality certificate are unchanged, and afterwards the
   minimum layer is 0.  Also: reusable lemmas about arena updates that only touch layers. *)
From Autog Require Import Base Graph Populate Phase2 Optimality.

(* ------------------------------------------------------------------------------------------------ *)
(* upd / nth                                                                                         *)
(* ------------------------------------------------------------------------------------------------ *)
Lemma length_upd : forall A (l : list A) i f, length (upd l i f) = length l.
Proof.
  intros A l; induction l as [|x t IH]; intros i f; destruct i; cbn [upd length]; try reflexivity.
  rewrite IH. reflexivity.
Qed.

Lemma nth_upd : forall A (l : list A) i j f d,
  nth i (upd l j f) d = if (Nat.eqb i j && Nat.ltb i (length l))%bool then f (nth i l d) else nth i l d.
Proof.
  intros A l; induction l as [|x t IH]; intros i j f d.
  - destruct j; cbn [upd length]; destruct i; cbn [nth]; rewrite andb_false_r; reflexivity.
  - destruct j as [|j]; destruct i as [|i]; cbn [upd nth length]; try reflexivity.
    rewrite IH. change (Nat.eqb (S i) (S j)) with (Nat.eqb i j).
    change (Nat.ltb (S i) (S (length t))) with (Nat.ltb i (length t)). reflexivity.
Qed.

Lemma nth_upd_eq : forall A (l : list A) i f d, (i < length l)%nat -> nth i (upd l i f) d = f (nth i l d).
Proof.
  intros A l i f d H. rewrite nth_upd, Nat.eqb_refl.
  apply Nat.ltb_lt in H. rewrite H. reflexivity.
Qed.

Lemma nth_upd_neq : forall A (l : list A) i j f d, i <> j -> nth i (upd l j f) d = nth i l d.
Proof.
  intros A l i j f d H. rewrite nth_upd. apply Nat.eqb_neq in H. rewrite H. reflexivity.
Qed.

(* ------------------------------------------------------------------------------------------------ *)
(* graph updates that only change layers                                                             *)
(* ------------------------------------------------------------------------------------------------ *)
Definition lay_only (g g' : graph) : Prop :=
  g_ea g' = g_ea g /\ g_N g' = g_N g /\ g_E g' = g_E g /\ g_L g' = g_L g /\
  length (g_na g') = length (g_na g) /\
  forall n, gnode g' n = set_layer (n_layer (gnode g' n)) (gnode g n).

Lemma set_layer_same : forall nd, set_layer (n_layer nd) nd = nd.
Proof. intros nd; destruct nd; reflexivity. Qed.

Lemma lay_only_refl : forall g, lay_only g g.
Proof.
  intros g. repeat split. intros n. symmetry. apply set_layer_same.
Qed.

Lemma lay_only_trans : forall g1 g2 g3, lay_only g1 g2 -> lay_only g2 g3 -> lay_only g1 g3.
Proof.
  intros g1 g2 g3 (A1 & A2 & A3 & A4 & A5 & A6) (B1 & B2 & B3 & B4 & B5 & B6).
  repeat split; try congruence.
  intros n. rewrite (B6 n) at 1. rewrite (A6 n). destruct (gnode g1 n); reflexivity.
Qed.

Lemma gnode_upd_node : forall g a f n,
  gnode (upd_node g a f) n =
  if (Nat.eqb n a && Nat.ltb n (length (g_na g)))%bool then f (gnode g n) else gnode g n.
Proof. intros g a f n. unfold gnode, upd_node, with_na; cbn [g_na]. apply nth_upd. Qed.

Lemma lay_only_upd_node : forall g a (k : node -> Z),
  lay_only g (upd_node g a (fun nd => set_layer (k nd) nd)).
Proof.
  intros g a k. unfold lay_only. repeat split.
  - unfold upd_node, with_na; cbn [g_na]. apply length_upd.
  - intros n. rewrite gnode_upd_node.
    destruct (Nat.eqb n a && Nat.ltb n (length (g_na g)))%bool.
    + destruct (gnode g n); reflexivity.
    + symmetry; apply set_layer_same.
Qed.

Lemma lay_only_gedge : forall g g', lay_only g g' -> forall e, gedge g' e = gedge g e.
Proof. intros g g' (A1 & _) e. unfold gedge. rewrite A1. reflexivity. Qed.

Lemma lay_only_in : forall g g', lay_only g g' -> forall n, n_in (gnode g' n) = n_in (gnode g n).
Proof. intros g g' (_ & _ & _ & _ & _ & A) n. rewrite (A n). reflexivity. Qed.

Lemma lay_only_out : forall g g', lay_only g g' -> forall n, n_out (gnode g' n) = n_out (gnode g n).
Proof. intros g g' (_ & _ & _ & _ & _ & A) n. rewrite (A n). reflexivity. Qed.

Lemma lay_only_N : forall g g', lay_only g g' -> g_N g' = g_N g.
Proof. intros g g' (_ & A & _). exact A. Qed.

Lemma lay_only_E : forall g g', lay_only g g' -> g_E g' = g_E g.
Proof. intros g g' (_ & _ & A & _). exact A. Qed.

Lemma lay_only_len : forall g g', lay_only g g' -> length (g_na g') = length (g_na g).
Proof. intros g g' (_ & _ & _ & _ & A & _). exact A. Qed.

Arguments lay_only_gedge {g g'}. Arguments lay_only_in {g g'}. Arguments lay_only_out {g g'}.
Arguments lay_only_N {g g'}. Arguments lay_only_E {g g'}. Arguments lay_only_len {g g'}.

Lemma layer_of_upd_node : forall g a (h : Z -> Z) n,
  layer_of (upd_node g a (fun nd => set_layer (h (n_layer nd)) nd)) n =
  if (Nat.eqb n a && Nat.ltb n (length (g_na g)))%bool then h (layer_of g n) else layer_of g n.
Proof.
  intros g a h n. unfold layer_of. rewrite gnode_upd_node.
  destruct (Nat.eqb n a && Nat.ltb n (length (g_na g)))%bool; reflexivity.
Qed.

Lemma layer_of_set_layer : forall g a z n,
  layer_of (upd_node g a (set_layer z)) n =
  if (Nat.eqb n a && Nat.ltb n (length (g_na g)))%bool then z else layer_of g n.
Proof.
  intros g a z n. unfold layer_of. rewrite gnode_upd_node.
  destruct (Nat.eqb n a && Nat.ltb n (length (g_na g)))%bool; reflexivity.
Qed.

(* things that depend only on edges and the layering *)
Lemma slack_lay_only : forall g g' e, lay_only g g' ->
  layer_of g' (e_to (gedge g e)) - layer_of g' (e_from (gedge g e)) =
  layer_of g (e_to (gedge g e)) - layer_of g (e_from (gedge g e)) ->
  slack g' e = slack g e.
Proof.
  intros g g' e L H. unfold slack. cbv zeta. rewrite (lay_only_gedge L e). lia.
Qed.

Lemma total_length_lay_only : forall g g' lay, lay_only g g' -> total_length lay g' = total_length lay g.
Proof.
  intros g g' lay L. rewrite !total_length_sumf. rewrite (lay_only_E L).
  apply sumf_ext. intros e _. rewrite (lay_only_gedge L e). reflexivity.
Qed.

Lemma divergence_lay_only : forall g g' f v, lay_only g g' -> divergence f g' v = divergence f g v.
Proof.
  intros g g' f v L. rewrite !divergence_divg. rewrite (lay_only_E L). unfold divg.
  apply sumf_ext. intros e _. rewrite (lay_only_gedge L e). reflexivity.
Qed.

Lemma flow_lay_only : forall g g' e, lay_only g g' -> flow g' e = flow g e.
Proof. intros g g' e L. unfold flow. rewrite (lay_only_gedge L e). reflexivity. Qed.

Lemma divergence_ext : forall g f f' v, (forall e, f e = f' e) -> divergence f g v = divergence f' g v.
Proof.
  intros g f f' v H. rewrite !divergence_divg. unfold divg. apply sumf_ext. intros e _.
  rewrite (H e). reflexivity.
Qed.

Arguments total_length_lay_only {g g'}. Arguments divergence_lay_only {g g'}. Arguments flow_lay_only {g g'}.

(* ------------------------------------------------------------------------------------------------ *)
(* shifting a set of nodes (normalize, feasible_loop, exchange all have this shape)                  *)
(* ------------------------------------------------------------------------------------------------ *)
Definition shift_nodes (h : Z -> Z) (p : nat -> bool) (l : list nat) (g : graph) : graph :=
  fold_left (fun g n => if p n then upd_node g n (fun nd => set_layer (h (n_layer nd)) nd) else g) l g.

Lemma shift_nodes_spec : forall h p l g,
  NoDup l -> (forall n, In n l -> (n < length (g_na g))%nat) ->
  lay_only g (shift_nodes h p l g) /\
  forall n, layer_of (shift_nodes h p l g) n =
            if (mem_nat n l && p n)%bool then h (layer_of g n) else layer_of g n.
Proof.
  intros h p l; induction l as [|a t IH]; intros g Hnd Hr.
  - cbn. split; [apply lay_only_refl|]. intros n; reflexivity.
  - inversion Hnd as [|a' t' Ha Ht]; subst.
    unfold shift_nodes; cbn [fold_left].
    set (g1 := if p a then upd_node g a (fun nd => set_layer (h (n_layer nd)) nd) else g).
    assert (L1 : lay_only g g1).
    { unfold g1. destruct (p a); [apply lay_only_upd_node | apply lay_only_refl]. }
    assert (Hr1 : forall n, In n t -> (n < length (g_na g1))%nat).
    { intros n Hn. rewrite (lay_only_len L1). apply Hr. right. exact Hn. }
    destruct (IH g1 Ht Hr1) as [L2 Hl]. fold (shift_nodes h p t g1).
    split; [eapply lay_only_trans; eassumption|].
    intros n. rewrite Hl.
    assert (Hg1 : layer_of g1 n = if (Nat.eqb n a && p a)%bool then h (layer_of g n) else layer_of g n).
    { unfold g1. destruct (p a).
      - rewrite layer_of_upd_node. destruct (Nat.eqb n a) eqn:Ena; cbn [andb]; [|reflexivity].
        apply Nat.eqb_eq in Ena. subst n.
        assert (Hlt : (a < length (g_na g))%nat) by (apply Hr; left; reflexivity).
        apply Nat.ltb_lt in Hlt. rewrite Hlt. reflexivity.
      - rewrite andb_false_r. reflexivity. }
    unfold mem_nat; cbn [existsb]. fold (mem_nat n t).
    destruct (Nat.eqb n a) eqn:Ena.
    + apply Nat.eqb_eq in Ena. subst n.
      assert (Hm : mem_nat a t = false).
      { destruct (mem_nat a t) eqn:Em; [|reflexivity]. apply mem_nat_In in Em. contradiction. }
      rewrite Hm. cbn [andb orb]. exact Hg1.
    + cbn [orb andb] in Hg1 |- *. rewrite Hg1. reflexivity.
Qed.

(* ------------------------------------------------------------------------------------------------ *)
(* minimum over a list                                                                               *)
(* ------------------------------------------------------------------------------------------------ *)
Lemma fold_min_spec : forall (f : nat -> Z) l a,
  let m := fold_left (fun m n => Z.min m (f n)) l a in
  m <= a /\ (forall n, In n l -> m <= f n) /\ (m = a \/ exists n, In n l /\ m = f n).
Proof.
  intros f l; induction l as [|x t IH]; intros a; cbn [fold_left].
  - split; [lia|]. split; [intros n []|]. left; reflexivity.
  - destruct (IH (Z.min a (f x))) as (H1 & H2 & H3). cbv zeta.
    split; [lia|]. split.
    + intros n [Hn|Hn]; [subst n; lia | apply H2; exact Hn].
    + destruct H3 as [H3|[n [Hn H3]]].
      * destruct (Z.min_spec a (f x)) as [[_ Hm]|[_ Hm]].
        -- left. lia.
        -- right. exists x. split; [left; reflexivity | lia].
      * right. exists n. split; [right; exact Hn | exact H3].
Qed.

Lemma fold_max_spec : forall (f : nat -> Z) l a,
  let m := fold_left (fun m n => Z.max m (f n)) l a in
  a <= m /\ (forall n, In n l -> f n <= m) /\ (m = a \/ exists n, In n l /\ m = f n).
Proof.
  intros f l; induction l as [|x t IH]; intros a; cbn [fold_left].
  - split; [lia|]. split; [intros n []|]. left; reflexivity.
  - destruct (IH (Z.max a (f x))) as (H1 & H2 & H3). cbv zeta.
    split; [lia|]. split.
    + intros n [Hn|Hn]; [subst n; lia | apply H2; exact Hn].
    + destruct H3 as [H3|[n [Hn H3]]].
      * destruct (Z.max_spec a (f x)) as [[_ Hm]|[_ Hm]].
        -- right. exists x. split; [left; reflexivity | lia].
        -- left. lia.
      * right. exists n. split; [right; exact Hn | exact H3].
Qed.

(* ------------------------------------------------------------------------------------------------ *)
(* well-formedness predicates                                                                        *)
(* ------------------------------------------------------------------------------------------------ *)
Definition nodes_wf (g : graph) : Prop :=
  NoDup (g_N g) /\ forall n, In n (g_N g) -> (n < length (g_na g))%nat.

Definition edges_in (g : graph) : Prop :=
  forall e, In e (g_E g) -> In (e_from (gedge g e)) (g_N g) /\ In (e_to (gedge g e)) (g_N g).

Lemma nodes_wf_lay_only : forall g g', lay_only g g' -> nodes_wf g -> nodes_wf g'.
Proof.
  intros g g' L [H1 H2]. unfold nodes_wf. rewrite (lay_only_N L), (lay_only_len L). split; assumption.
Qed.

Lemma edges_in_lay_only : forall g g', lay_only g g' -> edges_in g -> edges_in g'.
Proof.
  intros g g' L H e He. rewrite (lay_only_E L) in He. rewrite (lay_only_N L), (lay_only_gedge L e).
  apply H. exact He.
Qed.

Arguments nodes_wf_lay_only {g g'}. Arguments edges_in_lay_only {g g'}.

(* ------------------------------------------------------------------------------------------------ *)
(* normalize                                                                                         *)
(* ------------------------------------------------------------------------------------------------ *)
Definition lowest_layer (g : graph) : Z :=
  match g_N g with
  | [] => 0
  | n0 :: _ => fold_left (fun m n => Z.min m (layer_of g n)) (g_N g) (layer_of g n0)
  end.

Lemma lowest_layer_spec : forall g, g_N g <> [] ->
  (forall n, In n (g_N g) -> lowest_layer g <= layer_of g n) /\
  exists n, In n (g_N g) /\ lowest_layer g = layer_of g n.
Proof.
  intros g Hne. unfold lowest_layer. destruct (g_N g) as [|n0 t] eqn:EN; [congruence|].
  destruct (fold_min_spec (layer_of g) (n0 :: t) (layer_of g n0)) as (H1 & H2 & H3).
  cbv zeta in H1, H2, H3. split; [exact H2|].
  destruct H3 as [H3|H3]; [|exact H3].
  exists n0. split; [left; reflexivity | exact H3].
Qed.

Lemma shift0_id : forall l g,
  fold_left (fun g n => upd_node g n (fun nd => set_layer (n_layer nd - 0) nd)) l g = g.
Proof.
  induction l as [|a l IH]; intros g; cbn [fold_left]; [reflexivity|].
  assert (Hid : upd_node g a (fun nd => set_layer (n_layer nd - 0) nd) = g).
  { unfold upd_node, with_na. destruct g as [na ea N E L]; cbn [g_na g_ea g_N g_E g_L]. f_equal.
    revert a. induction na as [|x na IHna]; intros a; destruct a; cbn [upd]; try reflexivity.
    - rewrite Z.sub_0_r. rewrite set_layer_same. reflexivity.
    - rewrite IHna. reflexivity. }
  rewrite Hid. apply IH.
Qed.

Lemma normalize_shift : forall g,
  normalize g = shift_nodes (fun z => z - lowest_layer g) (fun _ => true) (g_N g) g.
Proof.
  intros g. unfold normalize, lowest_layer. destruct (g_N g) as [|n0 t] eqn:EN; [reflexivity|].
  set (lowest := fold_left (fun m n => Z.min m (layer_of g n)) (n0 :: t) (layer_of g n0)).
  destruct (lowest =? 0) eqn:E0; [|reflexivity].
  apply Z.eqb_eq in E0. rewrite E0.
  symmetry. exact (shift0_id (n0 :: t) g).
Qed.

(* 2(a), main statement: every node of g_N is moved by the same constant; nothing else changes *)
Theorem normalize_layers : forall g, nodes_wf g ->
  lay_only g (normalize g) /\
  (forall n, In n (g_N g) -> layer_of (normalize g) n = layer_of g n - lowest_layer g) /\
  (forall n, ~ In n (g_N g) -> layer_of (normalize g) n = layer_of g n).
Proof.
  intros g [Hnd Hr]. rewrite normalize_shift.
  destruct (shift_nodes_spec (fun z => z - lowest_layer g) (fun _ => true) (g_N g) g Hnd Hr) as [L Hl].
  split; [exact L|]. split; intros n Hn; rewrite Hl.
  - apply mem_nat_In in Hn. rewrite Hn. reflexivity.
  - destruct (mem_nat n (g_N g)) eqn:Em; [apply mem_nat_In in Em; contradiction | reflexivity].
Qed.
Print Assumptions normalize_layers.

Theorem normalize_slack : forall g, nodes_wf g -> edges_in g ->
  forall e, In e (g_E g) -> slack (normalize g) e = slack g e.
Proof.
  intros g W Ein e He. destruct (normalize_layers g W) as (L & Hin & _).
  destruct (Ein e He) as [Hf Ht].
  apply slack_lay_only; [exact L|]. rewrite (Hin _ Hf), (Hin _ Ht). lia.
Qed.

Theorem normalize_total_length : forall g, nodes_wf g -> edges_in g ->
  total_length (layer_of (normalize g)) (normalize g) = total_length (layer_of g) g.
Proof.
  intros g W Ein. destruct (normalize_layers g W) as (L & Hin & _).
  rewrite (total_length_lay_only (layer_of (normalize g)) L).
  rewrite !total_length_sumf. apply sumf_ext. intros e He.
  destruct (Ein e He) as [Hf Ht]. rewrite (Hin _ Hf), (Hin _ Ht). f_equal. lia.
Qed.
Print Assumptions normalize_total_length.

Theorem normalize_min_zero : forall g, nodes_wf g -> g_N g <> [] ->
  (forall n, In n (g_N (normalize g)) -> 0 <= layer_of (normalize g) n) /\
  exists n, In n (g_N (normalize g)) /\ layer_of (normalize g) n = 0.
Proof.
  intros g W Hne. destruct (normalize_layers g W) as (L & Hin & _).
  destruct (lowest_layer_spec g Hne) as [Hlow [m [Hm Hlm]]].
  rewrite (lay_only_N L). split.
  - intros n Hn. rewrite (Hin n Hn). specialize (Hlow n Hn). lia.
  - exists m. split; [exact Hm|]. rewrite (Hin m Hm). lia.
Qed.
Print Assumptions normalize_min_zero.

(* the certificate survives normalisation, so the normalised layering is still optimal *)
Theorem normalize_cert_ok : forall g, nodes_wf g -> cert_ok g = true -> cert_ok (normalize g) = true.
Proof.
  intros g W H. apply cert_ok_spec in H. apply cert_ok_spec.
  destruct (normalize_layers g W) as (L & _ & _).
  assert (Ein : edges_in g) by (intros e He; apply (cs_ends H e He)).
  assert (Hs : forall e, In e (g_E g) -> slack (normalize g) e = slack g e)
    by (apply normalize_slack; assumption).
  constructor.
  - intros e He. rewrite (lay_only_E L) in He. rewrite (Hs e He). apply (cs_feasible H e He).
  - intros e He Ht. rewrite (lay_only_E L) in He. rewrite (lay_only_gedge L e) in Ht |- *.
    rewrite (Hs e He). apply (cs_tree H e He Ht).
  - intros v Hv. rewrite (lay_only_N L) in Hv.
    rewrite !(divergence_lay_only _ v L).
    rewrite (divergence_ext g (flow (normalize g)) (flow g) v (fun e => flow_lay_only e L)).
    rewrite (divergence_ext g (fun e => e_weight (gedge (normalize g) e)) (fun e => e_weight (gedge g e)) v)
      by (intros e; rewrite (lay_only_gedge L e); reflexivity).
    apply (cs_div H v Hv).
  - apply (edges_in_lay_only L). exact Ein.
Qed.
Print Assumptions normalize_cert_ok.

Corollary normalize_optimal : forall g, nodes_wf g -> cert_ok g = true ->
  forall lay', feasible_lay lay' (normalize g) ->
  total_length (layer_of (normalize g)) (normalize g) <= total_length lay' (normalize g).
Proof. intros g W H. apply cert_sound. apply normalize_cert_ok; assumption. Qed.

(* ------------------------------------------------------------------------------------------------ *)
(* Example: hypotheses satisfiable on the model's own output for ex_edges2                           *)
(* ------------------------------------------------------------------------------------------------ *)
Fixpoint nodupb (l : list nat) : bool :=
  match l with [] => true | x :: t => negb (mem_nat x t) && nodupb t end.

Lemma nodupb_NoDup : forall l, nodupb l = true -> NoDup l.
Proof.
  induction l as [|x t IH]; intros H; [constructor|].
  cbn [nodupb] in H. apply andb_prop in H; destruct H as [Hx Ht].
  constructor; [|apply IH; exact Ht].
  intros Hin. apply mem_nat_In in Hin. rewrite Hin in Hx. discriminate.
Qed.

Definition nodes_wfb (g : graph) : bool :=
  nodupb (g_N g) && forallb (fun n => Nat.ltb n (length (g_na g))) (g_N g).

Lemma nodes_wfb_ok : forall g, nodes_wfb g = true -> nodes_wf g.
Proof.
  intros g H. apply andb_prop in H; destruct H as [H1 H2]. split; [apply nodupb_NoDup; exact H1|].
  intros n Hn. rewrite forallb_forall in H2. apply Nat.ltb_lt. apply H2. exact Hn.
Qed.

Definition edges_inb (g : graph) : bool :=
  forallb (fun e => mem_nat (e_from (gedge g e)) (g_N g) && mem_nat (e_to (gedge g e)) (g_N g)) (g_E g).

Lemma edges_inb_ok : forall g, edges_inb g = true -> edges_in g.
Proof.
  intros g H e He. unfold edges_inb in H. rewrite forallb_forall in H. specialize (H e He).
  apply andb_prop in H; destruct H as [Ha Hb]. split; apply mem_nat_In; assumption.
Qed.

(* a state with lowest layer 2, so that normalize really moves nodes *)
Definition ex_shifted : graph :=
  shift_nodes (fun z => z + 2) (fun _ => true) (g_N ex_diamond) ex_diamond.

Example ex_shifted_wf : nodes_wfb ex_shifted = true /\ edges_inb ex_shifted = true /\ cert_ok ex_shifted = true
                        /\ lowest_layer ex_shifted = 2.
Proof. vm_compute. repeat split; reflexivity. Qed.

Example ex_shifted_norm :
  map (layer_of (normalize ex_shifted)) (g_N ex_shifted) = [0; 1; 1; 2] /\
  map (layer_of ex_shifted) (g_N ex_shifted) = [2; 3; 3; 4] /\
  cert_ok (normalize ex_shifted) = true.
Proof. vm_compute. repeat split; reflexivity. Qed.
