(* OptPipeline.v — putting parts 1 and 2 together:
   - [postprocess_optimal]: a state that passes the certificate check stays optimal through
     normalize followed by vbalance (the post-processing of execNetworkSimplex with balance = 1);
   - [slices_spec], [slices_no_empty_band]: init_layer_slices puts node n into band layer(n); if every index
     0..lmax is used, no band is empty — in particular after vbalance. *)
From Autog Require Import Base Graph Populate Phase2 Optimality OptNormalize OptVbalance.

Lemma unit_weights_lay_only : forall g g', lay_only g g' -> unit_weights g -> unit_weights g'.
Proof.
  intros g g' L Hw e He. rewrite (lay_only_E L) in He. rewrite (lay_only_gedge L e). apply Hw. exact He.
Qed.

Arguments unit_weights_lay_only {g g'}.

Lemma normalize_nonneg : forall g, nodes_wf g -> layers_nonneg (normalize g).
Proof.
  intros g W. destruct (g_N g) as [|n0 t] eqn:EN.
  - intros n Hn. destruct (normalize_layers g W) as (L & _). rewrite (lay_only_N L), EN in Hn. destruct Hn.
  - assert (Hne : g_N g <> []) by (rewrite EN; discriminate).
    destruct (normalize_min_zero g W Hne) as [H _]. exact H.
Qed.

Theorem postprocess_optimal : forall g, vb_wf g -> cert_ok g = true -> unit_weights g ->
  let gf := vbalance (normalize g) in
  feasible gf /\
  layers_nonneg gf /\
  total_length (layer_of gf) gf = total_length (layer_of g) g /\
  (forall lay', feasible_lay lay' gf -> total_length (layer_of gf) gf <= total_length lay' gf).
Proof.
  intros g W H Hw gf.
  pose proof W as [Wn Wein _].
  destruct (normalize_layers g Wn) as (L & _ & _).
  pose proof (vb_wf_lay_only L W) as W'.
  pose proof (normalize_cert_ok g Wn H) as H'.
  pose proof (normalize_nonneg g Wn) as Hnn.
  pose proof (unit_weights_lay_only L Hw) as Hw'.
  assert (Hf' : feasible (normalize g)).
  { intros e He. apply cert_ok_spec in H'. exact (cs_feasible H' e He). }
  destruct (vbalance_feasible (normalize g) W' Hf' Hnn) as [Hff Hrange].
  split; [exact Hff|]. split; [intros n Hn; apply (Hrange n Hn)|]. split.
  - unfold gf. rewrite (vbalance_total_length (normalize g) W' Hf' Hnn Hw').
    apply normalize_total_length; assumption.
  - apply vbalance_optimal; assumption.
Qed.
Print Assumptions postprocess_optimal.

(* ------------------------------------------------------------------------------------------------ *)
(* init_layer_slices                                                                                 *)
(* ------------------------------------------------------------------------------------------------ *)
Lemma slices_fold : forall (lay : nat -> Z) l ls k,
  (forall n, In n l -> (Z.to_nat (lay n) < length ls)%nat) ->
  l_nodes (nth k (fold_left (fun ls n => upd ls (Z.to_nat (lay n))
                                        (fun l => mkLayer (l_nodes l ++ [n]) (l_w l) (l_h l))) l ls) layer0)
  = l_nodes (nth k ls layer0) ++ filter (fun n => Nat.eqb (Z.to_nat (lay n)) k) l.
Proof.
  intros lay l; induction l as [|a t IH]; intros ls k Hr; cbn [fold_left filter].
  - rewrite app_nil_r. reflexivity.
  - rewrite IH.
    2:{ intros n Hn. rewrite length_upd. apply Hr. right. exact Hn. }
    rewrite nth_upd. rewrite (Nat.eqb_sym k).
    destruct (Nat.eqb (Z.to_nat (lay a)) k) eqn:E; cbn [andb]; [|reflexivity].
    apply Nat.eqb_eq in E.
    assert (Hlt : (k < length ls)%nat) by (rewrite <- E; apply Hr; left; reflexivity).
    apply Nat.ltb_lt in Hlt. rewrite Hlt. cbn [l_nodes]. rewrite <- app_assoc. reflexivity.
Qed.

Lemma length_slices_fold : forall (lay : nat -> Z) l ls,
  length (fold_left (fun ls n => upd ls (Z.to_nat (lay n))
                                   (fun l => mkLayer (l_nodes l ++ [n]) (l_w l) (l_h l))) l ls) = length ls.
Proof.
  intros lay l; induction l as [|a t IH]; intros ls; cbn [fold_left]; [reflexivity|].
  rewrite IH. apply length_upd.
Qed.

Theorem slices_spec : forall g g', init_layer_slices g = Ok g' ->
  layers_nonneg g /\
  lay_only g (with_L g' (g_L g)) /\ g_na g' = g_na g /\
  length (g_L g') = Z.to_nat (vb_lmax g + 1) /\
  forall k, l_nodes (glayer g' k) = filter (fun n => Nat.eqb (Z.to_nat (layer_of g n)) k) (g_N g).
Proof.
  intros g g' H. unfold init_layer_slices in H. cbv zeta in H.
  change (fold_left (fun m n => Z.max m (layer_of g n)) (g_N g) 0) with (vb_lmax g) in H.
  destruct (existsb (fun n => layer_of g n <? 0) (g_N g)) eqn:Eneg; [discriminate|].
  inversion H; subst g'. clear H.
  assert (Hnn : layers_nonneg g).
  { intros n Hn. destruct (Z.ltb_spec (layer_of g n) 0) as [Hlt|Hge]; [|exact Hge].
    assert (Ht : existsb (fun n => layer_of g n <? 0) (g_N g) = true).
    { apply existsb_exists. exists n. split; [exact Hn | apply Z.ltb_lt; exact Hlt]. }
    congruence. }
  split; [exact Hnn|]. split; [|split; [reflexivity|split]].
  - unfold with_L; cbn [g_na g_ea g_N g_E g_L]. destruct g; apply lay_only_refl.
  - cbn [with_L g_L]. rewrite length_slices_fold. apply repeat_length.
  - intros k. unfold glayer. cbn [with_L g_L]. rewrite slices_fold.
    + assert (Hr : l_nodes (nth k (repeat layer0 (Z.to_nat (vb_lmax g + 1))) layer0) = []).
      { destruct (nth_in_or_default k (repeat layer0 (Z.to_nat (vb_lmax g + 1))) layer0) as [Hin|Hd].
        - apply repeat_spec in Hin. rewrite Hin. reflexivity.
        - rewrite Hd. reflexivity. }
      rewrite Hr. reflexivity.
    + intros n Hn. rewrite repeat_length. destruct (vb_lmax_spec g) as [H0 Hmax].
      specialize (Hmax n Hn). specialize (Hnn n Hn). lia.
Qed.
Print Assumptions slices_spec.

Corollary slices_no_empty_band : forall g g', init_layer_slices g = Ok g' ->
  (forall k, 0 <= k <= vb_lmax g -> exists n, In n (g_N g) /\ layer_of g n = k) ->
  forall i, (i < length (g_L g'))%nat -> l_nodes (glayer g' i) <> [].
Proof.
  intros g g' H Hfull i Hi. destruct (slices_spec g g' H) as (Hnn & _ & _ & Hlen & Hnodes).
  rewrite Hlen in Hi. destruct (vb_lmax_spec g) as [H0 _].
  destruct (Hfull (Z.of_nat i)) as [n [Hn Hl]]; [lia|].
  rewrite Hnodes. intros Hnil.
  assert (Hin : In n (filter (fun n => Nat.eqb (Z.to_nat (layer_of g n)) i) (g_N g))).
  { apply filter_In. split; [exact Hn|]. apply Nat.eqb_eq. rewrite Hl. apply Nat2Z.id. }
  rewrite Hnil in Hin. destruct Hin.
Qed.

(* vbalance keeps the highest layer index, so "no empty band" carries over to the final layer slices *)
Lemma vbalance_lmax : forall g, vb_wf g -> feasible g -> layers_nonneg g ->
  (forall k, 0 <= k <= vb_lmax g -> exists n, In n (g_N g) /\ layer_of g n = k) ->
  vb_lmax (vbalance g) = vb_lmax g.
Proof.
  intros g W Hf Hnn Hfull.
  destruct (vbalance_feasible g W Hf Hnn) as [_ Hrange].
  destruct (vb_lmax_spec g) as [H0 _].
  destruct (vbalance_no_empty_layer g W Hf Hnn Hfull (vb_lmax g)) as [n [Hn Hl]]; [lia|].
  destruct (fold_max_spec (layer_of (vbalance g)) (g_N (vbalance g)) 0) as (A1 & A2 & A3).
  cbv zeta in A1, A2, A3. fold (vb_lmax (vbalance g)) in A1, A2, A3.
  specialize (A2 n Hn). rewrite Hl in A2.
  destruct A3 as [A3|[m [Hm A3]]]; [lia|]. specialize (Hrange m Hm). lia.
Qed.

Theorem vbalance_no_empty_band : forall g g', vb_wf g -> feasible g -> layers_nonneg g ->
  (forall k, 0 <= k <= vb_lmax g -> exists n, In n (g_N g) /\ layer_of g n = k) ->
  init_layer_slices (vbalance g) = Ok g' ->
  length (g_L g') = Z.to_nat (vb_lmax g + 1) /\
  forall i, (i < length (g_L g'))%nat -> l_nodes (glayer g' i) <> [].
Proof.
  intros g g' W Hf Hnn Hfull H.
  pose proof (vbalance_lmax g W Hf Hnn Hfull) as Hmax.
  split.
  - destruct (slices_spec _ _ H) as (_ & _ & _ & Hlen & _). rewrite Hlen, Hmax. reflexivity.
  - apply (slices_no_empty_band _ _ H). rewrite Hmax. apply vbalance_no_empty_layer; assumption.
Qed.
Print Assumptions vbalance_no_empty_band.

(* ------------------------------------------------------------------------------------------------ *)
(* Example: the whole post-processing on the model's output for ex_edges3                             *)
(* ------------------------------------------------------------------------------------------------ *)
Definition layers_usedb (g : graph) : bool :=
  forallb (fun k => existsb (fun n => layer_of g n =? Z.of_nat k) (g_N g)) (iota 0 (S (Z.to_nat (vb_lmax g)))).

Example ex_pipeline :
  match ns_state ex_edges3 with
  | Ok g =>
      vb_wfb g && cert_ok g && unit_weightsb g
      && layers_usedb (normalize g)
      && match init_layer_slices (vbalance (normalize g)) with
         | Ok g' => forallb (fun l => negb (Nat.eqb (length (l_nodes l)) 0)) (g_L g')
                    && Nat.eqb (length (g_L g')) 5
         | Err _ => false
         end
  | Err _ => false
  end = true.
Proof. vm_compute. reflexivity. Qed.
