(* OptVbalance.v — PART 2(b): [vbalance] moves only nodes with indeg = outdeg, inside their feasible
   range. On a graph whose adjacency lists are consistent with g_E and whose layers are >= 0 it
   preserves feasibility; with unit weights it preserves the total length (hence optimality), and it
   never empties a layer. *)
From Autog Require Import Base Graph Populate Phase2 Optimality OptNormalize.

(* ------------------------------------------------------------------------------------------------ *)
(* vbalance, restated with named pieces (definitionally equal to the model)                          *)
(* ------------------------------------------------------------------------------------------------ *)
Definition vb_lsize0 (g : graph) : list (Z * Z) := fold_left (fun l n => ladd l (layer_of g n) 1) (g_N g) [].
Definition vb_lmax (g : graph) : Z := fold_left (fun m n => Z.max m (layer_of g n)) (g_N g) 0.
Definition vb_low (g : graph) (n : nat) : Z :=
  fold_left (fun lo e => Z.max lo (layer_of g (e_from (gedge g e)) + e_delta (gedge g e))) (n_in (gnode g n)) 0.
Definition vb_high (g : graph) (lmax : Z) (n : nat) : Z :=
  fold_left (fun hi e => Z.min hi (layer_of g (e_to (gedge g e)) - e_delta (gedge g e))) (n_out (gnode g n)) lmax.
Definition vb_newl (lsize : list (Z * Z)) (low high : Z) : Z :=
  fold_left (fun nl i => if lget lsize i <? lget lsize nl then i else nl)
            (map (fun k => low + 1 + Z.of_nat k) (iota 0 (Z.to_nat (high - low)))) low.

Definition vb_step (lmax : Z) (acc : graph * list (Z * Z)) (n : nat) : graph * list (Z * Z) :=
  let '(g, lsize) := acc in
  if Nat.eqb (indeg g n) (outdeg g n) then
    let low := vb_low g n in
    let high := vb_high g lmax n in
    let newl := vb_newl lsize low high in
    if lget lsize newl <? lget lsize (layer_of g n) then
      (upd_node g n (set_layer newl), ladd (ladd lsize (layer_of g n) (-1)) newl 1)
    else acc
  else acc.

Lemma vbalance_eq : forall g,
  vbalance g = fst (fold_left (vb_step (vb_lmax g)) (g_N g) (g, vb_lsize0 g)).
Proof. intros g. reflexivity. Qed.

(* ------------------------------------------------------------------------------------------------ *)
(* small arithmetic/list lemmas                                                                       *)
(* ------------------------------------------------------------------------------------------------ *)
Lemma lget_ladd : forall l a d k, lget (ladd l a d) k = if a =? k then lget l a + d else lget l k.
Proof. intros l a d k. unfold ladd. cbn [lget]. reflexivity. Qed.

Lemma In_iota : forall m s k, In k (iota s m) -> (s <= k < s + m)%nat.
Proof.
  induction m as [|m IH]; intros s k H; cbn [iota] in H; [destruct H|].
  destruct H as [H|H]; [subst; lia|]. apply IH in H. lia.
Qed.

Lemma fold_pick_in : forall (c : Z -> Z -> bool) l a,
  let r := fold_left (fun nl i => if c i nl then i else nl) l a in r = a \/ In r l.
Proof.
  intros c l; induction l as [|x t IH]; intros a; cbn [fold_left]; [left; reflexivity|].
  cbv zeta. destruct (IH (if c x a then x else a)) as [H|H].
  - cbv zeta in H. rewrite H. destruct (c x a); [right; left; reflexivity | left; reflexivity].
  - right. right. exact H.
Qed.

Lemma vb_newl_range : forall lsize low high, low <= high ->
  low <= vb_newl lsize low high <= high.
Proof.
  intros lsize low high Hle. unfold vb_newl.
  pose proof (fold_pick_in (fun i nl => lget lsize i <? lget lsize nl)
                (map (fun k => low + 1 + Z.of_nat k) (iota 0 (Z.to_nat (high - low)))) low) as H.
  cbv beta zeta in H. destruct H as [H|H].
  - rewrite H. lia.
  - apply in_map_iff in H. destruct H as [k [Hk Hin]]. apply In_iota in Hin.
    rewrite <- Hk. lia.
Qed.

Lemma sumf_indicator_count : forall (b : nat -> bool) d l,
  sumf (fun e => if b e then d else 0) l = d * Z.of_nat (length (filter b l)).
Proof.
  intros b d l; induction l as [|x t IH]; cbn [sumf filter]; [cbn; lia|].
  rewrite IH. destruct (b x); cbn [length]; lia.
Qed.

(* number of nodes of l on layer k *)
Definition cnt (lay : nat -> Z) (l : list nat) (k : Z) : Z := sumf (fun n => if lay n =? k then 1 else 0) l.

Lemma cnt_nonneg : forall lay l k, 0 <= cnt lay l k.
Proof.
  intros lay l k. unfold cnt. induction l as [|x t IH]; cbn [sumf]; [lia|].
  destruct (lay x =? k); lia.
Qed.

Lemma cnt_pos : forall lay l k, 1 <= cnt lay l k <-> exists n, In n l /\ lay n = k.
Proof.
  intros lay l k. unfold cnt. induction l as [|x t IH]; cbn [sumf].
  - split; [lia | intros [n [[] _]]].
  - fold (cnt lay t k) in IH |- *. pose proof (cnt_nonneg lay t k) as Hnn.
    destruct (lay x =? k) eqn:E.
    + apply Z.eqb_eq in E. split; [|lia]. intros _. exists x. split; [left; reflexivity|exact E].
    + apply Z.eqb_neq in E. split.
      * intros H. assert (H' : 1 <= cnt lay t k) by lia. apply IH in H'.
        destruct H' as [n [Hn Hl]]. exists n. split; [right; exact Hn|exact Hl].
      * intros [n [[Hn|Hn] Hl]]; [subst x; contradiction|].
        assert (H' : 1 <= cnt lay t k) by (apply IH; exists n; split; assumption). lia.
Qed.

Lemma cnt_update_notin : forall lay lay' n l k,
  (forall m, m <> n -> lay' m = lay m) -> ~ In n l -> cnt lay' l k = cnt lay l k.
Proof.
  intros lay lay' n l k H Hn. unfold cnt. apply sumf_ext. intros m Hm.
  rewrite H; [reflexivity|]. intros ->. contradiction.
Qed.

Lemma cnt_update_in : forall lay lay' n l k,
  (forall m, m <> n -> lay' m = lay m) -> NoDup l -> In n l ->
  cnt lay' l k = cnt lay l k + (if lay' n =? k then 1 else 0) - (if lay n =? k then 1 else 0).
Proof.
  intros lay lay' n l k H; induction l as [|x t IH]; intros Hnd Hin; [destruct Hin|].
  inversion Hnd as [|x' t' Hx Ht]; subst.
  unfold cnt; cbn [sumf]. fold (cnt lay' t k) (cnt lay t k).
  destruct (Nat.eq_dec x n) as [->|Hne].
  - rewrite (cnt_update_notin lay lay' n t k H Hx). lia.
  - destruct Hin as [Hin|Hin]; [contradiction|].
    rewrite (IH Ht Hin). rewrite (H x Hne). lia.
Qed.

Lemma lsize0_cnt : forall lay l acc k,
  lget (fold_left (fun l n => ladd l (lay n) 1) l acc) k = lget acc k + cnt lay l k.
Proof.
  intros lay l; induction l as [|x t IH]; intros acc k; cbn [fold_left].
  - unfold cnt; cbn [sumf]. lia.
  - rewrite IH. rewrite lget_ladd. unfold cnt; cbn [sumf].
    destruct (lay x =? k) eqn:E.
    + apply Z.eqb_eq in E. rewrite E. lia.
    + lia.
Qed.

(* ------------------------------------------------------------------------------------------------ *)
(* consistency of the adjacency lists with the edge list                                              *)
(* ------------------------------------------------------------------------------------------------ *)
Definition adj_ok (g : graph) : Prop := forall n, In n (g_N g) ->
  (forall e, In e (n_in (gnode g n)) <-> In e (g_E g) /\ e_to (gedge g e) = n) /\
  (forall e, In e (n_out (gnode g n)) <-> In e (g_E g) /\ e_from (gedge g e) = n) /\
  length (n_in (gnode g n)) = length (filter (fun e => Nat.eqb (e_to (gedge g e)) n) (g_E g)) /\
  length (n_out (gnode g n)) = length (filter (fun e => Nat.eqb (e_from (gedge g e)) n) (g_E g)).

Definition adj_okb (g : graph) : bool :=
  forallb (fun n =>
    forallb (fun e => mem_nat e (g_E g) && Nat.eqb (e_to (gedge g e)) n) (n_in (gnode g n))
    && forallb (fun e => negb (Nat.eqb (e_to (gedge g e)) n) || mem_nat e (n_in (gnode g n))) (g_E g)
    && forallb (fun e => mem_nat e (g_E g) && Nat.eqb (e_from (gedge g e)) n) (n_out (gnode g n))
    && forallb (fun e => negb (Nat.eqb (e_from (gedge g e)) n) || mem_nat e (n_out (gnode g n))) (g_E g)
    && Nat.eqb (length (n_in (gnode g n))) (length (filter (fun e => Nat.eqb (e_to (gedge g e)) n) (g_E g)))
    && Nat.eqb (length (n_out (gnode g n))) (length (filter (fun e => Nat.eqb (e_from (gedge g e)) n) (g_E g))))
  (g_N g).

Lemma adj_okb_ok : forall g, adj_okb g = true -> adj_ok g.
Proof.
  intros g H n Hn. unfold adj_okb in H. rewrite forallb_forall in H. specialize (H n Hn).
  apply andb_prop in H; destruct H as [H H6].
  apply andb_prop in H; destruct H as [H H5].
  apply andb_prop in H; destruct H as [H H4].
  apply andb_prop in H; destruct H as [H H3].
  apply andb_prop in H; destruct H as [H1 H2].
  rewrite forallb_forall in H1, H2, H3, H4.
  apply Nat.eqb_eq in H5, H6.
  repeat split; try assumption.
  - specialize (H1 e H). apply andb_prop in H1. destruct H1 as [Ha _]. apply mem_nat_In. exact Ha.
  - specialize (H1 e H). apply andb_prop in H1. destruct H1 as [_ Hb]. apply Nat.eqb_eq. exact Hb.
  - intros [He Ht]. specialize (H2 e He). apply Nat.eqb_eq in Ht. rewrite Ht in H2.
    cbn [negb orb] in H2. apply mem_nat_In. exact H2.
  - specialize (H3 e H). apply andb_prop in H3. destruct H3 as [Ha _]. apply mem_nat_In. exact Ha.
  - specialize (H3 e H). apply andb_prop in H3. destruct H3 as [_ Hb]. apply Nat.eqb_eq. exact Hb.
  - intros [He Ht]. specialize (H4 e He). apply Nat.eqb_eq in Ht. rewrite Ht in H4.
    cbn [negb orb] in H4. apply mem_nat_In. exact H4.
Qed.

Lemma adj_ok_lay_only : forall g g', lay_only g g' -> adj_ok g -> adj_ok g'.
Proof.
  intros g g' L A n Hn. rewrite (lay_only_N L) in Hn. specialize (A n Hn).
  rewrite (lay_only_in L n), (lay_only_out L n), (lay_only_E L).
  destruct L as (Eea & _). unfold gedge in *. rewrite Eea. exact A.
Qed.

Arguments adj_ok_lay_only {g g'}.

Record vb_wf (g : graph) : Prop := mkVbWf {
  vw_nodes : nodes_wf g;
  vw_edges : edges_in g;
  vw_adj : adj_ok g
}.

Lemma vb_wf_lay_only : forall g g', lay_only g g' -> vb_wf g -> vb_wf g'.
Proof.
  intros g g' L [W1 W2 W3]. constructor.
  - exact (nodes_wf_lay_only L W1).
  - exact (edges_in_lay_only L W2).
  - exact (adj_ok_lay_only L W3).
Qed.

(* ------------------------------------------------------------------------------------------------ *)
(* the effect of moving one balanced node                                                             *)
(* ------------------------------------------------------------------------------------------------ *)
Arguments vb_wf_lay_only {g g'}.

(* total length after changing the layer of a single node n by d, unit weights *)
Lemma total_length_move : forall g lay lay' n d,
  unit_weights g ->
  (forall m, lay' m = lay m + (if Nat.eqb m n then d else 0)) ->
  total_length lay' g = total_length lay g
     + d * Z.of_nat (length (filter (fun e => Nat.eqb (e_to (gedge g e)) n) (g_E g)))
     - d * Z.of_nat (length (filter (fun e => Nat.eqb (e_from (gedge g e)) n) (g_E g))).
Proof.
  intros g lay lay' n d Hw Hl. rewrite !total_length_sumf.
  rewrite <- !sumf_indicator_count.
  rewrite (sumf_ext _ (fun e => (e_weight (gedge g e) * (lay (e_to (gedge g e)) - lay (e_from (gedge g e)))
                                 + (if Nat.eqb (e_to (gedge g e)) n then d else 0))
                                + (fun e => - (if Nat.eqb (e_from (gedge g e)) n then d else 0)) e)).
  2:{ intros e He. rewrite (Hw e He). rewrite !Hl. cbv beta. lia. }
  rewrite sumf_add, sumf_add.
  rewrite (sumf_ext (fun e => - (if Nat.eqb (e_from (gedge g e)) n then d else 0))
                    (fun e => (-1) * (if Nat.eqb (e_from (gedge g e)) n then d else 0)))
    by (intros; lia).
  rewrite sumf_scale. lia.
Qed.

Record vb_inv (lmax : Z) (g0 : graph) (acc : graph * list (Z * Z)) : Prop := mkVbInv {
  vi_lay : lay_only g0 (fst acc);
  vi_feas : forall e, In e (g_E g0) -> 0 <= slack (fst acc) e;
  vi_range : forall n, In n (g_N g0) -> 0 <= layer_of (fst acc) n <= lmax;
  vi_lsize : forall k, lget (snd acc) k = cnt (layer_of (fst acc)) (g_N g0) k;
  vi_len : unit_weights g0 -> total_length (layer_of (fst acc)) g0 = total_length (layer_of g0) g0
}.

Definition layers_full (lmax : Z) (ls : list (Z * Z)) : Prop := forall k, 0 <= k <= lmax -> 1 <= lget ls k.

Lemma vb_step_inv : forall lmax g0 g ls n,
  vb_wf g0 -> vb_inv lmax g0 (g, ls) -> In n (g_N g0) ->
  vb_inv lmax g0 (vb_step lmax (g, ls) n) /\
  (layers_full lmax ls -> layers_full lmax (snd (vb_step lmax (g, ls) n))).
Proof.
  intros lmax g0 g ls n W0 I Hn.
  unfold vb_step.
  destruct (Nat.eqb (indeg g n) (outdeg g n)) eqn:Edeg; [|split; [exact I | intros F; exact F]].
  cbv zeta.
  set (low := vb_low g n). set (high := vb_high g lmax n). set (newl := vb_newl ls low high).
  destruct (lget ls newl <? lget ls (layer_of g n)) eqn:Elt; [|split; [exact I | intros F; exact F]].
  apply Z.ltb_lt in Elt. apply Nat.eqb_eq in Edeg. unfold indeg, outdeg in Edeg.
  destruct I as [L Hfeas Hrange Hls Hlen]. cbn [fst snd] in *.
  pose proof (vb_wf_lay_only L W0) as [[Hnd Hr] Ein A].
  assert (EN : g_N g = g_N g0) by exact (lay_only_N L).
  assert (EE : g_E g = g_E g0) by exact (lay_only_E L).
  rewrite EN in Hnd, Hr. clear Ein.
  assert (HnN : In n (g_N g)) by (rewrite EN; exact Hn).
  destruct (A n HnN) as (Ain & Aout & Lin & Lout). rewrite EE in Ain, Aout, Lin, Lout.
  set (old := layer_of g n) in *.
  (* low and high *)
  destruct (fold_max_spec (fun e => layer_of g (e_from (gedge g e)) + e_delta (gedge g e))
                          (n_in (gnode g n)) 0) as (Hlow0 & Hlow_in & Hlow_c).
  destruct (fold_min_spec (fun e => layer_of g (e_to (gedge g e)) - e_delta (gedge g e))
                          (n_out (gnode g n)) lmax) as (Hhigh0 & Hhigh_in & Hhigh_c).
  cbv zeta in Hlow0, Hlow_in, Hlow_c, Hhigh0, Hhigh_in, Hhigh_c.
  fold (vb_low g n) in Hlow0, Hlow_in, Hlow_c. fold low in Hlow0, Hlow_in, Hlow_c.
  fold (vb_high g lmax n) in Hhigh0, Hhigh_in, Hhigh_c. fold high in Hhigh0, Hhigh_in, Hhigh_c.
  pose proof (Hrange n Hn) as Hold_range. fold old in Hold_range.
  assert (Hlow_old : low <= old).
  { destruct Hlow_c as [Hc|[e [He Hc]]]; [lia|].
    apply Ain in He. destruct He as [HeE Hto]. pose proof (Hfeas e HeE) as Hs.
    unfold slack in Hs. cbv zeta in Hs. rewrite Hto in Hs. fold old in Hs. lia. }
  assert (Hold_high : old <= high).
  { destruct Hhigh_c as [Hc|[e [He Hc]]]; [lia|].
    apply Aout in He. destruct He as [HeE Hfrom]. pose proof (Hfeas e HeE) as Hs.
    unfold slack in Hs. cbv zeta in Hs. rewrite Hfrom in Hs. fold old in Hs. lia. }
  assert (Hnewl : low <= newl <= high) by (apply vb_newl_range; lia).
  (* the updated graph *)
  set (g' := upd_node g n (set_layer newl)).
  assert (L' : lay_only g g') by exact (lay_only_upd_node g n (fun _ => newl)).
  assert (Hlay' : forall m, layer_of g' m = if Nat.eqb m n then newl else layer_of g m).
  { intros m. unfold g'. rewrite layer_of_set_layer.
    destruct (Nat.eqb m n) eqn:Emn; cbn [andb]; [|reflexivity].
    apply Nat.eqb_eq in Emn. subst m.
    assert (Hlt : (n < length (g_na g))%nat) by (apply Hr; exact Hn).
    apply Nat.ltb_lt in Hlt. rewrite Hlt. reflexivity. }
  assert (Hge' : forall e, gedge g' e = gedge g e) by (intros e; reflexivity).
  split.
  - constructor; cbn [fst snd].
    + eapply lay_only_trans; eassumption.
    + (* feasibility *)
      intros e He. pose proof (Hfeas e He) as Hs.
      unfold slack in Hs |- *. cbv zeta in Hs |- *. rewrite Hge'. rewrite !Hlay'.
      destruct (Nat.eqb (e_to (gedge g e)) n) eqn:Eto; destruct (Nat.eqb (e_from (gedge g e)) n) eqn:Efrom.
      * apply Nat.eqb_eq in Eto, Efrom. rewrite Eto, Efrom in Hs. lia.
      * apply Nat.eqb_eq in Eto.
        assert (Hin : In e (n_in (gnode g n))) by (apply Ain; split; assumption).
        specialize (Hlow_in e Hin). lia.
      * apply Nat.eqb_eq in Efrom.
        assert (Hin : In e (n_out (gnode g n))) by (apply Aout; split; assumption).
        specialize (Hhigh_in e Hin). lia.
      * exact Hs.
    + (* range *)
      intros m Hm. rewrite Hlay'. destruct (Nat.eqb m n); [lia | apply Hrange; exact Hm].
    + (* lsize *)
      intros k. rewrite !lget_ladd.
      assert (Hupd : forall m, m <> n -> layer_of g' m = layer_of g m).
      { intros m Hm. rewrite Hlay'. apply Nat.eqb_neq in Hm. rewrite Hm. reflexivity. }
      rewrite (cnt_update_in (layer_of g) (layer_of g') n (g_N g0) k Hupd Hnd Hn).
      rewrite (Hlay' n), Nat.eqb_refl. fold old. rewrite <- !Hls.
      assert (C1 : newl = k -> lget ls newl = lget ls k) by (intros E; rewrite E; reflexivity).
      assert (C2 : old = newl -> lget ls old = lget ls newl) by (intros E; rewrite E; reflexivity).
      assert (C3 : old = k -> lget ls old = lget ls k) by (intros E; rewrite E; reflexivity).
      destruct (Z.eqb_spec newl k) as [E1|E1]; destruct (Z.eqb_spec old newl) as [E2|E2];
        destruct (Z.eqb_spec old k) as [E3|E3]; lia.
    + (* total length *)
      intros Hw. rewrite <- (Hlen Hw).
      rewrite <- (total_length_lay_only (layer_of g') L), <- (total_length_lay_only (layer_of g) L).
      assert (Hwg : unit_weights g).
      { intros e He. rewrite EE in He. rewrite (lay_only_gedge L e). apply Hw. exact He. }
      rewrite (total_length_move g (layer_of g) (layer_of g') n (newl - old) Hwg).
      2:{ intros m. rewrite Hlay'. destruct (Nat.eqb m n) eqn:Emn; [|lia].
          apply Nat.eqb_eq in Emn. subst m. fold old. lia. }
      rewrite EE, <- Lin, <- Lout, Edeg. lia.
  - (* no layer becomes empty *)
    intros F k Hk. cbn [snd]. rewrite !lget_ladd.
    assert (Hn1 : 1 <= lget ls newl) by (apply F; lia).
    pose proof (F k Hk) as Hk1.
    assert (C1 : newl = k -> lget ls newl = lget ls k) by (intros E; rewrite E; reflexivity).
    assert (C2 : old = newl -> lget ls old = lget ls newl) by (intros E; rewrite E; reflexivity).
    assert (C3 : old = k -> lget ls old = lget ls k) by (intros E; rewrite E; reflexivity).
    destruct (Z.eqb_spec newl k) as [E1|E1]; destruct (Z.eqb_spec old newl) as [E2|E2];
      destruct (Z.eqb_spec old k) as [E3|E3]; lia.
Qed.

Lemma vb_fold_inv : forall lmax g0 l acc,
  vb_wf g0 -> incl l (g_N g0) -> vb_inv lmax g0 acc ->
  vb_inv lmax g0 (fold_left (vb_step lmax) l acc) /\
  (layers_full lmax (snd acc) -> layers_full lmax (snd (fold_left (vb_step lmax) l acc))).
Proof.
  intros lmax g0 l; induction l as [|n t IH]; intros acc W Hincl I; cbn [fold_left].
  - split; [exact I | intros F; exact F].
  - destruct acc as [g ls].
    destruct (vb_step_inv lmax g0 g ls n W I (Hincl n (or_introl eq_refl))) as [I1 F1].
    destruct (IH (vb_step lmax (g, ls) n) W (fun x Hx => Hincl x (or_intror Hx)) I1) as [I2 F2].
    split; [exact I2 | intros F; apply F2; apply F1; exact F].
Qed.

Lemma vb_lmax_spec : forall g, 0 <= vb_lmax g /\ forall n, In n (g_N g) -> layer_of g n <= vb_lmax g.
Proof.
  intros g. destruct (fold_max_spec (layer_of g) (g_N g) 0) as (H1 & H2 & _). split; assumption.
Qed.

Lemma vb_inv_init : forall g,
  (forall e, In e (g_E g) -> 0 <= slack g e) ->
  (forall n, In n (g_N g) -> 0 <= layer_of g n) ->
  vb_inv (vb_lmax g) g (g, vb_lsize0 g).
Proof.
  intros g Hf Hnn. constructor; cbn [fst snd].
  - apply lay_only_refl.
  - exact Hf.
  - intros n Hn. split; [apply Hnn; exact Hn | apply vb_lmax_spec; exact Hn].
  - intros k. unfold vb_lsize0. rewrite lsize0_cnt. cbn [lget]. lia.
  - intros _. reflexivity.
Qed.

(* ------------------------------------------------------------------------------------------------ *)
(* Theorems of part 2(b)                                                                              *)
(* ------------------------------------------------------------------------------------------------ *)
Definition feasible (g : graph) : Prop := forall e, In e (g_E g) -> 0 <= slack g e.
Definition layers_nonneg (g : graph) : Prop := forall n, In n (g_N g) -> 0 <= layer_of g n.

Lemma vbalance_inv : forall g, vb_wf g -> feasible g -> layers_nonneg g ->
  exists ls, vb_inv (vb_lmax g) g (vbalance g, ls) /\
             (layers_full (vb_lmax g) (vb_lsize0 g) -> layers_full (vb_lmax g) ls).
Proof.
  intros g W Hf Hnn. rewrite vbalance_eq.
  destruct (vb_fold_inv (vb_lmax g) g (g_N g) (g, vb_lsize0 g) W (fun x Hx => Hx) (vb_inv_init g Hf Hnn))
    as [I F].
  destruct (fold_left (vb_step (vb_lmax g)) (g_N g) (g, vb_lsize0 g)) as [g' ls].
  exists ls. split; [exact I | exact F].
Qed.

(* only layers change *)
Theorem vbalance_lay_only : forall g, vb_wf g -> feasible g -> layers_nonneg g -> lay_only g (vbalance g).
Proof. intros g W Hf Hnn. destruct (vbalance_inv g W Hf Hnn) as [ls [I _]]. exact (vi_lay _ _ _ I). Qed.

(* feasibility is preserved, and all layers stay inside 0 .. lmax *)
Theorem vbalance_feasible : forall g, vb_wf g -> feasible g -> layers_nonneg g ->
  feasible (vbalance g) /\
  forall n, In n (g_N (vbalance g)) -> 0 <= layer_of (vbalance g) n <= vb_lmax g.
Proof.
  intros g W Hf Hnn. destruct (vbalance_inv g W Hf Hnn) as [ls [I _]].
  pose proof (vi_lay _ _ _ I) as L. cbn [fst] in L. split.
  - intros e He. rewrite (lay_only_E L) in He. exact (vi_feas _ _ _ I e He).
  - intros n Hn. rewrite (lay_only_N L) in Hn. exact (vi_range _ _ _ I n Hn).
Qed.
Print Assumptions vbalance_feasible.

(* with unit weights the objective is unchanged *)
Theorem vbalance_total_length : forall g, vb_wf g -> feasible g -> layers_nonneg g -> unit_weights g ->
  total_length (layer_of (vbalance g)) (vbalance g) = total_length (layer_of g) g.
Proof.
  intros g W Hf Hnn Hw. destruct (vbalance_inv g W Hf Hnn) as [ls [I _]].
  pose proof (vi_lay _ _ _ I) as L. cbn [fst] in L.
  rewrite (total_length_lay_only (layer_of (vbalance g)) L).
  exact (vi_len _ _ _ I Hw).
Qed.
Print Assumptions vbalance_total_length.

(* no layer is emptied: if every index 0..lmax is used before, it is used afterwards *)
Theorem vbalance_no_empty_layer : forall g, vb_wf g -> feasible g -> layers_nonneg g ->
  (forall k, 0 <= k <= vb_lmax g -> exists n, In n (g_N g) /\ layer_of g n = k) ->
  forall k, 0 <= k <= vb_lmax g -> exists n, In n (g_N (vbalance g)) /\ layer_of (vbalance g) n = k.
Proof.
  intros g W Hf Hnn Hfull k Hk. destruct (vbalance_inv g W Hf Hnn) as [ls [I F]].
  pose proof (vi_lay _ _ _ I) as L. cbn [fst] in L. rewrite (lay_only_N L).
  apply cnt_pos. pose proof (vi_lsize _ _ _ I k) as Hc. cbn [fst snd] in Hc. rewrite <- Hc.
  apply F; [|exact Hk].
  intros k' Hk'. unfold vb_lsize0. rewrite lsize0_cnt. cbn [lget].
  assert (H1 : 1 <= cnt (layer_of g) (g_N g) k') by (apply cnt_pos; apply Hfull; exact Hk').
  lia.
Qed.
Print Assumptions vbalance_no_empty_layer.

(* optimality survives: certificate before => minimal total length after normalize + vbalance *)
Theorem vbalance_optimal : forall g, vb_wf g -> cert_ok g = true -> layers_nonneg g -> unit_weights g ->
  forall lay', feasible_lay lay' (vbalance g) ->
  total_length (layer_of (vbalance g)) (vbalance g) <= total_length lay' (vbalance g).
Proof.
  intros g W H Hnn Hw lay' Hf'.
  assert (Hf : feasible g) by (intros e He; apply cert_ok_spec in H; exact (cs_feasible H e He)).
  pose proof (vbalance_lay_only g W Hf Hnn) as L.
  rewrite (vbalance_total_length g W Hf Hnn Hw).
  rewrite (total_length_lay_only lay' L).
  apply cert_sound; [exact H|].
  intros e He. specialize (Hf' e). rewrite (lay_only_E L), (lay_only_gedge L e) in Hf'. apply Hf'. exact He.
Qed.
Print Assumptions vbalance_optimal.

(* ------------------------------------------------------------------------------------------------ *)
(* Examples                                                                                          *)
(* ------------------------------------------------------------------------------------------------ *)
Definition vb_wfb (g : graph) : bool := nodes_wfb g && edges_inb g && adj_okb g.

Lemma vb_wfb_ok : forall g, vb_wfb g = true -> vb_wf g.
Proof.
  intros g H. apply andb_prop in H; destruct H as [H H3]. apply andb_prop in H; destruct H as [H1 H2].
  constructor; [apply nodes_wfb_ok | apply edges_inb_ok | apply adj_okb_ok]; assumption.
Qed.

Definition feasibleb (g : graph) : bool := forallb (fun e => 0 <=? slack g e) (g_E g).
Definition layers_nonnegb (g : graph) : bool := forallb (fun n => 0 <=? layer_of g n) (g_N g).
Definition unit_weightsb (g : graph) : bool := forallb (fun e => e_weight (gedge g e) =? 1) (g_E g).

(* chain 0->1->2->3->5 and a short-cut 0->4->5: node 4 may sit on layer 1, 2 or 3 *)
Definition ex_edges3 : list (list nat) := [[0;1];[1;2];[2;3];[3;5];[0;4];[4;5]]%nat.
Definition ex_norm3 : res graph := do g <- ns_state ex_edges3; Ok (normalize g).

Definition on_ok (r : res graph) (f : graph -> bool) : bool := match r with Ok g => f g | Err _ => false end.

Example ex_vb_hyps :
  on_ok ex_norm3 (fun g => vb_wfb g && feasibleb g && layers_nonnegb g && unit_weightsb g && cert_ok g) = true.
Proof. vm_compute. reflexivity. Qed.

Example ex_vb_moves :
  match ex_norm3 with
  | Ok g => (map (layer_of g) (g_N g), map (layer_of (vbalance g)) (g_N g),
             total_length (layer_of g) g, total_length (layer_of (vbalance g)) (vbalance g))
  | Err _ => ([], [], 0, 0)
  end = ([0; 1; 2; 3; 4; 1], [0; 1; 2; 3; 4; 2], 8, 8).
Proof. vm_compute. reflexivity. Qed.

(* the hypothesis layers_nonneg cannot be dropped: chain 0->1->2 on layers -3,-2,-1 *)
Definition ex_negative : graph :=
  mkGraph
    [ mkNode [] [0]%nat (-3) 0 false 0 0 0 0;
      mkNode [0]%nat [1]%nat (-2) 0 false 0 0 0 0;
      mkNode [1]%nat [] (-1) 0 false 0 0 0 0 ]
    [ mkEdge 0 1 1 1 false false 0 [] false;
      mkEdge 1 2 1 1 false false 0 [] false ]
    [0;1;2]%nat [0;1]%nat [].

Example ex_negative_breaks :
  vb_wfb ex_negative = true /\ feasibleb ex_negative = true /\ feasibleb (vbalance ex_negative) = false.
Proof. vm_compute. repeat split; reflexivity. Qed.
