(* Optimality.v — PART 1: a verified optimality certificate checker for the network-simplex layering.

   A graph state carries a layering (n_layer), a set of tree edges (e_tree) and cut values (e_cut).
   [cert_ok g] checks, executably, that
     (1) every edge of g_E is feasible (slack >= 0),
     (2) every tree edge is tight and has a non-negative cut value,
     (3) the "flow" that puts e_cut on tree edges and 0 elsewhere has, at every node of g_N, the same
         divergence as the edge weights,
     (4) every edge of g_E has both endpoints in g_N.
   [cert_sound] (weak LP duality): when the check succeeds the current layering minimises
   sum_e weight(e) * (layer(to e) - layer(from e)) among ALL layerings that respect the minimum lengths. *)
From Autog Require Import Base Graph Populate Phase2.

(* ------------------------------------------------------------------------------------------------ *)
(* Definitions (as given in the task)                                                                *)
(* ------------------------------------------------------------------------------------------------ *)
Definition flow (g : graph) (e : nat) : Z := if e_tree (gedge g e) then e_cut (gedge g e) else 0.

Definition divergence (f : nat -> Z) (g : graph) (v : nat) : Z :=
  fold_left (fun s e => s + (if Nat.eqb (e_to (gedge g e)) v then f e else 0)
                          - (if Nat.eqb (e_from (gedge g e)) v then f e else 0)) (g_E g) 0.

Definition cert_ok (g : graph) : bool :=
  forallb (fun e => 0 <=? slack g e) (g_E g)
  && forallb (fun e => negb (e_tree (gedge g e)) || ((slack g e =? 0) && (0 <=? e_cut (gedge g e)))) (g_E g)
  && forallb (fun v => divergence (flow g) g v =? divergence (fun e => e_weight (gedge g e)) g v) (g_N g)
  && forallb (fun e => mem_nat (e_from (gedge g e)) (g_N g) && mem_nat (e_to (gedge g e)) (g_N g)) (g_E g).

Definition total_length (lay : nat -> Z) (g : graph) : Z :=
  fold_left (fun s e => s + e_weight (gedge g e) * (lay (e_to (gedge g e)) - lay (e_from (gedge g e)))) (g_E g) 0.

Definition feasible_lay (lay : nat -> Z) (g : graph) : Prop :=
  forall e, In e (g_E g) -> lay (e_to (gedge g e)) - lay (e_from (gedge g e)) >= e_delta (gedge g e).

(* ------------------------------------------------------------------------------------------------ *)
(* Finite sums over index lists                                                                      *)
(* ------------------------------------------------------------------------------------------------ *)
Fixpoint sumf (h : nat -> Z) (l : list nat) : Z :=
  match l with [] => 0 | x :: t => h x + sumf h t end.

Lemma fold_add_sumf : forall (h : nat -> Z) l a,
  fold_left (fun s e => s + h e) l a = a + sumf h l.
Proof.
  intros h l; induction l as [|x t IH]; intros a; cbn [fold_left sumf].
  - lia.
  - rewrite IH. lia.
Qed.

Lemma fold_div_sumf : forall (A B : nat -> Z) l a,
  fold_left (fun s e => s + A e - B e) l a = a + sumf (fun e => A e - B e) l.
Proof.
  intros A B l; induction l as [|x t IH]; intros a; cbn [fold_left sumf].
  - lia.
  - rewrite IH. lia.
Qed.

Lemma sumf_ext : forall (h k : nat -> Z) l,
  (forall x, In x l -> h x = k x) -> sumf h l = sumf k l.
Proof.
  intros h k l; induction l as [|x t IH]; intros H; cbn [sumf].
  - reflexivity.
  - rewrite (H x (or_introl eq_refl)). rewrite IH; [reflexivity|].
    intros y Hy. apply H. right. exact Hy.
Qed.

Lemma sumf_le : forall (h k : nat -> Z) l,
  (forall x, In x l -> h x <= k x) -> sumf h l <= sumf k l.
Proof.
  intros h k l; induction l as [|x t IH]; intros H; cbn [sumf].
  - lia.
  - pose proof (H x (or_introl eq_refl)) as Hx.
    assert (Ht : sumf h t <= sumf k t) by (apply IH; intros y Hy; apply H; right; exact Hy).
    lia.
Qed.

Lemma sumf_add : forall (h k : nat -> Z) l,
  sumf (fun x => h x + k x) l = sumf h l + sumf k l.
Proof.
  intros h k l; induction l as [|x t IH]; cbn [sumf]; [reflexivity|]. rewrite IH. lia.
Qed.

Lemma sumf_zero : forall l, sumf (fun _ => 0) l = 0.
Proof. induction l as [|x t IH]; cbn [sumf]; lia. Qed.

Lemma sumf_scale : forall (c : Z) (h : nat -> Z) l, sumf (fun x => c * h x) l = c * sumf h l.
Proof.
  intros c h l; induction l as [|x t IH]; cbn [sumf]; [lia|]. rewrite IH. lia.
Qed.

Lemma sumf_app : forall (h : nat -> Z) l1 l2, sumf h (l1 ++ l2) = sumf h l1 + sumf h l2.
Proof.
  intros h l1 l2; induction l1 as [|x t IH]; cbn [sumf app]; [lia|]. rewrite IH. lia.
Qed.

(* the indicator of a single point picks out one term *)
Lemma sumf_indicator_notin : forall (k : nat -> Z) a l,
  ~ In a l -> sumf (fun v => if Nat.eqb a v then k v else 0) l = 0.
Proof.
  intros k a l; induction l as [|x t IH]; intros Hn; cbn [sumf]; [reflexivity|].
  destruct (Nat.eqb a x) eqn:Eax.
  - apply Nat.eqb_eq in Eax. exfalso. apply Hn. left. symmetry. exact Eax.
  - rewrite IH; [lia|]. intros Hin. apply Hn. right. exact Hin.
Qed.

Lemma sumf_indicator : forall (k : nat -> Z) a l,
  NoDup l -> In a l -> sumf (fun v => if Nat.eqb a v then k v else 0) l = k a.
Proof.
  intros k a l; induction l as [|x t IH]; intros Hnd Hin; cbn [sumf].
  - destruct Hin.
  - inversion Hnd as [|x' t' Hx Ht]; subst.
    destruct (Nat.eqb a x) eqn:Eax.
    + apply Nat.eqb_eq in Eax. subst x. rewrite sumf_indicator_notin by exact Hx. lia.
    + apply Nat.eqb_neq in Eax. destruct Hin as [Hin|Hin]; [exfalso; apply Eax; symmetry; exact Hin|].
      rewrite IH by assumption. lia.
Qed.

(* ------------------------------------------------------------------------------------------------ *)
(* Summation by parts on a graph: sum_e f(e) (y(dst e) - y(src e)) = sum_v y(v) div_f(v)              *)
(* ------------------------------------------------------------------------------------------------ *)
Section ByParts.
  Variables (src dst : nat -> nat) (f : nat -> Z) (y : nat -> Z).

  Definition divg (E : list nat) (v : nat) : Z :=
    sumf (fun e => (if Nat.eqb (dst e) v then f e else 0) - (if Nat.eqb (src e) v then f e else 0)) E.

  Lemma sum_by_parts : forall (N E : list nat),
    NoDup N ->
    (forall e, In e E -> In (src e) N /\ In (dst e) N) ->
    sumf (fun v => y v * divg E v) N = sumf (fun e => f e * (y (dst e) - y (src e))) E.
  Proof.
    intros N E Hnd; induction E as [|e t IH]; intros Hin.
    - unfold divg; cbn [sumf].
      rewrite (sumf_ext (fun v => y v * 0) (fun _ => 0)) by (intros; lia).
      apply sumf_zero.
    - unfold divg at 1; cbn [sumf].
      destruct (Hin e (or_introl eq_refl)) as [Hs Hd].
      rewrite (sumf_ext _ (fun v => ((if Nat.eqb (dst e) v then y v * f e else 0)
                                     + (if Nat.eqb (src e) v then - (y v * f e) else 0))
                                    + y v * divg t v)).
      2:{ intros v _. unfold divg. destruct (Nat.eqb (dst e) v); destruct (Nat.eqb (src e) v); lia. }
      rewrite sumf_add, sumf_add.
      rewrite (sumf_indicator (fun v => y v * f e) (dst e) N Hnd Hd).
      rewrite (sumf_indicator (fun v => - (y v * f e)) (src e) N Hnd Hs).
      rewrite IH by (intros e' He'; apply Hin; right; exact He').
      lia.
  Qed.
End ByParts.

(* ------------------------------------------------------------------------------------------------ *)
(* Connecting the fold_left definitions to sumf                                                      *)
(* ------------------------------------------------------------------------------------------------ *)
Lemma divergence_divg : forall f g v,
  divergence f g v = divg (fun e => e_from (gedge g e)) (fun e => e_to (gedge g e)) f (g_E g) v.
Proof.
  intros f g v. unfold divergence, divg.
  rewrite (fold_div_sumf (fun e => if Nat.eqb (e_to (gedge g e)) v then f e else 0)
                         (fun e => if Nat.eqb (e_from (gedge g e)) v then f e else 0)).
  lia.
Qed.

Lemma total_length_sumf : forall lay g,
  total_length lay g =
  sumf (fun e => e_weight (gedge g e) * (lay (e_to (gedge g e)) - lay (e_from (gedge g e)))) (g_E g).
Proof.
  intros lay g. unfold total_length.
  rewrite (fold_add_sumf (fun e => e_weight (gedge g e) * (lay (e_to (gedge g e)) - lay (e_from (gedge g e))))).
  lia.
Qed.

Lemma mem_nat_In : forall x l, mem_nat x l = true <-> In x l.
Proof.
  intros x l. unfold mem_nat. rewrite existsb_exists. split.
  - intros [y [Hy He]]. apply Nat.eqb_eq in He. subst y. exact Hy.
  - intros H. exists x. split; [exact H|apply Nat.eqb_refl].
Qed.

(* ------------------------------------------------------------------------------------------------ *)
(* What the checker establishes                                                                       *)
(* ------------------------------------------------------------------------------------------------ *)
Record cert_spec (g : graph) : Prop := mkCertSpec {
  cs_feasible : forall e, In e (g_E g) -> 0 <= slack g e;
  cs_tree : forall e, In e (g_E g) -> e_tree (gedge g e) = true ->
                      slack g e = 0 /\ 0 <= e_cut (gedge g e);
  cs_div : forall v, In v (g_N g) ->
                     divergence (flow g) g v = divergence (fun e => e_weight (gedge g e)) g v;
  cs_ends : forall e, In e (g_E g) -> In (e_from (gedge g e)) (g_N g) /\ In (e_to (gedge g e)) (g_N g)
}.

Lemma cert_ok_spec : forall g, cert_ok g = true <-> cert_spec g.
Proof.
  intros g. unfold cert_ok. split.
  - intros H.
    apply andb_prop in H; destruct H as [H H4].
    apply andb_prop in H; destruct H as [H H3].
    apply andb_prop in H; destruct H as [H1 H2].
    rewrite forallb_forall in H1, H2, H3, H4.
    constructor.
    + intros e He. apply Z.leb_le. apply H1. exact He.
    + intros e He Ht. specialize (H2 e He). rewrite Ht in H2. cbn [negb orb] in H2.
      apply andb_prop in H2; destruct H2 as [Ha Hb].
      split; [apply Z.eqb_eq; exact Ha | apply Z.leb_le; exact Hb].
    + intros v Hv. apply Z.eqb_eq. apply H3. exact Hv.
    + intros e He. specialize (H4 e He). apply andb_prop in H4; destruct H4 as [Ha Hb].
      split; apply mem_nat_In; assumption.
  - intros [H1 H2 H3 H4].
    repeat (apply andb_true_intro; split); apply forallb_forall.
    + intros e He. apply Z.leb_le. apply H1. exact He.
    + intros e He. destruct (e_tree (gedge g e)) eqn:Et; cbn [negb orb]; [|reflexivity].
      destruct (H2 e He Et) as [Ha Hb]. apply andb_true_intro; split;
        [apply Z.eqb_eq; exact Ha | apply Z.leb_le; exact Hb].
    + intros v Hv. apply Z.eqb_eq. apply H3. exact Hv.
    + intros e He. destruct (H4 e He) as [Ha Hb].
      apply andb_true_intro; split; apply mem_nat_In; assumption.
Qed.

Arguments cs_feasible {g}. Arguments cs_tree {g}. Arguments cs_div {g}. Arguments cs_ends {g}.

(* the primal objective of ANY layering equals the flow-weighted objective *)
Lemma total_length_as_flow : forall g, cert_spec g -> forall lay,
  total_length lay g =
  sumf (fun e => flow g e * (lay (e_to (gedge g e)) - lay (e_from (gedge g e)))) (g_E g).
Proof.
  intros g C lay.
  rewrite total_length_sumf.
  set (N := nodup Nat.eq_dec (g_N g)).
  assert (Hnd : NoDup N) by apply NoDup_nodup.
  assert (Hends : forall e, In e (g_E g) ->
                    In (e_from (gedge g e)) N /\ In (e_to (gedge g e)) N).
  { intros e He. destruct (cs_ends C e He) as [Ha Hb]. split; apply nodup_In; assumption. }
  rewrite <- (sum_by_parts (fun e => e_from (gedge g e)) (fun e => e_to (gedge g e))
                           (fun e => e_weight (gedge g e)) lay N (g_E g) Hnd Hends).
  rewrite <- (sum_by_parts (fun e => e_from (gedge g e)) (fun e => e_to (gedge g e))
                           (flow g) lay N (g_E g) Hnd Hends).
  apply sumf_ext. intros v Hv.
  rewrite <- !divergence_divg.
  rewrite (cs_div C v); [reflexivity|].
  apply (nodup_In Nat.eq_dec). exact Hv.
Qed.

(* the dual objective *)
Definition dual_value (g : graph) : Z := sumf (fun e => flow g e * e_delta (gedge g e)) (g_E g).

Lemma flow_nonneg : forall g, cert_spec g -> forall e, In e (g_E g) -> 0 <= flow g e.
Proof.
  intros g C e He. unfold flow. destruct (e_tree (gedge g e)) eqn:Et; [|lia].
  destruct (cs_tree C e He Et) as [_ Hc]. exact Hc.
Qed.

(* strong duality half: the current layering attains the dual value *)
Theorem cert_primal_eq_dual : forall g, cert_ok g = true ->
  total_length (layer_of g) g = dual_value g.
Proof.
  intros g H. apply cert_ok_spec in H.
  rewrite (total_length_as_flow g H). unfold dual_value.
  apply sumf_ext. intros e He. unfold flow.
  destruct (e_tree (gedge g e)) eqn:Et; [|lia].
  destruct (cs_tree H e He Et) as [Hs _]. unfold slack in Hs. cbv zeta in Hs.
  f_equal. lia.
Qed.

(* weak duality half: every feasible layering is at least the dual value *)
Theorem cert_dual_lower_bound : forall g, cert_ok g = true ->
  forall lay', feasible_lay lay' g -> dual_value g <= total_length lay' g.
Proof.
  intros g H lay' Hf. apply cert_ok_spec in H.
  rewrite (total_length_as_flow g H). unfold dual_value.
  apply sumf_le. intros e He.
  pose proof (flow_nonneg g H e He) as Hn. specialize (Hf e He).
  apply Z.mul_le_mono_nonneg_l; lia.
Qed.

(* MAIN THEOREM of part 1 *)
Theorem cert_sound : forall g, cert_ok g = true ->
  forall lay', feasible_lay lay' g -> total_length (layer_of g) g <= total_length lay' g.
Proof.
  intros g H lay' Hf.
  rewrite (cert_primal_eq_dual g H). apply cert_dual_lower_bound; assumption.
Qed.
Print Assumptions cert_sound.

(* the current layering is itself one of the competitors *)
Lemma cert_feasible : forall g, cert_ok g = true -> feasible_lay (layer_of g) g.
Proof.
  intros g H e He. apply cert_ok_spec in H. pose proof (cs_feasible H e He) as Hs.
  unfold slack in Hs. cbv zeta in Hs. lia.
Qed.

(* ------------------------------------------------------------------------------------------------ *)
(* Specialisation to unit weights: the number of bands spanned                                        *)
(* ------------------------------------------------------------------------------------------------ *)
Definition span (lay : nat -> Z) (g : graph) (e : nat) : Z :=
  lay (e_to (gedge g e)) - lay (e_from (gedge g e)).

Definition sum_spans (lay : nat -> Z) (g : graph) : Z :=
  fold_left (fun s e => s + span lay g e) (g_E g) 0.

Definition unit_weights (g : graph) : Prop := forall e, In e (g_E g) -> e_weight (gedge g e) = 1.
Definition unit_deltas (g : graph) : Prop := forall e, In e (g_E g) -> e_delta (gedge g e) = 1.

Lemma total_length_unit : forall g lay, unit_weights g -> total_length lay g = sum_spans lay g.
Proof.
  intros g lay Hw. rewrite total_length_sumf. unfold sum_spans.
  rewrite (fold_add_sumf (span lay g)). cbn [Z.add].
  apply sumf_ext. intros e He. rewrite (Hw e He). unfold span. lia.
Qed.

(* "the sum over all edges of the number of bands they span is minimal among all assignments
    in which every edge spans at least delta bands" *)
Theorem cert_sound_unit : forall g, cert_ok g = true -> unit_weights g ->
  forall lay', (forall e, In e (g_E g) -> span lay' g e >= e_delta (gedge g e)) ->
  sum_spans (layer_of g) g <= sum_spans lay' g.
Proof.
  intros g H Hw lay' Hf.
  rewrite <- !total_length_unit by exact Hw.
  apply cert_sound; [exact H|]. exact Hf.
Qed.
Print Assumptions cert_sound_unit.

(* ... and with delta = 1 everywhere: every edge spans at least one band *)
Theorem cert_sound_unit_delta1 : forall g, cert_ok g = true -> unit_weights g -> unit_deltas g ->
  (forall e, In e (g_E g) -> span (layer_of g) g e >= 1) /\
  forall lay', (forall e, In e (g_E g) -> span lay' g e >= 1) ->
  sum_spans (layer_of g) g <= sum_spans lay' g.
Proof.
  intros g H Hw Hd. split.
  - intros e He. pose proof (cert_feasible g H e He) as Hf. rewrite (Hd e He) in Hf. exact Hf.
  - intros lay' Hf. apply cert_sound_unit; try assumption.
    intros e He. rewrite (Hd e He). apply Hf. exact He.
Qed.
Print Assumptions cert_sound_unit_delta1.

(* ------------------------------------------------------------------------------------------------ *)
(* Examples                                                                                          *)
(* ------------------------------------------------------------------------------------------------ *)
(* A diamond 0->1->3, 0->2->3 with the long edge 0->3, written out by hand:
   layers 0,1,1,2; spanning tree {0->1, 1->3, 0->2}; cut values 3,3,0. *)
Definition ex_diamond : graph :=
  mkGraph
    [ mkNode [] [0;2;4]%nat 0 0 false 0 0 0 0;
      mkNode [0]%nat [1]%nat 1 0 false 0 0 0 0;
      mkNode [2]%nat [3]%nat 1 0 false 0 0 0 0;
      mkNode [1;3;4]%nat [] 2 0 false 0 0 0 0 ]
    [ mkEdge 0 1 1 1 true false 3 [] false;
      mkEdge 1 3 1 1 true false 3 [] false;
      mkEdge 0 2 1 1 true false 0 [] false;
      mkEdge 2 3 1 1 false false 0 [] false;
      mkEdge 0 3 1 1 false false 0 [] false ]
    [0;1;2;3]%nat [0;1;2;3;4]%nat [].

Example ex_diamond_cert : cert_ok ex_diamond = true.
Proof. vm_compute. reflexivity. Qed.

Example ex_diamond_length : total_length (layer_of ex_diamond) ex_diamond = 6.
Proof. vm_compute. reflexivity. Qed.

Example ex_diamond_unit : unit_weights ex_diamond /\ unit_deltas ex_diamond.
Proof.
  split; intros e He; cbn in He;
    repeat (destruct He as [He|He]; [subst e; reflexivity|]); destruct He.
Qed.

Example ex_diamond_optimal : forall lay',
  (forall e, In e (g_E ex_diamond) -> span lay' ex_diamond e >= 1) ->
  6 <= sum_spans lay' ex_diamond.
Proof.
  intros lay' Hf.
  destruct ex_diamond_unit as [Hw Hd].
  destruct (cert_sound_unit_delta1 ex_diamond ex_diamond_cert Hw Hd) as [_ Hopt].
  specialize (Hopt lay' Hf).
  rewrite <- (total_length_unit ex_diamond (layer_of ex_diamond) Hw) in Hopt.
  rewrite ex_diamond_length in Hopt. exact Hopt.
Qed.

(* The certificate is produced by the model itself: build a graph with Populate, run feasible_tree and
   the pivot loop, and check the resulting state. The second graph needs real pivots: the initial
   layering (longest path from the sources) is not optimal. *)
Definition ns_state (es : list (list nat)) : res graph :=
  do st <- @populate nat Nat.eqb es;
  do r <- feasible_tree (snd st);
  do r' <- pivot_loop 1000 0 1000 (fst r) (snd r);
  Ok (fst (fst r')).

Definition cert_of (r : res graph) : bool := match r with Ok g => cert_ok g | Err _ => false end.
Definition length_of (r : res graph) : Z := match r with Ok g => total_length (layer_of g) g | Err _ => -1 end.

Definition ex_edges1 : list (list nat) := [[0;1];[1;3];[0;2];[2;3];[0;3]]%nat.
Definition ex_edges2 : list (list nat) :=
  [[0;1];[0;2];[0;3];[1;4];[2;4];[3;4];[0;5];[5;6];[6;7];[7;4];[8;7];[8;1];[8;2];[9;8]]%nat.

(* the state after feasible_tree only (before any pivot) *)
Definition ft_state (es : list (list nat)) : res graph :=
  do st <- @populate nat Nat.eqb es;
  do r <- feasible_tree (snd st);
  Ok (fst r).

Example ex_model_cert1 : cert_of (ns_state ex_edges1) = true.
Proof. vm_compute. reflexivity. Qed.

(* before pivoting: total length 22 and the certificate fails; after pivoting: 20 and it holds *)
Example ex_model_before2 : cert_of (ft_state ex_edges2) = false /\ length_of (ft_state ex_edges2) = 22.
Proof. vm_compute. split; reflexivity. Qed.

Example ex_model_cert2 : cert_of (ns_state ex_edges2) = true /\ length_of (ns_state ex_edges2) = 20.
Proof. vm_compute. split; reflexivity. Qed.

Example ex_model_optimal2 : forall g, ns_state ex_edges2 = Ok g ->
  forall lay', feasible_lay lay' g -> 20 <= total_length lay' g.
Proof.
  intros g Hg lay' Hf.
  destruct ex_model_cert2 as [Hc Hl]. rewrite Hg in Hc, Hl. cbn [cert_of length_of] in Hc, Hl.
  rewrite <- Hl. apply cert_sound; assumption.
Qed.
