(* PopulateProofs.v — theorems about Model/Populate.v:
     P1  populate_rename / apply_sizes_rename : node identifiers are opaque labels
     P2  populate_wf and friends              : the indexed graph built from the edge list is well formed
   (P3 sizes: SizesProofs.v, P4 components: ComponentsProofs.v, P5 self loops: SelfLoopProofs.v,
    P6 output collection: CollectProofs.v) *)
From Autog Require Import Base Graph Populate.
From Autog.Proofs Require Import ListLemmas Consistent.
Local Open Scope nat_scope.

(* ====================================================================================================== *)
(* P1: renaming of identifiers                                                                             *)
(* ====================================================================================================== *)
Section Rename.
  Variables A B : Type.
  Variable eqA : A -> A -> bool.
  Variable eqB : B -> B -> bool.
  Variable rho : A -> B.
  Hypothesis rho_eq : forall x y, eqB (rho x) (rho y) = eqA x y.

  Lemma find_id_rename : forall x ids, find_id B eqB (rho x) (map rho ids) = find_id A eqA x ids.
  Proof.
    intros x ids. induction ids as [|y t IH]; cbn [map find_id]; [reflexivity|].
    rewrite rho_eq, IH. reflexivity.
  Qed.

  Definition rename_st (st : list A * graph) : list B * graph := (map rho (fst st), snd st).

  Lemma intern_rename : forall x st,
    intern B eqB (rho x) (rename_st st) = (fst (intern A eqA x st), rename_st (snd (intern A eqA x st))).
  Proof.
    intros x [ids g]. unfold intern, rename_st. cbn [fst snd].
    rewrite find_id_rename. destruct (find_id A eqA x ids) as [i|] eqn:F; cbn [fst snd].
    - reflexivity.
    - rewrite map_length, map_app. reflexivity.
  Qed.

  Lemma populate_edge_rename : forall st s t,
    populate_edge B eqB (rename_st st) (rho s) (rho t) = rename_st (populate_edge A eqA st s t).
  Proof.
    intros st s t. unfold populate_edge.
    rewrite intern_rename. destruct (intern A eqA s st) as [si st1]. cbn [fst snd].
    rewrite intern_rename. destruct (intern A eqA t st1) as [ti [ids2 g2]]. cbn [fst snd].
    unfold rename_st. cbn [fst snd]. reflexivity.
  Qed.

  Lemma populate_from_rename : forall es st,
    populate_from B eqB (rename_st st) (map (map rho) es) =
    match populate_from A eqA st es with Ok st' => Ok (rename_st st') | Err e => Err e end.
  Proof.
    induction es as [|p rest IH]; intros st.
    - reflexivity.
    - destruct p as [|s [|t [|u p]]]; cbn [map populate_from]; try reflexivity.
      rewrite populate_edge_rename. apply IH.
  Qed.

  (* user-facing property "node identifiers are opaque labels": renaming the identifiers of the input by any
     map that the equality tests cannot distinguish from an injection yields the IDENTICAL indexed graph, and
     the renamed identifier table *)
  Theorem populate_rename : forall es : list (list A),
    populate B eqB (map (map rho) es) =
    match populate A eqA es with Ok (ids, g) => Ok (map rho ids, g) | Err e => Err e end.
  Proof.
    intros es. unfold populate.
    change (@nil B, empty_graph) with (rename_st (@nil A, empty_graph)).
    rewrite populate_from_rename.
    destruct (populate_from A eqA ([], empty_graph) es) as [[ids g]|e]; reflexivity.
  Qed.

  Lemma lookup_size_rename : forall x m,
    lookup_size B eqB (rho x) (map (fun p : A * (Q * Q) => (rho (fst p), snd p)) m) = lookup_size A eqA x m.
  Proof.
    intros x m. induction m as [|[y s] t IH]; cbn [map lookup_size fst snd]; [reflexivity|].
    rewrite rho_eq, IH. reflexivity.
  Qed.

  Lemma map_combine_rename : forall (C D : Type) (F : B -> C -> D) ids (na : list C),
    map (fun p : B * C => F (fst p) (snd p)) (combine (map rho ids) na) =
    map (fun p : A * C => F (rho (fst p)) (snd p)) (combine ids na).
  Proof.
    intros C D F. induction ids as [|x t IH]; intros [|n na]; cbn [map combine fst snd]; try reflexivity.
    rewrite IH. reflexivity.
  Qed.

  Theorem apply_sizes_rename : forall fixed (sizes : option (list (A * (Q * Q)))) ids g,
    apply_sizes B eqB fixed (option_map (map (fun p : A * (Q * Q) => (rho (fst p), snd p))) sizes) (map rho ids) g =
    apply_sizes A eqA fixed sizes ids g.
  Proof.
    intros fixed sizes ids g. unfold apply_sizes. f_equal.
    destruct sizes as [m|]; cbn [option_map]; [|reflexivity].
    set (na := match fixed with Some (w, h) => map (set_wh w h) (g_na g) | None => g_na g end).
    rewrite (map_combine_rename node node
               (fun b nd => match lookup_size B eqB b (map (fun p : A * (Q * Q) => (rho (fst p), snd p)) m) with
                            | Some (w, h) => set_wh w h nd | None => nd end)).
    apply map_ext. intros [x nd]. cbn [fst snd]. rewrite lookup_size_rename. reflexivity.
  Qed.
End Rename.

Print Assumptions populate_rename.
Print Assumptions apply_sizes_rename.

(* the hypothesis on rho is satisfiable: e.g. nat ids renamed to their successors, or to strings of a's *)
Example rename_example_hyp : forall x y : nat, Nat.eqb (S x) (S y) = Nat.eqb x y.
Proof. reflexivity. Qed.

Example populate_rename_example :
  populate nat Nat.eqb (map (map S) [[1;2];[2;3];[1;2];[4;4]]) =
  match populate nat Nat.eqb [[1;2];[2;3];[1;2];[4;4]] with Ok (ids, g) => Ok (map S ids, g) | Err e => Err e end.
Proof. apply populate_rename. exact rename_example_hyp. Qed.

Example populate_example :
  populate nat Nat.eqb [[1;2];[2;3];[1;2];[4;4]] = Ok ([1;2;3;4], example_graph).
Proof. vm_compute. reflexivity. Qed.

Example populate_arity_example : populate nat Nat.eqb [[1;2];[2;3;4]] = Err ErrArity.
Proof. vm_compute. reflexivity. Qed.

(* ====================================================================================================== *)
(* P2: well-formedness of the populated graph                                                              *)
(* ====================================================================================================== *)
Set Implicit Arguments.

Lemma NoDup_snoc : forall (T : Type) (l : list T) x, NoDup l -> ~ In x l -> NoDup (l ++ [x]).
Proof.
  intros T l x ND NI. apply (Permutation.Permutation_NoDup (l := x :: l)).
  - apply Permutation.Permutation_cons_append.
  - constructor; assumption.
Qed.

Definition fresh_edge (si ti : nat) : edge := mkEdge si ti 1 1 false false 0 [] false.

(* what a node of a freshly populated graph with m edges looks like *)
Definition fresh_node (g : graph) (m n : nat) : node :=
  mkNode (filter (fun e => Nat.eqb (e_to (gedge g e)) n) (iota 0 m))
         (filter (fun e => Nat.eqb (e_from (gedge g e)) n) (iota 0 m))
         0 0 false 0 0 0 0.

Section WF.
  Variable A : Type.
  Variable eqA : A -> A -> bool.
  Hypothesis eqA_ok : forall x y, eqA x y = true <-> x = y.

  Lemma find_id_some : forall x ids i, find_id A eqA x ids = Some i -> nth_error ids i = Some x.
  Proof.
    intros x ids. induction ids as [|y t IH]; intros i H; cbn [find_id] in H; [discriminate|].
    destruct (eqA x y) eqn:E.
    - injection H as <-. apply eqA_ok in E. subst. reflexivity.
    - destruct (find_id A eqA x t) as [j|]; cbn [option_map] in H; [|discriminate].
      injection H as <-. cbn [nth_error]. apply IH. reflexivity.
  Qed.

  Lemma find_id_none : forall x ids, find_id A eqA x ids = None -> ~ In x ids.
  Proof.
    intros x ids. induction ids as [|y t IH]; intros H; cbn [find_id] in H; [intros []|].
    destruct (eqA x y) eqn:E; [discriminate|].
    destruct (find_id A eqA x t) as [j|]; cbn [option_map] in H; [discriminate|].
    intros [I|I].
    - subst. assert (eqA x x = true) as R by (apply eqA_ok; reflexivity). congruence.
    - apply IH; auto.
  Qed.

  (* the i-th pair of the input and the i-th edge of the arena *)
  Definition edge_of (ids : list A) (p : list A) (e : edge) : Prop :=
    exists s t, p = [s; t] /\ nth_error ids (e_from e) = Some s /\ nth_error ids (e_to e) = Some t /\
                e = fresh_edge (e_from e) (e_to e).

  Lemma edge_of_mono : forall ids ids' p e, (ids' = ids \/ exists x, ids' = ids ++ [x]) -> edge_of ids p e -> edge_of ids' p e.
  Proof.
    intros ids ids' p e [->|[x ->]] H; [exact H|].
    destruct H as [s [t [Hp [Hs [Ht He]]]]]. exists s, t.
    split; [exact Hp|]. split; [|split; [|exact He]].
    - rewrite nth_error_app1; [exact Hs|]. apply nth_error_Some. congruence.
    - rewrite nth_error_app1; [exact Ht|]. apply nth_error_Some. congruence.
  Qed.

  Record inv0 (done : list (list A)) (ids : list A) (g : graph) : Prop := mkInv0 {
    i_nodup : NoDup ids;
    i_na : length (g_na g) = length ids;
    i_N : g_N g = iota 0 (length ids);
    i_E : g_E g = iota 0 (length done);
    i_L : g_L g = [];
    i_ea_len : length (g_ea g) = length done;
    i_ea : forall i, i < length done -> edge_of ids (nth i done []) (gedge g i);
    i_node : forall n, n < length ids -> gnode g n = fresh_node g (length done) n
  }.

  Lemma inv0_ends_lt : forall done ids g i, inv0 done ids g -> i < length done ->
    e_from (gedge g i) < length ids /\ e_to (gedge g i) < length ids.
  Proof.
    intros done ids g i I L. destruct (i_ea I L) as [s [t [_ [Hs [Ht _]]]]].
    split; apply nth_error_Some; congruence.
  Qed.

  Lemma intern_inv0 : forall done x ids g i ids' g',
    inv0 done ids g -> intern A eqA x (ids, g) = (i, (ids', g')) ->
    inv0 done ids' g' /\ nth_error ids' i = Some x /\ (ids' = ids \/ ids' = ids ++ [x]).
  Proof.
    intros done x ids g i ids' g' I H. unfold intern in H.
    destruct (find_id A eqA x ids) as [j|] eqn:F.
    - injection H as <- <- <-. split; [exact I|]. split; [|left; reflexivity].
      apply find_id_some. exact F.
    - injection H as <- <- <-. apply find_id_none in F.
      assert (LEN : length (ids ++ [x]) = S (length ids)) by (rewrite app_length; cbn; lia).
      split; [|split; [|right; reflexivity]].
      2:{ rewrite nth_error_app2 by lia. rewrite Nat.sub_diag. reflexivity. }
      constructor.
      + apply NoDup_snoc; [apply (i_nodup I)|exact F].
      + cbn [g_na with_N with_na]. rewrite app_length, (i_na I), LEN. cbn. lia.
      + cbn [g_N with_N with_na]. rewrite LEN, iota_snoc, (i_N I). reflexivity.
      + cbn [g_E with_N with_na]. apply (i_E I).
      + cbn [g_L with_N with_na]. apply (i_L I).
      + cbn [g_ea with_N with_na]. apply (i_ea_len I).
      + intros k L. apply edge_of_mono with (ids := ids); [right; exists x; reflexivity|].
        apply (i_ea I L).
      + intros n L. rewrite LEN in L.
        assert (FN : fresh_node (with_N (with_na g (g_na g ++ [node0])) (g_N g ++ [length ids])) (length done) n
                     = fresh_node g (length done) n) by reflexivity.
        rewrite FN. clear FN.
        destruct (Nat.eq_dec n (length ids)) as [E|NE].
        * subst n. unfold gnode at 1. cbn [g_na with_N with_na].
          rewrite <- (i_na I). rewrite nth_middle.
          unfold fresh_node. rewrite !filter_false; [reflexivity| |].
          -- intros e He. apply in_iota in He. apply Nat.eqb_neq.
             destruct (inv0_ends_lt (i := e) I) as [L1 L2]; [lia|]. rewrite (i_na I). lia.
          -- intros e He. apply in_iota in He. apply Nat.eqb_neq.
             destruct (inv0_ends_lt (i := e) I) as [L1 L2]; [lia|]. rewrite (i_na I). lia.
        * unfold gnode at 1. cbn [g_na with_N with_na].
          rewrite app_nth1 by (rewrite (i_na I); lia).
          apply (i_node I). lia.
  Qed.

  Lemma filter_iota_snoc : forall (p : nat -> bool) m,
    filter p (iota 0 (S m)) = filter p (iota 0 m) ++ (if p m then [m] else []).
  Proof. intros. rewrite iota_snoc, filter_app. cbn. reflexivity. Qed.

  Lemma populate_edge_inv0 : forall done ids g s t ids' g',
    inv0 done ids g -> populate_edge A eqA (ids, g) s t = (ids', g') ->
    inv0 (done ++ [[s; t]]) ids' g' /\ (forall x, In x ids' -> In x ids \/ x = s \/ x = t).
  Proof.
    intros done ids g s t ids' g' I H. unfold populate_edge in H.
    destruct (intern A eqA s (ids, g)) as [si [ids1 g1]] eqn:I1.
    destruct (intern A eqA t (ids1, g1)) as [ti [ids2 g2]] eqn:I2.
    destruct (intern_inv0 s I I1) as [J1 [S1 M1]].
    destruct (intern_inv0 t J1 I2) as [J2 [T2 M2]].
    injection H as <- <-.
    assert (S2 : nth_error ids2 si = Some s).
    { destruct M2 as [->| ->]; [exact S1|]. rewrite nth_error_app1; [exact S1|]. apply nth_error_Some. congruence. }
    assert (Lsi : si < length ids2) by (apply nth_error_Some; congruence).
    assert (Lti : ti < length ids2) by (apply nth_error_Some; congruence).
    split.
    2:{ intros x Hx. destruct M2 as [->| ->].
        - destruct M1 as [->| ->]; [left; exact Hx|]. apply in_app_or in Hx. destruct Hx as [Hx|[<-|[]]]; auto.
        - apply in_app_or in Hx. destruct Hx as [Hx|[<-|[]]]; auto.
          destruct M1 as [->| ->]; [left; exact Hx|]. apply in_app_or in Hx. destruct Hx as [Hx|[<-|[]]]; auto. }
    set (m := length (g_ea g2)).
    assert (Hm : m = length done) by (apply (i_ea_len J2)).
    set (g2' := with_E (with_ea g2 (g_ea g2 ++ [mkEdge si ti 1 1 false false 0 [] false])) (g_E g2 ++ [m])).
    set (fi := fun n : node => set_in (n_in n ++ [m]) n).
    set (fo := fun n : node => set_out (n_out n ++ [m]) n).
    assert (LEN : length (done ++ [[s; t]]) = S (length done)) by (rewrite app_length; cbn; lia).
    assert (GE_old : forall e, e < m -> gedge (upd_node (upd_node g2' ti fi) si fo) e = gedge g2 e).
    { intros e Le. unfold gedge. cbn [g_ea upd_node with_na with_E with_ea g2'].
      rewrite app_nth1 by exact Le. reflexivity. }
    assert (GE_new : gedge (upd_node (upd_node g2' ti fi) si fo) m = fresh_edge si ti).
    { unfold gedge. cbn [g_ea upd_node with_na with_E with_ea g2']. unfold m. rewrite nth_middle. reflexivity. }
    constructor.
    - apply (i_nodup J2).
    - rewrite !upd_node_na_length. cbn [g2' g_na with_E with_ea]. apply (i_na J2).
    - cbn [g_N upd_node with_na with_E with_ea g2']. apply (i_N J2).
    - cbn [g_E upd_node with_na with_E with_ea g2']. rewrite LEN, iota_snoc, (i_E J2), Hm. reflexivity.
    - cbn [g_L upd_node with_na with_E with_ea g2']. apply (i_L J2).
    - cbn [g_ea upd_node with_na with_E with_ea g2']. rewrite app_length, LEN. fold m. cbn. lia.
    - intros i Li. rewrite LEN in Li. destruct (Nat.eq_dec i (length done)) as [E|NE].
      + subst i. rewrite <- Hm at 2. rewrite GE_new. rewrite nth_middle.
        exists s, t. cbn [e_from e_to fresh_edge]. auto.
      + rewrite GE_old by lia. rewrite app_nth1 by lia. apply (i_ea J2). lia.
    - intros n Ln. rewrite LEN.
      assert (L2 : ti < length (g_na g2')) by (cbn [g2' g_na with_E with_ea]; rewrite (i_na J2); exact Lti).
      assert (L3 : si < length (g_na (upd_node g2' ti fi))).
      { rewrite upd_node_na_length. cbn [g2' g_na with_E with_ea]. rewrite (i_na J2). exact Lsi. }
      rewrite (gnode_upd_node _ _ n _ L3). rewrite (gnode_upd_node _ _ n _ L2).
      assert (Y : gnode g2' n = fresh_node g2 m n).
      { rewrite Hm. rewrite <- (i_node J2 Ln). reflexivity. }
      rewrite Y. rewrite <- Hm.
      assert (R : fresh_node (upd_node (upd_node g2' ti fi) si fo) (S m) n =
                  mkNode (filter (fun e => Nat.eqb (e_to (gedge g2 e)) n) (iota 0 m) ++ (if Nat.eqb ti n then [m] else []))
                         (filter (fun e => Nat.eqb (e_from (gedge g2 e)) n) (iota 0 m) ++ (if Nat.eqb si n then [m] else []))
                         0 0 false 0 0 0 0).
      { unfold fresh_node. rewrite !filter_iota_snoc. rewrite GE_new.
        cbn [e_from e_to fresh_edge].
        rewrite (filter_ext_in (fun e => Nat.eqb (e_to (gedge (upd_node (upd_node g2' ti fi) si fo) e)) n)
                               (fun e => Nat.eqb (e_to (gedge g2 e)) n)).
        2:{ intros e He. apply in_iota in He. rewrite GE_old by lia. reflexivity. }
        rewrite (filter_ext_in (fun e => Nat.eqb (e_from (gedge (upd_node (upd_node g2' ti fi) si fo) e)) n)
                               (fun e => Nat.eqb (e_from (gedge g2 e)) n)).
        2:{ intros e He. apply in_iota in He. rewrite GE_old by lia. reflexivity. }
        reflexivity. }
      rewrite R. unfold fresh_node, fi, fo, set_in, set_out.
      destruct (Nat.eqb si n), (Nat.eqb ti n); cbn [n_in n_out n_layer n_pos n_virt n_x n_y n_w n_h];
        rewrite ?app_nil_r; reflexivity.
  Qed.

  Definition arity2 (p : list A) : Prop := length p = 2.

  Lemma arity2_inv : forall p, arity2 p -> exists s t, p = [s; t].
  Proof. intros [|s [|t [|u p]]] H; try discriminate H. eauto. Qed.

  (* either every pair has arity two and populate succeeds, or some element has another arity and it fails *)
  Lemma populate_from_cases : forall es st,
    (Forall arity2 es /\ exists st', populate_from A eqA st es = Ok st') \/
    (Exists (fun p => ~ arity2 p) es /\ populate_from A eqA st es = Err ErrArity).
  Proof.
    induction es as [|p rest IH]; intros st.
    - left. split; [constructor|]. exists st. reflexivity.
    - destruct p as [|s [|t [|u p]]]; cbn [populate_from];
        try (right; split; [apply Exists_cons_hd; unfold arity2; cbn; lia|reflexivity]).
      destruct (IH (populate_edge A eqA st s t)) as [[F E]|[X E]].
      + left. split; [constructor; [reflexivity|exact F]|exact E].
      + right. split; [apply Exists_cons_tl; exact X|exact E].
  Qed.

  Lemma populate_from_inv0 : forall es done ids g ids' g',
    inv0 done ids g -> (forall x, In x ids -> exists p, In p done /\ In x p) ->
    populate_from A eqA (ids, g) es = Ok (ids', g') ->
    inv0 (done ++ es) ids' g' /\ (forall x, In x ids' -> exists p, In p (done ++ es) /\ In x p).
  Proof.
    induction es as [|p rest IH]; intros done ids g ids' g' I S H.
    - cbn [populate_from] in H. injection H as <- <-. rewrite app_nil_r. auto.
    - destruct p as [|s [|t [|u p]]]; cbn [populate_from] in H; try discriminate H.
      destruct (populate_edge A eqA (ids, g) s t) as [ids1 g1] eqn:PE.
      destruct (populate_edge_inv0 s t I PE) as [J M].
      replace (done ++ [s; t] :: rest) with ((done ++ [[s; t]]) ++ rest) by (rewrite <- app_assoc; reflexivity).
      apply (IH _ _ _ _ _ J); [|exact H].
      intros x Hx. destruct (M x Hx) as [Hx'|[->| ->]].
      + destruct (S x Hx') as [p [Hp Hxp]]. exists p. split; [apply in_or_app; left; exact Hp|exact Hxp].
      + exists [s; t]. split; [apply in_or_app; right; left; reflexivity|left; reflexivity].
      + exists [s; t]. split; [apply in_or_app; right; left; reflexivity|right; left; reflexivity].
  Qed.

  Lemma inv0_empty : inv0 [] [] empty_graph.
  Proof.
    constructor; try reflexivity; try constructor.
    - intros i L. cbn in L. lia.
    - intros n L. cbn in L. lia.
  Qed.

  (* ---------- the user-facing statement ---------- *)
  Record populated (es : list (list A)) (ids : list A) (g : graph) : Prop := mkPopulated {
    p_nodup : NoDup ids;
    p_na_len : length (g_na g) = length ids;
    p_N : g_N g = iota 0 (length ids);
    p_ea_len : length (g_ea g) = length es;
    p_E : g_E g = iota 0 (length es);
    p_L : g_L g = [];
    (* the i-th edge joins the ids of the i-th input pair *)
    p_edge : forall i s t, nth_error es i = Some [s; t] ->
               nth_error ids (e_from (gedge g i)) = Some s /\ nth_error ids (e_to (gedge g i)) = Some t /\
               e_rev (gedge g i) = false /\ e_delta (gedge g i) = 1%Z /\ e_weight (gedge g i) = 1%Z /\
               e_pts (gedge g i) = [] /\ e_tree (gedge g i) = false /\ e_cut (gedge g i) = 0%Z /\
               e_ahs (gedge g i) = false;
    p_arity : forall p, In p es -> exists s t, p = [s; t];
    (* ids are exactly the identifiers occurring in es *)
    p_ids_complete : forall p x, In p es -> In x p -> In x ids;
    p_ids_sound : forall x, In x ids -> exists p, In p es /\ In x p;
    (* adjacency lists: the increasing lists of the edges leaving / entering the node; all else zero *)
    p_out : forall n, n < length ids ->
              n_out (gnode g n) = filter (fun i => Nat.eqb (e_from (gedge g i)) n) (iota 0 (length es));
    p_in : forall n, n < length ids ->
              n_in (gnode g n) = filter (fun i => Nat.eqb (e_to (gedge g i)) n) (iota 0 (length es));
    p_node_rest : forall n, n < length ids ->
              n_layer (gnode g n) = 0%Z /\ n_pos (gnode g n) = 0%Z /\ n_virt (gnode g n) = false /\
              n_x (gnode g n) = 0%Q /\ n_y (gnode g n) = 0%Q /\ n_w (gnode g n) = 0%Q /\ n_h (gnode g n) = 0%Q
  }.

  Lemma inv0_populated : forall es ids g,
    inv0 es ids g -> (forall x, In x ids -> exists p, In p es /\ In x p) -> populated es ids g.
  Proof.
    intros es ids g I S.
    assert (EO : forall i, i < length es -> edge_of ids (nth i es []) (gedge g i)) by (apply (i_ea I)).
    constructor.
    - apply (i_nodup I).
    - apply (i_na I).
    - apply (i_N I).
    - apply (i_ea_len I).
    - apply (i_E I).
    - apply (i_L I).
    - intros i s t H.
      assert (L : i < length es) by (apply nth_error_Some; congruence).
      destruct (EO i L) as [s' [t' [Hp [Hs [Ht He]]]]].
      rewrite (@nth_error_nth _ es i _ [] H) in Hp. injection Hp as <- <-.
      rewrite He. cbn [fresh_edge e_from e_to e_rev e_delta e_weight e_pts e_tree e_cut e_ahs].
      repeat split; auto.
    - intros p Hp. destruct (@In_nth _ es p [] Hp) as [i [L E]].
      destruct (EO i L) as [s [t [Hpp _]]]. rewrite E in Hpp. eauto.
    - intros p x Hp Hx. destruct (@In_nth _ es p [] Hp) as [i [L E]].
      destruct (EO i L) as [s [t [Hpp [Hs [Ht _]]]]]. rewrite E in Hpp. rewrite Hpp in Hx.
      cbn [In] in Hx. destruct Hx as [Hx|[Hx|Hx]]; [subst x|subst x|destruct Hx]; eapply nth_error_In; eassumption.
    - exact S.
    - intros n L. rewrite (i_node I L). reflexivity.
    - intros n L. rewrite (i_node I L). reflexivity.
    - intros n L. rewrite (i_node I L). cbn. repeat split; reflexivity.
  Qed.

  Theorem populate_wf : forall es ids g,
    populate A eqA es = Ok (ids, g) -> populated es ids g.
  Proof.
    intros es ids g H. unfold populate in H.
    assert (S0 : forall x : A, In x [] -> exists p : list A, In p [] /\ In x p) by (intros x []).
    destruct (populate_from_inv0 es inv0_empty S0 H) as [I S].
    apply inv0_populated; assumption.
  Qed.

  (* populate fails only with ErrArity, and exactly when some element of es does not have two ids *)
  Theorem populate_err_iff : forall es,
    populate A eqA es = Err ErrArity <-> exists p, In p es /\ length p <> 2.
  Proof.
    intros es. unfold populate.
    destruct (populate_from_cases es ([], empty_graph)) as [[F [st' E]]|[X E]].
    - rewrite E. split; [discriminate|].
      intros [p [Hp L]]. rewrite Forall_forall in F. elim L. apply (F p Hp).
    - rewrite E. split; [|reflexivity]. intros _. apply Exists_exists in X.
      destruct X as [p [Hp L]]. exists p. auto.
  Qed.

  Theorem populate_err_only_arity : forall es e, populate A eqA es = Err e -> e = ErrArity.
  Proof.
    intros es e H. unfold populate in H.
    destruct (populate_from_cases es ([], empty_graph)) as [[F [st' E]]|[X E]]; congruence.
  Qed.

  Theorem populate_ok_iff : forall es,
    (exists ids g, populate A eqA es = Ok (ids, g)) <-> Forall (fun p => length p = 2) es.
  Proof.
    intros es. unfold populate.
    destruct (populate_from_cases es ([], empty_graph)) as [[F [[ids g] E]]|[X E]].
    - split; [intros _; exact F|intros _; eauto].
    - split.
      + intros [ids [g H]]. congruence.
      + intros F. apply Exists_exists in X. destruct X as [p [Hp L]].
        rewrite Forall_forall in F. elim L. apply (F p Hp).
  Qed.

  (* the populated graph satisfies the structural predicate used by the component / self-loop theorems *)
  Theorem populated_consistent : forall es ids g, populated es ids g -> consistent g.
  Proof.
    intros es ids g P.
    assert (EL : forall e, In e (g_E g) -> e < length es).
    { intros e He. rewrite (p_E P) in He. apply in_iota in He. lia. }
    assert (ENDS : forall e, e < length es ->
              e_from (gedge g e) < length ids /\ e_to (gedge g e) < length ids).
    { intros e L. destruct (nth_error es e) as [p|] eqn:N; [|apply nth_error_None in N; lia].
      destruct (p_arity P p (nth_error_In _ _ N)) as [s [t ->]].
      destruct (p_edge P e N) as [Hs [Ht _]]. split; apply nth_error_Some; congruence. }
    constructor.
    - rewrite (p_N P). apply NoDup_iota.
    - rewrite (p_E P). apply NoDup_iota.
    - intros n Hn. rewrite (p_N P) in Hn. apply in_iota in Hn. rewrite (p_na_len P). lia.
    - intros e He. rewrite (p_ea_len P). apply EL. exact He.
    - intros e He. rewrite (p_N P). apply in_iota. destruct (ENDS e (EL e He)). lia.
    - intros e He. rewrite (p_N P). apply in_iota. destruct (ENDS e (EL e He)). lia.
    - intros n Hn. rewrite (p_N P) in Hn. apply in_iota in Hn. unfold out_edges. rewrite (p_E P).
      apply (p_out P). lia.
    - intros n Hn. rewrite (p_N P) in Hn. apply in_iota in Hn. unfold in_edges. rewrite (p_E P).
      apply (p_in P). lia.
  Qed.

  Corollary populate_consistent : forall es ids g, populate A eqA es = Ok (ids, g) -> consistent g.
  Proof. intros es ids g H. eapply populated_consistent. apply populate_wf. exact H. Qed.

  (* each edge occurs exactly once in the out list of its source and once in the in list of its target *)
  Corollary populate_edge_once : forall es ids g i,
    populate A eqA es = Ok (ids, g) -> i < length es ->
    count_occ Nat.eq_dec (n_out (gnode g (e_from (gedge g i)))) i = 1 /\
    count_occ Nat.eq_dec (n_in (gnode g (e_to (gedge g i)))) i = 1 /\
    (forall n, n < length ids -> In i (n_out (gnode g n)) -> n = e_from (gedge g i)) /\
    (forall n, n < length ids -> In i (n_in (gnode g n)) -> n = e_to (gedge g i)).
  Proof.
    intros es ids g i H L. pose proof (@populate_wf _ _ _ H) as P. pose proof (populated_consistent P) as C.
    assert (Hi : In i (g_E g)) by (rewrite (p_E P); apply in_iota; lia).
    assert (ONE : forall l : list nat, NoDup l -> In i l -> count_occ Nat.eq_dec l i = 1).
    { intros l ND IN. apply (proj1 (NoDup_count_occ' Nat.eq_dec l) ND i IN). }
    repeat split.
    - rewrite (c_out g C _ (c_from g C _ Hi)). apply ONE.
      + apply NoDup_filter'. apply (c_nodupE g C).
      + apply in_out_edges. auto.
    - rewrite (c_in g C _ (c_to g C _ Hi)). apply ONE.
      + apply NoDup_filter'. apply (c_nodupE g C).
      + apply in_in_edges. auto.
    - intros n Ln IN. rewrite (p_out P Ln) in IN. apply filter_In in IN. destruct IN as [_ E].
      apply Nat.eqb_eq in E. auto.
    - intros n Ln IN. rewrite (p_in P Ln) in IN. apply filter_In in IN. destruct IN as [_ E].
      apply Nat.eqb_eq in E. auto.
  Qed.
End WF.

Print Assumptions populate_wf.
Print Assumptions populate_err_iff.
Print Assumptions populate_ok_iff.
Print Assumptions populate_consistent.
Print Assumptions populate_edge_once.

Example nat_eqb_ok : forall x y : nat, Nat.eqb x y = true <-> x = y.
Proof. intros. apply Nat.eqb_eq. Qed.

Example populate_wf_example : populated [[1;2];[2;3];[1;2];[4;4]] [1;2;3;4] example_graph.
Proof. apply (@populate_wf nat Nat.eqb nat_eqb_ok). vm_compute. reflexivity. Qed.

(* ====================================================================================================== *)
(* P2 (continued): the identifier table lists the distinct identifiers in order of first appearance       *)
(* ====================================================================================================== *)
Section FirstAppearance.
  Variable A : Type.
  Variable eqA : A -> A -> bool.
  Hypothesis eqA_ok : forall x y, eqA x y = true <-> x = y.

  (* keep the first occurrence of every element *)
  Fixpoint dedup (l : list A) : list A :=
    match l with
    | [] => []
    | x :: t => x :: filter (fun y => negb (eqA y x)) (dedup t)
    end.

  Definition memA (x : A) (l : list A) : bool := existsb (eqA x) l.
  Definition add_id (ids : list A) (x : A) : list A := if memA x ids then ids else ids ++ [x].

  Lemma find_id_memA : forall x ids, memA x ids = match find_id A eqA x ids with Some _ => true | None => false end.
  Proof.
    intros x ids. induction ids as [|y t IH]; cbn [memA existsb find_id]; [reflexivity|].
    destruct (eqA x y); cbn [orb]; [reflexivity|].
    fold (memA x t). rewrite IH. destruct (find_id A eqA x t); reflexivity.
  Qed.

  Lemma intern_ids : forall x ids g, fst (snd (intern A eqA x (ids, g))) = add_id ids x.
  Proof.
    intros x ids g. unfold intern, add_id. rewrite find_id_memA.
    destruct (find_id A eqA x ids); reflexivity.
  Qed.

  Lemma populate_edge_ids : forall ids g s t,
    fst (populate_edge A eqA (ids, g) s t) = add_id (add_id ids s) t.
  Proof.
    intros ids g s t. unfold populate_edge.
    pose proof (intern_ids s ids g) as H1.
    destruct (intern A eqA s (ids, g)) as [si [ids1 g1]]. cbn [fst snd] in H1. subst ids1.
    pose proof (intern_ids t (add_id ids s) g1) as H2.
    destruct (intern A eqA t (add_id ids s, g1)) as [ti [ids2 g2]]. cbn [fst snd] in H2. subst ids2.
    reflexivity.
  Qed.

  Lemma populate_from_ids : forall es st st',
    populate_from A eqA st es = Ok st' -> fst st' = fold_left add_id (concat es) (fst st).
  Proof.
    induction es as [|p rest IH]; intros [ids g] st' H.
    - cbn [populate_from] in H. injection H as <-. reflexivity.
    - destruct p as [|s [|t [|u p]]]; cbn [populate_from] in H; try discriminate H.
      apply IH in H. rewrite H. rewrite populate_edge_ids. reflexivity.
  Qed.

  Lemma memA_true : forall x l, memA x l = true <-> In x l.
  Proof.
    intros x l. unfold memA. rewrite existsb_exists. split.
    - intros [y [Hy E]]. apply eqA_ok in E. subst. exact Hy.
    - intros H. exists x. split; [exact H|]. apply eqA_ok. reflexivity.
  Qed.

  Lemma fold_add_id : forall l acc,
    fold_left add_id l acc = acc ++ filter (fun y => negb (memA y acc)) (dedup l).
  Proof.
    induction l as [|x t IH]; intros acc; cbn [fold_left dedup filter].
    - rewrite app_nil_r. reflexivity.
    - rewrite IH. unfold add_id. destruct (memA x acc) eqn:M; cbn [negb].
      + f_equal. rewrite filter_filter. apply filter_ext. intros y.
        destruct (eqA y x) eqn:E; cbn [negb andb]; [|reflexivity].
        apply eqA_ok in E. subst y. rewrite M. reflexivity.
      + rewrite <- app_assoc. cbn [app]. f_equal. f_equal. rewrite filter_filter.
        apply filter_ext. intros y. unfold memA. rewrite existsb_app. cbn [existsb].
        rewrite orb_false_r, negb_orb. apply andb_comm.
  Qed.

  Theorem populate_ids_first_appearance : forall es ids g,
    populate A eqA es = Ok (ids, g) -> ids = dedup (concat es).
  Proof.
    intros es ids g H. unfold populate in H. apply populate_from_ids in H. cbn [fst] in H.
    rewrite H, fold_add_id. cbn [app]. apply filter_true. intros; reflexivity.
  Qed.

  (* what dedup means: no duplicates, same elements, and it is the identity on duplicate-free lists *)
  Lemma dedup_In : forall l x, In x (dedup l) <-> In x l.
  Proof.
    induction l as [|y t IH]; intros x; cbn [dedup In]; [tauto|].
    rewrite filter_In, IH. split.
    - intros [H|[H _]]; auto.
    - intros [H|H]; [left; exact H|].
      destruct (eqA x y) eqn:E; [left; symmetry; apply eqA_ok; exact E|right; split; [exact H|reflexivity]].
  Qed.

  Lemma dedup_NoDup : forall l, NoDup (dedup l).
  Proof.
    induction l as [|y t IH]; cbn [dedup]; constructor.
    - intros H. apply filter_In in H. destruct H as [_ H].
      assert (eqA y y = true) as R by (apply eqA_ok; reflexivity). rewrite R in H. discriminate H.
    - apply NoDup_filter'. exact IH.
  Qed.

  Lemma dedup_id : forall l, NoDup l -> dedup l = l.
  Proof.
    induction l as [|y t IH]; intros ND; cbn [dedup]; [reflexivity|].
    inversion ND as [|y' t' NI ND']; subst. rewrite (IH ND'). f_equal.
    apply filter_true. intros x Hx. destruct (eqA x y) eqn:E; [|reflexivity].
    apply eqA_ok in E. subst. contradiction.
  Qed.
End FirstAppearance.

Print Assumptions populate_ids_first_appearance.

Example dedup_example : dedup Nat.eqb (concat [[1;2];[2;3];[1;2];[4;4]]) = [1;2;3;4].
Proof. reflexivity. Qed.
