(* Positioners.v — proofs about the two simple x-positioners (VAlign, PackRight) and assignYCoords
   of the executable model in Model/Phase4.v. *)
From Autog Require Import Base Graph Phase4.
From Coq Require Import Lqa Lia.
Local Open Scope Q_scope.


(* ====================================================================================== *)
(** * 0. Basic library: upd / nth, gnode / upd_node                                        *)
(* ====================================================================================== *)

Lemma length_upd : forall A (l : list A) i f, length (upd l i f) = length l.
Proof.
  intros A l; induction l as [|x t IH]; intros i f; destruct i; cbn [upd length]; auto.
Qed.

Lemma nth_upd : forall A (l : list A) i j f d,
  nth i (upd l j f) d =
  if (Nat.eqb i j && Nat.ltb j (length l))%bool then f (nth i l d) else nth i l d.
Proof.
  intros A l; induction l as [|x t IH]; intros i j f d.
  - cbn [upd length]. destruct i, j; cbn; try reflexivity.
    rewrite Bool.andb_false_r. reflexivity.
  - destruct j as [|j]; destruct i as [|i]; cbn [upd nth length]; try reflexivity.
    rewrite IH. cbn [Nat.eqb].
    replace (Nat.ltb (S j) (S (length t))) with (Nat.ltb j (length t)) by reflexivity.
    reflexivity.
Qed.

Lemma nth_upd_same : forall A (l : list A) j f d,
  (j < length l)%nat -> nth j (upd l j f) d = f (nth j l d).
Proof.
  intros A l j f d H. rewrite nth_upd, Nat.eqb_refl.
  destruct (Nat.ltb_spec j (length l)) as [_|H']; [reflexivity|lia].
Qed.

Lemma nth_upd_other : forall A (l : list A) i j f d,
  i <> j -> nth i (upd l j f) d = nth i l d.
Proof.
  intros A l i j f d H. rewrite nth_upd.
  destruct (Nat.eqb_spec i j) as [E|_]; [contradiction|reflexivity].
Qed.

Lemma gnode_upd_node : forall g n f m,
  gnode (upd_node g n f) m =
  if (Nat.eqb m n && Nat.ltb n (length (g_na g)))%bool then f (gnode g m) else gnode g m.
Proof. intros g n f m. unfold gnode, upd_node, with_na. cbn [g_na]. apply nth_upd. Qed.

Lemma gnode_upd_node_same : forall g n f,
  (n < length (g_na g))%nat -> gnode (upd_node g n f) n = f (gnode g n).
Proof. intros g n f H. unfold gnode, upd_node, with_na. cbn [g_na]. apply nth_upd_same, H. Qed.

Lemma gnode_upd_node_other : forall g n f m,
  m <> n -> gnode (upd_node g n f) m = gnode g m.
Proof. intros g n f m H. unfold gnode, upd_node, with_na. cbn [g_na]. apply nth_upd_other, H. Qed.

Lemma length_na_upd_node : forall g n f, length (g_na (upd_node g n f)) = length (g_na g).
Proof. intros. unfold upd_node, with_na. cbn [g_na]. apply length_upd. Qed.

(** ** The frame relation: [g'] differs from [g] only in the [n_x] fields of the node arena. *)

Definition xonly (g g' : graph) : Prop :=
  length (g_na g') = length (g_na g) /\ g_ea g' = g_ea g /\ g_N g' = g_N g /\ g_E g' = g_E g /\
  g_L g' = g_L g /\ forall n, set_x 0 (gnode g' n) = set_x 0 (gnode g n).

Lemma xonly_refl : forall g, xonly g g.
Proof. intros g. unfold xonly. repeat split; auto. Qed.

Lemma xonly_trans : forall g1 g2 g3, xonly g1 g2 -> xonly g2 g3 -> xonly g1 g3.
Proof.
  intros g1 g2 g3 (A1 & A2 & A3 & A4 & A5 & A6) (B1 & B2 & B3 & B4 & B5 & B6).
  unfold xonly. refine (conj _ (conj _ (conj _ (conj _ (conj _ _)))));
    [congruence|congruence|congruence|congruence|congruence|].
  intros n. rewrite B6. apply A6.
Qed.

Lemma xonly_upd_node : forall g n f,
  (forall nd, set_x 0 (f nd) = set_x 0 nd) -> xonly g (upd_node g n f).
Proof.
  intros g n f Hf. unfold xonly. refine (conj _ (conj _ (conj _ (conj _ (conj _ _))))); try reflexivity.
  - apply length_na_upd_node.
  - intros m. rewrite gnode_upd_node.
    destruct (Nat.eqb m n && Nat.ltb n (length (g_na g)))%bool; [apply Hf|reflexivity].
Qed.

Lemma xonly_nW : forall g g', xonly g g' -> forall n, nW g' n = nW g n.
Proof.
  intros g g' (_ & _ & _ & _ & _ & H) n. unfold nW.
  change (n_w (gnode g' n)) with (n_w (set_x 0 (gnode g' n))). rewrite H. reflexivity.
Qed.

Lemma xonly_nH : forall g g', xonly g g' -> forall n, nH g' n = nH g n.
Proof.
  intros g g' (_ & _ & _ & _ & _ & H) n. unfold nH.
  change (n_h (gnode g' n)) with (n_h (set_x 0 (gnode g' n))). rewrite H. reflexivity.
Qed.

Lemma xonly_nY : forall g g', xonly g g' -> forall n, nY g' n = nY g n.
Proof.
  intros g g' (_ & _ & _ & _ & _ & H) n. unfold nY.
  change (n_y (gnode g' n)) with (n_y (set_x 0 (gnode g' n))). rewrite H. reflexivity.
Qed.

Lemma xonly_len : forall g g', xonly g g' -> length (g_na g') = length (g_na g).
Proof. intros g g' H. apply H. Qed.

Lemma xonly_L : forall g g', xonly g g' -> g_L g' = g_L g.
Proof. intros g g' H. apply H. Qed.

(** ** Folding a node update over a list of nodes *)

Lemma fold_upd_xonly : forall (f : node -> node) ns g,
  (forall nd, set_x 0 (f nd) = set_x 0 nd) ->
  xonly g (fold_left (fun g n => upd_node g n f) ns g).
Proof.
  intros f ns; induction ns as [|n t IH]; intros g Hf; cbn [fold_left].
  - apply xonly_refl.
  - eapply xonly_trans; [apply xonly_upd_node, Hf | apply IH, Hf].
Qed.

Lemma fold_upd_notin : forall (f : node -> node) ns g m,
  ~ In m ns -> gnode (fold_left (fun g n => upd_node g n f) ns g) m = gnode g m.
Proof.
  intros f ns; induction ns as [|n t IH]; intros g m Hm; cbn [fold_left].
  - reflexivity.
  - rewrite IH by (intro; apply Hm; right; assumption).
    apply gnode_upd_node_other. intro; apply Hm; left; congruence.
Qed.

Lemma fold_upd_length : forall (f : node -> node) ns g,
  length (g_na (fold_left (fun g n => upd_node g n f) ns g)) = length (g_na g).
Proof.
  intros f ns; induction ns as [|n t IH]; intros g; cbn [fold_left].
  - reflexivity.
  - rewrite IH. apply length_na_upd_node.
Qed.

Lemma fold_upd_in_nodup : forall (f : node -> node) ns g m,
  NoDup ns -> In m ns -> (m < length (g_na g))%nat ->
  gnode (fold_left (fun g n => upd_node g n f) ns g) m = f (gnode g m).
Proof.
  intros f ns; induction ns as [|n t IH]; intros g m Hnd Hin Hlt; cbn [fold_left].
  - destruct Hin.
  - inversion Hnd as [|? ? Hnotin Hnd']; subst.
    destruct Hin as [->|Hin].
    + rewrite fold_upd_notin by assumption. apply gnode_upd_node_same, Hlt.
    + rewrite IH; [|assumption|assumption|rewrite length_na_upd_node; assumption].
      rewrite gnode_upd_node_other; [reflexivity|]. intro; subst; contradiction.
Qed.

Lemma fold_layers_flat : forall (F : graph -> nat -> graph) ls g,
  fold_left (fun g l => fold_left F (l_nodes l) g) ls g = fold_left F (flat_map l_nodes ls) g.
Proof.
  intros F ls; induction ls as [|l t IH]; intros g; cbn [fold_left flat_map].
  - reflexivity.
  - rewrite fold_left_app. apply IH.
Qed.

Lemma fold_left_map : forall A B C (f : A -> C -> A) (h : B -> C) l a,
  fold_left f (map h l) a = fold_left (fun a x => f a (h x)) l a.
Proof.
  intros A B C f h l; induction l as [|x t IH]; intros a; cbn [fold_left map]; auto.
Qed.

(** ** Qmax' / Qmin' *)

Lemma Qmax'_l : forall a b, a <= Qmax' a b.
Proof.
  intros a b. unfold Qmax'. destruct (Qle_bool a b) eqn:E.
  - apply Qle_bool_iff, E.
  - apply Qle_refl.
Qed.

Lemma Qmax'_r : forall a b, b <= Qmax' a b.
Proof.
  intros a b. unfold Qmax'. destruct (Qle_bool a b) eqn:E.
  - apply Qle_refl.
  - apply Qlt_le_weak, Qnot_le_lt. intro H. apply Qle_bool_iff in H. congruence.
Qed.

Lemma Qmax'_cases : forall a b, Qmax' a b = a \/ Qmax' a b = b.
Proof. intros a b. unfold Qmax'. destruct (Qle_bool a b); auto. Qed.

Lemma Qmin'_l : forall a b, Qmin' a b <= a.
Proof.
  intros a b. unfold Qmin'. destruct (Qle_bool a b) eqn:E.
  - apply Qle_refl.
  - apply Qlt_le_weak, Qnot_le_lt. intro H. apply Qle_bool_iff in H. congruence.
Qed.

Lemma Qmin'_r : forall a b, Qmin' a b <= b.
Proof.
  intros a b. unfold Qmin'. destruct (Qle_bool a b) eqn:E.
  - apply Qle_bool_iff, E.
  - apply Qle_refl.
Qed.

Lemma Qmin'_cases : forall a b, Qmin' a b = a \/ Qmin' a b = b.
Proof. intros a b. unfold Qmin'. destruct (Qle_bool a b); auto. Qed.

(** ** nth_error and rev *)

Lemma nth_error_rev : forall A (l : list A) i a,
  nth_error l i = Some a -> nth_error (rev l) (length l - S i) = Some a.
Proof.
  intros A l; induction l as [|x t IH]; intros i a H.
  - destruct i; discriminate.
  - cbn [rev length]. destruct i as [|i]; cbn [nth_error] in H.
    + inversion H; subst. rewrite nth_error_app2 by (rewrite rev_length; lia).
      rewrite rev_length. replace (S (length t) - 1 - length t)%nat with 0%nat by lia. reflexivity.
    + assert (Hlt : (i < length t)%nat) by (apply nth_error_Some; congruence).
      rewrite nth_error_app1 by (rewrite rev_length; lia).
      replace (S (length t) - S (S i))%nat with (length t - S i)%nat by lia.
      apply IH, H.
Qed.

Lemma nth_error_In' : forall A (l : list A) i a, nth_error l i = Some a -> In a l.
Proof. intros A l i a H. eapply nth_error_In, H. Qed.

(* ====================================================================================== *)
(** * 1. Well-formedness, prefix sums                                                      *)
(* ====================================================================================== *)

Definition layers_wf (g : graph) : Prop :=
  NoDup (flat_map l_nodes (g_L g)) /\
  (forall n, In n (flat_map l_nodes (g_L g)) -> (n < length (g_na g))%nat).

(* offs g s ns i = sum over the first i nodes of ns of (width + spacing) *)
Fixpoint offs (g : graph) (s : Q) (ns : list nat) (i : nat) {struct i} : Q :=
  match i with
  | O => 0
  | S j => match ns with [] => 0 | n :: t => nW g n + s + offs g s t j end
  end.

Fixpoint sumW (g : graph) (ns : list nat) : Q :=
  match ns with [] => 0 | n :: t => nW g n + sumW g t end.

Lemma offs_ext : forall g g' s ns i,
  (forall n, nW g' n = nW g n) -> offs g' s ns i = offs g s ns i.
Proof.
  intros g g' s ns; induction ns as [|n t IH]; intros i H; destruct i; cbn [offs]; try reflexivity.
  rewrite H, IH by assumption. reflexivity.
Qed.

Lemma offs_S : forall g s ns i a,
  nth_error ns i = Some a -> offs g s ns (S i) == offs g s ns i + nW g a + s.
Proof.
  intros g s ns; induction ns as [|n t IH]; intros i a H.
  - destruct i; discriminate.
  - destruct i as [|i]; cbn [nth_error] in H.
    + inversion H; subst. cbn [offs]. ring.
    + specialize (IH i a H). cbn [offs] in *. rewrite IH. ring.
Qed.

Lemma offs_le_mono : forall g s ns i j,
  0 <= s -> (forall n, In n ns -> 0 <= nW g n) -> (i <= j)%nat -> offs g s ns i <= offs g s ns j.
Proof.
  intros g s ns; induction ns as [|n t IH]; intros i j Hs Hw Hij.
  - destruct i, j; cbn [offs]; apply Qle_refl.
  - assert (Hw' : forall m, In m t -> 0 <= nW g m) by (intros m Hm; apply Hw; right; exact Hm).
    pose proof (Hw n (or_introl eq_refl)) as Hn.
    destruct i as [|i]; destruct j as [|j]; cbn [offs]; try apply Qle_refl; try lia.
    + specialize (IH 0%nat j Hs Hw' ltac:(lia)).
      assert (E : offs g s t 0 = 0) by (destruct t; reflexivity). rewrite E in IH. lra.
    + specialize (IH i j Hs Hw' ltac:(lia)). lra.
Qed.

Lemma offs_0 : forall g s ns, offs g s ns 0 = 0.
Proof. intros g s ns. destruct ns; reflexivity. Qed.

Lemma offs_nonneg : forall g s ns i,
  0 <= s -> (forall n, In n ns -> 0 <= nW g n) -> 0 <= offs g s ns i.
Proof.
  intros g s ns i Hs Hw. rewrite <- (offs_0 g s ns). apply offs_le_mono; auto. lia.
Qed.

(* strict growth between two valid positions: a at i, j > i *)
Lemma offs_step_le : forall g s ns i j a,
  0 <= s -> (forall n, In n ns -> 0 <= nW g n) -> nth_error ns i = Some a -> (i < j)%nat ->
  offs g s ns i + nW g a + s <= offs g s ns j.
Proof.
  intros g s ns i j a Hs Hw Ha Hij.
  rewrite <- (offs_S g s ns i a Ha). apply offs_le_mono; auto.
Qed.

(* ====================================================================================== *)
(** * 2. place_from: prefix sums from the left                                             *)
(* ====================================================================================== *)

Lemma place_from_xonly : forall s ns g pos, xonly g (place_from g s ns pos).
Proof.
  intros s ns; induction ns as [|n t IH]; intros g pos; cbn [place_from].
  - apply xonly_refl.
  - eapply xonly_trans; [|apply IH]. apply xonly_upd_node. intros nd. reflexivity.
Qed.

Lemma place_from_notin : forall s ns g pos m,
  ~ In m ns -> gnode (place_from g s ns pos) m = gnode g m.
Proof.
  intros s ns; induction ns as [|n t IH]; intros g pos m Hm; cbn [place_from].
  - reflexivity.
  - rewrite IH by (intro; apply Hm; right; assumption).
    apply gnode_upd_node_other. intro; apply Hm; left; congruence.
Qed.

Lemma place_from_x : forall s ns g pos i a,
  NoDup ns -> (forall n, In n ns -> (n < length (g_na g))%nat) ->
  nth_error ns i = Some a ->
  nX (place_from g s ns pos) a == pos + offs g s ns i.
Proof.
  intros s ns; induction ns as [|n t IH]; intros g pos i a Hnd Hlt Ha.
  - destruct i; discriminate.
  - inversion Hnd as [|? ? Hnotin Hnd']; subst. cbn [place_from].
    destruct i as [|i]; cbn [nth_error] in Ha.
    + inversion Ha; subst. unfold nX. rewrite place_from_notin by assumption.
      rewrite gnode_upd_node_same by (apply Hlt; left; reflexivity).
      cbn [offs set_x n_x]. ring.
    + rewrite IH with (i := i); [|assumption| |assumption].
      * rewrite (offs_ext g (upd_node g n (set_x pos))).
        -- cbn [offs]. ring.
        -- apply xonly_nW. apply xonly_upd_node. intros nd; reflexivity.
      * intros m Hm. rewrite length_na_upd_node. apply Hlt. right; assumption.
Qed.

(** Folding [place_from] over a list of layers, with a start position depending on the layer. *)

Definition place_layers (s : Q) (pos : layer -> Q) (ls : list layer) (g : graph) : graph :=
  fold_left (fun g l => place_from g s (l_nodes l) (pos l)) ls g.

Lemma place_layers_xonly : forall s pos ls g, xonly g (place_layers s pos ls g).
Proof.
  intros s pos ls; induction ls as [|l t IH]; intros g; unfold place_layers; cbn [fold_left].
  - apply xonly_refl.
  - eapply xonly_trans; [apply place_from_xonly | apply IH].
Qed.

Lemma place_layers_notin : forall s pos ls g m,
  ~ In m (flat_map l_nodes ls) -> gnode (place_layers s pos ls g) m = gnode g m.
Proof.
  intros s pos ls; induction ls as [|l t IH]; intros g m Hm; unfold place_layers; cbn [fold_left].
  - reflexivity.
  - cbn [flat_map] in Hm. fold (place_layers s pos t (place_from g s (l_nodes l) (pos l))).
    rewrite IH by (intro; apply Hm, in_or_app; right; assumption).
    apply place_from_notin. intro; apply Hm, in_or_app; left; assumption.
Qed.

Lemma NoDup_app_l : forall A (l1 l2 : list A), NoDup (l1 ++ l2) -> NoDup l1.
Proof.
  intros A l1; induction l1 as [|x t IH]; intros l2 H; [constructor|].
  cbn [app] in H. inversion H as [|? ? Hx Ht]; subst. constructor.
  - intro; apply Hx, in_or_app; left; assumption.
  - eapply IH, Ht.
Qed.

Lemma NoDup_app_r : forall A (l1 l2 : list A), NoDup (l1 ++ l2) -> NoDup l2.
Proof.
  intros A l1; induction l1 as [|x t IH]; intros l2 H; [exact H|].
  cbn [app] in H. inversion H; subst. apply IH; assumption.
Qed.

Lemma NoDup_app_disj : forall A (l1 l2 : list A) x, NoDup (l1 ++ l2) -> In x l1 -> ~ In x l2.
Proof.
  intros A l1; induction l1 as [|y t IH]; intros l2 x H Hx; [destruct Hx|].
  cbn [app] in H. inversion H as [|? ? Hy Ht]; subst. destruct Hx as [->|Hx].
  - intro; apply Hy, in_or_app; right; assumption.
  - eapply IH; eassumption.
Qed.

Lemma place_layers_x : forall s pos ls g l i a,
  NoDup (flat_map l_nodes ls) ->
  (forall n, In n (flat_map l_nodes ls) -> (n < length (g_na g))%nat) ->
  In l ls -> nth_error (l_nodes l) i = Some a ->
  nX (place_layers s pos ls g) a == pos l + offs g s (l_nodes l) i.
Proof.
  intros s pos ls; induction ls as [|l0 t IH]; intros g l i a Hnd Hlt Hl Ha.
  - destruct Hl.
  - cbn [flat_map] in Hnd, Hlt. unfold place_layers; cbn [fold_left].
    fold (place_layers s pos t (place_from g s (l_nodes l0) (pos l0))).
    destruct Hl as [->|Hl].
    + unfold nX. rewrite place_layers_notin.
      * apply place_from_x; [eapply NoDup_app_l, Hnd| |assumption].
        intros n Hn. apply Hlt, in_or_app; left; assumption.
      * eapply NoDup_app_disj; [exact Hnd|]. eapply nth_error_In, Ha.
    + rewrite IH with (l := l) (i := i); [|eapply NoDup_app_r, Hnd| |assumption|assumption].
      * rewrite (offs_ext g); [reflexivity|]. apply xonly_nW, place_from_xonly.
      * intros n Hn. rewrite (xonly_len _ _ (place_from_xonly s (l_nodes l0) g (pos l0))).
        apply Hlt, in_or_app; right; assumption.
Qed.

(** ** layer_width *)

Lemma layer_width_ext : forall g g' s ns acc,
  (forall n, nW g' n = nW g n) -> layer_width g' s ns acc = layer_width g s ns acc.
Proof.
  intros g g' s ns; induction ns as [|n t IH]; intros acc H; [reflexivity|].
  cbn [layer_width]. destruct t as [|m t']; [rewrite H; reflexivity|].
  rewrite H. apply IH, H.
Qed.

(* extent: layer_width = offset of the last node + its width *)
Lemma layer_width_offs : forall g s t n acc b,
  last_opt (n :: t) = Some b ->
  layer_width g s (n :: t) acc == acc + offs g s (n :: t) (length t) + nW g b.
Proof.
  intros g s t; induction t as [|m t IH]; intros n acc b Hb.
  - cbn [last_opt] in Hb. inversion Hb; subst. cbn [layer_width length offs]. ring.
  - change (last_opt (n :: m :: t)) with (last_opt (m :: t)) in Hb.
    change (layer_width g s (n :: m :: t) acc) with (layer_width g s (m :: t) (acc + nW g n + s)).
    rewrite (IH m (acc + nW g n + s) b Hb). cbn [length].
    change (offs g s (n :: m :: t) (S (length t))) with (nW g n + s + offs g s (m :: t) (length t)).
    ring.
Qed.

Lemma last_opt_nth_error : forall A (t : list A) (n : A),
  last_opt (n :: t) = nth_error (n :: t) (length t).
Proof.
  intros A t; induction t as [|m t IH]; intros n; [reflexivity|].
  change (last_opt (n :: m :: t)) with (last_opt (m :: t)). rewrite IH. reflexivity.
Qed.

Lemma last_opt_some : forall A (t : list A) (n : A), exists b, last_opt (n :: t) = Some b.
Proof.
  intros A t n. rewrite last_opt_nth_error.
  destruct (nth_error (n :: t) (length t)) eqn:E; [eauto|].
  apply nth_error_None in E. cbn [length] in E. lia.
Qed.

(* characterisation: sum of the widths + (k-1) * spacing for a layer of k >= 1 nodes *)
Lemma layer_width_sum_acc : forall g s t n acc,
  layer_width g s (n :: t) acc == acc + sumW g (n :: t) + inject_Z (Z.of_nat (length t)) * s.
Proof.
  intros g s t; induction t as [|m t IH]; intros n acc.
  - cbn [layer_width sumW length Z.of_nat]. unfold inject_Z. ring.
  - change (layer_width g s (n :: m :: t) acc) with (layer_width g s (m :: t) (acc + nW g n + s)).
    rewrite IH. cbn [sumW length]. rewrite Nat2Z.inj_succ. unfold Z.succ. rewrite inject_Z_plus.
    change (inject_Z 1) with 1. ring.
Qed.

Theorem layer_width_sum : forall g s ns,
  ns <> [] ->
  layer_width g s ns 0 == sumW g ns + (inject_Z (Z.of_nat (length ns)) - 1) * s.
Proof.
  intros g s ns H. destruct ns as [|n t]; [contradiction|].
  rewrite layer_width_sum_acc. cbn [length]. rewrite Nat2Z.inj_succ. unfold Z.succ.
  rewrite inject_Z_plus. change (inject_Z 1) with 1. ring.
Qed.
Print Assumptions layer_width_sum.

Lemma layer_width_nonneg : forall g s ns,
  0 <= s -> (forall n, In n ns -> 0 <= nW g n) -> 0 <= layer_width g s ns 0.
Proof.
  intros g s ns Hs Hw. destruct ns as [|n t]; [apply Qle_refl|].
  destruct (last_opt_some _ t n) as [b Hb]. rewrite (layer_width_offs g s t n 0 b Hb).
  pose proof (offs_nonneg g s (n :: t) (length t) Hs Hw).
  assert (Hin : In b (n :: t)).
  { rewrite last_opt_nth_error in Hb. eapply nth_error_In, Hb. }
  specialize (Hw b Hin). lra.
Qed.

(* ====================================================================================== *)
(** * 3. Folded max / min                                                                  *)
(* ====================================================================================== *)

Section FoldMax.
  Variable A : Type.
  Variable h : A -> Q.

  Lemma fold_max_ge_init : forall xs a0, a0 <= fold_left (fun m x => Qmax' m (h x)) xs a0.
  Proof.
    intros xs; induction xs as [|x t IH]; intros a0; cbn [fold_left]; [apply Qle_refl|].
    eapply Qle_trans; [apply (Qmax'_l a0 (h x))|apply IH].
  Qed.

  Lemma fold_max_ge : forall xs a0 x, In x xs -> h x <= fold_left (fun m x => Qmax' m (h x)) xs a0.
  Proof.
    intros xs; induction xs as [|y t IH]; intros a0 x Hx; cbn [fold_left]; [destruct Hx|].
    destruct Hx as [->|Hx].
    - eapply Qle_trans; [apply (Qmax'_r a0 (h x))|apply fold_max_ge_init].
    - apply IH, Hx.
  Qed.

  Lemma fold_max_cases : forall xs a0,
    fold_left (fun m x => Qmax' m (h x)) xs a0 = a0 \/
    exists x, In x xs /\ fold_left (fun m x => Qmax' m (h x)) xs a0 = h x.
  Proof.
    intros xs; induction xs as [|y t IH]; intros a0; cbn [fold_left]; [left; reflexivity|].
    destruct (IH (Qmax' a0 (h y))) as [E|(x & Hx & E)].
    - rewrite E. destruct (Qmax'_cases a0 (h y)) as [E'|E']; rewrite E'.
      + left; reflexivity.
      + right. exists y. split; [left; reflexivity|reflexivity].
    - right. exists x. split; [right; assumption|assumption].
  Qed.

  Lemma fold_min_le_init : forall xs a0, fold_left (fun m x => Qmin' m (h x)) xs a0 <= a0.
  Proof.
    intros xs; induction xs as [|x t IH]; intros a0; cbn [fold_left]; [apply Qle_refl|].
    eapply Qle_trans; [apply IH|apply Qmin'_l].
  Qed.

  Lemma fold_min_le : forall xs a0 x, In x xs -> fold_left (fun m x => Qmin' m (h x)) xs a0 <= h x.
  Proof.
    intros xs; induction xs as [|y t IH]; intros a0 x Hx; cbn [fold_left]; [destruct Hx|].
    destruct Hx as [->|Hx].
    - eapply Qle_trans; [apply fold_min_le_init|apply Qmin'_r].
    - apply IH, Hx.
  Qed.

  Lemma fold_min_cases : forall xs a0,
    fold_left (fun m x => Qmin' m (h x)) xs a0 = a0 \/
    exists x, In x xs /\ fold_left (fun m x => Qmin' m (h x)) xs a0 = h x.
  Proof.
    intros xs; induction xs as [|y t IH]; intros a0; cbn [fold_left]; [left; reflexivity|].
    destruct (IH (Qmin' a0 (h y))) as [E|(x & Hx & E)].
    - rewrite E. destruct (Qmin'_cases a0 (h y)) as [E'|E']; rewrite E'.
      + left; reflexivity.
      + right. exists y. split; [left; reflexivity|reflexivity].
    - right. exists x. split; [right; assumption|assumption].
  Qed.
End FoldMax.

Lemma layer_height_ge_init : forall g ns h0, h0 <= layer_height g ns h0.
Proof. intros g ns h0. unfold layer_height. apply (fold_max_ge_init nat (nH g)). Qed.

Lemma layer_height_ge : forall g ns h0 n, In n ns -> nH g n <= layer_height g ns h0.
Proof. intros g ns h0 n H. unfold layer_height. apply (fold_max_ge nat (nH g)), H. Qed.

Lemma layer_height_ext : forall g g' ns h0,
  (forall n, nH g' n = nH g n) -> layer_height g' ns h0 = layer_height g ns h0.
Proof.
  intros g g' ns; induction ns as [|n t IH]; intros h0 H; unfold layer_height; cbn [fold_left];
    [reflexivity|]. rewrite H. apply IH, H.
Qed.

(* ====================================================================================== *)
(** * 4. exec_valign                                                                       *)
(* ====================================================================================== *)

Definition in_layers (g : graph) (n : nat) : Prop := In n (flat_map l_nodes (g_L g)).

Lemma in_layers_intro : forall g l n, In l (g_L g) -> In n (l_nodes l) -> in_layers g n.
Proof. intros g l n Hl Hn. unfold in_layers. apply in_flat_map. exists l. split; assumption. Qed.

(* hypotheses of properties 5 and 6 (widths are only constrained for nodes that occur in a layer) *)
Definition sizes_ok (s : Q) (g : graph) : Prop :=
  0 <= s /\ (forall n, in_layers g n -> 0 <= nW g n).

Definition geom_ok (s : Q) (g : graph) : Prop :=
  sizes_ok s g /\ g_L g <> [] /\ (forall l, In l (g_L g) -> l_nodes l <> []).

(* a weaker variant that suffices everywhere: some layer is non-empty *)
Definition geom_ok_weak (s : Q) (g : graph) : Prop :=
  sizes_ok s g /\ exists l, In l (g_L g) /\ l_nodes l <> [].

Lemma geom_ok_weaken : forall s g, geom_ok s g -> geom_ok_weak s g.
Proof.
  intros s g (Hsz & Hne & Hall). split; [exact Hsz|].
  destruct (g_L g) as [|l t] eqn:E; [contradiction|].
  exists l. split; [left; reflexivity|]. apply Hall. left; reflexivity.
Qed.

(* the simpler-to-check sufficient condition: every arena slot has a non-negative width *)
Lemma sizes_ok_all : forall s g, 0 <= s -> (forall n, 0 <= nW g n) -> sizes_ok s g.
Proof. intros s g Hs Hw. split; [exact Hs|]. intros n _. apply Hw. Qed.

Lemma sizes_ok_layer : forall s g l,
  sizes_ok s g -> In l (g_L g) -> forall n, In n (l_nodes l) -> 0 <= nW g n.
Proof. intros s g l [_ Hw] Hl n Hn. apply Hw. eapply in_layers_intro; eassumption. Qed.

Lemma sizes_ok_layer_rev : forall s g l,
  sizes_ok s g -> In l (g_L g) -> forall n, In n (rev (l_nodes l)) -> 0 <= nW g n.
Proof. intros s g l H Hl n Hn. apply (sizes_ok_layer s g l H Hl). apply in_rev. exact Hn. Qed.

Definition valign_layer (s : Q) (g : graph) (l : layer) : layer :=
  set_layer_wh (layer_width g s (l_nodes l) 0) (layer_height g (l_nodes l) 0) l.

Definition valign_ls (s : Q) (g : graph) : list layer := map (valign_layer s g) (g_L g).

(* the maximum band width, computed as the model does *)
Definition valign_M (s : Q) (g : graph) : Q :=
  fold_left (fun m l => Qmax' m (layer_width g s (l_nodes l) 0)) (g_L g) 0.

Lemma valign_M_eq : forall s g,
  fold_left (fun m l => Qmax' m (l_w l)) (valign_ls s g) 0 = valign_M s g.
Proof. intros s g. unfold valign_ls, valign_M. rewrite fold_left_map. reflexivity. Qed.

Lemma exec_valign_eq : forall s g,
  exec_valign s g =
  place_layers s (fun l => (valign_M s g - l_w l) / 2) (valign_ls s g) (with_L g (valign_ls s g)).
Proof.
  intros s g. unfold exec_valign. fold (valign_layer s g). fold (valign_ls s g).
  rewrite valign_M_eq. reflexivity.
Qed.

Lemma flat_map_valign_ls : forall s g, flat_map l_nodes (valign_ls s g) = flat_map l_nodes (g_L g).
Proof.
  intros s g. unfold valign_ls. induction (g_L g) as [|l t IH]; cbn [map flat_map]; [reflexivity|].
  rewrite IH. reflexivity.
Qed.

Lemma valign_L : forall s g, g_L (exec_valign s g) = valign_ls s g.
Proof.
  intros s g. rewrite exec_valign_eq.
  rewrite (xonly_L _ _ (place_layers_xonly s _ (valign_ls s g) (with_L g (valign_ls s g)))).
  reflexivity.
Qed.

(** ** Property 1 (frame) for VAlign *)
Theorem valign_frame : forall s g,
  let g' := exec_valign s g in
  (forall n, nW g' n = nW g n) /\ (forall n, nH g' n = nH g n) /\ (forall n, nY g' n = nY g n) /\
  (forall n, set_x 0 (gnode g' n) = set_x 0 (gnode g n)) /\
  map l_nodes (g_L g') = map l_nodes (g_L g) /\
  length (g_L g') = length (g_L g) /\
  length (g_na g') = length (g_na g) /\ g_N g' = g_N g /\ g_E g' = g_E g /\ g_ea g' = g_ea g.
Proof.
  intros s g g'.
  assert (HL : g_L g' = valign_ls s g) by apply valign_L.
  assert (X : xonly (with_L g (valign_ls s g)) g').
  { unfold g'. rewrite exec_valign_eq. apply place_layers_xonly. }
  split; [exact (xonly_nW _ _ X)|].
  split; [exact (xonly_nH _ _ X)|].
  split; [exact (xonly_nY _ _ X)|].
  destruct X as (X1 & X2 & X3 & X4 & X5 & X6).
  split; [exact X6|].
  split.
  { rewrite HL. unfold valign_ls. rewrite map_map. apply map_ext. intros l. reflexivity. }
  split.
  { rewrite HL. unfold valign_ls. apply map_length. }
  split; [exact X1|]. split; [exact X3|]. split; [exact X4|exact X2].
Qed.
Print Assumptions valign_frame.

(** Key lemma: the absolute position of every node of every layer. *)
Lemma valign_pos : forall s g l i a,
  layers_wf g -> In l (g_L g) -> nth_error (l_nodes l) i = Some a ->
  nX (exec_valign s g) a ==
  (valign_M s g - layer_width g s (l_nodes l) 0) / 2 + offs g s (l_nodes l) i.
Proof.
  intros s g l i a [Hnd Hlt] Hl Ha. rewrite exec_valign_eq.
  rewrite (place_layers_x s (fun l => (valign_M s g - l_w l) / 2) (valign_ls s g)
             (with_L g (valign_ls s g)) (valign_layer s g l) i a).
  - rewrite (offs_ext g (with_L g (valign_ls s g))) by (intros; reflexivity).
    unfold valign_layer, set_layer_wh. cbn [l_w l_nodes]. reflexivity.
  - rewrite flat_map_valign_ls. exact Hnd.
  - rewrite flat_map_valign_ls. exact Hlt.
  - unfold valign_ls. apply in_map, Hl.
  - exact Ha.
Qed.

(** ** Property 2: exactly NodeSpacing between consecutive nodes *)
Theorem valign_consecutive : forall s g l i a b,
  layers_wf g -> In l (g_L g) ->
  nth_error (l_nodes l) i = Some a -> nth_error (l_nodes l) (S i) = Some b ->
  nX (exec_valign s g) b == nX (exec_valign s g) a + nW g a + s.
Proof.
  intros s g l i a b Hwf Hl Ha Hb.
  rewrite (valign_pos s g l (S i) b Hwf Hl Hb), (valign_pos s g l i a Hwf Hl Ha).
  rewrite (offs_S g s (l_nodes l) i a Ha). ring.
Qed.
Print Assumptions valign_consecutive.

(** ** Property 3: bands are centred on a common vertical axis *)
Theorem valign_centered : forall s g l a rest,
  layers_wf g -> In l (g_L g) -> l_nodes l = a :: rest ->
  nX (exec_valign s g) a + layer_width g s (l_nodes l) 0 / 2 == valign_M s g / 2.
Proof.
  intros s g l a rest Hwf Hl Hn.
  assert (Ha : nth_error (l_nodes l) 0 = Some a) by (rewrite Hn; reflexivity).
  rewrite (valign_pos s g l 0 a Hwf Hl Ha). cbn [offs]. field.
Qed.
Print Assumptions valign_centered.

(* extent of a band: from the left edge of its first node to the right edge of its last node *)
Theorem valign_extent : forall s g l a rest b,
  layers_wf g -> In l (g_L g) -> l_nodes l = a :: rest -> last_opt (l_nodes l) = Some b ->
  nX (exec_valign s g) b + nW g b - nX (exec_valign s g) a == layer_width g s (l_nodes l) 0.
Proof.
  intros s g l a rest b Hwf Hl Hn Hb.
  assert (Ha : nth_error (l_nodes l) 0 = Some a) by (rewrite Hn; reflexivity).
  assert (Hb' : nth_error (l_nodes l) (length rest) = Some b).
  { rewrite Hn in *. rewrite <- last_opt_nth_error. exact Hb. }
  rewrite (valign_pos s g l _ b Hwf Hl Hb'), (valign_pos s g l 0 a Hwf Hl Ha).
  rewrite Hn in *. rewrite (layer_width_offs g s rest a 0 b Hb). cbn [offs]. ring.
Qed.
Print Assumptions valign_extent.

Lemma valign_M_ge : forall s g l, In l (g_L g) -> layer_width g s (l_nodes l) 0 <= valign_M s g.
Proof.
  intros s g l Hl. unfold valign_M.
  apply (fold_max_ge layer (fun l => layer_width g s (l_nodes l) 0)), Hl.
Qed.

Lemma valign_M_attained : forall s g,
  geom_ok_weak s g ->
  exists l, In l (g_L g) /\ l_nodes l <> [] /\ valign_M s g == layer_width g s (l_nodes l) 0.
Proof.
  intros s g (Hsz & l0 & Hl0 & Hne0).
  assert (Hzero : valign_M s g == 0 ->
          exists l, In l (g_L g) /\ l_nodes l <> [] /\ valign_M s g == layer_width g s (l_nodes l) 0).
  { intros E. exists l0. split; [exact Hl0|]. split; [exact Hne0|].
    pose proof (valign_M_ge s g l0 Hl0) as Hge.
    pose proof (layer_width_nonneg g s (l_nodes l0) (proj1 Hsz) (sizes_ok_layer s g l0 Hsz Hl0)) as H0.
    lra. }
  unfold valign_M in *.
  destruct (fold_max_cases layer (fun l => layer_width g s (l_nodes l) 0) (g_L g) 0) as [E|(l & Hin & E)].
  - apply Hzero. rewrite E. reflexivity.
  - destruct (l_nodes l) as [|a rest] eqn:En.
    + apply Hzero. rewrite E. reflexivity.
    + exists l. split; [assumption|]. split; [rewrite En; discriminate|].
      rewrite E, En. reflexivity.
Qed.

Lemma in_layers_inv : forall g n,
  in_layers g n -> exists l i, In l (g_L g) /\ nth_error (l_nodes l) i = Some n.
Proof.
  intros g n H. unfold in_layers in H. apply in_flat_map in H. destruct H as (l & Hl & Hn).
  apply In_nth_error in Hn. destruct Hn as [i Hi]. exists l, i. split; assumption.
Qed.

(** ** Property 5 for VAlign: every x is >= 0 and some node sits at x == 0 *)
Theorem valign_nonneg_gen : forall s g n,
  layers_wf g -> sizes_ok s g -> in_layers g n -> 0 <= nX (exec_valign s g) n.
Proof.
  intros s g n Hwf Hsz Hn. destruct (in_layers_inv g n Hn) as (l & i & Hl & Hi).
  rewrite (valign_pos s g l i n Hwf Hl Hi).
  pose proof (valign_M_ge s g l Hl) as HM.
  pose proof (offs_nonneg g s (l_nodes l) i (proj1 Hsz) (sizes_ok_layer s g l Hsz Hl)) as Ho.
  assert (H2 : 0 <= (valign_M s g - layer_width g s (l_nodes l) 0) / 2).
  { unfold Qdiv. apply Qmult_le_0_compat; [lra|]. discriminate. }
  lra.
Qed.

Theorem valign_nonneg : forall s g n,
  layers_wf g -> geom_ok s g -> in_layers g n -> 0 <= nX (exec_valign s g) n.
Proof. intros s g n Hwf Hok. apply valign_nonneg_gen; [exact Hwf|apply Hok]. Qed.
Print Assumptions valign_nonneg.

Theorem valign_leftmost_zero_gen : forall s g,
  layers_wf g -> geom_ok_weak s g ->
  (forall n, in_layers g n -> 0 <= nX (exec_valign s g) n) /\
  (exists n, in_layers g n /\ nX (exec_valign s g) n == 0).
Proof.
  intros s g Hwf Hok. split; [intros n; apply valign_nonneg_gen; [exact Hwf|apply Hok]|].
  destruct (valign_M_attained s g Hok) as (l & Hl & Hne & EM).
  destruct (l_nodes l) as [|a rest] eqn:En; [contradiction|].
  exists a. split.
  - apply (in_layers_intro g l a Hl). rewrite En. left; reflexivity.
  - assert (Ha : nth_error (l_nodes l) 0 = Some a) by (rewrite En; reflexivity).
    rewrite (valign_pos s g l 0 a Hwf Hl Ha). rewrite En, EM. cbn [offs]. field.
Qed.

Theorem valign_leftmost_zero : forall s g,
  layers_wf g -> geom_ok s g ->
  (forall n, in_layers g n -> 0 <= nX (exec_valign s g) n) /\
  (exists n, in_layers g n /\ nX (exec_valign s g) n == 0).
Proof. intros s g Hwf Hok. apply valign_leftmost_zero_gen; [exact Hwf|apply geom_ok_weaken, Hok]. Qed.
Print Assumptions valign_leftmost_zero.

(** ** Property 6 for VAlign: nodes of one layer do not overlap, gaps are at least the spacing *)
Theorem valign_no_overlap_in_layer_gen : forall s g l i j a b,
  layers_wf g -> sizes_ok s g -> In l (g_L g) -> (i < j)%nat ->
  nth_error (l_nodes l) i = Some a -> nth_error (l_nodes l) j = Some b ->
  nX (exec_valign s g) a + nW g a + s <= nX (exec_valign s g) b.
Proof.
  intros s g l i j a b Hwf Hsz Hl Hij Ha Hb.
  rewrite (valign_pos s g l i a Hwf Hl Ha), (valign_pos s g l j b Hwf Hl Hb).
  pose proof (offs_step_le g s (l_nodes l) i j a (proj1 Hsz) (sizes_ok_layer s g l Hsz Hl) Ha Hij). lra.
Qed.

Theorem valign_no_overlap_in_layer : forall s g l i j a b,
  layers_wf g -> geom_ok s g -> In l (g_L g) -> (i < j)%nat ->
  nth_error (l_nodes l) i = Some a -> nth_error (l_nodes l) j = Some b ->
  nX (exec_valign s g) a + nW g a + s <= nX (exec_valign s g) b.
Proof.
  intros s g l i j a b Hwf Hok. apply valign_no_overlap_in_layer_gen; [exact Hwf|apply Hok].
Qed.
Print Assumptions valign_no_overlap_in_layer.

(** ** Property 8 for VAlign: layer heights *)
Theorem valign_layer_height : forall s g k,
  l_h (nth k (g_L (exec_valign s g)) layer0) = layer_height g (l_nodes (nth k (g_L g) layer0)) 0.
Proof.
  intros s g k. rewrite valign_L. unfold valign_ls.
  destruct (Nat.lt_ge_cases k (length (g_L g))) as [H|H].
  - rewrite (nth_indep _ layer0 (valign_layer s g layer0)) by (rewrite map_length; exact H).
    rewrite map_nth. reflexivity.
  - rewrite !nth_overflow; [reflexivity|exact H|rewrite map_length; exact H].
Qed.
Print Assumptions valign_layer_height.

Theorem valign_layer_nodes : forall s g k,
  l_nodes (nth k (g_L (exec_valign s g)) layer0) = l_nodes (nth k (g_L g) layer0).
Proof.
  intros s g k. rewrite valign_L. unfold valign_ls.
  destruct (Nat.lt_ge_cases k (length (g_L g))) as [H|H].
  - rewrite (nth_indep _ layer0 (valign_layer s g layer0)) by (rewrite map_length; exact H).
    rewrite map_nth. reflexivity.
  - rewrite !nth_overflow; [reflexivity|exact H|rewrite map_length; exact H].
Qed.

Theorem valign_layer_height_ge : forall s g k n,
  In n (l_nodes (nth k (g_L g) layer0)) ->
  nH g n <= l_h (nth k (g_L (exec_valign s g)) layer0).
Proof.
  intros s g k n H. rewrite valign_layer_height. apply layer_height_ge, H.
Qed.
Print Assumptions valign_layer_height_ge.

(* also: the stored layer width is the band width *)
Theorem valign_layer_w : forall s g k,
  l_w (nth k (g_L (exec_valign s g)) layer0) = layer_width g s (l_nodes (nth k (g_L g) layer0)) 0.
Proof.
  intros s g k. rewrite valign_L. unfold valign_ls.
  destruct (Nat.lt_ge_cases k (length (g_L g))) as [H|H].
  - rewrite (nth_indep _ layer0 (valign_layer s g layer0)) by (rewrite map_length; exact H).
    rewrite map_nth. reflexivity.
  - rewrite !nth_overflow; [reflexivity|exact H|rewrite map_length; exact H].
Qed.

(* ====================================================================================== *)
(** * 5. pack_back: prefix sums from the right                                             *)
(* ====================================================================================== *)

Lemma pack_back_xonly : forall s rs g x, xonly g (fst (pack_back g s rs x)).
Proof.
  intros s rs; induction rs as [|n t IH]; intros g x; cbn [pack_back].
  - apply xonly_refl.
  - eapply xonly_trans; [|apply IH]. apply xonly_upd_node. intros nd; reflexivity.
Qed.

Lemma pack_back_notin : forall s rs g x m,
  ~ In m rs -> gnode (fst (pack_back g s rs x)) m = gnode g m.
Proof.
  intros s rs; induction rs as [|n t IH]; intros g x m Hm; cbn [pack_back].
  - reflexivity.
  - rewrite IH by (intro; apply Hm; right; assumption).
    apply gnode_upd_node_other. intro; apply Hm; left; congruence.
Qed.

Lemma pack_back_x : forall s rs g x i a,
  NoDup rs -> (forall n, In n rs -> (n < length (g_na g))%nat) ->
  nth_error rs i = Some a ->
  nX (fst (pack_back g s rs x)) a == x - offs g s rs (S i).
Proof.
  intros s rs; induction rs as [|n t IH]; intros g x i a Hnd Hlt Ha.
  - destruct i; discriminate.
  - inversion Hnd as [|? ? Hnotin Hnd']; subst. cbn [pack_back].
    destruct i as [|i]; cbn [nth_error] in Ha.
    + inversion Ha; subst. unfold nX. rewrite pack_back_notin by assumption.
      rewrite gnode_upd_node_same by (apply Hlt; left; reflexivity).
      cbn [offs set_x n_x]. ring.
    + rewrite IH with (i := i); [|assumption| |assumption].
      * rewrite (offs_ext g (upd_node g n (set_x (x - (nW g n + s))))).
        -- change (offs g s (n :: t) (S (S i))) with (nW g n + s + offs g s t (S i)). ring.
        -- apply xonly_nW. apply xonly_upd_node. intros nd; reflexivity.
      * intros m Hm. rewrite length_na_upd_node. apply Hlt. right; assumption.
Qed.

Lemma pack_back_snd : forall s rs g x,
  snd (pack_back g s rs x) == x - offs g s rs (length rs).
Proof.
  intros s rs; induction rs as [|n t IH]; intros g x; cbn [pack_back length].
  - cbn [snd offs]. ring.
  - rewrite IH. rewrite (offs_ext g (upd_node g n (set_x (x - (nW g n + s))))).
    + cbn [offs]. ring.
    + apply xonly_nW. apply xonly_upd_node. intros nd; reflexivity.
Qed.

(* ====================================================================================== *)
(** * 6. exec_pack_right                                                                   *)
(* ====================================================================================== *)

Definition pr_step (s : Q) (acc : graph * Q) (l : layer) : graph * Q :=
  let '(g, lb) := acc in
  let '(g, x) := pack_back g s (rev (l_nodes l)) 0 in
  (g, Qmin' lb x).

Definition pr_fold (s : Q) (ls : list layer) (acc : graph * Q) : graph * Q :=
  fold_left (pr_step s) ls acc.

(* the left bound: min over 0 and the left ends of all layers, as computed by the model *)
Definition pr_lb (s : Q) (g : graph) : Q := snd (pr_fold s (g_L g) (g, 0)).

(* left end of a layer packed leftwards from 0 *)
Definition pr_left (g : graph) (s : Q) (l : layer) : Q :=
  0 - offs g s (rev (l_nodes l)) (length (l_nodes l)).

Definition shift_x (lb : Q) (nd : node) : node := set_x (n_x nd - lb) nd.

Lemma pr_fold_cons : forall s l t g0 lb0,
  pr_fold s (l :: t) (g0, lb0) =
  pr_fold s t (fst (pack_back g0 s (rev (l_nodes l)) 0),
               Qmin' lb0 (snd (pack_back g0 s (rev (l_nodes l)) 0))).
Proof.
  intros s l t g0 lb0. unfold pr_fold. cbn [fold_left]. unfold pr_step at 2.
  destruct (pack_back g0 s (rev (l_nodes l)) 0) as [g1 x]. reflexivity.
Qed.

Lemma exec_pack_right_eq : forall s g,
  exec_pack_right s g =
  let g1 := fst (pr_fold s (g_L g) (g, 0)) in
  let lb := pr_lb s g in
  let g2 := fold_left (fun g n => upd_node g n (shift_x lb)) (flat_map l_nodes (g_L g1)) g1 in
  with_L g2 (map (fun l => set_layer_h (layer_height g2 (l_nodes l) (l_h l)) l) (g_L g2)).
Proof.
  intros s g. unfold exec_pack_right, pr_lb, pr_fold, pr_step.
  destruct (fold_left _ (g_L g) (g, 0)) as [g1 lb]. cbn [fst snd].
  rewrite fold_layers_flat. reflexivity.
Qed.

Lemma pr_fold_xonly : forall s ls g0 lb0, xonly g0 (fst (pr_fold s ls (g0, lb0))).
Proof.
  intros s ls; induction ls as [|l t IH]; intros g0 lb0.
  - apply xonly_refl.
  - rewrite pr_fold_cons. eapply xonly_trans; [apply pack_back_xonly|apply IH].
Qed.

Lemma pr_fold_notin : forall s ls g0 lb0 m,
  ~ In m (flat_map l_nodes ls) -> gnode (fst (pr_fold s ls (g0, lb0))) m = gnode g0 m.
Proof.
  intros s ls; induction ls as [|l t IH]; intros g0 lb0 m Hm.
  - reflexivity.
  - rewrite pr_fold_cons. cbn [flat_map] in Hm.
    rewrite IH by (intro; apply Hm, in_or_app; right; assumption).
    apply pack_back_notin. rewrite <- in_rev. intro; apply Hm, in_or_app; left; assumption.
Qed.

Lemma pr_fold_x : forall s ls g0 lb0 l i a,
  NoDup (flat_map l_nodes ls) ->
  (forall n, In n (flat_map l_nodes ls) -> (n < length (g_na g0))%nat) ->
  In l ls -> nth_error (rev (l_nodes l)) i = Some a ->
  nX (fst (pr_fold s ls (g0, lb0))) a == 0 - offs g0 s (rev (l_nodes l)) (S i).
Proof.
  intros s ls; induction ls as [|l0 t IH]; intros g0 lb0 l i a Hnd Hlt Hl Ha.
  - destruct Hl.
  - cbn [flat_map] in Hnd, Hlt. rewrite pr_fold_cons.
    destruct Hl as [->|Hl].
    + unfold nX. rewrite pr_fold_notin.
      * apply pack_back_x; [apply NoDup_rev; eapply NoDup_app_l, Hnd| |assumption].
        intros n Hn. apply Hlt, in_or_app; left. apply in_rev; assumption.
      * eapply NoDup_app_disj; [exact Hnd|]. apply in_rev. eapply nth_error_In, Ha.
    + rewrite IH with (l := l) (i := i); [|eapply NoDup_app_r, Hnd| |assumption|assumption].
      * rewrite (offs_ext g0); [reflexivity|]. apply xonly_nW, pack_back_xonly.
      * intros n Hn. rewrite (xonly_len _ _ (pack_back_xonly s (rev (l_nodes l0)) g0 0)).
        apply Hlt, in_or_app; right; assumption.
Qed.

Lemma pack_back_snd_left : forall s g l,
  snd (pack_back g s (rev (l_nodes l)) 0) == pr_left g s l.
Proof.
  intros s g l. rewrite pack_back_snd. rewrite rev_length. reflexivity.
Qed.

Lemma pr_left_ext : forall g g' s l, (forall n, nW g' n = nW g n) -> pr_left g' s l = pr_left g s l.
Proof. intros g g' s l H. unfold pr_left. rewrite (offs_ext g g' s _ _ H). reflexivity. Qed.

Lemma pr_fold_snd_le_init : forall s ls g0 lb0, snd (pr_fold s ls (g0, lb0)) <= lb0.
Proof.
  intros s ls; induction ls as [|l t IH]; intros g0 lb0.
  - apply Qle_refl.
  - rewrite pr_fold_cons. eapply Qle_trans; [apply IH|apply Qmin'_l].
Qed.

Lemma pr_fold_snd_le : forall s ls g0 lb0 l,
  In l ls -> snd (pr_fold s ls (g0, lb0)) <= pr_left g0 s l.
Proof.
  intros s ls; induction ls as [|l0 t IH]; intros g0 lb0 l Hl.
  - destruct Hl.
  - rewrite pr_fold_cons. destruct Hl as [->|Hl].
    + eapply Qle_trans; [apply pr_fold_snd_le_init|].
      rewrite <- pack_back_snd_left. apply Qmin'_r.
    + rewrite <- (pr_left_ext g0 (fst (pack_back g0 s (rev (l_nodes l0)) 0)) s l).
      * apply IH, Hl.
      * apply xonly_nW, pack_back_xonly.
Qed.

Lemma pr_fold_snd_cases : forall s ls g0 lb0,
  snd (pr_fold s ls (g0, lb0)) == lb0 \/
  exists l, In l ls /\ snd (pr_fold s ls (g0, lb0)) == pr_left g0 s l.
Proof.
  intros s ls; induction ls as [|l0 t IH]; intros g0 lb0.
  - left. reflexivity.
  - rewrite pr_fold_cons.
    set (g1 := fst (pack_back g0 s (rev (l_nodes l0)) 0)).
    set (x := snd (pack_back g0 s (rev (l_nodes l0)) 0)).
    destruct (IH g1 (Qmin' lb0 x)) as [E|(l & Hl & E)].
    + destruct (Qmin'_cases lb0 x) as [E'|E'].
      * left. rewrite E, E'. reflexivity.
      * right. exists l0. split; [left; reflexivity|]. rewrite E, E'. apply pack_back_snd_left.
    + right. exists l. split; [right; assumption|]. rewrite E.
      rewrite (pr_left_ext g0 g1 s l); [reflexivity|]. apply xonly_nW, pack_back_xonly.
Qed.

(* the intermediate graphs *)
Definition pr_g1 (s : Q) (g : graph) : graph := fst (pr_fold s (g_L g) (g, 0)).
Definition pr_g2 (s : Q) (g : graph) : graph :=
  fold_left (fun g0 n => upd_node g0 n (shift_x (pr_lb s g))) (flat_map l_nodes (g_L g)) (pr_g1 s g).

Lemma pr_g1_xonly : forall s g, xonly g (pr_g1 s g).
Proof. intros s g. apply pr_fold_xonly. Qed.

Lemma pr_g2_xonly : forall s g, xonly g (pr_g2 s g).
Proof.
  intros s g. eapply xonly_trans; [apply pr_g1_xonly|]. unfold pr_g2.
  apply fold_upd_xonly. intros nd; reflexivity.
Qed.

Definition pr_layer (g : graph) (l : layer) : layer :=
  set_layer_h (layer_height g (l_nodes l) (l_h l)) l.

Lemma exec_pack_right_eq' : forall s g,
  exec_pack_right s g = with_L (pr_g2 s g) (map (pr_layer g) (g_L g)).
Proof.
  intros s g. rewrite exec_pack_right_eq. cbv zeta. fold (pr_g1 s g).
  rewrite (xonly_L _ _ (pr_g1_xonly s g)). fold (pr_g2 s g).
  rewrite (xonly_L _ _ (pr_g2_xonly s g)). f_equal.
  apply map_ext. intros l. unfold pr_layer. f_equal. apply layer_height_ext. apply xonly_nH, pr_g2_xonly.
Qed.

(** ** Property 1 (frame) for PackRight *)
Theorem packright_frame : forall s g,
  let g' := exec_pack_right s g in
  (forall n, nW g' n = nW g n) /\ (forall n, nH g' n = nH g n) /\ (forall n, nY g' n = nY g n) /\
  (forall n, set_x 0 (gnode g' n) = set_x 0 (gnode g n)) /\
  map l_nodes (g_L g') = map l_nodes (g_L g) /\
  length (g_L g') = length (g_L g) /\
  length (g_na g') = length (g_na g) /\ g_N g' = g_N g /\ g_E g' = g_E g /\ g_ea g' = g_ea g.
Proof.
  intros s g g'. unfold g'. rewrite exec_pack_right_eq'.
  pose proof (pr_g2_xonly s g) as X.
  split; [exact (xonly_nW _ _ X)|].
  split; [exact (xonly_nH _ _ X)|].
  split; [exact (xonly_nY _ _ X)|].
  destruct X as (X1 & X2 & X3 & X4 & X5 & X6).
  split; [exact X6|].
  split.
  { cbn [with_L g_L]. rewrite map_map. apply map_ext. intros l. reflexivity. }
  split.
  { cbn [with_L g_L]. apply map_length. }
  split; [exact X1|]. split; [exact X3|]. split; [exact X4|exact X2].
Qed.
Print Assumptions packright_frame.

(** Key lemma: absolute position of every node, indexed from the right end of its layer. *)
Lemma packright_pos : forall s g l i a,
  layers_wf g -> In l (g_L g) -> nth_error (rev (l_nodes l)) i = Some a ->
  nX (exec_pack_right s g) a == 0 - offs g s (rev (l_nodes l)) (S i) - pr_lb s g.
Proof.
  intros s g l i a [Hnd Hlt] Hl Ha. rewrite exec_pack_right_eq'.
  assert (Hin : In a (flat_map l_nodes (g_L g))).
  { apply in_flat_map. exists l. split; [assumption|]. apply in_rev. eapply nth_error_In, Ha. }
  change (nX (with_L (pr_g2 s g) _) a) with (n_x (gnode (pr_g2 s g) a)).
  unfold pr_g2. rewrite fold_upd_in_nodup; [|assumption|assumption|].
  - unfold shift_x. cbn [set_x n_x]. fold (nX (pr_g1 s g) a). unfold pr_g1.
    rewrite (pr_fold_x s (g_L g) g 0 l i a Hnd Hlt Hl Ha). reflexivity.
  - rewrite (xonly_len _ _ (pr_g1_xonly s g)). apply Hlt, Hin.
Qed.

(** ** Property 2 for PackRight *)
Theorem packright_consecutive : forall s g l i a b,
  layers_wf g -> In l (g_L g) ->
  nth_error (l_nodes l) i = Some a -> nth_error (l_nodes l) (S i) = Some b ->
  nX (exec_pack_right s g) b == nX (exec_pack_right s g) a + nW g a + s.
Proof.
  intros s g l i a b Hwf Hl Ha Hb.
  assert (Hlen : (S i < length (l_nodes l))%nat) by (apply nth_error_Some; congruence).
  pose proof (nth_error_rev _ _ _ _ Ha) as Ha'. pose proof (nth_error_rev _ _ _ _ Hb) as Hb'.
  set (j := (length (l_nodes l) - S (S i))%nat) in *.
  replace (length (l_nodes l) - S i)%nat with (S j) in Ha' by (unfold j; lia).
  rewrite (packright_pos s g l j b Hwf Hl Hb'), (packright_pos s g l (S j) a Hwf Hl Ha').
  rewrite (offs_S g s (rev (l_nodes l)) (S j) a Ha'). ring.
Qed.
Print Assumptions packright_consecutive.

Lemma last_opt_rev_head : forall (ns : list nat) b,
  last_opt ns = Some b -> nth_error (rev ns) 0 = Some b.
Proof.
  intros ns b H. destruct ns as [|n t]; [discriminate|].
  rewrite last_opt_nth_error in H. apply nth_error_rev in H.
  cbn [length] in H. replace (S (length t) - S (length t))%nat with 0%nat in H by lia. exact H.
Qed.

(** ** Property 4: right ends coincide *)
Theorem packright_right_end : forall s g l b,
  layers_wf g -> In l (g_L g) -> last_opt (l_nodes l) = Some b ->
  nX (exec_pack_right s g) b + nW g b + s == 0 - pr_lb s g.
Proof.
  intros s g l b Hwf Hl Hb. apply last_opt_rev_head in Hb.
  rewrite (packright_pos s g l 0 b Hwf Hl Hb).
  destruct (rev (l_nodes l)) as [|b' t] eqn:E; [discriminate|].
  cbn [nth_error] in Hb. inversion Hb; subst. cbn [offs]. ring.
Qed.

Theorem packright_right_aligned : forall s g,
  layers_wf g ->
  exists R, forall l b, In l (g_L g) -> last_opt (l_nodes l) = Some b ->
                        nX (exec_pack_right s g) b + nW g b + s == R.
Proof.
  intros s g Hwf. exists (0 - pr_lb s g). intros l b Hl Hb. apply (packright_right_end s g l b); assumption.
Qed.
Print Assumptions packright_right_aligned.

Lemma pr_lb_le : forall s g l, In l (g_L g) -> pr_lb s g <= pr_left g s l.
Proof. intros s g l Hl. unfold pr_lb. apply pr_fold_snd_le, Hl. Qed.

Lemma pr_left_nonpos : forall s g l, sizes_ok s g -> In l (g_L g) -> pr_left g s l <= 0.
Proof.
  intros s g l Hsz Hl. unfold pr_left.
  pose proof (offs_nonneg g s (rev (l_nodes l)) (length (l_nodes l)) (proj1 Hsz)
                (sizes_ok_layer_rev s g l Hsz Hl)). lra.
Qed.

Lemma pr_left_nil : forall s g l, l_nodes l = [] -> pr_left g s l == 0.
Proof. intros s g l E. unfold pr_left. rewrite E. cbn [rev length offs]. ring. Qed.

Lemma pr_lb_attained : forall s g,
  geom_ok_weak s g -> exists l, In l (g_L g) /\ l_nodes l <> [] /\ pr_lb s g == pr_left g s l.
Proof.
  intros s g (Hsz & l0 & Hl0 & Hne0).
  assert (Hzero : pr_lb s g == 0 ->
          exists l, In l (g_L g) /\ l_nodes l <> [] /\ pr_lb s g == pr_left g s l).
  { intros E. exists l0. split; [exact Hl0|]. split; [exact Hne0|].
    pose proof (pr_lb_le s g l0 Hl0) as H1. pose proof (pr_left_nonpos s g l0 Hsz Hl0) as H2. lra. }
  destruct (pr_fold_snd_cases s (g_L g) g 0) as [E|(l & Hl & E)].
  - apply Hzero. exact E.
  - destruct (l_nodes l) as [|a rest] eqn:En.
    + apply Hzero. unfold pr_lb. rewrite E. apply pr_left_nil, En.
    + exists l. split; [assumption|]. split; [rewrite En; discriminate|exact E].
Qed.

(** ** Property 5 for PackRight *)
Theorem packright_nonneg_gen : forall s g n,
  layers_wf g -> sizes_ok s g -> in_layers g n -> 0 <= nX (exec_pack_right s g) n.
Proof.
  intros s g n Hwf Hsz Hn.
  unfold in_layers in Hn. apply in_flat_map in Hn. destruct Hn as (l & Hl & Hn).
  apply in_rev in Hn. apply In_nth_error in Hn. destruct Hn as [i Hi].
  rewrite (packright_pos s g l i n Hwf Hl Hi).
  assert (Hlen : (i < length (rev (l_nodes l)))%nat) by (apply nth_error_Some; congruence).
  rewrite rev_length in Hlen.
  pose proof (pr_lb_le s g l Hl) as H1. unfold pr_left in H1.
  pose proof (offs_le_mono g s (rev (l_nodes l)) (S i) (length (l_nodes l)) (proj1 Hsz)
                (sizes_ok_layer_rev s g l Hsz Hl) ltac:(lia)) as H2.
  lra.
Qed.

Theorem packright_nonneg : forall s g n,
  layers_wf g -> geom_ok s g -> in_layers g n -> 0 <= nX (exec_pack_right s g) n.
Proof. intros s g n Hwf Hok. apply packright_nonneg_gen; [exact Hwf|apply Hok]. Qed.
Print Assumptions packright_nonneg.

Theorem packright_leftmost_zero_gen : forall s g,
  layers_wf g -> geom_ok_weak s g ->
  (forall n, in_layers g n -> 0 <= nX (exec_pack_right s g) n) /\
  (exists n, in_layers g n /\ nX (exec_pack_right s g) n == 0).
Proof.
  intros s g Hwf Hok. split; [intros n; apply packright_nonneg_gen; [exact Hwf|apply Hok]|].
  destruct (pr_lb_attained s g Hok) as (l & Hl & Hne & E).
  destruct (l_nodes l) as [|a rest] eqn:En; [contradiction|].
  assert (Ha : nth_error (l_nodes l) 0 = Some a) by (rewrite En; reflexivity).
  apply nth_error_rev in Ha.
  exists a. split.
  - apply (in_layers_intro g l a Hl). rewrite En. left; reflexivity.
  - rewrite En in Ha. cbn [length] in Ha.
    replace (S (length rest) - 1)%nat with (length rest) in Ha by lia.
    rewrite <- En in Ha.
    rewrite (packright_pos s g l (length rest) a Hwf Hl Ha). rewrite E. unfold pr_left.
    rewrite En. cbn [length]. ring.
Qed.

Theorem packright_leftmost_zero : forall s g,
  layers_wf g -> geom_ok s g ->
  (forall n, in_layers g n -> 0 <= nX (exec_pack_right s g) n) /\
  (exists n, in_layers g n /\ nX (exec_pack_right s g) n == 0).
Proof.
  intros s g Hwf Hok. apply packright_leftmost_zero_gen; [exact Hwf|apply geom_ok_weaken, Hok].
Qed.
Print Assumptions packright_leftmost_zero.

(** ** Property 6 for PackRight *)
Theorem packright_no_overlap_in_layer_gen : forall s g l i j a b,
  layers_wf g -> sizes_ok s g -> In l (g_L g) -> (i < j)%nat ->
  nth_error (l_nodes l) i = Some a -> nth_error (l_nodes l) j = Some b ->
  nX (exec_pack_right s g) a + nW g a + s <= nX (exec_pack_right s g) b.
Proof.
  intros s g l i j a b Hwf Hsz Hl Hij Ha Hb.
  assert (Hlen : (j < length (l_nodes l))%nat) by (apply nth_error_Some; congruence).
  pose proof (nth_error_rev _ _ _ _ Ha) as Ha'. pose proof (nth_error_rev _ _ _ _ Hb) as Hb'.
  set (p := (length (l_nodes l) - S j)%nat) in *.
  set (q := (length (l_nodes l) - S i)%nat) in *.
  rewrite (packright_pos s g l q a Hwf Hl Ha'), (packright_pos s g l p b Hwf Hl Hb').
  rewrite (offs_S g s (rev (l_nodes l)) q a Ha').
  pose proof (offs_le_mono g s (rev (l_nodes l)) (S p) q (proj1 Hsz)
                (sizes_ok_layer_rev s g l Hsz Hl) ltac:(unfold p, q; lia)) as H.
  lra.
Qed.

Theorem packright_no_overlap_in_layer : forall s g l i j a b,
  layers_wf g -> geom_ok s g -> In l (g_L g) -> (i < j)%nat ->
  nth_error (l_nodes l) i = Some a -> nth_error (l_nodes l) j = Some b ->
  nX (exec_pack_right s g) a + nW g a + s <= nX (exec_pack_right s g) b.
Proof.
  intros s g l i j a b Hwf Hok. apply packright_no_overlap_in_layer_gen; [exact Hwf|apply Hok].
Qed.
Print Assumptions packright_no_overlap_in_layer.

(** ** Property 8 for PackRight: layer heights *)
Theorem packright_layer_height : forall s g k,
  l_h (nth k (g_L (exec_pack_right s g)) layer0) =
  layer_height g (l_nodes (nth k (g_L g) layer0)) (l_h (nth k (g_L g) layer0)).
Proof.
  intros s g k. rewrite exec_pack_right_eq'. cbn [with_L g_L].
  destruct (Nat.lt_ge_cases k (length (g_L g))) as [H|H].
  - rewrite (nth_indep _ layer0 (pr_layer g layer0)) by (rewrite map_length; exact H).
    rewrite map_nth. reflexivity.
  - rewrite !nth_overflow; [reflexivity|exact H|rewrite map_length; exact H].
Qed.
Print Assumptions packright_layer_height.

Theorem packright_layer_nodes : forall s g k,
  l_nodes (nth k (g_L (exec_pack_right s g)) layer0) = l_nodes (nth k (g_L g) layer0).
Proof.
  intros s g k. rewrite exec_pack_right_eq'. cbn [with_L g_L].
  destruct (Nat.lt_ge_cases k (length (g_L g))) as [H|H].
  - rewrite (nth_indep _ layer0 (pr_layer g layer0)) by (rewrite map_length; exact H).
    rewrite map_nth. reflexivity.
  - rewrite !nth_overflow; [reflexivity|exact H|rewrite map_length; exact H].
Qed.

Theorem packright_layer_height_ge : forall s g k n,
  In n (l_nodes (nth k (g_L g) layer0)) ->
  nH g n <= l_h (nth k (g_L (exec_pack_right s g)) layer0).
Proof.
  intros s g k n H. rewrite packright_layer_height. apply layer_height_ge, H.
Qed.
Print Assumptions packright_layer_height_ge.

(* the old layer height is also a lower bound (it is 0 in practice) *)
Theorem packright_layer_height_ge_old : forall s g k,
  l_h (nth k (g_L g) layer0) <= l_h (nth k (g_L (exec_pack_right s g)) layer0).
Proof. intros s g k. rewrite packright_layer_height. apply layer_height_ge_init. Qed.

(** ** Well-formedness is preserved by both positioners (so that assign_y can follow) *)
Lemma layers_wf_transfer : forall g g',
  map l_nodes (g_L g') = map l_nodes (g_L g) -> length (g_na g') = length (g_na g) ->
  layers_wf g -> layers_wf g'.
Proof.
  intros g g' HL Hlen [Hnd Hlt]. unfold layers_wf.
  rewrite flat_map_concat_map, HL, <- flat_map_concat_map, Hlen. split; assumption.
Qed.

Lemma in_layers_transfer : forall g g' n,
  map l_nodes (g_L g') = map l_nodes (g_L g) -> (in_layers g' n <-> in_layers g n).
Proof.
  intros g g' n HL. unfold in_layers.
  rewrite (flat_map_concat_map l_nodes (g_L g')), HL, <- flat_map_concat_map. reflexivity.
Qed.

Theorem valign_layers_wf : forall s g, layers_wf g -> layers_wf (exec_valign s g).
Proof.
  intros s g H. pose proof (valign_frame s g) as F. cbv zeta in F.
  apply (layers_wf_transfer g); [apply F|apply F|exact H].
Qed.

Theorem packright_layers_wf : forall s g, layers_wf g -> layers_wf (exec_pack_right s g).
Proof.
  intros s g H. pose proof (packright_frame s g) as F. cbv zeta in F.
  apply (layers_wf_transfer g); [apply F|apply F|exact H].
Qed.

(* ====================================================================================== *)
(** * 7. assign_y                                                                          *)
(* ====================================================================================== *)

(* [g'] differs from [g] only in the [n_y] fields of the node arena *)
Definition yonly (g g' : graph) : Prop :=
  length (g_na g') = length (g_na g) /\ g_ea g' = g_ea g /\ g_N g' = g_N g /\ g_E g' = g_E g /\
  g_L g' = g_L g /\ forall n, set_y 0 (gnode g' n) = set_y 0 (gnode g n).

Lemma yonly_refl : forall g, yonly g g.
Proof.
  intros g. unfold yonly.
  refine (conj _ (conj _ (conj _ (conj _ (conj _ _))))); reflexivity.
Qed.

Lemma yonly_trans : forall g1 g2 g3, yonly g1 g2 -> yonly g2 g3 -> yonly g1 g3.
Proof.
  intros g1 g2 g3 (A1 & A2 & A3 & A4 & A5 & A6) (B1 & B2 & B3 & B4 & B5 & B6).
  unfold yonly. refine (conj _ (conj _ (conj _ (conj _ (conj _ _)))));
    [congruence|congruence|congruence|congruence|congruence|].
  intros n. rewrite B6. apply A6.
Qed.

Lemma yonly_upd_node : forall g n y, yonly g (upd_node g n (set_y y)).
Proof.
  intros g n y. unfold yonly. refine (conj _ (conj _ (conj _ (conj _ (conj _ _))))); try reflexivity.
  - apply length_na_upd_node.
  - intros m. rewrite gnode_upd_node.
    destruct (Nat.eqb m n && Nat.ltb n (length (g_na g)))%bool; reflexivity.
Qed.

Lemma fold_sety_yonly : forall y ns g, yonly g (fold_left (fun g n => upd_node g n (set_y y)) ns g).
Proof.
  intros y ns; induction ns as [|n t IH]; intros g; cbn [fold_left].
  - apply yonly_refl.
  - eapply yonly_trans; [apply yonly_upd_node|apply IH].
Qed.

Definition ay_step (sp : Q) (acc : graph * Q) (l : layer) : graph * Q :=
  let '(g, y) := acc in
  (fold_left (fun g n => upd_node g n (set_y y)) (l_nodes l) g, y + l_h l + sp).

Lemma assign_y_eq : forall sp g, assign_y sp g = fst (fold_left (ay_step sp) (g_L g) (g, 0)).
Proof. intros sp g. reflexivity. Qed.

(* Y_k, by recursion on k from the layer heights of the list [ls] *)
Fixpoint ysum_from (sp y0 : Q) (ls : list layer) (k : nat) : Q :=
  match k with
  | O => y0
  | S k' => ysum_from sp y0 ls k' + l_h (nth k' ls layer0) + sp
  end.

Definition ysum (sp : Q) (ls : list layer) (k : nat) : Q := ysum_from sp 0 ls k.

Lemma ysum_0 : forall sp ls, ysum sp ls 0 = 0.
Proof. reflexivity. Qed.

Lemma ysum_S : forall sp ls k, ysum sp ls (S k) = ysum sp ls k + l_h (nth k ls layer0) + sp.
Proof. reflexivity. Qed.

Lemma ysum_from_cons : forall sp y0 l t k,
  ysum_from sp y0 (l :: t) (S k) = ysum_from sp (y0 + l_h l + sp) t k.
Proof.
  intros sp y0 l t k; induction k as [|k IH].
  - reflexivity.
  - change (ysum_from sp y0 (l :: t) (S (S k)))
      with (ysum_from sp y0 (l :: t) (S k) + l_h (nth (S k) (l :: t) layer0) + sp).
    rewrite IH. reflexivity.
Qed.

Lemma ay_fold_yonly : forall sp ls g0 y0, yonly g0 (fst (fold_left (ay_step sp) ls (g0, y0))).
Proof.
  intros sp ls; induction ls as [|l t IH]; intros g0 y0; cbn [fold_left].
  - apply yonly_refl.
  - unfold ay_step at 2. eapply yonly_trans; [apply fold_sety_yonly|apply IH].
Qed.

Lemma ay_fold_notin : forall sp ls g0 y0 m,
  ~ In m (flat_map l_nodes ls) -> gnode (fst (fold_left (ay_step sp) ls (g0, y0))) m = gnode g0 m.
Proof.
  intros sp ls; induction ls as [|l t IH]; intros g0 y0 m Hm; cbn [fold_left].
  - reflexivity.
  - unfold ay_step at 2. cbn [flat_map] in Hm.
    rewrite IH by (intro; apply Hm, in_or_app; right; assumption).
    apply fold_upd_notin. intro; apply Hm, in_or_app; left; assumption.
Qed.

Lemma ay_fold_y : forall sp ls g0 y0 k n,
  NoDup (flat_map l_nodes ls) ->
  (forall n, In n (flat_map l_nodes ls) -> (n < length (g_na g0))%nat) ->
  In n (l_nodes (nth k ls layer0)) ->
  nY (fst (fold_left (ay_step sp) ls (g0, y0))) n = ysum_from sp y0 ls k.
Proof.
  intros sp ls; induction ls as [|l t IH]; intros g0 y0 k n Hnd Hlt Hn.
  - destruct k; destruct Hn.
  - cbn [fold_left]. unfold ay_step at 2. cbn [flat_map] in Hnd, Hlt.
    destruct k as [|k].
    + cbn [nth] in Hn. unfold nY. rewrite ay_fold_notin.
      * rewrite fold_upd_in_nodup; [reflexivity|eapply NoDup_app_l, Hnd|exact Hn|].
        apply Hlt, in_or_app; left; exact Hn.
      * eapply NoDup_app_disj; [exact Hnd|exact Hn].
    + cbn [nth] in Hn. rewrite ysum_from_cons.
      apply IH; [eapply NoDup_app_r, Hnd| |exact Hn].
      intros m Hm. rewrite fold_upd_length. apply Hlt, in_or_app; right; exact Hm.
Qed.

(** ** Property 7: y coordinates *)
Theorem assign_y_layer : forall sp g k n,
  layers_wf g -> In n (l_nodes (nth k (g_L g) layer0)) ->
  nY (assign_y sp g) n == ysum sp (g_L g) k.
Proof.
  intros sp g k n [Hnd Hlt] Hn. rewrite assign_y_eq. unfold ysum.
  rewrite (ay_fold_y sp (g_L g) g 0 k n Hnd Hlt Hn). reflexivity.
Qed.
Print Assumptions assign_y_layer.

(* same statement with Leibniz equality: the value is syntactically the accumulated sum *)
Theorem assign_y_layer_eq : forall sp g k n,
  layers_wf g -> In n (l_nodes (nth k (g_L g) layer0)) ->
  nY (assign_y sp g) n = ysum sp (g_L g) k.
Proof.
  intros sp g k n [Hnd Hlt] Hn. rewrite assign_y_eq. unfold ysum.
  apply (ay_fold_y sp (g_L g) g 0 k n Hnd Hlt Hn).
Qed.

Theorem assign_y_frame : forall sp g,
  let g' := assign_y sp g in
  (forall n, nX g' n = nX g n) /\ (forall n, nW g' n = nW g n) /\ (forall n, nH g' n = nH g n) /\
  (forall n, set_y 0 (gnode g' n) = set_y 0 (gnode g n)) /\
  g_L g' = g_L g /\ length (g_na g') = length (g_na g) /\
  g_N g' = g_N g /\ g_E g' = g_E g /\ g_ea g' = g_ea g.
Proof.
  intros sp g g'. unfold g'. rewrite assign_y_eq.
  destruct (ay_fold_yonly sp (g_L g) g 0) as (X1 & X2 & X3 & X4 & X5 & X6).
  assert (F : forall (p : node -> Q), (forall nd, p (set_y 0 nd) = p nd) ->
              forall n, p (gnode (fst (fold_left (ay_step sp) (g_L g) (g, 0))) n) = p (gnode g n)).
  { intros p Hp n. rewrite <- (Hp (gnode _ n)), X6, Hp. reflexivity. }
  split; [apply (F n_x); reflexivity|].
  split; [apply (F n_w); reflexivity|].
  split; [apply (F n_h); reflexivity|].
  split; [exact X6|]. split; [exact X5|]. split; [exact X1|].
  split; [exact X3|]. split; [exact X4|exact X2].
Qed.
Print Assumptions assign_y_frame.

Theorem assign_y_not_in_layers : forall sp g n,
  ~ in_layers g n -> gnode (assign_y sp g) n = gnode g n.
Proof. intros sp g n H. rewrite assign_y_eq. apply ay_fold_notin, H. Qed.
Print Assumptions assign_y_not_in_layers.

(* ====================================================================================== *)
(** * 8. A concrete instance: 2 layers, 3 nodes                                            *)
(* ====================================================================================== *)

Definition ex_node (w h : Q) : node := mkNode [] [] 0 0 false 0 0 w h.
Definition ex_g : graph :=
  mkGraph [ex_node 10 4; ex_node 20 6; ex_node 40 8] [] [0; 1; 2]%nat []
          [mkLayer [0; 1]%nat 0 0; mkLayer [2]%nat 0 0].

Example ex_layers_wf : layers_wf ex_g.
Proof.
  split.
  - cbn. repeat constructor; cbn; intuition discriminate.
  - cbn. intros n H. intuition lia.
Qed.

Example ex_geom_ok : geom_ok 5 ex_g.
Proof.
  split; [apply sizes_ok_all|split].
  - discriminate.
  - intros n. do 3 (destruct n as [|n]; [vm_compute; discriminate|]).
    destruct n; vm_compute; discriminate.
  - discriminate.
  - cbn. intros l [<-|[<-|[]]]; discriminate.
Qed.

Example ex_valign_x :
  map (fun n => Qred (nX (exec_valign 5 ex_g) n)) [0; 1; 2]%nat = [5 # 2; 35 # 2; 0].
Proof. vm_compute. reflexivity. Qed.

Example ex_valign_M : Qred (valign_M 5 ex_g) = 40.
Proof. vm_compute. reflexivity. Qed.

Example ex_valign_heights : map (fun l => Qred (l_h l)) (g_L (exec_valign 5 ex_g)) = [6; 8].
Proof. vm_compute. reflexivity. Qed.

Example ex_packright_x :
  map (fun n => Qred (nX (exec_pack_right 5 ex_g) n)) [0; 1; 2]%nat = [5; 20; 0].
Proof. vm_compute. reflexivity. Qed.

Example ex_packright_R : Qred (0 - pr_lb 5 ex_g) = 45.
Proof. vm_compute. reflexivity. Qed.

Example ex_assign_y :
  map (fun n => Qred (nY (assign_y 7 (exec_valign 5 ex_g)) n)) [0; 1; 2]%nat = [0; 0; 13].
Proof. vm_compute. reflexivity. Qed.

(* the general theorems instantiated on the example *)
Example ex_valign_centered_0 :
  nX (exec_valign 5 ex_g) 0%nat + layer_width ex_g 5 [0; 1]%nat 0 / 2 == valign_M 5 ex_g / 2.
Proof.
  apply (valign_centered 5 ex_g (mkLayer [0; 1]%nat 0 0) 0%nat [1%nat] ex_layers_wf);
    [left; reflexivity|reflexivity].
Qed.

Example ex_packright_zero :
  exists n, in_layers ex_g n /\ nX (exec_pack_right 5 ex_g) n == 0.
Proof. apply (packright_leftmost_zero 5 ex_g ex_layers_wf ex_geom_ok). Qed.

Example ex_assign_y_layer1 :
  nY (assign_y 7 (exec_valign 5 ex_g)) 2%nat == ysum 7 (g_L (exec_valign 5 ex_g)) 1.
Proof.
  apply assign_y_layer; [apply valign_layers_wf, ex_layers_wf|].
  rewrite valign_layer_nodes. left; reflexivity.
Qed.

(* ====================================================================================== *)
(** * 9. Glue for phase4: the positioner followed by assign_y                              *)
(* ====================================================================================== *)

Lemma phase4_valign : forall p g,
  Nat.eqb (length (g_N g)) 1 = false ->
  phase4 VAlign p g = Ok (assign_y (layer_spacing p) (exec_valign (node_spacing p) g)).
Proof. intros p g H. unfold phase4. rewrite H. reflexivity. Qed.

Lemma phase4_packright : forall p g,
  Nat.eqb (length (g_N g)) 1 = false ->
  phase4 PackRight p g = Ok (assign_y (layer_spacing p) (exec_pack_right (node_spacing p) g)).
Proof. intros p g H. unfold phase4. rewrite H. reflexivity. Qed.

(* x, w, h and the layer lists seen after phase4 are those produced by the positioner *)
Lemma assign_y_nX : forall sp g n, nX (assign_y sp g) n = nX g n.
Proof. intros sp g n. apply (assign_y_frame sp g). Qed.
Lemma assign_y_nW : forall sp g n, nW (assign_y sp g) n = nW g n.
Proof. intros sp g n. apply (assign_y_frame sp g). Qed.
Lemma assign_y_nH : forall sp g n, nH (assign_y sp g) n = nH g n.
Proof. intros sp g n. apply (assign_y_frame sp g). Qed.
Lemma assign_y_L : forall sp g, g_L (assign_y sp g) = g_L g.
Proof. intros sp g. apply (assign_y_frame sp g). Qed.

Print Assumptions valign_layers_wf.
Print Assumptions packright_layers_wf.
Print Assumptions valign_leftmost_zero_gen.
Print Assumptions valign_no_overlap_in_layer_gen.
Print Assumptions packright_leftmost_zero_gen.
Print Assumptions packright_no_overlap_in_layer_gen.
Print Assumptions packright_right_end.
Print Assumptions assign_y_layer_eq.
Print Assumptions ex_geom_ok.

(* ====================================================================================== *)
(** * 10. A boolean checker for layers_wf                                                  *)
(* ====================================================================================== *)

Fixpoint nodupb (l : list nat) : bool :=
  match l with [] => true | x :: t => negb (mem_nat x t) && nodupb t end.

Definition layers_wfb (g : graph) : bool :=
  nodupb (flat_map l_nodes (g_L g)) &&
  forallb (fun n => Nat.ltb n (length (g_na g))) (flat_map l_nodes (g_L g)).

Lemma nodupb_sound : forall l, nodupb l = true -> NoDup l.
Proof.
  intros l; induction l as [|x t IH]; intros H; [constructor|].
  cbn [nodupb] in H. apply andb_true_iff in H. destruct H as [H1 H2].
  constructor; [|apply IH, H2].
  intros Hin. apply negb_true_iff in H1. unfold mem_nat in H1.
  assert (E : existsb (Nat.eqb x) t = true).
  { apply existsb_exists. exists x. split; [exact Hin|apply Nat.eqb_refl]. }
  congruence.
Qed.

Lemma nodupb_complete : forall l, NoDup l -> nodupb l = true.
Proof.
  intros l H; induction H as [|x t Hx Ht IH]; [reflexivity|].
  cbn [nodupb]. rewrite IH, andb_true_r. apply negb_true_iff.
  destruct (mem_nat x t) eqn:E; [|reflexivity]. exfalso. apply Hx.
  unfold mem_nat in E. apply existsb_exists in E. destruct E as (y & Hy & Exy).
  apply Nat.eqb_eq in Exy. subst. exact Hy.
Qed.

Theorem layers_wfb_iff : forall g, layers_wfb g = true <-> layers_wf g.
Proof.
  intros g. unfold layers_wfb, layers_wf. rewrite andb_true_iff, forallb_forall. split.
  - intros [H1 H2]. split; [apply nodupb_sound, H1|].
    intros n Hn. apply Nat.ltb_lt, H2, Hn.
  - intros [H1 H2]. split; [apply nodupb_complete, H1|].
    intros n Hn. apply Nat.ltb_lt, H2, Hn.
Qed.
Print Assumptions layers_wfb_iff.

Example ex_layers_wfb : layers_wfb ex_g = true.
Proof. vm_compute. reflexivity. Qed.
