(* RenameLayout.v — C08 for the WHOLE Layout: renaming the identifiers of the input (edge list and size map) by any
   map that the equality test cannot tell from an injection gives the same result with the name table renamed —
   for every pipeline of the model (weighted median / every positioner / no-op ordering / spline routing over any
   oracles). The output nodes and edges of the model refer to nodes by index into the name table, so "the same
   result" is Leibniz equality of everything but the table. *)
From Coq Require Import List QArith.
From Autog Require Import Graph Populate Layout Pipeline PipelineBK PipelineNoop PipelineSpl PopulateProofs Summary.
Import ListNotations.

Definition rename_sizes {A B : Type} (rho : A -> B) (sizes : option (list (A * (Q * Q)))) :=
  option_map (map (fun p : A * (Q * Q) => (rho (fst p), snd p))) sizes.

Definition rename_result {A B R : Type} (rho : A -> B) (r : res (list A * R)) : res (list B * R) :=
  match r with Ok (ids, x) => Ok (map rho ids, x) | Err e => Err e end.

Section Rename.
  Variables (A B : Type) (eqA : A -> A -> bool) (eqB : B -> B -> bool) (rho : A -> B).
  Hypothesis Hrho : forall x y, eqB (rho x) (rho y) = eqA x y.

  (* any pipeline of the shape "populate; reject empty; apply sizes; run [body] on the indexed graph" *)
  Lemma rename_generic : forall (R : Type) (body : graph -> res R) fixed sizes es,
    (do p <- populate B eqB (map (map rho) es);
     let '(ids, g) := p in
     match ids with [] => Err ErrEmpty
     | _ => let g := apply_sizes B eqB fixed (rename_sizes rho sizes) ids g in do r <- body g; Ok (ids, r) end)
    = rename_result rho
      (do p <- populate A eqA es;
       let '(ids, g) := p in
       match ids with [] => Err ErrEmpty
       | _ => let g := apply_sizes A eqA fixed sizes ids g in do r <- body g; Ok (ids, r) end).
  Proof.
    intros R body fixed sizes es. rewrite (populate_rename A B eqA eqB rho Hrho).
    destruct (populate A eqA es) as [[ids g]|e]; cbn [bind rename_result]; [|reflexivity].
    destruct ids as [|i ids]; cbn [map]; [reflexivity|].
    change (rho i :: map rho ids) with (map rho (i :: ids)).
    unfold rename_sizes. rewrite (apply_sizes_rename A B eqA eqB rho Hrho).
    destruct (body _) as [r|e]; reflexivity.
  Qed.

  Theorem layout_rename : forall o fixed sizes es,
    layout B eqB o fixed (rename_sizes rho sizes) (map (map rho) es) = rename_result rho (layout A eqA o fixed sizes es).
  Proof. intros. unfold layout. apply (rename_generic _ (fun g => layout_components o (components g) 0)). Qed.

  Theorem layout_x_rename : forall bk o fixed sizes es,
    layout_x B eqB bk o fixed (rename_sizes rho sizes) (map (map rho) es) = rename_result rho (layout_x A eqA bk o fixed sizes es).
  Proof. intros. unfold layout_x. apply (rename_generic _ (fun g => layout_components_x bk o (components g) 0)). Qed.

  Theorem layout_n_rename : forall bk o fixed sizes es,
    layout_n B eqB bk o fixed (rename_sizes rho sizes) (map (map rho) es) = rename_result rho (layout_n A eqA bk o fixed sizes es).
  Proof. intros. unfold layout_n. apply (rename_generic _ (fun g => layout_components_n bk o (components g) 0)). Qed.

  Theorem layout_sx_rename : forall shortest fit mk_inner bk o fixed sizes es,
    layout_sx shortest fit mk_inner B eqB bk o fixed (rename_sizes rho sizes) (map (map rho) es)
    = rename_result rho (layout_sx shortest fit mk_inner A eqA bk o fixed sizes es).
  Proof.
    intros. unfold layout_sx.
    apply (rename_generic _ (fun g => layout_components_sx shortest fit mk_inner bk o (components g) 0)).
  Qed.
End Rename.
