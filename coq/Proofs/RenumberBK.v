(* RenumberBK.v — equivariance under renumbering of arena indices: Model/BK.v, the Brandes-Koepf positioner
   (mark_conflicts, vertical_align, horizontal_compaction / bk_place_block, bk_layout, bk_size, balance_layouts,
   verify_layout, the final assignment; exec_bk, phase4_bk). Toolkit: Proofs/RenumberBase.v.

   SIDE CONDITION. [bk_size] (xcoordinates.Size) folds Qmin' / Qmax' over the WHOLE coordinate table in arena order
   (the Go code ranges over a map). With Leibniz equality on Q the result of such a fold depends on the order in
   which Qeq-but-not-identical rationals are met (Qmin' (1#2) (2#4) = 1#2, Qmin' (2#4) (1#2) = 2#4), so the balanced
   layout is equivariant only for renumberings that keep the order of the arena: [smono sigma]. Everything that does
   not go through [bk_size] (all four layouts, the forced variants 0..3) is proved for every injective sigma.
   The renumbering of a connected component inside a larger input IS order preserving (RenumberBK2.v). *)
From Autog Require Import Base Graph Populate Phase1 Phase2 Phase3 Phase4 Wmedian Pipeline BK.
From Coq Require Import Sorted.
From Autog.Proofs Require Import ListLemmas RenumberBase RenumberCheck RenumberExample.
From Autog.Proofs Require RenumberSink RenumberPhase4 BKProofs.
Local Open Scope nat_scope.

Definition smono (f : nat -> nat) : Prop := forall a b, a < b -> f a < f b.

Lemma smono_inj : forall f, smono f -> inj f.
Proof.
  intros f M a b E. destruct (Nat.lt_trichotomy a b) as [L|[L|L]]; auto; apply M in L; lia.
Qed.

(* ---------- generic list helpers ---------- *)
Lemma combine_map_r : forall (A B C : Type) (f : B -> C) (l : list A) (m : list B),
  combine l (map f m) = map (fun p => (fst p, f (snd p))) (combine l m).
Proof. induction l as [|a l IH]; destruct m as [|b m]; cbn; auto. rewrite IH. reflexivity. Qed.

Lemma last_map_ne : forall (f : nat -> nat) l d d', l <> [] -> last (map f l) d' = f (last l d).
Proof.
  induction l as [|x t IH]; intros d d' N; [congruence|].
  destruct t as [|y t']; [reflexivity|].
  change (last (map f (x :: y :: t')) d') with (last (map f (y :: t')) d').
  change (last (x :: y :: t') d) with (last (y :: t') d). apply IH. discriminate.
Qed.

Lemma fold_left_rel2 : forall (A B X Y : Type) (R : A -> B -> Prop) (S : X -> Y -> Prop)
    (F : A -> X -> A) (F' : B -> Y -> B) l l' a b,
  Forall2 S l l' -> R a b -> (forall a b x y, R a b -> S x y -> R (F a x) (F' b y)) ->
  R (fold_left F l a) (fold_left F' l' b).
Proof.
  intros A B X Y R S F F' l l' a b HF. revert a b. induction HF; cbn; intros a b Hab K; auto.
Qed.

Lemma Forall2_nth_rel : forall (X Y : Type) (R : X -> Y -> Prop) l l' i d d',
  Forall2 R l l' -> R d d' -> R (nth i l d) (nth i l' d').
Proof. intros X Y R l l' i d d' HF Hd. revert i. induction HF; intros [|i]; cbn; auto. Qed.

Lemma fold_left_flat_map : forall (A X Y : Type) (f : A -> Y -> A) (F : X -> list Y) l a,
  fold_left f (flat_map F l) a = fold_left (fun a x => fold_left f (F x) a) l a.
Proof. induction l as [|x t IH]; cbn; intros a; auto. rewrite fold_left_app. apply IH. Qed.

Lemma fold_left_ext_in : forall (A X : Type) (f f' : A -> X -> A) l a,
  (forall a x, In x l -> f a x = f' a x) -> fold_left f l a = fold_left f' l a.
Proof. induction l as [|x t IH]; cbn; intros a K; auto. rewrite K by auto. apply IH. auto. Qed.

Lemma median_idx_lt : forall d hl m, d <> 0 -> In m (median_idx d hl) -> m < d.
Proof.
  intros d hl m D K. unfold median_idx in K.
  assert (A1 : (d + 1) / 2 < d + 1) by (apply Nat.div_lt_upper_bound; lia).
  assert (A2 : (d + 2) / 2 < d + 1) by (apply Nat.div_lt_upper_bound; lia).
  destruct hl; destruct K as [K|[K|[]]]; subst m; lia.
Qed.

(* ---------- strictly sorted association lists are determined by their elements ---------- *)
Definition lt1 (p q : nat * Q) : Prop := fst p < fst q.

Lemma sorted_ext : forall l1 l2 : list (nat * Q), StronglySorted lt1 l1 -> StronglySorted lt1 l2 ->
  (forall p, In p l1 <-> In p l2) -> l1 = l2.
Proof.
  induction l1 as [|a l1 IH]; intros [|b l2] S1 S2 E.
  - reflexivity.
  - exfalso. apply (proj2 (E b)). left. reflexivity.
  - exfalso. apply (proj1 (E a)). left. reflexivity.
  - inversion S1 as [|a0 l0 S1' F1]; subst. inversion S2 as [|b0 l0 S2' F2]; subst.
    rewrite Forall_forall in F1, F2.
    assert (Eab : a = b).
    { destruct (proj1 (E a) (or_introl eq_refl)) as [K|K]; [auto|].
      destruct (proj2 (E b) (or_introl eq_refl)) as [K2|K2]; [auto|].
      apply F2 in K. apply F1 in K2. unfold lt1 in *. lia. }
    subst b. f_equal. apply IH; auto.
    intros p. split; intros K.
    + destruct (proj1 (E p) (or_intror K)) as [K2|K2]; auto. subst p. apply F1 in K. unfold lt1 in K. lia.
    + destruct (proj2 (E p) (or_intror K)) as [K2|K2]; auto. subst p. apply F2 in K. unfold lt1 in K. lia.
Qed.

(* the entries of a coordinate table that are present, in arena order *)
Definition present_from (s : nat) (xc : list (option Q)) : list (nat * Q) :=
  flat_map (fun p : nat * option Q => match snd p with Some x => [(fst p, x)] | None => [] end)
           (combine (iota s (length xc)) xc).
Definition present (xc : list (option Q)) : list (nat * Q) := present_from 0 xc.

Lemma present_from_cons : forall s a xc,
  present_from s (a :: xc) = (match a with Some x => [(s, x)] | None => [] end) ++ present_from (S s) xc.
Proof. reflexivity. Qed.

Lemma present_from_sorted : forall xc s,
  StronglySorted lt1 (present_from s xc) /\ Forall (fun p => s <= fst p) (present_from s xc).
Proof.
  induction xc as [|a xc IH]; intros s.
  - split; constructor.
  - rewrite present_from_cons. destruct (IH (S s)) as [S1 F1].
    assert (F2 : Forall (fun p => s < fst p) (present_from (S s) xc)).
    { eapply Forall_impl; [|exact F1]. intros p K. cbv beta in K. lia. }
    destruct a as [x|]; cbn [app].
    + split.
      * constructor; auto.
      * constructor; [cbn; lia|]. eapply Forall_impl; [|exact F2]. intros p K. cbv beta in K. lia.
    + split; auto. eapply Forall_impl; [|exact F2]. intros p K. cbv beta in K. lia.
Qed.

Lemma in_present_from : forall xc s j x,
  In (j, x) (present_from s xc) <-> s <= j /\ nth (j - s) xc None = Some x.
Proof.
  induction xc as [|a xc IH]; intros s j x.
  - cbn. split; [tauto|]. intros [_ K]. destruct (j - s); discriminate.
  - rewrite present_from_cons, in_app_iff, IH. split.
    + intros [K|[K1 K2]].
      * destruct a as [y|]; [|destruct K]. destruct K as [K|[]]. inversion K; subst.
        split; auto. rewrite Nat.sub_diag. reflexivity.
      * split; [lia|]. replace (j - s) with (S (j - S s)) by lia. exact K2.
    + intros [K1 K2]. destruct (Nat.eq_dec j s) as [E|N].
      * subst j. rewrite Nat.sub_diag in K2. cbn in K2. subst a. left. left. reflexivity.
      * right. split; [lia|]. replace (j - s) with (S (j - S s)) in K2 by lia. exact K2.
Qed.

Lemma in_present : forall xc j x, In (j, x) (present xc) <-> nth j xc None = Some x.
Proof.
  intros. unfold present. rewrite in_present_from, Nat.sub_0_r. split; [tauto|]. intros; split; auto; lia.
Qed.

(* ====================================================================================================== *)
(* A. everything that only READS the graph                                                                  *)
(* ====================================================================================================== *)
Section BKRead.
  Variables sigma tau : nat -> nat.
  Variables g g' : graph.
  Hypothesis H : iso sigma tau g g'.

  Let Hs : inj sigma := iso_sinj H.
  Let Ht : inj tau := iso_tinj H.

  (* ---------- 1. indexing ---------- *)
  Definition nrel (a b : nat) : Prop := b = sigma a /\ a < length (g_na g).
  Definition lrel (ns ns' : list nat) : Prop := ns' = map sigma ns /\ forall n, In n ns -> n < length (g_na g).

  Lemma nW_iso : forall n, nW g' (sigma n) = nW g n.
  Proof. intros. unfold nW. apply (iso_n_w H). Qed.

  Lemma node_at_rel : forall code ns ns' z, lrel ns ns' -> res_rel nrel (node_at code ns z) (node_at code ns' z).
  Proof.
    intros code ns ns' z [E R]. subst ns'. unfold node_at. destruct (z <? 0)%Z; [apply rr_err|].
    rewrite nth_error_map'. destruct (nth_error ns (Z.to_nat z)) as [n|] eqn:K; cbn [option_map]; [|apply rr_err].
    apply rr_ok. split; auto. apply R. eapply nth_error_In; eauto.
  Qed.

  Lemma layer_at_rel : forall code z, res_rel lrel (layer_at code g z) (layer_at code g' z).
  Proof.
    intros code z. unfold layer_at. destruct (z <? 0)%Z; [apply rr_err|]. rewrite (iso_L H), nth_error_map'.
    destruct (nth_error (g_L g) (Z.to_nat z)) as [l|] eqn:K; cbn [option_map]; [|apply rr_err].
    apply rr_ok. split; [reflexivity|]. intros n Hn. eapply (iso_L_lt H); eauto. eapply nth_error_In; eauto.
  Qed.

  Lemma first_in_rel : forall code ns ns' hl, lrel ns ns' -> res_rel nrel (first_in code ns hl) (first_in code ns' hl).
  Proof.
    intros code ns ns' hl R. unfold first_in.
    assert (E : length ns' = length ns) by (destruct R as [-> _]; apply map_length).
    rewrite E. destruct hl; apply node_at_rel; auto.
  Qed.

  Lemma last_in_rel : forall code ns ns' hl, lrel ns ns' -> res_rel nrel (last_in code ns hl) (last_in code ns' hl).
  Proof. intros. unfold last_in. apply first_in_rel; auto. Qed.

  Lemma next_in_rel : forall code n ns ns' hl, lrel ns ns' ->
    res_rel nrel (next_in code g n ns hl) (next_in code g' (sigma n) ns' hl).
  Proof. intros. unfold next_in. rewrite (iso_n_pos H). apply node_at_rel; auto. Qed.

  Lemma prev_in_rel : forall code n ns ns' hl, lrel ns ns' ->
    res_rel nrel (prev_in code g n ns hl) (prev_in code g' (sigma n) ns' hl).
  Proof. intros. unfold prev_in. apply next_in_rel; auto. Qed.

  Definition ilmap (p : nat * list nat) : nat * list nat := (fst p, map sigma (snd p)).

  Lemma iter_layers_iso : forall vtop, iter_layers g' vtop = map ilmap (iter_layers g vtop).
  Proof.
    intros vtop. unfold iter_layers. rewrite (iso_L H), map_length, map_map.
    assert (E : map (fun l => l_nodes (layer_map sigma l)) (g_L g) = map (map sigma) (map l_nodes (g_L g))).
    { rewrite map_map. reflexivity. }
    rewrite E, combine_map_r. fold ilmap. destruct vtop; [rewrite map_rev|]; reflexivity.
  Qed.

  Lemma iter_layers_lt : forall vtop p n, In p (iter_layers g vtop) -> In n (snd p) -> n < length (g_na g).
  Proof.
    intros vtop [i ns] n K Hn. unfold iter_layers in K.
    assert (K2 : In (i, ns) (combine (iota 0 (length (g_L g))) (map l_nodes (g_L g)))).
    { destruct vtop; [apply in_rev|]; exact K. }
    apply in_combine_r in K2. apply in_map_iff in K2. destruct K2 as [l [E Hl]]. subst ns.
    eapply (iso_L_lt H); eauto.
  Qed.

  Lemma iter_nodes_map : forall ns hl, iter_nodes (map sigma ns) hl = map sigma (iter_nodes ns hl).
  Proof. intros. unfold iter_nodes. destruct hl; [rewrite map_rev|]; reflexivity. Qed.

  Lemma iter_nodes_in : forall ns hl n, In n (iter_nodes ns hl) -> In n ns.
  Proof. intros ns hl n K. unfold iter_nodes in K. destruct hl; [apply in_rev|]; exact K. Qed.

  (* ---------- 2. neighbours ---------- *)
  Definition pmap (p : nat * nat) : nat * nat := (sigma (fst p), tau (snd p)).

  Lemma viable_iso : forall e, e < length (g_ea g) -> viable g' (tau e) = viable g e.
  Proof. apply (RenumberSink.viable_iso sigma tau g g' H). Qed.

  Lemma bk_neigh_iso : forall vtop n, bk_neigh g' vtop (sigma n) = map pmap (bk_neigh g vtop n).
  Proof.
    intros vtop n. unfold bk_neigh. cbv zeta.
    rewrite (iso_n_layer H), (iso_L_length H), (iso_n_out H), (iso_n_in H).
    destruct vtop.
    - destruct (n_layer (gnode g n) <? Z.of_nat (length (g_L g)) - 1)%Z; [|reflexivity].
      apply flat_map_map_comm. intros e He.
      assert (Le : e < length (g_ea g)) by (eapply (iso_out_lt H); eauto).
      rewrite viable_iso, (iso_e_to H) by auto. destruct (viable g e); reflexivity.
    - destruct (0 <? n_layer (gnode g n))%Z; [|reflexivity].
      apply flat_map_map_comm. intros e He.
      assert (Le : e < length (g_ea g)) by (eapply (iso_in_lt H); eauto).
      rewrite viable_iso, (iso_e_from H) by auto. destruct (viable g e); reflexivity.
  Qed.

  Lemma bk_neigh_lt : forall vtop n p, In p (bk_neigh g vtop n) ->
    fst p < length (g_na g) /\ snd p < length (g_ea g).
  Proof.
    intros vtop n p K. unfold bk_neigh in K. cbv zeta in K. destruct vtop.
    - destruct (n_layer (gnode g n) <? Z.of_nat (length (g_L g)) - 1)%Z; [|destruct K].
      apply in_flat_map in K. destruct K as [e [He K]].
      assert (Le : e < length (g_ea g)) by (eapply (iso_out_lt H); eauto).
      destruct (viable g e); [|destruct K]. destruct K as [K|[]]. subst p. cbn [fst snd].
      split; auto. apply (iso_to_lt H); auto.
    - destruct (0 <? n_layer (gnode g n))%Z; [|destruct K].
      apply in_flat_map in K. destruct K as [e [He K]].
      assert (Le : e < length (g_ea g)) by (eapply (iso_in_lt H); eauto).
      destruct (viable g e); [|destruct K]. destruct K as [K|[]]. subst p. cbn [fst snd].
      split; auto. apply (iso_from_lt H); auto.
  Qed.

  (* ---------- 3. markConflicts ---------- *)
  Lemma incident_iso : forall n, incident_to_inner g' (sigma n) = incident_to_inner g n.
  Proof.
    intros n. unfold incident_to_inner. rewrite (iso_n_virt H). destruct (negb (n_virt (gnode g n))); [reflexivity|].
    rewrite (iso_n_in H).
    set (P := fun e => let f := e_from (gedge g e) in n_virt (gnode g f) && (layer_of g f =? layer_of g n - 1)%Z).
    rewrite (find_map_comm tau P).
    - destruct (find P (n_in (gnode g n))) as [e|] eqn:K; cbn [option_map]; [|reflexivity].
      apply find_some in K. destruct K as [K _].
      rewrite (iso_e_from H) by (eapply (iso_in_lt H); eauto). apply (iso_n_pos H).
    - intros e He. unfold P. cbv zeta.
      rewrite (iso_e_from H) by (eapply (iso_in_lt H); eauto).
      rewrite (iso_n_virt H), !(iso_layer_of H). reflexivity.
  Qed.

  Definition mrel (m m' : list nat) : Prop := m' = map tau m.

  Lemma mark_seg_iso : forall k0 k1 ws m,
    mark_seg g' k0 k1 (map sigma ws) (map tau m) = map tau (mark_seg g k0 k1 ws m).
  Proof.
    intros k0 k1 ws m. unfold mark_seg.
    apply (fold_left_rel (fun a b : list nat => b = map tau a) sigma); [reflexivity|].
    intros a b w _ ->. rewrite (iso_n_in H).
    apply (fold_left_rel (fun a b : list nat => b = map tau a) tau); [reflexivity|].
    intros a1 b1 e He ->.
    assert (Le : e < length (g_ea g)) by (eapply (iso_in_lt H); eauto).
    rewrite viable_iso, (iso_e_from H), (iso_n_pos H) by auto.
    destruct (viable g e); [|reflexivity]. cbv zeta.
    destruct ((n_pos (gnode g (e_from (gedge g e))) <? k0)%Z || (k1 <? n_pos (gnode g (e_from (gedge g e))))%Z); reflexivity.
  Qed.

  Lemma mark_layer_rel : forall upper upper' lower m, length upper' = length upper ->
    res_rel mrel (mark_layer g upper lower m) (mark_layer g' upper' (map sigma lower) (map tau m)).
  Proof.
    intros upper upper' lower m EU. unfold mark_layer.
    apply res_rel_bind with (R := fun (a b : Z * list nat) => fst b = fst a /\ snd b = map tau (snd a)).
    - rewrite map_length, combine_map_r.
      apply (fold_left_rel_res (fun p : nat * nat => (fst p, sigma (snd p)))).
      + apply rr_ok. split; reflexivity.
      + intros a b [l1 v] Hin Hab. cbn [fst snd].
        apply res_rel_bind with (R := fun (a b : Z * list nat) => fst b = fst a /\ snd b = map tau (snd a)); auto.
        intros [k0 m0] [k0' m0'] [E1 E2]. cbn [fst snd] in E1, E2. subst k0' m0'.
        rewrite incident_iso.
        assert (NE : lower <> []).
        { intros ->. apply in_combine_r in Hin. destruct Hin. }
        rewrite (last_map_ne sigma lower 0 0 NE), (eqb_inj Hs).
        destruct (Nat.eqb (last lower 0) v || (0 <=? incident_to_inner g v)%Z); [|apply rr_ok; split; reflexivity].
        apply res_rel_bind with (R := @eq Z).
        * destruct (0 <=? incident_to_inner g v)%Z.
          -- rewrite bk_neigh_iso. destruct (bk_neigh g false v) as [|[u e] t]; cbn [map pmap fst snd]; [apply rr_err|].
             apply rr_ok. symmetry. apply (iso_n_pos H).
          -- rewrite EU. apply rr_ok. reflexivity.
        * intros k1 k1' <-. apply rr_ok. cbn [fst snd]. split; [reflexivity|].
          rewrite firstn_map. apply mark_seg_iso.
    - intros r r' [_ E]. apply rr_ok. exact E.
  Qed.

  Lemma mark_conflicts_rel : res_rel mrel (mark_conflicts g) (mark_conflicts g').
  Proof.
    unfold mark_conflicts. cbv zeta. rewrite (iso_L_length H).
    destruct (Nat.ltb (length (g_L g)) 4); [apply rr_ok; reflexivity|].
    apply (fold_left_rel_same (res_rel mrel)); [apply rr_ok; reflexivity|].
    intros a b i _ Hab. apply res_rel_bind with (R := mrel); auto.
    intros m m' ->. rewrite !(iso_glayer H). cbn [l_nodes layer_map].
    apply mark_layer_rel. apply map_length.
  Qed.

  (* ---------- 4. tables of node indices: related, full length, values inside the arena ---------- *)
  Definition ntab_rel (t t' : list nat) : Prop :=
    auxn_rel sigma t t' /\ length t = length (g_na g) /\ (forall n, n < length (g_na g) -> nth n t 0 < length (g_na g)).

  Lemma ntab_nget : forall t t' n, ntab_rel t t' -> n < length (g_na g) -> nget t' (sigma n) = sigma (nget t n).
  Proof. intros t t' n (A & L & _) Ln. unfold nget. apply auxn_rel_nth; auto. lia. Qed.

  Lemma ntab_nget_lt : forall t t' n, ntab_rel t t' -> n < length (g_na g) -> nget t n < length (g_na g).
  Proof. intros t t' n (_ & _ & V) Ln. unfold nget. auto. Qed.

  Lemma ntab_set_nth : forall t t' n a, ntab_rel t t' -> a < length (g_na g) ->
    ntab_rel (set_nth t n a) (set_nth t' (sigma n) (sigma a)).
  Proof.
    intros t t' n a (A & L & V) La. split; [|split].
    - apply auxn_rel_set_nth; auto.
    - unfold set_nth. rewrite upd_length. exact L.
    - intros m Lm. unfold set_nth. rewrite nth_upd_full.
      destruct (Nat.eqb n m && Nat.ltb n (length t)); auto.
  Qed.

  Lemma ntab_iota : ntab_rel (iota 0 (length (g_na g))) (iota 0 (length (g_na g'))).
  Proof.
    split; [apply (auxn_rel_iota H)|]. split; [apply iota_length|].
    intros n Ln. rewrite iota_seq, seq_nth by auto. exact Ln.
  Qed.

  (* ---------- 5. verticalAlign ---------- *)
  Definition va_rel (s s' : list nat * list nat * option Z) : Prop :=
    ntab_rel (fst (fst s)) (fst (fst s')) /\ ntab_rel (snd (fst s)) (snd (fst s')) /\ snd s' = snd s.

  Lemma va_node_rel : forall marked vtop hleft st st' vk, vk < length (g_na g) -> va_rel st st' ->
    va_rel (va_node g marked vtop hleft st vk) (va_node g' (map tau marked) vtop hleft st' (sigma vk)).
  Proof.
    intros marked vtop hleft st st' vk Lvk Hst. unfold va_node. cbv zeta.
    rewrite bk_neigh_iso, map_length.
    destruct (Nat.eqb (length (bk_neigh g vtop vk)) 0) eqn:D; [exact Hst|].
    apply Nat.eqb_neq in D.
    apply (fold_left_rel_same va_rel); [exact Hst|].
    intros [[al rt] r] [[al' rt'] r'] m Hm (Ha & Hr & E). cbn [fst snd] in Ha, Hr, E. subst r'.
    rewrite (ntab_nget _ _ _ Ha Lvk), (eqb_inj Hs).
    destruct (Nat.eqb (nget al vk) vk); [|split; [|split]; auto].
    assert (Lm : m < length (bk_neigh g vtop vk)) by (eapply median_idx_lt; eauto).
    rewrite (nth_map_lt pmap (bk_neigh g vtop vk) (0, 0) (0, 0) Lm).
    destruct (nth m (bk_neigh g vtop vk) (0, 0)) as [u uv] eqn:En. cbn [pmap fst snd].
    assert (Lu : u < length (g_na g)).
    { assert (K : In (u, uv) (bk_neigh g vtop vk)) by (rewrite <- En; apply nth_In; exact Lm).
      apply bk_neigh_lt in K. apply K. }
    rewrite (mem_nat_map Ht), (iso_n_pos H).
    destruct (negb (mem_nat uv marked) && within_pos hleft r (n_pos (gnode g u))); [|split; [|split]; auto].
    rewrite (ntab_nget _ _ _ Hr Lu).
    assert (Hr2 : ntab_rel (set_nth rt vk (nget rt u)) (set_nth rt' (sigma vk) (sigma (nget rt u)))).
    { apply ntab_set_nth; auto. eapply ntab_nget_lt; eauto. }
    rewrite (ntab_nget _ _ _ Hr2 Lvk).
    split; [|split]; cbn [fst snd]; auto.
    apply ntab_set_nth; [apply ntab_set_nth; auto|]. eapply ntab_nget_lt; eauto.
  Qed.

  Lemma vertical_align_rel : forall marked vtop hleft,
    ntab_rel (fst (vertical_align g marked vtop hleft)) (fst (vertical_align g' (map tau marked) vtop hleft)) /\
    ntab_rel (snd (vertical_align g marked vtop hleft)) (snd (vertical_align g' (map tau marked) vtop hleft)).
  Proof.
    intros marked vtop hleft. unfold vertical_align. cbv zeta. rewrite iter_layers_iso.
    apply (fold_left_rel (fun (a b : list nat * list nat) => ntab_rel (fst a) (fst b) /\ ntab_rel (snd a) (snd b)) ilmap).
    - cbn [fst snd]. split; apply ntab_iota.
    - intros ar ar' l Hl [Ha Hr]. cbn [snd ilmap]. rewrite iter_nodes_map.
      assert (K : va_rel (fold_left (va_node g marked vtop hleft) (iter_nodes (snd l) hleft)
                                    (fst ar, snd ar, outermost_pos hleft))
                         (fold_left (va_node g' (map tau marked) vtop hleft) (map sigma (iter_nodes (snd l) hleft))
                                    (fst ar', snd ar', outermost_pos hleft))).
      { apply (fold_left_rel va_rel sigma).
        - split; [|split]; cbn [fst snd]; auto.
        - intros st st' n Hn Hst. apply va_node_rel; auto.
          eapply iter_layers_lt; eauto. eapply iter_nodes_in; eauto. }
      destruct (fold_left (va_node g marked vtop hleft) _ _) as [[al rt] r].
      destruct (fold_left (va_node g' (map tau marked) vtop hleft) _ _) as [[al' rt'] r'].
      destruct K as (K1 & K2 & _). cbn [fst snd] in *. auto.
  Qed.
  (* ---------- 6. horizontalCompaction: the state ---------- *)
  (* coordinate tables: related at corresponding indices, and absent ([None]) outside the image of sigma *)
  Definition xc_rel (xc xc' : list (option Q)) : Prop :=
    aux_rel sigma None xc xc' /\ (forall j x, nth j xc' None = Some x -> exists i, j = sigma i).

  Record c_rel (c c' : bkc) : Prop := mkCRel {
    cr_sinks : ntab_rel (bk_sinks c) (bk_sinks c');
    cr_xshift : aux_rel sigma (Some 0%Q) (bk_xshift c) (bk_xshift c');
    cr_xcoord : xc_rel (bk_xcoord c) (bk_xcoord c');
    cr_xcinit : aux_rel sigma false (bk_xcinit c) (bk_xcinit c') }.
  Arguments cr_sinks [c c'] _.
  Arguments cr_xshift [c c'] _.
  Arguments cr_xcoord [c c'] _.
  Arguments cr_xcinit [c c'] _.

  Lemma xget_iso : forall xc xc' n, xc_rel xc xc' -> xget xc' (sigma n) = xget xc n.
  Proof. intros xc xc' n [A _]. unfold xget. rewrite (aux_rel_nth n A). reflexivity. Qed.

  Lemma shget_iso : forall xs xs' n, aux_rel sigma (Some 0%Q) xs xs' -> shget xs' (sigma n) = shget xs n.
  Proof. intros xs xs' n A. unfold shget. apply (aux_rel_nth n A). Qed.

  Lemma xc_rel_set_nth : forall xc xc' n v, xc_rel xc xc' -> xc_rel (set_nth xc n v) (set_nth xc' (sigma n) v).
  Proof.
    intros xc xc' n v [A B]. split; [apply aux_rel_set_nth; auto|].
    intros j x. unfold set_nth. rewrite nth_upd_full.
    destruct (Nat.eqb (sigma n) j && Nat.ltb (sigma n) (length xc')) eqn:E; [|apply B].
    intros _. apply andb_prop in E. destruct E as [E _]. apply Nat.eqb_eq in E. exists n. auto.
  Qed.

  Lemma xc_rel_repeat : xc_rel (repeat None (length (g_na g))) (repeat None (length (g_na g'))).
  Proof.
    split; [apply (aux_rel_repeat H)|]. intros j x K. rewrite nth_repeat in K. discriminate.
  Qed.

  Lemma xc_rel_nil : xc_rel [] [].
  Proof.
    split.
    - split; [intros n; cbn; lia|]. intros n. destruct (sigma n), n; reflexivity.
    - intros j x K. destruct j; discriminate.
  Qed.

  Lemma c_rel_set_sinks : forall c c' l l', c_rel c c' -> ntab_rel l l' -> c_rel (set_sinks c l) (set_sinks c' l').
  Proof. intros c c' l l' [A B C D] K. constructor; auto. Qed.
  Lemma c_rel_set_xshift : forall c c' l l', c_rel c c' -> aux_rel sigma (Some 0%Q) l l' ->
    c_rel (set_xshift c l) (set_xshift c' l').
  Proof. intros c c' l l' [A B C D] K. constructor; auto. Qed.
  Lemma c_rel_set_xcoord : forall c c' l l', c_rel c c' -> xc_rel l l' -> c_rel (set_xcoord c l) (set_xcoord c' l').
  Proof. intros c c' l l' [A B C D] K. constructor; auto. Qed.

  Section Comp.
    Variables (hleft : bool) (spacing : Q) (al al' rt rt' : list nat).
    Hypothesis Hal : ntab_rel al al'.
    Hypothesis Hrt : ntab_rel rt rt'.

    Lemma pb_loop1_rel : forall (rec rec' : nat -> bkc -> res bkc),
      (forall v c c', v < length (g_na g) -> c_rel c c' -> res_rel c_rel (rec v c) (rec' (sigma v) c')) ->
      forall k k' v w c c', v < length (g_na g) -> w < length (g_na g) -> c_rel c c' ->
      res_rel c_rel (pb_loop1 g hleft spacing al rt rec k v w c)
                    (pb_loop1 g' hleft spacing al' rt' rec' k' (sigma v) (sigma w) c').
    Proof.
      intros rec rec' Hrec. induction k as [|k IH]; intros k' v w c c' Lv Lw Hc; [apply rr_fuel_l|].
      destruct k' as [|k']; [apply rr_fuel_r|].
      cbn [pb_loop1]. rewrite (iso_n_layer H).
      apply res_rel_bind with (R := lrel); [apply layer_at_rel|]. intros ns ns' Hns.
      apply res_rel_bind with (R := nrel); [apply last_in_rel; auto|]. intros lst lst' [-> Llst].
      apply res_rel_bind with (R := c_rel).
      - rewrite (eqb_inj Hs). destruct (Nat.eqb w lst); [apply rr_ok; auto|].
        apply res_rel_bind with (R := nrel); [apply next_in_rel; auto|]. intros u u' [-> Lu].
        rewrite (ntab_nget _ _ _ Hrt Lu).
        assert (Lur : nget rt u < length (g_na g)) by (eapply ntab_nget_lt; eauto).
        set (ur := nget rt u) in *.
        apply res_rel_bind with (R := c_rel); [apply Hrec; auto|]. intros c1 c1' Hc1.
        cbv zeta.
        rewrite (ntab_nget _ _ _ (cr_sinks Hc1) Lv), (ntab_nget _ _ _ (cr_sinks Hc1) Lur), (eqb_inj Hs).
        match goal with |- res_rel _ (if Nat.eqb (nget (bk_sinks ?a) v) _ then _ else _)
                                     (if Nat.eqb (nget (bk_sinks ?b) _) _ then _ else _) =>
          assert (Hc2 : c_rel a b); [|set (c2 := a) in *; set (c2' := b) in *] end.
        { destruct (Nat.eqb (nget (bk_sinks c1) v) v); auto.
          apply c_rel_set_sinks; auto. apply ntab_set_nth; [apply Hc1|]. eapply ntab_nget_lt; [apply Hc1|auto]. }
        rewrite (ntab_nget _ _ _ (cr_sinks Hc2) Lv), (ntab_nget _ _ _ (cr_sinks Hc2) Lur), (eqb_inj Hs).
        destruct (Nat.eqb (nget (bk_sinks c2) v) (nget (bk_sinks c2) ur)); [|apply rr_ok; auto].
        apply rr_ok. rewrite !(xget_iso _ _ _ (cr_xcoord Hc2)), !nW_iso.
        apply c_rel_set_xcoord; auto. apply xc_rel_set_nth. apply Hc2.
      - intros c3 c3' Hc3. cbv zeta. rewrite (ntab_nget _ _ _ Hal Lw), (eqb_inj Hs).
        destruct (Nat.eqb (nget al w) v); [apply rr_ok; auto|].
        apply IH; auto. eapply ntab_nget_lt; eauto.
    Qed.

    Lemma pb_loop2_rel : forall k k' v w c c', v < length (g_na g) -> w < length (g_na g) -> c_rel c c' ->
      res_rel c_rel (pb_loop2 al k v w c) (pb_loop2 al' k' (sigma v) (sigma w) c').
    Proof.
      induction k as [|k IH]; intros k' v w c c' Lv Lw Hc; [apply rr_fuel_l|].
      destruct k' as [|k']; [apply rr_fuel_r|].
      cbn [pb_loop2]. cbv zeta. rewrite (ntab_nget _ _ _ Hal Lw), (eqb_inj Hs).
      destruct (Nat.eqb (nget al w) v); [apply rr_ok; auto|].
      assert (Lw2 : nget al w < length (g_na g)) by (eapply ntab_nget_lt; eauto).
      apply IH; auto.
      rewrite (xget_iso _ _ _ (cr_xcoord Hc)).
      apply c_rel_set_sinks.
      - apply c_rel_set_xcoord; auto. apply xc_rel_set_nth. apply Hc.
      - cbn [bk_sinks set_xcoord]. rewrite (ntab_nget _ _ _ (cr_sinks Hc) Lv).
        apply ntab_set_nth; [apply Hc|]. eapply ntab_nget_lt; [apply Hc|auto].
    Qed.

    Lemma bk_place_block_rel : forall F F' fuel fuel' v c c', v < length (g_na g) -> c_rel c c' ->
      res_rel c_rel (bk_place_block g hleft spacing al rt F fuel v c)
                    (bk_place_block g' hleft spacing al' rt' F' fuel' (sigma v) c').
    Proof.
      intros F F'. induction fuel as [|fuel IH]; intros fuel' v c c' Lv Hc; [apply rr_fuel_l|].
      destruct fuel' as [|fuel']; [apply rr_fuel_r|].
      cbn [bk_place_block]. rewrite (aux_rel_nth v (cr_xcinit Hc)).
      destruct (nth v (bk_xcinit c) false); [apply rr_ok; auto|].
      cbv zeta. apply res_rel_bind with (R := c_rel).
      - apply pb_loop1_rel; auto.
        destruct Hc as [A B C D]. constructor; cbn [bk_sinks bk_xshift bk_xcoord bk_xcinit]; auto.
        + apply xc_rel_set_nth; auto.
        + apply aux_rel_set_nth; auto.
      - intros c1 c1' Hc1. apply pb_loop2_rel; auto.
    Qed.

    Definition csr_rel (r r' : nat * nat * bkc) : Prop :=
      nrel (fst (fst r)) (fst (fst r')) /\ snd (fst r') = snd (fst r) /\ c_rel (snd r) (snd r').

    Lemma cs_inner_rel : forall k k' v j c c', v < length (g_na g) -> c_rel c c' ->
      res_rel csr_rel (cs_inner g hleft spacing al rt k v j c) (cs_inner g' hleft spacing al' rt' k' (sigma v) j c').
    Proof.
      induction k as [|k IH]; intros k' v j c c' Lv Hc; [apply rr_fuel_l|].
      destruct k' as [|k']; [apply rr_fuel_r|].
      cbn [cs_inner]. rewrite (ntab_nget _ _ _ Hal Lv), (ntab_nget _ _ _ Hrt Lv), (eqb_inj Hs).
      destruct (Nat.eqb (nget al v) (nget rt v)).
      { apply rr_ok. split; [split; auto|]. split; auto. }
      cbv zeta.
      assert (Lv2 : nget al v < length (g_na g)) by (eapply ntab_nget_lt; eauto).
      set (v2 := nget al v) in *.
      rewrite (iso_n_layer H).
      apply res_rel_bind with (R := lrel); [apply layer_at_rel|]. intros ns ns' Hns.
      apply res_rel_bind with (R := nrel); [apply first_in_rel; auto|]. intros f0 f0' [-> Lf0].
      apply res_rel_bind with (R := c_rel); [|intros c1 c1' Hc1; apply IH; auto].
      rewrite (eqb_inj Hs). destruct (Nat.eqb v2 f0); [apply rr_ok; auto|].
      apply res_rel_bind with (R := nrel); [apply prev_in_rel; auto|]. intros u u' [-> Lu].
      apply rr_ok.
      rewrite (ntab_nget _ _ _ (cr_sinks Hc) Lv2), (ntab_nget _ _ _ (cr_sinks Hc) Lu).
      rewrite !(shget_iso _ _ _ (cr_xshift Hc)), !(xget_iso _ _ _ (cr_xcoord Hc)), !nW_iso.
      apply c_rel_set_xshift; auto. apply aux_rel_set_nth; auto. apply Hc.
    Qed.

    Lemma cs_outer_rel : forall F F' fuel fuel' j k c c', c_rel c c' ->
      res_rel c_rel (cs_outer g hleft spacing al rt F fuel j k c) (cs_outer g' hleft spacing al' rt' F' fuel' j k c').
    Proof.
      intros F F'. induction fuel as [|fuel IH]; intros fuel' j k c c' Hc; [apply rr_fuel_l|].
      destruct fuel' as [|fuel']; [apply rr_fuel_r|].
      cbn [cs_outer]. rewrite (iso_L_length H).
      destruct (Nat.ltb j (length (g_L g))) eqn:Lj; cbn [negb]; [|apply rr_ok; auto].
      apply Nat.ltb_lt in Lj. cbv zeta.
      rewrite (iso_glayer H). cbn [l_nodes layer_map]. rewrite map_length.
      destruct (negb (k <? Z.of_nat (length (l_nodes (glayer g j))))%Z); [apply rr_ok; auto|].
      apply res_rel_bind with (R := nrel).
      - apply node_at_rel. split; [reflexivity|]. intros n Hn.
        apply (iso_L_lt H (glayer g j)); auto. unfold glayer. apply nth_In. exact Lj.
      - intros v v' [-> Lv].
        apply res_rel_bind with (R := csr_rel); [apply cs_inner_rel; auto|].
        intros [[v1 j1] c1] [[v1' j1'] c1'] ([E1 L1] & E2 & Hc1). cbn [fst snd] in E1, L1, E2, Hc1. subst v1' j1'.
        rewrite (iso_n_pos H). apply IH; auto.
    Qed.

    Lemma cs_layer_rel : forall F F' c c' li ns ns', lrel ns ns' -> c_rel c c' ->
      res_rel c_rel (cs_layer g hleft spacing al rt F c li ns) (cs_layer g' hleft spacing al' rt' F' c' li ns').
    Proof.
      intros F F' c c' li ns ns' Hns Hc. unfold cs_layer.
      apply res_rel_bind with (R := nrel); [apply first_in_rel; auto|]. intros n n' [-> Ln].
      cbv zeta. rewrite (ntab_nget _ _ _ (cr_sinks Hc) Ln), (eqb_inj Hs).
      destruct (negb (Nat.eqb (nget (bk_sinks c) n) n)); [apply rr_ok; auto|].
      rewrite (shget_iso _ _ _ (cr_xshift Hc)).
      destruct (shget (bk_xshift c) (nget (bk_sinks c) n)); apply cs_outer_rel; auto.
      apply c_rel_set_xshift; auto. apply aux_rel_set_nth; auto. apply Hc.
    Qed.

    Lemma horizontal_compaction_rel : forall vtop,
      res_rel xc_rel (horizontal_compaction g spacing vtop hleft al rt)
                     (horizontal_compaction g' spacing vtop hleft al' rt').
    Proof.
      intros vtop. unfold horizontal_compaction. cbv zeta. rewrite iter_layers_iso.
      apply res_rel_bind with (R := c_rel).
      - apply (fold_left_rel_res ilmap).
        + apply rr_ok. constructor; cbn [bk_sinks bk_xshift bk_xcoord bk_xcinit].
          * apply ntab_iota.
          * rewrite (iso_N H). apply (fold_left_rel (aux_rel sigma (Some 0%Q)) sigma); [apply (aux_rel_repeat H)|].
            intros a b n _ Hab. apply aux_rel_set_nth; auto.
          * apply xc_rel_repeat.
          * apply (aux_rel_repeat H).
        + intros a b l Hl Hab. cbn [snd ilmap]. rewrite iter_nodes_map.
          apply (fold_left_rel_res sigma); auto.
          intros a1 b1 n Hn Hab1. apply res_rel_bind with (R := c_rel); auto. intros c c' Hc.
          assert (Ln : n < length (g_na g)).
          { eapply iter_layers_lt; eauto. eapply iter_nodes_in; eauto. }
          rewrite (ntab_nget _ _ _ Hrt Ln), (eqb_inj Hs).
          destruct (Nat.eqb (nget rt n) n); [apply bk_place_block_rel; auto|apply rr_ok; auto].
      - intros c c' Hc. apply res_rel_bind with (R := c_rel).
        + apply (fold_left_rel_res ilmap); [apply rr_ok; auto|].
          intros a b l Hl Hab. apply res_rel_bind with (R := c_rel); auto. intros c1 c1' Hc1.
          cbn [fst snd ilmap]. apply cs_layer_rel; auto.
          split; [reflexivity|]. intros n Hn. eapply iter_layers_lt; eauto.
        + intros c2 c2' Hc2. apply rr_ok. rewrite (iso_N H).
          apply (fold_left_rel xc_rel sigma); [apply Hc2|].
          intros xc xc' n Hn Hxc.
          assert (Ln : n < length (g_na g)) by (apply (iso_N_lt H); auto).
          rewrite (ntab_nget _ _ _ (cr_sinks Hc2) Ln), (shget_iso _ _ _ (cr_xshift Hc2)).
          destruct (shget (bk_xshift c2) (nget (bk_sinks c2) n)); auto.
          rewrite (xget_iso _ _ _ Hxc). apply xc_rel_set_nth; auto.
    Qed.
  End Comp.

  Lemma bk_layout_rel : forall marked spacing i,
    res_rel xc_rel (bk_layout g marked spacing i) (bk_layout g' (map tau marked) spacing i).
  Proof.
    intros marked spacing i. unfold bk_layout.
    destruct (vertical_align_rel marked (layout_v i) (layout_h i)) as [K1 K2].
    destruct (vertical_align g marked (layout_v i) (layout_h i)) as [al rt].
    destruct (vertical_align g' (map tau marked) (layout_v i) (layout_h i)) as [al' rt'].
    cbn [fst snd] in K1, K2. apply horizontal_compaction_rel; auto.
  Qed.

  (* ---------- 7. Size (the only place where the order of the arena matters) ---------- *)
  Definition size_step (g : graph) (acc : option (Q * Q)) (p : nat * Q) : option (Q * Q) :=
    let x := snd p in
    let r := (x + nW g (fst p))%Q in
    match acc with
    | None => Some (x, r)
    | Some (mn, mx) => Some (Qmin' mn x, Qmax' mx r)
    end.

  Lemma bk_size_present : forall g xc,
    bk_size g xc = match fold_left (size_step g) (present xc) None with
                   | Some (mn, mx) => Some ((mx - mn)%Q, mn, mx)
                   | None => None
                   end.
  Proof.
    intros g0 xc. unfold bk_size, present, present_from. cbv zeta. rewrite fold_left_flat_map.
    match goal with |- match ?a with _ => _ end = match ?b with _ => _ end => assert (E : a = b); [|rewrite E; reflexivity] end.
    apply fold_left_ext_in. intros acc [i [x|]] _; reflexivity.
  Qed.

  Hypothesis Hmono : smono sigma.

  Definition pmap1 (p : nat * Q) : nat * Q := (sigma (fst p), snd p).

  Lemma present_iso : forall xc xc', xc_rel xc xc' -> present xc' = map pmap1 (present xc).
  Proof.
    intros xc xc' [[AL AV] HO]. apply sorted_ext.
    - apply (present_from_sorted xc' 0).
    - assert (K : forall l, StronglySorted lt1 l -> StronglySorted lt1 (map pmap1 l)).
      { induction l as [|a l IH]; intros S; [constructor|]. inversion S as [|a0 l0 S' F]; subst.
        cbn [map]. constructor; [apply IH; auto|]. rewrite Forall_forall in *.
        intros p Hp. apply in_map_iff in Hp. destruct Hp as [q [<- Hq]]. apply F in Hq.
        unfold lt1, pmap1 in *. cbn [fst]. apply Hmono. exact Hq. }
      apply K. apply (present_from_sorted xc 0).
    - intros [j x]. rewrite in_present. split.
      + intros K. destruct (HO j x K) as [i ->]. rewrite AV in K.
        apply in_map_iff. exists (i, x). split; [reflexivity|]. apply in_present. exact K.
      + intros K. apply in_map_iff in K. destruct K as [[i y] [E K]]. unfold pmap1 in E. cbn [fst snd] in E.
        inversion E; subst. apply in_present in K. rewrite AV. exact K.
  Qed.

  Lemma bk_size_iso : forall xc xc', xc_rel xc xc' -> bk_size g' xc' = bk_size g xc.
  Proof.
    intros xc xc' Hxc. rewrite !bk_size_present, (present_iso _ _ Hxc).
    assert (E : fold_left (size_step g') (map pmap1 (present xc)) None = fold_left (size_step g) (present xc) None).
    { symmetry. apply (fold_left_rel (@eq (option (Q * Q))) pmap1); [reflexivity|].
      intros a b p _ <-. unfold size_step, pmap1. cbn [fst snd]. rewrite nW_iso. reflexivity. }
    rewrite E. reflexivity.
  Qed.

  Lemma bk_width_iso : forall xc xc', xc_rel xc xc' -> bk_width g' xc' = bk_width g xc.
  Proof. intros. unfold bk_width. rewrite (bk_size_iso _ _ H0). reflexivity. Qed.

  (* ---------- 8. balanceLayouts ---------- *)
  Definition bal_sizes (g : graph) (xcs : list (list (option Q))) : res (list (Q * Q * Q)) :=
    fold_right (fun xc acc => do l <- acc;
                              match bk_size g xc with Some s => Ok (s :: l) | None => Err (ErrIndex 90) end)
               (Ok []) xcs.

  Definition bal_shift (szs : list (Q * Q * Q)) (i : nat) : Q :=
    let sz i := nth i szs (0, 0, 0)%Q in
    let width i := fst (fst (sz i)) in
    let minx i := snd (fst (sz i)) in
    let maxx i := snd (sz i) in
    let least := fold_left (fun lw i => if Qlt_bool (width i) (width lw) then i else lw) (iota 0 4) 0%nat in
    if Nat.odd i then (minx least - minx i)%Q else (maxx least - maxx i)%Q.

  Definition bal_fold (xcs : list (list (option Q))) (shift : nat -> Q) (ns : list nat) (init : list (option Q)) :=
    fold_left (fun mx n =>
                 let xs := isort Qle_bool (map (fun i => (xget (nth i xcs []) n + shift i)%Q) (iota 0 4)) in
                 set_nth mx n (Some ((nth 1 xs 0 + nth 2 xs 0) / 2)%Q)) ns init.

  Lemma balance_layouts_eq : forall g xcs,
    balance_layouts g xcs =
    match g_N g with
    | [] => Ok (repeat None (length (g_na g)))
    | _ => do szs <- bal_sizes g xcs;
           Ok (bal_fold xcs (bal_shift szs) (g_N g) (repeat None (length (g_na g))))
    end.
  Proof. reflexivity. Qed.

  Lemma bal_sizes_iso : forall xcs xcs', Forall2 xc_rel xcs xcs' -> bal_sizes g' xcs' = bal_sizes g xcs.
  Proof.
    intros xcs xcs' HF. induction HF as [|xc xc' t t' Hx HF IH]; [reflexivity|].
    cbn [bal_sizes fold_right]. fold (bal_sizes g' t'). fold (bal_sizes g t). rewrite IH, (bk_size_iso _ _ Hx). reflexivity.
  Qed.

  Lemma bal_fold_rel : forall xcs xcs' shift ns init init', Forall2 xc_rel xcs xcs' -> xc_rel init init' ->
    xc_rel (bal_fold xcs shift ns init) (bal_fold xcs' shift (map sigma ns) init').
  Proof.
    intros xcs xcs' shift ns init init' HF Hi. unfold bal_fold.
    apply (fold_left_rel xc_rel sigma); auto.
    intros a b n _ Hab. cbv zeta.
    assert (E : map (fun i => (xget (nth i xcs' []) (sigma n) + shift i)%Q) (iota 0 4)
              = map (fun i => (xget (nth i xcs []) n + shift i)%Q) (iota 0 4)).
    { apply map_ext. intros i. rewrite (xget_iso (nth i xcs []) (nth i xcs' [])); [reflexivity|].
      apply Forall2_nth_rel; auto. apply xc_rel_nil. }
    rewrite E. apply xc_rel_set_nth; auto.
  Qed.

  Lemma balance_layouts_rel : forall xcs xcs', Forall2 xc_rel xcs xcs' ->
    res_rel xc_rel (balance_layouts g xcs) (balance_layouts g' xcs').
  Proof.
    intros xcs xcs' HF. rewrite !balance_layouts_eq, (bal_sizes_iso _ _ HF), (iso_N H).
    destruct (g_N g) as [|n0 t] eqn:EN.
    - apply rr_ok. apply xc_rel_repeat.
    - change (map sigma (n0 :: t)) with (sigma n0 :: map sigma t) at 1. cbv iota.
      destruct (bal_sizes g xcs) as [szs|e]; cbn [bind]; [|apply rr_err].
      apply rr_ok. apply bal_fold_rel; auto. apply xc_rel_repeat.
  Qed.

  (* ---------- 9. verifyLayout ---------- *)
  Lemma verify_layer_iso : forall spacing xc xc' ns, xc_rel xc xc' ->
    verify_layer g' spacing xc' (map sigma ns) = verify_layer g spacing xc ns.
  Proof.
    intros spacing xc xc' ns Hxc. unfold verify_layer.
    match goal with |- match ?a with _ => _ end = match ?b with _ => _ end => assert (E : b = a); [|rewrite E; reflexivity] end.
    apply (fold_left_rel (@eq (option (option Q))) sigma); [reflexivity|].
    intros a b n _ <-. rewrite !(xget_iso _ _ _ Hxc), nW_iso. reflexivity.
  Qed.

  Lemma verify_layout_iso : forall spacing xc xc', xc_rel xc xc' ->
    verify_layout g' spacing xc' = verify_layout g spacing xc.
  Proof.
    intros spacing xc xc' Hxc. unfold verify_layout. rewrite (iso_L H).
    apply forallb_map_comm. intros l _. cbn [l_nodes layer_map]. apply verify_layer_iso; auto.
  Qed.

  (* ---------- 10. the choice of the final layout ---------- *)
  Lemma bk_pick_rel : forall spacing bal bal' xcs xcs', xc_rel bal bal' -> Forall2 xc_rel xcs xcs' ->
    xc_rel (BKProofs.bk_pick g spacing bal xcs) (BKProofs.bk_pick g' spacing bal' xcs').
  Proof.
    intros spacing bal bal' xcs xcs' Hb HF. unfold BKProofs.bk_pick.
    match goal with |- xc_rel (snd ?a) (snd ?b) => assert (K : fst b = fst a /\ xc_rel (snd a) (snd b)); [|apply K] end.
    apply fold_left_rel2 with (R := fun (a b : option Q * list (option Q)) => fst b = fst a /\ xc_rel (snd a) (snd b)) (S := xc_rel); auto.
    - cbn [fst snd]. split; auto. apply bk_width_iso; auto.
    - intros [w x] [w' x'] y y' [E Hx] Hy. cbn [fst snd] in E, Hx. subst w'.
      rewrite (verify_layout_iso _ _ _ Hy). destruct (verify_layout g spacing y); [|split; auto].
      cbv zeta. cbn [fst]. rewrite (bk_width_iso _ _ Hy). destruct (wlt (bk_width g y) w); split; auto.
  Qed.

  Lemma bk_final_rel : forall variant spacing xcs xcs', Forall2 xc_rel xcs xcs' ->
    res_rel xc_rel (BKProofs.bk_final variant spacing g xcs) (BKProofs.bk_final variant spacing g' xcs').
  Proof.
    intros variant spacing xcs xcs' HF. unfold BKProofs.bk_final.
    destruct ((0 <=? variant)%Z && (variant <? 4)%Z).
    - apply rr_ok. apply Forall2_nth_rel; auto. apply xc_rel_nil.
    - apply res_rel_bind with (R := xc_rel); [apply balance_layouts_rel; auto|].
      intros bal bal' Hb. rewrite (verify_layout_iso _ _ _ Hb).
      destruct (verify_layout g spacing bal); apply rr_ok; auto. apply bk_pick_rel; auto.
  Qed.
End BKRead.

(* ====================================================================================================== *)
(* B. the final assignment and the driver                                                                   *)
(* ====================================================================================================== *)
Section BKAssign.
  Variables sigma tau : nat -> nat.

  Lemma bk_setx_iso : forall g g' final final', iso sigma tau g g' -> xc_rel sigma final final' ->
    iso sigma tau (BKProofs.bk_setx g final) (BKProofs.bk_setx g' final').
  Proof.
    intros g g' final final' H Hf. unfold BKProofs.bk_setx. rewrite (iso_L H), RenumberSink.flat_nodes_iso.
    apply (fold_left_rel (iso sigma tau) sigma); auto.
    intros a b n _ Hab. rewrite (xget_iso sigma _ _ n Hf). apply iso_set_x; auto.
  Qed.

  Lemma bk_lmargin_iso : forall g g' final final', iso sigma tau g g' -> xc_rel sigma final final' ->
    BKProofs.bk_lmargin g' final' = BKProofs.bk_lmargin g final.
  Proof.
    intros g g' final final' H Hf. unfold BKProofs.bk_lmargin. rewrite (iso_L H), RenumberSink.flat_nodes_iso.
    symmetry. apply (fold_left_rel (@eq Q) sigma); [reflexivity|].
    intros a b n _ <-. rewrite (xget_iso sigma _ _ n Hf). reflexivity.
  Qed.

  Lemma bk_seth_iso : forall g g', iso sigma tau g g' -> iso sigma tau (BKProofs.bk_seth g) (BKProofs.bk_seth g').
  Proof. intros g g' H. unfold BKProofs.bk_seth. apply RenumberPhase4.relayer_h_iso. exact H. Qed.

  Lemma bk_norm_iso : forall m g g', iso sigma tau g g' -> iso sigma tau (BKProofs.bk_norm m g) (BKProofs.bk_norm m g').
  Proof.
    intros m g g' H. unfold BKProofs.bk_norm. destruct (Qlt_bool m 0); [|exact H].
    rewrite (iso_N H). apply (fold_left_rel (iso sigma tau) sigma); auto.
    intros a b n _ Hab. apply iso_move_x with (k := fun x => (x + - m)%Q). exact Hab.
  Qed.

  Lemma bk_adjust_iso : forall spacing g g', iso sigma tau g g' ->
    iso sigma tau (BKProofs.bk_adjust spacing g) (BKProofs.bk_adjust spacing g').
  Proof.
    intros spacing g g' H. unfold BKProofs.bk_adjust. rewrite (iso_L H).
    apply (fold_left_rel (iso sigma tau) (layer_map sigma)); auto.
    intros a b l _ Hab. cbn [l_nodes layer_map].
    match goal with |- iso _ _ (fst ?x) (fst ?y) =>
      assert (K : iso sigma tau (fst x) (fst y) /\ snd y = option_map sigma (snd x)); [|apply K] end.
    apply (fold_left_rel (fun (x y : graph * option nat) => iso sigma tau (fst x) (fst y) /\ snd y = option_map sigma (snd x)) sigma).
    - cbn [fst snd option_map]. auto.
    - intros [a1 p] [b1 p'] w _ [H1 E]. cbn [fst snd] in H1, E. subst p'.
      unfold BKProofs.bk_adjust_step. destruct p as [v|]; cbn [option_map]; [|cbn [fst snd option_map]; auto].
      cbv zeta. rewrite !(RenumberPhase4.nX_iso sigma tau _ _ _ H1), (RenumberPhase4.nW_iso sigma tau _ _ _ H1).
      destruct (Qlt_bool (nX a1 v) (nX a1 w) && Qlt_bool (nX a1 w) (nX a1 v + nW a1 v)); cbn [fst snd option_map]; split; auto.
      apply iso_set_x; auto.
  Qed.

  Lemma bk_assign_iso : forall spacing g g' final final', iso sigma tau g g' -> xc_rel sigma final final' ->
    iso sigma tau (BKProofs.bk_assign spacing g final) (BKProofs.bk_assign spacing g' final').
  Proof.
    intros spacing g g' final final' H Hf. unfold BKProofs.bk_assign.
    rewrite (bk_lmargin_iso _ _ _ _ H Hf).
    apply bk_adjust_iso. apply bk_norm_iso. apply bk_seth_iso. apply bk_setx_iso; auto.
  Qed.

  (* the forced layouts (BrandesKoepfLayout = 0..3) never call Size: equivariant for EVERY injective renumbering *)
  Theorem exec_bk_iso_forced : forall variant s g g', (0 <= variant < 4)%Z -> iso sigma tau g g' ->
    res_rel (iso sigma tau) (exec_bk variant s g) (exec_bk variant s g').
  Proof.
    intros variant s g g' V H. rewrite !BKProofs.exec_bk_eq.
    pose proof (iso_L H) as EL.
    destruct (g_L g) as [|l0 ls] eqn:EL0; destruct (g_L g') as [|l0' ls'] eqn:EL0'; try discriminate EL.
    - apply rr_ok. exact H.
    - apply res_rel_bind with (R := mrel tau); [apply mark_conflicts_rel with (sigma := sigma); exact H|].
      intros marked marked' ->.
      apply res_rel_bind with (R := xc_rel sigma); [apply bk_layout_rel; exact H|]. intros x0 x0' H0.
      apply res_rel_bind with (R := xc_rel sigma); [apply bk_layout_rel; exact H|]. intros x1 x1' H1.
      apply res_rel_bind with (R := xc_rel sigma); [apply bk_layout_rel; exact H|]. intros x2 x2' H2.
      apply res_rel_bind with (R := xc_rel sigma); [apply bk_layout_rel; exact H|]. intros x3 x3' H3.
      apply res_rel_bind with (R := xc_rel sigma).
      + unfold BKProofs.bk_final.
        assert (E : ((0 <=? variant)%Z && (variant <? 4)%Z) = true).
        { apply andb_true_intro. split; [apply Z.leb_le|apply Z.ltb_lt]; lia. }
        rewrite E. apply rr_ok. apply Forall2_nth_rel; [|apply xc_rel_nil]. repeat (apply Forall2_cons; [assumption|]). apply Forall2_nil.
      + intros final final' Hf. apply rr_ok. apply bk_assign_iso; auto.
  Qed.

  Theorem phase4_bk_iso_forced : forall variant p g g', (0 <= variant < 4)%Z -> iso sigma tau g g' ->
    res_rel (iso sigma tau) (phase4_bk variant p g) (phase4_bk variant p g').
  Proof.
    intros variant p g g' V H. unfold phase4_bk. rewrite (iso_N_length H).
    destruct (Nat.eqb (length (g_N g)) 1).
    - apply RenumberPhase4.phase4_iso_gen; auto.
      intros sp a a' Ha. apply RenumberSink.exec_sink_coloring_iso. exact Ha.
    - apply res_rel_bind with (R := iso sigma tau); [apply exec_bk_iso_forced; auto|].
      intros a a' Ha. apply rr_ok. apply RenumberPhase4.assign_y_iso. exact Ha.
  Qed.

  Hypothesis Hmono : smono sigma.

  (* ---------- MAIN 1 ----------
     Requested statement (task): forall variant s g g', iso sigma tau g g' ->
                                   res_rel (iso sigma tau) (exec_bk variant s g) (exec_bk variant s g').
     It is FALSE for the balanced layout when sigma does not keep the arena order (counterexample evaluated by
     vm_compute: [exec_bk_iso_needs_order], RenumberBK2.v). Proved here: the same statement under the explicit side
     condition [smono sigma] (which holds for the renumbering of a component, [component_sigma_smono]), and above,
     without any side condition, for the forced layouts ([exec_bk_iso_forced]). *)
  Theorem exec_bk_iso : forall variant s g g', iso sigma tau g g' ->
    res_rel (iso sigma tau) (exec_bk variant s g) (exec_bk variant s g').
  Proof.
    intros variant s g g' H. rewrite !BKProofs.exec_bk_eq.
    pose proof (iso_L H) as EL.
    destruct (g_L g) as [|l0 ls] eqn:EL0; destruct (g_L g') as [|l0' ls'] eqn:EL0'; try discriminate EL.
    - apply rr_ok. exact H.
    - apply res_rel_bind with (R := mrel tau); [apply mark_conflicts_rel with (sigma := sigma); exact H|].
      intros marked marked' ->.
      apply res_rel_bind with (R := xc_rel sigma); [apply bk_layout_rel; exact H|]. intros x0 x0' H0.
      apply res_rel_bind with (R := xc_rel sigma); [apply bk_layout_rel; exact H|]. intros x1 x1' H1.
      apply res_rel_bind with (R := xc_rel sigma); [apply bk_layout_rel; exact H|]. intros x2 x2' H2.
      apply res_rel_bind with (R := xc_rel sigma); [apply bk_layout_rel; exact H|]. intros x3 x3' H3.
      apply res_rel_bind with (R := xc_rel sigma).
      + apply bk_final_rel with (tau := tau); auto.
      + intros final final' Hf. apply rr_ok. apply bk_assign_iso; auto.
  Qed.

  Theorem phase4_bk_iso : forall variant p g g', iso sigma tau g g' ->
    res_rel (iso sigma tau) (phase4_bk variant p g) (phase4_bk variant p g').
  Proof.
    intros variant p g g' H. unfold phase4_bk. rewrite (iso_N_length H).
    destruct (Nat.eqb (length (g_N g)) 1).
    - apply RenumberPhase4.phase4_iso_gen; auto.
      intros sp a a' Ha. apply RenumberSink.exec_sink_coloring_iso. exact Ha.
    - apply res_rel_bind with (R := iso sigma tau); [apply exec_bk_iso; exact H|].
      intros a a' Ha. apply rr_ok. apply RenumberPhase4.assign_y_iso. exact Ha.
  Qed.
End BKAssign.

Print Assumptions exec_bk_iso.
Print Assumptions exec_bk_iso_forced.
Print Assumptions phase4_bk_iso_forced.
Print Assumptions phase4_bk_iso.

(* ====================================================================================================== *)
(* C. order-preserving renumberings exist: the position maps [mk_map] of increasing lists                   *)
(* ====================================================================================================== *)
Lemma sorted_nth_lt : forall l i j, StronglySorted lt l -> i < j -> j < length l -> nth i l 0 < nth j l 0.
Proof.
  induction l as [|x t IH]; intros i j S Lij Lj; [cbn in Lj; lia|].
  inversion S as [|x0 t0 S' F]; subst. rewrite Forall_forall in F.
  destruct j as [|j]; [lia|]. cbn [length] in Lj.
  destruct i as [|i].
  - cbn [nth]. apply F. apply nth_In. lia.
  - cbn [nth]. apply IH; auto; lia.
Qed.

Lemma sorted_filter : forall (p : nat -> bool) l, StronglySorted lt l -> StronglySorted lt (filter p l).
Proof.
  induction l as [|x t IH]; intros S; [constructor|].
  inversion S as [|x0 t0 S' F]; subst. cbn [filter]. destruct (p x); auto.
  constructor; auto. rewrite Forall_forall in *. intros y Hy. apply filter_In in Hy. apply F. apply Hy.
Qed.

Lemma sorted_iota : forall n s, StronglySorted lt (iota s n).
Proof.
  induction n as [|n IH]; intros s; cbn [iota]; constructor; auto.
  rewrite Forall_forall. intros y Hy. apply in_iota in Hy. lia.
Qed.

Lemma mk_map_smono : forall l A, StronglySorted lt l -> (forall x, In x l -> x < A) -> smono (mk_map l A).
Proof.
  intros l A S R a b Lab. unfold mk_map.
  destruct (Nat.ltb a (length l)) eqn:La; destruct (Nat.ltb b (length l)) eqn:Lb.
  - apply Nat.ltb_lt in Lb. apply sorted_nth_lt; auto.
  - apply Nat.ltb_lt in La. assert (nth a l 0 < A) by (apply R; apply nth_In; auto). lia.
  - apply Nat.ltb_ge in La. apply Nat.ltb_lt in Lb. lia.
  - apply Nat.ltb_ge in La. apply Nat.ltb_ge in Lb. lia.
Qed.


(* ====================================================================================================== *)
(* Examples: the hypotheses of exec_bk_iso / phase4_bk_iso are satisfiable (instance of RenumberExample.v: the  *)
(* second component of a 2-component union, interleaved in the arenas, against the same component alone)    *)
(* ====================================================================================================== *)
Lemma rx_sigma_smono : smono rx_sigma.
Proof.
  apply mk_map_smono.
  - replace (g_N rx_comp) with [2;3;5;6;7] by reflexivity.
    repeat (apply SSorted_cons; [|rewrite Forall_forall; intros y Hy; cbn in Hy; lia]). apply SSorted_nil.
  - intros x Hx. vm_compute in Hx. list_in_cases Hx; vm_compute; lia.
Qed.


(* the two graphs after phases 1-3 (cycle breaking, layering, ordering with virtual nodes) *)
Definition rxb_p3 (g : graph) : res graph :=
  let '(g, _) := ignore_self_loops g in
  do g <- phase1 DepthFirst g;
  do g <- phase2 NetworkSimplex (mkNsParams 3 0 1) g;
  do r <- phase3_wmedian wmedian_max_iter g;
  Ok (fst r).

Definition rxb_g3 : graph := Eval vm_compute in match rxb_p3 rx_sole with Ok r => r | Err _ => rx_sole end.
Definition rxb_g3' : graph := Eval vm_compute in match rxb_p3 rx_comp with Ok r => r | Err _ => rx_comp end.

Example rxb_iso3 : iso rx_sigma rx_tau rxb_g3 rxb_g3' /\ smono rx_sigma /\
  length (g_na rx_sole) < length (g_na rxb_g3) /\ 1 < length (g_L rxb_g3).
Proof.
  split; [|split; [exact rx_sigma_smono|split; vm_compute; lia]].
  apply isob_sound.
  - exact rx_sigma_inj.
  - exact rx_tau_inj.
  - intros k. change (length (g_na rxb_g3) + k) with (length (g_N rx_comp) + (7 + k)).
    unfold rx_sigma. rewrite mk_map_fresh. vm_compute. reflexivity.
  - intros k. change (length (g_ea rxb_g3) + k) with (length (g_E rx_comp) + (7 + k)).
    unfold rx_tau. rewrite mk_map_fresh. vm_compute. reflexivity.
  - vm_compute. reflexivity.
Qed.

(* exec_bk / phase4_bk on this pair, every variant: both succeed, the results are isomorphic (by computation) *)
Definition rxb_bk_check (variant : Z) : bool :=
  match exec_bk variant 20 rxb_g3, exec_bk variant 20 rxb_g3',
        phase4_bk variant (mkP4 20 40 3 2) rxb_g3, phase4_bk variant (mkP4 20 40 3 2) rxb_g3' with
  | Ok r, Ok r', Ok q, Ok q' => isob rx_sigma rx_tau r r' && isob rx_sigma rx_tau q q'
  | _, _, _, _ => false
  end.

Example rxb_bk_checked : forallb rxb_bk_check [-1; 0; 1; 2; 3; 7]%Z = true.
Proof. vm_compute. reflexivity. Qed.

(* and this is what exec_bk_iso predicts *)
Example rxb_bk_by_theorem : forall variant r r',
  exec_bk variant 20 rxb_g3 = Ok r -> exec_bk variant 20 rxb_g3' = Ok r' -> iso rx_sigma rx_tau r r'.
Proof.
  intros variant r r' E E'.
  pose proof (exec_bk_iso rx_sigma rx_tau rx_sigma_smono variant 20 rxb_g3 rxb_g3' (proj1 rxb_iso3)) as K.
  rewrite E, E' in K. apply res_rel_ok_inv in K. exact K.
Qed.
