(* RenumberBK2.v — C09 with the Brandes-Koepf positioner: the per-component pipeline [layout_component_x] and
   [layout_x] (Model/PipelineBK.v) are equivariant under renumbering of arena indices, and every connected
   component receives exactly the layout it would receive as the sole input, translated horizontally.

   The Brandes-Koepf step (Proofs/RenumberBK.v) needs the renumbering to be ORDER PRESERVING ([smono sigma]):
   xcoordinates.Size folds min / max over the whole coordinate table in arena order. The renumbering between a
   component populated alone and the same component inside a larger input is order preserving
   ([component_sigma_smono]): the node list of a component is an increasing sub-list of 0..n-1, and the nodes
   allocated later (virtual nodes) are appended after everything else on both sides. *)
From Autog Require Import Base Graph Populate Phase1 Phase2 Phase3 Phase4 Phase5 Layout Pipeline Check BK PipelineBK.
From Coq Require Import Sorted.
From Autog.Proofs Require Import ListLemmas Consistent PopulateProofs SizesProofs ComponentsProofs
     RenumberBase RenumberPopulate RenumberCollect RenumberCheck RenumberPipeline RenumberComponent RenumberFinal
     Shift RenumberExample RenumberBK.
From Autog.Proofs Require RenumberLen12 RenumberLen345 BKProofs.
Local Open Scope nat_scope.

(* ---------- the edge arena keeps its length through the Brandes-Koepf phase 4 ---------- *)
Lemma phase4_bk_ea_length : forall bk p g r, phase4_bk bk p g = Ok r -> length (g_ea r) = length (g_ea g).
Proof.
  intros bk p g r K. unfold phase4_bk in K. destruct (Nat.eqb (length (g_N g)) 1).
  - eapply RenumberLen345.phase4_ea_length; eauto.
  - destruct (exec_bk bk (node_spacing p) g) as [g1|e] eqn:E; cbn [bind] in K; [|discriminate].
    inversion K. rewrite RenumberLen345.assign_y_ea.
    rewrite (BKProofs.bf_ea _ _ (BKProofs.exec_bk_frame _ _ _ _ E)). reflexivity.
Qed.

Lemma phase4x_ea_length : forall bk alg p g r, phase4x bk alg p g = Ok r -> length (g_ea r) = length (g_ea g).
Proof.
  intros bk alg p g r K. unfold phase4x in K.
  destruct alg; try (eapply RenumberLen345.phase4_ea_length; eauto; fail).
  eapply phase4_bk_ea_length; eauto.
Qed.

(* ---------- the pipeline ---------- *)
Section ComponentX.
  Variables sigma tau : nat -> nat.
  Hypothesis Hmono : smono sigma.

  Theorem phase4x_iso : forall bk alg p g g', iso sigma tau g g' ->
    res_rel (iso sigma tau) (phase4x bk alg p g) (phase4x bk alg p g').
  Proof.
    intros bk alg p g g' H. unfold phase4x.
    destruct alg; try (apply phase4_iso; exact H).
    apply phase4_bk_iso; auto.
  Qed.

  Theorem layout_component_x_iso : forall bk o g g', iso sigma tau g g' ->
    res_rel (@gx_rel sigma tau (option Z)) (layout_component_x bk o g) (layout_component_x bk o g').
  Proof.
    intros bk o g g' H. unfold layout_component_x.
    destruct (ignore_self_loops_iso H) as [H0 [Hdel Hlt]].
    destruct (ignore_self_loops g) as [g0 del] eqn:E0. destruct (ignore_self_loops g') as [g0' del'] eqn:E0'.
    cbn [fst snd] in H0, Hdel, Hlt. subst del'.
    eapply res_rel_bind_eq with (R := iso sigma tau); [apply phase1_iso; exact H0|].
    intros g1 g1' E1 _ H1. apply RenumberLen12.phase1_ea_length in E1.
    eapply res_rel_bind_eq with (R := iso sigma tau); [apply phase2_iso; exact H1|].
    intros g2 g2' E2 _ H2. apply RenumberLen12.phase2_ea_length in E2.
    eapply res_rel_bind_eq with (R := @gx_rel sigma tau (option Z)); [apply phase3_wmedian_iso; exact H2|].
    intros [g3 x] [g3' x'] E3 _ [H3 Ex]. cbn [fst snd] in H3, Ex. subst x'.
    apply RenumberLen345.phase3_wmedian_ea_le in E3. cbn [fst] in E3.
    eapply res_rel_bind_eq with (R := iso sigma tau); [apply phase4x_iso; exact H3|].
    intros g4 g4' E4 _ H4. apply phase4x_ea_length in E4.
    eapply res_rel_bind_eq with (R := iso sigma tau); [apply phase5_iso; exact H4|].
    intros g5 g5' E5 _ H5. apply RenumberLen345.phase5_ea_length in E5.
    constructor. split; cbn [fst snd]; auto.
    apply post_process_iso; auto.
    intros e He. specialize (Hlt e He). lia.
  Qed.

  Corollary layout_component_x_iso_ok : forall bk o g g' r x r' x', iso sigma tau g g' ->
    layout_component_x bk o g = Ok (r, x) -> layout_component_x bk o g' = Ok (r', x') ->
    iso sigma tau r r' /\ x' = x.
  Proof.
    intros bk o g g' r x r' x' H E E'. pose proof (layout_component_x_iso bk o g g' H) as K.
    rewrite E, E' in K. apply res_rel_ok_inv in K. destruct K as [K1 K2]. cbn [fst snd] in K1, K2. auto.
  Qed.

  Corollary layout_component_x_output_iso : forall bk o g g' r x r' x' shift, iso sigma tau g g' ->
    layout_component_x bk o g = Ok (r, x) -> layout_component_x bk o g' = Ok (r', x') ->
    collect_nodes (o_virtual o) shift r' = map (rename_onode sigma) (collect_nodes (o_virtual o) shift r) /\
    collect_edges shift r' = map (rename_oedge sigma) (collect_edges shift r) /\
    rightmost r' = rightmost r /\ x' = x.
  Proof.
    intros bk o g g' r x r' x' shift H E E'.
    destruct (layout_component_x_iso_ok bk o g g' r x r' x' H E E') as [K1 K2].
    split; [apply (collect_nodes_iso _ _ K1)|]. split; [apply (collect_edges_iso _ K1)|].
    split; [apply (rightmost_iso K1)|exact K2].
  Qed.
End ComponentX.

Print Assumptions phase4x_iso.
Print Assumptions layout_component_x_iso.
Print Assumptions layout_component_x_output_iso.

Section FinalX.
  Variable A : Type.
  Variable eqA : A -> A -> bool.
  Hypothesis eqA_ok : forall x y, eqA x y = true <-> x = y.

  Lemma component_sigma_smono : forall fixed sizes es ids g0 c,
    populate A eqA es = Ok (ids, g0) ->
    In c (components (apply_sizes A eqA fixed sizes ids g0)) ->
    smono (mk_map (g_N c) (length (g_na (apply_sizes A eqA fixed sizes ids g0)))).
  Proof.
    intros fixed sizes es ids g0 c HP Hc.
    set (g := apply_sizes A eqA fixed sizes ids g0) in *.
    pose proof (populate_wf eqA eqA_ok es HP) as P.
    assert (Cg : consistent g) by apply (sized_consistent eqA fixed sizes P).
    pose proof (components_partition g Cg) as CP. cbv zeta in CP.
    destruct CP as [_ [SN _]]. specialize (SN c Hc).
    assert (GN : g_N g = iota 0 (length ids)) by (unfold g; rewrite sized_N; apply (p_N P)).
    apply mk_map_smono.
    - rewrite SN, GN. apply sorted_filter. apply sorted_iota.
    - intros x Hx. rewrite SN in Hx. apply filter_In in Hx. apply (c_N_lt _ Cg). apply Hx.
  Qed.

  (* ---------- layout_components_x is collect_all over the laid-out components ---------- *)
  Lemma layout_components_x_collect_all : forall bk o cs s0 ns es xs,
    layout_components_x bk o cs s0 = Ok (ns, es, xs) ->
    exists gs, Forall2 (fun c g => exists x, layout_component_x bk o c = Ok (g, x)) cs gs /\
               collect_all o gs s0 = (ns, es).
  Proof.
    intros bk o cs; induction cs as [|c rest IH]; intros s0 ns es xs K.
    - cbn in K. injection K as <- <- <-. exists []. split; [constructor|reflexivity].
    - cbn [layout_components_x] in K.
      destruct (layout_component_x bk o c) as [[g x]|e] eqn:Ec; cbn [bind] in K; [|discriminate].
      destruct (layout_components_x bk o rest (s0 + rightmost g + o_node_spacing o)%Q) as [[[ns' es'] xs']|e] eqn:Er;
        cbn [bind] in K; [|discriminate].
      injection K as <- <- <-.
      destruct (IH _ _ _ _ Er) as (gs & HF & HC).
      exists (g :: gs). split; [constructor; [exists x; exact Ec|exact HF]|].
      cbn [collect_all]. rewrite HC. reflexivity.
  Qed.

  Lemma layout_x_single : forall bk o fixed sizes es1 ids1 g10 c1 ns1 eo1 xs1,
    populate A eqA es1 = Ok (ids1, g10) ->
    components (apply_sizes A eqA fixed sizes ids1 g10) = [c1] ->
    layout_x A eqA bk o fixed sizes es1 = Ok (ids1, (ns1, eo1, xs1)) ->
    exists g1r x1, layout_component_x bk o c1 = Ok (g1r, x1) /\
      ns1 = collect_nodes (o_virtual o) 0 g1r /\ eo1 = collect_edges 0 g1r /\
      xs1 = match x1 with Some v => [v] | None => [] end.
  Proof.
    intros bk o fixed sizes es1 ids1 g10 c1 ns1 eo1 xs1 P C L.
    unfold layout_x in L. rewrite P in L. cbn [bind] in L.
    destruct ids1 as [|i0 it]; [discriminate|].
    rewrite C in L. cbn [layout_components_x] in L.
    destruct (layout_component_x bk o c1) as [[g1r x1]|e]; cbn [bind] in L; [|discriminate].
    injection L as <- <- <-. exists g1r, x1. rewrite !app_nil_r. repeat split; auto.
  Qed.

  (* ---------- MAIN 3 ---------- *)
  Theorem component_layout_x_is_sole_layout_translated :
    forall bk o fixed sizes es ids g0 ns eo xs k c,
    populate A eqA es = Ok (ids, g0) ->
    layout_x A eqA bk o fixed sizes es = Ok (ids, (ns, eo, xs)) ->
    nth_error (components (apply_sizes A eqA fixed sizes ids g0)) k = Some c ->
    forall ids1 ns1 eo1 xs1,
    layout_x A eqA bk o fixed sizes (map (fun i => nth i es []) (g_E c)) = Ok (ids1, (ns1, eo1, xs1)) ->
    exists gs sigma,
      inj sigma /\ smono sigma /\
      (* the union's output is the concatenation of the per-component outputs (Shift.v) *)
      collect_all o gs 0 = (ns, eo) /\
      Forall2 (fun c g => exists x, layout_component_x bk o c = Ok (g, x))
              (components (apply_sizes A eqA fixed sizes ids g0)) gs /\
      (* component k's records are the sole layout's records, renamed and translated by shift_k *)
      Forall2 (onode_shifted sigma (shift_at o gs 0 k)) ns1 (comp_nodes o gs 0 k) /\
      Forall2 (oedge_shifted sigma (shift_at o gs 0 k)) eo1 (comp_edges o gs 0 k) /\
      (* and the reported crossing number is the same *)
      (exists x, layout_component_x bk o c = Ok (nth k gs graph0, x) /\
                 xs1 = match x with Some v => [v] | None => [] end).
  Proof.
    intros bk o fixed sizes es ids g0 ns eo xs k c P L Hk ids1 ns1 eo1 xs1 L1.
    set (g := apply_sizes A eqA fixed sizes ids g0) in *.
    assert (Hc : In c (components g)) by (eapply nth_error_In; eauto).
    destruct (@component_iso_sole A eqA eqA_ok fixed sizes es ids g0 c P Hc)
      as [ids1' [g10 [c1 [P1 [Hne [C1 Hiso]]]]]].
    pose proof (component_sigma_smono fixed sizes es ids g0 c P Hc) as Hmono.
    fold g in Hiso, Hmono.
    (* the sole run *)
    assert (Eids : ids1' = ids1).
    { unfold layout_x in L1. rewrite P1 in L1. cbn [bind] in L1. destruct ids1' as [|i0 it]; [discriminate|].
      destruct (layout_components_x bk o _ 0) as [r|e]; cbn [bind] in L1; [|discriminate]. injection L1 as E _. exact E. }
    subst ids1'.
    destruct (layout_x_single bk o fixed sizes _ ids1 g10 c1 ns1 eo1 xs1 P1 C1 L1) as [g1r [x1 [E1 [En [Ee Ex]]]]].
    (* the union run *)
    assert (LC : layout_components_x bk o (components g) 0 = Ok (ns, eo, xs)).
    { unfold layout_x in L. rewrite P in L. cbn [bind] in L. destruct ids as [|i0 it]; [discriminate|].
      fold g in L. destruct (layout_components_x bk o (components g) 0) as [r|e]; cbn [bind] in L; [|discriminate].
      injection L as ->. reflexivity. }
    destruct (layout_components_x_collect_all bk o (components g) 0%Q ns eo xs LC) as [gs [HF HC]].
    destruct (Forall2_nth_error _ _ _ _ _ k _ HF Hk) as [gk [Egk [x Ek]]].
    assert (Egk' : nth k gs graph0 = gk) by (apply nth_error_nth; exact Egk).
    set (sigma := mk_map (g_N c) (length (g_na g))) in *.
    set (tau := mk_map (g_E c) (length (g_ea g))) in *.
    destruct (layout_component_x_output_iso sigma tau Hmono bk o c1 c g1r x1 gk x (shift_at o gs 0 k) Hiso E1 Ek)
      as [KN [KE [_ Kx]]].
    exists gs, sigma. split; [apply (iso_sinj Hiso)|]. split; [exact Hmono|]. split; [exact HC|]. split; [exact HF|].
    split; [|split].
    - unfold comp_nodes. rewrite Egk', KN, En. apply onode_shifted_rename. apply collect_nodes_shift.
    - unfold comp_edges. rewrite Egk', KE, Ee. apply oedge_shifted_rename. apply collect_edges_shift.
    - exists x. rewrite Egk'. split; [exact Ek|]. rewrite Ex, Kx. reflexivity.
  Qed.

  (* the sole layout cannot fail in any other way than by the model's own fuel *)
  Theorem sole_layout_x_fails_only_by_fuel :
    forall bk o fixed sizes es ids g0 ns eo xs k c,
    populate A eqA es = Ok (ids, g0) ->
    layout_x A eqA bk o fixed sizes es = Ok (ids, (ns, eo, xs)) ->
    nth_error (components (apply_sizes A eqA fixed sizes ids g0)) k = Some c ->
    (exists r, layout_x A eqA bk o fixed sizes (map (fun i => nth i es []) (g_E c)) = Ok r) \/
    (exists w, layout_x A eqA bk o fixed sizes (map (fun i => nth i es []) (g_E c)) = Err (ErrFuel w)).
  Proof.
    intros bk o fixed sizes es ids g0 ns eo xs k c P L Hk.
    set (g := apply_sizes A eqA fixed sizes ids g0) in *.
    assert (Hc : In c (components g)) by (eapply nth_error_In; eauto).
    destruct (@component_iso_sole A eqA eqA_ok fixed sizes es ids g0 c P Hc)
      as [ids1 [g10 [c1 [P1 [Hne [C1 Hiso]]]]]].
    pose proof (component_sigma_smono fixed sizes es ids g0 c P Hc) as Hmono.
    fold g in Hiso, Hmono.
    assert (LC : layout_components_x bk o (components g) 0 = Ok (ns, eo, xs)).
    { unfold layout_x in L. rewrite P in L. cbn [bind] in L. destruct ids as [|i0 it]; [discriminate|].
      fold g in L. destruct (layout_components_x bk o (components g) 0) as [r|e]; cbn [bind] in L; [|discriminate].
      injection L as ->. reflexivity. }
    destruct (layout_components_x_collect_all bk o (components g) 0%Q ns eo xs LC) as [gs [HF HC]].
    destruct (Forall2_nth_error _ _ _ _ _ k _ HF Hk) as [gk [Egk [x Ek]]].
    pose proof (layout_component_x_iso _ _ Hmono bk o c1 c Hiso) as K. rewrite Ek in K.
    unfold layout_x. rewrite P1. cbn [bind]. destruct ids1 as [|i0 it]; [congruence|].
    rewrite C1. cbn [layout_components_x].
    inversion K as [r1 r2 HR E1 E2| | w b E1 E2 | a w E1 E2].
    - left. destruct r1 as [g1r x1]. cbn [bind]. eexists. reflexivity.
    - right. exists w. reflexivity.
  Qed.
End FinalX.

Print Assumptions component_layout_x_is_sole_layout_translated.
Print Assumptions sole_layout_x_fails_only_by_fuel.

(* ====================================================================================================== *)
(* Examples: the hypotheses are satisfiable (instance of RenumberExample.v: a 2-component union whose components  *)
(* are interleaved in the arenas, against its second component populated alone)                             *)
(* ====================================================================================================== *)
(* hypotheses of exec_bk_iso / phase4_bk_iso / layout_component_x_iso *)
Example rxb_hyps : iso rx_sigma rx_tau rx_sole rx_comp /\ smono rx_sigma.
Proof. split; [exact rx_iso|exact rx_sigma_smono]. Qed.

Definition rxb_o : options := mkOptions DepthFirst NetworkSimplex OtherPositioner Polyline 3 2 (20%Q) (40%Q) true.
Definition rxb_variants : list Z := [-1; 0; 1; 2; 3; 7]%Z.

(* both runs succeed and the results are isomorphic with the SAME maps, for the balanced and the forced layouts:
   by computation *)
Definition rxb_check (bk : Z) : bool :=
  match layout_component_x bk rxb_o rx_sole, layout_component_x bk rxb_o rx_comp with
  | Ok (r, x), Ok (r', x') =>
      isob rx_sigma rx_tau r r' && opt_eqb x x' && Nat.ltb (length (g_na rx_sole)) (length (g_na r))
  | _, _ => false
  end.

Example rxb_pipeline_checked : forallb rxb_check rxb_variants = true.
Proof. vm_compute. reflexivity. Qed.

(* and this is what layout_component_x_iso predicts *)
Example rxb_pipeline_by_theorem : forall bk r x r' x',
  layout_component_x bk rxb_o rx_sole = Ok (r, x) -> layout_component_x bk rxb_o rx_comp = Ok (r', x') ->
  iso rx_sigma rx_tau r r' /\ x' = x /\
  collect_nodes (o_virtual rxb_o) 0 r' = map (rename_onode rx_sigma) (collect_nodes (o_virtual rxb_o) 0 r) /\
  rightmost r' = rightmost r.
Proof.
  intros bk r x r' x' E E'.
  destruct (layout_component_x_iso_ok rx_sigma rx_tau rx_sigma_smono bk rxb_o rx_sole rx_comp r x r' x' rx_iso E E') as [K1 K2].
  destruct (layout_component_x_output_iso rx_sigma rx_tau rx_sigma_smono bk rxb_o rx_sole rx_comp r x r' x' 0%Q rx_iso E E')
    as [K3 [_ [K5 _]]].
  auto.
Qed.

(* the hypotheses of component_layout_x_is_sole_layout_translated hold here ... *)
Example rxb_final_hyps :
  exists ids g0 out ids1 out1,
    populate nat Nat.eqb rx_union_edges = Ok (ids, g0) /\
    layout_x nat Nat.eqb (-1) rxb_o rx_fixed None rx_union_edges = Ok (ids, out) /\
    nth_error (components (apply_sizes nat Nat.eqb rx_fixed None ids g0)) 1 = Some rx_comp /\
    map (fun i => nth i rx_union_edges []) (g_E rx_comp) = rx_sole_edges /\
    layout_x nat Nat.eqb (-1) rxb_o rx_fixed None rx_sole_edges = Ok (ids1, out1).
Proof. vm_compute. do 5 eexists. repeat split; reflexivity. Qed.

(* ... and the theorem instantiated *)
Example rxb_final_by_theorem : forall ids g0 ns eo xs ids1 ns1 eo1 xs1,
  populate nat Nat.eqb rx_union_edges = Ok (ids, g0) ->
  layout_x nat Nat.eqb (-1) rxb_o rx_fixed None rx_union_edges = Ok (ids, (ns, eo, xs)) ->
  layout_x nat Nat.eqb (-1) rxb_o rx_fixed None rx_sole_edges = Ok (ids1, (ns1, eo1, xs1)) ->
  exists gs sigma, inj sigma /\ collect_all rxb_o gs 0 = (ns, eo) /\
    Forall2 (onode_shifted sigma (shift_at rxb_o gs 0 1)) ns1 (comp_nodes rxb_o gs 0 1) /\
    Forall2 (oedge_shifted sigma (shift_at rxb_o gs 0 1)) eo1 (comp_edges rxb_o gs 0 1).
Proof.
  intros ids g0 ns eo xs ids1 ns1 eo1 xs1 P L L1.
  assert (Hk : nth_error (components (apply_sizes nat Nat.eqb rx_fixed None ids g0)) 1 = Some rx_comp).
  { vm_compute in P. injection P as <- <-. vm_compute. reflexivity. }
  assert (E : map (fun i => nth i rx_union_edges []) (g_E rx_comp) = rx_sole_edges) by (vm_compute; reflexivity).
  rewrite <- E in L1.
  destruct (component_layout_x_is_sole_layout_translated nat Nat.eqb nat_eqb_ok' (-1) rxb_o rx_fixed None rx_union_edges
              ids g0 ns eo xs 1 rx_comp P L Hk ids1 ns1 eo1 xs1 L1) as [gs [sigma [I [_ [C [_ [N [Ed _]]]]]]]].
  exists gs, sigma. auto.
Qed.

(* ====================================================================================================== *)
(* The side condition cannot be dropped: for a renumbering that does NOT keep the arena order, the balanced   *)
(* layout of the model is equivariant only up to Qeq, not up to Leibniz equality as [iso] demands.            *)
(* Two layers without edges, [a1 b1] and [a2 m2 b2]; in layout 0 the left-most nodes a1 and a2 both get      *)
(* x = -3, computed as 0 - (2 + 1) resp. (0 - (1/2 + 1)) - (1/2 + 1): Qeq, but not the same fraction.          *)
(* Size() keeps the FIRST minimum it meets in arena order.                                                  *)
(* ====================================================================================================== *)
Definition cx_node (l p : Z) (w : Q) : node := mkNode [] [] l p false 0 0 w 4.
Definition cx_g : graph :=
  mkGraph [cx_node 0 0 2; cx_node 0 1 1; cx_node 1 0 (1#2); cx_node 1 1 (1#2); cx_node 1 2 1] [] [0;1;2;3;4] []
          [mkLayer [0;1] 0 0; mkLayer [2;3;4] 0 0].
Definition cx_sigma (n : nat) : nat := match n with 0 => 3 | 1 => 4 | 2 => 0 | 3 => 1 | 4 => 2 | _ => n end.
Definition cx_tau (n : nat) : nat := n.
Definition cx_g' : graph :=
  mkGraph [cx_node 1 0 (1#2); cx_node 1 1 (1#2); cx_node 1 2 1; cx_node 0 0 2; cx_node 0 1 1] [] [3;4;0;1;2] []
          [mkLayer [3;4] 0 0; mkLayer [0;1;2] 0 0].

Lemma cx_sigma_inj : inj cx_sigma.
Proof.
  intros a b.
  destruct a as [|[|[|[|[|a]]]]]; destruct b as [|[|[|[|[|b]]]]]; cbn [cx_sigma]; intros E; try lia; reflexivity.
Qed.

Example cx_iso : iso cx_sigma cx_tau cx_g cx_g'.
Proof.
  apply isob_sound.
  - exact cx_sigma_inj.
  - intros a b E. exact E.
  - intros k. reflexivity.
  - intros k. reflexivity.
  - vm_compute. reflexivity.
Qed.

Definition cx_r : graph := Eval vm_compute in match exec_bk (-1) 1 cx_g with Ok r => r | Err _ => cx_g end.
Definition cx_r' : graph := Eval vm_compute in match exec_bk (-1) 1 cx_g' with Ok r => r | Err _ => cx_g' end.

Example exec_bk_iso_needs_order :
  iso cx_sigma cx_tau cx_g cx_g' /\ ~ smono cx_sigma /\
  exec_bk (-1) 1 cx_g = Ok cx_r /\ exec_bk (-1) 1 cx_g' = Ok cx_r' /\
  ~ iso cx_sigma cx_tau cx_r cx_r' /\
  (* the coordinates agree up to Qeq only *)
  (forall n, n < 5 -> (n_x (gnode cx_r' (cx_sigma n)) == n_x (gnode cx_r n))%Q) /\
  (* while a forced layout is equivariant on the same pair, as exec_bk_iso_forced says *)
  (exists r r', exec_bk 0 1 cx_g = Ok r /\ exec_bk 0 1 cx_g' = Ok r' /\ isob cx_sigma cx_tau r r' = true).
Proof.
  split; [exact cx_iso|]. split.
  { intros M. specialize (M 0 2). cbn in M. lia. }
  split; [vm_compute; reflexivity|]. split; [vm_compute; reflexivity|]. split.
  { intros K. pose proof (iso_n_x K 0) as E. vm_compute in E. discriminate E. }
  split.
  { intros n L. destruct n as [|[|[|[|[|n]]]]]; try lia; vm_compute; reflexivity. }
  eexists. eexists. split; [vm_compute; reflexivity|]. split; vm_compute; reflexivity.
Qed.
