(* RenumberBase.v — equivariance of the pipeline under renumbering of arena indices: definitions and toolkit.

   [iso sigma tau g g'] says that g' is a copy of g in which node index n is called [sigma n] and edge index e is
   called [tau e]: all the lists (Nodes, Edges, Layers, adjacency lists) correspond element by element IN ORDER,
   all records agree on every non-index field (Leibniz equality, coordinates included), and the next free arena
   slots correspond ([sigma (length (g_na g) + k) = length (g_na g') + k]), so that nodes/edges allocated later
   (breakLongEdges) correspond as well with the SAME maps. sigma and tau are injective total functions.
   The arena of g' may contain further, unrelated slots (the other components of a larger input).

   Fuel: several model functions take their fuel from the arena length, which differs between g and g'.
   [res_rel] therefore relates two results when they are both Ok and related, both the same error, or when one of
   them is the model's own fuel exhaustion (ErrFuel is "not a behaviour of the code", Base.v). *)
From Autog Require Import Base Graph Populate.
From Autog.Proofs Require Import ListLemmas.
Local Open Scope nat_scope.
Set Implicit Arguments.

Definition inj (f : nat -> nat) : Prop := forall a b, f a = f b -> a = b.

Definition node_map (tau : nat -> nat) (nd : node) : node :=
  mkNode (map tau (n_in nd)) (map tau (n_out nd)) (n_layer nd) (n_pos nd) (n_virt nd)
         (n_x nd) (n_y nd) (n_w nd) (n_h nd).
Definition edge_map (sigma : nat -> nat) (ed : edge) : edge :=
  mkEdge (sigma (e_from ed)) (sigma (e_to ed)) (e_delta ed) (e_weight ed) (e_tree ed) (e_rev ed)
         (e_cut ed) (e_pts ed) (e_ahs ed).
Definition layer_map (sigma : nat -> nat) (l : layer) : layer :=
  mkLayer (map sigma (l_nodes l)) (l_w l) (l_h l).

(* every index stored anywhere in the state points inside the arenas *)
Record refs_ok (g : graph) : Prop := mkRefsOk {
  ro_N : forall n, In n (g_N g) -> n < length (g_na g);
  ro_E : forall e, In e (g_E g) -> e < length (g_ea g);
  ro_L : forall l n, In l (g_L g) -> In n (l_nodes l) -> n < length (g_na g);
  ro_in : forall n e, In e (n_in (gnode g n)) -> e < length (g_ea g);
  ro_out : forall n e, In e (n_out (gnode g n)) -> e < length (g_ea g);
  ro_from : forall e, e < length (g_ea g) -> e_from (gedge g e) < length (g_na g);
  ro_to : forall e, e < length (g_ea g) -> e_to (gedge g e) < length (g_na g)
}.

Record iso (sigma tau : nat -> nat) (g g' : graph) : Prop := mkIso {
  iso_sinj : inj sigma;
  iso_tinj : inj tau;
  iso_N : g_N g' = map sigma (g_N g);
  iso_E : g_E g' = map tau (g_E g);
  iso_L : g_L g' = map (layer_map sigma) (g_L g);
  iso_nlt : forall n, n < length (g_na g) -> sigma n < length (g_na g');
  iso_nfresh : forall k, sigma (length (g_na g) + k) = length (g_na g') + k;
  iso_elt : forall e, e < length (g_ea g) -> tau e < length (g_ea g');
  iso_efresh : forall k, tau (length (g_ea g) + k) = length (g_ea g') + k;
  iso_node : forall n, n < length (g_na g) -> gnode g' (sigma n) = node_map tau (gnode g n);
  iso_edge : forall e, e < length (g_ea g) -> gedge g' (tau e) = edge_map sigma (gedge g e);
  iso_refs : refs_ok g
}.

(* ---------- results ---------- *)
Inductive res_rel {A B : Type} (R : A -> B -> Prop) : res A -> res B -> Prop :=
| rr_ok : forall x y, R x y -> res_rel R (Ok x) (Ok y)
| rr_err : forall e, res_rel R (Err e) (Err e)
| rr_fuel_l : forall w b, res_rel R (Err (ErrFuel w)) b
| rr_fuel_r : forall a w, res_rel R a (Err (ErrFuel w)).

Lemma res_rel_bind : forall (A B C D : Type) (R : A -> B -> Prop) (S : C -> D -> Prop) a b f f',
  res_rel R a b -> (forall x y, R x y -> res_rel S (f x) (f' y)) ->
  res_rel S (bind a f) (bind b f').
Proof.
  intros A B C D R S a b f f' H K. destruct H; cbn.
  - apply K; auto.
  - constructor.
  - constructor.
  - constructor.
Qed.

Lemma res_rel_ok_inv : forall (A B : Type) (R : A -> B -> Prop) x y, res_rel R (Ok x) (Ok y) -> R x y.
Proof. intros A B R x y H. inversion H; auto. Qed.

Lemma res_rel_impl : forall (A B : Type) (R S : A -> B -> Prop) a b,
  (forall x y, R x y -> S x y) -> res_rel R a b -> res_rel S a b.
Proof. intros A B R S a b H K. destruct K; constructor; auto. Qed.

(* what res_rel gives when neither side ran out of fuel *)
Definition no_fuel {A} (r : res A) : Prop := forall w, r <> Err (ErrFuel w).

Lemma res_rel_no_fuel : forall (A B : Type) (R : A -> B -> Prop) a b,
  res_rel R a b -> no_fuel a -> no_fuel b ->
  (exists x y, a = Ok x /\ b = Ok y /\ R x y) \/ (exists e, a = Err e /\ b = Err e).
Proof.
  intros A B R a b H Na Nb. destruct H.
  - left. eauto.
  - right. eauto.
  - exfalso. eapply Na. reflexivity.
  - exfalso. eapply Nb. reflexivity.
Qed.

(* ---------- lists under an injective renaming ---------- *)
Section ListInj.
  Variable f : nat -> nat.
  Hypothesis f_inj : inj f.

  Lemma eqb_inj : forall a b, Nat.eqb (f a) (f b) = Nat.eqb a b.
  Proof.
    intros a b. destruct (Nat.eqb a b) eqn:E.
    - apply Nat.eqb_eq in E. subst. apply Nat.eqb_refl.
    - apply Nat.eqb_neq in E. apply Nat.eqb_neq. intro H. apply E. apply f_inj. exact H.
  Qed.

  Lemma remove_nat_map : forall x l, remove_nat (f x) (map f l) = map f (remove_nat x l).
  Proof. induction l as [|y t IH]; cbn; auto. rewrite eqb_inj. destruct (Nat.eqb x y); cbn; rewrite IH; auto. Qed.

  Lemma mem_nat_map : forall x l, mem_nat (f x) (map f l) = mem_nat x l.
  Proof. induction l as [|y t IH]; cbn; auto. rewrite eqb_inj. unfold mem_nat in IH. rewrite IH. auto. Qed.

  Lemma index_of_map : forall x l, index_of (f x) (map f l) = index_of x l.
  Proof. induction l as [|y t IH]; cbn; auto. rewrite eqb_inj. rewrite IH. auto. Qed.

  Lemma replace_first_map : forall x y l, replace_first (f x) (f y) (map f l) = map f (replace_first x y l).
  Proof. induction l as [|z t IH]; cbn; auto. rewrite eqb_inj. destruct (Nat.eqb x z); cbn; [|rewrite IH]; auto. Qed.

  Lemma in_map_inj : forall x l, In (f x) (map f l) <-> In x l.
  Proof.
    intros x l. split.
    - intros H. apply in_map_iff in H. destruct H as [y [E Hy]]. apply f_inj in E. subst. auto.
    - apply in_map.
  Qed.

  Lemma NoDup_map_inj : forall l, NoDup l -> NoDup (map f l).
  Proof.
    induction l as [|x t IH]; cbn; intros H; [constructor|].
    inversion H; subst. constructor; auto. rewrite in_map_inj. auto.
  Qed.
End ListInj.

Lemma el_remove_map : forall f, inj f -> forall x l, el_remove (f x) (map f l) = map f (el_remove x l).
Proof. intros. unfold el_remove. apply remove_nat_map; auto. Qed.

Lemma el_add_map : forall (f : nat -> nat) x l, el_add (f x) (map f l) = map f (el_add x l).
Proof. intros. unfold el_add. rewrite map_app. reflexivity. Qed.

(* generic list facts *)
Lemma filter_map_comm : forall (A B : Type) (h : A -> B) (p : A -> bool) (p' : B -> bool) l,
  (forall x, In x l -> p' (h x) = p x) -> filter p' (map h l) = map h (filter p l).
Proof.
  induction l as [|x t IH]; cbn; intros H; auto.
  rewrite H by auto. destruct (p x); cbn; rewrite IH; auto.
Qed.

Lemma existsb_map_comm : forall (A B : Type) (h : A -> B) (p : A -> bool) (p' : B -> bool) l,
  (forall x, In x l -> p' (h x) = p x) -> existsb p' (map h l) = existsb p l.
Proof.
  induction l as [|x t IH]; cbn; intros H; auto.
  rewrite H by auto. rewrite IH; auto.
Qed.

Lemma forallb_map_comm : forall (A B : Type) (h : A -> B) (p : A -> bool) (p' : B -> bool) l,
  (forall x, In x l -> p' (h x) = p x) -> forallb p' (map h l) = forallb p l.
Proof.
  induction l as [|x t IH]; cbn; intros H; auto.
  rewrite H by auto. rewrite IH; auto.
Qed.

Lemma find_map_comm : forall (A B : Type) (h : A -> B) (p : A -> bool) (p' : B -> bool) l,
  (forall x, In x l -> p' (h x) = p x) -> find p' (map h l) = option_map h (find p l).
Proof.
  induction l as [|x t IH]; cbn; intros H; auto.
  rewrite H by auto. destruct (p x); cbn; auto.
Qed.

Lemma flat_map_map_comm : forall (A B C D : Type) (h : A -> B) (k : C -> D) (F : A -> list C) (F' : B -> list D) l,
  (forall x, In x l -> F' (h x) = map k (F x)) -> flat_map F' (map h l) = map k (flat_map F l).
Proof.
  induction l as [|x t IH]; cbn; intros H; auto.
  rewrite H by auto. rewrite map_app. rewrite IH; auto.
Qed.

(* a flat_map whose elements do not mention indices at all *)
Lemma flat_map_map_same : forall (A B C : Type) (h : A -> B) (F : A -> list C) (F' : B -> list C) l,
  (forall x, In x l -> F' (h x) = F x) -> flat_map F' (map h l) = flat_map F l.
Proof.
  induction l as [|x t IH]; cbn; intros H; auto.
  rewrite H by auto. rewrite IH; auto.
Qed.

Lemma nth_map_lt : forall (A B : Type) (h : A -> B) l i d d', i < length l -> nth i (map h l) d' = h (nth i l d).
Proof.
  induction l as [|x t IH]; intros [|i] d d' H; cbn in *; try lia; auto. apply IH. lia.
Qed.

Lemma nth_error_map' : forall (A B : Type) (h : A -> B) l i, nth_error (map h l) i = option_map h (nth_error l i).
Proof. induction l as [|x t IH]; intros [|i]; cbn; auto. Qed.

Lemma last_opt_map : forall (A B : Type) (h : A -> B) l, last_opt (map h l) = option_map h (last_opt l).
Proof.
  induction l as [|x t IH]; cbn; auto.
  destruct t as [|y t']; cbn in *; auto.
Qed.

Lemma upd_map : forall (A B : Type) (h : A -> B) (u : A -> A) (u' : B -> B) l i,
  (forall x, u' (h x) = h (u x)) -> upd (map h l) i u' = map h (upd l i u).
Proof.
  induction l as [|x t IH]; intros [|i] H; cbn; auto.
  - rewrite H. auto.
  - rewrite IH; auto.
Qed.

Lemma set_nth_map : forall (A B : Type) (h : A -> B) l i a, set_nth (map h l) i (h a) = map h (set_nth l i a).
Proof. intros. unfold set_nth. apply upd_map. auto. Qed.

Lemma removelast_map : forall (A B : Type) (h : A -> B) l, removelast (map h l) = map h (removelast l).
Proof.
  induction l as [|x t IH]; cbn; auto.
  destruct t as [|y t']; cbn in *; auto. rewrite IH. auto.
Qed.

Lemma tl_map : forall (A B : Type) (h : A -> B) l, tl (map h l) = map h (tl l).
Proof. destruct l; auto. Qed.

(* the relational fold: the work-horse for every list iteration *)
Lemma fold_left_rel : forall (A B X Y : Type) (R : A -> B -> Prop) (h : X -> Y)
    (F : A -> X -> A) (F' : B -> Y -> B) l a b,
  R a b -> (forall a b x, In x l -> R a b -> R (F a x) (F' b (h x))) ->
  R (fold_left F l a) (fold_left F' (map h l) b).
Proof.
  induction l as [|x t IH]; cbn; intros a b H K; [exact H|].
  apply IH; [apply K; auto|intros; apply K; auto].
Qed.

(* both sides iterate over the same list (positions, layer indices, ...) *)
Lemma fold_left_rel_same : forall (A B X : Type) (R : A -> B -> Prop)
    (F : A -> X -> A) (F' : B -> X -> B) l a b,
  R a b -> (forall a b x, In x l -> R a b -> R (F a x) (F' b x)) ->
  R (fold_left F l a) (fold_left F' l b).
Proof.
  induction l as [|x t IH]; cbn; intros a b H K; [exact H|].
  apply IH; [apply K; auto|intros; apply K; auto].
Qed.

(* fold with an invariant on the left state that the step needs (e.g. iso must be re-established) *)
Lemma fold_left_rel_res : forall (A B X Y : Type) (R : A -> B -> Prop) (h : X -> Y)
    (F : res A -> X -> res A) (F' : res B -> Y -> res B) l a b,
  res_rel R a b -> (forall a b x, In x l -> res_rel R a b -> res_rel R (F a x) (F' b (h x))) ->
  res_rel R (fold_left F l a) (fold_left F' (map h l) b).
Proof. intros. apply fold_left_rel with (R := res_rel R); auto. Qed.

(* insertion sort under a renaming that preserves the comparison *)
Lemma insert_sorted_map : forall (A B : Type) (h : A -> B) (le : A -> A -> bool) (le' : B -> B -> bool) x l,
  (forall a b, le' (h a) (h b) = le a b) ->
  insert_sorted le' (h x) (map h l) = map h (insert_sorted le x l).
Proof.
  induction l as [|y t IH]; cbn; intros H; auto.
  rewrite H. destruct (le x y); cbn; auto. rewrite IH; auto.
Qed.

Lemma isort_map : forall (A B : Type) (h : A -> B) (le : A -> A -> bool) (le' : B -> B -> bool) l,
  (forall a b, le' (h a) (h b) = le a b) ->
  isort le' (map h l) = map h (isort le l).
Proof.
  induction l as [|x t IH]; cbn; intros H; auto.
  unfold isort in *. cbn. rewrite IH by auto. apply insert_sorted_map; auto.
Qed.

(* ---------- arena-indexed auxiliary tables ---------- *)
(* [aux_rel sigma d l l']: table l' read at sigma n is table l read at n (values that do not mention indices);
   both are in range or both out of range, so writes correspond too *)
Definition aux_rel {A : Type} (sigma : nat -> nat) (d : A) (l l' : list A) : Prop :=
  (forall n, n < length l <-> sigma n < length l') /\ (forall n, nth (sigma n) l' d = nth n l d).

(* tables whose VALUES are node indices (colors, roots, ...): read only at in-range indices *)
Definition auxn_rel (sigma : nat -> nat) (l l' : list nat) : Prop :=
  (forall n, n < length l <-> sigma n < length l') /\
  (forall n, n < length l -> nth (sigma n) l' 0 = sigma (nth n l 0)).

Lemma nth_upd_full : forall A (l : list A) i j u d,
  nth j (upd l i u) d = if Nat.eqb i j && Nat.ltb i (length l) then u (nth j l d) else nth j l d.
Proof.
  intros A l i j u d. destruct (Nat.eqb i j) eqn:E; cbn [andb].
  - apply Nat.eqb_eq in E. subst j. destruct (Nat.ltb i (length l)) eqn:L.
    + apply Nat.ltb_lt in L. apply nth_upd_same; auto.
    + apply Nat.ltb_ge in L. rewrite upd_oob; auto.
  - apply Nat.eqb_neq in E. apply nth_upd_other; auto.
Qed.

Lemma aux_rel_upd : forall A sigma (d : A) l l' n u, inj sigma ->
  aux_rel sigma d l l' -> aux_rel sigma d (upd l n u) (upd l' (sigma n) u).
Proof.
  intros A sigma d l l' n u Hs [HL HV]. split.
  - intros m. rewrite !upd_length. apply HL.
  - intros m. rewrite !nth_upd_full. rewrite (eqb_inj Hs). rewrite HV.
    assert (E : Nat.ltb (sigma n) (length l') = Nat.ltb n (length l)).
    { destruct (Nat.ltb n (length l)) eqn:L.
      - apply Nat.ltb_lt. apply HL. apply Nat.ltb_lt. auto.
      - apply Nat.ltb_ge. apply Nat.ltb_ge in L. destruct (Nat.lt_ge_cases (sigma n) (length l')) as [K|K]; auto.
        apply HL in K. lia. }
    rewrite E. reflexivity.
Qed.

Lemma aux_rel_set_nth : forall A sigma (d : A) l l' n a, inj sigma ->
  aux_rel sigma d l l' -> aux_rel sigma d (set_nth l n a) (set_nth l' (sigma n) a).
Proof. intros. unfold set_nth. apply aux_rel_upd; auto. Qed.

Lemma aux_rel_nth : forall A sigma (d : A) l l' n, aux_rel sigma d l l' -> nth (sigma n) l' d = nth n l d.
Proof. intros A sigma d l l' n [_ H]. apply H. Qed.

Lemma aux_rel_map : forall A B sigma (d : A) (k : A -> B) l l',
  aux_rel sigma d l l' -> aux_rel sigma (k d) (map k l) (map k l').
Proof.
  intros A B sigma d k l l' [HL HV]. split.
  - intros n. rewrite !map_length. apply HL.
  - intros n. rewrite !map_nth. rewrite HV. auto.
Qed.

Lemma auxn_rel_set_nth : forall sigma l l' n a, inj sigma ->
  auxn_rel sigma l l' -> auxn_rel sigma (set_nth l n a) (set_nth l' (sigma n) (sigma a)).
Proof.
  intros sigma l l' n a Hs [HL HV]. unfold set_nth. split.
  - intros m. rewrite !upd_length. apply HL.
  - intros m Hm. rewrite upd_length in Hm. rewrite !nth_upd_full. rewrite (eqb_inj Hs).
    assert (E : Nat.ltb (sigma n) (length l') = Nat.ltb n (length l)).
    { destruct (Nat.ltb n (length l)) eqn:L.
      - apply Nat.ltb_lt. apply HL. apply Nat.ltb_lt. auto.
      - apply Nat.ltb_ge. apply Nat.ltb_ge in L. destruct (Nat.lt_ge_cases (sigma n) (length l')) as [K|K]; auto.
        apply HL in K. lia. }
    rewrite E. destruct (Nat.eqb n m && Nat.ltb n (length l)); auto.
Qed.

Lemma auxn_rel_nth : forall sigma l l' n, auxn_rel sigma l l' -> n < length l ->
  nth (sigma n) l' 0 = sigma (nth n l 0).
Proof. intros sigma l l' n [_ H] L. apply H; auto. Qed.

(* ---------- consequences of iso ---------- *)
Section IsoFacts.
  Variables sigma tau : nat -> nat.
  Variables g g' : graph.
  Hypothesis H : iso sigma tau g g'.

  Lemma iso_nge : forall n, length (g_na g) <= n -> length (g_na g') <= sigma n.
  Proof.
    intros n L. replace n with (length (g_na g) + (n - length (g_na g))) by lia.
    rewrite (iso_nfresh H). lia.
  Qed.

  Lemma iso_ege : forall e, length (g_ea g) <= e -> length (g_ea g') <= tau e.
  Proof.
    intros e L. replace e with (length (g_ea g) + (e - length (g_ea g))) by lia.
    rewrite (iso_efresh H). lia.
  Qed.

  Lemma iso_nlt_iff : forall n, n < length (g_na g) <-> sigma n < length (g_na g').
  Proof.
    intros n. split; [apply (iso_nlt H)|]. intros K.
    destruct (Nat.lt_ge_cases n (length (g_na g))) as [L|L]; auto. apply iso_nge in L. lia.
  Qed.

  Lemma iso_elt_iff : forall e, e < length (g_ea g) <-> tau e < length (g_ea g').
  Proof.
    intros e. split; [apply (iso_elt H)|]. intros K.
    destruct (Nat.lt_ge_cases e (length (g_ea g))) as [L|L]; auto. apply iso_ege in L. lia.
  Qed.

  Lemma iso_next_node : sigma (length (g_na g)) = length (g_na g').
  Proof. generalize (iso_nfresh H 0). rewrite !Nat.add_0_r. auto. Qed.

  Lemma iso_next_edge : tau (length (g_ea g)) = length (g_ea g').
  Proof. generalize (iso_efresh H 0). rewrite !Nat.add_0_r. auto. Qed.

  (* nodes: no range condition (out of range both sides read node0) *)
  Lemma iso_gnode : forall n, gnode g' (sigma n) = node_map tau (gnode g n).
  Proof.
    intros n. destruct (Nat.lt_ge_cases n (length (g_na g))) as [L|L].
    - apply (iso_node H); auto.
    - unfold gnode. rewrite (nth_overflow (g_na g)) by auto.
      rewrite nth_overflow by (apply iso_nge; auto). reflexivity.
  Qed.

  Lemma iso_n_in : forall n, n_in (gnode g' (sigma n)) = map tau (n_in (gnode g n)).
  Proof. intros. rewrite iso_gnode. reflexivity. Qed.
  Lemma iso_n_out : forall n, n_out (gnode g' (sigma n)) = map tau (n_out (gnode g n)).
  Proof. intros. rewrite iso_gnode. reflexivity. Qed.
  Lemma iso_n_layer : forall n, n_layer (gnode g' (sigma n)) = n_layer (gnode g n).
  Proof. intros. rewrite iso_gnode. reflexivity. Qed.
  Lemma iso_layer_of : forall n, layer_of g' (sigma n) = layer_of g n.
  Proof. intros. unfold layer_of. apply iso_n_layer. Qed.
  Lemma iso_n_pos : forall n, n_pos (gnode g' (sigma n)) = n_pos (gnode g n).
  Proof. intros. rewrite iso_gnode. reflexivity. Qed.
  Lemma iso_n_virt : forall n, n_virt (gnode g' (sigma n)) = n_virt (gnode g n).
  Proof. intros. rewrite iso_gnode. reflexivity. Qed.
  Lemma iso_n_x : forall n, n_x (gnode g' (sigma n)) = n_x (gnode g n).
  Proof. intros. rewrite iso_gnode. reflexivity. Qed.
  Lemma iso_n_y : forall n, n_y (gnode g' (sigma n)) = n_y (gnode g n).
  Proof. intros. rewrite iso_gnode. reflexivity. Qed.
  Lemma iso_n_w : forall n, n_w (gnode g' (sigma n)) = n_w (gnode g n).
  Proof. intros. rewrite iso_gnode. reflexivity. Qed.
  Lemma iso_n_h : forall n, n_h (gnode g' (sigma n)) = n_h (gnode g n).
  Proof. intros. rewrite iso_gnode. reflexivity. Qed.
  Lemma iso_indeg : forall n, indeg g' (sigma n) = indeg g n.
  Proof. intros. unfold indeg. rewrite iso_n_in. apply map_length. Qed.
  Lemma iso_outdeg : forall n, outdeg g' (sigma n) = outdeg g n.
  Proof. intros. unfold outdeg. rewrite iso_n_out. apply map_length. Qed.
  Lemma iso_all_edges : forall n, all_edges g' (sigma n) = map tau (all_edges g n).
  Proof. intros. unfold all_edges. rewrite iso_n_in, iso_n_out, map_app. reflexivity. Qed.

  (* edges: in range only *)
  Lemma iso_e_from : forall e, e < length (g_ea g) -> e_from (gedge g' (tau e)) = sigma (e_from (gedge g e)).
  Proof. intros e L. rewrite (iso_edge H) by auto. reflexivity. Qed.
  Lemma iso_e_to : forall e, e < length (g_ea g) -> e_to (gedge g' (tau e)) = sigma (e_to (gedge g e)).
  Proof. intros e L. rewrite (iso_edge H) by auto. reflexivity. Qed.
  Lemma iso_e_delta : forall e, e < length (g_ea g) -> e_delta (gedge g' (tau e)) = e_delta (gedge g e).
  Proof. intros e L. rewrite (iso_edge H) by auto. reflexivity. Qed.
  Lemma iso_e_weight : forall e, e < length (g_ea g) -> e_weight (gedge g' (tau e)) = e_weight (gedge g e).
  Proof. intros e L. rewrite (iso_edge H) by auto. reflexivity. Qed.
  Lemma iso_e_tree : forall e, e < length (g_ea g) -> e_tree (gedge g' (tau e)) = e_tree (gedge g e).
  Proof. intros e L. rewrite (iso_edge H) by auto. reflexivity. Qed.
  Lemma iso_e_rev : forall e, e < length (g_ea g) -> e_rev (gedge g' (tau e)) = e_rev (gedge g e).
  Proof. intros e L. rewrite (iso_edge H) by auto. reflexivity. Qed.
  Lemma iso_e_cut : forall e, e < length (g_ea g) -> e_cut (gedge g' (tau e)) = e_cut (gedge g e).
  Proof. intros e L. rewrite (iso_edge H) by auto. reflexivity. Qed.
  Lemma iso_e_pts : forall e, e < length (g_ea g) -> e_pts (gedge g' (tau e)) = e_pts (gedge g e).
  Proof. intros e L. rewrite (iso_edge H) by auto. reflexivity. Qed.
  Lemma iso_e_ahs : forall e, e < length (g_ea g) -> e_ahs (gedge g' (tau e)) = e_ahs (gedge g e).
  Proof. intros e L. rewrite (iso_edge H) by auto. reflexivity. Qed.

  Lemma iso_self_loop : forall e, e < length (g_ea g) -> self_loop g' (tau e) = self_loop g e.
  Proof. intros e L. unfold self_loop. rewrite iso_e_from, iso_e_to by auto. apply eqb_inj. apply (iso_sinj H). Qed.

  Lemma iso_connected_node : forall e n, e < length (g_ea g) ->
    connected_node g' (tau e) (sigma n) = sigma (connected_node g e n).
  Proof.
    intros e n L. unfold connected_node. rewrite iso_e_from, iso_e_to by auto.
    rewrite (eqb_inj (iso_sinj H)). destruct (Nat.eqb (e_to (gedge g e)) n); auto.
  Qed.

  Lemma iso_is_flat : forall e, e < length (g_ea g) -> is_flat g' (tau e) = is_flat g e.
  Proof. intros e L. unfold is_flat. rewrite iso_e_from, iso_e_to by auto. rewrite !iso_layer_of. auto. Qed.

  (* layers: no range condition *)
  Lemma iso_glayer : forall i, glayer g' i = layer_map sigma (glayer g i).
  Proof.
    intros i. unfold glayer. rewrite (iso_L H).
    change layer0 with (layer_map sigma layer0) at 1. apply map_nth.
  Qed.

  Lemma iso_L_length : length (g_L g') = length (g_L g).
  Proof. rewrite (iso_L H). apply map_length. Qed.
  Lemma iso_N_length : length (g_N g') = length (g_N g).
  Proof. rewrite (iso_N H). apply map_length. Qed.
  Lemma iso_E_length : length (g_E g') = length (g_E g).
  Proof. rewrite (iso_E H). apply map_length. Qed.

  (* range facts, ready for use *)
  Lemma iso_E_lt : forall e, In e (g_E g) -> e < length (g_ea g).
  Proof. apply (ro_E (iso_refs H)). Qed.
  Lemma iso_in_lt : forall n e, In e (n_in (gnode g n)) -> e < length (g_ea g).
  Proof. apply (ro_in (iso_refs H)). Qed.
  Lemma iso_out_lt : forall n e, In e (n_out (gnode g n)) -> e < length (g_ea g).
  Proof. apply (ro_out (iso_refs H)). Qed.
  Lemma iso_all_lt : forall n e, In e (all_edges g n) -> e < length (g_ea g).
  Proof. intros n e K. unfold all_edges in K. apply in_app_or in K. destruct K; [eapply iso_in_lt|eapply iso_out_lt]; eauto. Qed.
  Lemma iso_N_lt : forall n, In n (g_N g) -> n < length (g_na g).
  Proof. apply (ro_N (iso_refs H)). Qed.
  Lemma iso_L_lt : forall l n, In l (g_L g) -> In n (l_nodes l) -> n < length (g_na g).
  Proof. apply (ro_L (iso_refs H)). Qed.
  Lemma iso_from_lt : forall e, e < length (g_ea g) -> e_from (gedge g e) < length (g_na g).
  Proof. apply (ro_from (iso_refs H)). Qed.
  Lemma iso_to_lt : forall e, e < length (g_ea g) -> e_to (gedge g e) < length (g_na g).
  Proof. apply (ro_to (iso_refs H)). Qed.
  Lemma iso_conn_lt : forall e n, e < length (g_ea g) -> connected_node g e n < length (g_na g).
  Proof. intros e n L. unfold connected_node. destruct (Nat.eqb _ _); [apply iso_from_lt|apply iso_to_lt]; auto. Qed.

  (* fresh tables *)
  Lemma aux_rel_repeat : forall A (d : A), aux_rel sigma d (repeat d (length (g_na g))) (repeat d (length (g_na g'))).
  Proof.
    intros A d. split.
    - intros n. rewrite !repeat_length. apply iso_nlt_iff.
    - intros n. rewrite !nth_repeat. reflexivity.
  Qed.

  Lemma aux_rel_repeat_e : forall A (d : A), aux_rel tau d (repeat d (length (g_ea g))) (repeat d (length (g_ea g'))).
  Proof.
    intros A d. split.
    - intros n. rewrite !repeat_length. apply iso_elt_iff.
    - intros n. rewrite !nth_repeat. reflexivity.
  Qed.

  Lemma auxn_rel_iota : auxn_rel sigma (iota 0 (length (g_na g))) (iota 0 (length (g_na g'))).
  Proof.
    split.
    - intros n. rewrite !iota_length. apply iso_nlt_iff.
    - intros n L. rewrite iota_length in L. rewrite !iota_seq.
      rewrite !seq_nth; auto. apply iso_nlt_iff. auto.
  Qed.

  (* the whole-arena position table used by the ordering phase *)
  Lemma aux_rel_na_map : forall A (k : node -> A), (forall nd, k (node_map tau nd) = k nd) ->
    aux_rel sigma (k node0) (map k (g_na g)) (map k (g_na g')).
  Proof.
    intros A k K. split.
    - intros n. rewrite !map_length. apply iso_nlt_iff.
    - intros n. rewrite !map_nth. fold (gnode g' (sigma n)). fold (gnode g n). rewrite iso_gnode. apply K.
  Qed.
End IsoFacts.

(* ---------- refs_ok under updates ---------- *)
Lemma gedge_upd_edge_same : forall g i f, i < length (g_ea g) -> gedge (upd_edge g i f) i = f (gedge g i).
Proof. intros. unfold gedge, upd_edge, with_ea. cbn. apply nth_upd_same. auto. Qed.

Lemma gedge_upd_edge_other : forall g i j f, i <> j -> gedge (upd_edge g i f) j = gedge g j.
Proof. intros. unfold gedge, upd_edge, with_ea. cbn. apply nth_upd_other. auto. Qed.

Lemma gnode_upd_edge : forall g i f n, gnode (upd_edge g i f) n = gnode g n.
Proof. reflexivity. Qed.

Lemma upd_edge_ea_length : forall g i f, length (g_ea (upd_edge g i f)) = length (g_ea g).
Proof. intros. unfold upd_edge, with_ea. cbn. apply upd_length. Qed.

Lemma upd_node_oob : forall g i f, length (g_na g) <= i -> upd_node g i f = g.
Proof. intros. unfold upd_node, with_na. rewrite upd_oob by auto. destruct g; reflexivity. Qed.

Lemma upd_edge_oob : forall g i f, length (g_ea g) <= i -> upd_edge g i f = g.
Proof. intros. unfold upd_edge, with_ea. rewrite upd_oob by auto. destruct g; reflexivity. Qed.

Lemma gnode_upd_node_cases : forall g i j f,
  gnode (upd_node g i f) j = if Nat.eqb i j && Nat.ltb i (length (g_na g)) then f (gnode g j) else gnode g j.
Proof. intros. unfold gnode, upd_node, with_na. cbn. apply nth_upd_full. Qed.

Lemma gedge_upd_edge_cases : forall g i j f,
  gedge (upd_edge g i f) j = if Nat.eqb i j && Nat.ltb i (length (g_ea g)) then f (gedge g j) else gedge g j.
Proof. intros. unfold gedge, upd_edge, with_ea. cbn. apply nth_upd_full. Qed.

Lemma refs_ok_upd_node : forall g n f, refs_ok g ->
  (forall e, In e (n_in (f (gnode g n))) -> e < length (g_ea g)) ->
  (forall e, In e (n_out (f (gnode g n))) -> e < length (g_ea g)) ->
  refs_ok (upd_node g n f).
Proof.
  intros g n f R Hi Ho. destruct R as [RN RE RL Rin Rout Rf Rt].
  constructor; try rewrite upd_node_na_length; cbn [g_N g_E g_L g_ea upd_node with_na]; auto.
  - intros m e. rewrite gnode_upd_node_cases.
    destruct (Nat.eqb n m && Nat.ltb n (length (g_na g))) eqn:E.
    + apply andb_prop in E. destruct E as [E _]. apply Nat.eqb_eq in E. subst m. apply Hi.
    + apply Rin.
  - intros m e. rewrite gnode_upd_node_cases.
    destruct (Nat.eqb n m && Nat.ltb n (length (g_na g))) eqn:E.
    + apply andb_prop in E. destruct E as [E _]. apply Nat.eqb_eq in E. subst m. apply Ho.
    + apply Rout.
Qed.

Lemma refs_ok_upd_edge : forall g e f, refs_ok g ->
  (e < length (g_ea g) -> e_from (f (gedge g e)) < length (g_na g)) ->
  (e < length (g_ea g) -> e_to (f (gedge g e)) < length (g_na g)) ->
  refs_ok (upd_edge g e f).
Proof.
  intros g e f R Hf Ht. destruct R as [RN RE RL Rin Rout Rf Rt].
  constructor; try rewrite upd_edge_ea_length; cbn [g_N g_E g_L g_na upd_edge with_ea]; auto.
  - intros m L. rewrite gedge_upd_edge_cases.
    destruct (Nat.eqb e m && Nat.ltb e (length (g_ea g))) eqn:E.
    + apply andb_prop in E. destruct E as [E _]. apply Nat.eqb_eq in E. subst m. apply Hf; auto.
    + apply Rf; auto.
  - intros m L. rewrite gedge_upd_edge_cases.
    destruct (Nat.eqb e m && Nat.ltb e (length (g_ea g))) eqn:E.
    + apply andb_prop in E. destruct E as [E _]. apply Nat.eqb_eq in E. subst m. apply Ht; auto.
    + apply Rt; auto.
Qed.

(* ---------- iso under updates ---------- *)
Section IsoUpd.
  Variables sigma tau : nat -> nat.

  Lemma ltb_iso_n : forall g g' n, iso sigma tau g g' ->
    Nat.ltb (sigma n) (length (g_na g')) = Nat.ltb n (length (g_na g)).
  Proof.
    intros g g' n H. destruct (Nat.ltb n (length (g_na g))) eqn:L.
    - apply Nat.ltb_lt. apply (iso_nlt H). apply Nat.ltb_lt. auto.
    - apply Nat.ltb_ge. apply (iso_nge H). apply Nat.ltb_ge. auto.
  Qed.

  Lemma ltb_iso_e : forall g g' e, iso sigma tau g g' ->
    Nat.ltb (tau e) (length (g_ea g')) = Nat.ltb e (length (g_ea g)).
  Proof.
    intros g g' e H. destruct (Nat.ltb e (length (g_ea g))) eqn:L.
    - apply Nat.ltb_lt. apply (iso_elt H). apply Nat.ltb_lt. auto.
    - apply Nat.ltb_ge. apply (iso_ege H). apply Nat.ltb_ge. auto.
  Qed.

  (* the general node update: the new adjacency lists must stay in range *)
  Theorem iso_upd_node : forall g g' n f f', iso sigma tau g g' ->
    f' (node_map tau (gnode g n)) = node_map tau (f (gnode g n)) ->
    (forall e, In e (n_in (f (gnode g n))) -> e < length (g_ea g)) ->
    (forall e, In e (n_out (f (gnode g n))) -> e < length (g_ea g)) ->
    iso sigma tau (upd_node g n f) (upd_node g' (sigma n) f').
  Proof.
    intros g g' n f f' H C Hi Ho.
    constructor; try rewrite !upd_node_na_length; cbn [g_N g_E g_L g_ea upd_node with_na];
      try apply H.
    - intros m L. rewrite !gnode_upd_node_cases. rewrite (eqb_inj (iso_sinj H)), (ltb_iso_n n H).
      rewrite (iso_gnode H).
      destruct (Nat.eqb n m && Nat.ltb n (length (g_na g))) eqn:E; auto.
      apply andb_prop in E. destruct E as [E _]. apply Nat.eqb_eq in E. subst m. exact C.
    - apply refs_ok_upd_node; auto. apply H.
  Qed.

  (* updates that leave the adjacency lists alone: set_layer, set_pos, set_x, set_y, set_wh, relative moves *)
  Theorem iso_upd_node_attr : forall g g' n f f', iso sigma tau g g' ->
    (forall nd, f' (node_map tau nd) = node_map tau (f nd)) ->
    (forall nd, n_in (f nd) = n_in nd) -> (forall nd, n_out (f nd) = n_out nd) ->
    iso sigma tau (upd_node g n f) (upd_node g' (sigma n) f').
  Proof.
    intros g g' n f f' H C Ki Ko. apply iso_upd_node; auto.
    - intros e. rewrite Ki. apply (iso_in_lt H).
    - intros e. rewrite Ko. apply (iso_out_lt H).
  Qed.

  Lemma iso_set_layer : forall g g' n z, iso sigma tau g g' ->
    iso sigma tau (upd_node g n (set_layer z)) (upd_node g' (sigma n) (set_layer z)).
  Proof. intros. apply iso_upd_node_attr; auto. Qed.
  Lemma iso_set_pos : forall g g' n z, iso sigma tau g g' ->
    iso sigma tau (upd_node g n (set_pos z)) (upd_node g' (sigma n) (set_pos z)).
  Proof. intros. apply iso_upd_node_attr; auto. Qed.
  Lemma iso_set_x : forall g g' n q, iso sigma tau g g' ->
    iso sigma tau (upd_node g n (set_x q)) (upd_node g' (sigma n) (set_x q)).
  Proof. intros. apply iso_upd_node_attr; auto. Qed.
  Lemma iso_set_y : forall g g' n q, iso sigma tau g g' ->
    iso sigma tau (upd_node g n (set_y q)) (upd_node g' (sigma n) (set_y q)).
  Proof. intros. apply iso_upd_node_attr; auto. Qed.
  Lemma iso_set_wh : forall g g' n w h, iso sigma tau g g' ->
    iso sigma tau (upd_node g n (set_wh w h)) (upd_node g' (sigma n) (set_wh w h)).
  Proof. intros. apply iso_upd_node_attr; auto. Qed.
  Lemma iso_move_layer : forall g g' n (k : Z -> Z), iso sigma tau g g' ->
    iso sigma tau (upd_node g n (fun nd => set_layer (k (n_layer nd)) nd))
                  (upd_node g' (sigma n) (fun nd => set_layer (k (n_layer nd)) nd)).
  Proof. intros. apply iso_upd_node_attr; auto. Qed.
  Lemma iso_move_x : forall g g' n (k : Q -> Q), iso sigma tau g g' ->
    iso sigma tau (upd_node g n (fun nd => set_x (k (n_x nd)) nd))
                  (upd_node g' (sigma n) (fun nd => set_x (k (n_x nd)) nd)).
  Proof. intros. apply iso_upd_node_attr; auto. Qed.

  (* adjacency updates *)
  Lemma iso_set_in : forall g g' n (k : list nat -> list nat) (k' : list nat -> list nat), iso sigma tau g g' ->
    k' (map tau (n_in (gnode g n))) = map tau (k (n_in (gnode g n))) ->
    (forall e, In e (k (n_in (gnode g n))) -> e < length (g_ea g)) ->
    iso sigma tau (upd_node g n (fun nd => set_in (k (n_in nd)) nd))
                  (upd_node g' (sigma n) (fun nd => set_in (k' (n_in nd)) nd)).
  Proof.
    intros g g' n k k' H C R. apply iso_upd_node; auto.
    - unfold set_in, node_map; cbn. rewrite C. reflexivity.
    - cbn. apply (iso_out_lt H).
  Qed.

  Lemma iso_set_out : forall g g' n (k : list nat -> list nat) (k' : list nat -> list nat), iso sigma tau g g' ->
    k' (map tau (n_out (gnode g n))) = map tau (k (n_out (gnode g n))) ->
    (forall e, In e (k (n_out (gnode g n))) -> e < length (g_ea g)) ->
    iso sigma tau (upd_node g n (fun nd => set_out (k (n_out nd)) nd))
                  (upd_node g' (sigma n) (fun nd => set_out (k' (n_out nd)) nd)).
  Proof.
    intros g g' n k k' H C R. apply iso_upd_node; auto.
    - unfold set_out, node_map; cbn. rewrite C. reflexivity.
    - cbn. apply (iso_in_lt H).
  Qed.

  (* the general edge update: the new end points must stay in range *)
  Theorem iso_upd_edge : forall g g' e f f', iso sigma tau g g' ->
    f' (edge_map sigma (gedge g e)) = edge_map sigma (f (gedge g e)) ->
    (e < length (g_ea g) -> e_from (f (gedge g e)) < length (g_na g)) ->
    (e < length (g_ea g) -> e_to (f (gedge g e)) < length (g_na g)) ->
    iso sigma tau (upd_edge g e f) (upd_edge g' (tau e) f').
  Proof.
    intros g g' e f f' H C Hf Ht.
    constructor; try rewrite !upd_edge_ea_length; cbn [g_N g_E g_L g_na upd_edge with_ea];
      try apply H.
    - intros m L. rewrite !gedge_upd_edge_cases. rewrite (eqb_inj (iso_tinj H)), (ltb_iso_e e H).
      rewrite (iso_edge H) by auto.
      destruct (Nat.eqb e m && Nat.ltb e (length (g_ea g))) eqn:E; auto.
      apply andb_prop in E. destruct E as [E _]. apply Nat.eqb_eq in E. subst m. exact C.
    - apply refs_ok_upd_edge; auto. apply H.
  Qed.

  Theorem iso_upd_edge_attr : forall g g' e f f', iso sigma tau g g' ->
    (forall ed, f' (edge_map sigma ed) = edge_map sigma (f ed)) ->
    (forall ed, e_from (f ed) = e_from ed) -> (forall ed, e_to (f ed) = e_to ed) ->
    iso sigma tau (upd_edge g e f) (upd_edge g' (tau e) f').
  Proof.
    intros g g' e f f' H C Kf Kt. apply iso_upd_edge; auto.
    - rewrite Kf. apply (iso_from_lt H).
    - rewrite Kt. apply (iso_to_lt H).
  Qed.

  Lemma iso_set_tree : forall g g' e b, iso sigma tau g g' ->
    iso sigma tau (upd_edge g e (set_tree b)) (upd_edge g' (tau e) (set_tree b)).
  Proof. intros. apply iso_upd_edge_attr; auto. Qed.
  Lemma iso_set_cut : forall g g' e z, iso sigma tau g g' ->
    iso sigma tau (upd_edge g e (set_cut z)) (upd_edge g' (tau e) (set_cut z)).
  Proof. intros. apply iso_upd_edge_attr; auto. Qed.
  Lemma iso_set_pts : forall g g' e p, iso sigma tau g g' ->
    iso sigma tau (upd_edge g e (set_pts p)) (upd_edge g' (tau e) (set_pts p)).
  Proof. intros. apply iso_upd_edge_attr; auto. Qed.
  Lemma iso_set_ahs_rev : forall g g' e, iso sigma tau g g' ->
    iso sigma tau (upd_edge g e (fun ed => set_ahs (e_rev ed) ed)) (upd_edge g' (tau e) (fun ed => set_ahs (e_rev ed) ed)).
  Proof. intros. apply iso_upd_edge_attr; auto. Qed.

  (* list replacement *)
  Lemma iso_with_N : forall g g' l, iso sigma tau g g' -> (forall n, In n l -> n < length (g_na g)) ->
    iso sigma tau (with_N g l) (with_N g' (map sigma l)).
  Proof.
    intros g g' l H R. destruct H as [a b c d e f h i j k m [RN RE RL Rin Rout Rf Rt]].
    constructor; auto. constructor; auto.
  Qed.

  Lemma iso_with_E : forall g g' l, iso sigma tau g g' -> (forall e, In e l -> e < length (g_ea g)) ->
    iso sigma tau (with_E g l) (with_E g' (map tau l)).
  Proof.
    intros g g' l H R. destruct H as [a b c d e f h i j k m [RN RE RL Rin Rout Rf Rt]].
    constructor; auto. constructor; auto.
  Qed.

  Lemma iso_with_L : forall g g' ls, iso sigma tau g g' ->
    (forall l n, In l ls -> In n (l_nodes l) -> n < length (g_na g)) ->
    iso sigma tau (with_L g ls) (with_L g' (map (layer_map sigma) ls)).
  Proof.
    intros g g' l H R. destruct H as [a b c d e f h i j k m [RN RE RL Rin Rout Rf Rt]].
    constructor; auto. constructor; auto.
  Qed.

  (* layer updates that keep the node list (widths, heights) *)
  Lemma iso_map_layers_attr : forall g g' (k k' : layer -> layer), iso sigma tau g g' ->
    (forall l, In l (g_L g) -> k' (layer_map sigma l) = layer_map sigma (k l)) ->
    (forall l, l_nodes (k l) = l_nodes l) ->
    iso sigma tau (with_L g (map k (g_L g))) (with_L g' (map k' (g_L g'))).
  Proof.
    intros g g' k k' H C K.
    assert (E : map k' (g_L g') = map (layer_map sigma) (map k (g_L g))).
    { rewrite (iso_L H). rewrite !map_map. apply map_ext_in. exact C. }
    rewrite E. apply iso_with_L; auto.
    intros l n Hl Hn. apply in_map_iff in Hl. destruct Hl as [l0 [El Hl0]]. subst l.
    rewrite K in Hn. eapply (iso_L_lt H); eauto.
  Qed.

  Lemma iso_upd_layer : forall g g' i (k k' : layer -> layer), iso sigma tau g g' ->
    (forall l, k' (layer_map sigma l) = layer_map sigma (k l)) ->
    (forall n, In n (l_nodes (k (glayer g i))) -> n < length (g_na g)) ->
    iso sigma tau (upd_layer g i k) (upd_layer g' i k').
  Proof.
    intros g g' i k k' H C R. unfold upd_layer.
    assert (E : upd (g_L g') i k' = map (layer_map sigma) (upd (g_L g) i k)).
    { rewrite (iso_L H). apply upd_map. exact C. }
    rewrite E. apply iso_with_L; auto.
    intros l n Hl Hn. apply In_nth with (d := layer0) in Hl. destruct Hl as [j [Lj Ej]].
    rewrite upd_length in Lj. rewrite nth_upd_full in Ej.
    destruct (Nat.eqb i j && Nat.ltb i (length (g_L g))) eqn:B.
    - apply andb_prop in B. destruct B as [B _]. apply Nat.eqb_eq in B. subst j. subst l. apply R. exact Hn.
    - subst l. eapply (iso_L_lt H); eauto. apply nth_In. auto.
  Qed.
End IsoUpd.

(* ---------- R1: Graph.v basics ---------- *)
Section R1.
  Variables sigma tau : nat -> nat.

  Theorem reverse_edge_iso : forall g g' e, iso sigma tau g g' -> e < length (g_ea g) ->
    iso sigma tau (reverse_edge g e) (reverse_edge g' (tau e)).
  Proof.
    intros g g' e H L. unfold reverse_edge.
    rewrite (iso_e_from H), (iso_e_to H) by auto.
    set (a := e_from (gedge g e)). set (b := e_to (gedge g e)).
    assert (H1 : iso sigma tau (upd_node g a (fun n => set_out (el_remove e (n_out n)) n))
                               (upd_node g' (sigma a) (fun n => set_out (el_remove (tau e) (n_out n)) n))).
    { apply iso_set_out with (k := el_remove e) (k' := el_remove (tau e)); auto.
      - apply el_remove_map. apply (iso_tinj H).
      - intros x Hx. unfold el_remove in Hx. rewrite remove_nat_filter in Hx. apply filter_In in Hx.
        eapply (iso_out_lt H). apply Hx. }
    set (g1 := upd_node g a _) in *. set (g1' := upd_node g' (sigma a) _) in *.
    assert (H2 : iso sigma tau (upd_node g1 b (fun n => set_in (el_remove e (n_in n)) n))
                               (upd_node g1' (sigma b) (fun n => set_in (el_remove (tau e) (n_in n)) n))).
    { apply iso_set_in with (k := el_remove e) (k' := el_remove (tau e)); auto.
      - apply el_remove_map. apply (iso_tinj H).
      - intros x Hx. unfold el_remove in Hx. rewrite remove_nat_filter in Hx. apply filter_In in Hx.
        eapply (iso_in_lt H1). apply Hx. }
    set (g2 := upd_node g1 b _) in *. set (g2' := upd_node g1' (sigma b) _) in *.
    assert (L2 : e < length (g_ea g2)) by exact L.
    assert (H3 : iso sigma tau (upd_node g2 a (fun n => set_in (el_add e (n_in n)) n))
                               (upd_node g2' (sigma a) (fun n => set_in (el_add (tau e) (n_in n)) n))).
    { apply iso_set_in with (k := el_add e) (k' := el_add (tau e)); auto.
      - apply el_add_map.
      - intros x Hx. unfold el_add in Hx. apply in_app_or in Hx. destruct Hx as [Hx|[Hx|[]]].
        + eapply (iso_in_lt H2); eauto.
        + subst x. exact L2. }
    set (g3 := upd_node g2 a _) in *. set (g3' := upd_node g2' (sigma a) _) in *.
    assert (L3 : e < length (g_ea g3)) by exact L.
    assert (H4 : iso sigma tau (upd_node g3 b (fun n => set_out (el_add e (n_out n)) n))
                               (upd_node g3' (sigma b) (fun n => set_out (el_add (tau e) (n_out n)) n))).
    { apply iso_set_out with (k := el_add e) (k' := el_add (tau e)); auto.
      - apply el_add_map.
      - intros x Hx. unfold el_add in Hx. apply in_app_or in Hx. destruct Hx as [Hx|[Hx|[]]].
        + eapply (iso_out_lt H3); eauto.
        + subst x. exact L3. }
    set (g4 := upd_node g3 b _) in *. set (g4' := upd_node g3' (sigma b) _) in *.
    assert (Ea : e_from (gedge g4 e) = a) by reflexivity.
    assert (Eb : e_to (gedge g4 e) = b) by reflexivity.
    apply iso_upd_edge; [exact H4|reflexivity| |].
    - intros _. cbn [e_from set_rev set_ends]. rewrite <- Eb. apply (iso_to_lt H4). exact L.
    - intros _. cbn [e_to set_rev set_ends]. rewrite <- Ea. apply (iso_from_lt H4). exact L.
  Qed.

  Theorem connected_node_iso : forall g g' e n, iso sigma tau g g' -> e < length (g_ea g) ->
    connected_node g' (tau e) (sigma n) = sigma (connected_node g e n).
  Proof. intros. apply iso_connected_node; auto. Qed.

  Theorem all_edges_iso : forall g g' n, iso sigma tau g g' -> all_edges g' (sigma n) = map tau (all_edges g n).
  Proof. intros. eapply iso_all_edges; eauto. Qed.

  Theorem self_loop_iso : forall g g' e, iso sigma tau g g' -> e < length (g_ea g) ->
    self_loop g' (tau e) = self_loop g e.
  Proof. intros. eapply iso_self_loop; eauto. Qed.

  Theorem is_flat_iso : forall g g' e, iso sigma tau g g' -> e < length (g_ea g) ->
    is_flat g' (tau e) = is_flat g e.
  Proof. intros. eapply iso_is_flat; eauto. Qed.

  (* fold of an iso-preserving step over corresponding edge lists *)
  Lemma fold_edges_iso : forall (F F' : graph -> nat -> graph) l g g',
    iso sigma tau g g' ->
    (forall e, In e l -> e < length (g_ea g)) ->
    (forall g g' e, iso sigma tau g g' -> e < length (g_ea g) ->
       iso sigma tau (F g e) (F' g' (tau e)) /\ length (g_ea (F g e)) = length (g_ea g)) ->
    iso sigma tau (fold_left F l g) (fold_left F' (map tau l) g').
  Proof.
    induction l as [|e t IH]; cbn; intros g g' H R K; auto.
    destruct (K g g' e H) as [K1 K2]; auto.
    apply IH; auto. intros x Hx. rewrite K2. auto.
  Qed.

  Lemma reverse_edge_ea_length : forall g e, length (g_ea (reverse_edge g e)) = length (g_ea g).
  Proof. intros. unfold reverse_edge. rewrite upd_edge_ea_length. reflexivity. Qed.

  Lemma reverse_edge_na_length : forall g e, length (g_na (reverse_edge g e)) = length (g_na g).
  Proof.
    intros. unfold reverse_edge. cbn [g_na upd_edge with_ea].
    rewrite !upd_node_na_length. reflexivity.
  Qed.

  Lemma fold_reverse_iso : forall l g g', iso sigma tau g g' ->
    (forall e, In e l -> e < length (g_ea g)) ->
    iso sigma tau (fold_left reverse_edge l g) (fold_left reverse_edge (map tau l) g').
  Proof.
    intros. apply fold_edges_iso; auto.
    intros. split; [apply reverse_edge_iso; auto|apply reverse_edge_ea_length].
  Qed.
End R1.
