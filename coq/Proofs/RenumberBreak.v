(* RenumberBreak.v — equivariance under renumbering of phase 3's breakLongEdges (the phase that ALLOCATES new
   arena slots) and of the crossing count of a drawing.

   The new node/edge get the next free arena index on both sides; by [iso_nfresh]/[iso_efresh] these
   correspond under the SAME sigma/tau, and after appending one slot on both sides the fresh-slot condition
   still holds (with k+1). *)
From Autog Require Import Base Graph Phase3.
From Autog.Proofs Require Import ListLemmas RenumberBase.
Local Open Scope nat_scope.

(* ---------- the pure allocation step ---------- *)
Definition alloc (g : graph) (vn : node) (ve : edge) : graph :=
  mkGraph (g_na g ++ [vn]) (g_ea g ++ [ve]) (g_N g) (g_E g) (g_L g).

Lemma alloc_na_length : forall g vn ve, length (g_na (alloc g vn ve)) = S (length (g_na g)).
Proof. intros. unfold alloc. cbn [g_na]. rewrite app_length. cbn. lia. Qed.

Lemma alloc_ea_length : forall g vn ve, length (g_ea (alloc g vn ve)) = S (length (g_ea g)).
Proof. intros. unfold alloc. cbn [g_ea]. rewrite app_length. cbn. lia. Qed.

Lemma gnode_alloc_old : forall g vn ve n, n < length (g_na g) -> gnode (alloc g vn ve) n = gnode g n.
Proof. intros. unfold gnode, alloc. cbn [g_na]. apply app_nth1. auto. Qed.

Lemma gnode_alloc_new : forall g vn ve, gnode (alloc g vn ve) (length (g_na g)) = vn.
Proof. intros. unfold gnode, alloc. cbn [g_na]. rewrite app_nth2 by lia. rewrite Nat.sub_diag. reflexivity. Qed.

Lemma gnode_alloc_oob : forall g vn ve n, S (length (g_na g)) <= n -> gnode (alloc g vn ve) n = node0.
Proof. intros. unfold gnode. apply nth_overflow. rewrite alloc_na_length. auto. Qed.

Lemma gedge_alloc_old : forall g vn ve e, e < length (g_ea g) -> gedge (alloc g vn ve) e = gedge g e.
Proof. intros. unfold gedge, alloc. cbn [g_ea]. apply app_nth1. auto. Qed.

Lemma gedge_alloc_new : forall g vn ve, gedge (alloc g vn ve) (length (g_ea g)) = ve.
Proof. intros. unfold gedge, alloc. cbn [g_ea]. rewrite app_nth2 by lia. rewrite Nat.sub_diag. reflexivity. Qed.

Lemma refs_ok_alloc : forall g vn ve, refs_ok g ->
  (forall e, In e (n_in vn) -> e < S (length (g_ea g))) ->
  (forall e, In e (n_out vn) -> e < S (length (g_ea g))) ->
  e_from ve < S (length (g_na g)) -> e_to ve < S (length (g_na g)) ->
  refs_ok (alloc g vn ve).
Proof.
  intros g vn ve [RN RE RL Rin Rout Rf Rt] Hi Ho Hf Ht.
  constructor; rewrite ?alloc_na_length, ?alloc_ea_length; cbn [g_N g_E g_L alloc].
  - intros n K. apply RN in K. lia.
  - intros e K. apply RE in K. lia.
  - intros l n K1 K2. specialize (RL l n K1 K2). lia.
  - intros n e K. destruct (Nat.lt_ge_cases n (length (g_na g))) as [L|L].
    + rewrite gnode_alloc_old in K by auto. apply Rin in K. lia.
    + destruct (Nat.eq_dec n (length (g_na g))) as [E|E].
      * subst n. rewrite gnode_alloc_new in K. auto.
      * rewrite gnode_alloc_oob in K by lia. destruct K.
  - intros n e K. destruct (Nat.lt_ge_cases n (length (g_na g))) as [L|L].
    + rewrite gnode_alloc_old in K by auto. apply Rout in K. lia.
    + destruct (Nat.eq_dec n (length (g_na g))) as [E|E].
      * subst n. rewrite gnode_alloc_new in K. auto.
      * rewrite gnode_alloc_oob in K by lia. destruct K.
  - intros e L. destruct (Nat.eq_dec e (length (g_ea g))) as [E|E].
    + subst e. rewrite gedge_alloc_new. auto.
    + rewrite gedge_alloc_old by lia. assert (K : e < length (g_ea g)) by lia. apply Rf in K. lia.
  - intros e L. destruct (Nat.eq_dec e (length (g_ea g))) as [E|E].
    + subst e. rewrite gedge_alloc_new. auto.
    + rewrite gedge_alloc_old by lia. assert (K : e < length (g_ea g)) by lia. apply Rt in K. lia.
Qed.

Section Break.
  Variables sigma tau : nat -> nat.

  Lemma iso_alloc : forall g g' vn ve vn' ve', iso sigma tau g g' ->
    vn' = node_map tau vn -> ve' = edge_map sigma ve ->
    (forall e, In e (n_in vn) -> e < S (length (g_ea g))) ->
    (forall e, In e (n_out vn) -> e < S (length (g_ea g))) ->
    e_from ve < S (length (g_na g)) -> e_to ve < S (length (g_na g)) ->
    iso sigma tau (alloc g vn ve) (alloc g' vn' ve').
  Proof.
    intros g g' vn ve vn' ve' H En Ee Hi Ho Hf Ht. subst vn' ve'.
    constructor; rewrite ?alloc_na_length, ?alloc_ea_length; cbn [g_N g_E g_L alloc]; try apply H.
    - intros n L. destruct (Nat.eq_dec n (length (g_na g))) as [E|E].
      + subst n. rewrite (iso_next_node H). lia.
      + assert (K : n < length (g_na g)) by lia. apply (iso_nlt H) in K. lia.
    - intros k. replace (S (length (g_na g)) + k) with (length (g_na g) + S k) by lia.
      rewrite (iso_nfresh H). lia.
    - intros e L. destruct (Nat.eq_dec e (length (g_ea g))) as [E|E].
      + subst e. rewrite (iso_next_edge H). lia.
      + assert (K : e < length (g_ea g)) by lia. apply (iso_elt H) in K. lia.
    - intros k. replace (S (length (g_ea g)) + k) with (length (g_ea g) + S k) by lia.
      rewrite (iso_efresh H). lia.
    - intros n L. destruct (Nat.eq_dec n (length (g_na g))) as [E|E].
      + subst n. rewrite (iso_next_node H). rewrite !gnode_alloc_new. reflexivity.
      + assert (K : n < length (g_na g)) by lia.
        rewrite gnode_alloc_old by (apply (iso_nlt H); auto). rewrite gnode_alloc_old by auto.
        apply (iso_node H). auto.
    - intros e L. destruct (Nat.eq_dec e (length (g_ea g))) as [E|E].
      + subst e. rewrite (iso_next_edge H). rewrite !gedge_alloc_new. reflexivity.
      + assert (K : e < length (g_ea g)) by lia.
        rewrite gedge_alloc_old by (apply (iso_elt H); auto). rewrite gedge_alloc_old by auto.
        apply (iso_edge H). auto.
    - apply refs_ok_alloc; auto. apply H.
  Qed.

  (* break_edge as allocation followed by the toolkit's updates *)
  Lemma break_edge_eq : forall g e, break_edge g e =
    let ed := gedge g e in
    let v := length (g_na g) in let f := length (g_ea g) in
    let lv := (layer_of g (e_from ed) + 1)%Z in
    let g1 := alloc g (mkNode [e] [f] lv 0 true 0 0 0 0) (mkEdge v (e_to ed) 1 1 false (e_rev ed) 0 [] false) in
    let g3 := upd_edge g1 e (fun ed => set_ends (e_from ed) v ed) in
    let g4 := upd_node g3 (e_to ed) (fun n => set_in (replace_first e f (n_in n)) n) in
    let g5 := with_E g4 (g_E g ++ [f]) in
    let g6 := with_N g5 (g_N g ++ [v]) in
    upd_layer g6 (Z.to_nat lv) (fun l => mkLayer (l_nodes l ++ [v]) (l_w l) (l_h l)).
  Proof. reflexivity. Qed.

  Lemma In_replace_first : forall x y l z, In z (replace_first x y l) -> z = y \/ In z l.
  Proof.
    induction l as [|a t IH]; cbn; intros z K; auto.
    destruct (Nat.eqb x a).
    - destruct K as [K|K]; auto.
    - destruct K as [K|K]; auto. apply IH in K. tauto.
  Qed.

  Lemma break_edge_ea_length : forall g e, length (g_ea (break_edge g e)) = S (length (g_ea g)).
  Proof.
    intros. rewrite break_edge_eq. cbv zeta. cbn [g_ea upd_layer with_L with_N with_E upd_node with_na].
    rewrite upd_edge_ea_length. apply alloc_ea_length.
  Qed.

  Lemma break_edge_na_length : forall g e, length (g_na (break_edge g e)) = S (length (g_na g)).
  Proof.
    intros. rewrite break_edge_eq. cbv zeta. cbn [g_na upd_layer with_L with_N with_E].
    rewrite upd_node_na_length. cbn [g_na upd_edge with_ea]. apply alloc_na_length.
  Qed.

  Lemma break_edge_E : forall g e, g_E (break_edge g e) = g_E g ++ [length (g_ea g)].
  Proof. reflexivity. Qed.

  Lemma break_edge_N : forall g e, g_N (break_edge g e) = g_N g ++ [length (g_na g)].
  Proof. reflexivity. Qed.

  Theorem break_edge_iso : forall g g' e, iso sigma tau g g' -> e < length (g_ea g) ->
    iso sigma tau (break_edge g e) (break_edge g' (tau e)).
  Proof.
    intros g g' e H L. rewrite !break_edge_eq. cbv zeta.
    rewrite (iso_e_from H), (iso_e_to H), (iso_e_rev H) by auto. rewrite (iso_layer_of H).
    rewrite <- (iso_next_node H), <- (iso_next_edge H).
    set (ed := gedge g e). set (v := length (g_na g)). set (f := length (g_ea g)).
    set (lv := (layer_of g (e_from ed) + 1)%Z).
    assert (H1 : iso sigma tau
        (alloc g (mkNode [e] [f] lv 0 true 0 0 0 0) (mkEdge v (e_to ed) 1 1 false (e_rev ed) 0 [] false))
        (alloc g' (mkNode [tau e] [tau f] lv 0 true 0 0 0 0)
                  (mkEdge (sigma v) (sigma (e_to ed)) 1 1 false (e_rev ed) 0 [] false))).
    { apply iso_alloc; auto; cbn [n_in n_out e_from e_to].
      - intros x [K|[]]. subst x. lia.
      - intros x [K|[]]. subst x. fold f. lia.
      - generalize (iso_to_lt H L). fold ed. fold v. lia. }
    set (g1 := alloc g _ _) in *. set (g1' := alloc g' _ _) in *.
    assert (Lna1 : length (g_na g1) = S v) by apply alloc_na_length.
    assert (Lea1 : length (g_ea g1) = S f) by apply alloc_ea_length.
    assert (L1 : e < length (g_ea g1)) by lia.
    assert (H3 : iso sigma tau (upd_edge g1 e (fun ed => set_ends (e_from ed) v ed))
                               (upd_edge g1' (tau e) (fun ed => set_ends (e_from ed) (sigma v) ed))).
    { apply iso_upd_edge; auto.
      - intros _. cbn [e_from set_ends]. apply (iso_from_lt H1). auto.
      - intros _. cbn [e_to set_ends]. lia. }
    set (g3 := upd_edge g1 e _) in *. set (g3' := upd_edge g1' (tau e) _) in *.
    assert (Lna3 : length (g_na g3) = S v) by exact Lna1.
    assert (Lea3 : length (g_ea g3) = S f).
    { unfold g3. rewrite upd_edge_ea_length. auto. }
    assert (H4 : iso sigma tau (upd_node g3 (e_to ed) (fun n => set_in (replace_first e f (n_in n)) n))
                               (upd_node g3' (sigma (e_to ed)) (fun n => set_in (replace_first (tau e) (tau f) (n_in n)) n))).
    { apply iso_set_in with (k := replace_first e f) (k' := replace_first (tau e) (tau f)); auto.
      - apply replace_first_map. apply (iso_tinj H).
      - intros x Hx. apply In_replace_first in Hx. destruct Hx as [Hx|Hx].
        + subst x. lia.
        + eapply (iso_in_lt H3); eauto. }
    set (g4 := upd_node g3 _ _) in *. set (g4' := upd_node g3' _ _) in *.
    assert (Lna4 : length (g_na g4) = S v).
    { unfold g4. rewrite upd_node_na_length. auto. }
    assert (Lea4 : length (g_ea g4) = S f) by exact Lea3.
    assert (H5 : iso sigma tau (with_E g4 (g_E g ++ [f])) (with_E g4' (g_E g' ++ [tau f]))).
    { replace (g_E g' ++ [tau f]) with (map tau (g_E g ++ [f])).
      - apply iso_with_E; auto. intros x Hx. apply in_app_or in Hx. destruct Hx as [Hx|[Hx|[]]].
        + apply (iso_E_lt H) in Hx. fold f in Hx. lia.
        + subst x. lia.
      - rewrite map_app. rewrite (iso_E H). reflexivity. }
    set (g5 := with_E g4 _) in *. set (g5' := with_E g4' _) in *.
    assert (H6 : iso sigma tau (with_N g5 (g_N g ++ [v])) (with_N g5' (g_N g' ++ [sigma v]))).
    { replace (g_N g' ++ [sigma v]) with (map sigma (g_N g ++ [v])).
      - apply iso_with_N; auto. intros x Hx. apply in_app_or in Hx. destruct Hx as [Hx|[Hx|[]]].
        + apply (iso_N_lt H) in Hx. fold v in Hx. change (length (g_na g5)) with (length (g_na g4)). lia.
        + subst x. change (length (g_na g5)) with (length (g_na g4)). lia.
      - rewrite map_app. rewrite (iso_N H). reflexivity. }
    set (g6 := with_N g5 _) in *. set (g6' := with_N g5' _) in *.
    assert (Lna6 : length (g_na g6) = S v) by exact Lna4.
    apply iso_upd_layer; auto.
    - intros l. unfold layer_map. cbn [l_nodes l_w l_h]. rewrite map_app. reflexivity.
    - intros n Hn. cbn [l_nodes] in Hn. apply in_app_or in Hn. destruct Hn as [Hn|[Hn|[]]].
      + rewrite Lna6. destruct (Nat.lt_ge_cases (Z.to_nat lv) (length (g_L g6))) as [K|K].
        * assert (B : n < length (g_na g6)).
          { eapply (iso_L_lt H6); [|exact Hn]. unfold glayer. apply nth_In. exact K. }
          lia.
        * unfold glayer in Hn. rewrite nth_overflow in Hn by auto. destruct Hn.
      + subst n. lia.
  Qed.

  Theorem break_long_loop_iso : forall fuel i g g', iso sigma tau g g' ->
    res_rel (iso sigma tau) (break_long_loop fuel i g) (break_long_loop fuel i g').
  Proof.
    induction fuel as [|fu IH]; intros i g g' H; cbn [break_long_loop].
    - constructor.
    - rewrite (iso_E H), nth_error_map'.
      destruct (nth_error (g_E g) i) as [e|] eqn:En; cbn [option_map].
      + assert (L : e < length (g_ea g)).
        { apply (iso_E_lt H). eapply nth_error_In. exact En. }
        rewrite (iso_e_from H), (iso_e_to H) by auto. rewrite !(iso_layer_of H).
        destruct (1 <? layer_of g (e_to (gedge g e)) - layer_of g (e_from (gedge g e)))%Z eqn:C1.
        * apply IH. apply break_edge_iso; auto.
        * destruct (1 <? layer_of g (e_from (gedge g e)) - layer_of g (e_to (gedge g e)))%Z eqn:C2.
          -- apply IH.
             assert (Hr : iso sigma tau (reverse_edge g e) (reverse_edge g' (tau e))).
             { apply reverse_edge_iso; auto. }
             rewrite <- (iso_next_edge Hr).
             assert (Lr : e < length (g_ea (reverse_edge g e))).
             { rewrite reverse_edge_ea_length. auto. }
             assert (Hb : iso sigma tau (break_edge (reverse_edge g e) e) (break_edge (reverse_edge g' (tau e)) (tau e))).
             { apply break_edge_iso; auto. }
             assert (Lb : e < length (g_ea (break_edge (reverse_edge g e) e))).
             { rewrite break_edge_ea_length. lia. }
             assert (Hr2 : iso sigma tau (reverse_edge (break_edge (reverse_edge g e) e) e)
                                         (reverse_edge (break_edge (reverse_edge g' (tau e)) (tau e)) (tau e))).
             { apply reverse_edge_iso; auto. }
             apply reverse_edge_iso; [exact Hr2|].
             rewrite !reverse_edge_ea_length, break_edge_ea_length, reverse_edge_ea_length. lia.
          -- apply IH. auto.
      + constructor. auto.
  Qed.

  Theorem total_span_iso : forall g g', iso sigma tau g g' -> total_span g' = total_span g.
  Proof.
    intros g g' H. unfold total_span. rewrite (iso_E H). symmetry.
    apply fold_left_rel with (R := @eq Z); auto.
    intros a b e He E. subst b.
    assert (L : e < length (g_ea g)) by (apply (iso_E_lt H); auto).
    rewrite (iso_e_from H), (iso_e_to H) by auto. rewrite !(iso_layer_of H). reflexivity.
  Qed.

  Theorem break_long_edges_iso : forall g g', iso sigma tau g g' ->
    res_rel (iso sigma tau) (break_long_edges g) (break_long_edges g').
  Proof.
    intros g g' H. unfold break_long_edges.
    rewrite (total_span_iso _ _ H), (iso_E_length H). apply break_long_loop_iso. auto.
  Qed.

  (* ---------- crossing count of the drawing ---------- *)
  Lemma pos_of_iso : forall g g', iso sigma tau g g' -> forall n, pos_of g' (sigma n) = pos_of g n.
  Proof. intros g g' H n. unfold pos_of. apply (iso_n_pos H). Qed.

  Lemma bilayer_pairs_iso : forall g g' la lb, iso sigma tau g g' -> bilayer_pairs g' la lb = bilayer_pairs g la lb.
  Proof.
    intros g g' la lb H. unfold bilayer_pairs. rewrite (iso_E H).
    apply flat_map_map_same. intros e He.
    assert (L : e < length (g_ea g)) by (apply (iso_E_lt H); auto).
    rewrite (iso_e_from H), (iso_e_to H) by auto. rewrite !(iso_layer_of H), !(pos_of_iso _ _ H). reflexivity.
  Qed.

  Theorem drawing_crossings_iso : forall g g', iso sigma tau g g' -> drawing_crossings g' = drawing_crossings g.
  Proof.
    intros g g' H. unfold drawing_crossings. rewrite (iso_L_length H). symmetry.
    apply fold_left_rel_same with (R := @eq Z); auto.
    intros a b i _ E. subst b. rewrite (bilayer_pairs_iso _ _ _ _ H). reflexivity.
  Qed.
End Break.

Print Assumptions break_edge_iso.
Print Assumptions break_long_loop_iso.
Print Assumptions total_span_iso.
Print Assumptions break_long_edges_iso.
Print Assumptions drawing_crossings_iso.

(* ---------- a concrete, non-trivial instance: the hypotheses are satisfiable and the theorem has content ----------
   g: one edge spanning two layers; g': the same graph at shifted indices behind an unrelated junk node/edge. *)
Module BreakExample.
  Definition g : graph :=
    mkGraph [mkNode [] [0] 0 0 false 0 0 0 0; mkNode [0] [] 2 0 false 0 0 0 0]
            [mkEdge 0 1 1 1 false false 0 [] false]
            [0; 1] [0] [mkLayer [0] 0 0; mkLayer [] 0 0; mkLayer [1] 0 0].
  Definition g' : graph :=
    mkGraph [mkNode [7] [9] 5 3 true 0 0 0 0; mkNode [] [1] 0 0 false 0 0 0 0; mkNode [1] [] 2 0 false 0 0 0 0]
            [mkEdge 4 4 1 1 true true 0 [] false; mkEdge 1 2 1 1 false false 0 [] false]
            [1; 2] [1] [mkLayer [1] 0 0; mkLayer [] 0 0; mkLayer [2] 0 0].

  Example iso_g_g' : iso S S g g'.
  Proof.
    constructor; try reflexivity.
    - intros a b E. lia.
    - intros a b E. lia.
    - cbn. intros. lia.
    - cbn. intros. lia.
    - intros n L. cbn in L. destruct n as [|[|n]]; try lia; reflexivity.
    - intros e L. cbn in L. destruct e as [|e]; try lia; reflexivity.
    - constructor; cbn.
      + intros n [K|[K|[]]]; lia.
      + intros e [K|[]]; lia.
      + intros l n [K|[K|[K|[]]]] K2; subst l; cbn in K2; intuition lia.
      + intros [|[|[|n]]] e; cbn; intros K; intuition lia.
      + intros [|[|[|n]]] e; cbn; intros K; intuition lia.
      + intros [|e] L; cbn; lia.
      + intros [|e] L; cbn; lia.
  Qed.

  (* both sides succeed and allocate one virtual node and one edge *)
  Example break_g : exists r r', break_long_edges g = Ok r /\ break_long_edges g' = Ok r' /\
    length (g_na r) = 3 /\ length (g_na r') = 4 /\ g_E r = [0; 1] /\ g_E r' = [1; 2] /\ iso S S r r'.
  Proof.
    generalize (break_long_edges_iso S S g g' iso_g_g').
    destruct (break_long_edges g) as [r|] eqn:E1; [|vm_compute in E1; discriminate].
    destruct (break_long_edges g') as [r'|] eqn:E2; [|vm_compute in E2; discriminate].
    intros K. apply res_rel_ok_inv in K. exists r, r'.
    vm_compute in E1. vm_compute in E2. injection E1 as E1. injection E2 as E2.
    subst r r'. do 6 (split; [reflexivity|]). exact K.
  Qed.
End BreakExample.
