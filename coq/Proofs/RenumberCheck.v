(* RenumberCheck.v — a boolean version of [iso] (sound), index maps built from position lists, and the concrete
   instance used as satisfiability example throughout the Renumber* files: a 2-component union (components
   interleaved in the arena) against its second component populated alone. *)
From Autog Require Import Base Graph Populate Layout Pipeline.
From Autog.Proofs Require Import ListLemmas RenumberBase.
Local Open Scope nat_scope.
Set Implicit Arguments.

(* ---------- Leibniz-exact boolean equalities ---------- *)
Definition q_beq (a b : Q) : bool := Z.eqb (Qnum a) (Qnum b) && Pos.eqb (Qden a) (Qden b).
Lemma q_beq_eq : forall a b, q_beq a b = true -> a = b.
Proof.
  intros [an ad] [bn bd] K. unfold q_beq in K. cbn in K. apply andb_prop in K. destruct K as [K1 K2].
  apply Z.eqb_eq in K1. apply Pos.eqb_eq in K2. subst. reflexivity.
Qed.

Lemma list_eqb_eq : forall A (eqb : A -> A -> bool), (forall x y, eqb x y = true -> x = y) ->
  forall a b, list_eqb eqb a b = true -> a = b.
Proof.
  intros A eqb E. induction a as [|x s IH]; intros [|y t] K; cbn in K; try discriminate; auto.
  apply andb_prop in K. destruct K as [K1 K2]. f_equal; auto.
Qed.

Definition nat_beq_eq : forall x y, Nat.eqb x y = true -> x = y := fun x y K => proj1 (Nat.eqb_eq x y) K.

Definition pt_beq (a b : pt) : bool := q_beq (fst a) (fst b) && q_beq (snd a) (snd b).
Lemma pt_beq_eq : forall a b, pt_beq a b = true -> a = b.
Proof.
  intros [a1 a2] [b1 b2] K. unfold pt_beq in K. cbn in K. apply andb_prop in K. destruct K as [K1 K2].
  apply q_beq_eq in K1. apply q_beq_eq in K2. subst. reflexivity.
Qed.

Definition node_beq (a b : node) : bool :=
  list_eqb Nat.eqb (n_in a) (n_in b) && list_eqb Nat.eqb (n_out a) (n_out b) &&
  Z.eqb (n_layer a) (n_layer b) && Z.eqb (n_pos a) (n_pos b) && Bool.eqb (n_virt a) (n_virt b) &&
  q_beq (n_x a) (n_x b) && q_beq (n_y a) (n_y b) && q_beq (n_w a) (n_w b) && q_beq (n_h a) (n_h b).
Lemma node_beq_eq : forall a b, node_beq a b = true -> a = b.
Proof.
  intros [a1 a2 a3 a4 a5 a6 a7 a8 a9] [b1 b2 b3 b4 b5 b6 b7 b8 b9] K. unfold node_beq in K. cbn in K.
  repeat (apply andb_prop in K; let K' := fresh "K" in destruct K as [K K']).
  apply (list_eqb_eq _ nat_beq_eq) in K. apply (list_eqb_eq _ nat_beq_eq) in K7.
  apply Z.eqb_eq in K6. apply Z.eqb_eq in K5. apply eqb_prop in K4.
  apply q_beq_eq in K3. apply q_beq_eq in K2. apply q_beq_eq in K1. apply q_beq_eq in K0.
  subst. reflexivity.
Qed.

Definition edge_beq (a b : edge) : bool :=
  Nat.eqb (e_from a) (e_from b) && Nat.eqb (e_to a) (e_to b) && Z.eqb (e_delta a) (e_delta b) &&
  Z.eqb (e_weight a) (e_weight b) && Bool.eqb (e_tree a) (e_tree b) && Bool.eqb (e_rev a) (e_rev b) &&
  Z.eqb (e_cut a) (e_cut b) && list_eqb pt_beq (e_pts a) (e_pts b) && Bool.eqb (e_ahs a) (e_ahs b).
Lemma edge_beq_eq : forall a b, edge_beq a b = true -> a = b.
Proof.
  intros [a1 a2 a3 a4 a5 a6 a7 a8 a9] [b1 b2 b3 b4 b5 b6 b7 b8 b9] K. unfold edge_beq in K. cbn in K.
  repeat (apply andb_prop in K; let K' := fresh "K" in destruct K as [K K']).
  apply Nat.eqb_eq in K. apply Nat.eqb_eq in K7. apply Z.eqb_eq in K6. apply Z.eqb_eq in K5.
  apply eqb_prop in K4. apply eqb_prop in K3. apply Z.eqb_eq in K2.
  apply (list_eqb_eq _ pt_beq_eq) in K1. apply eqb_prop in K0.
  subst. reflexivity.
Qed.

Definition layer_beq (a b : layer) : bool :=
  list_eqb Nat.eqb (l_nodes a) (l_nodes b) && q_beq (l_w a) (l_w b) && q_beq (l_h a) (l_h b).
Lemma layer_beq_eq : forall a b, layer_beq a b = true -> a = b.
Proof.
  intros [a1 a2 a3] [b1 b2 b3] K. unfold layer_beq in K. cbn in K.
  repeat (apply andb_prop in K; let K' := fresh "K" in destruct K as [K K']).
  apply (list_eqb_eq _ nat_beq_eq) in K. apply q_beq_eq in K1. apply q_beq_eq in K0. subst. reflexivity.
Qed.

(* ---------- refs_ok, boolean ---------- *)
Definition refs_okb (g : graph) : bool :=
  let na := length (g_na g) in let ea := length (g_ea g) in
  forallb (fun n => Nat.ltb n na) (g_N g) &&
  forallb (fun e => Nat.ltb e ea) (g_E g) &&
  forallb (fun l => forallb (fun n => Nat.ltb n na) (l_nodes l)) (g_L g) &&
  forallb (fun nd => forallb (fun e => Nat.ltb e ea) (n_in nd) && forallb (fun e => Nat.ltb e ea) (n_out nd)) (g_na g) &&
  forallb (fun ed => Nat.ltb (e_from ed) na && Nat.ltb (e_to ed) na) (g_ea g).

Lemma refs_okb_sound : forall g, refs_okb g = true -> refs_ok g.
Proof.
  intros g K. unfold refs_okb in K.
  apply andb_prop in K. destruct K as [K K3]. apply andb_prop in K. destruct K as [K K0].
  apply andb_prop in K. destruct K as [K K1]. apply andb_prop in K. destruct K as [K K2].
  rewrite forallb_forall in K, K2, K1, K0, K3.
  constructor.
  - intros n Hn. apply Nat.ltb_lt. apply K. exact Hn.
  - intros e He. apply Nat.ltb_lt. apply K2. exact He.
  - intros l n Hl Hn. specialize (K1 l Hl). rewrite forallb_forall in K1. apply Nat.ltb_lt. apply K1. exact Hn.
  - intros n e He. destruct (Nat.lt_ge_cases n (length (g_na g))) as [L|L].
    + specialize (K0 (gnode g n) (nth_In _ _ L)). apply andb_prop in K0. destruct K0 as [A _].
      rewrite forallb_forall in A. apply Nat.ltb_lt. apply A. exact He.
    + unfold gnode in He. rewrite nth_overflow in He by auto. destruct He.
  - intros n e He. destruct (Nat.lt_ge_cases n (length (g_na g))) as [L|L].
    + specialize (K0 (gnode g n) (nth_In _ _ L)). apply andb_prop in K0. destruct K0 as [_ A].
      rewrite forallb_forall in A. apply Nat.ltb_lt. apply A. exact He.
    + unfold gnode in He. rewrite nth_overflow in He by auto. destruct He.
  - intros e L. specialize (K3 (gedge g e) (nth_In _ _ L)). apply andb_prop in K3. destruct K3 as [A _].
    apply Nat.ltb_lt. exact A.
  - intros e L. specialize (K3 (gedge g e) (nth_In _ _ L)). apply andb_prop in K3. destruct K3 as [_ A].
    apply Nat.ltb_lt. exact A.
Qed.

(* ---------- iso, boolean (the finite part) ---------- *)
Definition isob (sigma tau : nat -> nat) (g g' : graph) : bool :=
  list_eqb Nat.eqb (g_N g') (map sigma (g_N g)) &&
  list_eqb Nat.eqb (g_E g') (map tau (g_E g)) &&
  list_eqb layer_beq (g_L g') (map (layer_map sigma) (g_L g)) &&
  forallb (fun n => Nat.ltb (sigma n) (length (g_na g')) && node_beq (gnode g' (sigma n)) (node_map tau (gnode g n)))
          (iota 0 (length (g_na g))) &&
  forallb (fun e => Nat.ltb (tau e) (length (g_ea g')) && edge_beq (gedge g' (tau e)) (edge_map sigma (gedge g e)))
          (iota 0 (length (g_ea g))) &&
  refs_okb g.

Theorem isob_sound : forall sigma tau g g', inj sigma -> inj tau ->
  (forall k, sigma (length (g_na g) + k) = length (g_na g') + k) ->
  (forall k, tau (length (g_ea g) + k) = length (g_ea g') + k) ->
  isob sigma tau g g' = true -> iso sigma tau g g'.
Proof.
  intros sigma tau g g' Is It Fs Ft K. unfold isob in K.
  apply andb_prop in K. destruct K as [K K4]. apply andb_prop in K. destruct K as [K K0].
  apply andb_prop in K. destruct K as [K K1]. apply andb_prop in K. destruct K as [K K2].
  apply andb_prop in K. destruct K as [K K3].
  apply (list_eqb_eq _ nat_beq_eq) in K. apply (list_eqb_eq _ nat_beq_eq) in K3.
  apply (list_eqb_eq _ layer_beq_eq) in K2.
  rewrite forallb_forall in K1, K0.
  assert (N : forall n, n < length (g_na g) ->
            sigma n < length (g_na g') /\ gnode g' (sigma n) = node_map tau (gnode g n)).
  { intros n L. specialize (K1 n). rewrite in_iota in K1. specialize (K1 (conj (Nat.le_0_l n) L)).
    apply andb_prop in K1. destruct K1 as [A B]. apply Nat.ltb_lt in A. apply node_beq_eq in B. auto. }
  assert (E : forall e, e < length (g_ea g) ->
            tau e < length (g_ea g') /\ gedge g' (tau e) = edge_map sigma (gedge g e)).
  { intros e L. specialize (K0 e). rewrite in_iota in K0. specialize (K0 (conj (Nat.le_0_l e) L)).
    apply andb_prop in K0. destruct K0 as [A B]. apply Nat.ltb_lt in A. apply edge_beq_eq in B. auto. }
  constructor; auto.
  - intros n L. apply N; auto.
  - intros e L. apply E; auto.
  - intros n L. apply N; auto.
  - intros e L. apply E; auto.
  - apply refs_okb_sound; auto.
Qed.

(* ---------- index maps from position lists ---------- *)
(* position i < length l goes to the i-th element of l; position length l + k goes to A + k *)
Definition mk_map (l : list nat) (A : nat) (i : nat) : nat :=
  if Nat.ltb i (length l) then nth i l 0 else A + (i - length l).

Lemma mk_map_lt : forall l A i, i < length l -> mk_map l A i = nth i l 0.
Proof. intros l A i L. unfold mk_map. apply Nat.ltb_lt in L. rewrite L. reflexivity. Qed.

Lemma mk_map_fresh : forall l A k, mk_map l A (length l + k) = A + k.
Proof.
  intros l A k. unfold mk_map. destruct (Nat.ltb (length l + k) (length l)) eqn:L.
  - apply Nat.ltb_lt in L. lia.
  - f_equal. lia.
Qed.

Lemma mk_map_inj : forall l A, NoDup l -> (forall x, In x l -> x < A) -> inj (mk_map l A).
Proof.
  intros l A ND R a b K. unfold mk_map in K.
  destruct (Nat.ltb a (length l)) eqn:La; destruct (Nat.ltb b (length l)) eqn:Lb.
  - apply Nat.ltb_lt in La. apply Nat.ltb_lt in Lb. rewrite (NoDup_nth l 0) in ND. apply ND; auto.
  - apply Nat.ltb_lt in La. assert (nth a l 0 < A) by (apply R; apply nth_In; auto). lia.
  - apply Nat.ltb_lt in Lb. assert (nth b l 0 < A) by (apply R; apply nth_In; auto). lia.
  - apply Nat.ltb_ge in La. apply Nat.ltb_ge in Lb. lia.
Qed.

Lemma map_mk_map_iota : forall l A, map (mk_map l A) (iota 0 (length l)) = l.
Proof.
  intros l A. apply nth_ext with (d := mk_map l A 0) (d' := 0).
  - rewrite map_length, iota_length. reflexivity.
  - intros i L. rewrite map_length, iota_length in L. rewrite map_nth.
    rewrite iota_seq, seq_nth by auto. cbn. apply mk_map_lt. auto.
Qed.

(* ---------- the concrete instance ---------- *)
(* union: edges 1->2, 3->4, 2->6, 4->5, 3->5, 5->3; components {1,2,6} (nodes 0,1,4; edges 0,2) and
   {3,4,5} (nodes 2,3,5; edges 1,3,4,5: contains a cycle, so phase 1 has work to do) *)
Definition ex_union_edges : list (list nat) := [[1;2];[3;4];[2;6];[4;5];[3;5];[5;3]].
Definition ex_sole_edges : list (list nat) := [[3;4];[4;5];[3;5];[5;3]].

Definition ex_graph_of (es : list (list nat)) : graph :=
  match populate nat Nat.eqb es with
  | Ok (ids, g) => apply_sizes nat Nat.eqb (Some (30, 20)%Q) None ids g
  | Err _ => empty_graph
  end.

Definition ex_union : graph := Eval vm_compute in ex_graph_of ex_union_edges.
Definition ex_sole_arena : graph := Eval vm_compute in ex_graph_of ex_sole_edges.
(* the second component of the union, and the only component of the sole input *)
Definition ex_comp : graph := Eval vm_compute in nth 1 (components ex_union) empty_graph.
Definition ex_sole : graph := Eval vm_compute in nth 0 (components ex_sole_arena) empty_graph.

Definition ex_sigma : nat -> nat := mk_map (g_N ex_comp) (length (g_na ex_comp)).
Definition ex_tau : nat -> nat := mk_map (g_E ex_comp) (length (g_ea ex_comp)).

Example ex_two_components : length (components ex_union) = 2 /\ length (components ex_sole_arena) = 1.
Proof. vm_compute. auto. Qed.

Example ex_maps : map ex_sigma [0;1;2;3;4] = [2;3;5;6;7] /\ map ex_tau [0;1;2;3;4;5] = [1;3;4;5;6;7].
Proof. vm_compute. auto. Qed.

Ltac list_in_cases H :=
  repeat match type of H with
         | In _ (_ :: _) => destruct H as [H|H]; [subst|]
         | In _ [] => destruct H
         end.

Lemma ex_sigma_inj : inj ex_sigma.
Proof.
  apply mk_map_inj.
  - vm_compute. repeat constructor; cbn; intuition congruence.
  - intros x Hx. vm_compute in Hx. list_in_cases Hx; vm_compute; lia.
Qed.

Lemma ex_tau_inj : inj ex_tau.
Proof.
  apply mk_map_inj.
  - vm_compute. repeat constructor; cbn; intuition congruence.
  - intros x Hx. vm_compute in Hx. list_in_cases Hx; vm_compute; lia.
Qed.

(* the sole layout's input is isomorphic to the component inside the union *)
Example ex_iso : iso ex_sigma ex_tau ex_sole ex_comp.
Proof.
  apply isob_sound.
  - exact ex_sigma_inj.
  - exact ex_tau_inj.
  - intros k. change (length (g_na ex_sole)) with (length (g_N ex_comp)). apply mk_map_fresh.
  - intros k. change (length (g_ea ex_sole)) with (length (g_E ex_comp)). apply mk_map_fresh.
  - vm_compute. reflexivity.
Qed.

Print Assumptions isob_sound.
Print Assumptions ex_iso.
