(* RenumberCollect.v — R6, output side: the records collected from isomorphic states are the same up to the
   renaming of on_id / oe_from / oe_to; coordinates, sizes, points and flags are identical; rightmost is equal. *)
From Autog Require Import Base Graph Populate Phase4 Layout.
From Autog.Proofs Require Import ListLemmas RenumberBase.
Local Open Scope nat_scope.
Set Implicit Arguments.

Definition rename_onode (sigma : nat -> nat) (o : onode) : onode :=
  mkONode (sigma (on_id o)) (on_x o) (on_y o) (on_w o) (on_h o).
Definition rename_oedge (sigma : nat -> nat) (o : oedge) : oedge :=
  mkOEdge (sigma (oe_from o)) (sigma (oe_to o)) (oe_pts o) (oe_ahs o).

Section CollectIso.
  Variables sigma tau : nat -> nat.

  Theorem collect_nodes_iso : forall iv shift g g', iso sigma tau g g' ->
    collect_nodes iv shift g' = map (rename_onode sigma) (collect_nodes iv shift g).
  Proof.
    intros iv shift g g' H. unfold collect_nodes. rewrite (iso_N H).
    apply flat_map_map_comm. intros n _. rewrite (iso_gnode H). cbn [n_virt n_x n_y n_w n_h node_map].
    destruct (n_virt (gnode g n) && negb iv); reflexivity.
  Qed.

  Theorem collect_edges_iso : forall shift g g', iso sigma tau g g' ->
    collect_edges shift g' = map (rename_oedge sigma) (collect_edges shift g).
  Proof.
    intros shift g g' H. unfold collect_edges. rewrite (iso_E H). rewrite !map_map.
    apply map_ext_in. intros e He. rewrite (iso_edge H) by (apply (iso_E_lt H); exact He). reflexivity.
  Qed.

  Theorem rightmost_iso : forall g g', iso sigma tau g g' -> rightmost g' = rightmost g.
  Proof.
    intros g g' H. unfold rightmost. rewrite (iso_L H).
    apply fold_left_rel with (R := fun a b : Q => b = a) (h := layer_map sigma); auto.
    intros a b l _ E. subst b. cbn [l_nodes layer_map]. rewrite last_opt_map.
    destruct (last_opt (l_nodes l)) as [n|]; cbn [option_map]; auto.
    unfold nX, nW. rewrite (iso_n_x H), (iso_n_w H). reflexivity.
  Qed.
End CollectIso.

Print Assumptions collect_nodes_iso.
Print Assumptions collect_edges_iso.
Print Assumptions rightmost_iso.
