(* RenumberComponent.v — R7: a connected component of a larger input, as handed to the per-component pipeline,
   is isomorphic (in the sense of [iso], RenumberBase.v) to the graph obtained by populating that component's
   edge sub-list alone.

   Direction of the maps: [iso sigma tau SMALL BIG] where SMALL is the graph populated from the component's edges
   alone and BIG is the component inside the union (its arenas contain the other components as junk);
   sigma = mk_map (g_N c) (length (g_na g)), tau = mk_map (g_E c) (length (g_ea g)) send the dense indices of SMALL
   to the (increasing) positions of the component inside the arenas of the union. *)
From Autog Require Import Base Graph Populate.
From Autog.Proofs Require Import ListLemmas Consistent PopulateProofs SizesProofs ComponentsProofs Summary
     RenumberBase RenumberCheck.
Local Open Scope nat_scope.
Set Implicit Arguments.

(* ====================================================================================================== *)
(* A. generic list facts                                                                                   *)
(* ====================================================================================================== *)

(* selecting positions by q and reading them = filtering the values by q', when q and q' agree *)
Lemma map_nth_filter_iota : forall (X : Type) (d : X) (q : nat -> bool) (q' : X -> bool) (l : list X),
  (forall i, i < length l -> q i = q' (nth i l d)) ->
  map (fun i => nth i l d) (filter q (iota 0 (length l))) = filter q' l.
Proof.
  intros X d q q'. induction l as [|x l IH] using rev_ind; intros H; [reflexivity|].
  rewrite app_length. cbn [length]. rewrite Nat.add_1_r. rewrite iota_snoc. cbn [plus].
  rewrite !filter_app, map_app.
  assert (E1 : map (fun i => nth i (l ++ [x]) d) (filter q (iota 0 (length l))) = filter q' l).
  { rewrite <- IH.
    - apply map_ext_in. intros i Hi. apply filter_In in Hi. destruct Hi as [Hi _]. apply in_iota in Hi.
      apply app_nth1. lia.
    - intros i L. rewrite H by (rewrite app_length; cbn; lia). rewrite app_nth1 by auto. reflexivity. }
  rewrite E1. f_equal.
  cbn [filter]. rewrite (H (length l)) by (rewrite app_length; cbn; lia).
  rewrite app_nth2 by lia. rewrite Nat.sub_diag. cbn [nth].
  destruct (q' x); cbn; [|reflexivity]. rewrite app_nth2 by lia. rewrite Nat.sub_diag. reflexivity.
Qed.

(* a filter on the blocks that is uniform on every block commutes with concat *)
Lemma concat_filter_uniform : forall (X : Type) (p : X -> bool) (q : list X -> bool) (l : list (list X)),
  (forall y, In y l -> forall x, In x y -> p x = q y) ->
  concat (filter q l) = filter p (concat l).
Proof.
  intros X p q. induction l as [|y t IH]; intros H; [reflexivity|].
  assert (IH' : concat (filter q t) = filter p (concat t)) by (apply IH; intros; eapply H; [right|]; eauto).
  cbn [filter concat]. rewrite filter_app. rewrite <- IH'.
  destruct (q y) eqn:Q.
  - cbn [concat]. f_equal. symmetry. apply filter_true. intros x Hx. rewrite (H y) by (auto; left; auto). exact Q.
  - rewrite (filter_false _ p y); [reflexivity|]. intros x Hx. rewrite (H y) by (auto; left; auto). exact Q.
Qed.

Lemma node_ext : forall a b : node,
  n_in a = n_in b -> n_out a = n_out b -> n_layer a = n_layer b -> n_pos a = n_pos b -> n_virt a = n_virt b ->
  n_x a = n_x b -> n_y a = n_y b -> n_w a = n_w b -> n_h a = n_h b -> a = b.
Proof. intros [] []; cbn; intros; subst; reflexivity. Qed.

Lemma edge_ext : forall a b : edge,
  e_from a = e_from b -> e_to a = e_to b -> e_delta a = e_delta b -> e_weight a = e_weight b ->
  e_tree a = e_tree b -> e_rev a = e_rev b -> e_cut a = e_cut b -> e_pts a = e_pts b -> e_ahs a = e_ahs b -> a = b.
Proof. intros [] []; cbn; intros; subst; reflexivity. Qed.

Lemma nth_error_nth_in : forall (X : Type) (l : list X) i d, i < length l -> nth_error l i = Some (nth i l d).
Proof. intros. apply nth_error_nth_default. auto. Qed.

Lemma nth_error_some_lt : forall (X : Type) (l : list X) i x, nth_error l i = Some x -> i < length l.
Proof. intros X l i x H. apply nth_error_Some. congruence. Qed.

Section DedupFilter.
  Variable A : Type.
  Variable eqA : A -> A -> bool.
  Hypothesis eqA_ok : forall x y, eqA x y = true <-> x = y.

  Lemma dedup_filter : forall (p : A -> bool) l, dedup eqA (filter p l) = filter p (dedup eqA l).
  Proof.
    intros p. induction l as [|x t IH]; [reflexivity|].
    cbn [filter dedup]. destruct (p x) eqn:Px.
    - cbn [dedup filter]. f_equal. rewrite IH. apply filter_comm.
    - rewrite IH. rewrite filter_comm. symmetry. apply filter_true.
      intros y Hy. apply filter_In in Hy. destruct Hy as [_ Py].
      destruct (eqA y x) eqn:E; [|reflexivity]. apply eqA_ok in E. subst. congruence.
  Qed.
End DedupFilter.

(* ====================================================================================================== *)
(* B. what a populated graph (with sizes applied) looks like                                               *)
(* ====================================================================================================== *)
Section PopulatedShape.
  Variable A : Type.
  Variable eqA : A -> A -> bool.
  Variables (fixed : option (Q * Q)) (sizes : option (list (A * (Q * Q)))).

  Lemma populated_gnode : forall (es : list (list A)) (ids : list A) g n, populated es ids g -> n < length ids ->
    gnode g n = fresh_node g (length es) n.
  Proof.
    intros es ids g n P L. destruct (p_node_rest P L) as [R1 [R2 [R3 [R4 [R5 [R6 R7]]]]]].
    apply node_ext; cbn [fresh_node n_in n_out n_layer n_pos n_virt n_x n_y n_w n_h]; auto.
    - apply (p_in P); auto.
    - apply (p_out P); auto.
  Qed.

  Lemma sized_gnode : forall (es : list (list A)) (ids : list A) g n x, populated es ids g -> nth_error ids n = Some x ->
    let sz := size_of A eqA fixed sizes x (0%Q, 0%Q) in
    gnode (apply_sizes A eqA fixed sizes ids g) n = set_wh (fst sz) (snd sz) (fresh_node g (length es) n).
  Proof.
    intros es ids g n x P E sz. pose proof (nth_error_some_lt _ _ E) as L.
    rewrite (apply_sizes_gnode A eqA fixed sizes ids g n x (p_na_len P) E). cbv zeta.
    rewrite (populated_gnode P L). reflexivity.
  Qed.

  Lemma sized_ea : forall ids g, g_ea (apply_sizes A eqA fixed sizes ids g) = g_ea g.
  Proof. intros. apply (apply_sizes_frame A eqA fixed sizes ids g). Qed.
  Lemma sized_N : forall ids g, g_N (apply_sizes A eqA fixed sizes ids g) = g_N g.
  Proof. intros. apply (apply_sizes_frame A eqA fixed sizes ids g). Qed.
  Lemma sized_E : forall ids g, g_E (apply_sizes A eqA fixed sizes ids g) = g_E g.
  Proof. intros. apply (apply_sizes_frame A eqA fixed sizes ids g). Qed.
  Lemma sized_L : forall ids g, g_L (apply_sizes A eqA fixed sizes ids g) = g_L g.
  Proof. intros. apply (apply_sizes_frame A eqA fixed sizes ids g). Qed.
  Lemma sized_gedge : forall ids g e, gedge (apply_sizes A eqA fixed sizes ids g) e = gedge g e.
  Proof. intros. unfold gedge. rewrite sized_ea. reflexivity. Qed.
  Lemma sized_na_len : forall (es : list (list A)) (ids : list A) g, populated es ids g ->
    length (g_na (apply_sizes A eqA fixed sizes ids g)) = length ids.
  Proof. intros es ids g P. rewrite apply_sizes_length by apply (p_na_len P). apply (p_na_len P). Qed.

  Lemma sized_consistent : forall (es : list (list A)) (ids : list A) g, populated es ids g ->
    consistent (apply_sizes A eqA fixed sizes ids g).
  Proof. intros es ids g P. apply apply_sizes_consistent; [apply (p_na_len P)|apply (populated_consistent P)]. Qed.
End PopulatedShape.

(* a consistent graph whose lists cover the arenas and that has no layers has all references in range *)
Lemma consistent_full_refs_ok : forall g, consistent g ->
  (forall n, n < length (g_na g) -> In n (g_N g)) ->
  (forall e, e < length (g_ea g) -> In e (g_E g)) -> g_L g = [] -> refs_ok g.
Proof.
  intros g C FN FE FL. constructor.
  - apply (c_N_lt g C).
  - apply (c_E_lt g C).
  - intros l n Hl. rewrite FL in Hl. destruct Hl.
  - intros n e He. destruct (Nat.lt_ge_cases n (length (g_na g))) as [L|L].
    + rewrite (c_in g C n (FN n L)) in He. apply in_in_edges in He. apply (c_E_lt g C). apply He.
    + unfold gnode in He. rewrite nth_overflow in He by auto. destruct He.
  - intros n e He. destruct (Nat.lt_ge_cases n (length (g_na g))) as [L|L].
    + rewrite (c_out g C n (FN n L)) in He. apply in_out_edges in He. apply (c_E_lt g C). apply He.
    + unfold gnode in He. rewrite nth_overflow in He by auto. destruct He.
  - intros e L. apply (c_N_lt g C). apply (c_from g C). auto.
  - intros e L. apply (c_N_lt g C). apply (c_to g C). auto.
Qed.

(* ====================================================================================================== *)
(* C. the isomorphism, from explicit correspondence hypotheses                                             *)
(* ====================================================================================================== *)
Section SoleIso.
  Variable A : Type.
  Variable eqA : A -> A -> bool.
  Variables (fixed : option (Q * Q)) (sizes : option (list (A * (Q * Q)))).
  (* BIG: the union; SMALL: the sole input *)
  Variables (es : list (list A)) (ids : list A) (g0 : graph).
  Variables (es1 : list (list A)) (ids1 : list A) (g10 : graph).
  Hypothesis P : populated es ids g0.
  Hypothesis P1 : populated es1 ids1 g10.
  (* the node and edge positions of the component inside the union *)
  Variables NC EC : list nat.
  Hypothesis NDN : NoDup NC.
  Hypothesis NC_lt : forall n, In n NC -> n < length ids.
  Hypothesis EC_sub : EC = filter (fun e => mem_nat e EC) (iota 0 (length es)).
  Hypothesis closed : forall e, e < length es ->
    (In e EC <-> In (e_from (gedge g0 e)) NC) /\ (In e EC <-> In (e_to (gedge g0 e)) NC).
  (* identifiers and pairs correspond position by position *)
  Hypothesis LN : length ids1 = length NC.
  Hypothesis IDS : forall i, i < length NC -> nth_error ids1 i = nth_error ids (nth i NC 0).
  Hypothesis LE : length es1 = length EC.
  Hypothesis ES : forall j, j < length EC -> nth_error es1 j = nth_error es (nth j EC 0).

  Let G := apply_sizes A eqA fixed sizes ids g0.
  Let G1 := apply_sizes A eqA fixed sizes ids1 g10.
  Let sigma := mk_map NC (length (g_na G)).
  Let tau := mk_map EC (length (g_ea G)).

  Lemma si_EC_lt : forall e, In e EC -> e < length es.
  Proof. intros e He. rewrite EC_sub in He. apply filter_In in He. destruct He as [He _]. apply in_iota in He. lia. Qed.

  Lemma si_NDE : NoDup EC.
  Proof. rewrite EC_sub. apply NoDup_filter'. apply NoDup_iota. Qed.

  Lemma si_na : length (g_na G) = length ids.
  Proof. apply (sized_na_len eqA fixed sizes P). Qed.
  Lemma si_ea : length (g_ea G) = length es.
  Proof. unfold G. rewrite sized_ea. apply (p_ea_len P). Qed.
  Lemma si_na1 : length (g_na G1) = length NC.
  Proof. unfold G1. rewrite (sized_na_len eqA fixed sizes P1). exact LN. Qed.
  Lemma si_ea1 : length (g_ea G1) = length EC.
  Proof. unfold G1. rewrite sized_ea. rewrite (p_ea_len P1). exact LE. Qed.

  Lemma si_sinj : inj sigma.
  Proof. apply mk_map_inj; auto. intros x Hx. rewrite si_na. auto. Qed.
  Lemma si_tinj : inj tau.
  Proof. apply mk_map_inj; [apply si_NDE|]. intros x Hx. rewrite si_ea. apply si_EC_lt. auto. Qed.

  Lemma si_sigma_lt : forall i, i < length NC -> sigma i = nth i NC 0.
  Proof. intros. apply mk_map_lt. auto. Qed.
  Lemma si_tau_lt : forall j, j < length EC -> tau j = nth j EC 0.
  Proof. intros. apply mk_map_lt. auto. Qed.
  Lemma si_sigma_in : forall i, i < length NC -> In (sigma i) NC.
  Proof. intros. rewrite si_sigma_lt by auto. apply nth_In. auto. Qed.
  Lemma si_tau_in : forall j, j < length EC -> In (tau j) EC.
  Proof. intros. rewrite si_tau_lt by auto. apply nth_In. auto. Qed.

  (* an identifier determines its position *)
  Lemma si_ids_pos : forall a b x, nth_error ids a = Some x -> nth_error ids b = Some x -> a = b.
  Proof.
    intros a b x Ha Hb. pose proof (p_nodup P) as ND. rewrite NoDup_nth_error in ND.
    apply ND; [apply (nth_error_some_lt _ _ Ha)|congruence].
  Qed.

  (* edge records correspond *)
  Lemma si_edge : forall j, j < length EC -> gedge g0 (tau j) = edge_map sigma (gedge g10 j).
  Proof.
    intros j Lj. pose proof (si_tau_in Lj) as Hi. pose proof (si_EC_lt _ Hi) as Li.
    pose proof (ES Lj) as E. rewrite <- si_tau_lt in E by auto.
    destruct (nth_error es (tau j)) as [p|] eqn:N; [|apply nth_error_None in N; lia].
    destruct (p_arity P p (nth_error_In _ _ N)) as [s [t ->]].
    destruct (p_edge P _ N) as [F0 [T0 [R0 [D0 [W0 [Q0 [Tr0 [C0 A0]]]]]]]].
    destruct (p_edge P1 _ E) as [F1 [T1 [R1 [D1 [W1 [Q1 [Tr1 [C1 A1]]]]]]]].
    assert (LF : e_from (gedge g10 j) < length NC) by (rewrite <- LN; apply (nth_error_some_lt _ _ F1)).
    assert (LT : e_to (gedge g10 j) < length NC) by (rewrite <- LN; apply (nth_error_some_lt _ _ T1)).
    apply edge_ext; cbn [edge_map e_from e_to e_delta e_weight e_tree e_rev e_cut e_pts e_ahs]; try congruence.
    - apply (si_ids_pos _ _ F0). rewrite si_sigma_lt by auto. rewrite <- IDS by auto. exact F1.
    - apply (si_ids_pos _ _ T0). rewrite si_sigma_lt by auto. rewrite <- IDS by auto. exact T1.
  Qed.

  (* adjacency lists correspond *)
  Lemma si_adj : forall (k : edge -> nat) i, (k = e_from \/ k = e_to) -> i < length NC ->
    filter (fun e => Nat.eqb (k (gedge g0 e)) (sigma i)) (iota 0 (length es)) =
    map tau (filter (fun e => Nat.eqb (k (gedge g10 e)) i) (iota 0 (length es1))).
  Proof.
    intros k i Hk Li.
    rewrite <- (filter_map_comm tau (fun e => Nat.eqb (k (gedge g10 e)) i)
                                   (fun e => Nat.eqb (k (gedge g0 e)) (sigma i))).
    - rewrite LE. unfold tau. rewrite map_mk_map_iota.
      rewrite EC_sub at 1. rewrite filter_filter. apply filter_ext_in.
      intros e He. apply in_iota in He.
      destruct (Nat.eqb (k (gedge g0 e)) (sigma i)) eqn:Q; [|rewrite andb_false_r; reflexivity].
      rewrite andb_true_r. symmetry. apply mem_nat_In. apply Nat.eqb_eq in Q.
      destruct (closed (e := e)) as [C1 C2]; [lia|].
      destruct Hk as [-> | ->]; [apply C1|apply C2]; rewrite Q; apply si_sigma_in; auto.
    - intros e He. apply in_iota in He. rewrite LE in He.
      rewrite si_edge by lia. rewrite <- (eqb_inj si_sinj (k (gedge g10 e)) i).
      destruct Hk as [-> | ->]; reflexivity.
  Qed.

  (* node records correspond *)
  Lemma si_node : forall i, i < length NC -> gnode G (sigma i) = node_map tau (gnode G1 i).
  Proof.
    intros i Li.
    assert (L1 : i < length ids1) by (rewrite LN; auto).
    destruct (nth_error ids1 i) as [x|] eqn:N1; [|apply nth_error_None in N1; lia].
    pose proof (IDS Li) as N0. rewrite N1 in N0. symmetry in N0. rewrite <- si_sigma_lt in N0 by auto.
    unfold G, G1. rewrite (sized_gnode eqA fixed sizes _ P N0), (sized_gnode eqA fixed sizes _ P1 N1).
    cbv zeta. unfold fresh_node, set_wh, node_map.
    cbn [n_in n_out n_layer n_pos n_virt n_x n_y n_w n_h].
    rewrite (si_adj (k := e_to)), (si_adj (k := e_from)) by auto. reflexivity.
  Qed.

  Theorem sole_iso_component : iso sigma tau G1 (with_E (with_N G NC) EC).
  Proof.
    assert (N1 : g_N G1 = iota 0 (length NC)) by (unfold G1; rewrite sized_N, (p_N P1), LN; reflexivity).
    assert (E1 : g_E G1 = iota 0 (length EC)) by (unfold G1; rewrite sized_E, (p_E P1), LE; reflexivity).
    constructor; cbn [g_N g_E g_L g_na g_ea with_E with_N].
    - exact si_sinj.
    - exact si_tinj.
    - rewrite N1. unfold sigma. rewrite map_mk_map_iota. reflexivity.
    - rewrite E1. unfold tau. rewrite map_mk_map_iota. reflexivity.
    - unfold G, G1. rewrite !sized_L, (p_L P), (p_L P1). reflexivity.
    - intros n L. rewrite si_na1 in L. rewrite si_na. apply NC_lt. apply si_sigma_in. auto.
    - intros k. rewrite si_na1. apply mk_map_fresh.
    - intros e L. rewrite si_ea1 in L. rewrite si_ea. apply si_EC_lt. apply si_tau_in. auto.
    - intros k. rewrite si_ea1. apply mk_map_fresh.
    - intros n L. rewrite si_na1 in L. change (gnode G (sigma n) = node_map tau (gnode G1 n)). apply si_node. auto.
    - intros e L. rewrite si_ea1 in L.
      change (gedge G (tau e) = edge_map sigma (gedge G1 e)). unfold G, G1. rewrite !sized_gedge. apply si_edge. auto.
    - apply consistent_full_refs_ok.
      + apply (sized_consistent eqA fixed sizes P1).
      + intros n L. rewrite si_na1 in L. rewrite N1. apply in_iota. lia.
      + intros e L. rewrite si_ea1 in L. rewrite E1. apply in_iota. lia.
      + unfold G1. rewrite sized_L. apply (p_L P1).
  Qed.
End SoleIso.

Print Assumptions sole_iso_component.

(* ====================================================================================================== *)
(* D. identifiers of the sole input = identifiers of the component's nodes, in node order                  *)
(* ====================================================================================================== *)
Lemma mem_nat_iff_eq : forall a l b l', (In a l <-> In b l') -> mem_nat a l = mem_nat b l'.
Proof.
  intros a l b l' H. destruct (mem_nat b l') eqn:M.
  - apply mem_nat_In. apply H. apply mem_nat_In. exact M.
  - apply mem_nat_false. intros K. apply H in K. apply mem_nat_In in K. congruence.
Qed.

Section IdCorr.
  Variable A : Type.
  Variable eqA : A -> A -> bool.
  Hypothesis eqA_ok : forall x y, eqA x y = true <-> x = y.
  Variables (es : list (list A)) (ids : list A) (g0 : graph).
  Hypothesis P : populated es ids g0.
  Hypothesis Hids : ids = dedup eqA (concat es).
  Variables NC EC : list nat.
  Hypothesis NC_sub : NC = filter (fun n => mem_nat n NC) (iota 0 (length ids)).
  Hypothesis EC_sub : EC = filter (fun e => mem_nat e EC) (iota 0 (length es)).
  Hypothesis closed : forall e, e < length es ->
    (In e EC <-> In (e_from (gedge g0 e)) NC) /\ (In e EC <-> In (e_to (gedge g0 e)) NC).
  Variable d : A.

  Definition inC (x : A) : bool := existsb (fun i => eqA x (nth i ids d)) NC.
  Definition pairC (p : list A) : bool := match p with x :: _ => inC x | [] => false end.

  Lemma ic_NC_lt : forall n, In n NC -> n < length ids.
  Proof. intros n Hn. rewrite NC_sub in Hn. apply filter_In in Hn. destruct Hn as [Hn _]. apply in_iota in Hn. lia. Qed.

  Lemma inC_nth : forall a, a < length ids -> inC (nth a ids d) = mem_nat a NC.
  Proof.
    intros a La. destruct (mem_nat a NC) eqn:M.
    - apply mem_nat_In in M. unfold inC. apply existsb_exists. exists a. split; [exact M|]. apply eqA_ok. reflexivity.
    - destruct (inC (nth a ids d)) eqn:I; [|reflexivity]. exfalso.
      unfold inC in I. apply existsb_exists in I. destruct I as [i [Hi E]]. apply eqA_ok in E.
      pose proof (p_nodup P) as ND. rewrite (NoDup_nth ids d) in ND.
      apply ND in E; [|exact La|apply ic_NC_lt; exact Hi]. subst i.
      apply mem_nat_In in Hi. congruence.
  Qed.

  Lemma ic_pair : forall i s t, nth_error es i = Some [s; t] ->
    inC s = mem_nat i EC /\ inC t = mem_nat i EC.
  Proof.
    intros i s t N. pose proof (nth_error_some_lt _ _ N) as Li.
    destruct (p_edge P _ N) as [F0 [T0 _]]. destruct (closed Li) as [C1 C2].
    split.
    - pose proof (nth_error_some_lt _ _ F0) as La. rewrite <- (nth_error_nth _ _ d F0).
      rewrite inC_nth by exact La. apply mem_nat_iff_eq. symmetry. exact C1.
    - pose proof (nth_error_some_lt _ _ T0) as La. rewrite <- (nth_error_nth _ _ d T0).
      rewrite inC_nth by exact La. apply mem_nat_iff_eq. symmetry. exact C2.
  Qed.

  Lemma ic_es1 : map (fun i => nth i es []) EC = filter pairC es.
  Proof.
    rewrite <- (map_nth_filter_iota [] (fun e => mem_nat e EC) pairC es).
    - rewrite <- EC_sub. reflexivity.
    - intros i Li. pose proof (nth_error_nth_in es [] Li) as N.
      destruct (p_arity P _ (nth_error_In _ _ N)) as [s [t E]]. rewrite E in N |- *.
      cbn [pairC]. symmetry. apply (ic_pair _ N).
  Qed.

  Lemma ic_concat : concat (filter pairC es) = filter inC (concat es).
  Proof.
    apply concat_filter_uniform. intros y Hy x Hx.
    apply In_nth_error in Hy. destruct Hy as [i N].
    destruct (p_arity P _ (nth_error_In _ _ N)) as [s [t E]]. subst y.
    destruct (ic_pair _ N) as [K1 K2]. cbn [pairC].
    destruct Hx as [<-|[<-|[]]]; congruence.
  Qed.

  Lemma ic_ids : filter inC ids = map (fun n => nth n ids d) NC.
  Proof.
    rewrite <- (map_nth_filter_iota d (fun a => mem_nat a NC) inC ids).
    - rewrite <- NC_sub. reflexivity.
    - intros i Li. symmetry. apply inC_nth. exact Li.
  Qed.

  Theorem component_ids : forall es1 ids1,
    es1 = map (fun i => nth i es []) EC -> ids1 = dedup eqA (concat es1) ->
    ids1 = map (fun n => nth n ids d) NC.
  Proof.
    intros es1 ids1 -> ->. rewrite ic_es1, ic_concat, (dedup_filter eqA eqA_ok), <- Hids. apply ic_ids.
  Qed.

  Corollary component_ids_nth : forall es1 ids1,
    es1 = map (fun i => nth i es []) EC -> ids1 = dedup eqA (concat es1) ->
    length ids1 = length NC /\ forall i, i < length NC -> nth_error ids1 i = nth_error ids (nth i NC 0).
  Proof.
    intros es1 ids1 H1 H2. rewrite (component_ids H1 H2). split; [apply map_length|].
    intros i Li. rewrite nth_error_map'. rewrite (nth_error_nth_in NC 0 Li). cbn [option_map].
    symmetry. apply nth_error_nth_in. apply ic_NC_lt. apply nth_In. exact Li.
  Qed.
End IdCorr.

Print Assumptions component_ids.

(* ====================================================================================================== *)
(* E. connectivity goes back through an iso; a connected full graph is its own single component            *)
(* ====================================================================================================== *)
Lemma iso_neighbours : forall sigma tau g g' a, iso sigma tau g g' ->
  neighbours g' (sigma a) = map sigma (neighbours g a).
Proof.
  intros sigma tau g g' a H. unfold neighbours. rewrite (iso_all_edges H). rewrite !map_map.
  apply map_ext_in. intros e He. apply (iso_connected_node H). apply (iso_all_lt H _ _ He).
Qed.

Lemma iso_conn_back : forall sigma tau g g' x y, iso sigma tau g g' -> conn g' x y ->
  forall a, x = sigma a -> exists b, y = sigma b /\ conn g a b.
Proof.
  intros sigma tau g g' x y H K. induction K as [x|x y z K IH N]; intros a E.
  - exists a. split; [exact E|constructor].
  - destruct (IH a E) as [b [Eb Kb]]. subst y. rewrite (iso_neighbours _ H) in N.
    apply in_map_iff in N. destruct N as [b' [Eb' Nb']]. exists b'. split; [auto|].
    eapply conn_step; eauto.
Qed.

(* connectivity only looks at the arenas *)
Lemma conn_same_arenas : forall g c x y, g_na c = g_na g -> g_ea c = g_ea g -> conn g x y -> conn c x y.
Proof.
  intros g c x y Hn He K.
  assert (NB : forall n, neighbours c n = neighbours g n).
  { intros n. unfold neighbours, all_edges, connected_node, gnode, gedge. rewrite Hn, He. reflexivity. }
  induction K as [x|x y z K IH N]; [constructor|].
  eapply conn_step; [exact IH|]. rewrite NB. exact N.
Qed.

Lemma components_from_visited : forall fuel g todo visited,
  (forall n, In n todo -> In n visited) -> components_from fuel g todo visited = [].
Proof.
  intros fuel g. induction todo as [|n t IH]; intros visited H; [reflexivity|].
  cbn [components_from]. assert (M : mem_nat n visited = true) by (apply mem_nat_In; apply H; left; auto).
  rewrite M. apply IH. intros; apply H; right; auto.
Qed.

Lemma subgraph_full : forall g ns, consistent g -> (forall n, In n (g_N g) -> In n ns) -> subgraph g ns = g.
Proof.
  intros g ns C H. unfold subgraph.
  rewrite (filter_true _ (fun n => mem_nat n ns) (g_N g)) by (intros x Hx; apply mem_nat_In; auto).
  rewrite (filter_true _ (fun e => mem_nat (e_from (gedge g e)) ns) (g_E g))
    by (intros x Hx; apply mem_nat_In; apply H; apply (c_from g C); auto).
  destruct g; reflexivity.
Qed.

Lemma components_single : forall g n0 rest, consistent g -> g_N g = n0 :: rest ->
  (forall b, In b (g_N g) -> conn g n0 b) -> components g = [g].
Proof.
  intros g n0 rest C E K. unfold components. rewrite E. cbn [components_from mem_nat existsb].
  assert (H0 : In n0 (g_N g)) by (rewrite E; left; auto).
  assert (R : forall b, In b (g_N g) -> In b (reach g n0)).
  { intros b Hb. apply (reach_in_iff g n0 b C H0). apply K. exact Hb. }
  rewrite subgraph_full by auto. f_equal.
  apply components_from_visited. intros n Hn. apply in_or_app. left. apply R. rewrite E. right. exact Hn.
Qed.

(* ====================================================================================================== *)
(* F. R7                                                                                                   *)
(* ====================================================================================================== *)
Section Main.
  Variable A : Type.
  Variable eqA : A -> A -> bool.
  Hypothesis eqA_ok : forall x y, eqA x y = true <-> x = y.

  (* the sharper form: the single component of the sole input is the whole sole graph *)
  Theorem component_iso_sole_whole : forall fixed sizes es ids g0 c,
    populate A eqA es = Ok (ids, g0) ->
    In c (components (apply_sizes A eqA fixed sizes ids g0)) ->
    let g := apply_sizes A eqA fixed sizes ids g0 in
    let es1 := map (fun i => nth i es []) (g_E c) in
    exists (ids1 : list A) (g10 : graph),
      populate A eqA es1 = Ok (ids1, g10) /\ ids1 <> [] /\
      length ids1 = length (g_N c) /\
      (forall i, i < length (g_N c) -> nth_error ids1 i = nth_error ids (nth i (g_N c) 0)) /\
      let G1 := apply_sizes A eqA fixed sizes ids1 g10 in
      components G1 = [G1] /\
      iso (mk_map (g_N c) (length (g_na g))) (mk_map (g_E c) (length (g_ea g))) G1 c.
  Proof.
    intros fixed sizes es ids g0 c HP Hc g es1.
    pose proof (populate_wf eqA eqA_ok es HP) as P.
    assert (Cg : consistent g) by apply (sized_consistent eqA fixed sizes P).
    pose proof (components_partition g Cg) as CP. cbv zeta in CP.
    destruct CP as [AR [SN [SE [_ [_ [_ [_ [CL [_ [CLASS [NE [CC _]]]]]]]]]]]].
    specialize (AR c Hc). specialize (SN c Hc). specialize (SE c Hc). specialize (NE c Hc). specialize (CC c Hc).
    destruct AR as [A1 [A2 A3]].
    assert (GN : g_N g = iota 0 (length ids)) by (unfold g; rewrite sized_N; apply (p_N P)).
    assert (GE : g_E g = iota 0 (length es)) by (unfold g; rewrite sized_E; apply (p_E P)).
    rewrite GN in SN. rewrite GE in SE.
    assert (Ec : c = with_E (with_N g (g_N c)) (g_E c)).
    { unfold with_E, with_N. cbn [g_na g_ea g_N g_E g_L]. rewrite <- A1, <- A2, <- A3. destruct c; reflexivity. }
    assert (closed : forall e, e < length es ->
              (In e (g_E c) <-> In (e_from (gedge g0 e)) (g_N c)) /\ (In e (g_E c) <-> In (e_to (gedge g0 e)) (g_N c))).
    { intros e Le. rewrite <- (sized_gedge eqA fixed sizes ids g0 e). apply (CL c e Hc).
      rewrite GE. apply in_iota. lia. }
    assert (EC_lt : forall e, In e (g_E c) -> e < length es).
    { intros e He. rewrite SE in He. apply filter_In in He. destruct He as [He _]. apply in_iota in He. lia. }
    assert (NC_lt : forall n, In n (g_N c) -> n < length ids).
    { intros n Hn. rewrite SN in Hn. apply filter_In in Hn. destruct Hn as [Hn _]. apply in_iota in Hn. lia. }
    (* the sole input is well formed *)
    assert (AR2 : Forall (fun p : list A => length p = 2) es1).
    { apply Forall_forall. intros p Hp. unfold es1 in Hp. apply in_map_iff in Hp. destruct Hp as [i [<- Hi]].
      destruct (p_arity P (nth i es [])) as [s [t E]]; [apply nth_In; auto|]. rewrite E. reflexivity. }
    apply (populate_ok_iff eqA es1) in AR2. destruct AR2 as [ids1 [g10 HP1]].
    pose proof (populate_wf eqA eqA_ok es1 HP1) as P1.
    pose proof (populate_ids_first_appearance eqA eqA_ok es HP) as Hids.
    pose proof (populate_ids_first_appearance eqA eqA_ok es1 HP1) as Hids1.
    (* a default identifier *)
    assert (D : exists d : A, True).
    { destruct (g_N c) as [|n0 t] eqn:E; [congruence|]. assert (L : n0 < length ids) by (apply NC_lt; left; auto).
      destruct ids as [|d t']; [cbn in L; lia|]. exists d. auto. }
    destruct D as [d _].
    destruct (component_ids_nth eqA eqA_ok P Hids SN SE closed d (eq_refl es1) Hids1) as [LN IDS].
    assert (LE : length es1 = length (g_E c)) by (unfold es1; apply map_length).
    assert (ES : forall j, j < length (g_E c) -> nth_error es1 j = nth_error es (nth j (g_E c) 0)).
    { intros j Lj. unfold es1. rewrite nth_error_map'. rewrite (nth_error_nth_in (g_E c) 0 Lj). cbn [option_map].
      symmetry. apply nth_error_nth_in. apply EC_lt. apply nth_In. exact Lj. }
    pose proof (sole_iso_component eqA fixed sizes P P1 (c_nodupN c CC) NC_lt SE closed LN IDS LE ES) as ISO.
    cbv zeta in ISO. fold g in ISO. rewrite <- Ec in ISO.
    set (G1 := apply_sizes A eqA fixed sizes ids1 g10) in *.
    set (sigma := mk_map (g_N c) (length (g_na g))) in *.
    set (tau := mk_map (g_E c) (length (g_ea g))) in *.
    assert (C1 : consistent G1) by apply (sized_consistent eqA fixed sizes P1).
    assert (N1 : g_N G1 = iota 0 (length ids1)) by (unfold G1; rewrite sized_N; apply (p_N P1)).
    assert (L1 : 0 < length ids1).
    { rewrite LN. destruct (g_N c); [congruence|cbn; lia]. }
    assert (SIN : forall b, b < length ids1 -> In (sigma b) (g_N c)).
    { intros b Lb. rewrite (iso_N ISO). apply in_map. rewrite N1. apply in_iota. lia. }
    assert (CONN : forall b, In b (g_N G1) -> conn G1 0 b).
    { intros b Hb. rewrite N1 in Hb. apply in_iota in Hb.
      assert (K : conn g (sigma 0) (sigma b)).
      { apply (CLASS c (sigma 0) Hc (SIN 0 L1)). apply SIN. lia. }
      apply (conn_same_arenas c A1 A2) in K.
      destruct (iso_conn_back ISO K 0 eq_refl) as [b' [Eb Kb]].
      apply (iso_sinj ISO) in Eb. subst b'. exact Kb. }
    assert (SINGLE : components G1 = [G1]).
    { destruct (length ids1) as [|k] eqn:E; [lia|]. cbn [iota] in N1.
      apply (components_single C1 N1 CONN). }
    exists ids1, g10. split; [exact HP1|]. split; [|split; [exact LN|split; [exact IDS|split; [exact SINGLE|exact ISO]]]].
    intros E. rewrite E in L1. cbn in L1. lia.
  Qed.

  (* R7 *)
  Theorem component_iso_sole : forall fixed sizes es ids g0 c,
    populate A eqA es = Ok (ids, g0) ->
    In c (components (apply_sizes A eqA fixed sizes ids g0)) ->
    let g := apply_sizes A eqA fixed sizes ids g0 in
    let es1 := map (fun i => nth i es []) (g_E c) in          (* the component's edges, in input order *)
    exists ids1 g10 c1,
      populate A eqA es1 = Ok (ids1, g10) /\ ids1 <> [] /\
      components (apply_sizes A eqA fixed sizes ids1 g10) = [c1] /\
      iso (mk_map (g_N c) (length (g_na g))) (mk_map (g_E c) (length (g_ea g))) c1 c.
  Proof.
    intros fixed sizes es ids g0 c HP Hc g es1.
    destruct (component_iso_sole_whole fixed sizes es c HP Hc) as [ids1 [g10 [H1 [H2 [_ [_ [H3 H4]]]]]]].
    exists ids1, g10, (apply_sizes A eqA fixed sizes ids1 g10). auto.
  Qed.
End Main.

Print Assumptions component_iso_sole_whole.

Print Assumptions component_iso_sole.

(* ====================================================================================================== *)
(* G. concrete check on the instance of RenumberCheck.v                                                    *)
(* ====================================================================================================== *)
(* the maps of the theorem are the maps used in RenumberCheck.v *)
Example ex_maps_agree :
  mk_map (g_N ex_comp) (length (g_na ex_union)) = ex_sigma /\
  mk_map (g_E ex_comp) (length (g_ea ex_union)) = ex_tau.
Proof. split; reflexivity. Qed.

Definition ex_ids : list nat := Eval vm_compute in
  match populate nat Nat.eqb ex_union_edges with Ok (ids, _) => ids | Err _ => [] end.
Definition ex_g0 : graph := Eval vm_compute in
  match populate nat Nat.eqb ex_union_edges with Ok (_, g) => g | Err _ => empty_graph end.

Example ex_populate : populate nat Nat.eqb ex_union_edges = Ok (ex_ids, ex_g0).
Proof. vm_compute. reflexivity. Qed.

Example ex_comp_in : In ex_comp (components (apply_sizes nat Nat.eqb (Some (30, 20)%Q) None ex_ids ex_g0)).
Proof. vm_compute. right. left. reflexivity. Qed.

(* the component's edges, in input order, are the sole input *)
Example ex_comp_edges : map (fun i => nth i ex_union_edges []) (g_E ex_comp) = ex_sole_edges.
Proof. vm_compute. reflexivity. Qed.

(* the hypotheses of component_iso_sole are satisfiable, and its conclusion on the instance *)
Example ex_component_iso_sole :
  exists ids1 g10 c1,
    populate nat Nat.eqb ex_sole_edges = Ok (ids1, g10) /\ ids1 <> [] /\
    components (apply_sizes nat Nat.eqb (Some (30, 20)%Q) None ids1 g10) = [c1] /\
    iso ex_sigma ex_tau c1 ex_comp.
Proof.
  exact (component_iso_sole Nat.eqb nat_eqb_ok (Some (30, 20)%Q) None ex_union_edges ex_comp ex_populate ex_comp_in).
Qed.

(* and the witness is the graph of RenumberCheck.v *)
Example ex_component_iso_sole_witness :
  exists ids1 g10,
    populate nat Nat.eqb ex_sole_edges = Ok (ids1, g10) /\
    components (apply_sizes nat Nat.eqb (Some (30, 20)%Q) None ids1 g10) = [ex_sole].
Proof. eexists. eexists. split; vm_compute; reflexivity. Qed.
