(* RenumberExample.v — the equivariance theorems on a concrete instance, checked by computation through the boolean
   version of iso: a 2-component union whose components are interleaved in the arenas, against its second
   component populated alone; with a self-loop, a two-node cycle, a longer cycle and a long edge (so that
   ignore_self_loops, phase 1, and the allocation of virtual nodes/edges in phase 3 all have work to do). *)
From Autog Require Import Base Graph Populate Phase1 Phase2 Phase4 Phase5 Layout Pipeline.
From Autog Require Import Check.
From Autog.Proofs Require Import ListLemmas RenumberBase RenumberCollect RenumberCheck RenumberPipeline RenumberFinal Shift.
Local Open Scope nat_scope.

Definition rx_union_edges : list (list nat) :=
  [[1;2];[3;4];[2;6];[4;5];[4;4];[3;5];[6;1];[5;3];[5;7];[7;8];[3;8];[8;4]].
Definition rx_sole_edges : list (list nat) :=
  [[3;4];[4;5];[4;4];[3;5];[5;3];[5;7];[7;8];[3;8];[8;4]].

Definition rx_union : graph := Eval vm_compute in ex_graph_of rx_union_edges.
Definition rx_sole_arena : graph := Eval vm_compute in ex_graph_of rx_sole_edges.
Definition rx_comp : graph := Eval vm_compute in nth 1 (components rx_union) empty_graph.
Definition rx_sole : graph := Eval vm_compute in nth 0 (components rx_sole_arena) empty_graph.

Definition rx_sigma : nat -> nat := mk_map (g_N rx_comp) (length (g_na rx_comp)).
Definition rx_tau : nat -> nat := mk_map (g_E rx_comp) (length (g_ea rx_comp)).

Example rx_shape : length (components rx_union) = 2 /\ length (components rx_sole_arena) = 1 /\
  g_N rx_comp = [2;3;5;6;7] /\ g_E rx_comp = [1;3;4;5;7;8;9;10;11] /\
  g_N rx_sole = [0;1;2;3;4] /\ g_E rx_sole = [0;1;2;3;4;5;6;7;8].
Proof. vm_compute. repeat split; reflexivity. Qed.

Lemma rx_sigma_inj : inj rx_sigma.
Proof.
  apply mk_map_inj.
  - vm_compute. repeat constructor; cbn; intuition congruence.
  - intros x Hx. vm_compute in Hx. list_in_cases Hx; vm_compute; lia.
Qed.

Lemma rx_tau_inj : inj rx_tau.
Proof.
  apply mk_map_inj.
  - vm_compute. repeat constructor; cbn; intuition congruence.
  - intros x Hx. vm_compute in Hx. list_in_cases Hx; vm_compute; lia.
Qed.

(* hypotheses of all the *_iso theorems are satisfiable: the sole input is isomorphic to the component *)
Example rx_iso : iso rx_sigma rx_tau rx_sole rx_comp.
Proof.
  apply isob_sound.
  - exact rx_sigma_inj.
  - exact rx_tau_inj.
  - intros k. change (length (g_na rx_sole)) with (length (g_N rx_comp)). apply mk_map_fresh.
  - intros k. change (length (g_ea rx_sole)) with (length (g_E rx_comp)). apply mk_map_fresh.
  - vm_compute. reflexivity.
Qed.

(* both runs of the per-component pipeline succeed and the results are isomorphic with the SAME maps
   (virtual nodes: sole index 5+k <-> union index 8+k), same crossing number: by computation *)
Definition opt_eqb (a b : option Z) : bool :=
  match a, b with Some x, Some y => Z.eqb x y | None, None => true | _, _ => false end.

Definition rx_check (o : options) : bool :=
  match layout_component o rx_sole, layout_component o rx_comp with
  | Ok (r, x), Ok (r', x') => isob rx_sigma rx_tau r r' && opt_eqb x x' && Nat.ltb (length (g_na rx_sole)) (length (g_na r))
  | _, _ => false
  end.

Definition rx_options : list options :=
  [ mkOptions DepthFirst NetworkSimplex SinkColoring Polyline 3 2 (20%Q) (40%Q) true;
    mkOptions Greedy LongestPath VAlign Straight 3 2 (20%Q) (40%Q) true;
    mkOptions Greedy NetworkSimplex PackRight Ortho 3 2 (20%Q) (40%Q) false;
    mkOptions DepthFirst NetworkSimplex NsPositioner NoRouting 3 2 (20%Q) (40%Q) true ].

Example rx_pipeline_checked : forallb rx_check rx_options = true.
Proof. vm_compute. reflexivity. Qed.

(* and this is what layout_component_iso predicts *)
Example rx_pipeline_by_theorem : forall o r x r' x',
  layout_component o rx_sole = Ok (r, x) -> layout_component o rx_comp = Ok (r', x') ->
  iso rx_sigma rx_tau r r' /\ x' = x /\
  collect_nodes (o_virtual o) 0 r' = map (rename_onode rx_sigma) (collect_nodes (o_virtual o) 0 r) /\
  rightmost r' = rightmost r.
Proof.
  intros o r x r' x' E E'.
  destruct (layout_component_iso_ok rx_sigma rx_tau o rx_sole rx_comp r x r' x' rx_iso E E') as [K1 K2].
  destruct (layout_component_output_iso rx_sigma rx_tau o rx_sole rx_comp r x r' x' 0%Q rx_iso E E') as [K3 [_ [K5 _]]].
  auto.
Qed.

(* ---------- the user-facing theorem (RenumberFinal.v) on this instance ---------- *)
Definition rx_o : options := mkOptions DepthFirst NetworkSimplex SinkColoring Polyline 3 2 (20%Q) (40%Q) true.
Definition rx_fixed : option (Q * Q) := Some (30, 20)%Q.

Definition rx_out_union := Eval vm_compute in layout nat Nat.eqb rx_o rx_fixed None rx_union_edges.
Definition rx_out_sole := Eval vm_compute in layout nat Nat.eqb rx_o rx_fixed None rx_sole_edges.

Lemma nat_eqb_ok' : forall x y, Nat.eqb x y = true <-> x = y.
Proof. apply Nat.eqb_eq. Qed.

(* the hypotheses of component_layout_is_sole_layout_translated hold here ... *)
Example rx_final_hyps :
  exists ids g0 out ids1 out1,
    populate nat Nat.eqb rx_union_edges = Ok (ids, g0) /\
    layout nat Nat.eqb rx_o rx_fixed None rx_union_edges = Ok (ids, out) /\
    nth_error (components (apply_sizes nat Nat.eqb rx_fixed None ids g0)) 1 = Some rx_comp /\
    map (fun i => nth i rx_union_edges []) (g_E rx_comp) = rx_sole_edges /\
    layout nat Nat.eqb rx_o rx_fixed None rx_sole_edges = Ok (ids1, out1).
Proof. vm_compute. do 5 eexists. repeat split; reflexivity. Qed.

(* ... and its conclusion, checked independently by computation on the two outputs: the records of the second
   component inside the union's output are the sole output's records, indices renamed by rx_sigma, x shifted *)
Definition onode_shifted_b (s : Q) (a u : onode) : bool :=
  Nat.eqb (on_id u) (rx_sigma (on_id a)) && Qeq_bool (on_x u) (on_x a + s) && q_beq (on_y u) (on_y a) &&
  q_beq (on_w u) (on_w a) && q_beq (on_h u) (on_h a).
Definition pt_shifted_b (s : Q) (p q : pt) : bool := Qeq_bool (fst q) (fst p + s) && q_beq (snd q) (snd p).
Definition oedge_shifted_b (s : Q) (e u : oedge) : bool :=
  Nat.eqb (oe_from u) (rx_sigma (oe_from e)) && Nat.eqb (oe_to u) (rx_sigma (oe_to e)) &&
  Bool.eqb (oe_ahs u) (oe_ahs e) && list_eqb (pt_shifted_b s) (oe_pts e) (oe_pts u).

Definition rx_final_check : bool :=
  match rx_out_union, rx_out_sole with
  | Ok (_, (ns, eo, xs)), Ok (_, (ns1, eo1, xs1)) =>
      let ns_k := skipn (length ns - length ns1) ns in
      let eo_k := skipn (length eo - length eo1) eo in
      let s := (on_x (hd (mkONode 0 0 0 0 0) ns_k) - on_x (hd (mkONode 0 0 0 0 0) ns1))%Q in
      negb (Qeq_bool s 0) && list_eqb (onode_shifted_b s) ns1 ns_k && list_eqb (oedge_shifted_b s) eo1 eo_k &&
      list_eqb Z.eqb xs1 (skipn (length xs - length xs1) xs)
  | _, _ => false
  end.

Example rx_final_checked : rx_final_check = true.
Proof. vm_compute. reflexivity. Qed.

(* the theorem instantiated *)
Example rx_final_by_theorem : forall ids g0 ns eo xs ids1 ns1 eo1 xs1,
  populate nat Nat.eqb rx_union_edges = Ok (ids, g0) ->
  layout nat Nat.eqb rx_o rx_fixed None rx_union_edges = Ok (ids, (ns, eo, xs)) ->
  layout nat Nat.eqb rx_o rx_fixed None rx_sole_edges = Ok (ids1, (ns1, eo1, xs1)) ->
  exists gs sigma, inj sigma /\ collect_all rx_o gs 0 = (ns, eo) /\
    Forall2 (onode_shifted sigma (shift_at rx_o gs 0 1)) ns1 (comp_nodes rx_o gs 0 1) /\
    Forall2 (oedge_shifted sigma (shift_at rx_o gs 0 1)) eo1 (comp_edges rx_o gs 0 1).
Proof.
  intros ids g0 ns eo xs ids1 ns1 eo1 xs1 P L L1.
  assert (Hk : nth_error (components (apply_sizes nat Nat.eqb rx_fixed None ids g0)) 1 = Some rx_comp).
  { vm_compute in P. injection P as <- <-. vm_compute. reflexivity. }
  assert (E : map (fun i => nth i rx_union_edges []) (g_E rx_comp) = rx_sole_edges) by (vm_compute; reflexivity).
  rewrite <- E in L1.
  destruct (component_layout_is_sole_layout_translated nat Nat.eqb nat_eqb_ok' rx_o rx_fixed None rx_union_edges
              ids g0 ns eo xs 1 rx_comp P L Hk ids1 ns1 eo1 xs1 L1) as [gs [sigma [I [C [_ [N [Ed _]]]]]]].
  exists gs, sigma. auto.
Qed.
