(* RenumberFinal.v — R7, the user-facing property:
   "each connected component receives exactly the layout it would receive as the sole input, translated
    horizontally".
   Let es be the input, c its k-th connected component (as handed to the per-component pipeline), and es1 the
   sub-list of es made of the edges of c (in input order). If Layout succeeds on es and on es1, then the output
   records that Layout(es) produces for component k are those of Layout(es1) with
     - node / end-point indices renamed by an injective map sigma (the position map: i-th node of the sole input
       |-> i-th node of the component; helper nodes allocated later |-> the helper nodes allocated for c),
     - x coordinates increased by the component's shift (shift_at, Proofs/Shift.v),
     - everything else (y, sizes, route points' y, arrow flags, crossing number) identical. *)
From Autog Require Import Base Graph Populate Phase4 Layout Pipeline Check.
From Autog.Proofs Require Import ListLemmas RenumberBase RenumberCollect RenumberCheck RenumberPipeline
                                 RenumberComponent Shift.
Local Open Scope nat_scope.

(* ---------- records up to renaming and horizontal translation ---------- *)
Definition onode_shifted (sigma : nat -> nat) (s : Q) (a u : onode) : Prop :=
  on_id u = sigma (on_id a) /\ (on_x u == on_x a + s)%Q /\ on_y u = on_y a /\ on_w u = on_w a /\ on_h u = on_h a.
Definition pt_shifted (s : Q) (p q : pt) : Prop := (fst q == fst p + s)%Q /\ snd q = snd p.
Definition oedge_shifted (sigma : nat -> nat) (s : Q) (e u : oedge) : Prop :=
  oe_from u = sigma (oe_from e) /\ oe_to u = sigma (oe_to e) /\ oe_ahs u = oe_ahs e /\
  Forall2 (pt_shifted s) (oe_pts e) (oe_pts u).

Lemma Forall2_map_r : forall (X Y Z : Type) (R : X -> Z -> Prop) (h : Y -> Z) l l',
  Forall2 (fun x y => R x (h y)) l l' -> Forall2 R l (map h l').
Proof. intros X Y Z R h l l' H. induction H; cbn; constructor; auto. Qed.

Lemma Forall2_app' : forall (X Y : Type) (R : X -> Y -> Prop) a b c d,
  Forall2 R a b -> Forall2 R c d -> Forall2 R (a ++ c) (b ++ d).
Proof. intros X Y R a b c d H K. induction H; cbn; auto. Qed.

(* collecting with shift s is collecting with shift 0, translated *)
Lemma collect_nodes_shift : forall iv s g,
  Forall2 (onode_shifted (fun n => n) s) (collect_nodes iv 0 g) (collect_nodes iv s g).
Proof.
  intros iv s g. unfold collect_nodes. induction (g_N g) as [|n t IH]; cbn [flat_map]; [constructor|].
  apply Forall2_app'; [|exact IH].
  destruct (n_virt (gnode g n) && negb iv); constructor; [|constructor].
  unfold onode_shifted. cbn [on_id on_x on_y on_w on_h]. repeat split; auto. ring.
Qed.

Lemma collect_edges_shift : forall s g,
  Forall2 (oedge_shifted (fun n => n) s) (collect_edges 0 g) (collect_edges s g).
Proof.
  intros s g. unfold collect_edges. induction (g_E g) as [|e t IH]; cbn [map]; constructor; [|exact IH].
  unfold oedge_shifted. cbn [oe_from oe_to oe_ahs oe_pts]. repeat split; auto.
  induction (e_pts (gedge g e)) as [|p ps IHp]; cbn [map]; constructor; [|exact IHp].
  unfold pt_shifted. cbn [fst snd]. split; auto. ring.
Qed.

Lemma onode_shifted_rename : forall sigma s l l',
  Forall2 (onode_shifted (fun n => n) s) l l' -> Forall2 (onode_shifted sigma s) l (map (rename_onode sigma) l').
Proof.
  intros sigma s l l' H. apply Forall2_map_r. induction H; constructor; auto.
  destruct H as [E1 [E2 [E3 [E4 E5]]]]. unfold onode_shifted, rename_onode. cbn [on_id on_x on_y on_w on_h].
  rewrite E1. repeat split; auto.
Qed.

Lemma oedge_shifted_rename : forall sigma s l l',
  Forall2 (oedge_shifted (fun n => n) s) l l' -> Forall2 (oedge_shifted sigma s) l (map (rename_oedge sigma) l').
Proof.
  intros sigma s l l' H. apply Forall2_map_r. induction H; constructor; auto.
  destruct H as [E1 [E2 [E3 E4]]]. unfold oedge_shifted, rename_oedge. cbn [oe_from oe_to oe_ahs oe_pts].
  rewrite E1, E2. repeat split; auto.
Qed.

Lemma Forall2_nth_error : forall (X Y : Type) (R : X -> Y -> Prop) l l' k x,
  Forall2 R l l' -> nth_error l k = Some x -> exists y, nth_error l' k = Some y /\ R x y.
Proof.
  intros X Y R l l' k x H. revert k. induction H; intros [|k] E; cbn in E; try discriminate.
  - injection E as <-. eexists; split; [reflexivity|auto].
  - apply IHForall2. exact E.
Qed.

Section Final.
  Variable A : Type.
  Variable eqA : A -> A -> bool.
  Hypothesis eqA_ok : forall x y, eqA x y = true <-> x = y.

  (* Layout on an input whose populated graph has exactly one component *)
  Lemma layout_single : forall o fixed sizes es1 ids1 g10 c1 ns1 eo1 xs1,
    populate A eqA es1 = Ok (ids1, g10) ->
    components (apply_sizes A eqA fixed sizes ids1 g10) = [c1] ->
    layout A eqA o fixed sizes es1 = Ok (ids1, (ns1, eo1, xs1)) ->
    exists g1r x1, layout_component o c1 = Ok (g1r, x1) /\
      ns1 = collect_nodes (o_virtual o) 0 g1r /\ eo1 = collect_edges 0 g1r /\
      xs1 = match x1 with Some v => [v] | None => [] end.
  Proof.
    intros o fixed sizes es1 ids1 g10 c1 ns1 eo1 xs1 P C L.
    unfold layout in L. rewrite P in L. cbn [bind] in L.
    destruct ids1 as [|i0 it]; [discriminate|].
    rewrite C in L. cbn [layout_components] in L.
    destruct (layout_component o c1) as [[g1r x1]|e]; cbn [bind] in L; [|discriminate].
    injection L as <- <- <-. exists g1r, x1. rewrite !app_nil_r. repeat split; auto.
  Qed.

  Theorem component_layout_is_sole_layout_translated :
    forall o fixed sizes es ids g0 ns eo xs k c,
    populate A eqA es = Ok (ids, g0) ->
    layout A eqA o fixed sizes es = Ok (ids, (ns, eo, xs)) ->
    nth_error (components (apply_sizes A eqA fixed sizes ids g0)) k = Some c ->
    forall ids1 ns1 eo1 xs1,
    layout A eqA o fixed sizes (map (fun i => nth i es []) (g_E c)) = Ok (ids1, (ns1, eo1, xs1)) ->
    exists gs sigma,
      inj sigma /\
      (* the union's output is the concatenation of the per-component outputs (Shift.v) *)
      collect_all o gs 0 = (ns, eo) /\
      Forall2 (fun c g => exists x, layout_component o c = Ok (g, x))
              (components (apply_sizes A eqA fixed sizes ids g0)) gs /\
      (* component k's records are the sole layout's records, renamed and translated by shift_k *)
      Forall2 (onode_shifted sigma (shift_at o gs 0 k)) ns1 (comp_nodes o gs 0 k) /\
      Forall2 (oedge_shifted sigma (shift_at o gs 0 k)) eo1 (comp_edges o gs 0 k) /\
      (* and the reported crossing number is the same *)
      (exists x, layout_component o c = Ok (nth k gs graph0, x) /\
                 xs1 = match x with Some v => [v] | None => [] end).
  Proof.
    intros o fixed sizes es ids g0 ns eo xs k c P L Hk ids1 ns1 eo1 xs1 L1.
    set (g := apply_sizes A eqA fixed sizes ids g0) in *.
    assert (Hc : In c (components g)) by (eapply nth_error_In; eauto).
    destruct (@component_iso_sole A eqA eqA_ok fixed sizes es ids g0 c P Hc)
      as [ids1' [g10 [c1 [P1 [Hne [C1 Hiso]]]]]].
    fold g in Hiso.
    (* the sole run *)
    assert (Eids : ids1' = ids1).
    { unfold layout in L1. rewrite P1 in L1. cbn [bind] in L1. destruct ids1' as [|i0 it]; [discriminate|].
      destruct (layout_components o _ 0) as [r|e]; cbn [bind] in L1; [|discriminate]. injection L1 as E _. exact E. }
    subst ids1'.
    destruct (layout_single o fixed sizes _ ids1 g10 c1 ns1 eo1 xs1 P1 C1 L1) as [g1r [x1 [E1 [En [Ee Ex]]]]].
    (* the union run *)
    assert (LC : layout_components o (components g) 0 = Ok (ns, eo, xs)).
    { unfold layout in L. rewrite P in L. cbn [bind] in L. destruct ids as [|i0 it]; [discriminate|].
      fold g in L. destruct (layout_components o (components g) 0) as [r|e]; cbn [bind] in L; [|discriminate].
      injection L as ->. reflexivity. }
    destruct (@layout_components_collect_all o (components g) 0%Q ns eo xs LC) as [gs [HF HC]].
    destruct (Forall2_nth_error _ _ _ _ _ k _ HF Hk) as [gk [Egk [x Ek]]].
    assert (Egk' : nth k gs graph0 = gk) by (apply nth_error_nth; exact Egk).
    set (sigma := mk_map (g_N c) (length (g_na g))) in *.
    set (tau := mk_map (g_E c) (length (g_ea g))) in *.
    destruct (layout_component_output_iso sigma tau o c1 c g1r x1 gk x (shift_at o gs 0 k) Hiso E1 Ek) as [KN [KE [_ Kx]]].
    exists gs, sigma. split; [apply (iso_sinj Hiso)|]. split; [exact HC|]. split; [exact HF|].
    split; [|split].
    - unfold comp_nodes. rewrite Egk', KN, En. apply onode_shifted_rename. apply collect_nodes_shift.
    - unfold comp_edges. rewrite Egk', KE, Ee. apply oedge_shifted_rename. apply collect_edges_shift.
    - exists x. rewrite Egk'. split; [exact Ek|]. rewrite Ex, Kx. reflexivity.
  Qed.

  (* The sole layout cannot fail in any other way than by the model's own fuel (ErrFuel is "not a behaviour of
     the code", Base.v; fuel bounds are taken from arena sizes, which are smaller for the sole input): if Layout
     succeeds on the union then, on the component's edges alone, it succeeds (and the theorem above applies) or
     reports fuel exhaustion — never a genuine error. *)
  Theorem sole_layout_fails_only_by_fuel :
    forall o fixed sizes es ids g0 ns eo xs k c,
    populate A eqA es = Ok (ids, g0) ->
    layout A eqA o fixed sizes es = Ok (ids, (ns, eo, xs)) ->
    nth_error (components (apply_sizes A eqA fixed sizes ids g0)) k = Some c ->
    (exists r, layout A eqA o fixed sizes (map (fun i => nth i es []) (g_E c)) = Ok r) \/
    (exists w, layout A eqA o fixed sizes (map (fun i => nth i es []) (g_E c)) = Err (ErrFuel w)).
  Proof.
    intros o fixed sizes es ids g0 ns eo xs k c P L Hk.
    set (g := apply_sizes A eqA fixed sizes ids g0) in *.
    assert (Hc : In c (components g)) by (eapply nth_error_In; eauto).
    destruct (@component_iso_sole A eqA eqA_ok fixed sizes es ids g0 c P Hc)
      as [ids1 [g10 [c1 [P1 [Hne [C1 Hiso]]]]]].
    fold g in Hiso.
    assert (LC : layout_components o (components g) 0 = Ok (ns, eo, xs)).
    { unfold layout in L. rewrite P in L. cbn [bind] in L. destruct ids as [|i0 it]; [discriminate|].
      fold g in L. destruct (layout_components o (components g) 0) as [r|e]; cbn [bind] in L; [|discriminate].
      injection L as ->. reflexivity. }
    destruct (@layout_components_collect_all o (components g) 0%Q ns eo xs LC) as [gs [HF HC]].
    destruct (Forall2_nth_error _ _ _ _ _ k _ HF Hk) as [gk [Egk [x Ek]]].
    pose proof (layout_component_iso _ _ o c1 c Hiso) as K. rewrite Ek in K.
    unfold layout. rewrite P1. cbn [bind]. destruct ids1 as [|i0 it]; [congruence|].
    rewrite C1. cbn [layout_components].
    inversion K as [r1 r2 HR E1 E2| | w b E1 E2 | a w E1 E2].
    - left. destruct r1 as [g1r x1]. cbn [bind]. eexists. reflexivity.
    - right. exists w. reflexivity.
  Qed.
End Final.

Print Assumptions component_layout_is_sole_layout_translated.
Print Assumptions sole_layout_fails_only_by_fuel.
