(* RenumberGreedy.v — equivariance of the greedy cycle breaker (Model/Phase1.v, greedy.go) under renumbering
   of arena indices.  Toolkit: Proofs/RenumberBase.v. *)
From Autog Require Import Base Graph Populate Phase1.
From Autog.Proofs Require Import ListLemmas RenumberBase.
Local Open Scope nat_scope.

(* ---------- the relation on greedy states ---------- *)
Definition gst_rel (sigma : nat -> nat) (s s' : gst) : Prop :=
  aux_rel sigma None (arc s) (arc s') /\
  aux_rel sigma 0%Z (outd s) (outd s') /\
  aux_rel sigma 0%Z (ind s) (ind s') /\
  srcs s' = map sigma (srcs s) /\
  snks s' = map sigma (snks s) /\
  nextR s' = nextR s /\ nextL s' = nextL s /\ cnt s' = cnt s.

(* top-level copies of the two step functions of update_neighbors *)
Definition un_in (g : graph) (s : gst) (e : nat) : gst :=
  if self_loop g e then s else
  let src := e_from (gedge g e) in
  match arc_of s src with
  | Some _ => s
  | None =>
      let od := upd (outd s) src (fun z => (z - 1)%Z) in
      let sk := if ((zget od src <=? 0) && (0 <? zget (ind s) src))%Z then snks s ++ [src] else snks s in
      mkGst (arc s) od (ind s) (srcs s) sk (nextR s) (nextL s) (cnt s)
  end.

Definition un_out (g : graph) (s : gst) (e : nat) : gst :=
  if self_loop g e then s else
  let tgt := e_to (gedge g e) in
  match arc_of s tgt with
  | Some _ => s
  | None =>
      let id := upd (ind s) tgt (fun z => (z - 1)%Z) in
      let sr := if ((zget id tgt <=? 0) && (0 <? zget (outd s) tgt))%Z then srcs s ++ [tgt] else srcs s in
      mkGst (arc s) (outd s) id sr (snks s) (nextR s) (nextL s) (cnt s)
  end.

Lemma update_neighbors_eq : forall g s n,
  update_neighbors g s n = fold_left (un_out g) (n_out (gnode g n)) (fold_left (un_in g) (n_in (gnode g n)) s).
Proof. reflexivity. Qed.

(* one-step unfoldings of the fuel-recursive functions (their first test is not on the fuel) *)
Lemma drain_sinks_eq : forall fuel g s,
  drain_sinks fuel g s =
  match snks s with
  | [] => Ok s
  | k :: rest =>
      match fuel with
      | O => Err (ErrFuel 13)
      | S f =>
          let s := mkGst (set_nth (arc s) k (Some (nextR s))) (outd s) (ind s) (srcs s) rest (nextR s - 1)%Z (nextL s) (cnt s) in
          let s := update_neighbors g s k in
          drain_sinks f g (mkGst (arc s) (outd s) (ind s) (srcs s) (snks s) (nextR s) (nextL s) (cnt s - 1)%Z)
      end
  end.
Proof. intros [|f] g s; reflexivity. Qed.

Lemma drain_sources_eq : forall fuel g s,
  drain_sources fuel g s =
  match srcs s with
  | [] => Ok s
  | k :: rest =>
      match fuel with
      | O => Err (ErrFuel 14)
      | S f =>
          let s := mkGst (set_nth (arc s) k (Some (nextL s))) (outd s) (ind s) rest (snks s) (nextR s) (nextL s + 1)%Z (cnt s) in
          let s := update_neighbors g s k in
          drain_sources f g (mkGst (arc s) (outd s) (ind s) (srcs s) (snks s) (nextR s) (nextL s) (cnt s - 1)%Z)
      end
  end.
Proof. intros [|f] g s; reflexivity. Qed.

Lemma drain_rest_eq : forall fuel g s,
  drain_rest fuel g s =
  if (cnt s <=? 0)%Z then Ok s else
  match fuel with
  | O => Err (ErrFuel 15)
  | S f =>
      match max_outflow_nodes g s with
      | [] => Err (ErrIndex 15)
      | cands =>
          let n := nth (Nat.div (length cands) 2) cands 0%nat in
          let s := mkGst (set_nth (arc s) n (Some (nextL s))) (outd s) (ind s) (srcs s) (snks s) (nextR s) (nextL s + 1)%Z (cnt s) in
          let s := update_neighbors g s n in
          drain_rest f g (mkGst (arc s) (outd s) (ind s) (srcs s) (snks s) (nextR s) (nextL s) (cnt s - 1)%Z)
      end
  end.
Proof. intros [|f] g s; reflexivity. Qed.

Lemma greedy_outer_eq : forall fuel g s,
  greedy_outer fuel g s =
  if (cnt s <=? 0)%Z then Ok s else
  match fuel with
  | O => Err (ErrFuel 16)
  | S f =>
      let fl := S (length (g_na g) + length (g_ea g)) in
      do s <- drain_sinks fl g s;
      do s <- drain_sources fl g s;
      do s <- drain_rest fl g s;
      greedy_outer f g s
  end.
Proof. intros [|f] g s; reflexivity. Qed.

Ltac gsplit :=
  unfold gst_rel; cbn [arc outd ind srcs snks nextR nextL cnt];
  repeat match goal with |- _ /\ _ => split end; try assumption; try reflexivity.

Section Greedy.
  Variables sigma tau : nat -> nat.
  Variables g g' : graph.
  Hypothesis H : iso sigma tau g g'.

  Let Hs : inj sigma := iso_sinj H.

  Lemma un_in_rel : forall s s' e, gst_rel sigma s s' -> e < length (g_ea g) ->
    gst_rel sigma (un_in g s e) (un_in g' s' (tau e)).
  Proof.
    intros s s' e R L. unfold un_in.
    rewrite (iso_self_loop H L). destruct (self_loop g e); [exact R|].
    rewrite (iso_e_from H L). cbv zeta.
    pose proof R as (Ra & Ro & Ri & Rs & Rk & RR & RL & Rc).
    unfold arc_of. rewrite (aux_rel_nth _ Ra).
    destruct (nth (e_from (gedge g e)) (arc s) None) as [z|]; [exact R|].
    set (src := e_from (gedge g e)).
    assert (Ro' : aux_rel sigma 0%Z (upd (outd s) src (fun z => (z - 1)%Z)) (upd (outd s') (sigma src) (fun z => (z - 1)%Z))).
    { apply aux_rel_upd; auto. }
    unfold zget. rewrite (aux_rel_nth _ Ro'), (aux_rel_nth _ Ri). rewrite Rk.
    gsplit.
    destruct (_ && _)%bool; [rewrite map_app; reflexivity|reflexivity].
  Qed.

  Lemma un_out_rel : forall s s' e, gst_rel sigma s s' -> e < length (g_ea g) ->
    gst_rel sigma (un_out g s e) (un_out g' s' (tau e)).
  Proof.
    intros s s' e R L. unfold un_out.
    rewrite (iso_self_loop H L). destruct (self_loop g e); [exact R|].
    rewrite (iso_e_to H L). cbv zeta.
    pose proof R as (Ra & Ro & Ri & Rs & Rk & RR & RL & Rc).
    unfold arc_of. rewrite (aux_rel_nth _ Ra).
    destruct (nth (e_to (gedge g e)) (arc s) None) as [z|]; [exact R|].
    set (tgt := e_to (gedge g e)).
    assert (Ri' : aux_rel sigma 0%Z (upd (ind s) tgt (fun z => (z - 1)%Z)) (upd (ind s') (sigma tgt) (fun z => (z - 1)%Z))).
    { apply aux_rel_upd; auto. }
    unfold zget. rewrite (aux_rel_nth _ Ri'), (aux_rel_nth _ Ro). rewrite Rs.
    gsplit.
    destruct (_ && _)%bool; [rewrite map_app; reflexivity|reflexivity].
  Qed.

  (* 1 *)
  Lemma update_neighbors_rel : forall s s' n, gst_rel sigma s s' ->
    gst_rel sigma (update_neighbors g s n) (update_neighbors g' s' (sigma n)).
  Proof.
    intros s s' n R. rewrite !update_neighbors_eq.
    rewrite (iso_n_out H), (iso_n_in H).
    apply fold_left_rel with (R := gst_rel sigma).
    - apply fold_left_rel with (R := gst_rel sigma); [exact R|].
      intros a b e He Rab. apply un_in_rel; auto. eapply (iso_in_lt H); eauto.
    - intros a b e He Rab. apply un_out_rel; auto. eapply (iso_out_lt H); eauto.
  Qed.

  (* the common tail of the three drain loops: mark node k with rank z, update its neighbours, count down *)
  Lemma gst_rel_dec_cnt : forall s s', gst_rel sigma s s' ->
    gst_rel sigma (mkGst (arc s) (outd s) (ind s) (srcs s) (snks s) (nextR s) (nextL s) (cnt s - 1)%Z)
                  (mkGst (arc s') (outd s') (ind s') (srcs s') (snks s') (nextR s') (nextL s') (cnt s' - 1)%Z).
  Proof.
    intros s s' (Ra & Ro & Ri & Rs & Rk & RR & RL & Rc).
    rewrite Rc. gsplit.
  Qed.

  (* 2 *)
  Lemma drain_sinks_rel : forall f f' s s', gst_rel sigma s s' ->
    res_rel (gst_rel sigma) (drain_sinks f g s) (drain_sinks f' g' s').
  Proof.
    induction f as [|f IH]; intros f' s s' R; rewrite (drain_sinks_eq _ g s), (drain_sinks_eq f' g' s');
      pose proof R as (Ra & Ro & Ri & Rs & Rk & RR & RL & Rc); rewrite Rk;
      destruct (snks s) as [|k rest] eqn:Ek; cbn [map]; try (apply rr_ok; exact R).
    - apply rr_fuel_l.
    - destruct f' as [|f']; [apply rr_fuel_r|]. cbv zeta.
      apply IH. apply gst_rel_dec_cnt. apply update_neighbors_rel.
      rewrite RR. gsplit. apply aux_rel_set_nth; auto.
  Qed.

  Lemma drain_sources_rel : forall f f' s s', gst_rel sigma s s' ->
    res_rel (gst_rel sigma) (drain_sources f g s) (drain_sources f' g' s').
  Proof.
    induction f as [|f IH]; intros f' s s' R; rewrite (drain_sources_eq _ g s), (drain_sources_eq f' g' s');
      pose proof R as (Ra & Ro & Ri & Rs & Rk & RR & RL & Rc); rewrite Rs;
      destruct (srcs s) as [|k rest] eqn:Ek; cbn [map]; try (apply rr_ok; exact R).
    - apply rr_fuel_l.
    - destruct f' as [|f']; [apply rr_fuel_r|]. cbv zeta.
      apply IH. apply gst_rel_dec_cnt. apply update_neighbors_rel.
      rewrite RL. gsplit. apply aux_rel_set_nth; auto.
  Qed.

  Lemma max_outflow_nodes_rel : forall s s', gst_rel sigma s s' ->
    max_outflow_nodes g' s' = map sigma (max_outflow_nodes g s).
  Proof.
    intros s s' (Ra & Ro & Ri & Rs & Rk & RR & RL & Rc). unfold max_outflow_nodes.
    rewrite (iso_N H).
    rewrite (filter_map_comm sigma (fun n => match arc_of s n with None => true | Some _ => false end)).
    2:{ intros x _. unfold arc_of. rewrite (aux_rel_nth _ Ra). reflexivity. }
    destruct (filter _ (g_N g)) as [|n0 unp]; [reflexivity|]. cbn [map]. cbv zeta.
    assert (Fl : forall n, (zget (outd s') (sigma n) - zget (ind s') (sigma n) = zget (outd s) n - zget (ind s) n)%Z).
    { intros n. unfold zget. rewrite (aux_rel_nth _ Ro), (aux_rel_nth _ Ri). reflexivity. }
    assert (Em : fold_left (fun m n => Z.max m (zget (outd s') n - zget (ind s') n)%Z) (map sigma (n0 :: unp))
                   (zget (outd s') (sigma n0) - zget (ind s') (sigma n0))%Z =
                 fold_left (fun m n => Z.max m (zget (outd s) n - zget (ind s) n)%Z) (n0 :: unp)
                   (zget (outd s) n0 - zget (ind s) n0)%Z).
    { apply fold_left_rel with (R := fun a b => b = a) (F' := fun m n => Z.max m (zget (outd s') n - zget (ind s') n)%Z).
      - apply Fl.
      - intros a b x _ E. subst b. rewrite Fl. reflexivity. }
    cbn [map] in Em. rewrite Em.
    change (sigma n0 :: map sigma unp) with (map sigma (n0 :: unp)).
    apply filter_map_comm. intros x _. rewrite Fl. reflexivity.
  Qed.

  Lemma drain_rest_rel : forall f f' s s', gst_rel sigma s s' ->
    res_rel (gst_rel sigma) (drain_rest f g s) (drain_rest f' g' s').
  Proof.
    induction f as [|f IH]; intros f' s s' R; rewrite (drain_rest_eq _ g s), (drain_rest_eq f' g' s');
      pose proof R as (Ra & Ro & Ri & Rs & Rk & RR & RL & Rc); rewrite Rc;
      destruct (cnt s <=? 0)%Z; try (apply rr_ok; exact R).
    - apply rr_fuel_l.
    - destruct f' as [|f']; [apply rr_fuel_r|].
      rewrite (max_outflow_nodes_rel _ _ R).
      destruct (max_outflow_nodes g s) as [|c cs]; [apply rr_err|].
      cbn [map]. cbv zeta.
      change (sigma c :: map sigma cs) with (map sigma (c :: cs)).
      rewrite map_length.
      rewrite (nth_map_lt sigma (c :: cs) 0 0).
      2:{ apply Nat.div_lt; cbn [length]; lia. }
      apply IH. apply gst_rel_dec_cnt. apply update_neighbors_rel.
      rewrite RL. gsplit. apply aux_rel_set_nth; auto.
  Qed.

  Lemma greedy_outer_rel : forall f f' s s', gst_rel sigma s s' ->
    res_rel (gst_rel sigma) (greedy_outer f g s) (greedy_outer f' g' s').
  Proof.
    induction f as [|f IH]; intros f' s s' R; rewrite (greedy_outer_eq _ g s), (greedy_outer_eq f' g' s');
      pose proof R as (Ra & Ro & Ri & Rs & Rk & RR & RL & Rc); rewrite Rc;
      destruct (cnt s <=? 0)%Z; try (apply rr_ok; exact R).
    - apply rr_fuel_l.
    - destruct f' as [|f']; [apply rr_fuel_r|]. cbv zeta.
      apply res_rel_bind with (R := gst_rel sigma); [apply drain_sinks_rel; exact R|].
      intros s1 s1' R1.
      apply res_rel_bind with (R := gst_rel sigma); [apply drain_sources_rel; exact R1|].
      intros s2 s2' R2.
      apply res_rel_bind with (R := gst_rel sigma); [apply drain_rest_rel; exact R2|].
      intros s3 s3' R3. apply IH. exact R3.
  Qed.
End Greedy.

(* ---------- 3: the ranks ---------- *)
Section Ranks.
  Variables sigma tau : nat -> nat.
  Variables g g' : graph.
  Hypothesis H : iso sigma tau g g'.

  Lemma deg_table_rel : forall (k k' : nat -> nat), (forall n, k' (sigma n) = k n) ->
    aux_rel sigma 0%Z
      (fold_left (fun l n => set_nth l n (Z.of_nat (k n))) (g_N g) (repeat 0%Z (length (g_na g))))
      (fold_left (fun l n => set_nth l n (Z.of_nat (k' n))) (g_N g') (repeat 0%Z (length (g_na g')))).
  Proof.
    intros k k' K. rewrite (iso_N H).
    apply fold_left_rel with (R := aux_rel sigma 0%Z) (F' := fun l n => set_nth l n (Z.of_nat (k' n))).
    - apply (aux_rel_repeat H).
    - intros a b x _ Rab. rewrite K. apply aux_rel_set_nth; auto. apply (iso_sinj H).
  Qed.

  Lemma greedy_init_rel :
    gst_rel sigma
      (mkGst (repeat None (length (g_na g)))
         (fold_left (fun l n => set_nth l n (Z.of_nat (outdeg g n))) (g_N g) (repeat 0%Z (length (g_na g))))
         (fold_left (fun l n => set_nth l n (Z.of_nat (indeg g n))) (g_N g) (repeat 0%Z (length (g_na g))))
         (filter (fun n => Nat.eqb (indeg g n) 0) (g_N g))
         (filter (fun n => Nat.eqb (outdeg g n) 0) (g_N g))
         (-1)%Z 1%Z (Z.of_nat (length (g_N g))))
      (mkGst (repeat None (length (g_na g')))
         (fold_left (fun l n => set_nth l n (Z.of_nat (outdeg g' n))) (g_N g') (repeat 0%Z (length (g_na g'))))
         (fold_left (fun l n => set_nth l n (Z.of_nat (indeg g' n))) (g_N g') (repeat 0%Z (length (g_na g'))))
         (filter (fun n => Nat.eqb (indeg g' n) 0) (g_N g'))
         (filter (fun n => Nat.eqb (outdeg g' n) 0) (g_N g'))
         (-1)%Z 1%Z (Z.of_nat (length (g_N g')))).
  Proof.
    gsplit.
    - apply (aux_rel_repeat H).
    - apply deg_table_rel. apply (iso_outdeg H).
    - apply deg_table_rel. apply (iso_indeg H).
    - rewrite (iso_N H). apply filter_map_comm. intros x _. rewrite (iso_indeg H). reflexivity.
    - rewrite (iso_N H). apply filter_map_comm. intros x _. rewrite (iso_outdeg H). reflexivity.
    - rewrite (iso_N_length H). reflexivity.
  Qed.

  Lemma greedy_ranks_rel : res_rel (aux_rel sigma None) (greedy_ranks g) (greedy_ranks g').
  Proof.
    unfold greedy_ranks. cbv zeta.
    apply res_rel_bind with (R := gst_rel sigma).
    - rewrite (iso_N_length H) at 1. apply greedy_outer_rel with (tau := tau); [exact H|]. apply greedy_init_rel.
    - intros s s' (Ra & _). apply rr_ok. rewrite (iso_N_length H).
      apply (aux_rel_map (fun o : option Z => match o with
                                               | Some z => if (z <? 0)%Z then Some (z + (Z.of_nat (length (g_N g)) + 1))%Z else Some z
                                               | None => None end) Ra).
  Qed.

  Lemma rank_of_rel : forall r r' n, aux_rel sigma None r r' -> rank_of r' (sigma n) = rank_of r n.
  Proof. intros r r' n R. unfold rank_of. rewrite (aux_rel_nth _ R). reflexivity. Qed.
End Ranks.

(* ---------- 4: the whole breaker ---------- *)
Section Exec.
  Variables sigma tau : nat -> nat.

  (* the inner loop over a FIXED list of edges while the graph changes *)
  Lemma greedy_inner_iso : forall r r' n l g g', aux_rel sigma None r r' ->
    (forall e, In e l -> e < length (g_ea g)) -> iso sigma tau g g' ->
    iso sigma tau
      (fold_left (fun g e => if (rank_of r (e_to (gedge g e)) <? rank_of r n)%Z then reverse_edge g e else g) l g)
      (fold_left (fun g e => if (rank_of r' (e_to (gedge g e)) <? rank_of r' (sigma n))%Z then reverse_edge g e else g)
                 (map tau l) g').
  Proof.
    intros r r' n l g g' R Hl H.
    apply fold_edges_iso with
      (F := fun g e => if (rank_of r (e_to (gedge g e)) <? rank_of r n)%Z then reverse_edge g e else g)
      (F' := fun g e => if (rank_of r' (e_to (gedge g e)) <? rank_of r' (sigma n))%Z then reverse_edge g e else g); auto.
    intros a b e Hab L. cbv beta.
    rewrite (iso_e_to Hab L). rewrite (rank_of_rel sigma r r' (e_to (gedge a e)) R), (rank_of_rel sigma r r' n R).
    destruct (_ <? _)%Z.
    - split; [apply reverse_edge_iso; auto|apply reverse_edge_ea_length].
    - split; auto.
  Qed.

  Theorem exec_greedy_iso : forall g g', iso sigma tau g g' ->
    res_rel (iso sigma tau) (exec_greedy g) (exec_greedy g').
  Proof.
    intros g g' H. unfold exec_greedy.
    apply res_rel_bind with (R := aux_rel sigma None); [apply greedy_ranks_rel with (tau := tau); exact H|].
    intros r r' R. apply rr_ok. rewrite (iso_N H).
    apply fold_left_rel with (R := iso sigma tau)
      (F' := fun g n => fold_left (fun g e => if (rank_of r' (e_to (gedge g e)) <? rank_of r' n)%Z then reverse_edge g e else g)
                                  (n_out (gnode g n)) g); [exact H|].
    intros a b n _ Hab. rewrite (iso_n_out Hab).
    apply greedy_inner_iso; auto. intros e He. eapply (iso_out_lt Hab); eauto.
  Qed.
End Exec.

Print Assumptions update_neighbors_rel.
Print Assumptions drain_sinks_rel.
Print Assumptions drain_sources_rel.
Print Assumptions max_outflow_nodes_rel.
Print Assumptions drain_rest_rel.
Print Assumptions greedy_outer_rel.
Print Assumptions greedy_ranks_rel.
Print Assumptions rank_of_rel.
Print Assumptions exec_greedy_iso.
