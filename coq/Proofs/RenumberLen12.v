(* RenumberLen12.v — phases 1 and 2 never change the LENGTH of the edge arena g_ea. *)
From Autog Require Import Base Graph Phase1 Phase2.
From Autog.Proofs Require Import RenumberBase.
Local Open Scope nat_scope.

Local Notation eal g := (length (g_ea g)).

Definition same_ea (g r : graph) : Prop := eal r = eal g.

Lemma same_ea_refl : forall g, same_ea g g.
Proof. intros; reflexivity. Qed.

Lemma same_ea_trans : forall a b c, same_ea a b -> same_ea b c -> same_ea a c.
Proof. unfold same_ea; intros; congruence. Qed.

(* ---------- generic fold lemmas ---------- *)
Lemma fold_left_ea_proj : forall (St A : Type) (p : St -> graph) (F : St -> A -> St) (l : list A) (s : St),
  (forall s x, eal (p (F s x)) = eal (p s)) -> eal (p (fold_left F l s)) = eal (p s).
Proof.
  intros St A p F l. induction l as [|a l IH]; intros s H; cbn [fold_left]; auto.
  rewrite IH by auto. apply H.
Qed.

Lemma fold_left_ea : forall (A : Type) (F : graph -> A -> graph) (l : list A) (g : graph),
  (forall g x, eal (F g x) = eal g) -> eal (fold_left F l g) = eal g.
Proof. intros A F l g H. apply (fold_left_ea_proj graph A (fun g0 => g0) F l g H). Qed.

Lemma fold_left_invP : forall (St A : Type) (P : St -> Prop) (F : St -> A -> St) (l : list A) (s : St),
  (forall s x, P s -> P (F s x)) -> P s -> P (fold_left F l s).
Proof.
  intros St A P F l. induction l as [|a l IH]; intros s H H0; cbn [fold_left]; auto.
Qed.

Lemma upd_node_ea : forall g n f, g_ea (upd_node g n f) = g_ea g.
Proof. reflexivity. Qed.

Lemma fold_upd_node_ea : forall (f : nat -> node -> node) l g,
  eal (fold_left (fun g n => upd_node g n (f n)) l g) = eal g.
Proof. intros. apply fold_left_ea. intros; reflexivity. Qed.

(* ================================================================================================ *)
(* Phase 1                                                                                           *)
(* ================================================================================================ *)
Lemma fold_reverse_ea_length : forall l g, eal (fold_left reverse_edge l g) = eal g.
Proof. intros. apply fold_left_ea. intros; apply reverse_edge_ea_length. Qed.

Lemma remove_two_node_cycles_ea_length : forall g, eal (remove_two_node_cycles g) = eal g.
Proof. intros. unfold remove_two_node_cycles. apply fold_reverse_ea_length. Qed.

Lemma exec_depth_first_ea_length : forall g r, exec_depth_first g = Ok r -> eal r = eal g.
Proof.
  intros g r H. unfold exec_depth_first in H. cbv zeta in H.
  destruct (dfs_nodes _ g (filter _ _) _) as [st|] eqn:E1; cbn [bind] in H; [|discriminate].
  destruct (dfs_nodes _ g (g_N g) st) as [st2|] eqn:E2; cbn [bind] in H; [|discriminate].
  destruct st2 as [[vis act] rev]. inversion H; subst. apply fold_reverse_ea_length.
Qed.

Lemma exec_greedy_ea_length : forall g r, exec_greedy g = Ok r -> eal r = eal g.
Proof.
  intros g r H. unfold exec_greedy in H.
  destruct (greedy_ranks g) as [rk|] eqn:E; cbn [bind] in H; [|discriminate].
  inversion H; subst. apply fold_left_ea. intros g1 n.
  apply fold_left_ea. intros g2 e.
  destruct (_ <? _)%Z; auto using reverse_edge_ea_length.
Qed.

Theorem phase1_ea_length : forall alg g r, phase1 alg g = Ok r -> length (g_ea r) = length (g_ea g).
Proof.
  intros alg g r H. unfold phase1 in H.
  destruct (Nat.eqb (length (g_N g)) 1); [inversion H; subst; reflexivity|].
  cbv zeta in H.
  destruct (has_cycles (remove_two_node_cycles g)) as [c|]; cbn [bind] in H; [|discriminate].
  destruct (negb c).
  - inversion H; subst. apply remove_two_node_cycles_ea_length.
  - destruct alg.
    + destruct (exec_greedy _) as [g1|] eqn:E; cbn [bind] in H; [|discriminate].
      destruct (has_cycles g1) as [c1|]; cbn [bind] in H; [|discriminate].
      destruct c1; [discriminate|]. inversion H; subst.
      apply exec_greedy_ea_length in E. rewrite E. apply remove_two_node_cycles_ea_length.
    + destruct (exec_depth_first _) as [g1|] eqn:E; cbn [bind] in H; [|discriminate].
      destruct (has_cycles g1) as [c1|]; cbn [bind] in H; [|discriminate].
      destruct c1; [discriminate|]. inversion H; subst.
      apply exec_depth_first_ea_length in E. rewrite E. apply remove_two_node_cycles_ea_length.
Qed.
Print Assumptions phase1_ea_length.

(* ================================================================================================ *)
(* Phase 2                                                                                           *)
(* ================================================================================================ *)
Lemma exec_longest_path_ea_length : forall g r, exec_longest_path g = Ok r -> eal r = eal g.
Proof.
  intros g r H. unfold exec_longest_path in H.
  destruct (lp_nodes _ g (g_N g) _) as [[hs nl]|] eqn:E; cbn [bind] in H; [|discriminate].
  inversion H; subst. apply fold_left_ea. intros; reflexivity.
Qed.

(* ---------- init_layers ---------- *)
Definition il_st_len := (graph * list Z * list nat)%type.

Definition il_step_len (n : nat) (acc : il_st_len) (e : nat) : il_st_len :=
  let '(g, unseen, q) := acc in
  let m := e_to (gedge g e) in
  let g := upd_node g m (set_layer (Z.max (layer_of g m) (layer_of g n + e_delta (gedge g e)))) in
  let unseen := upd unseen m (fun z => (z - 1)%Z) in
  if (nth m unseen 0 =? 0)%Z then (g, unseen, q ++ [m]) else (g, unseen, q).

Lemma init_layers_loop_S_len : forall f g n rest unseen,
  init_layers_loop (S f) g (n :: rest) unseen =
  let '(g1, unseen1, rest1) := fold_left (il_step_len n) (n_out (gnode g n)) (g, unseen, rest) in
  init_layers_loop f g1 rest1 unseen1.
Proof. reflexivity. Qed.

Lemma il_step_len_ea : forall n acc e, eal (fst (fst (il_step_len n acc e))) = eal (fst (fst acc)).
Proof.
  intros n [[g u] q] e. unfold il_step_len. cbv zeta.
  destruct (_ =? _)%Z; reflexivity.
Qed.

Lemma init_layers_loop_ea_length : forall f g q unseen r,
  init_layers_loop f g q unseen = Ok r -> eal r = eal g.
Proof.
  induction f as [|f IH]; intros g q unseen r H.
  - destruct q; cbn [init_layers_loop] in H; [inversion H; subst; reflexivity|discriminate].
  - destruct q as [|n rest]; [cbn [init_layers_loop] in H; inversion H; subst; reflexivity|].
    rewrite init_layers_loop_S_len in H.
    pose proof (fold_left_ea_proj _ _ (fun s : il_st_len => fst (fst s)) (il_step_len n)
                  (n_out (gnode g n)) (g, unseen, rest) (il_step_len_ea n)) as HF.
    destruct (fold_left (il_step_len n) (n_out (gnode g n)) (g, unseen, rest)) as [[g1 u1] r1].
    cbn [fst] in HF. apply IH in H. congruence.
Qed.

Lemma init_layers_ea_length : forall g r, init_layers g = Ok r -> eal r = eal g.
Proof. intros g r H. unfold init_layers in H. eapply init_layers_loop_ea_length; eauto. Qed.

(* ---------- tight_tree ---------- *)
Definition tt_loop_len (rec : nat -> tt_st -> res tt_st) (n : nat) : list nat -> tt_st -> res tt_st :=
  fix loop (es : list nat) (st : tt_st) : res tt_st :=
    match es with
    | [] => Ok st
    | e :: t =>
        let '(g, ve, vn) := st in
        if mem_nat e ve then loop t st else
        let ve := e :: ve in
        let m := connected_node g e n in
        if e_tree (gedge g e) then do st' <- rec m (g, ve, vn); loop t st'
        else if negb (mem_nat m vn) && (slack g e =? 0)%Z then
               do st' <- rec m (upd_edge g e (set_tree true), ve, vn); loop t st'
             else loop t (g, ve, vn)
    end.

Lemma tight_tree_S_len : forall f n g ve vn,
  tight_tree (S f) n (g, ve, vn) = tt_loop_len (tight_tree f) n (all_edges g n) (g, ve, n :: vn).
Proof. intros. reflexivity. Qed.

Lemma tt_loop_cons_len : forall rec n e t g ve vn,
  tt_loop_len rec n (e :: t) (g, ve, vn) =
  if mem_nat e ve then tt_loop_len rec n t (g, ve, vn) else
  if e_tree (gedge g e) then do st' <- rec (connected_node g e n) (g, e :: ve, vn); tt_loop_len rec n t st'
  else if negb (mem_nat (connected_node g e n) vn) && (slack g e =? 0)%Z then
         do st' <- rec (connected_node g e n) (upd_edge g e (set_tree true), e :: ve, vn); tt_loop_len rec n t st'
       else tt_loop_len rec n t (g, e :: ve, vn).
Proof. intros. reflexivity. Qed.

Lemma tt_loop_len_ea : forall rec n,
  (forall m st r, rec m st = Ok r -> eal (fst (fst r)) = eal (fst (fst st))) ->
  forall es st r, tt_loop_len rec n es st = Ok r -> eal (fst (fst r)) = eal (fst (fst st)).
Proof.
  intros rec n Hrec. induction es as [|e t IH]; intros st r H.
  - cbn [tt_loop_len] in H. inversion H; subst; reflexivity.
  - destruct st as [[g ve] vn]. rewrite tt_loop_cons_len in H.
    destruct (mem_nat e ve); [apply IH in H; exact H|].
    destruct (e_tree (gedge g e)).
    + destruct (rec _ _) as [st'|] eqn:E; cbn [bind] in H; [|discriminate].
      apply IH in H. apply Hrec in E. cbn [fst] in *. congruence.
    + destruct (_ && _).
      * destruct (rec _ _) as [st'|] eqn:E; cbn [bind] in H; [|discriminate].
        apply IH in H. apply Hrec in E. cbn [fst] in *.
        rewrite upd_edge_ea_length in E. congruence.
      * apply IH in H. exact H.
Qed.

Lemma tight_tree_ea_length : forall f n st r,
  tight_tree f n st = Ok r -> eal (fst (fst r)) = eal (fst (fst st)).
Proof.
  induction f as [|f IH]; intros n st r H.
  - cbn [tight_tree] in H. discriminate.
  - destruct st as [[g ve] vn]. rewrite tight_tree_S_len in H.
    apply (tt_loop_len_ea (tight_tree f) n IH) in H. exact H.
Qed.

(* ---------- feasible_loop / feasible_tree ---------- *)
Lemma feasible_loop_S_len : forall f g,
  feasible_loop (S f) g =
  match g_N g with
  | [] => Err (ErrIndex 25)
  | root :: _ =>
      let g := fold_left (fun g e => upd_edge g e (set_tree false)) (g_E g) g in
      do st <- tight_tree (S (length (g_na g))) root (g, [], []);
      let '(g, _, tree) := st in
      if Nat.eqb (length tree) (length (g_N g)) then Ok g else
      match incident_non_tree_edge g tree with
      | None => Err ErrNoIncidentEdge
      | Some e =>
          let d := slack g e in
          let d := if mem_nat (e_to (gedge g e)) tree then (- d)%Z else d in
          feasible_loop f (fold_left (fun g n => upd_node g n (fun nd => set_layer (n_layer nd + d) nd)) tree g)
      end
  end.
Proof. reflexivity. Qed.

Lemma feasible_loop_ea_length : forall f g r, feasible_loop f g = Ok r -> eal r = eal g.
Proof.
  induction f as [|f IH]; intros g r H.
  - cbn [feasible_loop] in H. discriminate.
  - rewrite feasible_loop_S_len in H.
    destruct (g_N g) as [|root tl]; [discriminate|]. cbv zeta in H.
    destruct (tight_tree _ root _) as [[[g2 ve] tree]|] eqn:E; cbn [bind] in H; [|discriminate].
    apply tight_tree_ea_length in E. cbn [fst] in E.
    rewrite fold_left_ea in E by (intros; apply upd_edge_ea_length).
    destruct (Nat.eqb _ _); [inversion H; subst; exact E|].
    destruct (incident_non_tree_edge g2 tree) as [e|]; [|discriminate].
    apply IH in H. rewrite fold_left_ea in H by (intros; reflexivity). congruence.
Qed.

Lemma set_cut_values_ea_length : forall g ll, eal (set_cut_values g ll) = eal g.
Proof.
  intros. unfold set_cut_values. apply fold_left_ea. intros g1 e.
  destruct (negb _); [reflexivity|apply upd_edge_ea_length].
Qed.

Lemma feasible_tree_ea_length : forall g r, feasible_tree g = Ok r -> eal (fst r) = eal g.
Proof.
  intros g r H. unfold feasible_tree in H.
  destruct (init_layers g) as [g1|] eqn:E1; cbn [bind] in H; [|discriminate].
  destruct (feasible_loop _ g1) as [g2|] eqn:E2; cbn [bind] in H; [|discriminate].
  destruct (set_stree_values g2) as [ll|]; cbn [bind] in H; [|discriminate].
  inversion H; subst. cbn [fst]. rewrite set_cut_values_ea_length.
  apply init_layers_ea_length in E1. apply feasible_loop_ea_length in E2. congruence.
Qed.

(* ---------- exchange / pivot_loop ---------- *)
Lemma exchange_ea_length : forall g ll e f r, exchange g ll e f = Ok r -> eal (fst r) = eal g.
Proof.
  intros g ll e f r H. unfold exchange in H. cbv zeta in H.
  destruct (set_stree_values _) as [ll'|]; cbn [bind] in H; [|discriminate].
  inversion H; subst. cbn [fst]. rewrite set_cut_values_ea_length, !upd_edge_ea_length.
  destruct (0 <? _)%Z; [|reflexivity].
  apply fold_left_ea. intros g1 n. destruct (negb _); reflexivity.
Qed.

Lemma pivot_loop_ea_length : forall fuel i maxitr g ll r,
  pivot_loop fuel i maxitr g ll = Ok r -> eal (fst (fst r)) = eal g.
Proof.
  induction fuel as [|fu IH]; intros i maxitr g ll r H.
  - cbn [pivot_loop] in H.
    destruct (neg_cut_tree_edge g) as [e|]; [|inversion H; subst; reflexivity].
    destruct (_ <=? _)%Z; [inversion H; subst; reflexivity|].
    destruct (min_slack_non_tree_edge g ll e); [discriminate|inversion H; subst; reflexivity].
  - cbn [pivot_loop] in H.
    destruct (neg_cut_tree_edge g) as [e|]; [|inversion H; subst; reflexivity].
    destruct (_ <=? _)%Z; [inversion H; subst; reflexivity|].
    destruct (min_slack_non_tree_edge g ll e) as [f|]; [|inversion H; subst; reflexivity].
    destruct (exchange g ll e f) as [r1|] eqn:E; cbn [bind] in H; [|discriminate].
    apply IH in H. apply exchange_ea_length in E. congruence.
Qed.

(* ---------- normalize / vbalance ---------- *)
Lemma normalize_ea_length : forall g, eal (normalize g) = eal g.
Proof.
  intros. unfold normalize. destruct (g_N g) as [|n0 tl]; [reflexivity|]. cbv zeta.
  destruct (_ =? 0)%Z; [reflexivity|]. apply fold_left_ea. intros; reflexivity.
Qed.

Lemma vbalance_ea_length : forall g, eal (vbalance g) = eal g.
Proof.
  intros. unfold vbalance. cbv zeta.
  match goal with |- eal (fst (fold_left ?F ?l ?s0)) = _ =>
    rewrite (fold_left_ea_proj _ _ (fun a : graph * list (Z * Z) => fst a) F l s0) end; [reflexivity|].
  intros [g1 ls] n.
  destruct (Nat.eqb _ _); [|reflexivity].
  destruct (_ <? _)%Z; reflexivity.
Qed.

(* ---------- adjust_layers / hbalance ---------- *)
Definition al_loop_len (rec : nat -> graph -> res graph) (ll : limlow) (n : nat) (pick : edge -> nat) :
  list nat -> graph -> res graph :=
  fix loop (es : list nat) (g : graph) : res graph :=
    match es with
    | [] => Ok g
    | e :: t =>
        if negb (e_tree (gedge g e)) then loop t g else
        if negb (lim_of ll n <? lim_of ll (connected_node g e n))%Z
        then do g' <- rec (pick (gedge g e)) g; loop t g'
        else loop t g
    end.

Lemma adjust_layers_S_len : forall f ll n delta g,
  adjust_layers (S f) ll n delta g =
  let g0 := upd_node g n (fun nd => set_layer (n_layer nd - delta) nd) in
  do g1 <- al_loop_len (fun m g => adjust_layers f ll m delta g) ll n e_to (n_out (gnode g0 n)) g0;
  al_loop_len (fun m g => adjust_layers f ll m delta g) ll n e_from (n_in (gnode g1 n)) g1.
Proof. reflexivity. Qed.

Lemma al_loop_len_ea : forall rec ll n pick,
  (forall m g r, rec m g = Ok r -> eal r = eal g) ->
  forall es g r, al_loop_len rec ll n pick es g = Ok r -> eal r = eal g.
Proof.
  intros rec ll n pick Hrec. induction es as [|e t IH]; intros g r H.
  - cbn [al_loop_len] in H. inversion H; subst; reflexivity.
  - cbn [al_loop_len] in H.
    destruct (negb (e_tree (gedge g e))); [apply IH in H; exact H|].
    destruct (negb (_ <? _)%Z); [|apply IH in H; exact H].
    destruct (rec _ g) as [g'|] eqn:E; cbn [bind] in H; [|discriminate].
    apply IH in H. apply Hrec in E. congruence.
Qed.

Lemma adjust_layers_ea_length : forall f ll n delta g r,
  adjust_layers f ll n delta g = Ok r -> eal r = eal g.
Proof.
  induction f as [|f IH]; intros ll n delta g r H.
  - cbn [adjust_layers] in H. discriminate.
  - rewrite adjust_layers_S_len in H. cbv zeta in H.
    destruct (al_loop_len _ ll n e_to _ _) as [g1|] eqn:E; cbn [bind] in H; [|discriminate].
    apply al_loop_len_ea in H; [|intros m g0 r0 H0; eapply IH; exact H0].
    apply al_loop_len_ea in E; [|intros m g0 r0 H0; eapply IH; exact H0].
    rewrite upd_node_ea in E. congruence.
Qed.

Definition hb_step_len (ll : limlow) (rg : res graph) (e : nat) : res graph :=
  do g <- rg;
  if negb (e_tree (gedge g e)) then Ok g else
  if (e_cut (gedge g e) =? 0)%Z then
    match min_slack_non_tree_edge g ll e with
    | None => Ok g
    | Some f =>
        let d := slack g f in
        if (d <? 1)%Z then Ok g else
        if (lim_of ll (e_from (gedge g e)) <? lim_of ll (e_to (gedge g e)))%Z
        then adjust_layers (S (length (g_na g))) ll (e_from (gedge g e)) d g
        else adjust_layers (S (length (g_na g))) ll (e_to (gedge g e)) (- d)%Z g
    end
  else Ok g.

Lemma hbalance_eq_len : forall g ll, hbalance g ll = fold_left (hb_step_len ll) (g_E g) (Ok g).
Proof. reflexivity. Qed.

Definition res_ea (L : nat) (rg : res graph) : Prop :=
  match rg with Ok g => eal g = L | Err _ => True end.

Lemma hb_step_len_ea : forall ll L rg e, res_ea L rg -> res_ea L (hb_step_len ll rg e).
Proof.
  intros ll L rg e H. unfold hb_step_len. destruct rg as [g|]; cbn [bind]; [|exact I].
  cbn [res_ea] in H.
  destruct (negb _); [exact H|].
  destruct (_ =? 0)%Z; [|exact H].
  destruct (min_slack_non_tree_edge g ll e) as [f|]; [|exact H]. cbv zeta.
  destruct (_ <? 1)%Z; [exact H|].
  destruct (_ <? _)%Z.
  - destruct (adjust_layers _ _ _ _ _) as [r|] eqn:E; [|exact I].
    apply adjust_layers_ea_length in E. cbn [res_ea]. congruence.
  - destruct (adjust_layers _ _ _ _ _) as [r|] eqn:E; [|exact I].
    apply adjust_layers_ea_length in E. cbn [res_ea]. congruence.
Qed.

Lemma hbalance_ea_length : forall g ll r, hbalance g ll = Ok r -> eal r = eal g.
Proof.
  intros g ll r H. rewrite hbalance_eq_len in H.
  pose proof (fold_left_invP _ _ (res_ea (eal g)) (hb_step_len ll) (g_E g) (Ok g)
                (fun s x => hb_step_len_ea ll (eal g) s x) eq_refl) as HP.
  rewrite H in HP. exact HP.
Qed.

(* ---------- network simplex ---------- *)
Lemma exec_network_simplex_capped_ea_length : forall p g r,
  exec_network_simplex_capped p g = Ok r -> eal (fst r) = eal g.
Proof.
  intros p g r H. unfold exec_network_simplex_capped in H.
  destruct (feasible_tree g) as [[g1 ll1]|] eqn:E1; cbn [bind] in H; [|discriminate].
  apply feasible_tree_ea_length in E1. cbn [fst] in E1. cbv zeta in H.
  destruct (pivot_loop _ _ _ g1 ll1) as [[[g2 ll2] capped]|] eqn:E2; cbn [bind] in H; [|discriminate].
  apply pivot_loop_ea_length in E2. cbn [fst] in E2.
  destruct (ns_balance p =? 1)%Z.
  - cbn [bind] in H. inversion H; subst. cbn [fst].
    rewrite vbalance_ea_length, normalize_ea_length. congruence.
  - destruct (ns_balance p =? 2)%Z.
    + destruct (hbalance _ ll2) as [g3|] eqn:E3; cbn [bind] in H; [|discriminate].
      inversion H; subst. cbn [fst]. apply hbalance_ea_length in E3.
      rewrite normalize_ea_length in *. congruence.
    + cbn [bind] in H. inversion H; subst. cbn [fst]. rewrite normalize_ea_length. congruence.
Qed.

Lemma exec_network_simplex_ea_length : forall p g r, exec_network_simplex p g = Ok r -> eal r = eal g.
Proof.
  intros p g r H. unfold exec_network_simplex in H.
  destruct (exec_network_simplex_capped p g) as [r1|] eqn:E; cbn [bind] in H; [|discriminate].
  inversion H; subst. eapply exec_network_simplex_capped_ea_length; eauto.
Qed.

Lemma init_layer_slices_ea_length : forall g r, init_layer_slices g = Ok r -> eal r = eal g.
Proof.
  intros g r H. unfold init_layer_slices in H. cbv zeta in H.
  destruct (existsb _ _); [discriminate|]. inversion H; subst. reflexivity.
Qed.

Theorem phase2_ea_length : forall alg p g r, phase2 alg p g = Ok r -> length (g_ea r) = length (g_ea g).
Proof.
  intros alg p g r H. unfold phase2, assign_layers in H.
  destruct (Nat.eqb (length (g_N g)) 1).
  - cbn [bind] in H. apply init_layer_slices_ea_length in H. exact H.
  - destruct alg.
    + destruct (exec_longest_path g) as [g1|] eqn:E; cbn [bind] in H; [|discriminate].
      apply init_layer_slices_ea_length in H. apply exec_longest_path_ea_length in E. congruence.
    + destruct (exec_network_simplex p g) as [g1|] eqn:E; cbn [bind] in H; [|discriminate].
      apply init_layer_slices_ea_length in H. apply exec_network_simplex_ea_length in E. congruence.
Qed.
Print Assumptions phase2_ea_length.
