(* RenumberLen345.v — phases 3, 4, 5 never shrink the edge arena [g_ea]:
   phase 3 may append edges (break_edge), phases 4 and 5 keep its length. *)
From Autog Require Import Base Graph Phase2 Phase3 CrossCount Wmedian Phase4 Phase5.
From Autog.Proofs Require Import ListLemmas RenumberBase RenumberBreak RenumberWm1 RenumberSink.
Local Open Scope nat_scope.
Unset Implicit Arguments.

(* ---------- generic fold lemmas ---------- *)
Lemma fold_left_ea_eq : forall (X : Type) (F : graph -> X -> graph),
  (forall g x, g_ea (F g x) = g_ea g) -> forall l g, g_ea (fold_left F l g) = g_ea g.
Proof.
  intros X F HF. induction l as [|x t IH]; intros g; cbn [fold_left]; [reflexivity|].
  rewrite IH. apply HF.
Qed.

Lemma fold_left_ea_eq_fst : forall (X Y : Type) (F : graph * Y -> X -> graph * Y),
  (forall s x, g_ea (fst (F s x)) = g_ea (fst s)) -> forall l s, g_ea (fst (fold_left F l s)) = g_ea (fst s).
Proof.
  intros X Y F HF. induction l as [|x t IH]; intros s; cbn [fold_left]; [reflexivity|].
  rewrite IH. apply HF.
Qed.

Lemma fold_left_ea : forall (X : Type) (F : graph -> X -> graph),
  (forall g x, length (g_ea (F g x)) = length (g_ea g)) ->
  forall l g, length (g_ea (fold_left F l g)) = length (g_ea g).
Proof.
  intros X F HF. induction l as [|x t IH]; intros g; cbn [fold_left]; [reflexivity|].
  rewrite IH. apply HF.
Qed.

Lemma fold_left_res_err : forall (A X : Type) (F : res A -> X -> res A),
  (forall e x, F (Err e) x = Err e) -> forall l e, fold_left F l (Err e) = Err e.
Proof.
  intros A X F HF. induction l as [|x t IH]; intros e; cbn [fold_left]; [reflexivity|].
  rewrite HF. apply IH.
Qed.

(* folds with a [res] accumulator whose step is [do a <- acc; G a x] *)
Lemma fold_left_res_inv : forall (A X : Type) (G : A -> X -> res A) (P : A -> A -> Prop),
  (forall a, P a a) -> (forall a b c, P a b -> P b c -> P a c) ->
  (forall a x b, G a x = Ok b -> P a b) ->
  forall l a b, fold_left (fun (r : res A) x => do a <- r; G a x) l (Ok a) = Ok b -> P a b.
Proof.
  intros A X G P Hr Ht HG. induction l as [|x t IH]; intros a b K; cbn [fold_left] in K.
  - inversion K. subst. apply Hr.
  - cbn [bind] in K. destruct (G a x) as [a1|e] eqn:E.
    + apply Ht with a1; [eapply HG; eauto|apply IH; exact K].
    + rewrite fold_left_res_err in K by reflexivity. discriminate.
Qed.

(* ---------- phase 3: break_long_edges ---------- *)
Lemma break_long_loop_ea_le : forall fuel i g r,
  break_long_loop fuel i g = Ok r -> length (g_ea g) <= length (g_ea r).
Proof.
  induction fuel as [|fu IH]; intros i g r K; cbn [break_long_loop] in K; [discriminate|].
  destruct (nth_error (g_E g) i) as [e|].
  2:{ inversion K. subst. lia. }
  cbv zeta in K.
  destruct (1 <? layer_of g (e_to (gedge g e)) - layer_of g (e_from (gedge g e)))%Z.
  - apply IH in K. rewrite break_edge_ea_length in K. lia.
  - destruct (1 <? layer_of g (e_from (gedge g e)) - layer_of g (e_to (gedge g e)))%Z.
    + apply IH in K.
      rewrite !reverse_edge_ea_length, break_edge_ea_length, reverse_edge_ea_length in K. lia.
    + apply IH in K. exact K.
Qed.

Lemma break_long_edges_ea_le : forall g r, break_long_edges g = Ok r -> length (g_ea g) <= length (g_ea r).
Proof. intros g r K. unfold break_long_edges in K. eapply break_long_loop_ea_le; eauto. Qed.

(* ---------- phase 3: weighted median (everything keeps g_ea itself) ---------- *)
Lemma ip_loop_ea : forall top (F : nat -> ip_st -> res ip_st),
  (forall m st st', F m st = Ok st' -> g_ea (fst (fst st')) = g_ea (fst (fst st))) ->
  forall es st st', ip_loop F top es st = Ok st' -> g_ea (fst (fst st')) = g_ea (fst (fst st)).
Proof.
  intros top F HF. induction es as [|e t IH]; intros st st' K; cbn [ip_loop] in K.
  - inversion K. reflexivity.
  - destruct st as [[g1 v1] i1]. cbv zeta in K.
    destruct (F (if top then e_to (gedge g1 e) else e_from (gedge g1 e)) (g1, v1, i1)) as [s1|er] eqn:E;
      cbn [bind] in K; [|discriminate].
    apply IH in K. apply HF in E. congruence.
Qed.

Lemma init_pos_ea : forall top f n st st',
  init_pos top f n st = Ok st' -> g_ea (fst (fst st')) = g_ea (fst (fst st)).
Proof.
  intros top. induction f as [|f IH]; intros n st st' K; [discriminate|].
  destruct st as [[g vis] idx]. rewrite init_pos_S in K.
  destruct (mem_nat n vis).
  - inversion K. reflexivity.
  - cbv zeta in K. apply (ip_loop_ea top (init_pos top f) (IH)) in K. exact K.
Qed.

Lemma init_positions_ea : forall top g r, init_positions top g = Ok r -> g_ea r = g_ea g.
Proof.
  intros top g r K. unfold init_positions in K. cbv zeta in K.
  match type of K with (do st <- ?X; _) = _ => destruct X as [st|er] eqn:E end; cbn [bind] in K; [|discriminate].
  destruct st as [[g1 v1] i1]. inversion K. subst g1.
  apply (fold_left_res_inv _ _ (fun (st : ip_st) n => init_pos top (S (length (g_na g))) n st)
           (fun a b : ip_st => g_ea (fst (fst b)) = g_ea (fst (fst a)))) in E.
  - exact E.
  - reflexivity.
  - intros; congruence.
  - intros a x b Hb. eapply init_pos_ea; eauto.
Qed.

Lemma sort_layers_ea : forall g, g_ea (sort_layers g) = g_ea g.
Proof. reflexivity. Qed.

Lemma swap_pos_ea : forall g v w, g_ea (swap_pos g v w) = g_ea g.
Proof. reflexivity. Qed.

Lemma sl_pass_ea : forall fuel flip ms ep lp st, g_ea (fst (sl_pass fuel flip ms ep lp st)) = g_ea (fst st).
Proof.
  induction fuel as [|f IH]; intros flip ms ep lp st; cbn [sl_pass]; [reflexivity|].
  destruct st as [g nodes].
  destruct (negb (lp <? ep)); [reflexivity|]. cbv zeta.
  destruct (negb (skip_unset (length nodes) ms nodes lp ep <? ep)); [reflexivity|].
  destruct (negb (skip_unset (length nodes) ms nodes (S (skip_unset (length nodes) ms nodes lp ep)) ep <? ep));
    [reflexivity|].
  rewrite IH.
  match goal with |- context [if ?c then _ else _] => destruct c end; reflexivity.
Qed.

Lemma sl_iters_ea : forall iters flip ms ep st, g_ea (fst (sl_iters iters flip ms ep st)) = g_ea (fst st).
Proof.
  induction iters as [|k IH]; intros flip ms ep st; cbn [sl_iters]; [reflexivity|].
  cbv zeta. rewrite IH. apply sl_pass_ea.
Qed.

Lemma sort_layer_ea : forall flip ms g r, g_ea (sort_layer flip ms g r) = g_ea g.
Proof.
  intros. unfold sort_layer. cbv zeta.
  generalize (sl_iters_ea (length (l_nodes (glayer g r))) flip ms (length (l_nodes (glayer g r)))
                (g, l_nodes (glayer g r))).
  destruct (sl_iters _ _ _ _ _) as [g1 n1]. cbn [fst]. intros E. rewrite <- E. reflexivity.
Qed.

Lemma sweep_layer_ea : forall down flip acc r, g_ea (fst (sweep_layer down flip acc r)) = g_ea (fst acc).
Proof.
  intros down flip [g ms] r. unfold sweep_layer. cbv zeta. cbn [fst]. apply sort_layer_ea.
Qed.

Lemma wmedian_sweep_ea : forall down flip g, g_ea (wmedian_sweep down flip g) = g_ea g.
Proof.
  intros. unfold wmedian_sweep. cbv zeta.
  rewrite (fold_left_ea_eq_fst _ _ (sweep_layer down flip)); [reflexivity|].
  intros; apply sweep_layer_ea.
Qed.

Lemma transpose_layer_ea : forall acc l, g_ea (fst (transpose_layer acc l)) = g_ea (fst acc).
Proof.
  intros acc l. unfold transpose_layer.
  apply fold_left_ea_eq_fst. intros [g imp] i. cbv zeta.
  match goal with |- context [if ?c then _ else _] => destruct c end; reflexivity.
Qed.

Lemma transpose_ea : forall fuel g r, transpose fuel g = Ok r -> g_ea r = g_ea g.
Proof.
  induction fuel as [|f IH]; intros g r K; cbn [transpose] in K; [discriminate|].
  generalize (fold_left_ea_eq_fst _ _ transpose_layer transpose_layer_ea (iota 0 (length (g_L g))) (g, false)).
  destruct (fold_left transpose_layer (iota 0 (length (g_L g))) (g, false)) as [g1 imp]. cbn [fst]. intros E.
  destruct imp.
  - apply IH in K. congruence.
  - inversion K. subst. exact E.
Qed.

Lemma wm_iter_ea : forall k i flip g bestx bestp r,
  wm_iter k i flip g bestx bestp = Ok r -> g_ea (fst (fst r)) = g_ea g.
Proof.
  induction k as [|k IH]; intros i flip g bestx bestp r K; cbn [wm_iter] in K.
  - inversion K. reflexivity.
  - cbv zeta in K.
    match type of K with (do g <- ?X; _) = _ => destruct X as [g1|er] eqn:E end; cbn [bind] in K; [|discriminate].
    apply transpose_ea in E. rewrite wmedian_sweep_ea in E.
    destruct (if (reported_crossings g1 <? bestx)%Z then (reported_crossings g1, positions g1) else (bestx, bestp))
      as [bx bp].
    destruct (bx =? 0)%Z.
    + inversion K. exact E.
    + apply IH in K. congruence.
Qed.

Lemma wmedian_run_ea : forall maxiter top g r, wmedian_run maxiter top g = Ok r -> g_ea (fst (fst r)) = g_ea g.
Proof.
  intros maxiter top g r K. unfold wmedian_run in K.
  destruct (init_positions top g) as [g1|er] eqn:E; cbn [bind] in K; [|discriminate].
  apply init_positions_ea in E. cbv zeta in K.
  destruct (reported_crossings (sort_layers g1) =? 0)%Z.
  - inversion K. exact E.
  - apply wm_iter_ea in K. rewrite K. exact E.
Qed.

Lemma exec_wmedian_ea : forall maxiter g r, exec_wmedian maxiter g = Ok r -> g_ea (fst r) = g_ea g.
Proof.
  intros maxiter g r K. unfold exec_wmedian in K.
  destruct (existsb (is_flat g) (g_E g)); [discriminate|].
  destruct (wmedian_run maxiter true g) as [[[g1 xt] pt]|er] eqn:E1; cbn [bind] in K; [|discriminate].
  destruct (wmedian_run maxiter false g1) as [[[g2 xb] pb]|er] eqn:E2; cbn [bind] in K; [|discriminate].
  apply wmedian_run_ea in E1, E2. cbn [fst] in E1, E2.
  destruct (if (xt <? xb)%Z then (xt, pt) else (xb, pb)) as [bx bp]. cbv zeta in K.
  inversion K. cbn [fst]. rewrite sort_layers_ea.
  rewrite fold_left_ea_eq by reflexivity. congruence.
Qed.

Theorem phase3_wmedian_ea_le : forall maxiter g r,
  phase3_wmedian maxiter g = Ok r -> length (g_ea g) <= length (g_ea (fst r)).
Proof.
  intros maxiter g r K. unfold phase3_wmedian in K.
  destruct (length (g_N g) =? 1). { inversion K. cbn [fst]. lia. }
  destruct (length (g_L g) =? 1). { inversion K. cbn [fst]. lia. }
  destruct (break_long_edges g) as [g1|er] eqn:E1; cbn [bind] in K; [|discriminate].
  destruct (exec_wmedian maxiter g1) as [r1|er] eqn:E2; cbn [bind] in K; [|discriminate].
  inversion K. cbn [fst].
  apply break_long_edges_ea_le in E1. apply exec_wmedian_ea in E2. rewrite E2. exact E1.
Qed.
Print Assumptions phase3_wmedian_ea_le.

(* ---------- phase 4 (everything keeps g_ea itself) ---------- *)
Lemma fold_set_nodes_ea : forall (f : graph -> nat -> node -> node) ns g,
  g_ea (fold_left (fun g n => upd_node g n (f g n)) ns g) = g_ea g.
Proof. intros. apply fold_left_ea_eq. reflexivity. Qed.

Lemma assign_y_ea : forall spacing g, g_ea (assign_y spacing g) = g_ea g.
Proof.
  intros. unfold assign_y.
  match goal with |- g_ea (fst (fold_left ?F ?l ?s)) = _ => rewrite (fold_left_ea_eq_fst _ _ F) end; [reflexivity|].
  intros [g1 y] l. cbn [fst]. apply fold_left_ea_eq. reflexivity.
Qed.

Lemma place_from_ea : forall spacing ns g pos, g_ea (place_from g spacing ns pos) = g_ea g.
Proof.
  intros spacing. induction ns as [|n t IH]; intros g pos; cbn [place_from]; [reflexivity|].
  rewrite IH. reflexivity.
Qed.

Lemma exec_valign_ea : forall spacing g, g_ea (exec_valign spacing g) = g_ea g.
Proof.
  intros. unfold exec_valign. cbv zeta.
  rewrite fold_left_ea_eq; [reflexivity|]. intros. apply place_from_ea.
Qed.

Lemma pack_back_ea : forall spacing ns g x, g_ea (fst (pack_back g spacing ns x)) = g_ea g.
Proof.
  intros spacing. induction ns as [|n t IH]; intros g x; cbn [pack_back]; [reflexivity|].
  cbv zeta. rewrite IH. reflexivity.
Qed.

Lemma exec_pack_right_ea : forall spacing g, g_ea (exec_pack_right spacing g) = g_ea g.
Proof.
  intros. unfold exec_pack_right.
  match goal with |- context [fold_left ?F (g_L g) (g, 0%Q)] =>
    generalize (fold_left_ea_eq_fst _ _ F); intros HF;
    specialize (fun H => HF H (g_L g) (g, 0%Q));
    destruct (fold_left F (g_L g) (g, 0%Q)) as [g1 lb] end.
  cbn [fst] in HF. cbv zeta. cbn [g_ea with_L].
  rewrite fold_left_ea_eq.
  - apply HF. intros [g2 lb2] l. cbn [fst].
    generalize (pack_back_ea spacing (rev (l_nodes l)) g2 0%Q).
    destruct (pack_back g2 spacing (rev (l_nodes l)) 0%Q) as [g3 x]. cbn [fst]. auto.
  - intros. apply fold_left_ea_eq. reflexivity.
Qed.

Lemma rs_finish_ea : forall g xc, g_ea (rs_finish g xc) = g_ea g.
Proof.
  intros. unfold rs_finish. cbv zeta. cbn [g_ea with_L]. unfold rs_setx.
  apply fold_left_ea_eq. intros. apply fold_left_ea_eq. reflexivity.
Qed.

Lemma exec_sink_coloring_ea : forall spacing g r, exec_sink_coloring spacing g = Ok r -> g_ea r = g_ea g.
Proof.
  intros spacing g r K. rewrite exec_sink_coloring_eq in K.
  destruct (rs_paint g) as [[s bw]|er]; cbn [bind] in K; [|discriminate].
  cbv zeta in K.
  match type of K with (do xc <- ?X; _) = _ => destruct X as [xc|er] end; cbn [bind] in K; [|discriminate].
  inversion K. apply rs_finish_ea.
Qed.

Lemma exec_ns_positioner_ea : forall th factor spacing g r,
  exec_ns_positioner th factor spacing g = Ok r -> g_ea r = g_ea g.
Proof.
  intros th factor spacing g r K. unfold exec_ns_positioner in K. cbv zeta in K.
  match type of K with (do a <- ?X; _) = _ => destruct X as [a|er] end; cbn [bind] in K; [|discriminate].
  match type of K with match ?X with _ => _ end = _ => destruct X as [|n0 xs] end.
  - inversion K. reflexivity.
  - inversion K. rewrite fold_left_ea_eq by reflexivity. rewrite fold_left_ea_eq by reflexivity. reflexivity.
Qed.

Theorem phase4_ea : forall alg p g r, phase4 alg p g = Ok r -> g_ea r = g_ea g.
Proof.
  intros alg p g r K. unfold phase4 in K.
  destruct (length (g_N g) =? 1).
  { destruct (g_N g); inversion K; reflexivity. }
  match type of K with (do g <- ?X; _) = _ => destruct X as [g1|er] eqn:E end; cbn [bind] in K; [|discriminate].
  inversion K. rewrite assign_y_ea.
  destruct alg.
  - inversion E. apply exec_valign_ea.
  - inversion E. apply exec_pack_right_ea.
  - eapply exec_sink_coloring_ea; eauto.
  - eapply exec_ns_positioner_ea; eauto.
  - inversion E. reflexivity.
Qed.

Theorem phase4_ea_length : forall alg p g r, phase4 alg p g = Ok r -> length (g_ea r) = length (g_ea g).
Proof. intros alg p g r K. apply phase4_ea in K. rewrite K. reflexivity. Qed.
Print Assumptions phase4_ea_length.

(* ---------- phase 5 (upd_edge: lengths only) ---------- *)
Lemma reduce_forward_ea_length : forall fuel s e ns r,
  reduce_forward fuel s e ns = Ok r -> length (g_ea (m_g (fst r))) = length (g_ea (m_g s)).
Proof.
  induction fuel as [|fu IH]; intros s e ns r K; cbn [reduce_forward] in K; [discriminate|].
  cbv zeta in K.
  destruct (n_virt (gnode (m_g s) (e_to (gedge (m_g s) e)))).
  - destruct (n_out (gnode (m_g s) (e_to (gedge (m_g s) e)))) as [|f [|f2 t]]; try discriminate.
    destruct (arr_remove (m_arr s) (m_len s) f) as [arr len].
    apply IH in K. rewrite K. cbn [m_g g_ea with_E]. rewrite upd_edge_ea_length. reflexivity.
  - destruct (ordered_nodes (m_g s) e) as [u v].
    inversion K. cbn [fst m_g]. apply upd_edge_ea_length.
Qed.

Lemma merge_loop_ea_length : forall fuel i s routes r,
  merge_loop fuel i s routes = Ok r -> length (g_ea (m_g (fst r))) = length (g_ea (m_g s)).
Proof.
  induction fuel as [|fu IH]; intros i s routes r K; cbn [merge_loop] in K.
  { inversion K. reflexivity. }
  destruct (nth_error (m_arr s) i) as [e|].
  2:{ inversion K. reflexivity. }
  cbv zeta in K.
  destruct (edge_type (m_g s) e).
  - destruct (ordered_nodes (m_g s) e) as [u v].
    apply IH in K. rewrite K. cbn [m_g]. apply upd_edge_ea_length.
  - destruct (n_virt (gnode (m_g s) (e_from (gedge (m_g s) e)))).
    + apply IH in K. exact K.
    + match type of K with (do r <- ?X; _) = _ => destruct X as [r1|er] eqn:E end; cbn [bind] in K; [|discriminate].
      apply IH in K. apply reduce_forward_ea_length in E. congruence.
  - apply IH in K. exact K.
Qed.

Lemma merge_long_edges_ea_length : forall g r,
  merge_long_edges g = Ok r -> length (g_ea (fst r)) = length (g_ea g).
Proof.
  intros g r K. unfold merge_long_edges in K.
  match type of K with (do r <- ?X; _) = _ => destruct X as [r1|er] eqn:E end; cbn [bind] in K; [|discriminate].
  inversion K. cbn [fst]. apply merge_loop_ea_length in E. exact E.
Qed.

Theorem phase5_ea_length : forall alg ls g r, phase5 alg ls g = Ok r -> length (g_ea r) = length (g_ea g).
Proof.
  intros alg ls g r K. unfold phase5 in K.
  destruct (length (g_N g) =? 1). { inversion K. reflexivity. }
  destruct (merge_long_edges g) as [[g1 routes]|er] eqn:E; cbn [bind] in K; [|discriminate].
  apply merge_long_edges_ea_length in E. cbn [fst] in E. rewrite <- E.
  destruct alg.
  - inversion K. reflexivity.
  - inversion K. apply fold_left_ea. intros. apply upd_edge_ea_length.
  - apply (fold_left_res_inv _ _
             (fun g (r : nat * list nat) => do p <- route_polyline g (fst r) (snd r); Ok (upd_edge g (fst r) (set_pts p)))
             (fun a b : graph => length (g_ea b) = length (g_ea a))) in K.
    + exact K.
    + reflexivity.
    + intros; congruence.
    + intros a x b Hb. destruct (route_polyline a (fst x) (snd x)); cbn [bind] in Hb; [|discriminate].
      inversion Hb. apply upd_edge_ea_length.
  - inversion K. apply fold_left_ea. intros. apply upd_edge_ea_length.
  - inversion K. reflexivity.
Qed.
Print Assumptions phase5_ea_length.
