(* RenumberNS1.v — equivariance under renumbering: network simplex, first half
   (slack, init_layers, tight_tree, incident_non_tree_edge, feasible_loop). *)
From Autog Require Import Base Graph Populate Phase2.
From Autog.Proofs Require Import ListLemmas RenumberBase.
Local Open Scope nat_scope.

Section NS1.
  Variables sigma tau : nat -> nat.

  (* ---------- 1: slack ---------- *)
  Theorem slack_iso_ns1 : forall g g' e, iso sigma tau g g' -> e < length (g_ea g) ->
    slack g' (tau e) = slack g e.
  Proof.
    intros g g' e H L. unfold slack. cbv zeta.
    rewrite (iso_e_to H), (iso_e_from H), (iso_e_delta H) by auto.
    rewrite !(iso_layer_of H). reflexivity.
  Qed.

  (* ---------- 2: init_layers ---------- *)
  Definition il_st_ns1 := (graph * list Z * list nat)%type.

  Definition il_step_ns1 (n : nat) (acc : il_st_ns1) (e : nat) : il_st_ns1 :=
    let '(g, unseen, q) := acc in
    let m := e_to (gedge g e) in
    let g := upd_node g m (set_layer (Z.max (layer_of g m) (layer_of g n + e_delta (gedge g e)))) in
    let unseen := upd unseen m (fun z => (z - 1)%Z) in
    if (nth m unseen 0 =? 0)%Z then (g, unseen, q ++ [m]) else (g, unseen, q).

  Lemma init_layers_loop_S_ns1 : forall f g n rest unseen,
    init_layers_loop (S f) g (n :: rest) unseen =
    let '(g, unseen, rest) := fold_left (il_step_ns1 n) (n_out (gnode g n)) (g, unseen, rest) in
    init_layers_loop f g rest unseen.
  Proof. intros. reflexivity. Qed.

  Definition il_rel_ns1 (L : nat) (a b : il_st_ns1) : Prop :=
    iso sigma tau (fst (fst a)) (fst (fst b)) /\
    aux_rel sigma 0%Z (snd (fst a)) (snd (fst b)) /\
    snd b = map sigma (snd a) /\
    length (g_ea (fst (fst a))) = L.

  Lemma il_step_rel_ns1 : forall L n a b e, e < L -> il_rel_ns1 L a b ->
    il_rel_ns1 L (il_step_ns1 n a e) (il_step_ns1 (sigma n) b (tau e)).
  Proof.
    intros L n [[g un] q] [[g' un'] q'] e Le (H & A & Q & EL). cbn [fst snd] in *.
    subst L. subst q'. unfold il_step_ns1. cbv zeta.
    rewrite (iso_e_to H), (iso_e_delta H) by auto.
    rewrite !(iso_layer_of H).
    set (m := e_to (gedge g e)).
    set (z := Z.max (layer_of g m) (layer_of g n + e_delta (gedge g e))).
    assert (A2 : aux_rel sigma 0%Z (upd un m (fun z => (z - 1)%Z)) (upd un' (sigma m) (fun z => (z - 1)%Z))).
    { apply aux_rel_upd; auto. apply (iso_sinj H). }
    rewrite (aux_rel_nth _ A2).
    assert (H2 : iso sigma tau (upd_node g m (set_layer z)) (upd_node g' (sigma m) (set_layer z))).
    { apply iso_set_layer. exact H. }
    destruct (nth m (upd un m (fun z0 => (z0 - 1)%Z)) 0%Z =? 0)%Z; unfold il_rel_ns1; cbn [fst snd];
      (split; [exact H2|split; [exact A2|split; [|reflexivity]]]).
    - rewrite map_app. reflexivity.
    - reflexivity.
  Qed.

  Lemma init_layers_loop_iso : forall f f' g g' queue unseen unseen',
    iso sigma tau g g' -> aux_rel sigma 0%Z unseen unseen' ->
    res_rel (iso sigma tau) (init_layers_loop f g queue unseen)
                            (init_layers_loop f' g' (map sigma queue) unseen').
  Proof.
    induction f as [|f IH]; intros f' g g' queue unseen unseen' H A.
    - destruct queue as [|n rest]; cbn [map init_layers_loop].
      + destruct f'; apply rr_ok; exact H.
      + apply rr_fuel_l.
    - destruct queue as [|n rest].
      + cbn [map]. destruct f'; cbn [init_layers_loop]; apply rr_ok; exact H.
      + cbn [map]. destruct f' as [|f'].
        * cbn [init_layers_loop]. apply rr_fuel_r.
        * rewrite !init_layers_loop_S_ns1.
          assert (R : il_rel_ns1 (length (g_ea g))
                        (fold_left (il_step_ns1 n) (n_out (gnode g n)) (g, unseen, rest))
                        (fold_left (il_step_ns1 (sigma n)) (n_out (gnode g' (sigma n))) (g', unseen', map sigma rest))).
          { rewrite (iso_n_out H). apply fold_left_rel.
            - unfold il_rel_ns1; cbn [fst snd]. split; [exact H|split; [exact A|split; reflexivity]].
            - intros a b e He Rab. apply il_step_rel_ns1; auto. eapply (iso_out_lt H). exact He. }
          destruct (fold_left (il_step_ns1 n) (n_out (gnode g n)) (g, unseen, rest)) as [[g1 un1] q1].
          destruct (fold_left (il_step_ns1 (sigma n)) (n_out (gnode g' (sigma n))) (g', unseen', map sigma rest)) as [[g1' un1'] q1'].
          destruct R as (H1 & A1 & Q1 & _). cbn [fst snd] in *. subst q1'.
          apply IH; auto.
  Qed.

  Theorem init_layers_iso : forall g g', iso sigma tau g g' ->
    res_rel (iso sigma tau) (init_layers g) (init_layers g').
  Proof.
    intros g g' H. unfold init_layers. cbv zeta.
    assert (S : filter (fun n => Nat.eqb (indeg g' n) 0) (g_N g') =
                map sigma (filter (fun n => Nat.eqb (indeg g n) 0) (g_N g))).
    { rewrite (iso_N H). apply filter_map_comm. intros x _. rewrite (iso_indeg H). reflexivity. }
    rewrite S. apply init_layers_loop_iso; auto.
    rewrite (iso_N H). apply fold_left_rel.
    - apply (aux_rel_repeat H).
    - intros a b x _ R. rewrite (iso_indeg H). apply aux_rel_set_nth; auto. apply (iso_sinj H).
  Qed.
  (* ---------- 3: tight_tree ---------- *)
  Definition tt_loop_ns1 (rec : nat -> tt_st -> res tt_st) (n : nat) : list nat -> tt_st -> res tt_st :=
    fix loop (es : list nat) (st : tt_st) : res tt_st :=
      match es with
      | [] => Ok st
      | e :: t =>
          let '(g, ve, vn) := st in
          if mem_nat e ve then loop t st else
          let ve := e :: ve in
          let m := connected_node g e n in
          if e_tree (gedge g e) then do st' <- rec m (g, ve, vn); loop t st'
          else if negb (mem_nat m vn) && (slack g e =? 0)%Z then
                 do st' <- rec m (upd_edge g e (set_tree true), ve, vn); loop t st'
               else loop t (g, ve, vn)
      end.

  Lemma tight_tree_S_ns1 : forall f n g ve vn,
    tight_tree (S f) n (g, ve, vn) = tt_loop_ns1 (tight_tree f) n (all_edges g n) (g, ve, n :: vn).
  Proof. intros. reflexivity. Qed.

  Lemma tt_loop_cons_ns1 : forall rec n e t g ve vn,
    tt_loop_ns1 rec n (e :: t) (g, ve, vn) =
    if mem_nat e ve then tt_loop_ns1 rec n t (g, ve, vn) else
    if e_tree (gedge g e) then do st' <- rec (connected_node g e n) (g, e :: ve, vn); tt_loop_ns1 rec n t st'
    else if negb (mem_nat (connected_node g e n) vn) && (slack g e =? 0)%Z then
           do st' <- rec (connected_node g e n) (upd_edge g e (set_tree true), e :: ve, vn); tt_loop_ns1 rec n t st'
         else tt_loop_ns1 rec n t (g, e :: ve, vn).
  Proof. intros. reflexivity. Qed.

  Definition tt_rel (st st' : tt_st) : Prop :=
    iso sigma tau (fst (fst st)) (fst (fst st')) /\
    snd (fst st') = map tau (snd (fst st)) /\
    snd st' = map sigma (snd st).

  (* tt_rel plus: the edge arena of the left graph has length L *)
  Definition tt_relL (L : nat) (st st' : tt_st) : Prop :=
    tt_rel st st' /\ length (g_ea (fst (fst st))) = L.

  Lemma tt_loop_iso_ns1 : forall rec rec' n L,
    (forall m st st', tt_rel st st' ->
       res_rel (tt_relL (length (g_ea (fst (fst st))))) (rec m st) (rec' (sigma m) st')) ->
    forall es st st', tt_rel st st' -> length (g_ea (fst (fst st))) = L ->
      (forall e, In e es -> e < L) ->
      res_rel (tt_relL L) (tt_loop_ns1 rec n es st) (tt_loop_ns1 rec' (sigma n) (map tau es) st').
  Proof.
    intros rec rec' n L Hrec. induction es as [|e t IH]; intros st st' R EL Hr.
    - cbn [map tt_loop_ns1]. apply rr_ok. split; auto.
    - destruct st as [[g ve] vn]. destruct st' as [[g' ve'] vn'].
      destruct R as (H & Ev & En). cbn [fst snd] in *. subst ve' vn'.
      assert (Le : e < length (g_ea g)) by (rewrite EL; apply Hr; left; reflexivity).
      assert (Hr' : forall x, In x t -> x < L) by (intros x Hx; apply Hr; right; exact Hx).
      cbn [map]. rewrite !tt_loop_cons_ns1.
      rewrite (mem_nat_map (iso_tinj H)).
      destruct (mem_nat e ve) eqn:Em.
      { apply IH; auto. split; [exact H|split; reflexivity]. }
      rewrite (iso_e_tree H) by exact Le.
      rewrite (iso_connected_node H) by exact Le.
      set (m := connected_node g e n).
      destruct (e_tree (gedge g e)) eqn:Et.
      { apply res_rel_bind with (R := tt_relL L).
        - assert (R1 : tt_rel (g, e :: ve, vn) (g', tau e :: map tau ve, map sigma vn)).
          { split; [exact H|split; reflexivity]. }
          generalize (Hrec m _ _ R1). cbn [fst snd]. rewrite EL. auto.
        - intros x y [Rxy Lx]. apply IH; auto. }
      rewrite (mem_nat_map (iso_sinj H)).
      rewrite (slack_iso_ns1 _ _ _ H) by exact Le.
      destruct (negb (mem_nat m vn) && (slack g e =? 0)%Z) eqn:Ec.
      { apply res_rel_bind with (R := tt_relL L).
        - assert (R1 : tt_rel (upd_edge g e (set_tree true), e :: ve, vn)
                              (upd_edge g' (tau e) (set_tree true), tau e :: map tau ve, map sigma vn)).
          { split; [cbn [fst snd]; apply iso_set_tree; exact H|split; reflexivity]. }
          generalize (Hrec m _ _ R1). cbn [fst snd]. rewrite upd_edge_ea_length. rewrite EL. auto.
        - intros x y [Rxy Lx]. apply IH; auto. }
      apply IH; auto. split; [exact H|split; reflexivity].
  Qed.

  Theorem tight_tree_iso_L : forall f f' n st st', tt_rel st st' ->
    res_rel (tt_relL (length (g_ea (fst (fst st))))) (tight_tree f n st) (tight_tree f' (sigma n) st').
  Proof.
    induction f as [|f IH]; intros f' n st st' R.
    - cbn [tight_tree]. apply rr_fuel_l.
    - destruct f' as [|f'].
      + cbn [tight_tree]. apply rr_fuel_r.
      + destruct st as [[g ve] vn]. destruct st' as [[g' ve'] vn'].
        destruct R as (H & Ev & En). cbn [fst snd] in *. subst ve' vn'.
        rewrite !tight_tree_S_ns1. rewrite (iso_all_edges H).
        apply tt_loop_iso_ns1.
        * intros m st st' R. apply IH. exact R.
        * split; [exact H|split; reflexivity].
        * reflexivity.
        * intros e He. eapply (iso_all_lt H). exact He.
  Qed.

  Theorem tight_tree_iso : forall f f' n st st', tt_rel st st' ->
    res_rel tt_rel (tight_tree f n st) (tight_tree f' (sigma n) st').
  Proof.
    intros f f' n st st' R.
    apply res_rel_impl with (R := tt_relL (length (g_ea (fst (fst st))))).
    - intros x y [K _]. exact K.
    - apply tight_tree_iso_L. exact R.
  Qed.

  (* ---------- 4: incident_non_tree_edge ---------- *)
  Definition inte_rel_ns1 (a b : option Z * option nat) : Prop :=
    fst b = fst a /\ snd b = option_map tau (snd a).

  Theorem incident_non_tree_edge_iso : forall g g' tree, iso sigma tau g g' ->
    incident_non_tree_edge g' (map sigma tree) = option_map tau (incident_non_tree_edge g tree).
  Proof.
    intros g g' tree H. unfold incident_non_tree_edge.
    match goal with
    | |- (let '(_, c1) := ?A in c1) = option_map tau (let '(_, c2) := ?B in c2) =>
        assert (R : inte_rel_ns1 B A); [|destruct B as [b1 b2]; destruct A as [a1 a2]; destruct R as [_ R]; exact R]
    end.
    rewrite (iso_N H). apply fold_left_rel.
    - split; reflexivity.
    - intros a b n _ Rab. rewrite (mem_nat_map (iso_sinj H)).
      destruct (negb (mem_nat n tree)); [exact Rab|].
      rewrite (iso_all_edges H). apply fold_left_rel; [exact Rab|].
      intros a1 b1 e He R1.
      assert (Le : e < length (g_ea g)) by (eapply (iso_all_lt H); exact He).
      rewrite (iso_self_loop H) by exact Le.
      destruct (self_loop g e); [exact R1|].
      rewrite (iso_e_tree H) by exact Le.
      rewrite (iso_connected_node H) by exact Le.
      rewrite (mem_nat_map (iso_sinj H)).
      destruct (e_tree (gedge g e) || mem_nat (connected_node g e n) tree); [exact R1|].
      cbv zeta. rewrite (slack_iso_ns1 _ _ _ H) by exact Le.
      destruct a1 as [fa sa]. destruct b1 as [fb sb]. destruct R1 as [F1 S1]. cbn [fst snd] in *. subst fb sb.
      destruct fa as [ms|].
      + destruct (slack g e <? ms)%Z; split; reflexivity.
      + split; reflexivity.
  Qed.

  Corollary incident_non_tree_edge_iso' : forall g g' tree tree', iso sigma tau g g' -> tree' = map sigma tree ->
    incident_non_tree_edge g' tree' = option_map tau (incident_non_tree_edge g tree).
  Proof. intros g g' tree tree' H E. subst tree'. apply incident_non_tree_edge_iso. exact H. Qed.

  (* the edge found is in range *)
  Lemma fold_left_inv_ns1 : forall (A X : Type) (P : A -> Prop) (F : A -> X -> A) l a,
    P a -> (forall a x, In x l -> P a -> P (F a x)) -> P (fold_left F l a).
  Proof.
    induction l as [|x t IH]; cbn; intros a Pa K; [exact Pa|].
    apply IH; [apply K; auto|intros; apply K; auto].
  Qed.

  Lemma incident_non_tree_edge_lt_ns1 : forall g tree e, refs_ok g ->
    incident_non_tree_edge g tree = Some e -> e < length (g_ea g).
  Proof.
    intros g tree e RO. unfold incident_non_tree_edge.
    match goal with
    | |- (let '(_, cand) := ?B in cand) = _ -> _ =>
        assert (P : forall x, snd B = Some x -> x < length (g_ea g));
          [|destruct B as [b1 b2]; intros E; apply P; exact E]
    end.
    apply fold_left_inv_ns1 with (P := fun acc : option Z * option nat =>
                                         forall x, snd acc = Some x -> x < length (g_ea g)).
    - cbn. intros x E. discriminate.
    - intros a n _ Pa. destruct (negb (mem_nat n tree)); [exact Pa|].
      apply fold_left_inv_ns1 with (P := fun acc : option Z * option nat =>
                                         forall x, snd acc = Some x -> x < length (g_ea g)); [exact Pa|].
      intros a1 x Hx Pa1.
      assert (Lx : x < length (g_ea g)).
      { unfold all_edges in Hx. apply in_app_or in Hx. destruct Hx as [Hx|Hx];
          [eapply (ro_in RO)|eapply (ro_out RO)]; exact Hx. }
      destruct (self_loop g x); [exact Pa1|].
      destruct (e_tree (gedge g x) || mem_nat (connected_node g x n) tree); [exact Pa1|].
      cbv zeta. destruct (fst a1) as [ms|].
      + destruct (slack g x <? ms)%Z; [|exact Pa1]. cbn. intros y E. inversion E. subst y. exact Lx.
      + cbn. intros y E. inversion E. subst y. exact Lx.
  Qed.

  (* ---------- 5: feasible_loop ---------- *)
  Lemma feasible_loop_S_ns1 : forall f g,
    feasible_loop (S f) g =
    match g_N g with
    | [] => Err (ErrIndex 25)
    | root :: _ =>
        let g := fold_left (fun g e => upd_edge g e (set_tree false)) (g_E g) g in
        do st <- tight_tree (S (length (g_na g))) root (g, [], []);
        let '(g, _, tree) := st in
        if Nat.eqb (length tree) (length (g_N g)) then Ok g else
        match incident_non_tree_edge g tree with
        | None => Err ErrNoIncidentEdge
        | Some e =>
            let d := slack g e in
            let d := if mem_nat (e_to (gedge g e)) tree then (- d)%Z else d in
            feasible_loop f (fold_left (fun g n => upd_node g n (fun nd => set_layer (n_layer nd + d)%Z nd)) tree g)
        end
    end.
  Proof. intros. reflexivity. Qed.

  Theorem feasible_loop_iso : forall f f' g g', iso sigma tau g g' ->
    res_rel (iso sigma tau) (feasible_loop f g) (feasible_loop f' g').
  Proof.
    induction f as [|f IH]; intros f' g g' H.
    - cbn [feasible_loop]. apply rr_fuel_l.
    - destruct f' as [|f'].
      + cbn [feasible_loop]. apply rr_fuel_r.
      + rewrite !feasible_loop_S_ns1. rewrite (iso_N H), (iso_E H).
        destruct (g_N g) as [|root rs] eqn:EN; cbn [map].
        * apply rr_err.
        * cbv zeta.
          set (g1 := fold_left (fun g e => upd_edge g e (set_tree false)) (g_E g) g).
          set (g1' := fold_left (fun g e => upd_edge g e (set_tree false)) (map tau (g_E g)) g').
          assert (H1 : iso sigma tau g1 g1').
          { subst g1 g1'. apply fold_left_rel; [exact H|].
            intros a b x _ Rab. apply iso_set_tree. exact Rab. }
          clearbody g1 g1'.
          apply res_rel_bind with (R := tt_rel).
          { apply tight_tree_iso. split; [exact H1|split; reflexivity]. }
          intros [[g2 ve2] tree] [[g2' ve2'] tree'] (H2 & Ev & Et). cbn [fst snd] in *. subst ve2' tree'.
          rewrite map_length. rewrite (iso_N_length H2).
          destruct (Nat.eqb (length tree) (length (g_N g2))); [apply rr_ok; exact H2|].
          rewrite (incident_non_tree_edge_iso _ _ tree H2).
          destruct (incident_non_tree_edge g2 tree) as [e|] eqn:EI; cbn [option_map]; [|apply rr_err].
          assert (Le : e < length (g_ea g2)).
          { eapply incident_non_tree_edge_lt_ns1; [apply (iso_refs H2)|exact EI]. }
          rewrite (slack_iso_ns1 _ _ _ H2) by exact Le.
          rewrite (iso_e_to H2) by exact Le.
          rewrite (mem_nat_map (iso_sinj H2)).
          set (d := if mem_nat (e_to (gedge g2 e)) tree then (- slack g2 e)%Z else slack g2 e).
          apply IH. apply fold_left_rel; [exact H2|].
          intros a b x _ Rab.
          apply (iso_move_layer x (fun z => (z + d)%Z) Rab).
  Qed.
End NS1.

Print Assumptions slack_iso_ns1.
Print Assumptions init_layers_iso.
Print Assumptions tight_tree_iso.
Print Assumptions incident_non_tree_edge_iso.
Print Assumptions feasible_loop_iso.
