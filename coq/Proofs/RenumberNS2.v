(* RenumberNS2.v — equivariance under renumbering: network simplex, second half
   (slack, set_stree_values, in_head_component, set_cut_values, neg_cut_tree_edge, min_slack_non_tree_edge,
    exchange, pivot_loop, adjust_layers, hbalance). *)
From Autog Require Import Base Graph Populate Phase2.
From Autog.Proofs Require Import ListLemmas RenumberBase.
Local Open Scope nat_scope.

Definition ll_rel (sigma : nat -> nat) (ll ll' : limlow) : Prop :=
  aux_rel sigma 0%Z (lims ll) (lims ll') /\ aux_rel sigma 0%Z (lows ll) (lows ll').

Lemma lim_of_rel_ns2 : forall sigma ll ll', ll_rel sigma ll ll' -> forall n, lim_of ll' (sigma n) = lim_of ll n.
Proof. intros sigma ll ll' [A _] n. unfold lim_of. apply (aux_rel_nth n A). Qed.

Lemma low_of_rel_ns2 : forall sigma ll ll', ll_rel sigma ll ll' -> forall n, low_of ll' (sigma n) = low_of ll n.
Proof. intros sigma ll ll' [_ A] n. unfold low_of. apply (aux_rel_nth n A). Qed.

(* ll_rel is satisfiable for a non-trivial renaming: the primed tables live in a larger arena with a junk slot 0 *)
Example ll_rel_example_ns2 :
  ll_rel S (mkLL [3; 1; 2]%Z [1; 1; 2]%Z) (mkLL [7; 3; 1; 2]%Z [9; 1; 1; 2]%Z).
Proof.
  split; (split; [intros n; cbn [lims lows length]; lia|intros n; reflexivity]).
Qed.

(* generic: a fold whose value mentions no index *)
Lemma fold_left_eq_ns2 : forall (A X Y : Type) (h : X -> Y) (F : A -> X -> A) (F' : A -> Y -> A) l a,
  (forall a x, In x l -> F' a (h x) = F a x) ->
  fold_left F' (map h l) a = fold_left F l a.
Proof.
  intros A X Y h F F' l a K. symmetry.
  apply fold_left_rel with (R := @eq A); auto.
  intros a0 b0 x Hx E. subst b0. symmetry. apply K. exact Hx.
Qed.

(* ------------------------------------------------------------------------------------------------ *)
(* the nested loop of walk_stree as a top-level function                                            *)
(* ------------------------------------------------------------------------------------------------ *)
Definition ws_loop_ns2 (rec : nat -> Z -> ws_st -> res (Z * ws_st)) (g : graph) (n : nat) :
  list nat -> Z -> ws_st -> res (Z * ws_st) :=
  fix loop (es : list nat) (lim : Z) (st : ws_st) : res (Z * ws_st) :=
    match es with
    | [] => Ok (lim, st)
    | e :: t =>
        let '(lims, lows, vis) := st in
        if e_tree (gedge g e) && negb (mem_nat e vis) then
          do r <- rec (connected_node g e n) lim (lims, lows, e :: vis);
          loop t (fst r) (snd r)
        else loop t lim st
    end.

Lemma walk_stree_S_ns2 : forall f g n low lims lows vis,
  walk_stree (S f) g n low (lims, lows, vis) =
  do r <- ws_loop_ns2 (walk_stree f g) g n (all_edges g n) low (lims, set_nth lows n low, vis);
  let '(lim, (lims, lows, vis)) := r in Ok (lim + 1, (set_nth lims n lim, lows, vis))%Z.
Proof. reflexivity. Qed.

Lemma walk_stree_0_ns2 : forall g n low st, walk_stree 0 g n low st = Err (ErrFuel 24).
Proof. reflexivity. Qed.

Lemma ws_loop_nil_ns2 : forall rec g n lim st, ws_loop_ns2 rec g n [] lim st = Ok (lim, st).
Proof. reflexivity. Qed.

Lemma ws_loop_cons_ns2 : forall rec g n e t lim lims lows vis,
  ws_loop_ns2 rec g n (e :: t) lim (lims, lows, vis) =
  if e_tree (gedge g e) && negb (mem_nat e vis) then
    do r <- rec (connected_node g e n) lim (lims, lows, e :: vis);
    ws_loop_ns2 rec g n t (fst r) (snd r)
  else ws_loop_ns2 rec g n t lim (lims, lows, vis).
Proof. reflexivity. Qed.

(* the nested loops of adjust_layers *)
Definition al_loop_ns2 (rec : nat -> graph -> res graph) (ll : limlow) (n : nat) (pick : edge -> nat) :
  list nat -> graph -> res graph :=
  fix loop (es : list nat) (g : graph) : res graph :=
    match es with
    | [] => Ok g
    | e :: t =>
        if negb (e_tree (gedge g e)) then loop t g else
        if negb (lim_of ll n <? lim_of ll (connected_node g e n))%Z
        then do g' <- rec (pick (gedge g e)) g; loop t g'
        else loop t g
    end.

Lemma adjust_layers_S_ns2 : forall f ll n delta g,
  adjust_layers (S f) ll n delta g =
  let g0 := upd_node g n (fun nd => set_layer (n_layer nd - delta) nd) in
  do g1 <- al_loop_ns2 (fun m g => adjust_layers f ll m delta g) ll n e_to (n_out (gnode g0 n)) g0;
  al_loop_ns2 (fun m g => adjust_layers f ll m delta g) ll n e_from (n_in (gnode g1 n)) g1.
Proof. reflexivity. Qed.

Lemma adjust_layers_0_ns2 : forall ll n delta g, adjust_layers 0 ll n delta g = Err (ErrFuel 27).
Proof. reflexivity. Qed.

Lemma al_loop_cons_ns2 : forall rec ll n pick e t g,
  al_loop_ns2 rec ll n pick (e :: t) g =
  if negb (e_tree (gedge g e)) then al_loop_ns2 rec ll n pick t g else
  if negb (lim_of ll n <? lim_of ll (connected_node g e n))%Z
  then do g' <- rec (pick (gedge g e)) g; al_loop_ns2 rec ll n pick t g'
  else al_loop_ns2 rec ll n pick t g.
Proof. reflexivity. Qed.

Section NS2.
  Variables sigma tau : nat -> nat.

  (* ---------- 1. slack ---------- *)
  Theorem slack_iso_ns2 : forall g g' e, iso sigma tau g g' -> e < length (g_ea g) ->
    slack g' (tau e) = slack g e.
  Proof.
    intros g g' e H L. unfold slack. cbv zeta.
    rewrite (iso_e_to H L), (iso_e_from H L), (iso_e_delta H L), !(iso_layer_of H). reflexivity.
  Qed.

  (* ---------- 2. walk_stree / set_stree_values ---------- *)
  Definition ws_rel (st st' : ws_st) : Prop :=
    aux_rel sigma 0%Z (fst (fst st)) (fst (fst st')) /\
    aux_rel sigma 0%Z (snd (fst st)) (snd (fst st')) /\
    snd st' = map tau (snd st).

  Definition wsr_rel (r r' : Z * ws_st) : Prop := fst r' = fst r /\ ws_rel (snd r) (snd r').

  Lemma ws_loop_rel_ns2 : forall g g' n rec rec', iso sigma tau g g' ->
    (forall m lim st st', ws_rel st st' -> res_rel wsr_rel (rec m lim st) (rec' (sigma m) lim st')) ->
    forall es, (forall e, In e es -> e < length (g_ea g)) ->
    forall lim st st', ws_rel st st' ->
    res_rel wsr_rel (ws_loop_ns2 rec g n es lim st) (ws_loop_ns2 rec' g' (sigma n) (map tau es) lim st').
  Proof.
    intros g g' n rec rec' H Hrec. induction es as [|e t IH]; intros R lim st st' S.
    - cbn [map]. rewrite !ws_loop_nil_ns2. apply rr_ok. split; auto.
    - destruct st as [[lims lows] vis]. destruct st' as [[lims' lows'] vis'].
      destruct S as [S1 [S2 S3]]. cbn [fst snd] in S1, S2, S3. subst vis'.
      cbn [map]. rewrite !ws_loop_cons_ns2.
      assert (L : e < length (g_ea g)) by (apply R; left; auto).
      rewrite (iso_e_tree H L), (mem_nat_map (iso_tinj H)), (iso_connected_node H n L).
      destruct (e_tree (gedge g e) && negb (mem_nat e vis)).
      + eapply res_rel_bind.
        * apply Hrec. split; [|split]; cbn [fst snd]; auto.
        * intros r r' [E1 E2]. rewrite E1. apply IH; auto. intros x Hx. apply R. right; auto.
      + apply IH; [intros x Hx; apply R; right; auto|]. split; [|split]; auto.
  Qed.

  Theorem walk_stree_rel : forall g g', iso sigma tau g g' ->
    forall f f' n low st st', ws_rel st st' ->
    res_rel wsr_rel (walk_stree f g n low st) (walk_stree f' g' (sigma n) low st').
  Proof.
    intros g g' H. induction f as [|f IH]; intros f' n low st st' S.
    - rewrite walk_stree_0_ns2. apply rr_fuel_l.
    - destruct f' as [|f']; [rewrite (walk_stree_0_ns2 g'); apply rr_fuel_r|].
      destruct st as [[lims lows] vis]. destruct st' as [[lims' lows'] vis'].
      destruct S as [S1 [S2 S3]]. cbn [fst snd] in S1, S2, S3.
      rewrite !walk_stree_S_ns2. rewrite (iso_all_edges H).
      eapply res_rel_bind.
      + apply ws_loop_rel_ns2.
        * exact H.
        * intros m lim st st' S. apply IH. exact S.
        * intros e He. apply (iso_all_lt H n e He).
        * split; [|split]; cbn [fst snd]; auto.
          apply aux_rel_set_nth; auto. apply (iso_sinj H).
      + intros [lim [[l1 l2] v]] [lim' [[l1' l2'] v']] [E1 [T1 [T2 T3]]].
        cbn [fst snd] in E1, T1, T2, T3. subst lim'. apply rr_ok.
        split; cbn [fst snd]; auto. split; [|split]; cbn [fst snd]; auto.
        apply aux_rel_set_nth; auto. apply (iso_sinj H).
  Qed.

  Theorem set_stree_values_iso : forall g g', iso sigma tau g g' ->
    res_rel (ll_rel sigma) (set_stree_values g) (set_stree_values g').
  Proof.
    intros g g' H. unfold set_stree_values. rewrite (iso_N H).
    destruct (g_N g) as [|root rest]; cbn [map]; [apply rr_err|].
    eapply res_rel_bind.
    - apply walk_stree_rel; auto.
      split; [|split]; cbn [fst snd]; auto; apply (aux_rel_repeat H).
    - intros [lim [[l1 l2] v]] [lim' [[l1' l2'] v']] [E1 [T1 [T2 T3]]].
      cbn [fst snd] in E1, T1, T2, T3. apply rr_ok. split; cbn [lims lows]; auto.
  Qed.

  (* ---------- 3. in_head_component ---------- *)
  Theorem in_head_component_iso : forall g g' ll ll' n e, iso sigma tau g g' -> ll_rel sigma ll ll' ->
    e < length (g_ea g) ->
    in_head_component g' ll' (sigma n) (tau e) = in_head_component g ll n e.
  Proof.
    intros g g' ll ll' n e H LL L. unfold in_head_component. cbv zeta.
    rewrite (iso_e_to H L), (iso_e_from H L).
    rewrite !(lim_of_rel_ns2 _ _ _ LL), !(low_of_rel_ns2 _ _ _ LL). reflexivity.
  Qed.
End NS2.


(* ------------------------------------------------------------------------------------------------ *)
(* top-level copies of the fold steps                                                               *)
(* ------------------------------------------------------------------------------------------------ *)
Definition cut_val_ns2 (ll : limlow) (g : graph) (e : nat) : Z :=
  fold_left (fun cv f =>
               if e_tree (gedge g f) then cv else
               let hf := in_head_component g ll (e_from (gedge g f)) e in
               let ht := in_head_component g ll (e_to (gedge g f)) e in
               if negb hf && ht then cv + e_weight (gedge g f)
               else if hf && negb ht then cv - e_weight (gedge g f) else cv)%Z
            (g_E g) (e_weight (gedge g e)).

Definition cut_step_ns2 (ll : limlow) (g : graph) (e : nat) : graph :=
  if negb (e_tree (gedge g e)) then g else upd_edge g e (set_cut (cut_val_ns2 ll g e)).

Lemma set_cut_values_eq_ns2 : forall g ll, set_cut_values g ll = fold_left (cut_step_ns2 ll) (g_E g) g.
Proof. reflexivity. Qed.

Definition ms_step_ns2 (g : graph) (ll : limlow) (e : nat) (acc : option Z * option nat) (f : nat) :
  option Z * option nat :=
  if Nat.eqb f e || e_tree (gedge g f) then acc else
  if in_head_component g ll (e_from (gedge g f)) e && negb (in_head_component g ll (e_to (gedge g f)) e) then
    let s := slack g f in
    match fst acc with
    | Some ms => if (s <? ms)%Z then (Some s, Some f) else acc
    | None => (Some s, Some f)
    end
  else acc.

Lemma min_slack_eq_ns2 : forall g ll e,
  min_slack_non_tree_edge g ll e = snd (fold_left (ms_step_ns2 g ll e) (g_E g) (None, None)).
Proof. reflexivity. Qed.

Lemma ms_fold_mem_ns2 : forall g ll e l acc f,
  snd (fold_left (ms_step_ns2 g ll e) l acc) = Some f -> In f l \/ snd acc = Some f.
Proof.
  intros g ll e. induction l as [|x t IH]; intros acc f K; cbn [fold_left] in K; [right; exact K|].
  apply IH in K. destruct K as [K|K]; [left; right; exact K|].
  unfold ms_step_ns2 in K.
  destruct (Nat.eqb x e || e_tree (gedge g x)); [right; exact K|].
  destruct (in_head_component g ll (e_from (gedge g x)) e && negb (in_head_component g ll (e_to (gedge g x)) e));
    [|right; exact K].
  cbv zeta in K. destruct (fst acc) as [ms|].
  - destruct (slack g x <? ms)%Z; [|right; exact K]. cbn [snd] in K. inversion K. left; left; reflexivity.
  - cbn [snd] in K. inversion K. left; left; reflexivity.
Qed.

Lemma min_slack_mem_ns2 : forall g ll e f, min_slack_non_tree_edge g ll e = Some f -> In f (g_E g).
Proof.
  intros g ll e f K. rewrite min_slack_eq_ns2 in K. apply ms_fold_mem_ns2 in K.
  destruct K as [K|K]; [exact K|discriminate K].
Qed.

Lemma neg_cut_mem_ns2 : forall g e, neg_cut_tree_edge g = Some e -> In e (g_E g).
Proof. intros g e K. unfold neg_cut_tree_edge in K. apply find_some in K. apply K. Qed.

Lemma pivot_loop_eq_ns2 : forall fuel i maxitr g ll,
  pivot_loop fuel i maxitr g ll =
  match neg_cut_tree_edge g with
  | None => Ok (g, ll, false)
  | Some e =>
      if (maxitr <=? i)%Z then Ok (g, ll, true) else
      match min_slack_non_tree_edge g ll e with
      | None => Ok (g, ll, false)
      | Some f =>
          match fuel with
          | O => Err (ErrFuel 26)
          | S fu => do r <- exchange g ll e f; pivot_loop fu (i + 1)%Z maxitr (fst r) (snd r)
          end
      end
  end.
Proof. intros. destruct fuel; reflexivity. Qed.

Section NS2b.
  Variables sigma tau : nat -> nat.

  (* ---------- 4. set_cut_values ---------- *)
  Lemma cut_val_iso_ns2 : forall g g' ll ll' e, iso sigma tau g g' -> ll_rel sigma ll ll' ->
    e < length (g_ea g) -> cut_val_ns2 ll' g' (tau e) = cut_val_ns2 ll g e.
  Proof.
    intros g g' ll ll' e H LL L. unfold cut_val_ns2.
    rewrite (iso_E H), (iso_e_weight H L). apply fold_left_eq_ns2.
    intros cv f Hf. assert (Lf := iso_E_lt H f Hf).
    assert (IHC : forall n, in_head_component g' ll' (sigma n) (tau e) = in_head_component g ll n e)
      by (intros; apply in_head_component_iso; auto).
    rewrite (iso_e_tree H Lf), (iso_e_from H Lf), (iso_e_to H Lf), (iso_e_weight H Lf), !IHC.
    reflexivity.
  Qed.

  Lemma cut_step_iso_ns2 : forall ll ll' g g' e, ll_rel sigma ll ll' -> iso sigma tau g g' ->
    e < length (g_ea g) ->
    iso sigma tau (cut_step_ns2 ll g e) (cut_step_ns2 ll' g' (tau e)) /\
    length (g_ea (cut_step_ns2 ll g e)) = length (g_ea g).
  Proof.
    intros ll ll' g g' e LL H L. unfold cut_step_ns2.
    rewrite (iso_e_tree H L), (cut_val_iso_ns2 g g' ll ll' e H LL L).
    destruct (negb (e_tree (gedge g e))).
    - split; auto.
    - split; [apply iso_set_cut; auto|apply upd_edge_ea_length].
  Qed.

  Theorem set_cut_values_iso : forall g g' ll ll', iso sigma tau g g' -> ll_rel sigma ll ll' ->
    iso sigma tau (set_cut_values g ll) (set_cut_values g' ll').
  Proof.
    intros g g' ll ll' H LL. rewrite !set_cut_values_eq_ns2. rewrite (iso_E H).
    apply fold_edges_iso; auto.
    - apply (iso_E_lt H).
    - intros. apply cut_step_iso_ns2; auto.
  Qed.

  (* ---------- 5. neg_cut_tree_edge / min_slack_non_tree_edge ---------- *)
  Theorem neg_cut_tree_edge_iso : forall g g', iso sigma tau g g' ->
    neg_cut_tree_edge g' = option_map tau (neg_cut_tree_edge g).
  Proof.
    intros g g' H. unfold neg_cut_tree_edge. rewrite (iso_E H). apply find_map_comm.
    intros x Hx. assert (L := iso_E_lt H x Hx). rewrite (iso_e_tree H L), (iso_e_cut H L). reflexivity.
  Qed.

  Theorem min_slack_non_tree_edge_iso : forall g g' ll ll' e, iso sigma tau g g' -> ll_rel sigma ll ll' ->
    e < length (g_ea g) ->
    min_slack_non_tree_edge g' ll' (tau e) = option_map tau (min_slack_non_tree_edge g ll e).
  Proof.
    intros g g' ll ll' e H LL L. rewrite !min_slack_eq_ns2. rewrite (iso_E H).
    assert (K : (fun (acc : option Z * option nat) (acc' : option Z * option nat) =>
                   acc' = (fst acc, option_map tau (snd acc)))
                (fold_left (ms_step_ns2 g ll e) (g_E g) (None, None))
                (fold_left (ms_step_ns2 g' ll' (tau e)) (map tau (g_E g)) (None, None))).
    { apply fold_left_rel; [reflexivity|].
      intros acc acc' f Hf E. subst acc'. assert (Lf := iso_E_lt H f Hf).
      assert (IHC : forall n, in_head_component g' ll' (sigma n) (tau e) = in_head_component g ll n e)
        by (intros; apply in_head_component_iso; auto).
      unfold ms_step_ns2. cbv zeta. cbn [fst].
      rewrite (eqb_inj (iso_tinj H)), (iso_e_tree H Lf), (iso_e_from H Lf), (iso_e_to H Lf), !IHC,
        (slack_iso_ns2 sigma tau g g' f H Lf).
      destruct (Nat.eqb f e || e_tree (gedge g f)); [reflexivity|].
      destruct (in_head_component g ll (e_from (gedge g f)) e && negb (in_head_component g ll (e_to (gedge g f)) e));
        [|reflexivity].
      destruct acc as [[ms|] c]; cbn [fst snd].
      - destruct (slack g f <? ms)%Z; reflexivity.
      - reflexivity. }
    cbv beta in K. rewrite K. reflexivity.
  Qed.

  (* ---------- 6. exchange ---------- *)
  Theorem exchange_iso : forall g g' ll ll' e f, iso sigma tau g g' -> ll_rel sigma ll ll' ->
    e < length (g_ea g) -> f < length (g_ea g) ->
    res_rel (fun r r' => iso sigma tau (fst r) (fst r') /\ ll_rel sigma (snd r) (snd r'))
            (exchange g ll e f) (exchange g' ll' (tau e) (tau f)).
  Proof.
    intros g g' ll ll' e f H LL Le Lf. unfold exchange. cbv zeta.
    rewrite (slack_iso_ns2 sigma tau g g' f H Lf).
    set (d := slack g f).
    assert (H1 : iso sigma tau
       (if (0 <? d)%Z then
          fold_left (fun g0 n => if negb (in_head_component g ll n e)
                                 then upd_node g0 n (fun nd => set_layer (n_layer nd - d) nd) else g0) (g_N g) g
        else g)
       (if (0 <? d)%Z then
          fold_left (fun g0 n => if negb (in_head_component g' ll' n (tau e))
                                 then upd_node g0 n (fun nd => set_layer (n_layer nd - d) nd) else g0) (g_N g') g'
        else g')).
    { destruct (0 <? d)%Z; [|exact H]. rewrite (iso_N H).
      apply fold_left_rel with (R := iso sigma tau); [exact H|].
      intros a a' n Hn Ha. rewrite (in_head_component_iso sigma tau g g' ll ll' n e H LL Le).
      destruct (negb (in_head_component g ll n e)); [|exact Ha].
      apply (iso_move_layer n (fun z => z - d)%Z Ha). }
    set (g1 := if (0 <? d)%Z then _ else g) in *. set (g1' := if (0 <? d)%Z then _ else g') in *.
    assert (H2 : iso sigma tau (upd_edge (upd_edge g1 e (set_tree false)) f (set_tree true))
                               (upd_edge (upd_edge g1' (tau e) (set_tree false)) (tau f) (set_tree true))).
    { apply iso_set_tree. apply iso_set_tree. exact H1. }
    eapply res_rel_bind.
    - apply (set_stree_values_iso sigma tau _ _ H2).
    - intros l l' LL'. apply rr_ok. cbn [fst snd]. split; [|exact LL'].
      apply set_cut_values_iso; auto.
  Qed.

  (* ---------- 7. pivot_loop ---------- *)
  Theorem pivot_loop_iso : forall fuel i maxitr g g' ll ll', iso sigma tau g g' -> ll_rel sigma ll ll' ->
    res_rel (fun r r' => iso sigma tau (fst (fst r)) (fst (fst r')) /\
                         ll_rel sigma (snd (fst r)) (snd (fst r')) /\ snd r = snd r')
            (pivot_loop fuel i maxitr g ll) (pivot_loop fuel i maxitr g' ll').
  Proof.
    induction fuel as [|fu IH]; intros i maxitr g g' ll ll' H LL;
      rewrite (pivot_loop_eq_ns2 _ i maxitr g ll), (pivot_loop_eq_ns2 _ i maxitr g' ll');
      rewrite (neg_cut_tree_edge_iso g g' H);
      (destruct (neg_cut_tree_edge g) as [e|] eqn:En; cbn [option_map];
       [|apply rr_ok; cbn [fst snd]; auto]);
      (destruct (maxitr <=? i)%Z; [apply rr_ok; cbn [fst snd]; auto|]);
      assert (Le : e < length (g_ea g)) by (apply (iso_E_lt H); apply neg_cut_mem_ns2; exact En);
      rewrite (min_slack_non_tree_edge_iso g g' ll ll' e H LL Le);
      (destruct (min_slack_non_tree_edge g ll e) as [f|] eqn:Ef; cbn [option_map];
       [|apply rr_ok; cbn [fst snd]; auto]).
    - apply rr_err.
    - assert (Lf : f < length (g_ea g)) by (apply (iso_E_lt H); eapply min_slack_mem_ns2; exact Ef).
      eapply res_rel_bind.
      + apply exchange_iso; eauto.
      + intros r r' [R1 R2]. apply IH; auto.
  Qed.
End NS2b.


(* ------------------------------------------------------------------------------------------------ *)
(* 8. adjust_layers / hbalance                                                                       *)
(* ------------------------------------------------------------------------------------------------ *)
Definition hb_step_ns2 (ll : limlow) (rg : res graph) (e : nat) : res graph :=
  do g <- rg;
  if negb (e_tree (gedge g e)) then Ok g else
  if (e_cut (gedge g e) =? 0)%Z then
    match min_slack_non_tree_edge g ll e with
    | None => Ok g
    | Some f =>
        let d := slack g f in
        if (d <? 1)%Z then Ok g else
        if (lim_of ll (e_from (gedge g e)) <? lim_of ll (e_to (gedge g e)))%Z
        then adjust_layers (S (length (g_na g))) ll (e_from (gedge g e)) d g
        else adjust_layers (S (length (g_na g))) ll (e_to (gedge g e)) (- d)%Z g
    end
  else Ok g.

Lemma hbalance_eq_ns2 : forall g ll, hbalance g ll = fold_left (hb_step_ns2 ll) (g_E g) (Ok g).
Proof. reflexivity. Qed.

Section NS2c.
  Variables sigma tau : nat -> nat.

  (* iso, and the edge arena keeps the size it had in the reference graph g0 *)
  Definition ge_rel_ns2 (g0 : graph) (a a' : graph) : Prop :=
    iso sigma tau a a' /\ length (g_ea a) = length (g_ea g0).

  Lemma ge_rel_trans_ns2 : forall g0 g1 r r', length (g_ea g1) = length (g_ea g0) ->
    res_rel (ge_rel_ns2 g1) r r' -> res_rel (ge_rel_ns2 g0) r r'.
  Proof.
    intros g0 g1 r r' E. apply res_rel_impl. intros x y [A B]. split; [exact A|]. rewrite B. exact E.
  Qed.

  Lemma al_loop_rel_ns2 : forall ll ll' n pick rec rec', ll_rel sigma ll ll' ->
    (forall ed, pick (edge_map sigma ed) = sigma (pick ed)) ->
    (forall m g g', iso sigma tau g g' -> res_rel (ge_rel_ns2 g) (rec m g) (rec' (sigma m) g')) ->
    forall es g g', iso sigma tau g g' -> (forall e, In e es -> e < length (g_ea g)) ->
    res_rel (ge_rel_ns2 g) (al_loop_ns2 rec ll n pick es g) (al_loop_ns2 rec' ll' (sigma n) pick (map tau es) g').
  Proof.
    intros ll ll' n pick rec rec' LL Hpick Hrec. induction es as [|e t IH]; intros g g' H R.
    - cbn. apply rr_ok. split; auto.
    - cbn [map]. rewrite !al_loop_cons_ns2.
      assert (L : e < length (g_ea g)) by (apply R; left; auto).
      assert (Rt : forall x, In x t -> x < length (g_ea g)) by (intros x Hx; apply R; right; auto).
      rewrite (iso_e_tree H L). destruct (negb (e_tree (gedge g e))); [apply IH; auto|].
      rewrite (iso_connected_node H n L), !(lim_of_rel_ns2 _ _ _ LL).
      destruct (negb (lim_of ll n <? lim_of ll (connected_node g e n))%Z); [|apply IH; auto].
      rewrite (iso_edge H L), Hpick.
      eapply res_rel_bind.
      + apply Hrec. exact H.
      + intros x y [A B]. apply (ge_rel_trans_ns2 g x); [exact B|].
        apply IH; [exact A|]. intros z Hz. rewrite B. apply Rt. exact Hz.
  Qed.

  Theorem adjust_layers_rel : forall ll ll', ll_rel sigma ll ll' ->
    forall f f' n d g g', iso sigma tau g g' ->
    res_rel (ge_rel_ns2 g) (adjust_layers f ll n d g) (adjust_layers f' ll' (sigma n) d g').
  Proof.
    intros ll ll' LL. induction f as [|f IH]; intros f' n d g g' H.
    - rewrite adjust_layers_0_ns2. apply rr_fuel_l.
    - destruct f' as [|f']; [rewrite (adjust_layers_0_ns2 ll'); apply rr_fuel_r|].
      rewrite !adjust_layers_S_ns2. cbv zeta.
      assert (H0 := iso_move_layer n (fun z => z - d)%Z H). cbv beta in H0.
      set (g0 := upd_node g n _) in *. set (g0' := upd_node g' (sigma n) _) in *.
      assert (E0 : length (g_ea g0) = length (g_ea g)) by reflexivity.
      rewrite (iso_n_out H0).
      eapply res_rel_bind.
      + apply (al_loop_rel_ns2 ll ll' n e_to _ _ LL).
        * intros ed. reflexivity.
        * intros m a a' Ha. apply IH. exact Ha.
        * exact H0.
        * intros e He. apply (iso_out_lt H0 n e He).
      + intros g1 g1' [H1 E1]. rewrite (iso_n_in H1).
        apply (ge_rel_trans_ns2 g g1); [rewrite E1; exact E0|].
        apply (al_loop_rel_ns2 ll ll' n e_from _ _ LL).
        * intros ed. reflexivity.
        * intros m a a' Ha. apply IH. exact Ha.
        * exact H1.
        * intros e He. apply (iso_in_lt H1 n e He).
  Qed.

  Theorem adjust_layers_iso : forall f f' ll ll' n d g g', iso sigma tau g g' -> ll_rel sigma ll ll' ->
    res_rel (iso sigma tau) (adjust_layers f ll n d g) (adjust_layers f' ll' (sigma n) d g').
  Proof.
    intros f f' ll ll' n d g g' H LL.
    apply (@res_rel_impl _ _ (ge_rel_ns2 g) (iso sigma tau)); [intros x y [A _]; exact A|].
    apply adjust_layers_rel; auto.
  Qed.

  Lemma hb_step_rel_ns2 : forall g ll ll' a a' e, ll_rel sigma ll ll' -> e < length (g_ea g) ->
    res_rel (ge_rel_ns2 g) a a' -> res_rel (ge_rel_ns2 g) (hb_step_ns2 ll a e) (hb_step_ns2 ll' a' (tau e)).
  Proof.
    intros g ll ll' a a' e LL L Ra. unfold hb_step_ns2.
    eapply res_rel_bind; [exact Ra|].
    intros x y [H E]. assert (Lx : e < length (g_ea x)) by (rewrite E; exact L).
    assert (OK : res_rel (ge_rel_ns2 g) (Ok x) (Ok y)) by (apply rr_ok; split; auto).
    rewrite (iso_e_tree H Lx). destruct (negb (e_tree (gedge x e))); [exact OK|].
    rewrite (iso_e_cut H Lx). destruct (e_cut (gedge x e) =? 0)%Z; [|exact OK].
    rewrite (min_slack_non_tree_edge_iso sigma tau x y ll ll' e H LL Lx).
    destruct (min_slack_non_tree_edge x ll e) as [f|] eqn:Ef; cbn [option_map]; [|exact OK].
    assert (Lf : f < length (g_ea x)) by (apply (iso_E_lt H); eapply min_slack_mem_ns2; exact Ef).
    cbv zeta. rewrite (slack_iso_ns2 sigma tau x y f H Lf).
    destruct (slack x f <? 1)%Z; [exact OK|].
    rewrite (iso_e_from H Lx), (iso_e_to H Lx), !(lim_of_rel_ns2 _ _ _ LL).
    destruct (lim_of ll (e_from (gedge x e)) <? lim_of ll (e_to (gedge x e)))%Z;
      apply (ge_rel_trans_ns2 g x); auto; apply adjust_layers_rel; auto.
  Qed.

  Theorem hbalance_iso : forall g g' ll ll', iso sigma tau g g' -> ll_rel sigma ll ll' ->
    res_rel (iso sigma tau) (hbalance g ll) (hbalance g' ll').
  Proof.
    intros g g' ll ll' H LL. rewrite !hbalance_eq_ns2. rewrite (iso_E H).
    apply (@res_rel_impl _ _ (ge_rel_ns2 g) (iso sigma tau)); [intros x y [A _]; exact A|].
    apply fold_left_rel with (R := res_rel (ge_rel_ns2 g)).
    - apply rr_ok. split; auto.
    - intros a a' e He Ra. apply hb_step_rel_ns2; auto. apply (iso_E_lt H e He).
  Qed.
End NS2c.

Print Assumptions slack_iso_ns2.
Print Assumptions walk_stree_rel.
Print Assumptions set_stree_values_iso.
Print Assumptions in_head_component_iso.
Print Assumptions set_cut_values_iso.
Print Assumptions neg_cut_tree_edge_iso.
Print Assumptions min_slack_non_tree_edge_iso.
Print Assumptions exchange_iso.
Print Assumptions pivot_loop_iso.
Print Assumptions adjust_layers_rel.
Print Assumptions adjust_layers_iso.
Print Assumptions hbalance_iso.
