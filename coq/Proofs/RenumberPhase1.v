(* RenumberPhase1.v — equivariance of phase 1 (cycle breaking) under renumbering of arena indices:
   removeTwoNodeCycles, hasCycles, the depth-first breaker, and phase1 itself (the greedy breaker is a premise,
   proved in a sibling file). *)
From Autog Require Import Base Graph Populate Phase1.
From Autog.Proofs Require Import ListLemmas RenumberBase.
Local Open Scope nat_scope.

(* ---------- top-level copies of the nested loops ---------- *)
Definition rp_hc_loop (f : nat) (g : graph) (n : nat) :=
  fix loop (es : list nat) (st : list nat * list nat) : res (bool * (list nat * list nat)) :=
    match es with
    | [] => Ok (false, st)
    | e :: t =>
        if self_loop g e then loop t st else
        let m := connected_node g e n in
        if mem_nat m (fst st) then Ok (true, st)
        else if negb (mem_nat m (snd st)) then
               do r <- hc_visit f g m st;
               if fst r then Ok r else loop t (snd r)
             else loop t st
    end.

Lemma rp_hc_visit_S : forall f g n st,
  hc_visit (S f) g n st =
  (do r <- rp_hc_loop f g n (n_out (gnode g n)) (n :: fst st, snd st);
   if fst r then Ok r else Ok (false, (remove_nat n (fst (snd r)), n :: snd (snd r)))).
Proof. reflexivity. Qed.

Lemma rp_hc_loop_cons : forall f g n e t st,
  rp_hc_loop f g n (e :: t) st =
  if self_loop g e then rp_hc_loop f g n t st else
  if mem_nat (connected_node g e n) (fst st) then Ok (true, st)
  else if negb (mem_nat (connected_node g e n) (snd st)) then
         do r <- hc_visit f g (connected_node g e n) st;
         if fst r then Ok r else rp_hc_loop f g n t (snd r)
       else rp_hc_loop f g n t st.
Proof. reflexivity. Qed.

Lemma rp_hc_nodes_cons : forall F g n t st,
  hc_nodes F g (n :: t) st =
  if negb (mem_nat n (fst st)) && negb (mem_nat n (snd st)) then
    do r <- hc_visit F g n st; if fst r then Ok true else hc_nodes F g t (snd r)
  else hc_nodes F g t st.
Proof. reflexivity. Qed.

Definition rp_dfs_loop (f : nat) (g : graph) :=
  fix loop (es : list nat) (st : dfs_st) : res dfs_st :=
    match es with
    | [] => Ok st
    | e :: t =>
        if self_loop g e then loop t st else
        let '(vis, act, rev) := st in
        let to := e_to (gedge g e) in
        if mem_nat to act then loop t (vis, act, rev ++ [e])
        else do st' <- dfs_visit f g to st; loop t st'
    end.

Lemma rp_dfs_visit_S : forall f g n vis act rv,
  dfs_visit (S f) g n (vis, act, rv) =
  if mem_nat n vis then Ok (vis, act, rv) else
  do st <- rp_dfs_loop f g (n_out (gnode g n)) (n :: vis, n :: act, rv);
  let '(vis, act, rev) := st in Ok (vis, remove_nat n act, rev).
Proof. reflexivity. Qed.

Lemma rp_dfs_loop_cons : forall f g e t vis act rv,
  rp_dfs_loop f g (e :: t) (vis, act, rv) =
  if self_loop g e then rp_dfs_loop f g t (vis, act, rv) else
  if mem_nat (e_to (gedge g e)) act then rp_dfs_loop f g t (vis, act, rv ++ [e])
  else do st' <- dfs_visit f g (e_to (gedge g e)) (vis, act, rv); rp_dfs_loop f g t st'.
Proof. reflexivity. Qed.

Lemma rp_dfs_nodes_cons : forall F g n t st,
  dfs_nodes F g (n :: t) st = do st' <- dfs_visit F g n st; dfs_nodes F g t st'.
Proof. reflexivity. Qed.

Lemma two_cycle_edges_sub : forall g es seen e, In e (two_cycle_edges g es seen) -> In e es.
Proof.
  intros g. induction es as [|x t IH]; intros seen e K; [exact K|].
  cbn [two_cycle_edges] in K.
  destruct (seen_pair _ seen).
  - destruct K as [K|K]; [left; exact K|right; eapply IH; eauto].
  - right. eapply IH; eauto.
Qed.

Section P1.
  Variables sigma tau : nat -> nat.

  (* ---------- removeTwoNodeCycles ---------- *)
  Definition rp_pmap (p : nat * nat) : nat * nat := (sigma (fst p), sigma (snd p)).

  Lemma seen_pair_map : inj sigma -> forall a b seen,
    seen_pair (sigma a, sigma b) (map rp_pmap seen) = seen_pair (a, b) seen.
  Proof.
    intros Hs a b seen. unfold seen_pair. apply existsb_map_comm.
    intros [x y] _. unfold pair_eqb, rp_pmap. cbn [fst snd]. rewrite !(eqb_inj Hs). reflexivity.
  Qed.

  Theorem two_cycle_edges_iso : forall g g' es seen seen', iso sigma tau g g' ->
    (forall e, In e es -> e < length (g_ea g)) ->
    seen' = map (fun p => (sigma (fst p), sigma (snd p))) seen ->
    two_cycle_edges g' (map tau es) seen' = map tau (two_cycle_edges g es seen).
  Proof.
    intros g g' es seen seen' H R E. subst seen'. fold rp_pmap. revert seen R.
    induction es as [|e t IH]; intros seen R; [reflexivity|].
    cbn [map two_cycle_edges].
    rewrite (iso_e_from H), (iso_e_to H) by (apply R; left; auto).
    rewrite seen_pair_map by apply H.
    destruct (seen_pair _ seen).
    - cbn [map]. rewrite IH; auto. intros; apply R; right; auto.
    - change ((sigma (e_from (gedge g e)), sigma (e_to (gedge g e))) :: map rp_pmap seen)
        with (map rp_pmap ((e_from (gedge g e), e_to (gedge g e)) :: seen)).
      apply IH. intros; apply R; right; auto.
  Qed.

  Theorem remove_two_node_cycles_iso : forall g g', iso sigma tau g g' ->
    iso sigma tau (remove_two_node_cycles g) (remove_two_node_cycles g').
  Proof.
    intros g g' H. unfold remove_two_node_cycles.
    rewrite (iso_E H).
    rewrite (@two_cycle_edges_iso g g' (g_E g) [] [] H) by (try reflexivity; apply (iso_E_lt H)).
    apply fold_reverse_iso; auto.
    intros e K. apply two_cycle_edges_sub in K. apply (iso_E_lt H). exact K.
  Qed.

  (* ---------- hasCycles ---------- *)
  Definition rp_smap (st : list nat * list nat) : list nat * list nat := (map sigma (fst st), map sigma (snd st)).
  Definition rp_rmap (r : bool * (list nat * list nat)) : bool * (list nat * list nat) := (fst r, rp_smap (snd r)).
  Definition rp_hrel (r r' : bool * (list nat * list nat)) : Prop := r' = rp_rmap r.

  Section HC.
    Variables g g' : graph.
    Hypothesis H : iso sigma tau g g'.

    Lemma rp_hc_loop_iso : forall f f' n,
      (forall m st, res_rel rp_hrel (hc_visit f g m st) (hc_visit f' g' (sigma m) (rp_smap st))) ->
      forall es st, (forall e, In e es -> e < length (g_ea g)) ->
      res_rel rp_hrel (rp_hc_loop f g n es st) (rp_hc_loop f' g' (sigma n) (map tau es) (rp_smap st)).
    Proof.
      intros f f' n IH. induction es as [|e t IHes]; intros st R.
      - cbn. constructor. reflexivity.
      - cbn [map]. rewrite !rp_hc_loop_cons.
        assert (L : e < length (g_ea g)) by (apply R; left; auto).
        assert (Rt : forall x, In x t -> x < length (g_ea g)) by (intros; apply R; right; auto).
        rewrite (iso_self_loop H L).
        destruct (self_loop g e); [apply IHes; auto|].
        rewrite (iso_connected_node H n L).
        change (fst (rp_smap st)) with (map sigma (fst st)).
        change (snd (rp_smap st)) with (map sigma (snd st)).
        rewrite !(mem_nat_map (iso_sinj H)).
        destruct (mem_nat (connected_node g e n) (fst st)).
        + constructor. reflexivity.
        + destruct (mem_nat (connected_node g e n) (snd st)); cbn [negb]; [apply IHes; auto|].
          eapply res_rel_bind; [apply IH|].
          intros x y E. red in E. subst y. cbn [rp_rmap fst snd].
          destruct (fst x).
          * constructor. reflexivity.
          * apply IHes; auto.
    Qed.

    Lemma rp_hc_visit_iso : forall f f' n st,
      res_rel rp_hrel (hc_visit f g n st) (hc_visit f' g' (sigma n) (rp_smap st)).
    Proof.
      induction f as [|f IH]; intros f' n st; [constructor|].
      destruct f' as [|f']; [constructor|].
      rewrite !rp_hc_visit_S.
      rewrite (iso_n_out H).
      eapply res_rel_bind.
      - change (sigma n :: fst (rp_smap st), snd (rp_smap st)) with (rp_smap (n :: fst st, snd st)).
        apply rp_hc_loop_iso; [intros; apply IH|]. apply (iso_out_lt H).
      - intros x y E. red in E. subst y. cbn [rp_rmap fst snd].
        destruct (fst x); constructor; [reflexivity|].
        unfold rp_hrel, rp_rmap, rp_smap. cbn [fst snd map].
        rewrite (remove_nat_map (iso_sinj H)). reflexivity.
    Qed.

    Lemma rp_hc_nodes_iso : forall f f' ns st,
      res_rel eq (hc_nodes f g ns st) (hc_nodes f' g' (map sigma ns) (rp_smap st)).
    Proof.
      intros f f'. induction ns as [|n t IH]; intros st.
      - cbn. constructor. reflexivity.
      - cbn [map]. rewrite !rp_hc_nodes_cons.
        change (fst (rp_smap st)) with (map sigma (fst st)).
        change (snd (rp_smap st)) with (map sigma (snd st)).
        rewrite !(mem_nat_map (iso_sinj H)).
        destruct (negb (mem_nat n (fst st)) && negb (mem_nat n (snd st))); [|apply IH].
        eapply res_rel_bind; [apply rp_hc_visit_iso|].
        intros x y E. red in E. subst y. cbn [rp_rmap fst snd].
        destruct (fst x); [constructor; reflexivity|apply IH].
    Qed.
  End HC.

  Theorem has_cycles_iso : forall g g', iso sigma tau g g' -> res_rel eq (has_cycles g) (has_cycles g').
  Proof.
    intros g g' H. unfold has_cycles. rewrite (iso_N H).
    change (@nil nat, @nil nat) with (rp_smap ([], [])) at 2.
    apply rp_hc_nodes_iso. exact H.
  Qed.

  (* ---------- depth-first breaker ---------- *)
  Definition rp_dmap (st : dfs_st) : dfs_st :=
    let '(vis, act, rv) := st in (map sigma vis, map sigma act, map tau rv).
  Definition rp_rev_ok (g : graph) (st : dfs_st) : Prop :=
    forall e, In e (snd st) -> e < length (g_ea g).
  Definition rp_drel (g : graph) (st st' : dfs_st) : Prop := st' = rp_dmap st /\ rp_rev_ok g st.

  Section DFS.
    Variables g g' : graph.
    Hypothesis H : iso sigma tau g g'.

    Lemma rp_dfs_loop_iso : forall f f',
      (forall m st, rp_rev_ok g st ->
         res_rel (rp_drel g) (dfs_visit f g m st) (dfs_visit f' g' (sigma m) (rp_dmap st))) ->
      forall es st, (forall e, In e es -> e < length (g_ea g)) -> rp_rev_ok g st ->
      res_rel (rp_drel g) (rp_dfs_loop f g es st) (rp_dfs_loop f' g' (map tau es) (rp_dmap st)).
    Proof.
      intros f f' IH. induction es as [|e t IHes]; intros [[vis act] rv] R K.
      - cbn. constructor. split; [reflexivity|exact K].
      - cbn [map rp_dmap]. rewrite !rp_dfs_loop_cons.
        assert (L : e < length (g_ea g)) by (apply R; left; auto).
        assert (Rt : forall x, In x t -> x < length (g_ea g)) by (intros; apply R; right; auto).
        rewrite (iso_self_loop H L).
        destruct (self_loop g e); [apply (IHes (vis, act, rv)); auto|].
        rewrite (iso_e_to H L).
        rewrite (mem_nat_map (iso_sinj H)).
        destruct (mem_nat (e_to (gedge g e)) act).
        + change (map tau rv ++ [tau e]) with (map tau rv ++ map tau [e]). rewrite <- map_app.
          apply (IHes (vis, act, rv ++ [e])); auto.
          intros x Hx. cbn [snd] in Hx. apply in_app_or in Hx. destruct Hx as [Hx|[Hx|[]]].
          * apply K. exact Hx.
          * subst x. exact L.
        + eapply res_rel_bind; [apply (IH _ (vis, act, rv)); exact K|].
          intros x y [E Kx]. subst y. apply IHes; auto.
    Qed.

    Lemma rp_dfs_visit_iso : forall f f' n st, rp_rev_ok g st ->
      res_rel (rp_drel g) (dfs_visit f g n st) (dfs_visit f' g' (sigma n) (rp_dmap st)).
    Proof.
      induction f as [|f IH]; intros f' n [[vis act] rv] K; [constructor|].
      destruct f' as [|f']; [constructor|].
      cbn [rp_dmap]. rewrite !rp_dfs_visit_S.
      rewrite (mem_nat_map (iso_sinj H)).
      destruct (mem_nat n vis).
      - constructor. split; [reflexivity|exact K].
      - rewrite (iso_n_out H).
        eapply res_rel_bind.
        + apply (@rp_dfs_loop_iso f f' (fun m st => IH f' m st) (n_out (gnode g n)) (n :: vis, n :: act, rv)).
          * apply (iso_out_lt H).
          * exact K.
        + intros [[v a] r] y [E Kx]. subst y. cbn [rp_dmap].
          constructor. split.
          * cbn [rp_dmap]. rewrite (remove_nat_map (iso_sinj H)). reflexivity.
          * exact Kx.
    Qed.

    Lemma rp_dfs_nodes_iso : forall f f' ns st, rp_rev_ok g st ->
      res_rel (rp_drel g) (dfs_nodes f g ns st) (dfs_nodes f' g' (map sigma ns) (rp_dmap st)).
    Proof.
      intros f f'. induction ns as [|n t IH]; intros st K.
      - cbn. constructor. split; [reflexivity|exact K].
      - cbn [map]. rewrite !rp_dfs_nodes_cons.
        eapply res_rel_bind; [apply rp_dfs_visit_iso; exact K|].
        intros x y [E Kx]. subst y. apply IH. exact Kx.
    Qed.
  End DFS.

  Theorem exec_depth_first_iso : forall g g', iso sigma tau g g' ->
    res_rel (iso sigma tau) (exec_depth_first g) (exec_depth_first g').
  Proof.
    intros g g' H. unfold exec_depth_first.
    rewrite (iso_N H).
    rewrite (filter_map_comm sigma (fun n => Nat.eqb (indeg g n) 0) (fun n => Nat.eqb (indeg g' n) 0))
      by (intros x _; rewrite (iso_indeg H); reflexivity).
    eapply res_rel_bind.
    - change (@nil nat, @nil nat, @nil nat) with (rp_dmap ([], [], [])) at 2.
      apply rp_dfs_nodes_iso; [exact H|]. intros e [].
    - intros x y [E Kx]. subst y.
      eapply res_rel_bind; [apply rp_dfs_nodes_iso; [exact H|exact Kx]|].
      intros [[v a] r] y [E Ky]. subst y. cbn [rp_dmap].
      constructor. apply fold_reverse_iso; auto.
  Qed.

  (* ---------- phase1 ---------- *)
  Theorem phase1_iso_gen :
    (forall g g', iso sigma tau g g' -> res_rel (iso sigma tau) (exec_greedy g) (exec_greedy g')) ->
    forall alg g g', iso sigma tau g g' -> res_rel (iso sigma tau) (phase1 alg g) (phase1 alg g').
  Proof.
    intros Hgreedy alg g g' H. unfold phase1.
    rewrite (iso_N_length H).
    destruct (Nat.eqb (length (g_N g)) 1); [constructor; exact H|].
    pose proof (remove_two_node_cycles_iso _ _ H) as H1.
    eapply res_rel_bind; [apply has_cycles_iso; exact H1|].
    intros c c' E. subst c'.
    destruct (negb c); [constructor; exact H1|].
    eapply res_rel_bind.
    - destruct alg; [apply Hgreedy; exact H1|apply exec_depth_first_iso; exact H1].
    - intros g2 g2' H2.
      eapply res_rel_bind; [apply has_cycles_iso; exact H2|].
      intros d d' E. subst d'.
      destruct d; constructor. exact H2.
  Qed.
End P1.

Print Assumptions two_cycle_edges_iso.
Print Assumptions remove_two_node_cycles_iso.
Print Assumptions has_cycles_iso.
Print Assumptions exec_depth_first_iso.
Print Assumptions phase1_iso_gen.
