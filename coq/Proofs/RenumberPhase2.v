(* RenumberPhase2.v — equivariance under renumbering of arena indices: Model/Phase2.v
   (slack, longest path, layer slices, normalize, vbalance, phase2 driver).
   Toolkit: Proofs/RenumberBase.v. *)
From Autog Require Import Base Graph Phase2.
From Autog.Proofs Require Import ListLemmas RenumberBase.
Local Open Scope nat_scope.

(* ---------- the inner loop of follow_lp, named ---------- *)
Definition lp_loop (F : nat -> list Z * Z -> res (Z * (list Z * Z))) (g : graph) (n : nat) :=
  fix loop (es : list nat) (nodeh : Z) (st : list Z * Z) {struct es} : res (Z * (list Z * Z)) :=
    match es with
    | [] => Ok (nodeh, st)
    | e :: t =>
        if self_loop g e then loop t nodeh st else
        do r <- F (connected_node g e n) st;
        loop t (Z.max nodeh (fst r + e_delta (gedge g e))%Z) (snd r)
    end.

Lemma lp_loop_cons : forall F g n e t a st,
  lp_loop F g n (e :: t) a st =
  if self_loop g e then lp_loop F g n t a st else
  do r <- F (connected_node g e n) st;
  lp_loop F g n t (Z.max a (fst r + e_delta (gedge g e))%Z) (snd r).
Proof. reflexivity. Qed.

Lemma follow_lp_S : forall f g n st,
  follow_lp (S f) g n st =
  if (0 <=? nth n (fst st) (-1))%Z then Ok (nth n (fst st) (-1)%Z, st) else
  do r <- lp_loop (follow_lp f g) g n (n_out (gnode g n)) 1%Z st;
  let '(nodeh, (hs, nl)) := r in Ok (nodeh, (set_nth hs n nodeh, Z.max nl nodeh)).
Proof. reflexivity. Qed.

Lemma map_repeat' : forall (A B : Type) (h : A -> B) a k, map h (repeat a k) = repeat (h a) k.
Proof. induction k as [|k IH]; cbn; auto. rewrite IH. auto. Qed.

Section P2.
  Variables sigma tau : nat -> nat.

  (* ---------- 1. slack ---------- *)
  Theorem slack_iso : forall g g' e, iso sigma tau g g' -> e < length (g_ea g) ->
    slack g' (tau e) = slack g e.
  Proof.
    intros g g' e H L. unfold slack.
    rewrite (iso_e_to H L), (iso_e_from H L), (iso_e_delta H L), !(iso_layer_of H). reflexivity.
  Qed.

  (* ---------- 2. longest path ---------- *)
  Definition lp_st_rel (st st' : list Z * Z) : Prop :=
    aux_rel sigma (-1)%Z (fst st) (fst st') /\ snd st' = snd st.
  Definition lp_r_rel (r r' : Z * (list Z * Z)) : Prop :=
    fst r' = fst r /\ lp_st_rel (snd r) (snd r').

  Lemma lp_loop_iso : forall F F' g g' n, iso sigma tau g g' ->
    (forall m st st', lp_st_rel st st' -> res_rel lp_r_rel (F m st) (F' (sigma m) st')) ->
    forall es, (forall e, In e es -> e < length (g_ea g)) ->
    forall a st st', lp_st_rel st st' ->
    res_rel lp_r_rel (lp_loop F g n es a st) (lp_loop F' g' (sigma n) (map tau es) a st').
  Proof.
    intros F F' g g' n H HF. induction es as [|e t IH]; intros R a st st' S.
    - cbn. constructor. split; auto.
    - cbn [map]. rewrite !lp_loop_cons.
      assert (L : e < length (g_ea g)) by (apply R; left; auto).
      assert (Rt : forall x, In x t -> x < length (g_ea g)) by (intros x Hx; apply R; right; auto).
      rewrite (iso_self_loop H L). destruct (self_loop g e).
      + apply IH; auto.
      + rewrite (iso_connected_node H n L).
        apply res_rel_bind with (R := lp_r_rel); [apply HF; auto|].
        intros r r' [E1 E2]. rewrite E1, (iso_e_delta H L). apply IH; auto.
  Qed.

  Lemma follow_lp_iso : forall f f' g g' n st st', iso sigma tau g g' -> lp_st_rel st st' ->
    res_rel lp_r_rel (follow_lp f g n st) (follow_lp f' g' (sigma n) st').
  Proof.
    induction f as [|f IH]; intros f' g g' n st st' H S.
    - apply rr_fuel_l.
    - destruct f' as [|f']; [apply rr_fuel_r|].
      rewrite !follow_lp_S.
      destruct S as [S1 S2].
      rewrite (aux_rel_nth n S1).
      destruct (0 <=? nth n (fst st) (-1))%Z.
      + constructor. split; [reflexivity|]. split; auto.
      + apply res_rel_bind with (R := lp_r_rel).
        * rewrite (iso_n_out H). apply lp_loop_iso; [exact H| | |].
          -- intros m s s' Ss. apply IH; auto.
          -- intros e He. eapply (iso_out_lt H); eauto.
          -- split; auto.
        * intros [nodeh [hs nl]] [nodeh' [hs' nl']] [E1 [E2 E3]]. cbn [fst snd] in *. subst nodeh' nl'.
          constructor. split; [reflexivity|]. split; cbn [fst snd]; auto.
          apply aux_rel_set_nth; auto. apply (iso_sinj H).
  Qed.

  Lemma lp_nodes_iso : forall f f' g g', iso sigma tau g g' ->
    forall ns st st', lp_st_rel st st' ->
    res_rel lp_st_rel (lp_nodes f g ns st) (lp_nodes f' g' (map sigma ns) st').
  Proof.
    intros f f' g g' H. induction ns as [|n t IH]; intros st st' S; cbn [map lp_nodes].
    - constructor. auto.
    - apply res_rel_bind with (R := lp_r_rel); [apply follow_lp_iso; auto|].
      intros r r' [_ E]. apply IH; auto.
  Qed.

  Theorem exec_longest_path_iso : forall g g', iso sigma tau g g' ->
    res_rel (iso sigma tau) (exec_longest_path g) (exec_longest_path g').
  Proof.
    intros g g' H. unfold exec_longest_path. rewrite (iso_N H).
    apply res_rel_bind with (R := lp_st_rel).
    - apply lp_nodes_iso; auto. split; cbn [fst snd]; auto. apply (aux_rel_repeat H).
    - intros [hs nl] [hs' nl'] [S1 S2]. cbn [fst snd] in *. subst nl'.
      constructor. apply fold_left_rel with (R := iso sigma tau); auto.
      intros a b x _ Hab. rewrite (aux_rel_nth x S1). apply iso_set_layer; auto.
  Qed.

  (* ---------- 3. layer slices ---------- *)
  Lemma fold_max_layer_iso : forall g g' l z, iso sigma tau g g' ->
    fold_left (fun m n => Z.max m (layer_of g' n)) (map sigma l) z =
    fold_left (fun m n => Z.max m (layer_of g n)) l z.
  Proof.
    intros g g' l z H. symmetry.
    apply fold_left_rel with (R := @eq Z); auto.
    intros a b x _ E. subst b. rewrite (iso_layer_of H). reflexivity.
  Qed.

  Theorem init_layer_slices_iso : forall g g', iso sigma tau g g' ->
    res_rel (iso sigma tau) (init_layer_slices g) (init_layer_slices g').
  Proof.
    intros g g' H. unfold init_layer_slices. rewrite (iso_N H).
    rewrite (fold_max_layer_iso _ _ _ _ H).
    rewrite (existsb_map_comm sigma (fun n => (layer_of g n <? 0)%Z) (fun n => (layer_of g' n <? 0)%Z))
      by (intros x _; rewrite (iso_layer_of H); reflexivity).
    destruct (existsb (fun n => (layer_of g n <? 0)%Z) (g_N g)); [constructor|].
    constructor.
    set (k := Z.to_nat (fold_left (fun m n => Z.max m (layer_of g n)) (g_N g) 0%Z + 1)).
    set (F := fun ls n => upd ls (Z.to_nat (layer_of g n))
                (fun l => mkLayer (l_nodes l ++ [n]) (l_w l) (l_h l))).
    set (F' := fun ls n => upd ls (Z.to_nat (layer_of g' n))
                (fun l => mkLayer (l_nodes l ++ [n]) (l_w l) (l_h l))).
    assert (K : fold_left F' (map sigma (g_N g)) (repeat layer0 k)
                = map (layer_map sigma) (fold_left F (g_N g) (repeat layer0 k)) /\
                (forall l n, In l (fold_left F (g_N g) (repeat layer0 k)) -> In n (l_nodes l) ->
                   n < length (g_na g))).
    { apply fold_left_rel with
        (R := fun ls ls' => ls' = map (layer_map sigma) ls /\
                (forall l n, In l ls -> In n (l_nodes l) -> n < length (g_na g))).
      - split.
        + rewrite map_repeat'. reflexivity.
        + intros l n Hl Hn. apply repeat_spec in Hl. subst l. destruct Hn.
      - intros ls ls' x Hx [E R]. subst ls'. unfold F, F'. split.
        + rewrite (iso_layer_of H). apply upd_map.
          intros l. unfold layer_map. cbn. rewrite map_app. reflexivity.
        + intros l n Hl Hn. apply In_nth with (d := layer0) in Hl. destruct Hl as [j [Lj Ej]].
          rewrite upd_length in Lj. rewrite nth_upd_full in Ej.
          destruct (Nat.eqb (Z.to_nat (layer_of g x)) j && Nat.ltb (Z.to_nat (layer_of g x)) (length ls)).
          * subst l. cbn [l_nodes] in Hn. apply in_app_or in Hn. destruct Hn as [Hn|[Hn|[]]].
            -- eapply R; [apply nth_In; exact Lj|exact Hn].
            -- subst n. apply (iso_N_lt H). exact Hx.
          * subst l. eapply R; [apply nth_In; exact Lj|exact Hn]. }
    destruct K as [K1 K2]. rewrite K1. apply iso_with_L; auto.
  Qed.

  (* ---------- 4. normalize, vbalance ---------- *)
  Lemma fold_min_layer_iso : forall g g' l z, iso sigma tau g g' ->
    fold_left (fun m n => Z.min m (layer_of g' n)) (map sigma l) z =
    fold_left (fun m n => Z.min m (layer_of g n)) l z.
  Proof.
    intros g g' l z H. symmetry.
    apply fold_left_rel with (R := @eq Z); auto.
    intros a b x _ E. subst b. rewrite (iso_layer_of H). reflexivity.
  Qed.

  Theorem normalize_iso : forall g g', iso sigma tau g g' -> iso sigma tau (normalize g) (normalize g').
  Proof.
    intros g g' H. unfold normalize. rewrite (iso_N H).
    destruct (g_N g) as [|n0 t]; [exact H|].
    cbv zeta. cbn [map].
    change (sigma n0 :: map sigma t) with (map sigma (n0 :: t)).
    rewrite (fold_min_layer_iso _ _ _ _ H), (iso_layer_of H).
    set (lowest := fold_left (fun m n => Z.min m (layer_of g n)) (n0 :: t) (layer_of g n0)).
    destruct (lowest =? 0)%Z; [exact H|].
    apply fold_left_rel with (R := iso sigma tau); auto.
    intros a b x _ Hab.
    apply (iso_move_layer x (fun z => (z - lowest)%Z) Hab).
  Qed.

  Lemma vb_low_iso : forall g g' l z, iso sigma tau g g' -> (forall e, In e l -> e < length (g_ea g)) ->
    fold_left (fun lo e => Z.max lo (layer_of g' (e_from (gedge g' e)) + e_delta (gedge g' e))%Z) (map tau l) z =
    fold_left (fun lo e => Z.max lo (layer_of g (e_from (gedge g e)) + e_delta (gedge g e))%Z) l z.
  Proof.
    intros g g' l z H R. symmetry. apply fold_left_rel with (R := @eq Z); auto.
    intros a b x Hx E. subst b.
    rewrite (iso_e_from H (R x Hx)), (iso_e_delta H (R x Hx)), (iso_layer_of H). reflexivity.
  Qed.

  Lemma vb_high_iso : forall g g' l z, iso sigma tau g g' -> (forall e, In e l -> e < length (g_ea g)) ->
    fold_left (fun hi e => Z.min hi (layer_of g' (e_to (gedge g' e)) - e_delta (gedge g' e))%Z) (map tau l) z =
    fold_left (fun hi e => Z.min hi (layer_of g (e_to (gedge g e)) - e_delta (gedge g e))%Z) l z.
  Proof.
    intros g g' l z H R. symmetry. apply fold_left_rel with (R := @eq Z); auto.
    intros a b x Hx E. subst b.
    rewrite (iso_e_to H (R x Hx)), (iso_e_delta H (R x Hx)), (iso_layer_of H). reflexivity.
  Qed.

  Theorem vbalance_iso : forall g g', iso sigma tau g g' -> iso sigma tau (vbalance g) (vbalance g').
  Proof.
    intros g g' H. unfold vbalance. rewrite (iso_N H).
    rewrite (fold_max_layer_iso _ _ _ _ H).
    assert (EL : fold_left (fun l n => ladd l (layer_of g' n) 1%Z) (map sigma (g_N g)) []
               = fold_left (fun l n => ladd l (layer_of g n) 1%Z) (g_N g) []).
    { symmetry. apply fold_left_rel with (R := @eq (list (Z * Z))); auto.
      intros a b x _ E. subst b. rewrite (iso_layer_of H). reflexivity. }
    rewrite EL.
    set (lsize0 := fold_left (fun l n => ladd l (layer_of g n) 1%Z) (g_N g) []).
    set (lmax := fold_left (fun m n => Z.max m (layer_of g n)) (g_N g) 0%Z).
    match goal with |- iso _ _ (fst ?X) (fst ?Y) =>
      cut (iso sigma tau (fst X) (fst Y) /\ snd Y = snd X); [intros K; exact (proj1 K)|] end.
    apply fold_left_rel with
      (R := fun (a a' : graph * list (Z * Z)) => iso sigma tau (fst a) (fst a') /\ snd a' = snd a).
    - split; auto.
    - intros [gc ls] [gc' ls'] n _ [Hc E]. cbn [fst snd] in Hc, E. subst ls'.
      rewrite (iso_indeg Hc), (iso_outdeg Hc).
      destruct (Nat.eqb (indeg gc n) (outdeg gc n)); [|split; auto].
      rewrite (iso_n_in Hc), (iso_n_out Hc).
      rewrite (vb_low_iso _ _ _ _ Hc) by (intros e He; eapply (iso_in_lt Hc); eauto).
      rewrite (vb_high_iso _ _ _ _ Hc) by (intros e He; eapply (iso_out_lt Hc); eauto).
      rewrite (iso_layer_of Hc).
      match goal with |- context [if ?c then _ else _] => destruct c end.
      + split; cbn [fst snd]; auto. apply iso_set_layer; auto.
      + split; auto.
  Qed.

  (* ---------- 5. the phase-2 driver ---------- *)
  Lemma phase2_iso_aux : forall alg p,
    (alg = NetworkSimplex -> forall g g', iso sigma tau g g' ->
       res_rel (iso sigma tau) (exec_network_simplex p g) (exec_network_simplex p g')) ->
    forall g g', iso sigma tau g g' -> res_rel (iso sigma tau) (phase2 alg p g) (phase2 alg p g').
  Proof.
    intros alg p Hns g g' H. unfold phase2, assign_layers.
    apply res_rel_bind with (R := iso sigma tau).
    - rewrite (iso_N_length H). destruct (Nat.eqb (length (g_N g)) 1).
      + constructor. exact H.
      + destruct alg.
        * apply exec_longest_path_iso; auto.
        * apply Hns; auto.
    - intros x y Hxy. apply init_layer_slices_iso; auto.
  Qed.

  Theorem phase2_iso_gen :
    (forall p g g', iso sigma tau g g' ->
       res_rel (iso sigma tau) (exec_network_simplex p g) (exec_network_simplex p g')) ->
    forall alg p g g', iso sigma tau g g' -> res_rel (iso sigma tau) (phase2 alg p g) (phase2 alg p g').
  Proof. intros Hns alg p g g' H. apply phase2_iso_aux; auto. Qed.

  Theorem phase2_lp_iso : forall p g g', iso sigma tau g g' ->
    res_rel (iso sigma tau) (phase2 LongestPath p g) (phase2 LongestPath p g').
  Proof. intros p g g' H. apply phase2_iso_aux; auto. intros E. discriminate E. Qed.
End P2.

Print Assumptions slack_iso.
Print Assumptions exec_longest_path_iso.
Print Assumptions init_layer_slices_iso.
Print Assumptions normalize_iso.
Print Assumptions vbalance_iso.
Print Assumptions phase2_iso_gen.
Print Assumptions phase2_lp_iso.
