(* RenumberPhase4.v — equivariance under renumbering of arena indices: Model/Phase4.v
   (assign_y, VAlign, PackRight, NetworkSimplex positioner, phase4 driver) — everything except SinkColoring,
   which enters [phase4_iso_gen] as an explicit premise. Toolkit: Proofs/RenumberBase.v. *)
From Autog Require Import Base Graph Phase2 Phase4 BK.
From Coq Require Import Qround.
From Autog.Proofs Require Import ListLemmas RenumberBase.
Local Open Scope nat_scope.


(* ---------- the steps of aux_graph, named ---------- *)
Definition p4idx (g : graph) (n : nat) : nat := match index_of n (g_N g) with Some i => i | None => 0 end.

Definition aux_base (g : graph) : graph :=
  mkGraph (map (fun n => set_wh (nW g n) (nH g n) node0) (g_N g)) [] (iota 0 (length (g_N g))) [] [].

Definition aux_step1 (factor : Z) (g : graph) (a : graph) (e : nat) : graph :=
  if self_loop g e || is_flat g e then a else
  let ne := length (g_na a) in
  let w := (e_weight (gedge g e) * omega g e * factor)%Z in
  let u := p4idx g (e_from (gedge g e)) in let v := p4idx g (e_to (gedge g e)) in
  let eu := length (g_ea a) in let ev := S eu in
  let a := with_N (with_na a (g_na a ++ [set_out [eu; ev] node0])) (g_N a ++ [ne]) in
  let a := with_E (with_ea a (g_ea a ++ [mkEdge ne u 0 w false false 0 [] false; mkEdge ne v 0 w false false 0 [] false]))
                  (g_E a ++ [eu; ev]) in
  let a := upd_node a u (fun n => set_in (n_in n ++ [eu]) n) in
  upd_node a v (fun n => set_in (n_in n ++ [ev]) n).

Definition aux_step2n (spacing : Q) (g : graph) (acc : graph * option nat) (n : nat) : graph * option nat :=
  let '(a, prev) := acc in
  match prev with
  | None => (a, Some n)
  | Some p =>
      let v := p4idx g p in let w := p4idx g n in
      let f := length (g_ea a) in
      let d := Qceiling (nW g p / 2 + nW g n / 2 + spacing) in
      let a := with_E (with_ea a (g_ea a ++ [mkEdge v w d 0 false false 0 [] false])) (g_E a ++ [f]) in
      let a := upd_node a v (fun nd => set_out (n_out nd ++ [f]) nd) in
      (upd_node a w (fun nd => set_in (n_in nd ++ [f]) nd), Some n)
  end.

Definition aux_step2 (spacing : Q) (g : graph) (a : graph) (l : layer) : graph :=
  fst (fold_left (aux_step2n spacing g) (l_nodes l) (a, None)).

Lemma aux_graph_steps : forall factor spacing g,
  aux_graph factor spacing g =
  fold_left (aux_step2 spacing g) (g_L g) (fold_left (aux_step1 factor g) (g_E g) (aux_base g)).
Proof. reflexivity. Qed.

Section P4.
  Variables sigma tau : nat -> nat.

  (* ---------- generic folds over node lists / layer lists ---------- *)
  Lemma fold_nodes_iso : forall (F F' : graph -> nat -> graph),
    (forall g g' n, iso sigma tau g g' -> iso sigma tau (F g n) (F' g' (sigma n))) ->
    forall ns g g', iso sigma tau g g' ->
      iso sigma tau (fold_left F ns g) (fold_left F' (map sigma ns) g').
  Proof.
    intros F F' K ns g g' H.
    apply fold_left_rel with (R := iso sigma tau) (h := sigma); auto.
  Qed.

  Lemma fold_layers_iso : forall (F F' : graph -> layer -> graph),
    (forall g g' l, iso sigma tau g g' -> iso sigma tau (F g l) (F' g' (layer_map sigma l))) ->
    forall ls g g', iso sigma tau g g' ->
      iso sigma tau (fold_left F ls g) (fold_left F' (map (layer_map sigma) ls) g').
  Proof.
    intros F F' K ls g g' H.
    apply fold_left_rel with (R := iso sigma tau) (h := layer_map sigma); auto.
  Qed.

  (* ---------- 1. reads ---------- *)
  Lemma nW_iso : forall g g' n, iso sigma tau g g' -> nW g' (sigma n) = nW g n.
  Proof. intros g g' n H. unfold nW. apply (iso_n_w H). Qed.
  Lemma nH_iso : forall g g' n, iso sigma tau g g' -> nH g' (sigma n) = nH g n.
  Proof. intros g g' n H. unfold nH. apply (iso_n_h H). Qed.
  Lemma nX_iso : forall g g' n, iso sigma tau g g' -> nX g' (sigma n) = nX g n.
  Proof. intros g g' n H. unfold nX. apply (iso_n_x H). Qed.
  Lemma nY_iso : forall g g' n, iso sigma tau g g' -> nY g' (sigma n) = nY g n.
  Proof. intros g g' n H. unfold nY. apply (iso_n_y H). Qed.

  Lemma layer_width_iso : forall g g' spacing ns acc, iso sigma tau g g' ->
    layer_width g' spacing (map sigma ns) acc = layer_width g spacing ns acc.
  Proof.
    intros g g' spacing ns acc H. revert acc.
    induction ns as [|n t IH]; intros acc; [reflexivity|].
    destruct t as [|m t'].
    - cbn [map layer_width]. rewrite (nW_iso _ _ n H). reflexivity.
    - change (map sigma (n :: m :: t')) with (sigma n :: map sigma (m :: t')).
      change (map sigma (m :: t')) with (sigma m :: map sigma t') at 1.
      cbn [layer_width].
      change (sigma m :: map sigma t') with (map sigma (m :: t')).
      rewrite (nW_iso _ _ n H). apply IH.
  Qed.

  Lemma layer_height_iso : forall g g' ns h0, iso sigma tau g g' ->
    layer_height g' (map sigma ns) h0 = layer_height g ns h0.
  Proof.
    intros g g' ns h0 H. unfold layer_height. symmetry.
    apply fold_left_rel with (R := @eq Q) (h := sigma); auto.
    intros a b n _ E. subst b. rewrite (nH_iso _ _ n H). reflexivity.
  Qed.

  (* ---------- 2. assignYCoords ---------- *)
  Theorem assign_y_iso : forall spacing g g', iso sigma tau g g' ->
    iso sigma tau (assign_y spacing g) (assign_y spacing g').
  Proof.
    intros spacing g g' H. unfold assign_y. rewrite (iso_L H).
    match goal with |- iso _ _ (fst ?a) (fst ?b) =>
      cut (iso sigma tau (fst a) (fst b) /\ snd a = snd b); [tauto|] end.
    apply fold_left_rel with
      (R := fun (a a' : graph * Q) => iso sigma tau (fst a) (fst a') /\ snd a = snd a') (h := layer_map sigma).
    - cbn [fst snd]. auto.
    - intros [a y] [b y'] l _ [Hab Ey]. cbn [fst snd] in *. subst y'. split; [|reflexivity].
      cbn [l_nodes layer_map]. apply fold_nodes_iso; auto.
      intros. apply iso_set_y; auto.
  Qed.

  (* ---------- 3. VAlign ---------- *)
  Lemma place_from_iso : forall spacing ns g g' pos, iso sigma tau g g' ->
    iso sigma tau (place_from g spacing ns pos) (place_from g' spacing (map sigma ns) pos).
  Proof.
    intros spacing ns. induction ns as [|n t IH]; intros g g' pos H; [exact H|].
    cbn [map place_from]. rewrite (nW_iso _ _ n H). apply IH. apply iso_set_x; auto.
  Qed.

  Theorem exec_valign_iso : forall spacing g g', iso sigma tau g g' ->
    iso sigma tau (exec_valign spacing g) (exec_valign spacing g').
  Proof.
    intros spacing g g' H. unfold exec_valign.
    set (ls := map (fun l => set_layer_wh (layer_width g spacing (l_nodes l) 0) (layer_height g (l_nodes l) 0) l) (g_L g)).
    assert (E : map (fun l => set_layer_wh (layer_width g' spacing (l_nodes l) 0) (layer_height g' (l_nodes l) 0) l) (g_L g')
                = map (layer_map sigma) ls).
    { unfold ls. rewrite (iso_L H). rewrite !map_map. apply map_ext. intros l.
      cbn [l_nodes layer_map]. rewrite (layer_width_iso _ _ _ _ _ H), (layer_height_iso _ _ _ _ H). reflexivity. }
    rewrite E.
    assert (EM : fold_left (fun m l => Qmax' m (l_w l)) (map (layer_map sigma) ls) 0%Q
               = fold_left (fun m l => Qmax' m (l_w l)) ls 0%Q).
    { symmetry. apply fold_left_rel with (R := @eq Q) (h := layer_map sigma); auto.
      intros a b l _ Eab. subst b. reflexivity. }
    rewrite EM.
    set (maxW := fold_left (fun m l => Qmax' m (l_w l)) ls 0%Q).
    apply fold_layers_iso.
    - intros a a' l Ha. cbn [l_nodes l_w layer_map]. apply place_from_iso; auto.
    - apply iso_with_L; auto.
      intros l n Hl Hn. unfold ls in Hl. apply in_map_iff in Hl. destruct Hl as [l0 [El Hl0]]. subst l.
      cbn [l_nodes set_layer_wh] in Hn. eapply (iso_L_lt H); eauto.
  Qed.

  (* ---------- 4. PackRight ---------- *)
  Lemma pack_back_iso : forall spacing ns g g' x, iso sigma tau g g' ->
    iso sigma tau (fst (pack_back g spacing ns x)) (fst (pack_back g' spacing (map sigma ns) x)) /\
    snd (pack_back g spacing ns x) = snd (pack_back g' spacing (map sigma ns) x).
  Proof.
    intros spacing ns. induction ns as [|n t IH]; intros g g' x H.
    - cbn. auto.
    - cbn [map pack_back]. rewrite (nW_iso _ _ n H). apply IH. apply iso_set_x; auto.
  Qed.

  Lemma set_layer_h_iso : forall g g' l, iso sigma tau g g' ->
    set_layer_h (layer_height g' (l_nodes (layer_map sigma l)) (l_h (layer_map sigma l))) (layer_map sigma l) =
    layer_map sigma (set_layer_h (layer_height g (l_nodes l) (l_h l)) l).
  Proof.
    intros g g' l H. cbn [l_nodes l_h layer_map]. rewrite (layer_height_iso _ _ _ _ H). reflexivity.
  Qed.

  Lemma relayer_h_iso : forall g g', iso sigma tau g g' ->
    iso sigma tau (with_L g (map (fun l => set_layer_h (layer_height g (l_nodes l) (l_h l)) l) (g_L g)))
                  (with_L g' (map (fun l => set_layer_h (layer_height g' (l_nodes l) (l_h l)) l) (g_L g'))).
  Proof.
    intros g g' H. apply iso_map_layers_attr; auto.
    intros l _. apply set_layer_h_iso; auto.
  Qed.

  Theorem exec_pack_right_iso : forall spacing g g', iso sigma tau g g' ->
    iso sigma tau (exec_pack_right spacing g) (exec_pack_right spacing g').
  Proof.
    intros spacing g g' H. unfold exec_pack_right.
    assert (P : let F := (fun (acc : graph * Q) l =>
                                 let '(g, lb) := acc in
                                 let '(g, x) := pack_back g spacing (rev (l_nodes l)) 0 in
                                 (g, Qmin' lb x)) in
                iso sigma tau (fst (fold_left F (g_L g) (g, 0%Q))) (fst (fold_left F (g_L g') (g', 0%Q))) /\
                snd (fold_left F (g_L g) (g, 0%Q)) = snd (fold_left F (g_L g') (g', 0%Q))).
    { intros F. rewrite (iso_L H).
      apply fold_left_rel with
        (R := fun (a a' : graph * Q) => iso sigma tau (fst a) (fst a') /\ snd a = snd a') (h := layer_map sigma).
      - cbn [fst snd]. auto.
      - intros [a y] [b y'] l _ [Hab Ey]. cbn [fst snd] in *. subst y'. unfold F.
        cbn [l_nodes layer_map]. rewrite <- map_rev.
        destruct (pack_back_iso spacing (rev (l_nodes l)) _ _ 0%Q Hab) as [P1 P2].
        destruct (pack_back a spacing (rev (l_nodes l)) 0) as [a1 x1].
        destruct (pack_back b spacing (map sigma (rev (l_nodes l))) 0) as [b1 x2].
        cbn [fst snd] in *. subst x2. auto. }
    cbv zeta in P.
    destruct (fold_left _ (g_L g) (g, 0%Q)) as [g1 lb].
    destruct (fold_left _ (g_L g') (g', 0%Q)) as [g1' lb'].
    cbn [fst snd] in P. destruct P as [H1 Elb]. subst lb'.
    apply relayer_h_iso.
    rewrite (iso_L H1).
    apply fold_layers_iso; auto.
    intros a a' l Ha. cbn [l_nodes layer_map]. apply fold_nodes_iso; auto.
    intros b b' n Hb. apply iso_move_x with (k := fun x => (x - lb)%Q). auto.
  Qed.

  (* ---------- 5. NetworkSimplex positioner ---------- *)
  Lemma omega_iso : forall g g' e, iso sigma tau g g' -> e < length (g_ea g) -> omega g' (tau e) = omega g e.
  Proof.
    intros g g' e H L. unfold omega. rewrite (iso_e_from H L), (iso_e_to H L). rewrite !(iso_n_virt H). reflexivity.
  Qed.

  Lemma p4idx_iso : forall g g' n, iso sigma tau g g' -> p4idx g' (sigma n) = p4idx g n.
  Proof.
    intros g g' n H. unfold p4idx. rewrite (iso_N H). rewrite (index_of_map (iso_sinj H)). reflexivity.
  Qed.

  Lemma aux_base_iso : forall g g', iso sigma tau g g' -> aux_base g' = aux_base g.
  Proof.
    intros g g' H. unfold aux_base. rewrite (iso_N_length H). f_equal.
    rewrite (iso_N H). rewrite map_map. apply map_ext. intros n.
    rewrite (nW_iso _ _ n H), (nH_iso _ _ n H). reflexivity.
  Qed.

  Lemma aux_step1_iso : forall factor g g' a e, iso sigma tau g g' -> e < length (g_ea g) ->
    aux_step1 factor g' a (tau e) = aux_step1 factor g a e.
  Proof.
    intros factor g g' a e H L. unfold aux_step1.
    rewrite (iso_self_loop H L), (iso_is_flat H L), (iso_e_weight H L), (omega_iso _ _ _ H L).
    rewrite (iso_e_from H L), (iso_e_to H L). rewrite !(p4idx_iso _ _ _ H). reflexivity.
  Qed.

  Lemma aux_step2n_iso : forall spacing g g' acc n, iso sigma tau g g' ->
    aux_step2n spacing g' (fst acc, option_map sigma (snd acc)) (sigma n) =
    (fst (aux_step2n spacing g acc n), option_map sigma (snd (aux_step2n spacing g acc n))).
  Proof.
    intros spacing g g' [a [p|]] n H; unfold aux_step2n; cbn [fst snd option_map].
    - rewrite !(p4idx_iso _ _ _ H). rewrite !(nW_iso _ _ _ H). reflexivity.
    - reflexivity.
  Qed.

  Lemma aux_step2_iso : forall spacing g g' a l, iso sigma tau g g' ->
    aux_step2 spacing g' a (layer_map sigma l) = aux_step2 spacing g a l.
  Proof.
    intros spacing g g' a l H. unfold aux_step2. cbn [l_nodes layer_map].
    match goal with |- fst ?x = fst ?y =>
      cut (fst y = fst x /\ option_map sigma (snd y) = snd x); [intros [E _]; symmetry; exact E|] end.
    apply fold_left_rel with
      (R := fun (u u' : graph * option nat) => fst u = fst u' /\ option_map sigma (snd u) = snd u') (h := sigma).
    - cbn. auto.
    - intros u u' n _ [E1 E2]. destruct u' as [a' p']. cbn [fst snd] in E1, E2. subst a' p'.
      rewrite (aux_step2n_iso spacing _ _ u n H). cbn [fst snd]. auto.
  Qed.

  Theorem aux_graph_iso : forall factor spacing g g', iso sigma tau g g' ->
    aux_graph factor spacing g' = aux_graph factor spacing g.
  Proof.
    intros factor spacing g g' H. rewrite !aux_graph_steps.
    rewrite (iso_L H), (iso_E H), (aux_base_iso _ _ H).
    symmetry.
    apply fold_left_rel with (R := @eq graph) (h := layer_map sigma).
    - apply fold_left_rel with (R := @eq graph) (h := tau); auto.
      intros a b e He E. subst b. symmetry. apply aux_step1_iso; auto. apply (iso_E_lt H). exact He.
    - intros a b l _ E. subst b. symmetry. apply aux_step2_iso; auto.
  Qed.


  Lemma ns_finish_iso : forall (xs : list nat) g2 g2', iso sigma tau g2 g2' ->
    res_rel (iso sigma tau)
      (match xs with
       | [] => Ok g2
       | n0 :: _ =>
           let lbound := fold_left (fun m n => Qmin' m (nX g2 n)) xs (nX g2 n0) in
           Ok (fold_left (fun g n => upd_node g n (fun nd => set_x (n_x nd - lbound)%Q nd)) (g_N g2) g2)
       end)
      (match map sigma xs with
       | [] => Ok g2'
       | n0 :: _ =>
           let lbound := fold_left (fun m n => Qmin' m (nX g2' n)) (map sigma xs) (nX g2' n0) in
           Ok (fold_left (fun g n => upd_node g n (fun nd => set_x (n_x nd - lbound)%Q nd)) (g_N g2') g2')
       end).
  Proof.
    intros xs g2 g2' H2. rewrite (iso_N H2). destruct xs as [|n0 t]; [apply rr_ok; exact H2|].
    change (map sigma (n0 :: t)) with (sigma n0 :: map sigma t) at 1. cbv iota zeta.
    assert (EL : fold_left (fun m n => Qmin' m (nX g2' n)) (map sigma (n0 :: t)) (nX g2' (sigma n0))
               = fold_left (fun m n => Qmin' m (nX g2 n)) (n0 :: t) (nX g2 n0)).
    { symmetry. apply fold_left_rel with (R := @eq Q) (h := sigma).
      - symmetry. apply nX_iso; auto.
      - intros u v n _ E. subst v. rewrite (nX_iso _ _ n H2). reflexivity. }
    rewrite EL. set (lb := fold_left _ (n0 :: t) (nX g2 n0)).
    apply rr_ok. apply fold_nodes_iso; auto.
    intros b b' n Hb. apply iso_move_x with (k := fun x => (x - lb)%Q). auto.
  Qed.

  Theorem exec_ns_positioner_iso : forall th factor spacing g g', iso sigma tau g g' ->
    res_rel (iso sigma tau) (exec_ns_positioner th factor spacing g) (exec_ns_positioner th factor spacing g').
  Proof.
    intros th factor spacing g g' H. unfold exec_ns_positioner.
    rewrite (aux_graph_iso factor spacing _ _ H), (iso_N_length H).
    destruct (assign_layers NetworkSimplex _ (aux_graph factor spacing g)) as [a|er]; cbn [bind]; [|apply rr_err].
    cbv zeta.
    pose proof (relayer_h_iso _ _ H) as H1.
    set (g1 := with_L g _) in *. set (g1' := with_L g' _) in *.
    assert (Exs : flat_map l_nodes (g_L g1') = map sigma (flat_map l_nodes (g_L g1))).
    { rewrite (iso_L H1). apply flat_map_map_comm. intros l _. reflexivity. }
    rewrite Exs. set (xs := flat_map l_nodes (g_L g1)).
    apply ns_finish_iso.
    apply fold_nodes_iso; auto.
    intros b b' n Hb. cbv beta.
    change (match index_of (sigma n) (g_N g') with Some i => i | None => 0 end) with (p4idx g' (sigma n)).
    rewrite (p4idx_iso _ _ n H), (nW_iso _ _ n Hb). apply iso_set_x; auto.
  Qed.

  (* ---------- 6. the driver ---------- *)
  Lemma phase4_iso_pre : forall alg p g g', iso sigma tau g g' ->
    (alg = SinkColoring ->
     res_rel (iso sigma tau) (exec_sink_coloring (node_spacing p) g) (exec_sink_coloring (node_spacing p) g')) ->
    res_rel (iso sigma tau) (phase4 alg p g) (phase4 alg p g').
  Proof.
    intros alg p g g' H Hsink. unfold phase4. rewrite (iso_N_length H).
    destruct (Nat.eqb (length (g_N g)) 1) eqn:E1.
    - rewrite (iso_N H). destruct (g_N g) as [|n t]; cbn [map]; apply rr_ok; auto.
      apply iso_upd_layer; auto.
      + intros l. rewrite (nW_iso _ _ n H), (nH_iso _ _ n H). reflexivity.
      + intros m Hm. cbn [l_nodes set_layer_wh] in Hm. unfold glayer in Hm.
        pose proof (iso_L_lt H) as RL.
        destruct (g_L g) as [|l0 ls]; cbn [nth] in Hm.
        * cbn in Hm. contradiction.
        * apply (RL l0); auto. left. reflexivity.
    - apply res_rel_bind with (R := iso sigma tau).
      + destruct alg.
        * apply rr_ok. apply exec_valign_iso; auto.
        * apply rr_ok. apply exec_pack_right_iso; auto.
        * apply Hsink. reflexivity.
        * apply exec_ns_positioner_iso; auto.
        * apply rr_ok. exact H.
      + intros x y Hxy. apply rr_ok. apply assign_y_iso; auto.
  Qed.

  Theorem phase4_iso_gen :
    (forall spacing g g', iso sigma tau g g' ->
       res_rel (iso sigma tau) (exec_sink_coloring spacing g) (exec_sink_coloring spacing g')) ->
    forall alg p g g', iso sigma tau g g' -> res_rel (iso sigma tau) (phase4 alg p g) (phase4 alg p g').
  Proof. intros Hsink alg p g g' H. apply phase4_iso_pre; auto. Qed.

End P4.

Print Assumptions assign_y_iso.
Print Assumptions exec_valign_iso.
Print Assumptions exec_pack_right_iso.
Print Assumptions aux_graph_iso.
Print Assumptions exec_ns_positioner_iso.
Print Assumptions phase4_iso_gen.
