(* RenumberPhase5.v — equivariance of phase 5 (long-edge merging and edge routing) under renumbering of arena
   indices: edge_type, ordered_nodes, arr_remove, reduce_forward, merge_loop, merge_long_edges, the route point
   functions (index-free values: plain equality) and phase5 itself. *)
From Autog Require Import Base Graph Populate Phase4 Phase5.
From Autog.Proofs Require Import ListLemmas RenumberBase.
Local Open Scope nat_scope.

(* the renaming of a route: (edge, node path) *)
Definition route_map (sigma tau : nat -> nat) (r : nat * list nat) : nat * list nat :=
  (tau (fst r), map sigma (snd r)).

(* every route's edge is below n (the edge arena length, constant in phase 5) and its node path is non-empty *)
Definition routes_ok (n : nat) (routes : list (nat * list nat)) : Prop :=
  forall r, In r routes -> fst r < n /\ snd r <> [].

(* the arrays of the merge state only contain edges of the arena *)
Definition mst_ok (s : mst) : Prop := forall e, In e (m_arr s) -> e < length (g_ea (m_g s)).

Section P5.
  Variables sigma tau : nat -> nat.

  (* ---------- 1. edge_type, ordered_nodes, arr_remove ---------- *)
  Lemma edge_type_iso : forall g g' e, iso sigma tau g g' -> e < length (g_ea g) ->
    edge_type g' (tau e) = edge_type g e.
  Proof.
    intros g g' e H L. unfold edge_type.
    rewrite (iso_e_from H), (iso_e_to H) by auto. rewrite !(iso_n_virt H). reflexivity.
  Qed.

  Lemma ordered_nodes_iso : forall g g' e, iso sigma tau g g' -> e < length (g_ea g) ->
    ordered_nodes g' (tau e) = (sigma (fst (ordered_nodes g e)), sigma (snd (ordered_nodes g e))).
  Proof.
    intros g g' e H L. unfold ordered_nodes.
    rewrite (iso_e_from H), (iso_e_to H) by auto. rewrite !(iso_layer_of H), !(iso_n_pos H).
    destruct (Z.ltb (layer_of g (e_from (gedge g e))) (layer_of g (e_to (gedge g e)))); [reflexivity|].
    destruct (Z.ltb (layer_of g (e_to (gedge g e))) (layer_of g (e_from (gedge g e)))); [reflexivity|].
    destruct (Z.ltb (n_pos (gnode g (e_from (gedge g e)))) (n_pos (gnode g (e_to (gedge g e))))); reflexivity.
  Qed.

  Lemma arr_remove_map : forall arr len f, inj tau ->
    arr_remove (map tau arr) len (tau f) = (map tau (fst (arr_remove arr len f)), snd (arr_remove arr len f)).
  Proof.
    intros arr len f Ht. unfold arr_remove.
    rewrite firstn_map, (mem_nat_map Ht).
    destruct (mem_nat f (firstn len arr)); cbn [fst snd]; [|reflexivity].
    rewrite (remove_nat_map Ht), skipn_map, map_app. reflexivity.
  Qed.

  Lemma arr_remove_In : forall arr len f x, In x (fst (arr_remove arr len f)) -> In x arr.
  Proof.
    intros arr len f x. unfold arr_remove.
    destruct (mem_nat f (firstn len arr)); cbn [fst]; auto.
    intros K. apply in_app_or in K. destruct K as [K|K].
    - rewrite remove_nat_filter in K. apply filter_In in K. destruct K as [K _].
      rewrite <- (firstn_skipn len arr). apply in_or_app. left. exact K.
    - rewrite <- (firstn_skipn (len - 1) arr). apply in_or_app. right. exact K.
  Qed.

  Lemma firstn_In : forall (A : Type) n (l : list A) x, In x (firstn n l) -> In x l.
  Proof. intros A n l x K. rewrite <- (firstn_skipn n l). apply in_or_app. left. exact K. Qed.

  (* ---------- 2. the merge ---------- *)
  Definition mst_rel (s s' : mst) : Prop :=
    iso sigma tau (m_g s) (m_g s') /\ m_arr s' = map tau (m_arr s) /\ m_len s' = m_len s.


  Lemma reduce_forward_rel : forall f f' s s' e ns,
    mst_rel s s' -> mst_ok s -> e < length (g_ea (m_g s)) ->
    res_rel (fun r r' => mst_rel (fst r) (fst r') /\ mst_ok (fst r) /\
                         length (g_ea (m_g (fst r))) = length (g_ea (m_g s)) /\
                         snd r' = map sigma (snd r) /\ snd r <> [])
      (reduce_forward f s e ns) (reduce_forward f' s' (tau e) (map sigma ns)).
  Proof.
    induction f as [|fu IH]; intros f' s s' e ns R K L; [apply rr_fuel_l|].
    destruct f' as [|fu']; [apply rr_fuel_r|].
    destruct s as [g arr len]. destruct s' as [g' arr' len'].
    destruct R as [H [Ea El]]. unfold mst_ok in K. cbn [m_g m_arr m_len] in *. subst arr' len'.
    cbn [reduce_forward m_g m_arr m_len].
    rewrite (iso_e_to H) by auto. set (to := e_to (gedge g e)).
    rewrite (iso_n_virt H), (iso_n_out H).
    destruct (n_virt (gnode g to)) eqn:V.
    - pose proof (iso_out_lt H to) as Ro.
      destruct (n_out (gnode g to)) as [|f [|f2 t]]; cbn [map]; try apply rr_err.
      assert (Lf : f < length (g_ea g)) by (apply Ro; left; auto).
      rewrite (iso_e_to H) by auto. set (v := e_to (gedge g f)).
      rewrite (arr_remove_map _ _ _ (iso_tinj H)).
      pose proof (arr_remove_In arr len f) as AI.
      destruct (arr_remove arr len f) as [arr1 len1]. cbn [fst snd] in *.
      rewrite firstn_map.
      change [sigma to] with (map sigma [to]). rewrite <- map_app.
      assert (H1 : iso sigma tau (upd_node g v (fun n => set_in (el_add e (el_remove f (n_in n))) n))
                     (upd_node g' (sigma v) (fun n => set_in (el_add (tau e) (el_remove (tau f) (n_in n))) n))).
      { apply iso_set_in with (k := fun l => el_add e (el_remove f l))
                              (k' := fun l => el_add (tau e) (el_remove (tau f) l)); auto.
        - rewrite (el_remove_map (iso_tinj H)), el_add_map. reflexivity.
        - intros x Hx. unfold el_add in Hx. apply in_app_or in Hx. destruct Hx as [Hx|[Hx|[]]].
          + unfold el_remove in Hx. rewrite remove_nat_filter in Hx. apply filter_In in Hx.
            eapply (iso_in_lt H). apply Hx.
          + subst x. exact L. }
      set (g1 := upd_node g v _) in *. set (g1' := upd_node g' (sigma v) _) in *.
      assert (H2 : iso sigma tau (upd_edge g1 e (fun ed => set_ends (e_from ed) v ed))
                     (upd_edge g1' (tau e) (fun ed => set_ends (e_from ed) (sigma v) ed))).
      { apply iso_upd_edge; [exact H1|reflexivity| |].
        - intros L1. cbn [e_from set_ends]. apply (iso_from_lt H1). exact L1.
        - intros _. cbn [e_to set_ends]. unfold g1. rewrite upd_node_na_length. apply (iso_to_lt H). exact Lf. }
      set (g2 := upd_edge g1 e _) in *. set (g2' := upd_edge g1' (tau e) _) in *.
      assert (E2 : length (g_ea g2) = length (g_ea g)).
      { unfold g2. rewrite upd_edge_ea_length. reflexivity. }
      assert (H3 : iso sigma tau (with_E g2 (firstn len1 arr1)) (with_E g2' (map tau (firstn len1 arr1)))).
      { apply iso_with_E; auto. intros x Hx. rewrite E2. apply K. apply AI. eapply firstn_In. exact Hx. }
      eapply res_rel_impl; [|apply IH].
      + cbn [m_g m_arr m_len with_E g_ea]. intros x y [R1 [R2 [R3 [R4 R5]]]].
        split; [exact R1|split; [exact R2|split; [|split; [exact R4|exact R5]]]]. rewrite R3. exact E2.
      + split; [|split]; cbn [m_g m_arr m_len]; auto.
      + unfold mst_ok. cbn [m_g m_arr m_len with_E g_ea]. intros x Hx. rewrite E2. apply K. apply AI. exact Hx.
      + cbn [m_g with_E g_ea]. rewrite E2. exact L.
    - rewrite (ordered_nodes_iso _ _ _ H L). destruct (ordered_nodes g e) as [u w]. cbn [fst snd].
      change [sigma to] with (map sigma [to]). rewrite <- map_app.
      set (l := ns ++ [to]).
      assert (Nl : l <> []).
      { unfold l. intro Q. apply app_eq_nil in Q. destruct Q as [_ Q]. discriminate Q. }
      apply rr_ok. cbn [fst snd m_g m_arr m_len].
      split; [|split; [|split; [|split]]].
      + split; [|split]; cbn [m_g m_arr m_len]; auto. apply iso_set_ahs_rev. exact H.
      + unfold mst_ok. cbn [m_g m_arr m_len]. intros x Hx. rewrite upd_edge_ea_length. apply K. exact Hx.
      + apply upd_edge_ea_length.
      + destruct l as [|n0 l0]; [reflexivity|]. cbn [map].
        change (sigma n0 :: map sigma l0) with (map sigma (n0 :: l0)).
        rewrite last_opt_map. destruct (last_opt (n0 :: l0)) as [nl|]; cbn [option_map]; [|reflexivity].
        rewrite !(eqb_inj (iso_sinj H)).
        destruct (Nat.eqb n0 w && Nat.eqb nl u); [|reflexivity].
        rewrite map_rev. reflexivity.
      + destruct l as [|n0 l0]; [congruence|].
        destruct (last_opt (n0 :: l0)) as [nl|]; [|discriminate].
        destruct (Nat.eqb n0 w && Nat.eqb nl u); [|discriminate].
        intro Q. apply (f_equal (@length nat)) in Q. rewrite rev_length in Q. discriminate Q.
  Qed.

  Lemma routes_ok_app : forall n routes r, routes_ok n routes -> fst r < n -> snd r <> [] ->
    routes_ok n (routes ++ [r]).
  Proof.
    intros n routes r Ro A B x Hx. apply in_app_or in Hx. destruct Hx as [Hx|[Hx|[]]].
    - apply Ro. exact Hx.
    - subst x. split; assumption.
  Qed.

  Lemma route_map_snoc : forall routes r,
    map (route_map sigma tau) routes ++ [route_map sigma tau r] = map (route_map sigma tau) (routes ++ [r]).
  Proof. intros. rewrite map_app. reflexivity. Qed.

  Lemma merge_loop_rel : forall n fu i s s' routes,
    mst_rel s s' -> mst_ok s -> length (g_ea (m_g s)) = n -> routes_ok n routes ->
    res_rel (fun r r' => mst_rel (fst r) (fst r') /\ snd r' = map (route_map sigma tau) (snd r) /\
                         length (g_ea (m_g (fst r))) = n /\ routes_ok n (snd r))
      (merge_loop fu i s routes) (merge_loop fu i s' (map (route_map sigma tau) routes)).
  Proof.
    intros n. induction fu as [|fu IH]; intros i s s' routes R K En Ro.
    - cbn [merge_loop]. apply rr_ok. cbn [fst snd]. auto.
    - destruct s as [g arr len]. destruct s' as [g' arr' len'].
      pose proof R as [H [Ea El]]. unfold mst_ok in K. cbn [m_g m_arr m_len] in *. subst arr' len'.
      cbn [merge_loop m_g m_arr m_len].
      rewrite nth_error_map'. destruct (nth_error arr i) as [e|] eqn:Ne; cbn [option_map].
      2: { apply rr_ok. cbn [fst snd m_g]. auto. }
      assert (L : e < length (g_ea g)) by (apply K; eapply nth_error_In; eauto).
      rewrite (edge_type_iso _ _ _ H L).
      destruct (edge_type g e).
      + rewrite (ordered_nodes_iso _ _ _ H L). destruct (ordered_nodes g e) as [u v]. cbn [fst snd].
        change (tau e, [sigma u; sigma v]) with (route_map sigma tau (e, [u; v])).
        rewrite route_map_snoc. apply IH.
        * split; [|split]; cbn [m_g m_arr m_len]; auto. apply iso_set_ahs_rev. exact H.
        * unfold mst_ok. cbn [m_g m_arr m_len]. intros x Hx. rewrite upd_edge_ea_length. apply K. exact Hx.
        * cbn [m_g]. rewrite upd_edge_ea_length. exact En.
        * apply routes_ok_app; cbn [fst snd]; auto. lia. discriminate.
      + rewrite (iso_e_from H) by auto. rewrite (iso_n_virt H).
        destruct (n_virt (gnode g (e_from (gedge g e)))).
        * apply IH; auto.
        * change [sigma (e_from (gedge g e))] with (map sigma [e_from (gedge g e)]).
          eapply res_rel_bind.
          -- apply reduce_forward_rel with (s := mkMst g arr len) (s' := mkMst g' (map tau arr) len); auto.
          -- cbn [m_g]. intros x y [R1 [R2 [R3 [R4 R5]]]]. rewrite R4.
             change (tau e, map sigma (snd x)) with (route_map sigma tau (e, snd x)).
             rewrite route_map_snoc. apply IH; auto.
             ++ lia.
             ++ apply routes_ok_app; cbn [fst snd]; auto. lia.
      + apply IH; auto.
  Qed.

  (* MAIN-1, with the range / non-emptiness invariant of the routes *)
  Theorem merge_long_edges_iso_strong : forall g g', iso sigma tau g g' ->
    res_rel (fun r r' => iso sigma tau (fst r) (fst r') /\ snd r' = map (route_map sigma tau) (snd r) /\
                         length (g_ea (fst r)) = length (g_ea g) /\ routes_ok (length (g_ea g)) (snd r))
      (merge_long_edges g) (merge_long_edges g').
  Proof.
    intros g g' H. unfold merge_long_edges.
    rewrite (iso_E_length H). rewrite (iso_E H).
    eapply res_rel_bind.
    - apply merge_loop_rel with (n := length (g_ea g)) (routes := []) (s := mkMst g (g_E g) (length (g_E g)))
                                (s' := mkMst g' (map tau (g_E g)) (length (g_E g))).
      + split; [|split]; cbn [m_g m_arr m_len]; auto.
      + unfold mst_ok. cbn [m_g m_arr]. apply (iso_E_lt H).
      + reflexivity.
      + intros r [].
    - intros x y [[R1 _] [R2 [R3 R4]]]. apply rr_ok. cbn [fst snd]. auto.
  Qed.

  Theorem merge_long_edges_iso : forall g g', iso sigma tau g g' ->
    res_rel (fun r r' => iso sigma tau (fst r) (fst r') /\
                         snd r' = map (fun r => (tau (fst r), map sigma (snd r))) (snd r))
      (merge_long_edges g) (merge_long_edges g').
  Proof.
    intros g g' H. eapply res_rel_impl; [|apply merge_long_edges_iso_strong; exact H].
    intros x y [R1 [R2 _]]. split; auto.
  Qed.

  (* ---------- 3. route points: index-free values ---------- *)
  Section Routes.
    Variables g g' : graph.
    Hypothesis H : iso sigma tau g g'.

    Lemma nX_iso : forall n, nX g' (sigma n) = nX g n.
    Proof. intros. unfold nX. apply (iso_n_x H). Qed.
    Lemma nY_iso : forall n, nY g' (sigma n) = nY g n.
    Proof. intros. unfold nY. apply (iso_n_y H). Qed.
    Lemma nW_iso : forall n, nW g' (sigma n) = nW g n.
    Proof. intros. unfold nW. apply (iso_n_w H). Qed.
    Lemma nH_iso : forall n, nH g' (sigma n) = nH g n.
    Proof. intros. unfold nH. apply (iso_n_h H). Qed.

    Lemma start_point_iso : forall n, start_point g' (sigma n) = start_point g n.
    Proof. intros. unfold start_point. rewrite nX_iso, nY_iso, nW_iso, nH_iso. reflexivity. Qed.

    Lemma end_point_iso : forall n, end_point g' (sigma n) = end_point g n.
    Proof. intros. unfold end_point. rewrite nX_iso, nY_iso, nW_iso. reflexivity. Qed.

    Lemma straight_iso : forall a b, straight g' (sigma a) (sigma b) = straight g a b.
    Proof. intros. unfold straight. rewrite start_point_iso, end_point_iso. reflexivity. Qed.

    Lemma flat_straight_iso : forall a b, flat_straight g' (sigma a) (sigma b) = flat_straight g a b.
    Proof. intros. unfold flat_straight. rewrite !nX_iso, !nY_iso, !nW_iso, !nH_iso. reflexivity. Qed.

    Lemma first_last_map : forall ns, ns <> [] ->
      first_last (map sigma ns) = (sigma (fst (first_last ns)), sigma (snd (first_last ns))).
    Proof.
      intros ns N. unfold first_last. cbn [fst snd]. rewrite last_opt_map.
      destruct ns as [|a t]; [congruence|]. cbn [map hd].
      destruct (last_opt (a :: t)) as [x|] eqn:E; cbn [option_map]; [reflexivity|].
      exfalso. clear N. revert a E. induction t as [|b t IH]; intros a E; [discriminate E|].
      apply (IH b). exact E.
    Qed.

    Lemma layer_h_of_iso : forall n, layer_h_of g' (sigma n) = layer_h_of g n.
    Proof. intros. unfold layer_h_of. rewrite (iso_layer_of H), (iso_glayer H). reflexivity. Qed.

    Lemma flat_non_consecutive_iso : forall e lh, e < length (g_ea g) ->
      flat_non_consecutive g' (tau e) lh = flat_non_consecutive g e lh.
    Proof.
      intros e lh L. unfold flat_non_consecutive.
      rewrite (iso_e_from H), (iso_e_to H) by auto.
      rewrite !(iso_n_pos H), !nX_iso, !nY_iso, !nW_iso, !nH_iso. reflexivity.
    Qed.

    Lemma flat_polyline_iso : forall e ns lh, e < length (g_ea g) -> ns <> [] ->
      flat_polyline g' (tau e) (map sigma ns) lh = flat_polyline g e ns lh.
    Proof.
      intros e ns lh L N. unfold flat_polyline.
      rewrite flat_non_consecutive_iso by auto.
      rewrite (iso_e_from H), (iso_e_to H) by auto. rewrite !(iso_n_pos H).
      rewrite (first_last_map _ N). destruct (first_last ns) as [a b]. cbn [fst snd].
      rewrite flat_straight_iso. reflexivity.
    Qed.

    Lemma route_straight_iso : forall e ns, e < length (g_ea g) -> ns <> [] ->
      route_straight g' (tau e) (map sigma ns) = route_straight g e ns.
    Proof.
      intros e ns L N. unfold route_straight.
      rewrite (first_last_map _ N). destruct (first_last ns) as [a b]. cbn [fst snd].
      rewrite (iso_is_flat H) by auto. rewrite flat_straight_iso, straight_iso. reflexivity.
    Qed.

    Lemma inner_map : forall ns, inner (map sigma ns) = map sigma (inner ns).
    Proof. intros. unfold inner. rewrite tl_map, removelast_map. reflexivity. Qed.

    Lemma route_polyline_iso : forall e ns, e < length (g_ea g) -> ns <> [] ->
      route_polyline g' (tau e) (map sigma ns) = route_polyline g e ns.
    Proof.
      intros e ns L N. unfold route_polyline.
      rewrite (first_last_map _ N). destruct (first_last ns) as [a b]. cbn [fst snd].
      rewrite (iso_is_flat H) by auto. rewrite (iso_e_from H) by auto.
      rewrite layer_h_of_iso, (flat_polyline_iso _ _ _ L N), map_length, straight_iso.
      rewrite inner_map.
      rewrite (forallb_map_comm sigma (fun n => n_virt (gnode g n)) (fun n => n_virt (gnode g' n)) (inner ns))
        by (intros x _; apply (iso_n_virt H)).
      rewrite (iso_e_pts H) by auto. rewrite start_point_iso, end_point_iso.
      rewrite map_map.
      rewrite (map_ext (fun x => (nX g' (sigma x) + nW g' (sigma x) / 2, nY g' (sigma x) + layer_h_of g' (sigma x) / 2)%Q)
                       (fun n => (nX g n + nW g n / 2, nY g n + layer_h_of g n / 2)%Q))
        by (intros x; rewrite nX_iso, nW_iso, nY_iso, layer_h_of_iso; reflexivity).
      reflexivity.
    Qed.

    Lemma ortho_legs_cons2 : forall gg half a b t,
      ortho_legs gg half (a :: b :: t) =
      [start_point gg a; (fst (start_point gg a), nY gg a + layer_h_of gg a + half)%Q;
       (fst (end_point gg b), snd (end_point gg b) - half)%Q; end_point gg b] ++ ortho_legs gg half (b :: t).
    Proof. reflexivity. Qed.

    Lemma ortho_legs_iso : forall half ns, ortho_legs g' half (map sigma ns) = ortho_legs g half ns.
    Proof.
      intros half ns. induction ns as [|a t IH]; [reflexivity|].
      destruct t as [|b t']; [reflexivity|].
      change (map sigma (a :: b :: t')) with (sigma a :: sigma b :: map sigma t').
      rewrite !ortho_legs_cons2.
      change (sigma b :: map sigma t') with (map sigma (b :: t')). rewrite IH.
      rewrite start_point_iso, end_point_iso, nY_iso, layer_h_of_iso. reflexivity.
    Qed.

    Lemma route_ortho_iso : forall ls e ns, e < length (g_ea g) -> ns <> [] ->
      route_ortho g' ls (tau e) (map sigma ns) = route_ortho g ls e ns.
    Proof.
      intros ls e ns L N. unfold route_ortho.
      rewrite (first_last_map _ N). destruct (first_last ns) as [a b]. cbn [fst snd].
      rewrite (iso_is_flat H) by auto. rewrite (iso_e_from H), (iso_e_to H) by auto.
      rewrite layer_h_of_iso, (flat_polyline_iso _ _ _ L N), !nX_iso, !nW_iso, straight_iso.
      rewrite (iso_e_pts H) by auto. rewrite ortho_legs_iso. reflexivity.
    Qed.
  End Routes.

  (* ---------- 4. phase 5 ---------- *)
  Theorem phase5_iso : forall alg ls g g', iso sigma tau g g' ->
    res_rel (iso sigma tau) (phase5 alg ls g) (phase5 alg ls g').
  Proof.
    intros alg ls g g' H. unfold phase5. rewrite (iso_N_length H).
    destruct (Nat.eqb (length (g_N g)) 1); [apply rr_ok; exact H|].
    eapply res_rel_bind; [apply merge_long_edges_iso_strong; exact H|].
    intros [g1 routes] [g1' routes'] [H1 [Er [El Ro]]]. cbn [fst snd] in *. subst routes'.
    set (n := length (g_ea g)) in *.
    set (I := fun a b : graph => iso sigma tau a b /\ length (g_ea a) = n).
    destruct alg; try (apply rr_ok; exact H1).
    - (* Straight *)
      apply rr_ok.
      enough (K : I (fold_left (fun g r => upd_edge g (fst r) (set_pts (route_straight g (fst r) (snd r)))) routes g1)
                    (fold_left (fun g r => upd_edge g (fst r) (set_pts (route_straight g (fst r) (snd r))))
                               (map (route_map sigma tau) routes) g1')) by apply K.
      apply fold_left_rel with (R := I); [split; auto|].
      intros a b r Hr [Ha La]. destruct (Ro r Hr) as [Lr Nr].
      unfold route_map. cbn [fst snd].
      rewrite (route_straight_iso _ _ Ha) by (auto; lia).
      split; [apply iso_set_pts; exact Ha|rewrite upd_edge_ea_length; exact La].
    - (* Polyline *)
      eapply res_rel_impl with (R := I); [intros x y K; apply K|].
      apply fold_left_rel with (R := res_rel I); [apply rr_ok; split; auto|].
      intros a b r Hr K. destruct (Ro r Hr) as [Lr Nr].
      destruct K as [a b [Ha La]|er|w b|a w]; cbn [bind]; try constructor.
      unfold route_map. cbn [fst snd].
      rewrite (route_polyline_iso _ _ Ha) by (auto; lia).
      destruct (route_polyline a (fst r) (snd r)) as [p|er]; cbn [bind]; [|apply rr_err].
      apply rr_ok. split; [apply iso_set_pts; exact Ha|rewrite upd_edge_ea_length; exact La].
    - (* Ortho *)
      apply rr_ok.
      enough (K : I (fold_left (fun g r => upd_edge g (fst r) (set_pts (route_ortho g ls (fst r) (snd r)))) routes g1)
                    (fold_left (fun g r => upd_edge g (fst r) (set_pts (route_ortho g ls (fst r) (snd r))))
                               (map (route_map sigma tau) routes) g1')) by apply K.
      apply fold_left_rel with (R := I); [split; auto|].
      intros a b r Hr [Ha La]. destruct (Ro r Hr) as [Lr Nr].
      unfold route_map. cbn [fst snd].
      rewrite (route_ortho_iso _ _ Ha) by (auto; lia).
      split; [apply iso_set_pts; exact Ha|rewrite upd_edge_ea_length; exact La].
  Qed.
End P5.

Print Assumptions merge_long_edges_iso.
Print Assumptions phase5_iso.

(* the non-emptiness premise of [first_last_map] cannot be dropped: [first_last] uses the default 0 on [] *)
Example first_last_map_needs_nonempty :
  first_last (map S []) <> (S (fst (first_last [])), S (snd (first_last []))).
Proof. cbv. discriminate. Qed.
