(* RenumberPipeline.v — R2..R6 assembled: every phase and the whole per-component pipeline are equivariant under
   renumbering of arena indices; the collected output is the same up to the renaming of indices. *)
From Autog Require Import Base Graph Populate Phase1 Phase2 Phase3 Phase4 Phase5 Layout CrossCount Wmedian Pipeline.
From Autog.Proofs Require Import ListLemmas RenumberBase RenumberPopulate RenumberCollect.
From Autog.Proofs Require RenumberPhase1 RenumberGreedy RenumberPhase2 RenumberNS1 RenumberNS2.
From Autog.Proofs Require RenumberBreak RenumberWm1 RenumberWm2 RenumberPhase4 RenumberSink RenumberPhase5.
From Autog.Proofs Require RenumberLen12 RenumberLen345.
Local Open Scope nat_scope.

Section Phases12.
  Variables sigma tau : nat -> nat.

  (* ---------- R2 ---------- *)
  Theorem phase1_iso : forall alg g g', iso sigma tau g g' ->
    res_rel (iso sigma tau) (phase1 alg g) (phase1 alg g').
  Proof.
    apply RenumberPhase1.phase1_iso_gen. intros g g' H. apply RenumberGreedy.exec_greedy_iso. exact H.
  Qed.

  (* ---------- R3 ---------- *)
  Definition gl_rel (r r' : graph * limlow) : Prop :=
    iso sigma tau (fst r) (fst r') /\ RenumberNS2.ll_rel sigma (snd r) (snd r').

  Theorem feasible_tree_iso : forall g g', iso sigma tau g g' ->
    res_rel gl_rel (feasible_tree g) (feasible_tree g').
  Proof.
    intros g g' H. unfold feasible_tree.
    eapply res_rel_bind with (R := iso sigma tau); [apply RenumberNS1.init_layers_iso; exact H|].
    intros g1 g1' H1.
    eapply res_rel_bind with (R := iso sigma tau); [apply RenumberNS1.feasible_loop_iso; exact H1|].
    intros g2 g2' H2.
    eapply res_rel_bind with (R := RenumberNS2.ll_rel sigma); [apply (RenumberNS2.set_stree_values_iso sigma tau); exact H2|].
    intros ll ll' HL. constructor. split; cbn [fst snd]; auto.
    apply RenumberNS2.set_cut_values_iso; auto.
  Qed.

  Theorem exec_network_simplex_capped_iso : forall p g g', iso sigma tau g g' ->
    res_rel (fun r r' => iso sigma tau (fst r) (fst r') /\ snd r = snd r')
            (exec_network_simplex_capped p g) (exec_network_simplex_capped p g').
  Proof.
    intros p g g' H. unfold exec_network_simplex_capped.
    eapply res_rel_bind; [apply feasible_tree_iso; exact H|].
    intros [g1 ll] [g1' ll'] [H1 HL]. cbn [fst snd] in H1, HL.
    rewrite (iso_N_length H1).
    eapply res_rel_bind; [apply RenumberNS2.pivot_loop_iso; eauto|].
    intros [[g2 ll2] c] [[g2' ll2'] c'] [H2 [HL2 Ec]]. cbn [fst snd] in H2, HL2, Ec. subst c'.
    assert (Hn : iso sigma tau (normalize g2) (normalize g2')) by (apply RenumberPhase2.normalize_iso; exact H2).
    destruct (Z.eqb (ns_balance p) 1).
    - cbn [bind]. constructor. cbn [fst snd]. split; auto. apply RenumberPhase2.vbalance_iso. exact Hn.
    - destruct (Z.eqb (ns_balance p) 2).
      + eapply res_rel_bind.
        * eapply res_rel_bind with (R := iso sigma tau); [apply RenumberNS2.hbalance_iso; eauto|].
          intros g3 g3' H3. constructor. apply RenumberPhase2.normalize_iso. exact H3.
        * intros g4 g4' H4. constructor. cbn [fst snd]. auto.
      + cbn [bind]. constructor. cbn [fst snd]. auto.
  Qed.

  Theorem exec_network_simplex_iso : forall p g g', iso sigma tau g g' ->
    res_rel (iso sigma tau) (exec_network_simplex p g) (exec_network_simplex p g').
  Proof.
    intros p g g' H. unfold exec_network_simplex.
    eapply res_rel_bind; [apply exec_network_simplex_capped_iso; exact H|].
    intros r r' [Hr _]. constructor. exact Hr.
  Qed.

  Theorem phase2_iso : forall alg p g g', iso sigma tau g g' ->
    res_rel (iso sigma tau) (phase2 alg p g) (phase2 alg p g').
  Proof.
    apply RenumberPhase2.phase2_iso_gen. intros p g g' H. apply exec_network_simplex_iso. exact H.
  Qed.
End Phases12.

Print Assumptions phase1_iso.
Print Assumptions phase2_iso.

(* ---------- R4, R5 ---------- *)
Section Phases345.
  Variables sigma tau : nat -> nat.

  Definition gx_rel {X : Type} (r r' : graph * X) : Prop := iso sigma tau (fst r) (fst r') /\ snd r = snd r'.

  Theorem phase3_wmedian_iso : forall maxiter g g', iso sigma tau g g' ->
    res_rel gx_rel (phase3_wmedian maxiter g) (phase3_wmedian maxiter g').
  Proof.
    intros maxiter g g' H. apply RenumberWm2.phase3_wmedian_iso; auto.
    intros a a' Ha. apply RenumberBreak.break_long_edges_iso. exact Ha.
  Qed.

  Theorem phase4_iso : forall alg p g g', iso sigma tau g g' ->
    res_rel (iso sigma tau) (phase4 alg p g) (phase4 alg p g').
  Proof.
    apply RenumberPhase4.phase4_iso_gen. intros sp g g' H. apply RenumberSink.exec_sink_coloring_iso. exact H.
  Qed.

  Theorem phase5_iso : forall alg ls g g', iso sigma tau g g' ->
    res_rel (iso sigma tau) (phase5 alg ls g) (phase5 alg ls g').
  Proof. intros. apply RenumberPhase5.phase5_iso. auto. Qed.
End Phases345.

Print Assumptions phase3_wmedian_iso.
Print Assumptions phase4_iso.
Print Assumptions phase5_iso.

(* ---------- R6: one component through the whole pipeline ---------- *)
Lemma res_rel_bind_eq : forall (A B C D : Type) (R : A -> B -> Prop) (S : C -> D -> Prop) a b f f',
  res_rel R a b -> (forall x y, a = Ok x -> b = Ok y -> R x y -> res_rel S (f x) (f' y)) ->
  res_rel S (bind a f) (bind b f').
Proof.
  intros A B C D R S a b f f' H K. destruct H; cbn.
  - apply K; auto.
  - constructor.
  - constructor.
  - constructor.
Qed.

Section Component.
  Variables sigma tau : nat -> nat.

  Theorem layout_component_iso : forall o g g', iso sigma tau g g' ->
    res_rel (@gx_rel sigma tau (option Z)) (layout_component o g) (layout_component o g').
  Proof.
    intros o g g' H. unfold layout_component.
    destruct (ignore_self_loops_iso H) as [H0 [Hdel Hlt]].
    destruct (ignore_self_loops g) as [g0 del] eqn:E0. destruct (ignore_self_loops g') as [g0' del'] eqn:E0'.
    cbn [fst snd] in H0, Hdel, Hlt. subst del'.
    eapply res_rel_bind_eq with (R := iso sigma tau); [apply phase1_iso; exact H0|].
    intros g1 g1' E1 _ H1. apply RenumberLen12.phase1_ea_length in E1.
    eapply res_rel_bind_eq with (R := iso sigma tau); [apply phase2_iso; exact H1|].
    intros g2 g2' E2 _ H2. apply RenumberLen12.phase2_ea_length in E2.
    eapply res_rel_bind_eq with (R := @gx_rel sigma tau (option Z)); [apply phase3_wmedian_iso; exact H2|].
    intros [g3 x] [g3' x'] E3 _ [H3 Ex]. cbn [fst snd] in H3, Ex. subst x'.
    apply RenumberLen345.phase3_wmedian_ea_le in E3. cbn [fst] in E3.
    eapply res_rel_bind_eq with (R := iso sigma tau); [apply phase4_iso; exact H3|].
    intros g4 g4' E4 _ H4. apply RenumberLen345.phase4_ea_length in E4.
    eapply res_rel_bind_eq with (R := iso sigma tau); [apply phase5_iso; exact H4|].
    intros g5 g5' E5 _ H5. apply RenumberLen345.phase5_ea_length in E5.
    constructor. split; cbn [fst snd]; auto.
    apply post_process_iso; auto.
    intros e He. specialize (Hlt e He). lia.
  Qed.

  (* explicit form: when both runs succeed (or fail without fuel exhaustion) *)
  Corollary layout_component_iso_ok : forall o g g' r x r' x', iso sigma tau g g' ->
    layout_component o g = Ok (r, x) -> layout_component o g' = Ok (r', x') ->
    iso sigma tau r r' /\ x' = x.
  Proof.
    intros o g g' r x r' x' H E E'. pose proof (layout_component_iso o g g' H) as K.
    rewrite E, E' in K. apply res_rel_ok_inv in K. destruct K as [K1 K2]. cbn [fst snd] in K1, K2. auto.
  Qed.

  (* the output records of the component: same up to renaming; rightmost extent equal *)
  Corollary layout_component_output_iso : forall o g g' r x r' x' shift, iso sigma tau g g' ->
    layout_component o g = Ok (r, x) -> layout_component o g' = Ok (r', x') ->
    collect_nodes (o_virtual o) shift r' = map (rename_onode sigma) (collect_nodes (o_virtual o) shift r) /\
    collect_edges shift r' = map (rename_oedge sigma) (collect_edges shift r) /\
    rightmost r' = rightmost r /\ x' = x.
  Proof.
    intros o g g' r x r' x' shift H E E'.
    destruct (layout_component_iso_ok o g g' r x r' x' H E E') as [K1 K2].
    split; [apply (collect_nodes_iso _ _ K1)|]. split; [apply (collect_edges_iso _ K1)|].
    split; [apply (rightmost_iso K1)|exact K2].
  Qed.
End Component.

Print Assumptions layout_component_iso.
Print Assumptions layout_component_output_iso.
