(* RenumberPopulate.v — R1, second half: the pre/post-processing steps of Model/Populate.v and Model/Layout.v are
   equivariant under renumbering: ignore_self_loops, restore_self_loops, unreverse_edges, post_process. *)
From Autog Require Import Base Graph Populate Layout.
From Autog.Proofs Require Import ListLemmas RenumberBase.
Local Open Scope nat_scope.
Set Implicit Arguments.

Section PopulateIso.
  Variables sigma tau : nat -> nat.

  Lemma in_remove_nat : forall x y l, In y (remove_nat x l) -> In y l.
  Proof. intros x y l K. rewrite remove_nat_filter in K. apply filter_In in K. apply K. Qed.

  Lemma self_loops_iso : forall g g', iso sigma tau g g' -> self_loops g' = map tau (self_loops g).
  Proof.
    intros g g' H. unfold self_loops. rewrite (iso_E H). apply filter_map_comm.
    intros e He. apply (iso_self_loop H). apply (iso_E_lt H). exact He.
  Qed.

  Lemma self_loops_lt : forall g g', iso sigma tau g g' -> forall e, In e (self_loops g) -> e < length (g_ea g).
  Proof. intros g g' H e K. unfold self_loops in K. apply filter_In in K. apply (iso_E_lt H). apply K. Qed.

  Theorem remove_self_loop_iso : forall g g' e, iso sigma tau g g' -> e < length (g_ea g) ->
    iso sigma tau (remove_self_loop g e) (remove_self_loop g' (tau e)).
  Proof.
    intros g g' e H L. unfold remove_self_loop.
    rewrite (iso_e_from H L), (iso_e_to H L).
    set (a := e_from (gedge g e)). set (b := e_to (gedge g e)).
    assert (H1 : iso sigma tau (upd_node g a (fun n => set_out (el_remove e (n_out n)) n))
                               (upd_node g' (sigma a) (fun n => set_out (el_remove (tau e) (n_out n)) n))).
    { apply iso_set_out with (k := el_remove e) (k' := el_remove (tau e)); auto.
      - apply el_remove_map. apply (iso_tinj H).
      - intros x Hx. apply in_remove_nat in Hx. eapply (iso_out_lt H). apply Hx. }
    set (g1 := upd_node g a _) in *. set (g1' := upd_node g' (sigma a) _) in *.
    assert (H2 : iso sigma tau (upd_node g1 b (fun n => set_in (el_remove e (n_in n)) n))
                               (upd_node g1' (sigma b) (fun n => set_in (el_remove (tau e) (n_in n)) n))).
    { apply iso_set_in with (k := el_remove e) (k' := el_remove (tau e)); auto.
      - apply el_remove_map. apply (iso_tinj H).
      - intros x Hx. apply in_remove_nat in Hx. eapply (iso_in_lt H1). apply Hx. }
    set (g2 := upd_node g1 b _) in *. set (g2' := upd_node g1' (sigma b) _) in *.
    change (g_E g') with (g_E g2'). change (g_E g) with (g_E g2).
    rewrite (iso_E H2). rewrite (el_remove_map (iso_tinj H)).
    apply iso_with_E; auto.
    intros x Hx. apply in_remove_nat in Hx. apply (iso_E_lt H2). exact Hx.
  Qed.

  Lemma remove_self_loop_ea_length : forall g e, length (g_ea (remove_self_loop g e)) = length (g_ea g).
  Proof. reflexivity. Qed.

  Theorem ignore_self_loops_iso : forall g g', iso sigma tau g g' ->
    iso sigma tau (fst (ignore_self_loops g)) (fst (ignore_self_loops g')) /\
    snd (ignore_self_loops g') = map tau (snd (ignore_self_loops g)) /\
    (forall e, In e (snd (ignore_self_loops g)) -> e < length (g_ea (fst (ignore_self_loops g)))).
  Proof.
    intros g g' H. unfold ignore_self_loops. cbn [fst snd].
    rewrite (self_loops_iso H). split; [|split].
    - apply fold_edges_iso; auto.
      + apply (self_loops_lt H).
      + intros. split; [apply remove_self_loop_iso; auto|reflexivity].
    - reflexivity.
    - intros e He.
      assert (E : forall l g0, length (g_ea (fold_left remove_self_loop l g0)) = length (g_ea g0)).
      { induction l as [|x t IH]; cbn; intros g0; auto. rewrite IH. reflexivity. }
      rewrite E. apply (self_loops_lt H). exact He.
  Qed.

  Theorem restore_self_loop_iso : forall g g' e, iso sigma tau g g' -> e < length (g_ea g) ->
    iso sigma tau (restore_self_loop g e) (restore_self_loop g' (tau e)).
  Proof.
    intros g g' e H L. unfold restore_self_loop.
    rewrite (iso_e_from H L), (iso_e_to H L).
    set (a := e_from (gedge g e)). set (b := e_to (gedge g e)).
    assert (H1 : iso sigma tau (upd_node g a (fun n => set_out (el_add e (n_out n)) n))
                               (upd_node g' (sigma a) (fun n => set_out (el_add (tau e) (n_out n)) n))).
    { apply iso_set_out with (k := el_add e) (k' := el_add (tau e)); auto.
      - apply el_add_map.
      - intros x Hx. unfold el_add in Hx. apply in_app_or in Hx. destruct Hx as [Hx|[Hx|[]]].
        + eapply (iso_out_lt H); eauto.
        + subst x. exact L. }
    set (g1 := upd_node g a _) in *. set (g1' := upd_node g' (sigma a) _) in *.
    assert (L1 : e < length (g_ea g1)) by exact L.
    assert (H2 : iso sigma tau (upd_node g1 b (fun n => set_in (el_add e (n_in n)) n))
                               (upd_node g1' (sigma b) (fun n => set_in (el_add (tau e) (n_in n)) n))).
    { apply iso_set_in with (k := el_add e) (k' := el_add (tau e)); auto.
      - apply el_add_map.
      - intros x Hx. unfold el_add in Hx. apply in_app_or in Hx. destruct Hx as [Hx|[Hx|[]]].
        + eapply (iso_in_lt H1); eauto.
        + subst x. exact L1. }
    set (g2 := upd_node g1 b _) in *. set (g2' := upd_node g1' (sigma b) _) in *.
    change (g_E g') with (g_E g2'). change (g_E g) with (g_E g2).
    rewrite (iso_E H2). rewrite el_add_map.
    apply iso_with_E; auto.
    intros x Hx. unfold el_add in Hx. apply in_app_or in Hx. destruct Hx as [Hx|[Hx|[]]].
    - apply (iso_E_lt H2). exact Hx.
    - subst x. exact L.
  Qed.

  Theorem restore_self_loops_iso : forall del g g', iso sigma tau g g' ->
    (forall e, In e del -> e < length (g_ea g)) ->
    iso sigma tau (restore_self_loops g del) (restore_self_loops g' (map tau del)).
  Proof.
    intros del g g' H R. unfold restore_self_loops. apply fold_edges_iso; auto.
    intros. split; [apply restore_self_loop_iso; auto|reflexivity].
  Qed.

  Lemma restore_self_loops_ea_length : forall del g, length (g_ea (restore_self_loops g del)) = length (g_ea g).
  Proof. unfold restore_self_loops. induction del as [|x t IH]; cbn; intros g; auto. rewrite IH. reflexivity. Qed.

  Theorem unreverse_edges_iso : forall g g', iso sigma tau g g' ->
    iso sigma tau (unreverse_edges g) (unreverse_edges g').
  Proof.
    intros g g' H. unfold unreverse_edges. rewrite (iso_E H).
    apply fold_edges_iso with (F := fun g e => if e_rev (gedge g e) then reverse_edge g e else g)
                              (F' := fun g e => if e_rev (gedge g e) then reverse_edge g e else g); auto.
    - apply (iso_E_lt H).
    - intros g0 g0' e H0 L0. rewrite (iso_e_rev H0 L0).
      destruct (e_rev (gedge g0 e)).
      + split; [apply reverse_edge_iso; auto|apply reverse_edge_ea_length].
      + split; auto.
  Qed.

  Theorem post_process_iso : forall del g g', iso sigma tau g g' ->
    (forall e, In e del -> e < length (g_ea g)) ->
    iso sigma tau (post_process g del) (post_process g' (map tau del)).
  Proof.
    intros del g g' H R. unfold post_process. apply unreverse_edges_iso. apply restore_self_loops_iso; auto.
  Qed.
End PopulateIso.

Print Assumptions ignore_self_loops_iso.
Print Assumptions post_process_iso.
