(* RenumberSink.v — equivariance under renumbering of arena indices: Model/Phase4.v, the SinkColoring positioner
   (sc_crosses, candidate_edge, set_color, pb_fix / pb_sweep / place_block, exec_sink_coloring).
   Toolkit: Proofs/RenumberBase.v. Q values are compared with Leibniz equality. *)
From Autog Require Import Base Graph Phase2 Phase4.
From Autog.Proofs Require Import ListLemmas RenumberBase.
Local Open Scope nat_scope.

(* ---------- generic helpers ---------- *)
Definition prio_map (tau : nat -> nat) (p : list (Z * list nat)) : list (Z * list nat) :=
  map (fun q => (fst q, map tau (snd q))) p.

Lemma prio_get_map : forall tau p k, prio_get (prio_map tau p) k = map tau (prio_get p k).
Proof.
  intros tau p k. induction p as [|[a b] t IH]; cbn; auto.
  destruct (Z.eqb a k); auto.
Qed.

(* the option-valued scan of candidate_edge: the result is the initial value or a member of the list *)
Lemma fold_opt_in : forall (p : nat -> bool) l c e,
  fold_left (fun c f => if p f then Some f else c) l c = Some e -> c = Some e \/ In e l.
Proof.
  induction l as [|x t IH]; cbn; intros c e K; auto.
  apply IH in K. destruct K as [K|K]; auto.
  destruct (p x); auto. inversion K; auto.
Qed.

Section Sink.
  Variables sigma tau : nat -> nat.
  Variables g g' : graph.
  Hypothesis H : iso sigma tau g g'.

  (* ---------- 1. crossings, viability, candidate edge ---------- *)
  Lemma sc_crosses_iso : forall e f, e < length (g_ea g) -> f < length (g_ea g) ->
    sc_crosses g' (tau e) (tau f) = sc_crosses g e f.
  Proof.
    intros e f Le Lf. unfold sc_crosses.
    rewrite (iso_e_from H Le), (iso_e_to H Le), (iso_e_from H Lf), (iso_e_to H Lf).
    rewrite !(iso_layer_of H), !(iso_n_pos H). reflexivity.
  Qed.

  Lemma viable_iso : forall e, e < length (g_ea g) -> viable g' (tau e) = viable g e.
  Proof.
    intros e L. unfold viable. rewrite (iso_self_loop H L), (iso_is_flat H L). reflexivity.
  Qed.

  Lemma first_viable_iso : forall es, (forall e, In e es -> e < length (g_ea g)) ->
    first_viable g' (map tau es) = option_map tau (first_viable g es).
  Proof.
    induction es as [|e t IH]; cbn; intros R; auto.
    rewrite viable_iso by auto. destruct (viable g e); cbn; auto.
  Qed.

  Lemma candidate_edge_iso : forall n, candidate_edge g' (sigma n) = option_map tau (candidate_edge g n).
  Proof.
    intros n. unfold candidate_edge. rewrite (iso_n_in H).
    set (ins := n_in (gnode g n)).
    assert (R : forall e, In e ins -> e < length (g_ea g)).
    { intros e K. eapply (iso_in_lt H); eauto. }
    set (F := fun (c : option nat) f => if n_virt (gnode g (connected_node g f n)) then Some f else c).
    set (F' := fun (c : option nat) f => if n_virt (gnode g' (connected_node g' f (sigma n))) then Some f else c).
    assert (E : fold_left F' (map tau ins) None = option_map tau (fold_left F ins None)).
    { apply fold_left_rel with (R := fun c c' => c' = option_map tau c); auto.
      intros a b x Hx Hab. subst b. unfold F, F'.
      rewrite (iso_connected_node H) by auto. rewrite (iso_n_virt H).
      destruct (n_virt _); auto. }
    rewrite E.
    destruct (fold_left F ins None) as [e|] eqn:K; cbn [option_map].
    - assert (Le : e < length (g_ea g)).
      { apply fold_opt_in with (p := fun f => n_virt (gnode g (connected_node g f n))) in K.
        destruct K as [K|K]; [discriminate|auto]. }
      rewrite viable_iso by auto. destruct (viable g e); cbn; auto.
      apply first_viable_iso; auto.
    - apply first_viable_iso; auto.
  Qed.

  Lemma candidate_edge_lt : forall n e, candidate_edge g n = Some e -> e < length (g_ea g).
  Proof.
    intros n e. unfold candidate_edge.
    assert (FV : forall es x, first_viable g es = Some x -> In x es).
    { induction es as [|y t IH]; cbn; intros x K; [discriminate|].
      destruct (viable g y); [inversion K; auto|auto]. }
    intros K. apply (iso_in_lt H) with (n := n).
    destruct (fold_left _ _ None) as [c|] eqn:E.
    - apply fold_opt_in with (p := fun f => n_virt (gnode g (connected_node g f n))) in E.
      destruct E as [E|E]; [discriminate|].
      destruct (viable g c); [inversion K; subst; auto|apply FV; auto].
    - apply FV; auto.
  Qed.

  (* ---------- 2. the colouring state and set_color ---------- *)
  Definition sc_rel (s s' : scst) : Prop :=
    auxn_rel sigma (colors s) (colors s') /\ auxn_rel sigma (roots s) (roots s') /\
    prio s' = prio_map tau (prio s) /\
    length (colors s) = length (g_na g) /\ length (roots s) = length (g_na g) /\
    (forall k e, In e (prio_get (prio s) k) -> e < length (g_ea g)).

  Definition scres_rel (r r' : nat * Q * scst) : Prop :=
    fst (fst r') = sigma (fst (fst r)) /\ snd (fst r') = snd (fst r) /\ sc_rel (snd r) (snd r').

  Lemma nW_iso : forall n, nW g' (sigma n) = nW g n.
  Proof. intros. unfold nW. apply (iso_n_w H). Qed.

  Lemma nget_colors_iso : forall s s' n, sc_rel s s' -> n < length (g_na g) ->
    nget (colors s') (sigma n) = sigma (nget (colors s) n).
  Proof.
    intros s s' n (Hc & _ & _ & Lc & _) L. unfold nget. apply auxn_rel_nth; auto. lia.
  Qed.

  Lemma nget_roots_iso : forall s s' n, sc_rel s s' -> n < length (g_na g) ->
    nget (roots s') (sigma n) = sigma (nget (roots s) n).
  Proof.
    intros s s' n (_ & Hr & _ & _ & Lr & _) L. unfold nget. apply auxn_rel_nth; auto. lia.
  Qed.

  Lemma set_color_rel : forall f f' n s s', n < length (g_na g) -> sc_rel s s' ->
    res_rel scres_rel (set_color f g n s) (set_color f' g' (sigma n) s').
  Proof.
    induction f as [|f IH]; intros f' n s s' L Hs; [apply rr_fuel_l|].
    destruct f' as [|f']; [apply rr_fuel_r|].
    cbn [set_color].
    assert (Hbase : res_rel scres_rel (Ok (n, nW g n, s)) (Ok (sigma n, nW g' (sigma n), s'))).
    { constructor. split; [|split]; cbn [fst snd]; auto. apply nW_iso. }
    rewrite (nget_colors_iso _ _ _ Hs L), (eqb_inj (iso_sinj H)), (iso_n_in H), map_length.
    destruct (negb (Nat.eqb (nget (colors s) n) n) || Nat.eqb (length (n_in (gnode g n))) 0); auto.
    rewrite candidate_edge_iso.
    destruct (candidate_edge g n) as [e|] eqn:CE; cbn [option_map]; auto.
    assert (Le : e < length (g_ea g)) by (eapply candidate_edge_lt; eauto).
    rewrite (iso_connected_node H) by auto.
    set (m := connected_node g e n).
    assert (Lm : m < length (g_na g)) by (apply (iso_conn_lt H); auto).
    rewrite (nget_colors_iso _ _ _ Hs Lm), (eqb_inj (iso_sinj H)).
    destruct (negb (Nat.eqb (nget (colors s) m) m)); auto.
    rewrite (iso_layer_of H).
    destruct Hs as (Hc & Hr & Hp & Lc & Lr & Rp).
    rewrite Hp, prio_get_map.
    rewrite existsb_map_comm with (p := sc_crosses g e)
      by (intros x Hx; apply sc_crosses_iso; eauto).
    destruct (existsb _ _); [apply Hbase|].
    apply res_rel_bind with (R := scres_rel).
    - apply IH; auto. split; [|split; [|split; [|split; [|split]]]]; cbn [colors roots prio]; auto.
      + unfold prio_map. cbn [map fst snd]. rewrite map_app. reflexivity.
      + intros k x. cbn [prio_get]. destruct (Z.eqb (layer_of g n) k); [|apply Rp].
        intros K. apply in_app_or in K. destruct K as [K|[K|[]]]; [eapply Rp; eauto|subst; auto].
    - intros [[root rootw] s2] [[root' rootw'] s2'] (E1 & E2 & Hs2). cbn [fst snd] in E1, E2, Hs2. subst root' rootw'.
      destruct Hs2 as (Hc2 & Hr2 & Hp2 & Lc2 & Lr2 & Rp2).
      constructor. split; [|split]; cbn [fst snd]; auto.
      + rewrite nW_iso. reflexivity.
      + split; [|split; [|split; [|split; [|split]]]]; cbn [colors roots prio]; auto.
        * apply auxn_rel_set_nth; auto. apply (iso_sinj H).
        * apply auxn_rel_set_nth; auto. apply (iso_sinj H).
        * unfold set_nth. rewrite upd_length. auto.
        * unfold set_nth. rewrite upd_length. auto.
  Qed.

  (* the returned root is a node of the arena *)
  Lemma set_color_root_lt : forall f n s root rootw s2, n < length (g_na g) ->
    set_color f g n s = Ok (root, rootw, s2) -> root < length (g_na g).
  Proof.
    induction f as [|f IH]; intros n s root rootw s2 L; cbn [set_color]; [discriminate|].
    destruct (negb (Nat.eqb (nget (colors s) n) n) || Nat.eqb (length (n_in (gnode g n))) 0);
      [intros K; inversion K; subst; auto|].
    destruct (candidate_edge g n) as [e|] eqn:CE; [|intros K; inversion K; subst; auto].
    assert (Le : e < length (g_ea g)) by (eapply candidate_edge_lt; eauto).
    destruct (negb (Nat.eqb _ _)); [intros K; inversion K; subst; auto|].
    destruct (existsb _ _); [intros K; inversion K; subst; auto|].
    destruct (set_color f g (connected_node g e n) _) as [[[r w] s3]|er] eqn:SC; cbn [bind]; [|discriminate].
    intros K. inversion K; subst. eapply IH; [|eauto]. apply (iso_conn_lt H); auto.
  Qed.

  (* ---------- 3. placeBlock ---------- *)
  Definition rt_rel (rt rt' : list nat) : Prop := auxn_rel sigma rt rt' /\ length rt = length (g_na g).

  Lemma nget_rt_iso : forall rt rt' n, rt_rel rt rt' -> n < length (g_na g) ->
    nget rt' (sigma n) = sigma (nget rt n).
  Proof. intros rt rt' n [Hr Lr] L. unfold nget. apply auxn_rel_nth; auto. lia. Qed.

  Lemma qget_iso : forall l l' n, aux_rel sigma 0%Q l l' -> qget l' (sigma n) = qget l n.
  Proof. intros. unfold qget. apply aux_rel_nth; auto. Qed.

  Lemma bw_of_iso : forall bw bw' rt rt' n, aux_rel sigma 0%Q bw bw' -> rt_rel rt rt' -> n < length (g_na g) ->
    bw_of bw' rt' (sigma n) = bw_of bw rt n.
  Proof.
    intros bw bw' rt rt' n Hbw Hrt L. unfold bw_of. rewrite (nget_rt_iso _ _ _ Hrt L). apply qget_iso; auto.
  Qed.

  Definition st_rel (st st' : list Q * list Q * bool) : Prop :=
    aux_rel sigma 0%Q (fst (fst st)) (fst (fst st')) /\ aux_rel sigma 0%Q (snd (fst st)) (snd (fst st')) /\
    snd st' = snd st.

  Lemma pb_fix_rel : forall bw bw' rt rt' spacing a b st st',
    aux_rel sigma 0%Q bw bw' -> rt_rel rt rt' -> a < length (g_na g) -> b < length (g_na g) -> st_rel st st' ->
    st_rel (pb_fix bw rt spacing a b st) (pb_fix bw' rt' spacing (sigma a) (sigma b) st').
  Proof.
    intros bw bw' rt rt' spacing a b [[xc bm] sh] [[xc' bm'] sh'] Hbw Hrt La Lb (Hxc & Hbm & Hsh).
    cbn [fst snd] in Hxc, Hbm, Hsh. subst sh'. unfold pb_fix.
    rewrite (bw_of_iso _ _ _ _ _ Hbw Hrt La), !(qget_iso _ _ _ Hxc), (nget_rt_iso _ _ _ Hrt Lb).
    destruct (Qlt_bool _ _).
    - split; [|split]; cbn [fst snd]; auto.
      + apply aux_rel_set_nth; auto. apply (iso_sinj H).
      + apply aux_rel_upd; auto. apply (iso_sinj H).
    - split; [|split]; cbn [fst snd]; auto.
  Qed.

  Lemma pb_sweep_rel : forall bw bw' rt rt' spacing lmax st st',
    aux_rel sigma 0%Q bw bw' -> rt_rel rt rt' -> st_rel st st' ->
    st_rel (pb_sweep g bw rt spacing lmax st) (pb_sweep g' bw' rt' spacing lmax st').
  Proof.
    intros bw bw' rt rt' spacing lmax st st' Hbw Hrt Hst. unfold pb_sweep.
    apply fold_left_rel_same with (R := st_rel); auto.
    intros st1 st1' k _ Hst1. rewrite (iso_L H).
    apply fold_left_rel with (R := st_rel); auto.
    intros st2 st2' l Hl Hst2. cbv beta zeta. cbn [l_nodes layer_map]. rewrite map_length.
    set (ns := l_nodes l).
    assert (R : forall i, i < length ns -> nth i ns 0 < length (g_na g)).
    { intros i Li. apply (iso_L_lt H l); auto. apply nth_In. auto. }
    destruct (Nat.leb (length ns) k) eqn:E1; auto.
    apply Nat.leb_gt in E1.
    destruct (Nat.eqb k (length ns - 1) && Nat.ltb 0 k) eqn:E2.
    - rewrite !(nth_map_lt sigma ns 0 0) by lia. apply pb_fix_rel; auto; apply R; lia.
    - destruct (Nat.ltb k (length ns - 1)) eqn:E3; auto.
      apply Nat.ltb_lt in E3.
      rewrite !(nth_map_lt sigma ns 0 0) by lia. apply pb_fix_rel; auto; apply R; lia.
  Qed.

  Definition pb_init (g : graph) (bw : list Q) (rt : list nat) (bm xc : list Q) : list Q :=
    fold_left (fun xc n => let x := qget bm (nget rt n) in
                           set_nth xc n (Qmax' x (x + (bw_of bw rt n - nW g n) / 2)%Q)) (g_N g) xc.

  Lemma place_block_S : forall f g bw rt spacing lmax xc bm,
    place_block (S f) g bw rt spacing lmax xc bm =
    let '(xc, bm, sh) := pb_sweep g bw rt spacing lmax (pb_init g bw rt bm xc, bm, false) in
    if sh then place_block f g bw rt spacing lmax xc bm else Ok xc.
  Proof. reflexivity. Qed.

  Lemma pb_init_rel : forall bw bw' rt rt' bm bm' xc xc',
    aux_rel sigma 0%Q bw bw' -> rt_rel rt rt' -> aux_rel sigma 0%Q bm bm' -> aux_rel sigma 0%Q xc xc' ->
    aux_rel sigma 0%Q (pb_init g bw rt bm xc) (pb_init g' bw' rt' bm' xc').
  Proof.
    intros bw bw' rt rt' bm bm' xc xc' Hbw Hrt Hbm Hxc. unfold pb_init. rewrite (iso_N H).
    apply fold_left_rel with (R := aux_rel sigma 0%Q); auto.
    intros a b n Hn Hab. cbv beta zeta.
    assert (L : n < length (g_na g)) by (apply (iso_N_lt H); auto).
    rewrite (nget_rt_iso _ _ _ Hrt L), (qget_iso _ _ _ Hbm), (bw_of_iso _ _ _ _ _ Hbw Hrt L), nW_iso.
    apply aux_rel_set_nth; auto. apply (iso_sinj H).
  Qed.

  Lemma place_block_rel : forall bw bw' rt rt' spacing lmax fuel xc xc' bm bm',
    aux_rel sigma 0%Q bw bw' -> rt_rel rt rt' -> aux_rel sigma 0%Q xc xc' -> aux_rel sigma 0%Q bm bm' ->
    res_rel (aux_rel sigma 0%Q) (place_block fuel g bw rt spacing lmax xc bm)
                                (place_block fuel g' bw' rt' spacing lmax xc' bm').
  Proof.
    intros bw bw' rt rt' spacing lmax fuel. induction fuel as [|fu IH]; intros xc xc' bm bm' Hbw Hrt Hxc Hbm.
    - cbn [place_block]. apply rr_err.
    - rewrite !place_block_S.
      pose proof (pb_init_rel _ _ _ _ _ _ _ _ Hbw Hrt Hbm Hxc) as Hxc1.
      pose proof (pb_sweep_rel _ _ _ _ spacing lmax (pb_init g bw rt bm xc, bm, false)
                    (pb_init g' bw' rt' bm' xc', bm', false) Hbw Hrt (conj Hxc1 (conj Hbm eq_refl))) as Hsw.
      destruct (pb_sweep g bw rt spacing lmax _) as [[xc2 bm2] sh2].
      destruct (pb_sweep g' bw' rt' spacing lmax _) as [[xc2' bm2'] sh2'].
      destruct Hsw as (Hxc2 & Hbm2 & Hsh). cbn [fst snd] in Hxc2, Hbm2, Hsh. subst sh2'.
      destruct sh2; [apply IH; auto|constructor; auto].
  Qed.

  (* ---------- 4. exec_sink_coloring, stage by stage ---------- *)
  Definition rs_paint (g : graph) : res (scst * list Q) :=
    let na := length (g_na g) in
    fold_left (fun (acc : res (scst * list Q)) n =>
                 do a <- acc;
                 let '(s, bw) := a in
                 do r <- set_color (S na) g n s;
                 let '(_, w, s) := r in
                 Ok (s, upd bw (nget (roots s) n) (fun b => Qmax' b w)))
              (flat_map l_nodes (rev (g_L g))) (Ok (mkSc (iota 0 na) (iota 0 na) [], repeat 0%Q na)).

  Definition rs_pack (spacing : Q) (g : graph) (bw : list Q) (rt : list nat) : list Q :=
    fold_left (fun xc l =>
                  fst (fold_left (fun (acc : list Q * Q) n => let '(xc, x) := acc in
                                    (set_nth xc n x, (x + bw_of bw rt n + spacing)%Q)) (l_nodes l) (xc, 0%Q)))
                (g_L g) (repeat 0%Q (length (g_na g))).

  Definition rs_bm (g : graph) (rt : list nat) (xc : list Q) : list Q :=
    fold_left (fun bm n => upd bm (nget rt n) (fun m => Qmax' m (qget xc n))) (flat_map l_nodes (g_L g))
              (repeat 0%Q (length (g_na g))).

  Definition rs_lmax (g : graph) : nat := fold_left (fun m l => Nat.max m (length (l_nodes l))) (g_L g) 0.

  Definition rs_setx (g : graph) (xc : list Q) : graph :=
    fold_left (fun g l => fold_left (fun g n => upd_node g n (set_x (qget xc n))) (l_nodes l) g) (g_L g) g.

  Definition rs_finish (g : graph) (xc : list Q) : graph :=
    let g := rs_setx g xc in
    with_L g (map (fun l => set_layer_h (layer_height g (l_nodes l) (l_h l)) l) (g_L g)).

  Lemma exec_sink_coloring_eq : forall spacing g,
    exec_sink_coloring spacing g =
    (do r <- rs_paint g;
     let '(s, bw) := r in
     let rt := roots s in
     let xc := rs_pack spacing g bw rt in
     let bm := rs_bm g rt xc in
     do xc <- place_block (S (length (g_N g) * length (g_N g)) + 8) g bw rt spacing (rs_lmax g) xc bm;
     Ok (rs_finish g xc)).
  Proof. reflexivity. Qed.

  Definition paint_rel (a a' : scst * list Q) : Prop :=
    sc_rel (fst a) (fst a') /\ aux_rel sigma 0%Q (snd a) (snd a').

  Lemma flat_nodes_iso : forall ls,
    flat_map l_nodes (map (layer_map sigma) ls) = map sigma (flat_map l_nodes ls).
  Proof. intros ls. apply flat_map_map_comm. reflexivity. Qed.

  Lemma flat_nodes_lt : forall n, In n (flat_map l_nodes (g_L g)) -> n < length (g_na g).
  Proof.
    intros n K. apply in_flat_map in K. destruct K as [l [Hl Hn]]. eapply (iso_L_lt H); eauto.
  Qed.

  Lemma rs_paint_rel : res_rel paint_rel (rs_paint g) (rs_paint g').
  Proof.
    unfold rs_paint. rewrite (iso_L H), <- map_rev, flat_nodes_iso.
    apply fold_left_rel_res.
    - constructor. split; cbn [fst snd].
      + split; [|split; [|split; [|split; [|split]]]]; cbn [colors roots prio].
        * apply (auxn_rel_iota H).
        * apply (auxn_rel_iota H).
        * reflexivity.
        * apply iota_length.
        * apply iota_length.
        * intros k e [].
      + apply (aux_rel_repeat H).
    - intros a b n Hn Hab.
      assert (L : n < length (g_na g)).
      { apply in_flat_map in Hn. destruct Hn as [l [Hl Hn]]. apply in_rev in Hl. eapply (iso_L_lt H); eauto. }
      apply res_rel_bind with (R := paint_rel); auto.
      intros [s bw] [s' bw'] [Hs Hbw]. cbn [fst snd] in Hs, Hbw.
      apply res_rel_bind with (R := scres_rel).
      + apply set_color_rel; auto.
      + intros [[r0 w] s2] [[r0' w'] s2'] (_ & E & Hs2). cbn [fst snd] in E, Hs2. subst w'.
        constructor. split; cbn [fst snd]; auto.
        assert (Hrt : rt_rel (roots s2) (roots s2')).
        { destruct Hs2 as (_ & Hr & _ & _ & Lr & _). split; auto. }
        rewrite (nget_rt_iso _ _ _ Hrt L). apply aux_rel_upd; auto. apply (iso_sinj H).
  Qed.

  Lemma rs_pack_rel : forall spacing bw bw' rt rt', aux_rel sigma 0%Q bw bw' -> rt_rel rt rt' ->
    aux_rel sigma 0%Q (rs_pack spacing g bw rt) (rs_pack spacing g' bw' rt').
  Proof.
    intros spacing bw bw' rt rt' Hbw Hrt. unfold rs_pack. rewrite (iso_L H).
    apply fold_left_rel with (R := aux_rel sigma 0%Q); [apply (aux_rel_repeat H)|].
    intros xc xc' l Hl Hxc. cbn [l_nodes layer_map].
    match goal with |- aux_rel _ _ (fst ?a) (fst ?b) =>
      assert (X : aux_rel sigma 0%Q (fst a) (fst b) /\ snd b = snd a) end; [|exact (proj1 X)].
    apply fold_left_rel with (R := fun (a a' : list Q * Q) => aux_rel sigma 0%Q (fst a) (fst a') /\ snd a' = snd a).
    - split; auto.
    - intros [a x] [a' x'] n Hn [Ha Hx]. cbn [fst snd] in Ha, Hx. subst x'.
      assert (L : n < length (g_na g)) by (eapply (iso_L_lt H); eauto).
      split; cbn [fst snd].
      + apply aux_rel_set_nth; auto. apply (iso_sinj H).
      + rewrite (bw_of_iso _ _ _ _ _ Hbw Hrt L). reflexivity.
  Qed.

  Lemma rs_bm_rel : forall rt rt' xc xc', rt_rel rt rt' -> aux_rel sigma 0%Q xc xc' ->
    aux_rel sigma 0%Q (rs_bm g rt xc) (rs_bm g' rt' xc').
  Proof.
    intros rt rt' xc xc' Hrt Hxc. unfold rs_bm. rewrite (iso_L H), flat_nodes_iso.
    apply fold_left_rel with (R := aux_rel sigma 0%Q); [apply (aux_rel_repeat H)|].
    intros bm bm' n Hn Hbm.
    assert (L : n < length (g_na g)) by (apply flat_nodes_lt; auto).
    rewrite (nget_rt_iso _ _ _ Hrt L), (qget_iso _ _ _ Hxc).
    apply aux_rel_upd; auto. apply (iso_sinj H).
  Qed.

  Lemma rs_lmax_iso : rs_lmax g' = rs_lmax g.
  Proof.
    unfold rs_lmax. rewrite (iso_L H). symmetry.
    apply fold_left_rel with (R := fun (a b : nat) => a = b); auto.
    intros a b l _ E. subst b. cbn [l_nodes layer_map]. rewrite map_length. reflexivity.
  Qed.
End Sink.

Section SinkFinish.
  Variables sigma tau : nat -> nat.

  Lemma layer_height_iso_sink : forall g g' ns h0, iso sigma tau g g' ->
    layer_height g' (map sigma ns) h0 = layer_height g ns h0.
  Proof.
    intros g g' ns h0 H. unfold layer_height. symmetry.
    apply fold_left_rel with (R := fun (a b : Q) => a = b); auto.
    intros a b n _ E. subst b. unfold nH. rewrite (iso_n_h H). reflexivity.
  Qed.

  Lemma rs_setx_iso : forall g g' xc xc', iso sigma tau g g' -> aux_rel sigma 0%Q xc xc' ->
    iso sigma tau (rs_setx g xc) (rs_setx g' xc').
  Proof.
    intros g g' xc xc' H Hxc. unfold rs_setx. rewrite (iso_L H).
    apply fold_left_rel with (R := iso sigma tau); auto.
    intros a a' l _ Ha. cbn [l_nodes layer_map].
    apply fold_left_rel with (R := iso sigma tau); auto.
    intros b b' n _ Hb. rewrite (qget_iso sigma _ _ n Hxc). apply iso_set_x; auto.
  Qed.

  Lemma rs_finish_iso : forall g g' xc xc', iso sigma tau g g' -> aux_rel sigma 0%Q xc xc' ->
    iso sigma tau (rs_finish g xc) (rs_finish g' xc').
  Proof.
    intros g g' xc xc' H Hxc. unfold rs_finish. cbv zeta.
    pose proof (rs_setx_iso _ _ _ _ H Hxc) as H2.
    apply iso_map_layers_attr with (k := fun l => set_layer_h (layer_height (rs_setx g xc) (l_nodes l) (l_h l)) l); auto.
    intros l _. unfold set_layer_h, layer_map. cbn [l_nodes l_w l_h].
    rewrite (layer_height_iso_sink _ _ _ _ H2). reflexivity.
  Qed.

  (* ---------- MAIN ---------- *)
  Theorem exec_sink_coloring_iso : forall spacing g g', iso sigma tau g g' ->
    res_rel (iso sigma tau) (exec_sink_coloring spacing g) (exec_sink_coloring spacing g').
  Proof.
    intros spacing g g' H. rewrite !exec_sink_coloring_eq.
    apply res_rel_bind with (R := paint_rel sigma tau g); [apply rs_paint_rel; auto|].
    intros [s bw] [s' bw'] [Hs Hbw]. cbn [fst snd] in Hs, Hbw. cbv zeta.
    assert (Hrt : rt_rel sigma g (roots s) (roots s')).
    { destruct Hs as (_ & Hr & _ & _ & Lr & _). split; auto. }
    rewrite (iso_N_length H), (rs_lmax_iso _ _ _ _ H).
    pose proof (rs_pack_rel _ _ _ _ H spacing _ _ _ _ Hbw Hrt) as Hxc.
    pose proof (rs_bm_rel _ _ _ _ H _ _ _ _ Hrt Hxc) as Hbm.
    apply res_rel_bind with (R := aux_rel sigma 0%Q).
    - apply place_block_rel with (tau := tau); auto.
    - intros xc1 xc1' Hxc1. constructor. apply rs_finish_iso; auto.
  Qed.
End SinkFinish.

Print Assumptions exec_sink_coloring_iso.
Print Assumptions set_color_rel.
Print Assumptions set_color_root_lt.
Print Assumptions place_block_rel.
Print Assumptions candidate_edge_iso.
