(* RenumberWm1.v — equivariance under renumbering: the cross counter (Model/CrossCount.v) and the first part of
   Model/Wmedian.v (sort_layers, positions, swap_pos/swap_list, init_positions, transpose). *)
From Autog Require Import Base Graph Phase3 CrossCount Wmedian.
From Autog.Proofs Require Import ListLemmas RenumberBase.
Local Open Scope nat_scope.

(* ---------- 1. positions ---------- *)
Theorem pos_of_iso : forall sigma tau g g' n, iso sigma tau g g' -> pos_of g' (sigma n) = pos_of g n.
Proof. intros sigma tau g g' n H. unfold pos_of. apply (iso_n_pos H). Qed.

(* ---------- 2. the cross counter ---------- *)
Lemma cc_pairs_iso : forall sigma tau g g' ui li unodes, iso sigma tau g g' ->
  cc_pairs g' ui li (map sigma unodes) = cc_pairs g ui li unodes.
Proof.
  intros sigma tau g g' ui li unodes H. unfold cc_pairs.
  apply flat_map_map_same. intros n _.
  rewrite (iso_all_edges H). apply flat_map_map_same. intros e He.
  assert (L : e < length (g_ea g)) by (eapply (iso_all_lt H); eauto).
  cbv zeta. rewrite (iso_e_from H L), (iso_e_to H L).
  rewrite !(iso_layer_of H). rewrite !(fun n => pos_of_iso sigma tau g g' n H). reflexivity.
Qed.

Theorem count_crossings_iso : forall sigma tau g g' i j, iso sigma tau g g' ->
  count_crossings g' i j = count_crossings g i j.
Proof.
  intros sigma tau g g' i j H. unfold count_crossings.
  rewrite !(iso_glayer H). cbn [l_nodes layer_map]. rewrite !map_length.
  destruct (Nat.ltb (length (l_nodes (glayer g i))) 2 || Nat.ltb (length (l_nodes (glayer g j))) 2)%bool; auto.
  destruct (Nat.ltb (length (l_nodes (glayer g j))) (length (l_nodes (glayer g i))));
    rewrite (cc_pairs_iso sigma tau g g' _ _ _ H); rewrite !map_length; reflexivity.
Qed.

(* ---------- 3. crossing numbers ---------- *)
Theorem reported_crossings_iso : forall sigma tau g g', iso sigma tau g g' ->
  reported_crossings g' = reported_crossings g.
Proof.
  intros sigma tau g g' H. unfold reported_crossings. rewrite (iso_L_length H).
  apply fold_left_rel_same with (R := @eq Z); auto.
  intros a b x _ E. subst b. rewrite (count_crossings_iso sigma tau g g' _ _ H). reflexivity.
Qed.

Theorem crossings_around_iso : forall sigma tau g g' l, iso sigma tau g g' ->
  crossings_around g' l = crossings_around g l.
Proof.
  intros sigma tau g g' l H. unfold crossings_around. rewrite (iso_L_length H).
  rewrite !(count_crossings_iso sigma tau g g' _ _ H). reflexivity.
Qed.

(* ---------- 4. swaps ---------- *)
Theorem swap_pos_iso : forall sigma tau g g' v w, iso sigma tau g g' ->
  iso sigma tau (swap_pos g v w) (swap_pos g' (sigma v) (sigma w)).
Proof.
  intros sigma tau g g' v w H. unfold swap_pos. rewrite !(fun n => pos_of_iso sigma tau g g' n H).
  apply iso_set_pos. apply iso_set_pos. exact H.
Qed.

Theorem swap_list_map : forall (sigma : nat -> nat) l i j, i < length l -> j < length l ->
  swap_list (map sigma l) i j = map sigma (swap_list l i j).
Proof.
  intros sigma l i j Li Lj. unfold swap_list.
  rewrite (nth_map_lt sigma l 0 0 Li), (nth_map_lt sigma l 0 0 Lj).
  rewrite !set_nth_map. reflexivity.
Qed.

Lemma swap_list_length : forall l i j, length (swap_list l i j) = length l.
Proof. intros. unfold swap_list, set_nth. rewrite !upd_length. reflexivity. Qed.

Lemma In_set_nth : forall (l : list nat) i a x, In x (set_nth l i a) -> x = a \/ In x l.
Proof.
  unfold set_nth. induction l as [|y t IH]; intros [|i] a x K; cbn in *; auto.
  - destruct K as [K|K]; auto.
  - destruct K as [K|K]; auto. apply IH in K. destruct K; auto.
Qed.

Lemma In_swap_list : forall l i j x, i < length l -> j < length l -> In x (swap_list l i j) -> In x l.
Proof.
  intros l i j x Li Lj K. unfold swap_list in K.
  apply In_set_nth in K. destruct K as [K|K]; [subst x; apply nth_In; auto|].
  apply In_set_nth in K. destruct K as [K|K]; [subst x; apply nth_In; auto|auto].
Qed.

(* ---------- 5. sort_layers ---------- *)
Lemma In_insert_sorted : forall (A : Type) (le : A -> A -> bool) x y l,
  In x (insert_sorted le y l) <-> x = y \/ In x l.
Proof.
  induction l as [|z t IH]; cbn.
  - intuition.
  - destruct (le y z); cbn; [intuition|]. rewrite IH. intuition.
Qed.

Lemma In_isort : forall (A : Type) (le : A -> A -> bool) x l, In x (isort le l) <-> In x l.
Proof.
  induction l as [|y t IH]; cbn; [tauto|].
  unfold isort in *. cbn. rewrite In_insert_sorted. rewrite IH. intuition.
Qed.

Lemma sort_by_pos_iso : forall sigma tau g g' ns, iso sigma tau g g' ->
  sort_by_pos g' (map sigma ns) = map sigma (sort_by_pos g ns).
Proof.
  intros sigma tau g g' ns H. unfold sort_by_pos. apply isort_map.
  intros a b. rewrite !(fun n => pos_of_iso sigma tau g g' n H). reflexivity.
Qed.

Theorem sort_layers_iso : forall sigma tau g g', iso sigma tau g g' ->
  iso sigma tau (sort_layers g) (sort_layers g').
Proof.
  intros sigma tau g g' H. unfold sort_layers.
  assert (E : map (fun l => mkLayer (sort_by_pos g' (l_nodes l)) (l_w l) (l_h l)) (g_L g')
            = map (layer_map sigma) (map (fun l => mkLayer (sort_by_pos g (l_nodes l)) (l_w l) (l_h l)) (g_L g))).
  { rewrite (iso_L H). rewrite !map_map. apply map_ext. intros l.
    unfold layer_map. cbn [l_nodes l_w l_h]. rewrite (sort_by_pos_iso sigma tau g g' _ H). reflexivity. }
  rewrite E. apply iso_with_L; auto.
  intros l n Hl Hn. apply in_map_iff in Hl. destruct Hl as [l0 [El Hl0]]. subst l.
  cbn [l_nodes] in Hn. unfold sort_by_pos in Hn. apply In_isort in Hn.
  eapply (iso_L_lt H); eauto.
Qed.

(* ---------- 6. the position table ---------- *)
Theorem positions_rel : forall sigma tau g g', iso sigma tau g g' ->
  aux_rel sigma 0%Z (positions g) (positions g').
Proof.
  intros sigma tau g g' H. unfold positions.
  exact (aux_rel_na_map H n_pos (fun _ => eq_refl)).
Qed.

Print Assumptions count_crossings_iso.
Print Assumptions reported_crossings_iso.
Print Assumptions crossings_around_iso.
Print Assumptions swap_pos_iso.
Print Assumptions sort_layers_iso.
Print Assumptions positions_rel.

(* ---------- 7. init_positions ---------- *)
(* top-level copy of the nested loop of init_pos *)
Fixpoint ip_loop (F : nat -> ip_st -> res ip_st) (top : bool) (es : list nat) (st : ip_st) : res ip_st :=
  match es with
  | [] => Ok st
  | e :: t =>
      let '(g, _, _) := st in
      let m := if top then e_to (gedge g e) else e_from (gedge g e) in
      do st' <- F m st; ip_loop F top t st'
  end.

Lemma init_pos_S : forall top f n g vis idx,
  init_pos top (S f) n (g, vis, idx) =
  if mem_nat n vis then Ok (g, vis, idx) else
  let ln := layer_of g n in
  let g2 := upd_node g n (set_pos (idx_get idx ln)) in
  ip_loop (init_pos top f) top (if top then n_out (gnode g2 n) else n_in (gnode g2 n))
          (g2, n :: vis, (ln, (idx_get idx ln + 1)%Z) :: idx).
Proof.
  intros. cbn [init_pos]. destruct (mem_nat n vis); [reflexivity|]. cbv zeta.
  generalize (if top then n_out (gnode (upd_node g n (set_pos (idx_get idx (layer_of g n)))) n)
              else n_in (gnode (upd_node g n (set_pos (idx_get idx (layer_of g n)))) n)).
  generalize (upd_node g n (set_pos (idx_get idx (layer_of g n))), n :: vis,
              (layer_of g n, (idx_get idx (layer_of g n) + 1)%Z) :: idx).
  intros st es. revert st. induction es as [|e t IH]; intros st; [reflexivity|].
  cbn [ip_loop]. destruct st as [[g1 v1] i1].
  destruct (init_pos top f (if top then e_to (gedge g1 e) else e_from (gedge g1 e)) (g1, v1, i1)); cbn [bind]; auto.
Qed.

(* the state relation; [ne] pins the size of the edge arena on the left (upd_node never changes it) *)
Definition ip_rel (sigma tau : nat -> nat) (ne : nat) (st st' : ip_st) : Prop :=
  iso sigma tau (fst (fst st)) (fst (fst st')) /\
  snd (fst st') = map sigma (snd (fst st)) /\
  snd st' = snd st /\
  length (g_ea (fst (fst st))) = ne.

Lemma ip_loop_iso : forall sigma tau ne top (F F' : nat -> ip_st -> res ip_st),
  (forall n st st', ip_rel sigma tau ne st st' -> res_rel (ip_rel sigma tau ne) (F n st) (F' (sigma n) st')) ->
  forall es st st', ip_rel sigma tau ne st st' -> (forall e, In e es -> e < ne) ->
  res_rel (ip_rel sigma tau ne) (ip_loop F top es st) (ip_loop F' top (map tau es) st').
Proof.
  intros sigma tau ne top F F' HF. induction es as [|e t IH]; intros st st' R Hes; cbn [ip_loop map].
  - constructor. exact R.
  - destruct st as [[g vis] idx]. destruct st' as [[g' vis'] idx'].
    assert (R0 := R). destruct R0 as [H [Ev [Ei Le]]]. cbn [fst snd] in *.
    assert (L : e < length (g_ea g)) by (rewrite Le; apply Hes; left; reflexivity).
    rewrite (iso_e_to H L), (iso_e_from H L).
    assert (Em : (if top then sigma (e_to (gedge g e)) else sigma (e_from (gedge g e)))
                 = sigma (if top then e_to (gedge g e) else e_from (gedge g e))) by (destruct top; reflexivity).
    rewrite Em. eapply res_rel_bind.
    + apply HF. exact R.
    + intros x y Rxy. apply IH; auto. intros e0 He0. apply Hes. right. exact He0.
Qed.

Lemma init_pos_iso : forall sigma tau ne top f f' n st st', ip_rel sigma tau ne st st' ->
  res_rel (ip_rel sigma tau ne) (init_pos top f n st) (init_pos top f' (sigma n) st').
Proof.
  intros sigma tau ne top. induction f as [|f IH]; intros f' n st st' R.
  - cbn [init_pos]. constructor.
  - destruct f' as [|f']; [cbn [init_pos]; constructor|].
    destruct st as [[g vis] idx]. destruct st' as [[g' vis'] idx'].
    assert (R0 := R). destruct R0 as [H [Ev [Ei Le]]]. cbn [fst snd] in *. subst vis' idx'.
    rewrite !init_pos_S. rewrite (mem_nat_map (iso_sinj H)).
    destruct (mem_nat n vis); [constructor; exact R|].
    cbv zeta. rewrite (iso_layer_of H).
    set (z := idx_get idx (layer_of g n)).
    assert (H2 : iso sigma tau (upd_node g n (set_pos z)) (upd_node g' (sigma n) (set_pos z)))
      by (apply iso_set_pos; exact H).
    assert (Ees : (if top then n_out (gnode (upd_node g' (sigma n) (set_pos z)) (sigma n))
                   else n_in (gnode (upd_node g' (sigma n) (set_pos z)) (sigma n)))
                = map tau (if top then n_out (gnode (upd_node g n (set_pos z)) n)
                           else n_in (gnode (upd_node g n (set_pos z)) n))).
    { destruct top; [apply (iso_n_out H2)|apply (iso_n_in H2)]. }
    rewrite Ees. apply ip_loop_iso.
    + intros m s s' Rs. apply IH. exact Rs.
    + (split; [|split; [|split]]; cbn [fst snd]; auto).
    + intros e He. rewrite <- Le. change (g_ea g) with (g_ea (upd_node g n (set_pos z))).
      destruct top; [eapply (iso_out_lt H2)|eapply (iso_in_lt H2)]; eauto.
Qed.

Theorem init_positions_iso : forall sigma tau g g' top, iso sigma tau g g' ->
  res_rel (iso sigma tau) (init_positions top g) (init_positions top g').
Proof.
  intros sigma tau g g' top H. unfold init_positions.
  assert (Ef : (if top then l_nodes (glayer g' 0) else l_nodes (glayer g' (length (g_L g') - 1))) ++ g_N g'
             = map sigma ((if top then l_nodes (glayer g 0) else l_nodes (glayer g (length (g_L g) - 1))) ++ g_N g)).
  { rewrite map_app. rewrite (iso_N H). rewrite (iso_L_length H). rewrite !(iso_glayer H).
    destruct top; reflexivity. }
  rewrite Ef.
  eapply res_rel_bind with (R := ip_rel sigma tau (length (g_ea g))).
  - apply fold_left_rel with (R := res_rel (ip_rel sigma tau (length (g_ea g)))).
    + constructor. (split; [|split; [|split]]; cbn [fst snd]; auto).
    + intros a b x _ Rab. eapply res_rel_bind; [exact Rab|].
      intros s s' Rs. apply init_pos_iso. exact Rs.
  - intros [[g1 v1] i1] [[g1' v1'] i1'] [K _]. constructor. exact K.
Qed.
Print Assumptions init_positions_iso.

(* ---------- 8. transpose ---------- *)
Lemma upd_map_at : forall (A B : Type) (h : A -> B) (u : A -> A) (u' : B -> B) l i,
  (forall x, nth_error l i = Some x -> u' (h x) = h (u x)) -> upd (map h l) i u' = map h (upd l i u).
Proof.
  induction l as [|x t IH]; intros [|i] K; cbn; auto.
  - rewrite K by reflexivity. reflexivity.
  - rewrite IH; auto.
Qed.

(* layer update where the two functions need only agree on the layer that is updated *)
Lemma iso_upd_layer_at : forall sigma tau g g' i (k k' : layer -> layer), iso sigma tau g g' ->
  (i < length (g_L g) -> k' (layer_map sigma (glayer g i)) = layer_map sigma (k (glayer g i))) ->
  (forall n, In n (l_nodes (k (glayer g i))) -> n < length (g_na g)) ->
  iso sigma tau (upd_layer g i k) (upd_layer g' i k').
Proof.
  intros sigma tau g g' i k k' H C R. unfold upd_layer.
  assert (E : upd (g_L g') i k' = map (layer_map sigma) (upd (g_L g) i k)).
  { rewrite (iso_L H). apply upd_map_at. intros x Hx.
    assert (L : i < length (g_L g)) by (apply nth_error_Some; congruence).
    apply nth_error_nth with (d := layer0) in Hx. fold (glayer g i) in Hx. subst x. auto. }
  rewrite E. apply iso_with_L; auto.
  intros l n Hl Hn. apply In_nth with (d := layer0) in Hl. destruct Hl as [j [Lj Ej]].
  rewrite upd_length in Lj. rewrite nth_upd_full in Ej.
  destruct (Nat.eqb i j && Nat.ltb i (length (g_L g)))%bool eqn:B.
  - apply andb_prop in B. destruct B as [B _]. apply Nat.eqb_eq in B. subst j. subst l. apply R. exact Hn.
  - subst l. eapply (iso_L_lt H); eauto. apply nth_In. auto.
Qed.

Lemma glayer_upd_layer_nodes_length : forall g l k i,
  (forall ly, length (l_nodes (k ly)) = length (l_nodes ly)) ->
  length (l_nodes (glayer (upd_layer g l k) i)) = length (l_nodes (glayer g i)).
Proof.
  intros g l k i K. unfold glayer, upd_layer. cbn [g_L with_L].
  rewrite nth_upd_full. destruct (Nat.eqb l i && Nat.ltb l (length (g_L g)))%bool; auto.
Qed.

Lemma glayer_in_range : forall g l, 0 < length (l_nodes (glayer g l)) -> l < length (g_L g).
Proof.
  intros g l K. destruct (Nat.lt_ge_cases l (length (g_L g))) as [L|L]; auto.
  unfold glayer in K. rewrite nth_overflow in K by auto. cbn in K. lia.
Qed.

Definition tl_rel (sigma tau : nat -> nat) (a a' : graph * bool) : Prop :=
  iso sigma tau (fst a) (fst a') /\ snd a = snd a'.

Lemma transpose_layer_iso : forall sigma tau a a' l, tl_rel sigma tau a a' ->
  tl_rel sigma tau (transpose_layer a l) (transpose_layer a' l).
Proof.
  intros sigma tau a a' l [H0 E0]. unfold transpose_layer.
  rewrite (iso_glayer H0). cbn [l_nodes layer_map]. rewrite map_length.
  set (len := length (l_nodes (glayer (fst a) l))).
  assert (K : tl_rel sigma tau a a' /\ length (l_nodes (glayer (fst a) l)) = len) by (split; [split|]; auto).
  clearbody len. revert K. generalize (iota 0 (len - 2)) (in_iota (len - 2) 0). clear H0 E0.
  intros is Hin K.
  match goal with |- tl_rel _ _ (fold_left ?F _ _) (fold_left ?F' _ _) =>
    assert (G : tl_rel sigma tau (fold_left F is a) (fold_left F' is a') /\
                length (l_nodes (glayer (fst (fold_left F is a)) l)) = len) end.
  2: { apply G. }
  apply fold_left_rel_same with
    (R := fun b b' : graph * bool => tl_rel sigma tau b b' /\ length (l_nodes (glayer (fst b) l)) = len); [exact K|].
  clear K. intros [g1 imp] [g1' imp'] i Hi [[H E] Len]. cbn [fst snd] in *. subst imp'.
  apply Hin in Hi.
  rewrite (iso_glayer H). cbn [l_nodes layer_map].
  set (nodes := l_nodes (glayer g1 l)) in *.
  assert (Li : i < length nodes) by lia. assert (Lj : S i < length nodes) by lia.
  rewrite (nth_map_lt sigma nodes 0 0 Li), (nth_map_lt sigma nodes 0 0 Lj).
  set (v := nth i nodes 0). set (w := nth (S i) nodes 0).
  assert (H2 := swap_pos_iso sigma tau g1 g1' v w H).
  rewrite (crossings_around_iso _ _ _ _ l H), (crossings_around_iso _ _ _ _ l H2).
  destruct (crossings_around (swap_pos g1 v w) l <? crossings_around g1 l)%Z.
  - cbn [fst snd]. split; [split; auto|].
    + apply iso_upd_layer_at; auto.
      * intros _. unfold layer_map. cbn [l_nodes l_w l_h].
        assert (EN : l_nodes (glayer (swap_pos g1 v w) l) = nodes) by reflexivity.
        rewrite EN. rewrite swap_list_map by auto. reflexivity.
      * intros n Hn. cbn [l_nodes] in Hn.
        assert (EN : l_nodes (glayer (swap_pos g1 v w) l) = nodes) by reflexivity.
        rewrite EN in Hn. apply In_swap_list in Hn; auto.
        eapply (iso_L_lt H2 (glayer (swap_pos g1 v w) l)).
        -- unfold glayer. apply nth_In. apply glayer_in_range. fold (glayer (swap_pos g1 v w) l). rewrite EN. lia.
        -- rewrite EN. exact Hn.
    + rewrite glayer_upd_layer_nodes_length; [exact Len|].
      intros ly. cbn [l_nodes]. apply swap_list_length.
  - cbn [fst snd]. split; [split|]; auto.
Qed.

Theorem transpose_iso : forall sigma tau fuel g g', iso sigma tau g g' ->
  res_rel (iso sigma tau) (transpose fuel g) (transpose fuel g').
Proof.
  intros sigma tau fuel. induction fuel as [|f IH]; intros g g' H; cbn [transpose].
  - constructor.
  - rewrite (iso_L_length H).
    assert (K : tl_rel sigma tau (fold_left transpose_layer (iota 0 (length (g_L g))) (g, false))
                                 (fold_left transpose_layer (iota 0 (length (g_L g))) (g', false))).
    { apply fold_left_rel_same; [split; auto|]. intros a b x _ Hab. apply transpose_layer_iso. exact Hab. }
    destruct (fold_left transpose_layer (iota 0 (length (g_L g))) (g, false)) as [g1 imp].
    destruct (fold_left transpose_layer (iota 0 (length (g_L g))) (g', false)) as [g1' imp'].
    destruct K as [K1 K2]. cbn [fst snd] in *. subst imp'.
    destruct imp; [apply IH; auto|constructor; auto].
Qed.
Print Assumptions transpose_iso.
