(* RenumberWm2.v — equivariance under renumbering of the weighted-median ordering (Model/Wmedian.v, from
   [adj_positions] to the end): medians, sortLayer, the sweeps, wmedianRun and execWeightedMedian. *)
From Autog Require Import Base Graph Populate Phase3 CrossCount Wmedian.
From Autog.Proofs Require Import ListLemmas RenumberBase RenumberWm1.
Local Open Scope nat_scope.

(* ---------- small list facts ---------- *)
Lemma in_upd_wm2 : forall A (l : list A) i f x, In x (upd l i f) -> In x l \/ (i < length l /\ x = f (nth i l x)).
Proof.
  induction l as [|y t IH]; intros [|i] f x K; cbn in *; auto.
  - destruct K as [K|K]; auto. right. split; [lia|auto].
  - destruct K as [K|K]; auto. apply IH in K. destruct K as [K|[K1 K2]]; auto. right. split; [lia|auto].
Qed.

Lemma in_set_nth_wm2 : forall A (l : list A) i a x, In x (set_nth l i a) -> In x l \/ x = a.
Proof. intros A l i a x K. unfold set_nth in K. apply in_upd_wm2 in K. destruct K as [K|[_ K]]; auto. Qed.

Lemma swap_list_length_wm2 : forall l i j, length (swap_list l i j) = length l.
Proof. intros. unfold swap_list, set_nth. rewrite !upd_length. reflexivity. Qed.

Lemma in_swap_list_wm2 : forall l i j x, i < length l -> j < length l -> In x (swap_list l i j) -> In x l.
Proof.
  intros l i j x Li Lj K. unfold swap_list in K.
  apply in_set_nth_wm2 in K. destruct K as [K|K].
  - apply in_set_nth_wm2 in K. destruct K as [K|K]; auto. subst x. apply nth_In. auto.
  - subst x. apply nth_In. auto.
Qed.

Lemma swap_list_map_wm2 : forall (sigma : nat -> nat) l i j, i < length l -> j < length l ->
  swap_list (map sigma l) i j = map sigma (swap_list l i j).
Proof.
  intros sigma l i j Li Lj. unfold swap_list.
  rewrite (@nth_map_lt nat nat sigma l i 0 0) by auto.
  rewrite (@nth_map_lt nat nat sigma l j 0 0) by auto.
  rewrite !set_nth_map. reflexivity.
Qed.

Lemma swap_pos_na_length_wm2 : forall g v w, length (g_na (swap_pos g v w)) = length (g_na g).
Proof. intros. unfold swap_pos. rewrite !upd_node_na_length. reflexivity. Qed.

Section Wm2A.
  Variables sigma tau : nat -> nat.

  Lemma pos_of_iso_wm2 : forall g g' n, iso sigma tau g g' -> pos_of g' (sigma n) = pos_of g n.
  Proof. intros g g' n H. unfold pos_of. apply (iso_n_pos H). Qed.

  Lemma swap_pos_iso_wm2 : forall g g' v w, iso sigma tau g g' ->
    iso sigma tau (swap_pos g v w) (swap_pos g' (sigma v) (sigma w)).
  Proof.
    intros g g' v w H. unfold swap_pos. rewrite !(pos_of_iso_wm2 g g' _ H).
    apply iso_set_pos. apply iso_set_pos. exact H.
  Qed.

  Lemma glayer_nodes_lt : forall g g' r n, iso sigma tau g g' -> In n (l_nodes (glayer g r)) -> n < length (g_na g).
  Proof.
    intros g g' r n H K. unfold glayer in K.
    destruct (Nat.lt_ge_cases r (length (g_L g))) as [L|L].
    - eapply (iso_L_lt H); [|exact K]. apply nth_In. exact L.
    - rewrite nth_overflow in K by exact L. destruct K.
  Qed.

  (* ---------- A1: adj_positions ---------- *)
  Theorem adj_positions_iso : forall g g' n edges adj, iso sigma tau g g' ->
    (forall e, In e edges -> e < length (g_ea g)) ->
    adj_positions g' (sigma n) (map tau edges) adj = adj_positions g n edges adj.
  Proof.
    intros g g' n edges adj H R. unfold adj_positions. f_equal.
    apply flat_map_map_same. intros e He. cbv zeta.
    rewrite (iso_self_loop H) by auto. destruct (self_loop g e); auto.
    rewrite (iso_connected_node H) by auto. rewrite (iso_layer_of H).
    rewrite (pos_of_iso_wm2 g g' _ H). reflexivity.
  Qed.

  (* ---------- A2: the medians table ---------- *)
  Lemma med_rel : forall ms ms' n, aux_rel sigma 0%Q ms ms' -> med ms' (sigma n) = med ms n.
  Proof. intros ms ms' n M. unfold med. apply (aux_rel_nth n M). Qed.

  (* ---------- A3: skip_unset ---------- *)
  Lemma skip_unset_map : forall ms ms' nodes ep, aux_rel sigma 0%Q ms ms' -> ep <= length nodes ->
    forall fuel i, skip_unset fuel ms' (map sigma nodes) i ep = skip_unset fuel ms nodes i ep.
  Proof.
    intros ms ms' nodes ep M Lep. induction fuel as [|f IH]; intros i; cbn [skip_unset]; auto.
    destruct (Nat.ltb i ep) eqn:E; cbn [andb]; auto.
    apply Nat.ltb_lt in E.
    rewrite (@nth_map_lt nat nat sigma nodes i 0 0) by lia.
    rewrite (med_rel _ _ _ M). destruct (is_unset _); auto.
  Qed.

  (* ---------- A4: sl_pass, sl_iters ---------- *)
  Definition sl_rel (st st' : graph * list nat) : Prop :=
    iso sigma tau (fst st) (fst st') /\ snd st' = map sigma (snd st).

  (* invariant of the left state: length of the node list, nodes in range, arena length *)
  Definition sl_inv (len N : nat) (st : graph * list nat) : Prop :=
    length (snd st) = len /\ (forall x, In x (snd st) -> x < N) /\ length (g_na (fst st)) = N.

  Lemma sl_pass_inv_wm2 : forall len N ms flip ep, ep <= len ->
    forall fuel lp st, sl_inv len N st -> sl_inv len N (sl_pass fuel flip ms ep lp st).
  Proof.
    intros len N ms flip ep Lep. induction fuel as [|f IH]; intros lp st I; cbn [sl_pass]; auto.
    destruct st as [g nodes].
    destruct (negb (Nat.ltb lp ep)); auto.
    destruct (negb (Nat.ltb (skip_unset (length nodes) ms nodes lp ep) ep)) eqn:E1; auto.
    destruct (negb (Nat.ltb (skip_unset (length nodes) ms nodes (S (skip_unset (length nodes) ms nodes lp ep)) ep) ep)) eqn:E2; auto.
    apply IH.
    destruct (_ || _); auto.
    apply Bool.negb_false_iff in E1, E2. apply Nat.ltb_lt in E1, E2.
    destruct I as [I1 [I2 I3]]. cbn [fst snd] in *.
    split; [|split]; cbn [fst snd].
    - rewrite swap_list_length_wm2. exact I1.
    - intros x K. apply in_swap_list_wm2 in K; auto; lia.
    - rewrite swap_pos_na_length_wm2. exact I3.
  Qed.

  Lemma sl_iters_inv_wm2 : forall len N ms flip iters ep st, ep <= len ->
    sl_inv len N st -> sl_inv len N (sl_iters iters flip ms ep st).
  Proof.
    intros len N ms flip. induction iters as [|k IH]; intros ep st Lep I; cbn [sl_iters]; auto.
    apply IH.
    - destruct flip; lia.
    - apply sl_pass_inv_wm2; auto.
  Qed.

  Lemma sl_pass_iso : forall ms ms' flip ep, aux_rel sigma 0%Q ms ms' ->
    forall fuel lp st st', sl_rel st st' -> ep <= length (snd st) ->
    sl_rel (sl_pass fuel flip ms ep lp st) (sl_pass fuel flip ms' ep lp st').
  Proof.
    intros ms ms' flip ep M. induction fuel as [|f IH]; intros lp st st' R Lep; cbn [sl_pass]; auto.
    destruct st as [g nodes], st' as [g' nodes']. destruct R as [H E]. cbn [fst snd] in *. subst nodes'.
    destruct (negb (Nat.ltb lp ep)); [split; auto|].
    rewrite map_length. rewrite !(skip_unset_map _ _ _ _ M Lep).
    set (lp1 := skip_unset (length nodes) ms nodes lp ep).
    destruct (negb (Nat.ltb lp1 ep)) eqn:E1; [split; auto|].
    set (rp := skip_unset (length nodes) ms nodes (S lp1) ep).
    destruct (negb (Nat.ltb rp ep)) eqn:E2; [split; auto|].
    apply Bool.negb_false_iff in E1, E2. apply Nat.ltb_lt in E1, E2.
    rewrite (@nth_map_lt nat nat sigma nodes lp1 0 0) by lia.
    rewrite (@nth_map_lt nat nat sigma nodes rp 0 0) by lia.
    rewrite !(med_rel _ _ _ M).
    destruct (_ || _).
    - apply IH.
      + split; cbn [fst snd].
        * apply swap_pos_iso_wm2. exact H.
        * apply swap_list_map_wm2; lia.
      + cbn [snd]. rewrite swap_list_length_wm2. exact Lep.
    - apply IH; [split; auto|exact Lep].
  Qed.

  Lemma sl_pass_length_wm2 : forall ms flip ep fuel lp st, ep <= length (snd st) ->
    length (snd (sl_pass fuel flip ms ep lp st)) = length (snd st).
  Proof.
    intros ms flip ep fuel lp st Lep.
    revert lp st Lep. induction fuel as [|f IH]; intros lp st Lep; cbn [sl_pass]; auto.
    destruct st as [g nodes]. cbn [snd] in Lep.
    destruct (negb (Nat.ltb lp ep)); auto.
    destruct (negb (Nat.ltb _ ep)); auto.
    destruct (negb (Nat.ltb _ ep)); auto.
    destruct (_ || _).
    - rewrite IH; cbn [snd]; rewrite swap_list_length_wm2; auto.
    - rewrite IH; auto.
  Qed.

  Lemma sl_iters_iso : forall ms ms' flip, aux_rel sigma 0%Q ms ms' ->
    forall iters ep st st', sl_rel st st' -> ep <= length (snd st) ->
    sl_rel (sl_iters iters flip ms ep st) (sl_iters iters flip ms' ep st').
  Proof.
    intros ms ms' flip M. induction iters as [|k IH]; intros ep st st' R Lep; cbn [sl_iters]; auto.
    assert (EL : length (snd st') = length (snd st)).
    { destruct R as [_ E]. rewrite E. apply map_length. }
    rewrite EL. apply IH.
    - apply sl_pass_iso; auto.
    - rewrite sl_pass_length_wm2 by auto. destruct flip; lia.
  Qed.

  (* ---------- A5: sort_layer ---------- *)
  Theorem sort_layer_iso : forall flip ms ms' g g' r, iso sigma tau g g' -> aux_rel sigma 0%Q ms ms' ->
    iso sigma tau (sort_layer flip ms g r) (sort_layer flip ms' g' r).
  Proof.
    intros flip ms ms' g g' r H M. unfold sort_layer.
    rewrite (iso_glayer H). cbn [l_nodes layer_map]. rewrite map_length.
    set (nodes := l_nodes (glayer g r)).
    assert (R0 : sl_rel (g, nodes) (g', map sigma nodes)) by (split; auto).
    assert (I0 : sl_inv (length nodes) (length (g_na g)) (g, nodes)).
    { split; [|split]; cbn [fst snd]; auto. intros x K. eapply glayer_nodes_lt; eauto. }
    pose proof (sl_iters_iso ms ms' flip M (length nodes) (length nodes) _ _ R0 (Nat.le_refl _)) as R1.
    pose proof (sl_iters_inv_wm2 (length nodes) (length (g_na g)) ms flip (length nodes) (length nodes) _ (Nat.le_refl _) I0) as I1.
    destruct (sl_iters (length nodes) flip ms (length nodes) (g, nodes)) as [g1 n1].
    destruct (sl_iters (length nodes) flip ms' (length nodes) (g', map sigma nodes)) as [g1' n1'].
    destruct R1 as [H1 E1]. destruct I1 as [_ [I2 I3]]. cbn [fst snd] in *. subst n1'.
    apply iso_upd_layer; auto.
    cbn [l_nodes]. intros n K. rewrite I3. auto.
  Qed.

  (* ---------- A6: the sweeps ---------- *)
  Definition sw_rel (acc acc' : graph * list Q) : Prop :=
    iso sigma tau (fst acc) (fst acc') /\ aux_rel sigma 0%Q (snd acc) (snd acc').

  Lemma sweep_layer_iso : forall down flip acc acc' r, sw_rel acc acc' ->
    sw_rel (sweep_layer down flip acc r) (sweep_layer down flip acc' r).
  Proof.
    intros down flip [g ms] [g' ms'] r [H M]. cbn [fst snd] in *. unfold sweep_layer.
    rewrite (iso_glayer H). cbn [l_nodes layer_map].
    set (adj := if down then (Z.of_nat r - 1)%Z else (Z.of_nat r + 1)%Z).
    assert (M1 : aux_rel sigma 0%Q
      (fold_left (fun ms v => set_nth ms v (median_of (adj_positions g v (if down then n_in (gnode g v) else n_out (gnode g v)) adj)))
                 (l_nodes (glayer g r)) ms)
      (fold_left (fun ms v => set_nth ms v (median_of (adj_positions g' v (if down then n_in (gnode g' v) else n_out (gnode g' v)) adj)))
                 (map sigma (l_nodes (glayer g r))) ms')).
    { apply fold_left_rel with (R := aux_rel sigma 0%Q); auto.
      intros a b v _ Rab.
      assert (E : adj_positions g' (sigma v) (if down then n_in (gnode g' (sigma v)) else n_out (gnode g' (sigma v))) adj
                = adj_positions g v (if down then n_in (gnode g v) else n_out (gnode g v)) adj).
      { destruct down.
        - rewrite (iso_n_in H). apply adj_positions_iso; auto. apply (iso_in_lt H).
        - rewrite (iso_n_out H). apply adj_positions_iso; auto. apply (iso_out_lt H). }
      rewrite E. apply aux_rel_set_nth; auto. apply (iso_sinj H). }
    split; cbn [fst snd]; auto.
    apply sort_layer_iso; auto.
  Qed.

  Theorem wmedian_sweep_iso : forall down flip g g', iso sigma tau g g' ->
    iso sigma tau (wmedian_sweep down flip g) (wmedian_sweep down flip g').
  Proof.
    intros down flip g g' H. unfold wmedian_sweep. rewrite (iso_L_length H).
    assert (R : sw_rel (fold_left (sweep_layer down flip) (if down then iota 1 (length (g_L g) - 1) else rev (iota 0 (length (g_L g))))
                          (g, repeat 0%Q (length (g_na g))))
                       (fold_left (sweep_layer down flip) (if down then iota 1 (length (g_L g) - 1) else rev (iota 0 (length (g_L g))))
                          (g', repeat 0%Q (length (g_na g'))))).
    { apply fold_left_rel_same with (R := sw_rel).
      - split; cbn [fst snd]; auto. apply (aux_rel_repeat H).
      - intros a b x _ Rab. apply sweep_layer_iso; auto. }
    apply R.
  Qed.
End Wm2A.

Print Assumptions adj_positions_iso.
Print Assumptions sort_layer_iso.
Print Assumptions wmedian_sweep_iso.

(* ---------- Part B: wmedianRun and execWeightedMedian ---------- *)
Section Wm2B.
  Variables sigma tau : nat -> nat.

  (* the theorems of Proofs/RenumberWm1.v that part B uses *)
  Hypothesis W1_reported_crossings_iso : forall g g', iso sigma tau g g' -> reported_crossings g' = reported_crossings g.
  Hypothesis W1_sort_layers_iso : forall g g', iso sigma tau g g' -> iso sigma tau (sort_layers g) (sort_layers g').
  Hypothesis W1_positions_rel : forall g g', iso sigma tau g g' -> aux_rel sigma 0%Z (positions g) (positions g').
  Hypothesis W1_init_positions_iso : forall g g' top, iso sigma tau g g' ->
    res_rel (iso sigma tau) (init_positions top g) (init_positions top g').
  Hypothesis W1_transpose_iso : forall fuel g g', iso sigma tau g g' ->
    res_rel (iso sigma tau) (transpose fuel g) (transpose fuel g').

  Definition wm_rel (r r' : graph * Z * list Z) : Prop :=
    iso sigma tau (fst (fst r)) (fst (fst r')) /\ snd (fst r) = snd (fst r') /\ aux_rel sigma 0%Z (snd r) (snd r').

  Lemma wm_iter_iso_gen : forall k i flip g g' bestx bestp bestp', iso sigma tau g g' -> aux_rel sigma 0%Z bestp bestp' ->
    res_rel wm_rel (wm_iter k i flip g bestx bestp) (wm_iter k i flip g' bestx bestp').
  Proof.
    induction k as [|k IH]; intros i flip g g' bestx bestp bestp' H M; cbn [wm_iter].
    - constructor. split; [|split]; cbn [fst snd]; auto.
    - pose proof (wmedian_sweep_iso sigma tau (Nat.even i) flip g g' H) as H1.
      set (g1 := wmedian_sweep (Nat.even i) flip g) in *.
      set (g1' := wmedian_sweep (Nat.even i) flip g') in *.
      rewrite (W1_reported_crossings_iso _ _ H1).
      apply res_rel_bind with (R := iso sigma tau); [apply W1_transpose_iso; exact H1|].
      intros x y Hxy. rewrite (W1_reported_crossings_iso _ _ Hxy).
      destruct (reported_crossings x <? bestx)%Z.
      + destruct (reported_crossings x =? 0)%Z.
        * constructor. split; [|split]; cbn [fst snd]; auto.
        * apply IH; auto.
      + destruct (bestx =? 0)%Z.
        * constructor. split; [|split]; cbn [fst snd]; auto.
        * apply IH; auto.
  Qed.

  Lemma wmedian_run_iso_gen : forall maxiter top g g', iso sigma tau g g' ->
    res_rel wm_rel (wmedian_run maxiter top g) (wmedian_run maxiter top g').
  Proof.
    intros maxiter top g g' H. unfold wmedian_run.
    apply res_rel_bind with (R := iso sigma tau); [apply W1_init_positions_iso; exact H|].
    intros x y Hxy. pose proof (W1_sort_layers_iso _ _ Hxy) as H1.
    rewrite (W1_reported_crossings_iso _ _ H1).
    destruct (reported_crossings (sort_layers x) =? 0)%Z.
    - constructor. split; [|split]; cbn [fst snd]; auto.
    - apply wm_iter_iso_gen; auto.
  Qed.

  Lemma exec_wmedian_iso_gen : forall maxiter g g', iso sigma tau g g' ->
    res_rel (fun r r' => iso sigma tau (fst r) (fst r') /\ snd r = snd r') (exec_wmedian maxiter g) (exec_wmedian maxiter g').
  Proof.
    intros maxiter g g' H. unfold exec_wmedian.
    rewrite (iso_E H).
    rewrite (existsb_map_comm tau (is_flat g) (is_flat g') (g_E g))
      by (intros e He; apply (iso_is_flat H); apply (iso_E_lt H); exact He).
    destruct (existsb (is_flat g) (g_E g)); [constructor|].
    apply res_rel_bind with (R := wm_rel); [apply wmedian_run_iso_gen; exact H|].
    intros [[g1 xt] pt] [[g1' xt'] pt'] [H1 [E1 M1]]. cbn [fst snd] in *. subst xt'.
    apply res_rel_bind with (R := wm_rel); [apply wmedian_run_iso_gen; exact H1|].
    intros [[g2 xb] pb] [[g2' xb'] pb'] [H2 [E2 M2]]. cbn [fst snd] in *. subst xb'.
    assert (F : forall bp bp', aux_rel sigma 0%Z bp bp' ->
      iso sigma tau (fold_left (fun g n => upd_node g n (set_pos (nth n bp 0%Z))) (g_N g2) g2)
                    (fold_left (fun g n => upd_node g n (set_pos (nth n bp' 0%Z))) (g_N g2') g2')).
    { intros bp bp' M. rewrite (iso_N H2).
      apply fold_left_rel with (R := iso sigma tau); auto.
      intros a b n _ Hab. rewrite (aux_rel_nth n M). apply iso_set_pos. exact Hab. }
    destruct (xt <? xb)%Z; constructor; split; cbn [fst snd]; auto.
  Qed.
End Wm2B.

(* ---------- final statements: the premises of part B discharged with Proofs/RenumberWm1.v ---------- *)
Theorem wm_iter_iso : forall sigma tau k i flip g g' bestx bestp bestp',
  iso sigma tau g g' -> aux_rel sigma 0%Z bestp bestp' ->
  res_rel (fun r r' => iso sigma tau (fst (fst r)) (fst (fst r')) /\ snd (fst r) = snd (fst r') /\
                       aux_rel sigma 0%Z (snd r) (snd r'))
          (wm_iter k i flip g bestx bestp) (wm_iter k i flip g' bestx bestp').
Proof.
  intros sigma tau k i flip g g' bestx bestp bestp' H M.
  exact (wm_iter_iso_gen sigma tau (reported_crossings_iso sigma tau) (positions_rel sigma tau)
           (transpose_iso sigma tau) k i flip g g' bestx bestp bestp' H M).
Qed.
Print Assumptions wm_iter_iso.

Theorem wmedian_run_iso : forall sigma tau maxiter top g g', iso sigma tau g g' ->
  res_rel (fun r r' => iso sigma tau (fst (fst r)) (fst (fst r')) /\ snd (fst r) = snd (fst r') /\
                       aux_rel sigma 0%Z (snd r) (snd r'))
          (wmedian_run maxiter top g) (wmedian_run maxiter top g').
Proof.
  intros sigma tau maxiter top g g' H.
  exact (wmedian_run_iso_gen sigma tau (reported_crossings_iso sigma tau) (sort_layers_iso sigma tau)
           (positions_rel sigma tau) (init_positions_iso sigma tau) (transpose_iso sigma tau) maxiter top g g' H).
Qed.
Print Assumptions wmedian_run_iso.

(* MAIN *)
Theorem exec_wmedian_iso : forall sigma tau maxiter g g', iso sigma tau g g' ->
  res_rel (fun r r' => iso sigma tau (fst r) (fst r') /\ snd r = snd r')
          (exec_wmedian maxiter g) (exec_wmedian maxiter g').
Proof.
  intros sigma tau maxiter g g' H.
  exact (exec_wmedian_iso_gen sigma tau (reported_crossings_iso sigma tau) (sort_layers_iso sigma tau)
           (positions_rel sigma tau) (init_positions_iso sigma tau) (transpose_iso sigma tau) maxiter g g' H).
Qed.
Print Assumptions exec_wmedian_iso.

(* bonus: phase3_wmedian, with the equivariance of break_long_edges (Proofs/RenumberBreak.v, another file of this
   effort) as an explicit premise *)
Theorem phase3_wmedian_iso : forall sigma tau maxiter g g',
  (forall g g', iso sigma tau g g' -> res_rel (iso sigma tau) (break_long_edges g) (break_long_edges g')) ->
  iso sigma tau g g' ->
  res_rel (fun r r' => iso sigma tau (fst r) (fst r') /\ snd r = snd r')
          (phase3_wmedian maxiter g) (phase3_wmedian maxiter g').
Proof.
  intros sigma tau maxiter g g' BL H. unfold phase3_wmedian.
  rewrite (iso_N_length H), (iso_L_length H).
  destruct (Nat.eqb (length (g_N g)) 1); [constructor; split; auto|].
  destruct (Nat.eqb (length (g_L g)) 1); [constructor; split; auto|].
  apply res_rel_bind with (R := iso sigma tau); [apply BL; exact H|].
  intros x y Hxy.
  apply res_rel_bind with (R := fun r r' => iso sigma tau (fst r) (fst r') /\ snd r = snd r');
    [apply exec_wmedian_iso; exact Hxy|].
  intros r r' [H1 E1]. constructor. split; cbn [fst snd]; auto. rewrite E1. reflexivity.
Qed.
Print Assumptions phase3_wmedian_iso.
