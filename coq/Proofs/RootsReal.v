(* ====================================================================== *)
(*  RootsReal.v                                                           *)
(*                                                                        *)
(*  Property C20, last sentence:  The polynomial root finder it relies     *)
(*  on for curve/boundary intersection returns every real root and        *)
(*  nothing that is not a root.                                           *)
(*                                                                        *)
(*  WHAT THIS MODEL IS.  This file contains the algorithm of              *)
(*  internal/geom/spline_solve.go (solve3 / solve2 / solve1) transcribed  *)
(*  statement by statement, with the same intermediate names, into EXACT  *)
(*  REAL ARITHMETIC over the real numbers [R] of the Coq standard         *)
(*  library:                                                              *)
(*    - float64            becomes  R (no rounding, no overflow, no NaN); *)
(*    - aeq0 x  (|x|<1e-10) becomes the EXACT test  x = 0  (Req_EM_T);    *)
(*    - disc < 0, disc > 0 are the exact comparisons (Rlt_dec);           *)
(*    - math.Sqrt          becomes  sqrt;                                 *)
(*    - math.Cbrt          becomes  cbrt (defined below through Rpower on *)
(*                         the absolute value, sign restored; we prove    *)
(*                         cbrt x * cbrt x * cbrt x = x for every x);     *)
(*    - math.Atan2 y x     becomes  atan2 y x := PI/2 - atan (x / y),     *)
(*                         which is the value of math.Atan2 for y > 0,    *)
(*                         the only case in which the code calls it       *)
(*                         (y = sqrt (-disc) with disc < 0);              *)
(*    - math.Cos, math.Pi  become  cos, PI;                               *)
(*    - a Go slice result  becomes  option (list R): None is Go's nil     *)
(*                         (returned by solve1 when a = b = 0), Some l a  *)
(*                         non-nil slice; [vals] forgets the difference   *)
(*                         (both have length 0 for the Go callers).       *)
(*                                                                        *)
(*  The floating-point code differs from this model by rounding and by    *)
(*  the tolerance 1e-10 of aeq0.  In particular the branch [disc = 0]     *)
(*  (a repeated root) is taken by the model exactly when the cubic has a  *)
(*  repeated root, and then BOTH roots are returned (theorem              *)
(*  [solve3_complete], examples [ex_double_*] below); in floating point   *)
(*  rounding can make disc slightly positive, the [disc > 0] branch then  *)
(*  returns a single value ([solve3_disc_pos_single]) and the repeated    *)
(*  root is lost -- that is the recorded finding; it is a rounding        *)
(*  phenomenon, not a defect of the exact algorithm.                      *)
(*                                                                        *)
(*  The file does not depend on the model files of the development.       *)
(*  Axioms: only the classical axioms of the standard-library reals       *)
(*  (see the Print Assumptions after each main theorem).                  *)
(* ====================================================================== *)

From Coq Require Import Reals Lra List.
Import ListNotations.
Local Open Scope R_scope.

(* ---------------------------------------------------------------------- *)
(** * Small facts                                                          *)
(* ---------------------------------------------------------------------- *)

Lemma half_eq : 0.5 = / 2.
Proof. lra. Qed.

Lemma mhalf_eq : -0.5 = - / 2.
Proof. lra. Qed.

Lemma cube_pos : forall x, 0 < x -> 0 < x * x * x.
Proof.
  intros x Hx. apply Rmult_lt_0_compat; [apply Rmult_lt_0_compat|]; assumption.
Qed.

Lemma cube_lt : forall a b, a < b -> a * a * a < b * b * b.
Proof.
  intros a b Hab.
  assert (E : b * b * b - a * a * a
              = (b - a) * ((a + b / 2) * (a + b / 2) + 3 / 4 * (b * b))) by field.
  assert (Hs : 0 < (a + b / 2) * (a + b / 2) + 3 / 4 * (b * b)).
  { destruct (Req_dec b 0) as [Hb | Hb].
    - subst b. assert (Ha : a <> 0) by lra.
      assert (0 < a * a) by (apply Rsqr_pos_lt in Ha; unfold Rsqr in Ha; exact Ha).
      replace ((a + 0 / 2) * (a + 0 / 2) + 3 / 4 * (0 * 0)) with (a * a) by field.
      assumption.
    - assert (H1 : 0 < b * b) by (apply Rsqr_pos_lt in Hb; unfold Rsqr in Hb; exact Hb).
      assert (H2 : 0 <= (a + b / 2) * (a + b / 2)) by (apply Rle_0_sqr).
      lra. }
  assert (Hp : 0 < (b - a) * ((a + b / 2) * (a + b / 2) + 3 / 4 * (b * b))).
  { apply Rmult_lt_0_compat; lra. }
  lra.
Qed.

Lemma cube_inj : forall a b, a * a * a = b * b * b -> a = b.
Proof.
  intros a b H.
  destruct (Rtotal_order a b) as [Hlt | [Heq | Hgt]].
  - apply cube_lt in Hlt. lra.
  - assumption.
  - apply cube_lt in Hgt. lra.
Qed.

(* ---------------------------------------------------------------------- *)
(** * The real cube root (math.Cbrt)                                       *)
(* ---------------------------------------------------------------------- *)

Definition cbrt (x : R) : R :=
  if Rlt_dec 0 x then Rpower x (/ 3)
  else if Rlt_dec x 0 then - Rpower (- x) (/ 3)
  else 0.

Lemma Rpower_third_cube :
  forall x, 0 < x -> Rpower x (/ 3) * Rpower x (/ 3) * Rpower x (/ 3) = x.
Proof.
  intros x Hx. rewrite <- !Rpower_plus.
  replace (/ 3 + / 3 + / 3) with 1 by lra.
  apply Rpower_1. assumption.
Qed.

Lemma cbrt_cube : forall x, cbrt x * cbrt x * cbrt x = x.
Proof.
  intros x. unfold cbrt.
  destruct (Rlt_dec 0 x) as [Hp | Hnp].
  - apply Rpower_third_cube; assumption.
  - destruct (Rlt_dec x 0) as [Hn | Hnn].
    + assert (H : 0 < - x) by lra.
      pose proof (Rpower_third_cube (- x) H) as E.
      replace (- Rpower (- x) (/ 3) * - Rpower (- x) (/ 3) * - Rpower (- x) (/ 3))
        with (- (Rpower (- x) (/ 3) * Rpower (- x) (/ 3) * Rpower (- x) (/ 3))) by ring.
      lra.
    + assert (x = 0) by lra. subst x. ring.
Qed.

(** [cbrt] is THE real cube root: any real whose cube is [x] is [cbrt x]. *)
Lemma cbrt_unique : forall x y, y * y * y = x -> cbrt x = y.
Proof.
  intros x y H. apply cube_inj. rewrite cbrt_cube. symmetry. assumption.
Qed.

Lemma cbrt_0 : cbrt 0 = 0.
Proof. apply cbrt_unique. ring. Qed.

Lemma cbrt_1 : cbrt 1 = 1.
Proof. apply cbrt_unique. ring. Qed.

Lemma cbrt_8 : cbrt 8 = 2.
Proof. apply cbrt_unique. ring. Qed.

Lemma cbrt_opp : forall x, cbrt (- x) = - cbrt x.
Proof.
  intros x. apply cbrt_unique.
  replace (- cbrt x * - cbrt x * - cbrt x) with (- (cbrt x * cbrt x * cbrt x)) by ring.
  rewrite cbrt_cube. reflexivity.
Qed.

Lemma cbrt_mult : forall x y, cbrt (x * y) = cbrt x * cbrt y.
Proof.
  intros x y. apply cbrt_unique.
  replace (cbrt x * cbrt y * (cbrt x * cbrt y) * (cbrt x * cbrt y))
    with ((cbrt x * cbrt x * cbrt x) * (cbrt y * cbrt y * cbrt y)) by ring.
  rewrite !cbrt_cube. reflexivity.
Qed.

Lemma cbrt_pos : forall x, 0 < x -> 0 < cbrt x.
Proof.
  intros x Hx.
  destruct (Rlt_dec 0 (cbrt x)) as [H | H]; [assumption | exfalso].
  assert (Hle : cbrt x <= 0) by lra.
  pose proof (cbrt_cube x) as E.
  destruct Hle as [Hlt | Heq].
  - apply cube_lt in Hlt. lra.
  - rewrite Heq in E. lra.
Qed.

(* ---------------------------------------------------------------------- *)
(** * math.Atan2 for a positive first argument                             *)
(* ---------------------------------------------------------------------- *)

(** [math.Atan2 y x] is the angle of the point (x, y); for [y > 0] it is
    [PI/2 - atan (x / y)], in the open interval (0, PI).  The code only
    calls it with [y = sqrt (-disc) > 0]. *)
Definition atan2 (y x : R) : R := PI / 2 - atan (x / y).

Lemma atan2_bound : forall y x, 0 < atan2 y x < PI.
Proof.
  intros y x. unfold atan2.
  pose proof (atan_bound (x / y)) as [H1 H2]. split; lra.
Qed.

Lemma atan2_cos :
  forall y x, 0 < y -> cos (atan2 y x) * sqrt (x * x + y * y) = x.
Proof.
  intros y x Hy. unfold atan2. rewrite cos_shift, sin_atan.
  set (z := x / y).
  assert (Hz : 0 < 1 + z²).
  { unfold Rsqr. pose proof (Rle_0_sqr z) as H. unfold Rsqr in H. lra. }
  assert (Hs : 0 < sqrt (1 + z²)) by (apply sqrt_lt_R0; assumption).
  assert (E : sqrt (x * x + y * y) = y * sqrt (1 + z²)).
  { apply sqrt_lem_1.
    - pose proof (Rle_0_sqr x) as H1. pose proof (Rle_0_sqr y) as H2.
      unfold Rsqr in H1, H2. lra.
    - apply Rmult_le_pos; lra.
    - replace (y * sqrt (1 + z²) * (y * sqrt (1 + z²)))
        with (y * y * (sqrt (1 + z²) * sqrt (1 + z²))) by ring.
      rewrite sqrt_sqrt by lra. unfold z, Rsqr. field. lra. }
  rewrite E. unfold z at 1. field. split; lra.
Qed.

(* ---------------------------------------------------------------------- *)
(** * cos 3t = 4 cos^3 t - 3 cos t                                         *)
(* ---------------------------------------------------------------------- *)

Lemma cos_3a :
  forall t, cos (3 * t) = 4 * (cos t * cos t * cos t) - 3 * cos t.
Proof.
  intros t. replace (3 * t) with (2 * t + t) by ring.
  rewrite cos_plus, cos_2a, sin_2a.
  pose proof (sin2_cos2 t) as H. unfold Rsqr in H.
  replace (sin t * sin t) with (1 - cos t * cos t) by lra.
  replace (2 * sin t * cos t * sin t) with (2 * cos t * (sin t * sin t)) by ring.
  replace (sin t * sin t) with (1 - cos t * cos t) by lra.
  ring.
Qed.

Lemma cos_plus_2PI : forall x, cos (x + 2 * PI) = cos x.
Proof.
  intros x. rewrite cos_plus, cos_2PI, sin_2PI. ring.
Qed.

Lemma cos_minus_2PI : forall x, cos (x - 2 * PI) = cos x.
Proof.
  intros x. rewrite cos_minus, cos_2PI, sin_2PI. ring.
Qed.

(* ---------------------------------------------------------------------- *)
(** * The model: solve1, solve2, solve3 in exact real arithmetic           *)
(* ---------------------------------------------------------------------- *)

(** [coeff[i]]: the coefficient of x^i (0 beyond the end; the Go code is
    only called with slices that are long enough). *)
Definition co (coeff : list R) (i : nat) : R := nth i coeff 0.

(** [None] is Go's nil slice, [Some l] a non-nil slice. *)
Definition vals (r : option (list R)) : list R :=
  match r with Some l => l | None => [] end.

(** [aeq0 x] with the tolerance replaced by the exact test. *)
Definition aeq0 (x : R) : bool := if Req_EM_T x 0 then true else false.

Definition solve1 (coeff : list R) : option (list R) :=
  let a := co coeff 1 in
  let b := co coeff 0 in
  if aeq0 a then
    (if aeq0 b then None (* every x is a root *) else Some [])
  else Some [ - b / a ].

Definition solve2 (coeff : list R) : option (list R) :=
  let a := co coeff 2 in
  let b := co coeff 1 in
  let c := co coeff 0 in
  if aeq0 a then solve1 coeff else
  let b_over_2a := b / (2 * a) in
  let c_over_a := c / a in
  let disc := b_over_2a * b_over_2a - c_over_a in
  if Rlt_dec disc 0 then Some []
  else if Rlt_dec 0 disc then
    let u := - b_over_2a + sqrt disc in
    Some [u; -2 * b_over_2a - u]
  else Some [ - b_over_2a ].

Definition solve3 (coeff : list R) : option (list R) :=
  let a := co coeff 3 in
  let b := co coeff 2 in
  let c := co coeff 1 in
  let d := co coeff 0 in
  if aeq0 a then solve2 coeff else
  let b_over_3a := b / (3 * a) in
  let c_over_a := c / a in
  let d_over_a := d / a in
  let p := b_over_3a * b_over_3a in
  let q := 2 * b_over_3a * p - b_over_3a * c_over_a + d_over_a in
  let p := c_over_a / 3 - p in
  let disc := q * q + 4 * p * p * p in
  let roots :=
    if Rlt_dec disc 0 then
      let r := 0.5 * sqrt (- disc + q * q) in
      let theta := atan2 (sqrt (- disc)) (- q) in
      let temp := 2 * cbrt r in
      [ temp * cos (theta / 3);
        temp * cos ((theta + 2 * PI) / 3);
        temp * cos ((theta - 2 * PI) / 3) ]
    else
      let alpha := 0.5 * (sqrt disc - q) in
      let beta := - q - alpha in
      let c := cbrt alpha + cbrt beta in
      if Rlt_dec 0 disc then [ c ] else [ c; -0.5 * c; -0.5 * c ] in
  (* for i := range roots { roots[i] -= b_over_3a } *)
  Some (map (fun r => r - b_over_3a) roots).

(** The polynomials whose roots are looked for. *)
Definition poly1 (coeff : list R) (x : R) : R :=
  co coeff 1 * x + co coeff 0.
Definition poly2 (coeff : list R) (x : R) : R :=
  co coeff 2 * (x * x) + co coeff 1 * x + co coeff 0.
Definition poly3 (coeff : list R) (x : R) : R :=
  co coeff 3 * (x * x * x) + co coeff 2 * (x * x) + co coeff 1 * x + co coeff 0.

Lemma aeq0_true : forall x, x = 0 -> aeq0 x = true.
Proof. intros x H. unfold aeq0. destruct (Req_EM_T x 0); [reflexivity | contradiction]. Qed.

Lemma aeq0_false : forall x, x <> 0 -> aeq0 x = false.
Proof. intros x H. unfold aeq0. destruct (Req_EM_T x 0); [contradiction | reflexivity]. Qed.

(* ---------------------------------------------------------------------- *)
(** * solve1                                                               *)
(* ---------------------------------------------------------------------- *)

Theorem solve1_correct :
  forall coeff x, co coeff 1 <> 0 ->
    (In x (vals (solve1 coeff)) <-> poly1 coeff x = 0).
Proof.
  intros coeff x Ha. unfold solve1, poly1.
  rewrite (aeq0_false _ Ha). cbn [vals In].
  split.
  - intros [H | []]. subst x. field. assumption.
  - intros H. left.
    apply Rmult_eq_reg_l with (co coeff 1); [| assumption].
    replace (co coeff 1 * (- co coeff 0 / co coeff 1)) with (- co coeff 0)
      by (field; assumption).
    lra.
Qed.
Print Assumptions solve1_correct.

(** a = 0, b <> 0: no root, and none returned (non-nil empty slice). *)
Theorem solve1_no_root :
  forall coeff, co coeff 1 = 0 -> co coeff 0 <> 0 ->
    solve1 coeff = Some [] /\ forall x, poly1 coeff x <> 0.
Proof.
  intros coeff Ha Hb. unfold solve1, poly1.
  rewrite (aeq0_true _ Ha), (aeq0_false _ Hb). split; [reflexivity |].
  intros x. rewrite Ha. lra.
Qed.

(** a = b = 0: the code returns nil although every x is a root. *)
Theorem solve1_degenerate :
  forall coeff, co coeff 1 = 0 -> co coeff 0 = 0 ->
    solve1 coeff = None /\ vals (solve1 coeff) = [] /\ forall x, poly1 coeff x = 0.
Proof.
  intros coeff Ha Hb. unfold solve1, poly1.
  rewrite (aeq0_true _ Ha), (aeq0_true _ Hb). repeat split.
  intros x. rewrite Ha, Hb. ring.
Qed.
Print Assumptions solve1_degenerate.

(** All cases of solve1 together: unless both coefficients vanish, the
    returned values are exactly the roots. *)
Theorem solve1_correct_total :
  forall coeff x, ~ (co coeff 1 = 0 /\ co coeff 0 = 0) ->
    (In x (vals (solve1 coeff)) <-> poly1 coeff x = 0).
Proof.
  intros coeff x Hnd.
  destruct (Req_dec (co coeff 1) 0) as [Ha | Ha].
  - assert (Hb : co coeff 0 <> 0) by (intros Hb; apply Hnd; split; assumption).
    destruct (solve1_no_root coeff Ha Hb) as [E Hno]. rewrite E. cbn [vals In].
    split; [intros [] | intros H; exact (Hno x H)].
  - apply solve1_correct; assumption.
Qed.

Example ex_solve1 : solve1 [6; -3] = Some [2].
Proof.
  unfold solve1, co. cbn [nth]. rewrite aeq0_false by lra. f_equal. f_equal. field.
Qed.

Example ex_solve1_roots : forall x, In x (vals (solve1 [6; -3])) <-> x = 2.
Proof.
  intros x. rewrite solve1_correct by (unfold co; cbn [nth]; lra).
  unfold poly1, co. cbn [nth]. split; intros; lra.
Qed.

(* ---------------------------------------------------------------------- *)
(** * solve2                                                               *)
(* ---------------------------------------------------------------------- *)

Lemma solve2_linear :
  forall coeff, co coeff 2 = 0 -> solve2 coeff = solve1 coeff.
Proof. intros coeff Ha. unfold solve2. rewrite (aeq0_true _ Ha). reflexivity. Qed.

(** completing the square *)
Lemma poly2_square :
  forall coeff x, co coeff 2 <> 0 ->
    poly2 coeff x
    = co coeff 2 *
      ((x + co coeff 1 / (2 * co coeff 2)) * (x + co coeff 1 / (2 * co coeff 2))
       - (co coeff 1 / (2 * co coeff 2) * (co coeff 1 / (2 * co coeff 2))
          - co coeff 0 / co coeff 2)).
Proof. intros coeff x Ha. unfold poly2. field. assumption. Qed.

Theorem solve2_correct :
  forall coeff x, co coeff 2 <> 0 ->
    (In x (vals (solve2 coeff)) <-> poly2 coeff x = 0).
Proof.
  intros coeff x Ha.
  rewrite (poly2_square coeff x Ha).
  unfold solve2. rewrite (aeq0_false _ Ha).
  set (a := co coeff 2) in *.
  set (B := co coeff 1 / (2 * a)).
  set (disc := B * B - co coeff 0 / a).
  cbv zeta.
  assert (Hmul : forall y, a * y = 0 <-> y = 0).
  { intros y. split; intros H.
    - apply Rmult_integral in H. destruct H; [contradiction | assumption].
    - subst y. ring. }
  rewrite Hmul.
  destruct (Rlt_dec disc 0) as [Hneg | Hnneg].
  - cbn [vals In]. split; [intros [] |].
    intros H. pose proof (Rle_0_sqr (x + B)) as Hs. unfold Rsqr in Hs. lra.
  - destruct (Rlt_dec 0 disc) as [Hpos | Hnpos].
    + cbn [vals In].
      assert (Hs : sqrt disc * sqrt disc = disc) by (apply sqrt_sqrt; lra).
      split.
      * intros [H | [H | []]]; subst x.
        -- replace (- B + sqrt disc + B) with (sqrt disc) by ring. lra.
        -- replace (-2 * B - (- B + sqrt disc) + B) with (- sqrt disc) by ring.
           replace (- sqrt disc * - sqrt disc) with (sqrt disc * sqrt disc) by ring. lra.
      * intros H.
        assert (F : (x + B - sqrt disc) * (x + B + sqrt disc) = 0).
        { replace ((x + B - sqrt disc) * (x + B + sqrt disc))
            with ((x + B) * (x + B) - sqrt disc * sqrt disc) by ring. lra. }
        apply Rmult_integral in F. destruct F as [F | F].
        -- left. lra.
        -- right. left. lra.
    + assert (Hz : disc = 0) by lra. cbn [vals In]. rewrite Hz.
      split.
      * intros [H | []]. subst x. ring.
      * intros H. left.
        assert (F : (x + B) * (x + B) = 0) by lra.
        apply Rmult_integral in F. destruct F; lra.
Qed.
Print Assumptions solve2_correct.

(** All cases of solve2 together. *)
Theorem solve2_correct_total :
  forall coeff x, ~ (co coeff 2 = 0 /\ co coeff 1 = 0 /\ co coeff 0 = 0) ->
    (In x (vals (solve2 coeff)) <-> poly2 coeff x = 0).
Proof.
  intros coeff x Hnd.
  destruct (Req_dec (co coeff 2) 0) as [Ha | Ha].
  - rewrite (solve2_linear _ Ha).
    rewrite solve1_correct_total by (intros [H1 H0]; apply Hnd; repeat split; assumption).
    unfold poly1, poly2. rewrite Ha. split; intros; lra.
  - apply solve2_correct; assumption.
Qed.

(** x^2 - 3x + 2 = (x - 1)(x - 2) *)
Example ex_solve2_roots :
  forall x, In x (vals (solve2 [2; -3; 1])) <-> x = 1 \/ x = 2.
Proof.
  intros x. rewrite solve2_correct by (unfold co; cbn [nth]; lra).
  unfold poly2, co. cbn [nth].
  replace (1 * (x * x) + -3 * x + 2) with ((x - 1) * (x - 2)) by ring.
  split.
  - intros H. apply Rmult_integral in H. destruct H; [left | right]; lra.
  - intros [H | H]; subst x; ring.
Qed.

(** x^2 + 1 has no real root, x^2 - 2x + 1 has the double root 1 *)
Example ex_solve2_none : forall x, ~ In x (vals (solve2 [1; 0; 1])).
Proof.
  intros x. rewrite solve2_correct by (unfold co; cbn [nth]; lra).
  unfold poly2, co. cbn [nth]. pose proof (Rle_0_sqr x) as H. unfold Rsqr in H. lra.
Qed.

Example ex_solve2_double : solve2 [1; -2; 1] = Some [1].
Proof.
  unfold solve2, co. cbn [nth]. rewrite aeq0_false by lra. cbv zeta.
  destruct (Rlt_dec (-2 / (2 * 1) * (-2 / (2 * 1)) - 1 / 1) 0) as [H | H]; [exfalso; lra |].
  destruct (Rlt_dec 0 (-2 / (2 * 1) * (-2 / (2 * 1)) - 1 / 1)) as [H' | H']; [exfalso; lra |].
  f_equal. f_equal. field.
Qed.

(* ---------------------------------------------------------------------- *)
(** * The depressed cubic  t^3 + 3 p t + q                                 *)
(* ---------------------------------------------------------------------- *)

Definition dep (p q t : R) : R := t * t * t + 3 * p * t + q.

(** The part of solve3 between the computation of [disc] and the final
    shift, as a function of the final [p] and of [q] (same text). *)
Definition dep_roots (p q : R) : list R :=
  let disc := q * q + 4 * p * p * p in
  if Rlt_dec disc 0 then
    let r := 0.5 * sqrt (- disc + q * q) in
    let theta := atan2 (sqrt (- disc)) (- q) in
    let temp := 2 * cbrt r in
    [ temp * cos (theta / 3);
      temp * cos ((theta + 2 * PI) / 3);
      temp * cos ((theta - 2 * PI) / 3) ]
  else
    let alpha := 0.5 * (sqrt disc - q) in
    let beta := - q - alpha in
    let c := cbrt alpha + cbrt beta in
    if Rlt_dec 0 disc then [ c ] else [ c; -0.5 * c; -0.5 * c ].

(** ** Case disc < 0: three distinct real roots (trigonometric form) *)

Lemma disc_neg_p_neg : forall p q, q * q + 4 * p * p * p < 0 -> p < 0.
Proof.
  intros p q H.
  destruct (Rlt_dec p 0) as [Hp | Hp]; [assumption | exfalso].
  assert (H0 : 0 <= p) by lra.
  assert (H1 : 0 <= p * p * p) by (apply Rmult_le_pos; [apply Rmult_le_pos |]; assumption).
  pose proof (Rle_0_sqr q) as H2. unfold Rsqr in H2. lra.
Qed.

Lemma trig_facts :
  forall p q, q * q + 4 * p * p * p < 0 ->
    let disc := q * q + 4 * p * p * p in
    let r := 0.5 * sqrt (- disc + q * q) in
    let theta := atan2 (sqrt (- disc)) (- q) in
    let m := cbrt r in
    0 < m /\ m * m = - p /\ m * m * m = r /\ 2 * r * cos theta = - q /\ 0 < theta < PI.
Proof.
  intros p q Hd disc r theta m.
  pose proof (disc_neg_p_neg p q Hd) as Hp.
  assert (Harg : - disc + q * q = 4 * (- p * - p * - p)) by (unfold disc; ring).
  assert (Hcube : 0 < - p * - p * - p) by (apply cube_pos; lra).
  assert (Hargpos : 0 < - disc + q * q) by lra.
  assert (Hs : 0 < sqrt (- disc + q * q)) by (apply sqrt_lt_R0; assumption).
  assert (Hss : sqrt (- disc + q * q) * sqrt (- disc + q * q) = - disc + q * q)
    by (apply sqrt_sqrt; lra).
  assert (Hr : 0 < r) by (unfold r; lra).
  assert (Hrr : r * r = - p * - p * - p).
  { unfold r. rewrite half_eq.
    replace (/ 2 * sqrt (- disc + q * q) * (/ 2 * sqrt (- disc + q * q)))
      with (/ 4 * (sqrt (- disc + q * q) * sqrt (- disc + q * q))) by field.
    rewrite Hss, Harg. field. }
  assert (Hm : 0 < m) by (apply cbrt_pos; assumption).
  assert (Hm3 : m * m * m = r) by (apply cbrt_cube).
  assert (Hm2 : m * m = - p).
  { apply cube_inj.
    replace (m * m * (m * m) * (m * m)) with ((m * m * m) * (m * m * m)) by ring.
    rewrite Hm3. assumption. }
  assert (Hy : 0 < sqrt (- disc)) by (apply sqrt_lt_R0; unfold disc; lra).
  pose proof (atan2_cos (sqrt (- disc)) (- q) Hy) as Hc.
  rewrite sqrt_sqrt in Hc by (unfold disc; lra).
  replace (- q * - q + - disc) with (- disc + q * q) in Hc by ring.
  fold theta in Hc.
  repeat split; try assumption.
  - unfold r. rewrite half_eq. lra.
  - apply atan2_bound.
  - apply atan2_bound.
Qed.

Lemma trig_root :
  forall p q m r theta phi,
    m * m = - p -> m * m * m = r -> 2 * r * cos theta = - q ->
    cos (3 * phi) = cos theta ->
    dep p q (2 * m * cos phi) = 0.
Proof.
  intros p q m r theta phi Hm2 Hm3 Hq Hphi.
  rewrite cos_3a in Hphi. unfold dep.
  set (c := cos phi) in *.
  assert (Ep : p = - (m * m)) by lra.
  assert (Eq : q = - (2 * (m * m * m) * (4 * (c * c * c) - 3 * c))).
  { rewrite Hphi, Hm3. lra. }
  rewrite Ep, Eq. ring.
Qed.

Lemma trig_order :
  forall theta, 0 < theta < PI ->
    cos ((theta + 2 * PI) / 3) < cos ((theta - 2 * PI) / 3) < cos (theta / 3).
Proof.
  intros theta [H0 H1]. pose proof PI_RGT_0 as HPI.
  replace ((theta - 2 * PI) / 3) with (- ((2 * PI - theta) / 3)) by field.
  rewrite cos_neg.
  split; apply cos_decreasing_1; lra.
Qed.

(** a depressed cubic with three distinct roots has no other root *)
Lemma dep_sum0 :
  forall p q a b c,
    dep p q a = 0 -> dep p q b = 0 -> dep p q c = 0 ->
    a <> b -> a <> c -> b <> c -> a + b + c = 0.
Proof.
  intros p q a b c Ha Hb Hc Hab Hac Hbc. unfold dep in *.
  assert (E1 : (a - b) * (a * a + a * b + b * b + 3 * p) = 0).
  { replace ((a - b) * (a * a + a * b + b * b + 3 * p))
      with ((a * a * a + 3 * p * a + q) - (b * b * b + 3 * p * b + q)) by ring. lra. }
  assert (E2 : (a - c) * (a * a + a * c + c * c + 3 * p) = 0).
  { replace ((a - c) * (a * a + a * c + c * c + 3 * p))
      with ((a * a * a + 3 * p * a + q) - (c * c * c + 3 * p * c + q)) by ring. lra. }
  apply Rmult_integral in E1. destruct E1 as [E1 | E1]; [exfalso; lra |].
  apply Rmult_integral in E2. destruct E2 as [E2 | E2]; [exfalso; lra |].
  assert (E3 : (b - c) * (a + b + c) = 0).
  { replace ((b - c) * (a + b + c))
      with ((a * a + a * b + b * b + 3 * p) - (a * a + a * c + c * c + 3 * p)) by ring. lra. }
  apply Rmult_integral in E3. destruct E3 as [E3 | E3]; [exfalso; lra | assumption].
Qed.

Lemma dep_three_roots :
  forall p q t1 t2 t3 t,
    dep p q t1 = 0 -> dep p q t2 = 0 -> dep p q t3 = 0 ->
    t1 <> t2 -> t1 <> t3 -> t2 <> t3 ->
    dep p q t = 0 -> t = t1 \/ t = t2 \/ t = t3.
Proof.
  intros p q t1 t2 t3 t H1 H2 H3 H12 H13 H23 Ht.
  destruct (Req_dec t t1) as [E1 | N1]; [left; assumption |].
  destruct (Req_dec t t2) as [E2 | N2]; [right; left; assumption |].
  right; right.
  assert (S1 : t1 + t2 + t3 = 0) by (apply (dep_sum0 p q); assumption).
  assert (S2 : t1 + t2 + t = 0).
  { apply (dep_sum0 p q); try assumption; intros E; [apply N1 | apply N2]; lra. }
  lra.
Qed.

(** ** Case disc >= 0: Cardano's form *)

Lemma cardano_facts :
  forall p q, 0 <= q * q + 4 * p * p * p ->
    let disc := q * q + 4 * p * p * p in
    let alpha := 0.5 * (sqrt disc - q) in
    let beta := - q - alpha in
    let u := cbrt alpha in
    let v := cbrt beta in
    u * v = - p /\ u * u * u + v * v * v = - q /\
    (0 < disc -> u <> v) /\ (disc = 0 -> u = v).
Proof.
  intros p q Hd disc alpha beta u v.
  assert (Hss : sqrt disc * sqrt disc = disc) by (apply sqrt_sqrt; assumption).
  assert (Hu : u * u * u = alpha) by apply cbrt_cube.
  assert (Hv : v * v * v = beta) by apply cbrt_cube.
  assert (Hab : alpha * beta = - p * - p * - p).
  { unfold beta, alpha. rewrite half_eq.
    replace (/ 2 * (sqrt disc - q) * (- q - / 2 * (sqrt disc - q)))
      with (/ 4 * (q * q - sqrt disc * sqrt disc)) by field.
    rewrite Hss. unfold disc. field. }
  repeat split.
  - apply cube_inj.
    replace (u * v * (u * v) * (u * v)) with ((u * u * u) * (v * v * v)) by ring.
    rewrite Hu, Hv. assumption.
  - rewrite Hu, Hv. unfold beta. ring.
  - intros Hpos E.
    assert (Es : alpha = beta) by (rewrite <- Hu, <- Hv, E; reflexivity).
    unfold beta, alpha in Es. rewrite half_eq in Es.
    pose proof (sqrt_lt_R0 disc Hpos) as Hs. lra.
  - intros Hz. unfold u, v. f_equal. unfold beta, alpha. rewrite Hz, sqrt_0, half_eq. field.
Qed.

(** the Cardano value is a root *)
Lemma cardano_root :
  forall p q u v, u * v = - p -> u * u * u + v * v * v = - q -> dep p q (u + v) = 0.
Proof.
  intros p q u v Huv Hq. unfold dep.
  assert (Ep : p = - (u * v)) by lra.
  assert (Eq : q = - (u * u * u + v * v * v)) by lra.
  rewrite Ep, Eq. ring.
Qed.

(** disc = 0 (u = v): factorisation (t - 2u)(t + u)^2 *)
Lemma cardano_double_factor :
  forall p q u t, u * u = - p -> u * u * u + u * u * u = - q ->
    dep p q t = (t - 2 * u) * ((t + u) * (t + u)).
Proof.
  intros p q u t Hp Hq. unfold dep.
  assert (Ep : p = - (u * u)) by lra.
  assert (Eq : q = - (u * u * u + u * u * u)) by lra.
  rewrite Ep, Eq. ring.
Qed.

(** disc > 0 (u <> v): the value u + v is the only real root *)
Lemma cardano_single :
  forall p q u v t, u * v = - p -> u * u * u + v * v * v = - q -> u <> v ->
    dep p q t = 0 -> t = u + v.
Proof.
  intros p q u v t Huv Hq Hne Ht.
  pose proof (cardano_root p q u v Huv Hq) as Hc.
  set (c := u + v) in *.
  unfold dep in *.
  assert (F : (t - c) * (t * t + t * c + c * c + 3 * p) = 0).
  { replace ((t - c) * (t * t + t * c + c * c + 3 * p))
      with ((t * t * t + 3 * p * t + q) - (c * c * c + 3 * p * c + q)) by ring. lra. }
  apply Rmult_integral in F. destruct F as [F | F]; [lra | exfalso].
  assert (G : t * t + t * c + c * c + 3 * p
              = (t + c / 2) * (t + c / 2) + 3 / 4 * ((u - v) * (u - v))).
  { assert (Ep : p = - (u * v)) by lra. rewrite Ep. unfold c. field. }
  assert (H1 : 0 <= (t + c / 2) * (t + c / 2)) by apply Rle_0_sqr.
  assert (H2 : 0 < (u - v) * (u - v)).
  { assert (N : u - v <> 0) by lra.
    apply Rsqr_pos_lt in N. unfold Rsqr in N. exact N. }
  lra.
Qed.

(** ** Soundness and completeness of [dep_roots] *)

Theorem dep_roots_sound :
  forall p q t, In t (dep_roots p q) -> dep p q t = 0.
Proof.
  intros p q t. unfold dep_roots. cbv zeta.
  destruct (Rlt_dec (q * q + 4 * p * p * p) 0) as [Hneg | Hnneg].
  - destruct (trig_facts p q Hneg) as (Hm & Hm2 & Hm3 & Hq & Hth).
    cbv zeta in *.
    set (disc := q * q + 4 * p * p * p) in *.
    set (r := 0.5 * sqrt (- disc + q * q)) in *.
    set (theta := atan2 (sqrt (- disc)) (- q)) in *.
    set (m := cbrt r) in *.
    cbn [In].
    intros [H | [H | [H | []]]]; subst t;
      apply (trig_root p q m r theta); try assumption.
    + f_equal. field.
    + replace (3 * ((theta + 2 * PI) / 3)) with (theta + 2 * PI) by field.
      apply cos_plus_2PI.
    + replace (3 * ((theta - 2 * PI) / 3)) with (theta - 2 * PI) by field.
      apply cos_minus_2PI.
  - assert (Hd : 0 <= q * q + 4 * p * p * p) by lra.
    destruct (cardano_facts p q Hd) as (Huv & Hq & Hne & Heq).
    cbv zeta in *.
    set (disc := q * q + 4 * p * p * p) in *.
    set (alpha := 0.5 * (sqrt disc - q)) in *.
    set (beta := - q - alpha) in *.
    set (u := cbrt alpha) in *.
    set (v := cbrt beta) in *.
    destruct (Rlt_dec 0 disc) as [Hpos | Hnpos]; cbn [In].
    + intros [H | []]. subst t. apply cardano_root; assumption.
    + assert (Hz : disc = 0) by lra. specialize (Heq Hz).
      intros [H | [H | [H | []]]]; subst t.
      * apply cardano_root; assumption.
      * rewrite <- Heq in *.
        rewrite (cardano_double_factor p q u _ Huv Hq). rewrite mhalf_eq. field.
      * rewrite <- Heq in *.
        rewrite (cardano_double_factor p q u _ Huv Hq). rewrite mhalf_eq. field.
Qed.

Theorem dep_roots_complete :
  forall p q t, dep p q t = 0 -> In t (dep_roots p q).
Proof.
  intros p q t Ht. unfold dep_roots. cbv zeta.
  destruct (Rlt_dec (q * q + 4 * p * p * p) 0) as [Hneg | Hnneg].
  - destruct (trig_facts p q Hneg) as (Hm & Hm2 & Hm3 & Hq & Hth).
    cbv zeta in *.
    set (disc := q * q + 4 * p * p * p) in *.
    set (r := 0.5 * sqrt (- disc + q * q)) in *.
    set (theta := atan2 (sqrt (- disc)) (- q)) in *.
    set (m := cbrt r) in *.
    destruct (trig_order theta Hth) as [Ho1 Ho2].
    assert (R1 : dep p q (2 * m * cos (theta / 3)) = 0).
    { apply (trig_root p q m r theta); try assumption. f_equal. field. }
    assert (R2 : dep p q (2 * m * cos ((theta + 2 * PI) / 3)) = 0).
    { apply (trig_root p q m r theta); try assumption.
      replace (3 * ((theta + 2 * PI) / 3)) with (theta + 2 * PI) by field.
      apply cos_plus_2PI. }
    assert (R3 : dep p q (2 * m * cos ((theta - 2 * PI) / 3)) = 0).
    { apply (trig_root p q m r theta); try assumption.
      replace (3 * ((theta - 2 * PI) / 3)) with (theta - 2 * PI) by field.
      apply cos_minus_2PI. }
    assert (T : 0 < 2 * m) by lra.
    assert (L1 : 2 * m * cos ((theta + 2 * PI) / 3) < 2 * m * cos ((theta - 2 * PI) / 3))
      by (apply Rmult_lt_compat_l; assumption).
    assert (L2 : 2 * m * cos ((theta - 2 * PI) / 3) < 2 * m * cos (theta / 3))
      by (apply Rmult_lt_compat_l; assumption).
    cbn [In].
    assert (N12 : 2 * m * cos (theta / 3) <> 2 * m * cos ((theta + 2 * PI) / 3)) by lra.
    assert (N13 : 2 * m * cos (theta / 3) <> 2 * m * cos ((theta - 2 * PI) / 3)) by lra.
    assert (N23 : 2 * m * cos ((theta + 2 * PI) / 3) <> 2 * m * cos ((theta - 2 * PI) / 3)) by lra.
    destruct (dep_three_roots p q _ _ _ t R1 R2 R3 N12 N13 N23 Ht) as [E | [E | E]].
    + left. symmetry. assumption.
    + right. left. symmetry. assumption.
    + right. right. left. symmetry. assumption.
  - assert (Hd : 0 <= q * q + 4 * p * p * p) by lra.
    destruct (cardano_facts p q Hd) as (Huv & Hq & Hne & Heq).
    cbv zeta in *.
    set (disc := q * q + 4 * p * p * p) in *.
    set (alpha := 0.5 * (sqrt disc - q)) in *.
    set (beta := - q - alpha) in *.
    set (u := cbrt alpha) in *.
    set (v := cbrt beta) in *.
    destruct (Rlt_dec 0 disc) as [Hpos | Hnpos]; cbn [In].
    + left. symmetry. apply (cardano_single p q); auto.
    + assert (Hz : disc = 0) by lra. specialize (Heq Hz).
      rewrite <- Heq in *.
      rewrite (cardano_double_factor p q u t Huv Hq) in Ht.
      apply Rmult_integral in Ht. destruct Ht as [Ht | Ht].
      * left. lra.
      * right. left. apply Rmult_integral in Ht. rewrite mhalf_eq. destruct Ht; lra.
Qed.

(* ---------------------------------------------------------------------- *)
(** * solve3                                                               *)
(* ---------------------------------------------------------------------- *)

(** The intermediate values of solve3 as functions of the input:
    [b3a] is [b_over_3a], [dep_p] the final value of [p], [dep_q] is [q],
    [disc3] is [disc]. *)
Definition b3a (coeff : list R) : R := co coeff 2 / (3 * co coeff 3).
Definition dep_p (coeff : list R) : R :=
  co coeff 1 / co coeff 3 / 3 - b3a coeff * b3a coeff.
Definition dep_q (coeff : list R) : R :=
  2 * b3a coeff * (b3a coeff * b3a coeff)
  - b3a coeff * (co coeff 1 / co coeff 3) + co coeff 0 / co coeff 3.
Definition disc3 (coeff : list R) : R :=
  dep_q coeff * dep_q coeff + 4 * dep_p coeff * dep_p coeff * dep_p coeff.

Lemma solve3_quadratic :
  forall coeff, co coeff 3 = 0 -> solve3 coeff = solve2 coeff.
Proof. intros coeff Ha. unfold solve3. rewrite (aeq0_true _ Ha). reflexivity. Qed.

Lemma solve3_unfold :
  forall coeff, co coeff 3 <> 0 ->
    solve3 coeff
    = Some (map (fun r => r - b3a coeff) (dep_roots (dep_p coeff) (dep_q coeff))).
Proof. intros coeff Ha. unfold solve3. rewrite (aeq0_false _ Ha). reflexivity. Qed.

(** the substitution x = t - b/(3a) *)
Lemma poly3_dep :
  forall coeff x, co coeff 3 <> 0 ->
    poly3 coeff x = co coeff 3 * dep (dep_p coeff) (dep_q coeff) (x + b3a coeff).
Proof.
  intros coeff x Ha. unfold poly3, dep, dep_p, dep_q, b3a. field. assumption.
Qed.

Lemma in_map_shift :
  forall B l x, In x (map (fun r : R => r - B) l) <-> In (x + B) l.
Proof.
  intros B l x. rewrite in_map_iff. split.
  - intros (r & E & Hr). replace (x + B) with r by lra. assumption.
  - intros H. exists (x + B). split; [ring | assumption].
Qed.

Lemma solve3_in :
  forall coeff x, co coeff 3 <> 0 ->
    (In x (vals (solve3 coeff))
     <-> In (x + b3a coeff) (dep_roots (dep_p coeff) (dep_q coeff))).
Proof.
  intros coeff x Ha. rewrite (solve3_unfold coeff Ha). cbn [vals]. apply in_map_shift.
Qed.

Lemma poly3_root_dep :
  forall coeff x, co coeff 3 <> 0 ->
    (poly3 coeff x = 0 <-> dep (dep_p coeff) (dep_q coeff) (x + b3a coeff) = 0).
Proof.
  intros coeff x Ha. rewrite (poly3_dep coeff x Ha). split.
  - intros H. apply Rmult_integral in H. destruct H; [contradiction | assumption].
  - intros H. rewrite H. ring.
Qed.

(** 2. Every returned value is a root. *)
Theorem solve3_sound :
  forall coeff x, co coeff 3 <> 0 ->
    In x (vals (solve3 coeff)) -> poly3 coeff x = 0.
Proof.
  intros coeff x Ha H.
  apply (poly3_root_dep coeff x Ha).
  apply dep_roots_sound.
  apply (solve3_in coeff x Ha). assumption.
Qed.
Print Assumptions solve3_sound.

(** 3. Every real root is returned (all three cases of disc). *)
Theorem solve3_complete :
  forall coeff x, co coeff 3 <> 0 ->
    poly3 coeff x = 0 -> In x (vals (solve3 coeff)).
Proof.
  intros coeff x Ha H.
  apply (solve3_in coeff x Ha).
  apply dep_roots_complete.
  apply (poly3_root_dep coeff x Ha). assumption.
Qed.
Print Assumptions solve3_complete.

Theorem solve3_correct :
  forall coeff x, co coeff 3 <> 0 ->
    (In x (vals (solve3 coeff)) <-> poly3 coeff x = 0).
Proof.
  intros coeff x Ha. split; [apply solve3_sound | apply solve3_complete]; assumption.
Qed.
Print Assumptions solve3_correct.

(** The whole chain solve3 -> solve2 -> solve1: unless all four
    coefficients vanish, the returned values are exactly the real roots. *)
Theorem solve3_correct_total :
  forall coeff x,
    ~ (co coeff 3 = 0 /\ co coeff 2 = 0 /\ co coeff 1 = 0 /\ co coeff 0 = 0) ->
    (In x (vals (solve3 coeff)) <-> poly3 coeff x = 0).
Proof.
  intros coeff x Hnd.
  destruct (Req_dec (co coeff 3) 0) as [Ha | Ha].
  - rewrite (solve3_quadratic _ Ha).
    rewrite solve2_correct_total
      by (intros (H2 & H1 & H0); apply Hnd; repeat split; assumption).
    unfold poly2, poly3. rewrite Ha. split; intros; lra.
  - apply solve3_correct; assumption.
Qed.
Print Assumptions solve3_correct_total.

(** The only input on which the result is not the set of roots: the zero
    polynomial (every x is a root, nil is returned). *)
Theorem solve3_degenerate :
  forall coeff,
    co coeff 3 = 0 -> co coeff 2 = 0 -> co coeff 1 = 0 -> co coeff 0 = 0 ->
    solve3 coeff = None /\ forall x, poly3 coeff x = 0.
Proof.
  intros coeff H3 H2 H1 H0.
  rewrite (solve3_quadratic _ H3), (solve2_linear _ H2).
  destruct (solve1_degenerate coeff H1 H0) as (E & _ & _). split; [assumption |].
  intros x. unfold poly3. rewrite H3, H2, H1, H0. ring.
Qed.

(* ---------------------------------------------------------------------- *)
(** * Shape of the result in the three branches                            *)
(* ---------------------------------------------------------------------- *)

(** disc < 0: three pairwise distinct values (second < third < first). *)
Theorem solve3_disc_neg_three_distinct :
  forall coeff, co coeff 3 <> 0 -> disc3 coeff < 0 ->
    exists x1 x2 x3,
      solve3 coeff = Some [x1; x2; x3] /\ x2 < x3 < x1 /\
      poly3 coeff x1 = 0 /\ poly3 coeff x2 = 0 /\ poly3 coeff x3 = 0.
Proof.
  intros coeff Ha Hd.
  assert (S : forall x, In x (vals (solve3 coeff)) -> poly3 coeff x = 0)
    by (intros x; apply solve3_sound; assumption).
  rewrite (solve3_unfold coeff Ha) in *. cbn [vals] in S.
  unfold disc3 in Hd.
  set (p := dep_p coeff) in *. set (q := dep_q coeff) in *. set (B := b3a coeff) in *.
  destruct (trig_facts p q Hd) as (Hm & _ & _ & _ & Hth).
  unfold dep_roots in *. cbv zeta in *.
  destruct (Rlt_dec (q * q + 4 * p * p * p) 0) as [_ | N]; [| contradiction].
  set (disc := q * q + 4 * p * p * p) in *.
  set (r := 0.5 * sqrt (- disc + q * q)) in *.
  set (theta := atan2 (sqrt (- disc)) (- q)) in *.
  set (m := cbrt r) in *.
  destruct (trig_order theta Hth) as [Ho1 Ho2].
  cbn [map] in *.
  eexists; eexists; eexists. split; [reflexivity |].
  assert (T : 0 < 2 * m) by lra.
  assert (L1 : 2 * m * cos ((theta + 2 * PI) / 3) < 2 * m * cos ((theta - 2 * PI) / 3))
    by (apply Rmult_lt_compat_l; assumption).
  assert (L2 : 2 * m * cos ((theta - 2 * PI) / 3) < 2 * m * cos (theta / 3))
    by (apply Rmult_lt_compat_l; assumption).
  split; [split; lra |].
  repeat split; apply S; cbn [In]; auto.
Qed.

(** disc > 0: exactly one value is returned. *)
Theorem solve3_disc_pos_single :
  forall coeff, co coeff 3 <> 0 -> 0 < disc3 coeff ->
    exists x1, solve3 coeff = Some [x1] /\
               forall x, poly3 coeff x = 0 <-> x = x1.
Proof.
  intros coeff Ha Hd.
  assert (S : forall x, In x (vals (solve3 coeff)) <-> poly3 coeff x = 0)
    by (intros x; apply solve3_correct; assumption).
  rewrite (solve3_unfold coeff Ha) in *. cbn [vals] in S.
  unfold disc3 in Hd.
  set (p := dep_p coeff) in *. set (q := dep_q coeff) in *. set (B := b3a coeff) in *.
  unfold dep_roots in *. cbv zeta in *.
  destruct (Rlt_dec (q * q + 4 * p * p * p) 0) as [N | _]; [exfalso; lra |].
  destruct (Rlt_dec 0 (q * q + 4 * p * p * p)) as [_ | N]; [| contradiction].
  cbn [map] in *. eexists. split; [reflexivity |].
  intros x. rewrite <- S. cbn [In]. split.
  - intros [H | []]. symmetry. assumption.
  - intros H. left. symmetry. assumption.
Qed.

(** disc = 0: the simple root and the double root (listed twice) are both
    returned.  This is the branch that rounding makes unreachable. *)
Theorem solve3_disc_zero_both :
  forall coeff, co coeff 3 <> 0 -> disc3 coeff = 0 ->
    exists c,
      solve3 coeff = Some [c - b3a coeff; -0.5 * c - b3a coeff; -0.5 * c - b3a coeff] /\
      forall x, poly3 coeff x
                = co coeff 3 * ((x - (c - b3a coeff))
                                * ((x - (-0.5 * c - b3a coeff)) * (x - (-0.5 * c - b3a coeff)))).
Proof.
  intros coeff Ha Hd.
  rewrite (solve3_unfold coeff Ha).
  assert (P : forall x, poly3 coeff x
              = co coeff 3 * dep (dep_p coeff) (dep_q coeff) (x + b3a coeff))
    by (intros x; apply poly3_dep; assumption).
  unfold disc3 in Hd.
  set (p := dep_p coeff) in *. set (q := dep_q coeff) in *. set (B := b3a coeff) in *.
  assert (Hd' : 0 <= q * q + 4 * p * p * p) by lra.
  destruct (cardano_facts p q Hd') as (Huv & Hq & _ & Heq). cbv zeta in *.
  specialize (Heq Hd).
  unfold dep_roots. cbv zeta.
  destruct (Rlt_dec (q * q + 4 * p * p * p) 0) as [N | _]; [exfalso; lra |].
  destruct (Rlt_dec 0 (q * q + 4 * p * p * p)) as [N | _]; [exfalso; lra |].
  set (disc := q * q + 4 * p * p * p) in *.
  set (alpha := 0.5 * (sqrt disc - q)) in *.
  set (beta := - q - alpha) in *.
  set (u := cbrt alpha) in *.
  set (v := cbrt beta) in *.
  exists (u + v). cbn [map]. split; [reflexivity |].
  intros x. rewrite P. rewrite <- Heq in *.
  rewrite (cardano_double_factor p q u _ Huv Hq). rewrite mhalf_eq. field.
Qed.

(* ---------------------------------------------------------------------- *)
(** * Examples                                                             *)
(* ---------------------------------------------------------------------- *)

(** x^3 - 6x^2 + 11x - 6 = (x - 1)(x - 2)(x - 3): branch disc < 0, the
    three values returned are exactly 1, 2, 3. *)
Definition cubic123 : list R := [-6; 11; -6; 1].

Example ex_cubic123_wf : co cubic123 3 <> 0.
Proof. unfold co, cubic123. cbn [nth]. lra. Qed.

Example ex_cubic123_branch : disc3 cubic123 < 0.
Proof.
  unfold disc3, dep_q, dep_p, b3a, co, cubic123. cbn [nth].
  replace (-6 / (3 * 1)) with (-2) by field.
  replace (11 / 1) with 11 by field.
  replace (-6 / 1) with (-6) by field. lra.
Qed.

Example ex_cubic123_roots :
  forall x, In x (vals (solve3 cubic123)) <-> x = 1 \/ x = 2 \/ x = 3.
Proof.
  intros x. rewrite (solve3_correct _ _ ex_cubic123_wf).
  unfold poly3, co, cubic123. cbn [nth].
  replace (1 * (x * x * x) + -6 * (x * x) + 11 * x + -6)
    with ((x - 1) * ((x - 2) * (x - 3))) by ring.
  split.
  - intros H. apply Rmult_integral in H. destruct H as [H | H]; [left; lra |].
    apply Rmult_integral in H. destruct H; [right; left | right; right]; lra.
  - intros [H | [H | H]]; subst x; ring.
Qed.

(** and they come in the order 3, 1, 2 (first > third > second) *)
Example ex_cubic123_values : solve3 cubic123 = Some [3; 1; 2].
Proof.
  destruct (solve3_disc_neg_three_distinct cubic123 ex_cubic123_wf ex_cubic123_branch)
    as (x1 & x2 & x3 & E & [O1 O2] & _).
  pose proof (ex_cubic123_roots x1) as I1.
  pose proof (ex_cubic123_roots x2) as I2.
  pose proof (ex_cubic123_roots x3) as I3.
  rewrite E in *. cbn [vals In] in *.
  assert (V1 : x1 = 1 \/ x1 = 2 \/ x1 = 3) by (apply I1; auto).
  assert (V2 : x2 = 1 \/ x2 = 2 \/ x2 = 3) by (apply I2; auto).
  assert (V3 : x3 = 1 \/ x3 = 2 \/ x3 = 3) by (apply I3; auto).
  assert (x1 = 3 /\ x2 = 1 /\ x3 = 2) as (-> & -> & ->).
  { destruct V1 as [V1 | [V1 | V1]], V2 as [V2 | [V2 | V2]], V3 as [V3 | [V3 | V3]];
      subst; try (exfalso; lra); repeat split; reflexivity. }
  reflexivity.
Qed.

(** THE RECORDED FINDING, in the model.
    (x + 1)^2 (x - 2) = x^3 - 3x - 2 has the double root -1.  In exact
    arithmetic disc = 0, the third branch is taken, and both roots are
    returned.  (In floating point a rounding error that makes disc slightly
    positive sends the computation to the single-value branch, see
    [solve3_disc_pos_single] and [ex_perturbed_single]: the double root is
    lost.) *)
Definition cubic_double : list R := [-2; -3; 0; 1].

Lemma dep_roots_m1_m2 : dep_roots (-1) (-2) = [2; -1; -1].
Proof.
  unfold dep_roots. cbv zeta.
  replace (-2 * -2 + 4 * -1 * -1 * -1) with 0 by lra.
  destruct (Rlt_dec 0 0) as [N | _]; [exfalso; lra |].
  rewrite sqrt_0.
  replace (0.5 * (0 - -2)) with 1 by lra.
  replace (- -2 - 1) with 1 by lra.
  rewrite cbrt_1.
  repeat f_equal; lra.
Qed.

Example ex_double_wf : co cubic_double 3 <> 0.
Proof. unfold co, cubic_double. cbn [nth]. lra. Qed.

Example ex_double_branch : disc3 cubic_double = 0.
Proof.
  unfold disc3, dep_q, dep_p, b3a, co, cubic_double. cbn [nth]. field.
Qed.

Example ex_double_values : solve3 cubic_double = Some [2; -1; -1].
Proof.
  rewrite (solve3_unfold _ ex_double_wf).
  assert (Ep : dep_p cubic_double = -1)
    by (unfold dep_p, b3a, co, cubic_double; cbn [nth]; field).
  assert (Eq : dep_q cubic_double = -2)
    by (unfold dep_q, b3a, co, cubic_double; cbn [nth]; field).
  assert (Eb : b3a cubic_double = 0)
    by (unfold b3a, co, cubic_double; cbn [nth]; field).
  rewrite Ep, Eq, Eb, dep_roots_m1_m2. cbn [map].
  repeat f_equal; lra.
Qed.

Example ex_double_roots :
  forall x, In x (vals (solve3 cubic_double)) <-> x = -1 \/ x = 2.
Proof.
  intros x. rewrite ex_double_values. cbn [vals In]. split.
  - intros [H | [H | [H | []]]]; lra.
  - intros [H | H]; subst x; auto.
Qed.

(** the same with a non-zero shift: (x - 1)^2 (x - 4) = x^3 - 6x^2 + 9x - 4 *)
Definition cubic_double2 : list R := [-4; 9; -6; 1].

Example ex_double2_values : solve3 cubic_double2 = Some [4; 1; 1].
Proof.
  assert (Ha : co cubic_double2 3 <> 0) by (unfold co, cubic_double2; cbn [nth]; lra).
  rewrite (solve3_unfold _ Ha).
  assert (Ep : dep_p cubic_double2 = -1)
    by (unfold dep_p, b3a, co, cubic_double2; cbn [nth]; field).
  assert (Eq : dep_q cubic_double2 = -2)
    by (unfold dep_q, b3a, co, cubic_double2; cbn [nth]; field).
  assert (Eb : b3a cubic_double2 = -2)
    by (unfold b3a, co, cubic_double2; cbn [nth]; field).
  rewrite Ep, Eq, Eb, dep_roots_m1_m2. cbn [map].
  repeat f_equal; lra.
Qed.

(** A perturbation of [cubic_double] with disc > 0 (x^3 - 3x - 3): exactly
    one value is returned, although it is "close" to a cubic with two roots. *)
Definition cubic_perturbed : list R := [-3; -3; 0; 1].

Example ex_perturbed_single :
  exists x1, solve3 cubic_perturbed = Some [x1] /\
             forall x, poly3 cubic_perturbed x = 0 <-> x = x1.
Proof.
  apply solve3_disc_pos_single.
  - unfold co, cubic_perturbed. cbn [nth]. lra.
  - assert (Ep : dep_p cubic_perturbed = -1)
      by (unfold dep_p, b3a, co, cubic_perturbed; cbn [nth]; field).
    assert (Eq : dep_q cubic_perturbed = -3)
      by (unfold dep_q, b3a, co, cubic_perturbed; cbn [nth]; field).
    unfold disc3. rewrite Ep, Eq. lra.
Qed.

(** x^3 - 1 = (x - 1)(x^2 + x + 1): branch disc > 0, the single value 1 *)
Definition cubic_one : list R := [-1; 0; 0; 1].

Example ex_one_values : solve3 cubic_one = Some [1].
Proof.
  assert (Ha : co cubic_one 3 <> 0) by (unfold co, cubic_one; cbn [nth]; lra).
  rewrite (solve3_unfold _ Ha).
  assert (Ep : dep_p cubic_one = 0)
    by (unfold dep_p, b3a, co, cubic_one; cbn [nth]; field).
  assert (Eq : dep_q cubic_one = -1)
    by (unfold dep_q, b3a, co, cubic_one; cbn [nth]; field).
  assert (Eb : b3a cubic_one = 0)
    by (unfold b3a, co, cubic_one; cbn [nth]; field).
  rewrite Ep, Eq, Eb.
  unfold dep_roots. cbv zeta.
  replace (-1 * -1 + 4 * 0 * 0 * 0) with 1 by lra.
  destruct (Rlt_dec 1 0) as [N | _]; [exfalso; lra |].
  destruct (Rlt_dec 0 1) as [_ | N]; [| exfalso; lra].
  rewrite sqrt_1.
  replace (0.5 * (1 - -1)) with 1 by lra.
  replace (- -1 - 1) with 0 by lra.
  rewrite cbrt_1, cbrt_0. cbn [map]. repeat f_equal; lra.
Qed.

Example ex_one_roots : forall x, In x (vals (solve3 cubic_one)) <-> x = 1.
Proof.
  intros x. rewrite ex_one_values. cbn [vals In]. split.
  - intros [H | []]. lra.
  - intros H. left. lra.
Qed.

(** the leading coefficient 0 sends solve3 to solve2: 0x^3 + x^2 - 3x + 2 *)
Example ex_fallthrough :
  forall x, In x (vals (solve3 [2; -3; 1; 0])) <-> x = 1 \/ x = 2.
Proof.
  intros x.
  rewrite solve3_correct_total by (unfold co; cbn [nth]; intros (_ & H & _); lra).
  unfold poly3, co. cbn [nth].
  replace (0 * (x * x * x) + 1 * (x * x) + -3 * x + 2) with ((x - 1) * (x - 2)) by ring.
  split.
  - intros H. apply Rmult_integral in H. destruct H; [left | right]; lra.
  - intros [H | H]; subst x; ring.
Qed.
