(* Routes.v — geometry of the phase-5 routes (straight, polyline, ortho) of the executable model in
   Model/Phase5.v, given the route list [ns] of an edge (node indices, upper end first), and their
   transport through the output collection of Model/Layout.v. *)
From Autog Require Import Base Graph Phase4 Phase5 Layout.
From Autog Require Import Positioners.
From Coq Require Import Lqa Lia.
Local Open Scope Q_scope.

(* ====================================================================================== *)
(** * 0. List helpers                                                                      *)
(* ====================================================================================== *)

Lemma last_opt_app1 : forall A (l : list A) (b : A), last_opt (l ++ [b]) = Some b.
Proof.
  intros A l b; induction l as [|x t IH]; [reflexivity|].
  cbn [app]. destruct (t ++ [b]) as [|y u] eqn:E.
  - destruct t; discriminate E.
  - cbn [last_opt]. cbn [last_opt] in IH. exact IH.
Qed.

Lemma last_opt_cons_app1 : forall A (a : A) (l : list A) (b : A), last_opt (a :: l ++ [b]) = Some b.
Proof. intros A a l b. apply (last_opt_app1 A (a :: l) b). Qed.

Lemma first_last_ends : forall a mid b, first_last (a :: mid ++ [b]) = (a, b).
Proof.
  intros a mid b. unfold first_last. rewrite last_opt_cons_app1. reflexivity.
Qed.

Lemma inner_ends : forall a mid b, inner (a :: mid ++ [b]) = mid.
Proof. intros a mid b. unfold inner. cbn [tl]. apply removelast_last. Qed.

Lemma length_ends : forall (a : nat) mid b, length (a :: mid ++ [b]) = S (S (length mid)).
Proof. intros a mid b. cbn [length]. rewrite app_length. cbn [length]. lia. Qed.

(* [lra] on Q does not understand division: turn [x / 2] into [x * (1 # 2)] first *)
Ltac qlra := unfold Qdiv in *; change (/ 2) with (1 # 2) in *; lra.

(* ====================================================================================== *)
(** * R1. Straight routes                                                                  *)
(* ====================================================================================== *)

Theorem route_straight_nonflat : forall g e ns,
  is_flat g e = false ->
  route_straight g e ns = [start_point g (fst (first_last ns)); end_point g (snd (first_last ns))].
Proof.
  intros g e ns Hf. unfold route_straight. destruct (first_last ns) as [a b].
  rewrite Hf. reflexivity.
Qed.
Print Assumptions route_straight_nonflat.

Theorem route_straight_ends : forall g e a mid b,
  is_flat g e = false ->
  route_straight g e (a :: mid ++ [b]) = [start_point g a; end_point g b].
Proof.
  intros g e a mid b Hf. rewrite route_straight_nonflat by exact Hf.
  rewrite first_last_ends. reflexivity.
Qed.
Print Assumptions route_straight_ends.

(* exactly two points, with the coordinates spelled out *)
Theorem route_straight_points : forall g e a mid b,
  is_flat g e = false ->
  length (route_straight g e (a :: mid ++ [b])) = 2%nat /\
  nth 0 (route_straight g e (a :: mid ++ [b])) (0, 0) = (nX g a + nW g a / 2, nY g a + nH g a) /\
  nth 1 (route_straight g e (a :: mid ++ [b])) (0, 0) = (nX g b + nW g b / 2, nY g b).
Proof.
  intros g e a mid b Hf. rewrite route_straight_ends by exact Hf.
  split; [reflexivity|split; reflexivity].
Qed.
Print Assumptions route_straight_points.

(* ====================================================================================== *)
(** * R2. Polyline routes                                                                  *)
(* ====================================================================================== *)

(* the bend point put on an intermediate (virtual) node: centre of its x extent, middle of its layer band *)
Definition bend (g : graph) (n : nat) : pt := (nX g n + nW g n / 2, nY g n + layer_h_of g n / 2).

Lemma forallb_virt_true : forall g mid,
  (forall n, In n mid -> n_virt (gnode g n) = true) ->
  forallb (fun n => n_virt (gnode g n)) mid = true.
Proof. intros g mid H. apply forallb_forall. exact H. Qed.

Lemma forallb_virt_false : forall g mid,
  (exists n, In n mid /\ n_virt (gnode g n) = false) ->
  forallb (fun n => n_virt (gnode g n)) mid = false.
Proof.
  intros g mid (n & Hin & Hv).
  destruct (forallb (fun n => n_virt (gnode g n)) mid) eqn:E; [|reflexivity].
  rewrite forallb_forall in E. specialize (E n Hin). cbv beta in E. congruence.
Qed.

Lemma length_ends_eqb2 : forall (a : nat) m mid b,
  Nat.eqb (length (a :: (m :: mid) ++ [b])) 2 = false.
Proof. intros a m mid b. rewrite length_ends. reflexivity. Qed.

Theorem route_polyline_ok : forall g e a mid b,
  is_flat g e = false ->
  (forall n, In n mid -> n_virt (gnode g n) = true) ->
  e_pts (gedge g e) = [] ->
  route_polyline g e (a :: mid ++ [b]) = Ok (start_point g a :: map (bend g) mid ++ [end_point g b]).
Proof.
  intros g e a mid b Hf Hv Hp. unfold route_polyline.
  rewrite first_last_ends, Hf.
  destruct mid as [|m mid].
  - reflexivity.
  - rewrite length_ends_eqb2, inner_ends, (forallb_virt_true g _ Hv), Hp. reflexivity.
Qed.
Print Assumptions route_polyline_ok.

(* exactly one bend per intermediate node: as many points as nodes on the route *)
Corollary route_polyline_length : forall g e a mid b pts,
  is_flat g e = false ->
  (forall n, In n mid -> n_virt (gnode g n) = true) ->
  e_pts (gedge g e) = [] ->
  route_polyline g e (a :: mid ++ [b]) = Ok pts ->
  length pts = length (a :: mid ++ [b]).
Proof.
  intros g e a mid b pts Hf Hv Hp H. rewrite route_polyline_ok in H by assumption.
  injection H as <-. cbn [length]. rewrite !app_length, map_length. reflexivity.
Qed.
Print Assumptions route_polyline_length.

(* first and last point as for the straight route *)
Corollary route_polyline_first_last : forall g e a mid b,
  is_flat g e = false ->
  (forall n, In n mid -> n_virt (gnode g n) = true) ->
  e_pts (gedge g e) = [] ->
  exists l, route_polyline g e (a :: mid ++ [b]) =
            Ok ((nX g a + nW g a / 2, nY g a + nH g a) :: l ++ [(nX g b + nW g b / 2, nY g b)]) /\
            length l = length mid.
Proof.
  intros g e a mid b Hf Hv Hp. exists (map (bend g) mid). split.
  - apply route_polyline_ok; assumption.
  - apply map_length.
Qed.

(* no intermediate node: the polyline is the straight route *)
Corollary route_polyline_direct : forall g e a b,
  is_flat g e = false ->
  route_polyline g e [a; b] = Ok (route_straight g e [a; b]).
Proof.
  intros g e a b Hf. unfold route_polyline, route_straight.
  change (first_last [a; b]) with (a, b). rewrite Hf. reflexivity.
Qed.
Print Assumptions route_polyline_direct.

Theorem route_polyline_err : forall g e a mid b,
  is_flat g e = false ->
  (exists n, In n mid /\ n_virt (gnode g n) = false) ->
  route_polyline g e (a :: mid ++ [b]) = Err ErrBendNotVirtual.
Proof.
  intros g e a mid b Hf Hv. unfold route_polyline.
  rewrite first_last_ends, Hf.
  destruct mid as [|m mid].
  - destruct Hv as (n & [] & _).
  - rewrite length_ends_eqb2, inner_ends, (forallb_virt_false g _ Hv). reflexivity.
Qed.
Print Assumptions route_polyline_err.

(* ====================================================================================== *)
(** * R3. A polyline never goes upward                                                     *)
(* ====================================================================================== *)

(* consecutive nodes of the route: the next one starts at least [sp] below the layer band of the previous *)
Fixpoint chain_y_ge (g : graph) (sp : Q) (ns : list nat) : Prop :=
  match ns with
  | a :: ((b :: _) as t) => nY g a + layer_h_of g a + sp <= nY g b /\ chain_y_ge g sp t
  | _ => True
  end.

Fixpoint chain_y_eq (g : graph) (sp : Q) (ns : list nat) : Prop :=
  match ns with
  | a :: ((b :: _) as t) => nY g b == nY g a + layer_h_of g a + sp /\ chain_y_eq g sp t
  | _ => True
  end.

Fixpoint y_mono (l : list pt) : Prop :=
  match l with
  | p :: ((q :: _) as t) => snd p <= snd q /\ y_mono t
  | _ => True
  end.

Lemma chain_y_ge_cons2 : forall g sp a b t,
  chain_y_ge g sp (a :: b :: t) = (nY g a + layer_h_of g a + sp <= nY g b /\ chain_y_ge g sp (b :: t)).
Proof. reflexivity. Qed.

Lemma chain_y_eq_cons2 : forall g sp a b t,
  chain_y_eq g sp (a :: b :: t) = (nY g b == nY g a + layer_h_of g a + sp /\ chain_y_eq g sp (b :: t)).
Proof. reflexivity. Qed.

Lemma y_mono_cons2 : forall p q t, y_mono (p :: q :: t) = (snd p <= snd q /\ y_mono (q :: t)).
Proof. reflexivity. Qed.

Lemma chain_y_eq_ge : forall g sp ns, chain_y_eq g sp ns -> chain_y_ge g sp ns.
Proof.
  intros g sp ns; induction ns as [|a t IH]; [exact (fun H => H)|].
  destruct t as [|b t]; [exact (fun H => H)|].
  rewrite chain_y_eq_cons2, chain_y_ge_cons2. intros [H1 H2]. split; [|apply IH, H2].
  rewrite H1. apply Qle_refl.
Qed.

Lemma chain_y_ge_tail : forall g sp a t, chain_y_ge g sp (a :: t) -> chain_y_ge g sp t.
Proof.
  intros g sp a t H. destruct t as [|b t]; [exact I|].
  rewrite chain_y_ge_cons2 in H. apply H.
Qed.

(* the bend of a node lies in the layer band of that node *)
Lemma bend_in_band : forall g n,
  0 <= layer_h_of g n ->
  nY g n <= snd (bend g n) /\ snd (bend g n) <= nY g n + layer_h_of g n.
Proof. intros g n H. unfold bend. cbn [snd]. split; qlra. Qed.

(* generalised over the point [p] that precedes the first bend *)
Lemma y_mono_from : forall g sp mid a b p,
  0 <= sp ->
  snd p <= nY g a + layer_h_of g a ->
  chain_y_ge g sp (a :: mid ++ [b]) ->
  (forall n, In n mid -> 0 <= layer_h_of g n) ->
  y_mono (p :: map (bend g) mid ++ [end_point g b]).
Proof.
  intros g sp mid; induction mid as [|m mid IH]; intros a b p Hsp Hp Hc Hh.
  - cbn [map app] in *. rewrite chain_y_ge_cons2 in Hc. rewrite y_mono_cons2.
    destruct Hc as [Hc _]. split; [|exact I].
    unfold end_point. cbn [snd]. qlra.
  - cbn [map app] in *. rewrite chain_y_ge_cons2 in Hc. rewrite y_mono_cons2.
    destruct Hc as [Hc1 Hc2].
    assert (Hm : 0 <= layer_h_of g m) by (apply Hh; left; reflexivity).
    split.
    + unfold bend. cbn [snd]. qlra.
    + apply (IH m b (bend g m) Hsp); [unfold bend; cbn [snd]; qlra|exact Hc2|].
      intros n Hn. apply Hh. right. exact Hn.
Qed.

Theorem polyline_y_mono : forall g sp a mid b,
  0 <= sp ->
  chain_y_ge g sp (a :: mid ++ [b]) ->
  (forall n, In n (a :: mid ++ [b]) -> 0 <= nH g n /\ nH g n <= layer_h_of g n) ->
  y_mono (start_point g a :: map (bend g) mid ++ [end_point g b]).
Proof.
  intros g sp a mid b Hsp Hc Hh.
  apply (y_mono_from g sp mid a b (start_point g a) Hsp); [|exact Hc|].
  - unfold start_point. cbn [snd]. destruct (Hh a (or_introl eq_refl)) as [_ H]. qlra.
  - intros n Hn. destruct (Hh n) as [H1 H2]; [right; apply in_or_app; left; exact Hn|qlra].
Qed.
Print Assumptions polyline_y_mono.

Corollary route_polyline_y_mono : forall g sp e a mid b pts,
  is_flat g e = false ->
  (forall n, In n mid -> n_virt (gnode g n) = true) ->
  e_pts (gedge g e) = [] ->
  0 <= sp ->
  chain_y_ge g sp (a :: mid ++ [b]) ->
  (forall n, In n (a :: mid ++ [b]) -> 0 <= nH g n /\ nH g n <= layer_h_of g n) ->
  route_polyline g e (a :: mid ++ [b]) = Ok pts ->
  y_mono pts.
Proof.
  intros g sp e a mid b pts Hf Hv Hp Hsp Hc Hh H.
  rewrite route_polyline_ok in H by assumption. injection H as <-.
  apply (polyline_y_mono g sp); assumption.
Qed.
Print Assumptions route_polyline_y_mono.

(* each bend of the polyline lies in the layer band of its own node *)
Theorem polyline_bends_in_band : forall g mid n,
  (forall m, In m mid -> 0 <= layer_h_of g m) ->
  In n mid ->
  In (bend g n) (map (bend g) mid) /\
  nY g n <= snd (bend g n) /\ snd (bend g n) <= nY g n + layer_h_of g n.
Proof.
  intros g mid n Hh Hn. split; [apply in_map, Hn|apply bend_in_band, Hh, Hn].
Qed.

(* ... and at least [sp] below the band of the previous node of the route, and at least [sp] above the
   next node's top *)
Theorem bend_between : forall g sp a n b,
  0 <= layer_h_of g n ->
  chain_y_ge g sp [a; n; b] ->
  nY g a + layer_h_of g a + sp <= snd (bend g n) /\ snd (bend g n) + sp <= nY g b.
Proof.
  intros g sp a n b Hh Hc. rewrite !chain_y_ge_cons2 in Hc. destruct Hc as (H1 & H2 & _).
  unfold bend. cbn [snd]. split; qlra.
Qed.

(** ** Bends and node rectangles (modest version) *)
(* strictly inside the rectangle of node m *)
Definition strictly_inside (g : graph) (m : nat) (p : pt) : Prop :=
  nX g m < fst p /\ fst p < nX g m + nW g m /\ nY g m < snd p /\ snd p < nY g m + nH g m.

(* if the rectangle of m is x-disjoint from the x-extent of the (virtual) node n, the bend on n is not
   strictly inside m's x-extent *)
Lemma bend_x_not_inside : forall g m n,
  0 <= nW g n ->
  (nX g m + nW g m <= nX g n \/ nX g n + nW g n <= nX g m) ->
  ~ (nX g m < fst (bend g n) /\ fst (bend g n) < nX g m + nW g m).
Proof.
  intros g m n Hw Hd [H1 H2]. unfold bend in H1, H2. cbn [fst] in H1, H2.
  destruct Hd as [Hd|Hd]; qlra.
Qed.

(* if the vertical extent of m is disjoint from the interior of n's layer band, the bend on n is not
   strictly inside m's vertical extent *)
Lemma bend_y_not_inside : forall g m n,
  0 <= layer_h_of g n ->
  (nY g m + nH g m <= nY g n \/ nY g n + layer_h_of g n <= nY g m) ->
  ~ (nY g m < snd (bend g n) /\ snd (bend g n) < nY g m + nH g m).
Proof.
  intros g m n Hh Hd [H1 H2]. unfold bend in H1, H2. cbn [snd] in H1, H2.
  destruct Hd as [Hd|Hd]; qlra.
Qed.

Theorem bend_not_strictly_inside : forall g m n,
  0 <= nW g n -> 0 <= layer_h_of g n ->
  (nX g m + nW g m <= nX g n \/ nX g n + nW g n <= nX g m) \/
  (nY g m + nH g m <= nY g n \/ nY g n + layer_h_of g n <= nY g m) ->
  ~ strictly_inside g m (bend g n).
Proof.
  intros g m n Hw Hh [Hd|Hd] (H1 & H2 & H3 & H4).
  - apply (bend_x_not_inside g m n Hw Hd). split; assumption.
  - apply (bend_y_not_inside g m n Hh Hd). split; assumption.
Qed.
Print Assumptions bend_not_strictly_inside.

(** ** The y hypothesis is what assign_y establishes *)

Definition placed (g : graph) (n : nat) : Prop :=
  (0 <= layer_of g n)%Z /\ In n (l_nodes (glayer g (Z.to_nat (layer_of g n)))).

Fixpoint chain_layers (g : graph) (ns : list nat) : Prop :=
  match ns with
  | a :: ((b :: _) as t) => layer_of g b = (layer_of g a + 1)%Z /\ chain_layers g t
  | _ => True
  end.

Lemma chain_layers_cons2 : forall g a b t,
  chain_layers g (a :: b :: t) = (layer_of g b = (layer_of g a + 1)%Z /\ chain_layers g (b :: t)).
Proof. reflexivity. Qed.

(* whatever is not the y field of a node is kept by assign_y *)
Lemma assign_y_field : forall A (p : node -> A) sp g n,
  (forall nd, p (set_y 0 nd) = p nd) ->
  p (gnode (assign_y sp g) n) = p (gnode g n).
Proof.
  intros A p sp g n Hp.
  destruct (assign_y_frame sp g) as (_ & _ & _ & F & _).
  rewrite <- (Hp (gnode (assign_y sp g) n)), F, Hp. reflexivity.
Qed.

Lemma assign_y_layer_of : forall sp g n, layer_of (assign_y sp g) n = layer_of g n.
Proof. intros sp g n. unfold layer_of. apply assign_y_field. reflexivity. Qed.

Lemma assign_y_virt : forall sp g n, n_virt (gnode (assign_y sp g) n) = n_virt (gnode g n).
Proof. intros sp g n. apply assign_y_field. reflexivity. Qed.

Lemma assign_y_glayer : forall sp g k, glayer (assign_y sp g) k = glayer g k.
Proof. intros sp g k. unfold glayer. rewrite assign_y_L. reflexivity. Qed.

Lemma assign_y_layer_h_of : forall sp g n, layer_h_of (assign_y sp g) n = layer_h_of g n.
Proof. intros sp g n. unfold layer_h_of. rewrite assign_y_layer_of, assign_y_glayer. reflexivity. Qed.

Lemma assign_y_placed : forall sp g n, placed (assign_y sp g) n <-> placed g n.
Proof. intros sp g n. unfold placed. rewrite assign_y_layer_of, assign_y_glayer. reflexivity. Qed.

Lemma assign_y_chain_layers : forall sp g ns, chain_layers (assign_y sp g) ns <-> chain_layers g ns.
Proof.
  intros sp g ns; induction ns as [|a t IH]; [reflexivity|].
  destruct t as [|b t]; [reflexivity|].
  rewrite !chain_layers_cons2, !assign_y_layer_of, IH. reflexivity.
Qed.

Lemma assign_y_placed_y : forall sp g n,
  layers_wf g -> placed g n ->
  nY (assign_y sp g) n = ysum sp (g_L g) (Z.to_nat (layer_of g n)).
Proof. intros sp g n Hwf [_ Hin]. apply assign_y_layer_eq; [exact Hwf|exact Hin]. Qed.

Theorem assign_y_chain : forall sp g ns,
  layers_wf g ->
  (forall n, In n ns -> placed g n) ->
  chain_layers g ns ->
  chain_y_eq (assign_y sp g) sp ns.
Proof.
  intros sp g ns Hwf; induction ns as [|a t IH]; intros Hpl Hch; [exact I|].
  destruct t as [|b t]; [exact I|].
  rewrite chain_layers_cons2 in Hch. destruct Hch as [Hab Hch].
  rewrite chain_y_eq_cons2. split.
  - assert (Pa : placed g a) by (apply Hpl; left; reflexivity).
    assert (Pb : placed g b) by (apply Hpl; right; left; reflexivity).
    rewrite (assign_y_placed_y sp g a Hwf Pa), (assign_y_placed_y sp g b Hwf Pb).
    rewrite assign_y_layer_h_of. unfold layer_h_of, glayer.
    destruct Pa as [Ha _]. rewrite Hab.
    replace (Z.to_nat (layer_of g a + 1)) with (S (Z.to_nat (layer_of g a))) by lia.
    rewrite ysum_S. reflexivity.
  - apply IH; [|exact Hch]. intros n Hn. apply Hpl. right. exact Hn.
Qed.
Print Assumptions assign_y_chain.

Corollary assign_y_chain_ge : forall sp g ns,
  layers_wf g -> (forall n, In n ns -> placed g n) -> chain_layers g ns ->
  chain_y_ge (assign_y sp g) sp ns.
Proof. intros sp g ns H1 H2 H3. apply chain_y_eq_ge, assign_y_chain; assumption. Qed.

(** ** ... hence it holds of the output of phase 4, whose last step is assign_y *)
Lemma phase4_is_assign_y : forall alg p g g',
  Nat.eqb (length (g_N g)) 1 = false ->
  phase4 alg p g = Ok g' ->
  exists g1, g' = assign_y (layer_spacing p) g1 /\
             match alg with
             | VAlign => g1 = exec_valign (node_spacing p) g
             | PackRight => g1 = exec_pack_right (node_spacing p) g
             | SinkColoring => exec_sink_coloring (node_spacing p) g = Ok g1
             | NsPositioner => exec_ns_positioner (p4_thoroughness p) (p4_factor p) (node_spacing p) g = Ok g1
             | OtherPositioner => g1 = g
             end.
Proof.
  intros alg p g g' H1 H. unfold phase4 in H. rewrite H1 in H.
  destruct alg; cbn [bind] in H.
  - injection H as <-. eexists; split; reflexivity.
  - injection H as <-. eexists; split; reflexivity.
  - destruct (exec_sink_coloring (node_spacing p) g) as [g1|er] eqn:E; cbn [bind] in H; [|discriminate H].
    injection H as <-. exists g1; split; reflexivity.
  - destruct (exec_ns_positioner (p4_thoroughness p) (p4_factor p) (node_spacing p) g) as [g1|er] eqn:E;
      cbn [bind] in H; [|discriminate H].
    injection H as <-. exists g1; split; reflexivity.
  - injection H as <-. eexists; split; reflexivity.
Qed.

(* generic form, whatever the x-positioner: the hypotheses are on the phase-4 output itself *)
Lemma assign_y_layers_wf_inv : forall sp g, layers_wf (assign_y sp g) -> layers_wf g.
Proof.
  intros sp g H. destruct (assign_y_frame sp g) as (_ & _ & _ & _ & HL & Hlen & _).
  apply (layers_wf_transfer (assign_y sp g) g); [rewrite HL; reflexivity|symmetry; exact Hlen|exact H].
Qed.

Theorem phase4_chain : forall alg p g g' ns,
  Nat.eqb (length (g_N g)) 1 = false ->
  phase4 alg p g = Ok g' ->
  layers_wf g' -> (forall n, In n ns -> placed g' n) -> chain_layers g' ns ->
  chain_y_eq g' (layer_spacing p) ns.
Proof.
  intros alg p g g' ns H1 H Hwf Hpl Hch.
  destruct (phase4_is_assign_y alg p g g' H1 H) as (g1 & E & _). subst g'.
  apply assign_y_chain.
  - apply (assign_y_layers_wf_inv _ _ Hwf).
  - intros n Hn. apply (assign_y_placed (layer_spacing p) g1 n), Hpl, Hn.
  - apply (assign_y_chain_layers (layer_spacing p) g1 ns), Hch.
Qed.
Print Assumptions phase4_chain.

(* transfer of [placed]/[chain_layers] along a positioner that only changes x and layer sizes *)
Lemma placed_transfer : forall g g1 n,
  (forall m, layer_of g1 m = layer_of g m) ->
  (forall k, l_nodes (nth k (g_L g1) layer0) = l_nodes (nth k (g_L g) layer0)) ->
  placed g n -> placed g1 n.
Proof.
  intros g g1 n HL HN [H1 H2]. unfold placed, glayer. rewrite HL, HN. split; assumption.
Qed.

Lemma chain_layers_transfer : forall g g1 ns,
  (forall m, layer_of g1 m = layer_of g m) -> chain_layers g ns -> chain_layers g1 ns.
Proof.
  intros g g1 ns HL; induction ns as [|a t IH]; [exact (fun H => H)|].
  destruct t as [|b t]; [exact (fun H => H)|].
  rewrite !chain_layers_cons2, !HL. intros [H1 H2]. split; [exact H1|apply IH, H2].
Qed.

Lemma setx_layer_of : forall g g1,
  (forall n, set_x 0 (gnode g1 n) = set_x 0 (gnode g n)) -> forall m, layer_of g1 m = layer_of g m.
Proof.
  intros g g1 F m. unfold layer_of.
  change (n_layer (gnode g1 m)) with (n_layer (set_x 0 (gnode g1 m))). rewrite F. reflexivity.
Qed.

Theorem phase4_valign_chain : forall p g g' ns,
  Nat.eqb (length (g_N g)) 1 = false ->
  phase4 VAlign p g = Ok g' ->
  layers_wf g -> (forall n, In n ns -> placed g n) -> chain_layers g ns ->
  chain_y_eq g' (layer_spacing p) ns.
Proof.
  intros p g g' ns H1 H Hwf Hpl Hch. rewrite phase4_valign in H by exact H1. injection H as <-.
  pose proof (valign_frame (node_spacing p) g) as F. cbv zeta in F.
  destruct F as (_ & _ & _ & F & _).
  pose proof (setx_layer_of g _ F) as HL.
  apply assign_y_chain.
  - apply valign_layers_wf, Hwf.
  - intros n Hn. apply (placed_transfer g); [exact HL|apply valign_layer_nodes|apply Hpl, Hn].
  - apply (chain_layers_transfer g); [exact HL|exact Hch].
Qed.
Print Assumptions phase4_valign_chain.

Theorem phase4_packright_chain : forall p g g' ns,
  Nat.eqb (length (g_N g)) 1 = false ->
  phase4 PackRight p g = Ok g' ->
  layers_wf g -> (forall n, In n ns -> placed g n) -> chain_layers g ns ->
  chain_y_eq g' (layer_spacing p) ns.
Proof.
  intros p g g' ns H1 H Hwf Hpl Hch. rewrite phase4_packright in H by exact H1. injection H as <-.
  pose proof (packright_frame (node_spacing p) g) as F. cbv zeta in F.
  destruct F as (_ & _ & _ & F & _).
  pose proof (setx_layer_of g _ F) as HL.
  apply assign_y_chain.
  - apply packright_layers_wf, Hwf.
  - intros n Hn. apply (placed_transfer g); [exact HL|apply packright_layer_nodes|apply Hpl, Hn].
  - apply (chain_layers_transfer g); [exact HL|exact Hch].
Qed.
Print Assumptions phase4_packright_chain.

(* ====================================================================================== *)
(** * R4. Orthogonal routes                                                                *)
(* ====================================================================================== *)

Definition hv (p q : pt) : Prop := fst p == fst q \/ snd p == snd q.

Fixpoint all_hv (l : list pt) : Prop :=
  match l with
  | p :: ((q :: _) as t) => hv p q /\ all_hv t
  | _ => True
  end.

Lemma all_hv_cons2 : forall p q t, all_hv (p :: q :: t) = (hv p q /\ all_hv (q :: t)).
Proof. reflexivity. Qed.

Lemma all_hv_tail : forall p l, all_hv (p :: l) -> all_hv l.
Proof.
  intros p l H. destruct l as [|q t]; [exact I|]. rewrite all_hv_cons2 in H. apply H.
Qed.

Lemma ortho_legs_cons2 : forall g half a b t,
  ortho_legs g half (a :: b :: t) =
  [start_point g a;
   (fst (start_point g a), nY g a + layer_h_of g a + half);
   (fst (end_point g b), snd (end_point g b) - half);
   end_point g b] ++ ortho_legs g half (b :: t).
Proof. reflexivity. Qed.

Lemma ortho_legs_single : forall g half a, ortho_legs g half [a] = [].
Proof. reflexivity. Qed.

(* four points per pair of consecutive nodes *)
Theorem ortho_legs_length : forall g half ns,
  length (ortho_legs g half ns) = (4 * (length ns - 1))%nat.
Proof.
  intros g half ns; induction ns as [|a t IH]; [reflexivity|].
  destruct t as [|b t]; [reflexivity|].
  rewrite ortho_legs_cons2, app_length, IH. cbn [length]. lia.
Qed.
Print Assumptions ortho_legs_length.

(* generalised over a point [p] vertically above the start point of the first node *)
Lemma all_hv_ortho_from : forall g sp t a p,
  chain_y_eq g sp (a :: t) ->
  fst p == fst (start_point g a) ->
  all_hv (p :: ortho_legs g (sp / 2) (a :: t)).
Proof.
  intros g sp t; induction t as [|b t IH]; intros a p Hc Hp.
  - rewrite ortho_legs_single. exact I.
  - rewrite chain_y_eq_cons2 in Hc. destruct Hc as [Hy Hc].
    rewrite ortho_legs_cons2. cbn [app]. rewrite !all_hv_cons2.
    split; [left; exact Hp|].
    split; [left; reflexivity|].
    split; [right; unfold end_point; cbn [fst snd]; rewrite Hy; unfold Qdiv; change (/ 2) with (1 # 2); ring|].
    split; [left; reflexivity|].
    apply IH; [exact Hc|]. reflexivity.
Qed.

Theorem ortho_legs_all_hv : forall g sp ns,
  chain_y_eq g sp ns -> all_hv (ortho_legs g (sp / 2) ns).
Proof.
  intros g sp ns Hc. destruct ns as [|a t]; [exact I|].
  apply (all_hv_tail (start_point g a)). apply all_hv_ortho_from; [exact Hc|reflexivity].
Qed.
Print Assumptions ortho_legs_all_hv.

(* first and last point *)
Lemma ortho_legs_ends : forall g half mid a b,
  exists l, ortho_legs g half (a :: mid ++ [b]) = start_point g a :: l ++ [end_point g b] /\
            length l = (4 * length mid + 2)%nat.
Proof.
  intros g half mid; induction mid as [|m mid IH]; intros a b.
  - cbn [app]. rewrite ortho_legs_cons2, ortho_legs_single.
    eexists [_; _]. split; reflexivity.
  - cbn [app]. rewrite ortho_legs_cons2.
    destruct (IH m b) as (l & El & Hl). rewrite El.
    eexists (_ :: _ :: end_point g m :: start_point g m :: l). split; [reflexivity|].
    cbn [length]. rewrite Hl. lia.
Qed.

Lemma last_app1 : forall A (l : list A) (x d : A), last (l ++ [x]) d = x.
Proof. intros A l x d. apply last_last. Qed.

Theorem ortho_legs_first_last : forall g half a mid b,
  hd_error (ortho_legs g half (a :: mid ++ [b])) = Some (start_point g a) /\
  last (ortho_legs g half (a :: mid ++ [b])) (0, 0) = end_point g b.
Proof.
  intros g half a mid b. destruct (ortho_legs_ends g half mid a b) as (l & El & _). rewrite El.
  split; [reflexivity|]. apply (last_last (start_point g a :: l)).
Qed.
Print Assumptions ortho_legs_first_last.

(** ** route_ortho *)
Definition ends_match (g : graph) (e : nat) (a b : nat) : Prop :=
  (a = e_from (gedge g e) /\ b = e_to (gedge g e)) \/ (a = e_to (gedge g e) /\ b = e_from (gedge g e)).

Definition cx (g : graph) (n : nat) : Q := nX g n + nW g n / 2.

Lemma route_ortho_cases : forall g sp e a mid b,
  is_flat g e = false -> e_pts (gedge g e) = [] ->
  (Qeq_bool (cx g (e_from (gedge g e))) (cx g (e_to (gedge g e))) = true /\
   route_ortho g sp e (a :: mid ++ [b]) = [start_point g a; end_point g b]) \/
  (Qeq_bool (cx g (e_from (gedge g e))) (cx g (e_to (gedge g e))) = false /\
   route_ortho g sp e (a :: mid ++ [b]) = ortho_legs g (sp / 2) (a :: mid ++ [b])).
Proof.
  intros g sp e a mid b Hf Hp. unfold route_ortho. rewrite first_last_ends, Hf, Hp.
  fold (cx g (e_from (gedge g e))). fold (cx g (e_to (gedge g e))).
  destruct (Qeq_bool (cx g (e_from (gedge g e))) (cx g (e_to (gedge g e)))) eqn:E.
  - left. split; reflexivity.
  - right. split; reflexivity.
Qed.

Theorem route_ortho_all_hv : forall g sp e a mid b,
  is_flat g e = false -> e_pts (gedge g e) = [] ->
  ends_match g e a b ->
  chain_y_eq g sp (a :: mid ++ [b]) ->
  all_hv (route_ortho g sp e (a :: mid ++ [b])).
Proof.
  intros g sp e a mid b Hf Hp Hm Hc.
  destruct (route_ortho_cases g sp e a mid b Hf Hp) as [[E R]|[E R]]; rewrite R.
  - apply Qeq_bool_iff in E. rewrite all_hv_cons2. split; [|exact I].
    left. unfold start_point, end_point. cbn [fst]. fold (cx g a). fold (cx g b).
    destruct Hm as [[-> ->]|[-> ->]]; [exact E|symmetry; exact E].
  - apply ortho_legs_all_hv, Hc.
Qed.
Print Assumptions route_ortho_all_hv.

(* in both branches the route starts at the start point of a and ends at the end point of b *)
Theorem route_ortho_ends : forall g sp e a mid b,
  is_flat g e = false -> e_pts (gedge g e) = [] ->
  exists l, route_ortho g sp e (a :: mid ++ [b]) = start_point g a :: l ++ [end_point g b].
Proof.
  intros g sp e a mid b Hf Hp.
  destruct (route_ortho_cases g sp e a mid b Hf Hp) as [[E R]|[E R]]; rewrite R.
  - exists []. reflexivity.
  - destruct (ortho_legs_ends g (sp / 2) mid a b) as (l & El & _). exists l. exact El.
Qed.
Print Assumptions route_ortho_ends.

Corollary route_ortho_first_last : forall g sp e a mid b,
  is_flat g e = false -> e_pts (gedge g e) = [] ->
  hd_error (route_ortho g sp e (a :: mid ++ [b])) = Some (start_point g a) /\
  last (route_ortho g sp e (a :: mid ++ [b])) (0, 0) = end_point g b.
Proof.
  intros g sp e a mid b Hf Hp. destruct (route_ortho_ends g sp e a mid b Hf Hp) as (l & El). rewrite El.
  split; [reflexivity|]. apply (last_last (start_point g a :: l)).
Qed.

(* number of points in the non-aligned branch *)
Corollary route_ortho_length : forall g sp e a mid b,
  is_flat g e = false -> e_pts (gedge g e) = [] ->
  Qeq_bool (cx g (e_from (gedge g e))) (cx g (e_to (gedge g e))) = false ->
  length (route_ortho g sp e (a :: mid ++ [b])) = (4 * (length mid + 1))%nat.
Proof.
  intros g sp e a mid b Hf Hp E.
  destruct (route_ortho_cases g sp e a mid b Hf Hp) as [[E' R]|[E' R]]; [congruence|].
  rewrite R, ortho_legs_length, length_ends. lia.
Qed.

(* ====================================================================================== *)
(** * R5. Shifting: the output collection                                                  *)
(* ====================================================================================== *)

Definition shift_pt (s : Q) (p : pt) : pt := (fst p + s, snd p).

Definition oedge_of (shift : Q) (g : graph) (e : nat) : oedge :=
  mkOEdge (e_from (gedge g e)) (e_to (gedge g e)) (map (shift_pt shift) (e_pts (gedge g e))) (e_ahs (gedge g e)).

Definition onode_of (shift : Q) (g : graph) (n : nat) : onode :=
  mkONode n (nX g n + shift) (nY g n) (nW g n) (nH g n).

Lemma collect_edges_eq : forall shift g,
  collect_edges shift g =
  map (fun e => mkOEdge (e_from (gedge g e)) (e_to (gedge g e))
                        (map (shift_pt shift) (e_pts (gedge g e))) (e_ahs (gedge g e))) (g_E g).
Proof. reflexivity. Qed.

Lemma collect_edges_in : forall shift g e,
  In e (g_E g) -> In (oedge_of shift g e) (collect_edges shift g).
Proof. intros shift g e H. rewrite collect_edges_eq. apply (in_map (oedge_of shift g)), H. Qed.

Lemma collect_nodes_in : forall include_virtual shift g n,
  In n (g_N g) ->
  (n_virt (gnode g n) = false \/ include_virtual = true) ->
  In (onode_of shift g n) (collect_nodes include_virtual shift g).
Proof.
  intros iv shift g n Hn Hv. unfold collect_nodes. apply in_flat_map. exists n. split; [exact Hn|].
  cbv zeta.
  assert (E : (n_virt (gnode g n) && negb iv)%bool = false).
  { destruct Hv as [->| ->]; [reflexivity|apply andb_false_r]. }
  rewrite E. left. reflexivity.
Qed.
Print Assumptions collect_nodes_in.

(* shape predicates are invariant under the horizontal shift *)
Lemma hv_shift : forall s p q, hv p q -> hv (shift_pt s p) (shift_pt s q).
Proof.
  intros s p q [H|H]; [left|right]; unfold shift_pt; cbn [fst snd]; [rewrite H; reflexivity|exact H].
Qed.

Lemma all_hv_shift : forall s l, all_hv l -> all_hv (map (shift_pt s) l).
Proof.
  intros s l; induction l as [|p t IH]; [exact (fun H => H)|].
  destruct t as [|q t]; [exact (fun H => H)|].
  cbn [map] in *. rewrite !all_hv_cons2. intros [H1 H2]. split; [apply hv_shift, H1|apply IH, H2].
Qed.

Lemma y_mono_shift : forall s l, y_mono l -> y_mono (map (shift_pt s) l).
Proof.
  intros s l; induction l as [|p t IH]; [exact (fun H => H)|].
  destruct t as [|q t]; [exact (fun H => H)|].
  cbn [map] in *. rewrite !y_mono_cons2. intros [H1 H2]. split; [exact H1|apply IH, H2].
Qed.

Lemma length_shift : forall s l, length (map (shift_pt s) l) = length l.
Proof. intros. apply map_length. Qed.

Lemma map_shift_ends : forall s p l q,
  map (shift_pt s) (p :: l ++ [q]) = shift_pt s p :: map (shift_pt s) l ++ [shift_pt s q].
Proof. intros s p l q. cbn [map]. rewrite map_app. reflexivity. Qed.

(* the end points move with the node records *)
Definition pt_eq (p q : pt) : Prop := fst p == fst q /\ snd p == snd q.
Definition o_start (o : onode) : pt := (on_x o + on_w o / 2, on_y o + on_h o).
Definition o_end (o : onode) : pt := (on_x o + on_w o / 2, on_y o).

Lemma shift_start_point : forall shift g n,
  pt_eq (shift_pt shift (start_point g n)) (o_start (onode_of shift g n)).
Proof.
  intros shift g n. unfold pt_eq, shift_pt, start_point, o_start, onode_of.
  cbn [fst snd on_x on_y on_w on_h]. split; [unfold Qdiv; ring|reflexivity].
Qed.

Lemma shift_end_point : forall shift g n,
  pt_eq (shift_pt shift (end_point g n)) (o_end (onode_of shift g n)).
Proof.
  intros shift g n. unfold pt_eq, shift_pt, end_point, o_end, onode_of.
  cbn [fst snd on_x on_y on_w on_h]. split; [unfold Qdiv; ring|reflexivity].
Qed.

(* the bends stay centred on their node record and in its layer band *)
Definition o_bend_ok (g : graph) (o : onode) (r : pt) : Prop :=
  fst r == on_x o + on_w o / 2 /\
  on_y o <= snd r /\ snd r <= on_y o + layer_h_of g (on_id o).

Lemma shift_bends : forall shift g mid,
  (forall n, In n mid -> 0 <= layer_h_of g n) ->
  Forall2 (fun n r => o_bend_ok g (onode_of shift g n) r) mid (map (shift_pt shift) (map (bend g) mid)).
Proof.
  intros shift g mid; induction mid as [|m mid IH]; intros Hh; cbn [map]; constructor.
  - assert (Hm : 0 <= layer_h_of g m) by (apply Hh; left; reflexivity).
    unfold o_bend_ok, shift_pt, bend, onode_of. cbn [fst snd on_x on_y on_w on_h on_id].
    split; [unfold Qdiv; ring|split; qlra].
  - apply IH. intros n Hn. apply Hh. right. exact Hn.
Qed.

(** ** Final corollaries: properties of the collected edges.
    [g0] is the graph in which the route was computed, [g] the graph that is collected: it has the same
    node arena (phase 5 only writes the edge arena) and stores the route in [e_pts]. *)

Lemma same_na_gnode : forall g0 g, g_na g = g_na g0 -> forall n, gnode g n = gnode g0 n.
Proof. intros g0 g H n. unfold gnode. rewrite H. reflexivity. Qed.

Lemma same_na_onode : forall shift g0 g, g_na g = g_na g0 ->
  forall n, onode_of shift g n = onode_of shift g0 n.
Proof.
  intros shift g0 g H n. unfold onode_of, nX, nY, nW, nH. rewrite (same_na_gnode g0 g H). reflexivity.
Qed.

(* one step of the phase-5 fold produces such a [g] *)
Lemma upd_edge_set_pts : forall g0 e pts,
  (e < length (g_ea g0))%nat ->
  g_na (upd_edge g0 e (set_pts pts)) = g_na g0 /\
  g_N (upd_edge g0 e (set_pts pts)) = g_N g0 /\
  g_E (upd_edge g0 e (set_pts pts)) = g_E g0 /\
  e_pts (gedge (upd_edge g0 e (set_pts pts)) e) = pts.
Proof.
  intros g0 e pts H. split; [reflexivity|]. split; [reflexivity|]. split; [reflexivity|].
  unfold gedge, upd_edge, with_ea. cbn [g_ea]. rewrite nth_upd_same by exact H. reflexivity.
Qed.

Theorem collected_straight : forall shift g0 g e a mid b,
  g_na g = g_na g0 -> In e (g_E g) ->
  is_flat g0 e = false ->
  e_pts (gedge g e) = route_straight g0 e (a :: mid ++ [b]) ->
  In (oedge_of shift g e) (collect_edges shift g) /\
  exists p q, oe_pts (oedge_of shift g e) = [p; q] /\
              pt_eq p (o_start (onode_of shift g a)) /\ pt_eq q (o_end (onode_of shift g b)).
Proof.
  intros shift g0 g e a mid b Hna He Hf Hp. split; [apply collect_edges_in, He|].
  unfold oedge_of. cbn [oe_pts]. rewrite Hp, route_straight_ends by exact Hf.
  rewrite !(same_na_onode shift g0 g Hna).
  eexists; eexists. split; [reflexivity|]. split; [apply shift_start_point|apply shift_end_point].
Qed.
Print Assumptions collected_straight.

Lemma Forall2_impl' : forall A B (P Q : A -> B -> Prop) l1 l2,
  (forall a b, P a b -> Q a b) -> Forall2 P l1 l2 -> Forall2 Q l1 l2.
Proof. intros A B P Q l1 l2 H F. induction F; constructor; auto. Qed.

Theorem collected_polyline : forall shift g0 g e a mid b,
  g_na g = g_na g0 -> In e (g_E g) ->
  is_flat g0 e = false ->
  (forall n, In n mid -> n_virt (gnode g0 n) = true) ->
  e_pts (gedge g0 e) = [] ->
  (forall n, In n mid -> 0 <= layer_h_of g0 n) ->
  route_polyline g0 e (a :: mid ++ [b]) = Ok (e_pts (gedge g e)) ->
  In (oedge_of shift g e) (collect_edges shift g) /\
  length (oe_pts (oedge_of shift g e)) = length (a :: mid ++ [b]) /\
  exists p l q, oe_pts (oedge_of shift g e) = p :: l ++ [q] /\
                pt_eq p (o_start (onode_of shift g a)) /\ pt_eq q (o_end (onode_of shift g b)) /\
                Forall2 (fun n r => o_bend_ok g0 (onode_of shift g n) r) mid l.
Proof.
  intros shift g0 g e a mid b Hna He Hf Hv Hp0 Hh Hr. split; [apply collect_edges_in, He|].
  unfold oedge_of. cbn [oe_pts]. split.
  - rewrite length_shift. apply (route_polyline_length g0 e a mid b); assumption.
  - rewrite route_polyline_ok in Hr by assumption. injection Hr as Hr. rewrite <- Hr.
    rewrite map_shift_ends.
    eexists; eexists; eexists. split; [reflexivity|].
    rewrite !(same_na_onode shift g0 g Hna).
    split; [apply shift_start_point|]. split; [apply shift_end_point|].
    assert (F : Forall2 (fun n r => o_bend_ok g0 (onode_of shift g0 n) r) mid
                        (map (shift_pt shift) (map (bend g0) mid))) by (apply shift_bends, Hh).
    revert F. apply Forall2_impl'. intros n r H. rewrite (same_na_onode shift g0 g Hna). exact H.
Qed.
Print Assumptions collected_polyline.

Theorem collected_polyline_y_mono : forall shift sp g0 g e a mid b,
  is_flat g0 e = false ->
  (forall n, In n mid -> n_virt (gnode g0 n) = true) ->
  e_pts (gedge g0 e) = [] ->
  0 <= sp ->
  chain_y_ge g0 sp (a :: mid ++ [b]) ->
  (forall n, In n (a :: mid ++ [b]) -> 0 <= nH g0 n /\ nH g0 n <= layer_h_of g0 n) ->
  route_polyline g0 e (a :: mid ++ [b]) = Ok (e_pts (gedge g e)) ->
  y_mono (oe_pts (oedge_of shift g e)).
Proof.
  intros shift sp g0 g e a mid b Hf Hv Hp0 Hsp Hc Hh Hr.
  unfold oedge_of. cbn [oe_pts]. apply y_mono_shift.
  apply (route_polyline_y_mono g0 sp e a mid b); assumption.
Qed.
Print Assumptions collected_polyline_y_mono.

Theorem collected_ortho : forall shift sp g0 g e a mid b,
  g_na g = g_na g0 -> In e (g_E g) ->
  is_flat g0 e = false ->
  e_pts (gedge g0 e) = [] ->
  ends_match g0 e a b ->
  chain_y_eq g0 sp (a :: mid ++ [b]) ->
  e_pts (gedge g e) = route_ortho g0 sp e (a :: mid ++ [b]) ->
  In (oedge_of shift g e) (collect_edges shift g) /\
  all_hv (oe_pts (oedge_of shift g e)) /\
  exists p l q, oe_pts (oedge_of shift g e) = p :: l ++ [q] /\
                pt_eq p (o_start (onode_of shift g a)) /\ pt_eq q (o_end (onode_of shift g b)).
Proof.
  intros shift sp g0 g e a mid b Hna He Hf Hp0 Hm Hc Hr. split; [apply collect_edges_in, He|].
  unfold oedge_of. cbn [oe_pts]. rewrite Hr. split.
  - apply all_hv_shift, route_ortho_all_hv; assumption.
  - destruct (route_ortho_ends g0 sp e a mid b Hf Hp0) as (l & El). rewrite El, map_shift_ends.
    eexists; eexists; eexists. split; [reflexivity|].
    rewrite !(same_na_onode shift g0 g Hna).
    split; [apply shift_start_point|apply shift_end_point].
Qed.
Print Assumptions collected_ortho.

(* the chain predicates only read y, the layer index and the layer heights of the nodes of the route *)
Lemma chain_y_eq_ext : forall g g' sp ns,
  (forall n, In n ns -> nY g' n = nY g n /\ layer_h_of g' n = layer_h_of g n) ->
  chain_y_eq g sp ns -> chain_y_eq g' sp ns.
Proof.
  intros g g' sp ns; induction ns as [|a t IH]; intros He; [exact (fun H => H)|].
  destruct t as [|b t]; [exact (fun H => H)|].
  rewrite !chain_y_eq_cons2. intros [H1 H2].
  destruct (He a (or_introl eq_refl)) as [Ea Ha].
  destruct (He b (or_intror (or_introl eq_refl))) as [Eb _].
  split; [rewrite Ea, Eb, Ha; exact H1|].
  apply IH; [|exact H2]. intros n Hn. apply He. right. exact Hn.
Qed.

(* ====================================================================================== *)
(** * Examples: a concrete graph on which all hypotheses hold and the routes evaluate      *)
(* ====================================================================================== *)

(* three layers; node 1 is the virtual node of the long edge 0 -> 2 (edges 0 and 2), edge 1 is short.
   sizes: n0 10x4, n1 0x0 (virtual), n2 20x6, n3 8x8. *)
Definition r_pre : graph :=
  mkGraph [mkNode [] [0; 1]%nat 0 0 false 0 0 10 4;
           mkNode [0]%nat [2]%nat 1 0 true 0 0 0 0;
           mkNode [2]%nat [] 2 0 false 0 0 20 6;
           mkNode [1]%nat [] 1 1 false 0 0 8 8]
          [mkEdge 0 1 1 1 false false 0 [] false; mkEdge 0 3 1 1 false false 0 [] false;
           mkEdge 1 2 1 1 false false 0 [] false]
          [0; 1; 2; 3]%nat [0; 1; 2]%nat
          [mkLayer [0]%nat 0 0; mkLayer [1; 3]%nat 0 0; mkLayer [2]%nat 0 0].
Definition r_p : p4params := mkP4 5 7 1 1.           (* node spacing 5, layer spacing 7 *)
Definition qr (l : list pt) : list pt := map (fun p : pt => (Qred (fst p), Qred (snd p))) l.

(* phase 4 (PackRight then assign_y), then the merge of long edges of phase 5 *)
Definition r_g : graph := assign_y 7 (exec_pack_right 5 r_pre).
Definition r_m : graph := match merge_long_edges r_g with Ok (g, _) => g | Err _ => r_g end.
Definition r_route : list nat := [0; 1; 2]%nat.     (* = 0 :: [1] ++ [2] *)

Example r_phase4 : phase4 PackRight r_p r_pre = Ok r_g.
Proof. apply phase4_packright. reflexivity. Qed.

Example r_merge : merge_long_edges r_g = Ok (r_m, [(0, r_route); (1, [0; 3])]%nat).
Proof. vm_compute. reflexivity. Qed.

Example r_geometry :
  map (fun n => (Qred (nX r_m n), Qred (nY r_m n), Qred (layer_h_of r_m n))) [0; 1; 2; 3]%nat =
  [(10, 0, 4); (7, 11, 8); (0, 26, 6); (12, 11, 8)].
Proof. vm_compute. reflexivity. Qed.

(* hypotheses of R3 (derivation from assign_y) *)
Example r_layers_wf : layers_wf r_pre.
Proof. apply layers_wfb_iff. vm_compute. reflexivity. Qed.

Example r_placed : forall n, In n r_route -> placed r_pre n.
Proof.
  intros n [<-|[<-|[<-|[]]]]; (split; [vm_compute; discriminate|vm_compute; intuition]).
Qed.

Example r_chain_layers : chain_layers r_pre r_route.
Proof. vm_compute. intuition. Qed.

(* chain_y_eq for the phase-4 output, by the theorem *)
Example r_chain_y_eq_g : chain_y_eq r_g 7 r_route.
Proof.
  apply (phase4_packright_chain r_p r_pre r_g r_route);
    [reflexivity|exact r_phase4|exact r_layers_wf|exact r_placed|exact r_chain_layers].
Qed.

(* the merge does not move nodes *)
Example r_chain_y_eq : chain_y_eq r_m 7 r_route.
Proof.
  apply (chain_y_eq_ext r_g); [|exact r_chain_y_eq_g].
  intros n [<-|[<-|[<-|[]]]]; split; vm_compute; reflexivity.
Qed.

Example r_chain_y_ge : chain_y_ge r_m 7 (0 :: [1] ++ [2])%nat.
Proof. apply chain_y_eq_ge, r_chain_y_eq. Qed.

Example r_flat : is_flat r_m 0 = false. Proof. vm_compute. reflexivity. Qed.
Example r_pts_nil : e_pts (gedge r_m 0) = []. Proof. vm_compute. reflexivity. Qed.
Example r_virt : forall n, In n [1%nat] -> n_virt (gnode r_m n) = true.
Proof. intros n [<-|[]]. vm_compute. reflexivity. Qed.
Example r_heights : forall n, In n (0 :: [1] ++ [2])%nat -> 0 <= nH r_m n /\ nH r_m n <= layer_h_of r_m n.
Proof. intros n [<-|[<-|[<-|[]]]]; split; vm_compute; discriminate. Qed.
Example r_ends_match : ends_match r_m 0 0 2.
Proof. left. split; vm_compute; reflexivity. Qed.

(* R1 *)
Example r_straight : route_straight r_m 0 r_route = [start_point r_m 0; end_point r_m 2].
Proof. apply (route_straight_ends r_m 0 0 [1%nat] 2 r_flat). Qed.
Example r_straight_eval : qr (route_straight r_m 0 r_route) = [(15, 4); (10, 26)].
Proof. vm_compute. reflexivity. Qed.

(* R2 *)
Example r_polyline :
  route_polyline r_m 0 r_route = Ok (start_point r_m 0 :: map (bend r_m) [1%nat] ++ [end_point r_m 2]).
Proof. apply (route_polyline_ok r_m 0 0 [1%nat] 2 r_flat r_virt r_pts_nil). Qed.
Example r_polyline_eval :
  match route_polyline r_m 0 r_route with Ok l => qr l | Err _ => [] end = [(15, 4); (7, 15); (10, 26)].
Proof. vm_compute. reflexivity. Qed.
(* a route through the real node 3 is rejected *)
Example r_polyline_err : route_polyline r_m 0 (0 :: [3] ++ [2])%nat = Err ErrBendNotVirtual.
Proof.
  apply (route_polyline_err r_m 0 0 [3%nat] 2 r_flat).
  exists 3%nat. split; [left; reflexivity|vm_compute; reflexivity].
Qed.

(* R3 *)
Example r_polyline_mono :
  y_mono (start_point r_m 0 :: map (bend r_m) [1%nat] ++ [end_point r_m 2]).
Proof. apply (polyline_y_mono r_m 7 0 [1%nat] 2); [discriminate|exact r_chain_y_ge|exact r_heights]. Qed.

(* node 3 (x from 12 to 20) is x-disjoint from the virtual node 1 (x = 7, width 0): the bend misses it *)
Example r_bend_misses_3 : ~ strictly_inside r_m 3 (bend r_m 1).
Proof.
  apply bend_not_strictly_inside; [vm_compute; discriminate|vm_compute; discriminate|].
  left. right. vm_compute. discriminate.
Qed.

(* R4 *)
Example r_ortho_hv : all_hv (route_ortho r_m 7 0 r_route).
Proof.
  apply (route_ortho_all_hv r_m 7 0 0 [1%nat] 2 r_flat r_pts_nil r_ends_match r_chain_y_eq).
Qed.
Example r_ortho_eval :
  qr (route_ortho r_m 7 0 r_route) =
  [(15, 4); (15, 15 # 2); (7, 15 # 2); (7, 11); (7, 11); (7, 45 # 2); (10, 45 # 2); (10, 26)].
Proof. vm_compute. reflexivity. Qed.
Example r_ortho_len : length (ortho_legs r_m (7 / 2) r_route) = 8%nat.
Proof. rewrite ortho_legs_length. reflexivity. Qed.

(* the aligned branch: with VAlign the two ends of edge 0 are centred on the same x *)
Definition r_gv : graph := assign_y 7 (exec_valign 5 r_pre).
Definition r_mv : graph := match merge_long_edges r_gv with Ok (g, _) => g | Err _ => r_gv end.
Example r_ortho_aligned_eval : qr (route_ortho r_mv 7 0 r_route) = [(10, 4); (10, 26)].
Proof. vm_compute. reflexivity. Qed.
Example r_chain_y_eq_v : chain_y_eq r_mv 7 r_route.
Proof.
  apply (chain_y_eq_ext r_gv).
  - intros n [<-|[<-|[<-|[]]]]; split; vm_compute; reflexivity.
  - apply (phase4_valign_chain r_p r_pre r_gv r_route);
      [reflexivity|apply phase4_valign; reflexivity|exact r_layers_wf|exact r_placed|exact r_chain_layers].
Qed.
Example r_ortho_aligned_hv : all_hv (route_ortho r_mv 7 0 r_route).
Proof.
  apply (route_ortho_all_hv r_mv 7 0 0 [1%nat] 2); [vm_compute; reflexivity|vm_compute; reflexivity| |exact r_chain_y_eq_v].
  left. split; vm_compute; reflexivity.
Qed.

(* R5: the whole of phase 5 (ortho) and the collection with shift 100 *)
Definition r_5 : graph := match phase5 Ortho 7 r_g with Ok g => g | Err _ => r_g end.
Example r_phase5 : phase5 Ortho 7 r_g = Ok r_5.
Proof. vm_compute. reflexivity. Qed.
Example r_5_na : g_na r_5 = g_na r_m. Proof. vm_compute. reflexivity. Qed.
Example r_5_in : In 0%nat (g_E r_5). Proof. vm_compute. intuition. Qed.
Example r_5_pts : e_pts (gedge r_5 0) = route_ortho r_m 7 0 (0 :: [1] ++ [2])%nat.
Proof. vm_compute. reflexivity. Qed.

Example r_collected_ortho :
  In (oedge_of 100 r_5 0) (collect_edges 100 r_5) /\
  all_hv (oe_pts (oedge_of 100 r_5 0)) /\
  exists p l q, oe_pts (oedge_of 100 r_5 0) = p :: l ++ [q] /\
                pt_eq p (o_start (onode_of 100 r_5 0)) /\ pt_eq q (o_end (onode_of 100 r_5 2)).
Proof.
  apply (collected_ortho 100 7 r_m r_5 0 0 [1%nat] 2 r_5_na r_5_in r_flat r_pts_nil r_ends_match
                         r_chain_y_eq r_5_pts).
Qed.

Example r_collected_eval :
  map (fun o => qr (oe_pts o)) (collect_edges 100 r_5) =
  [[(115, 4); (115, 15 # 2); (107, 15 # 2); (107, 11); (107, 11); (107, 45 # 2); (110, 45 # 2); (110, 26)];
   [(115, 4); (115, 15 # 2); (116, 15 # 2); (116, 11)]].
Proof. vm_compute. reflexivity. Qed.

Example r_collected_nodes :
  In (onode_of 100 r_5 0) (collect_nodes false 100 r_5) /\ In (onode_of 100 r_5 2) (collect_nodes false 100 r_5).
Proof.
  split; apply collect_nodes_in; try (vm_compute; intuition); left; vm_compute; reflexivity.
Qed.

(* polyline and straight through phase 5 and the collection *)
Definition r_5p : graph := match phase5 Polyline 7 r_g with Ok g => g | Err _ => r_g end.
Example r_collected_polyline :
  In (oedge_of 100 r_5p 0) (collect_edges 100 r_5p) /\
  length (oe_pts (oedge_of 100 r_5p 0)) = 3%nat /\
  y_mono (oe_pts (oedge_of 100 r_5p 0)).
Proof.
  assert (Hr : route_polyline r_m 0 (0 :: [1] ++ [2])%nat = Ok (e_pts (gedge r_5p 0))) by (vm_compute; reflexivity).
  destruct (collected_polyline 100 r_m r_5p 0 0 [1%nat] 2) as (A & B & _);
    [vm_compute; reflexivity|vm_compute; intuition|exact r_flat|exact r_virt|exact r_pts_nil| |exact Hr|].
  - intros n [<-|[]]. vm_compute. discriminate.
  - split; [exact A|]. split; [exact B|].
    apply (collected_polyline_y_mono 100 7 r_m r_5p 0 0 [1%nat] 2 r_flat r_virt r_pts_nil);
      [discriminate|exact r_chain_y_ge|exact r_heights|exact Hr].
Qed.

Definition r_5s : graph := match phase5 Straight 7 r_g with Ok g => g | Err _ => r_g end.
Example r_collected_straight :
  In (oedge_of 100 r_5s 0) (collect_edges 100 r_5s) /\
  exists p q, oe_pts (oedge_of 100 r_5s 0) = [p; q] /\
              pt_eq p (o_start (onode_of 100 r_5s 0)) /\ pt_eq q (o_end (onode_of 100 r_5s 2)).
Proof.
  apply (collected_straight 100 r_m r_5s 0 0 [1%nat] 2);
    [vm_compute; reflexivity|vm_compute; intuition|exact r_flat|vm_compute; reflexivity].
Qed.
Print Assumptions r_collected_ortho.
Print Assumptions r_collected_polyline.
