(* Scale.v — SCALE EQUIVARIANCE ("unit independence") of the geometric phases of the model.
   Multiplying all node sizes, the node spacing and the layer spacing by the same positive rational c
   multiplies every computed coordinate by c and changes nothing else.

   Method: a relation [graph_rel c g g'] ("g' is g with every rational field multiplied by c, up to Qeq")
   is shown to be preserved by every step of phase4 / phase5. The requested statements
   [graph_equiv (F (c*s) (scale_graph c g)) (scale_graph c (F s g))] are corollaries, since
   [graph_rel c g g' <-> graph_equiv g' (scale_graph c g)]. *)
From Autog Require Import Base Graph Phase4 Phase5.
From Coq Require Import Lqa.
Local Open Scope Q_scope.

(* ================================================================================================ *)
(** * Definitions *)

Definition scale_node (c : Q) (n : node) : node :=
  mkNode (n_in n) (n_out n) (n_layer n) (n_pos n) (n_virt n) (c * n_x n) (c * n_y n) (c * n_w n) (c * n_h n).
Definition scale_pt (c : Q) (p : pt) : pt := (c * fst p, c * snd p).
Definition scale_edge (c : Q) (e : edge) : edge := set_pts (map (fun p => (c * fst p, c * snd p)) (e_pts e)) e.
Definition scale_layer (c : Q) (l : layer) : layer := mkLayer (l_nodes l) (c * l_w l) (c * l_h l).
Definition scale_graph (c : Q) (g : graph) : graph :=
  mkGraph (map (scale_node c) (g_na g)) (map (scale_edge c) (g_ea g)) (g_N g) (g_E g) (map (scale_layer c) (g_L g)).

(** Equivalence of graphs: Leibniz on discrete fields, Qeq on rational fields. *)
Record node_equiv (a b : node) : Prop := mkNodeEquiv {
  ne_in : n_in a = n_in b;
  ne_out : n_out a = n_out b;
  ne_layer : n_layer a = n_layer b;
  ne_pos : n_pos a = n_pos b;
  ne_virt : n_virt a = n_virt b;
  ne_x : n_x a == n_x b;
  ne_y : n_y a == n_y b;
  ne_w : n_w a == n_w b;
  ne_h : n_h a == n_h b }.

Definition pt_equiv (p q : pt) : Prop := fst p == fst q /\ snd p == snd q.
Definition pts_equiv (p q : list pt) : Prop := Forall2 pt_equiv p q.

Record edge_equiv (a b : edge) : Prop := mkEdgeEquiv {
  ee_from : e_from a = e_from b;
  ee_to : e_to a = e_to b;
  ee_delta : e_delta a = e_delta b;
  ee_weight : e_weight a = e_weight b;
  ee_tree : e_tree a = e_tree b;
  ee_rev : e_rev a = e_rev b;
  ee_cut : e_cut a = e_cut b;
  ee_ahs : e_ahs a = e_ahs b;
  ee_pts : pts_equiv (e_pts a) (e_pts b) }.

Record layer_equiv (a b : layer) : Prop := mkLayerEquiv {
  le_nodes : l_nodes a = l_nodes b;
  le_w : l_w a == l_w b;
  le_h : l_h a == l_h b }.

Record graph_equiv (g1 g2 : graph) : Prop := mkGraphEquiv {
  ge_na : Forall2 node_equiv (g_na g1) (g_na g2);
  ge_ea : Forall2 edge_equiv (g_ea g1) (g_ea g2);
  ge_N : g_N g1 = g_N g2;
  ge_E : g_E g1 = g_E g2;
  ge_L : Forall2 layer_equiv (g_L g1) (g_L g2) }.

(** The working relation: [g'] is [g] scaled by [c]. *)
Record node_rel (c : Q) (n n' : node) : Prop := mkNodeRel {
  nr_in : n_in n' = n_in n;
  nr_out : n_out n' = n_out n;
  nr_layer : n_layer n' = n_layer n;
  nr_pos : n_pos n' = n_pos n;
  nr_virt : n_virt n' = n_virt n;
  nr_x : n_x n' == c * n_x n;
  nr_y : n_y n' == c * n_y n;
  nr_w : n_w n' == c * n_w n;
  nr_h : n_h n' == c * n_h n }.

Definition pt_rel (c : Q) (p p' : pt) : Prop := fst p' == c * fst p /\ snd p' == c * snd p.
Definition pts_rel (c : Q) (p p' : list pt) : Prop := Forall2 (pt_rel c) p p'.

Record edge_rel (c : Q) (e e' : edge) : Prop := mkEdgeRel {
  er_from : e_from e' = e_from e;
  er_to : e_to e' = e_to e;
  er_delta : e_delta e' = e_delta e;
  er_weight : e_weight e' = e_weight e;
  er_tree : e_tree e' = e_tree e;
  er_rev : e_rev e' = e_rev e;
  er_cut : e_cut e' = e_cut e;
  er_ahs : e_ahs e' = e_ahs e;
  er_pts : pts_rel c (e_pts e) (e_pts e') }.

Record layer_rel (c : Q) (l l' : layer) : Prop := mkLayerRel {
  lr_nodes : l_nodes l' = l_nodes l;
  lr_w : l_w l' == c * l_w l;
  lr_h : l_h l' == c * l_h l }.

Record graph_rel (c : Q) (g g' : graph) : Prop := mkGraphRel {
  gr_na : Forall2 (node_rel c) (g_na g) (g_na g');
  gr_ea : Forall2 (edge_rel c) (g_ea g) (g_ea g');
  gr_N : g_N g' = g_N g;
  gr_E : g_E g' = g_E g;
  gr_L : Forall2 (layer_rel c) (g_L g) (g_L g') }.

Arguments nr_in {c n n'} _.
Arguments nr_out {c n n'} _.
Arguments nr_layer {c n n'} _.
Arguments nr_pos {c n n'} _.
Arguments nr_virt {c n n'} _.
Arguments nr_x {c n n'} _.
Arguments nr_y {c n n'} _.
Arguments nr_w {c n n'} _.
Arguments nr_h {c n n'} _.
Arguments er_from {c e e'} _.
Arguments er_to {c e e'} _.
Arguments er_delta {c e e'} _.
Arguments er_weight {c e e'} _.
Arguments er_tree {c e e'} _.
Arguments er_rev {c e e'} _.
Arguments er_cut {c e e'} _.
Arguments er_ahs {c e e'} _.
Arguments er_pts {c e e'} _.
Arguments lr_nodes {c l l'} _.
Arguments lr_w {c l l'} _.
Arguments lr_h {c l l'} _.
Arguments gr_na {c g g'} _.
Arguments gr_ea {c g g'} _.
Arguments gr_N {c g g'} _.
Arguments gr_E {c g g'} _.
Arguments gr_L {c g g'} _.

(** Results: same error, or related values. *)
Definition res_rel {A B} (R : A -> B -> Prop) (r : res A) (r' : res B) : Prop :=
  match r, r' with
  | Ok a, Ok a' => R a a'
  | Err e, Err e' => e = e'
  | _, _ => False
  end.

Definition map_res {A B} (f : A -> B) (r : res A) : res B :=
  match r with Ok a => Ok (f a) | Err e => Err e end.

(** [res_equiv r1 r2]: both fail with the same error or both succeed with equivalent graphs. *)
Definition res_equiv (r1 r2 : res graph) : Prop := res_rel graph_equiv r1 r2.

(* ================================================================================================ *)
(** * Generic list lemmas *)

Lemma Forall2_nth_rel {A B} (R : A -> B -> Prop) l l' d d' i :
  Forall2 R l l' -> R d d' -> R (nth i l d) (nth i l' d').
Proof. intros H Hd; revert i; induction H; intros [|i]; cbn; auto. Qed.

Lemma Forall2_len {A B} (R : A -> B -> Prop) l l' : Forall2 R l l' -> length l' = length l.
Proof. intros H; induction H; cbn; auto. Qed.

Lemma Forall2_upd {A B} (R : A -> B -> Prop) l l' i f f' :
  Forall2 R l l' -> (forall a a', R a a' -> R (f a) (f' a')) -> Forall2 R (upd l i f) (upd l' i f').
Proof.
  intros H Hf; revert i; induction H; intros [|i]; cbn; constructor; auto.
Qed.

Lemma Forall2_map2 {A B A1 B1} (R : A -> B -> Prop) (S : A1 -> B1 -> Prop) f f' l l' :
  Forall2 R l l' -> (forall a a', R a a' -> S (f a) (f' a')) -> Forall2 S (map f l) (map f' l').
Proof. intros H Hf; induction H; cbn; constructor; auto. Qed.

Lemma Forall2_map_r_iff {A B} (R : B -> B -> Prop) (f : A -> B) l l' :
  Forall2 R l' (map f l) <-> Forall2 (fun a a' => R a' (f a)) l l'.
Proof.
  split.
  - revert l'; induction l as [|x l IH]; intros l' H; inversion H; subst; constructor; auto.
  - intros H; induction H; cbn; constructor; auto.
Qed.

Lemma Forall2_impl {A B} (R S : A -> B -> Prop) l l' :
  (forall a b, R a b -> S a b) -> Forall2 R l l' -> Forall2 S l l'.
Proof. intros HS H; induction H; constructor; auto. Qed.

Lemma Forall2_refl_In {A} (R : A -> A -> Prop) l : (forall a, R a a) -> Forall2 R l l.
Proof. intros H; induction l; constructor; auto. Qed.

(** fold_left over two related lists *)
Lemma fold_left_rel2 {A A' X X'} (P : A -> A' -> Prop) (R : X -> X' -> Prop) f f' l l' :
  Forall2 R l l' ->
  (forall a a' x x', P a a' -> R x x' -> P (f a x) (f' a' x')) ->
  forall a a', P a a' -> P (fold_left f l a) (fold_left f' l' a').
Proof. intros H Hf; induction H; cbn; intros; auto. Qed.

(** fold_left over the same list, the step may use membership *)
Lemma fold_left_rel_In {A A' X} (P : A -> A' -> Prop) f f' (l : list X) :
  (forall a a' x, In x l -> P a a' -> P (f a x) (f' a' x)) ->
  forall a a', P a a' -> P (fold_left f l a) (fold_left f' l a').
Proof.
  induction l as [|x l IH]; cbn; intros Hf a a' Ha; [exact Ha|].
  apply IH; [intros; apply Hf; auto|apply Hf; auto].
Qed.

Lemma fold_left_rel {A A' X} (P : A -> A' -> Prop) f f' (l : list X) :
  (forall a a' x, P a a' -> P (f a x) (f' a' x)) ->
  forall a a', P a a' -> P (fold_left f l a) (fold_left f' l a').
Proof. intros Hf; apply fold_left_rel_In; auto. Qed.

(* ================================================================================================ *)
(** * Rational lemmas: comparisons are invariant under positive scaling *)

Lemma Qle_bool_congr a a' b b' : a == a' -> b == b' -> Qle_bool a b = Qle_bool a' b'.
Proof.
  intros Ha Hb. destruct (Qle_bool a b) eqn:E1, (Qle_bool a' b') eqn:E2; auto.
  - apply Qle_bool_iff in E1. rewrite Ha, Hb in E1. apply Qle_bool_iff in E1. congruence.
  - apply Qle_bool_iff in E2. rewrite <- Ha, <- Hb in E2. apply Qle_bool_iff in E2. congruence.
Qed.

Lemma Qle_bool_scale c a b : 0 < c -> Qle_bool (c * a) (c * b) = Qle_bool a b.
Proof.
  intros Hc. destruct (Qle_bool (c * a) (c * b)) eqn:E1, (Qle_bool a b) eqn:E2; auto.
  - apply Qle_bool_iff in E1. apply Qmult_le_l in E1; auto. apply Qle_bool_iff in E1. congruence.
  - apply Qle_bool_iff in E2. apply (Qmult_le_l _ _ c) in E2; auto. apply Qle_bool_iff in E2. congruence.
Qed.

Lemma Qle_bool_rel c a a' b b' : 0 < c -> a' == c * a -> b' == c * b -> Qle_bool a' b' = Qle_bool a b.
Proof. intros Hc Ha Hb. rewrite (Qle_bool_congr _ _ _ _ Ha Hb). apply Qle_bool_scale; auto. Qed.

Lemma Qlt_bool_rel c a a' b b' : 0 < c -> a' == c * a -> b' == c * b -> Qlt_bool a' b' = Qlt_bool a b.
Proof. intros Hc Ha Hb. unfold Qlt_bool. f_equal. eapply Qle_bool_rel; eauto. Qed.

Lemma Qeq_bool_congr a a' b b' : a == a' -> b == b' -> Qeq_bool a b = Qeq_bool a' b'.
Proof.
  intros Ha Hb. destruct (Qeq_bool a b) eqn:E1, (Qeq_bool a' b') eqn:E2; auto.
  - apply Qeq_bool_iff in E1. rewrite Ha, Hb in E1. apply Qeq_bool_iff in E1. congruence.
  - apply Qeq_bool_iff in E2. rewrite <- Ha, <- Hb in E2. apply Qeq_bool_iff in E2. congruence.
Qed.

Lemma Qeq_bool_scale c a b : 0 < c -> Qeq_bool (c * a) (c * b) = Qeq_bool a b.
Proof.
  intros Hc. destruct (Qeq_bool (c * a) (c * b)) eqn:E1, (Qeq_bool a b) eqn:E2; auto.
  - apply Qeq_bool_iff in E1. apply Qmult_inj_l in E1; [|lra]. apply Qeq_bool_iff in E1. congruence.
  - apply Qeq_bool_iff in E2. rewrite E2 in E1. rewrite Qeq_bool_refl in E1. discriminate.
Qed.

Lemma Qeq_bool_rel c a a' b b' : 0 < c -> a' == c * a -> b' == c * b -> Qeq_bool a' b' = Qeq_bool a b.
Proof. intros Hc Ha Hb. rewrite (Qeq_bool_congr _ _ _ _ Ha Hb). apply Qeq_bool_scale; auto. Qed.

Lemma Qle_bool_false a b : Qle_bool a b = false -> b < a.
Proof.
  intros E. apply Qnot_le_lt. intros H. apply Qle_bool_iff in H. congruence.
Qed.

(** Qmax' / Qmin' commute with scaling by c >= 0 (up to Qeq). *)
Lemma Qmax'_rel c a a' b b' : 0 <= c -> a' == c * a -> b' == c * b -> Qmax' a' b' == c * Qmax' a b.
Proof.
  intros Hc Ha Hb. unfold Qmax'.
  destruct (Qle_bool a' b') eqn:E1, (Qle_bool a b) eqn:E2; auto.
  - apply Qle_bool_iff in E1. apply Qle_bool_false in E2.
    assert (c * b <= c * a) by nra. lra.
  - apply Qle_bool_iff in E2. apply Qle_bool_false in E1.
    assert (c * a <= c * b) by nra. lra.
Qed.

Lemma Qmin'_rel c a a' b b' : 0 <= c -> a' == c * a -> b' == c * b -> Qmin' a' b' == c * Qmin' a b.
Proof.
  intros Hc Ha Hb. unfold Qmin'.
  destruct (Qle_bool a' b') eqn:E1, (Qle_bool a b) eqn:E2; auto.
  - apply Qle_bool_iff in E1. apply Qle_bool_false in E2.
    assert (c * b <= c * a) by nra. lra.
  - apply Qle_bool_iff in E2. apply Qle_bool_false in E1.
    assert (c * a <= c * b) by nra. lra.
Qed.

(* ================================================================================================ *)
(** * [graph_rel] versus [graph_equiv] / [scale_graph] *)

Lemma node_rel_iff c n n' : node_rel c n n' <-> node_equiv n' (scale_node c n).
Proof. split; intros []; constructor; cbn in *; auto. Qed.

Lemma pts_rel_iff c p p' : pts_rel c p p' <-> pts_equiv p' (map (fun p => (c * fst p, c * snd p)) p).
Proof. unfold pts_rel, pts_equiv. rewrite Forall2_map_r_iff. reflexivity. Qed.

Lemma edge_rel_iff c e e' : edge_rel c e e' <-> edge_equiv e' (scale_edge c e).
Proof.
  split; intros []; constructor; cbn in *; auto; apply pts_rel_iff; auto.
Qed.

Lemma layer_rel_iff c l l' : layer_rel c l l' <-> layer_equiv l' (scale_layer c l).
Proof. split; intros []; constructor; cbn in *; auto. Qed.

Lemma graph_rel_iff c g g' : graph_rel c g g' <-> graph_equiv g' (scale_graph c g).
Proof.
  split; intros []; constructor; cbn in *; auto.
  - apply Forall2_map_r_iff. eapply Forall2_impl; [|eassumption]. intros; apply node_rel_iff; auto.
  - apply Forall2_map_r_iff. eapply Forall2_impl; [|eassumption]. intros; apply edge_rel_iff; auto.
  - apply Forall2_map_r_iff. eapply Forall2_impl; [|eassumption]. intros; apply layer_rel_iff; auto.
  - apply Forall2_map_r_iff in ge_na0. eapply Forall2_impl; [|eassumption]. intros; apply node_rel_iff; auto.
  - apply Forall2_map_r_iff in ge_ea0. eapply Forall2_impl; [|eassumption]. intros; apply edge_rel_iff; auto.
  - apply Forall2_map_r_iff in ge_L0. eapply Forall2_impl; [|eassumption]. intros; apply layer_rel_iff; auto.
Qed.

Lemma node_equiv_refl n : node_equiv n n.
Proof. constructor; reflexivity. Qed.
Lemma pts_equiv_refl p : pts_equiv p p.
Proof. apply Forall2_refl_In. intros; split; reflexivity. Qed.
Lemma edge_equiv_refl e : edge_equiv e e.
Proof. constructor; try reflexivity. apply pts_equiv_refl. Qed.
Lemma layer_equiv_refl l : layer_equiv l l.
Proof. constructor; reflexivity. Qed.
Lemma graph_equiv_refl g : graph_equiv g g.
Proof.
  constructor; try reflexivity; apply Forall2_refl_In;
    auto using node_equiv_refl, edge_equiv_refl, layer_equiv_refl.
Qed.

Lemma graph_rel_scale c g : graph_rel c g (scale_graph c g).
Proof. apply graph_rel_iff. apply graph_equiv_refl. Qed.

Lemma res_rel_iff c r r' :
  res_rel (graph_rel c) r r' <-> res_equiv r' (map_res (scale_graph c) r).
Proof.
  unfold res_equiv; destruct r, r'; cbn; try tauto.
  - apply graph_rel_iff.
  - split; congruence.
Qed.

(* ================================================================================================ *)
(** * Access and update of related graphs *)

Lemma node0_rel c : node_rel c node0 node0.
Proof. constructor; cbn; try reflexivity; ring. Qed.
Lemma edge0_rel c : edge_rel c edge0 edge0.
Proof. constructor; cbn; try reflexivity. constructor. Qed.
Lemma layer0_rel c : layer_rel c layer0 layer0.
Proof. constructor; cbn; try reflexivity; ring. Qed.

Lemma gnode_rel c g g' i : graph_rel c g g' -> node_rel c (gnode g i) (gnode g' i).
Proof. intros []. unfold gnode. apply Forall2_nth_rel; auto using node0_rel. Qed.
Lemma gedge_rel c g g' i : graph_rel c g g' -> edge_rel c (gedge g i) (gedge g' i).
Proof. intros []. unfold gedge. apply Forall2_nth_rel; auto using edge0_rel. Qed.
Lemma glayer_rel c g g' i : graph_rel c g g' -> layer_rel c (glayer g i) (glayer g' i).
Proof. intros []. unfold glayer. apply Forall2_nth_rel; auto using layer0_rel. Qed.

Arguments gnode_rel {c g g'} i _.
Arguments gedge_rel {c g g'} i _.
Arguments glayer_rel {c g g'} i _.

Lemma upd_node_rel c g g' i f f' :
  graph_rel c g g' -> (forall n n', node_rel c n n' -> node_rel c (f n) (f' n')) ->
  graph_rel c (upd_node g i f) (upd_node g' i f').
Proof. intros [] Hf. constructor; cbn; auto. apply Forall2_upd; auto. Qed.

Lemma upd_edge_rel c g g' i f f' :
  graph_rel c g g' -> (forall n n', edge_rel c n n' -> edge_rel c (f n) (f' n')) ->
  graph_rel c (upd_edge g i f) (upd_edge g' i f').
Proof. intros [] Hf. constructor; cbn; auto. apply Forall2_upd; auto. Qed.

Lemma upd_layer_rel c g g' i f f' :
  graph_rel c g g' -> (forall n n', layer_rel c n n' -> layer_rel c (f n) (f' n')) ->
  graph_rel c (upd_layer g i f) (upd_layer g' i f').
Proof. intros [] Hf. constructor; cbn; auto. apply Forall2_upd; auto. Qed.

Lemma with_L_rel c g g' l l' :
  graph_rel c g g' -> Forall2 (layer_rel c) l l' -> graph_rel c (with_L g l) (with_L g' l').
Proof. intros [] Hl. constructor; cbn; auto. Qed.

Lemma with_E_rel c g g' l : graph_rel c g g' -> graph_rel c (with_E g l) (with_E g' l).
Proof. intros []. constructor; cbn; auto. Qed.

Lemma set_x_rel c n n' q q' : node_rel c n n' -> q' == c * q -> node_rel c (set_x q n) (set_x q' n').
Proof. intros [] Hq. constructor; cbn; auto. Qed.
Lemma set_y_rel c n n' q q' : node_rel c n n' -> q' == c * q -> node_rel c (set_y q n) (set_y q' n').
Proof. intros [] Hq. constructor; cbn; auto. Qed.
Lemma set_in_rel c n n' l : node_rel c n n' -> node_rel c (set_in l n) (set_in l n').
Proof. intros []. constructor; cbn; auto. Qed.
Lemma set_out_rel c n n' l : node_rel c n n' -> node_rel c (set_out l n) (set_out l n').
Proof. intros []. constructor; cbn; auto. Qed.

Lemma set_pts_rel c e e' p p' : edge_rel c e e' -> pts_rel c p p' -> edge_rel c (set_pts p e) (set_pts p' e').
Proof. intros [] Hp. constructor; cbn; auto. Qed.
Lemma set_ends_rel c e e' a b : edge_rel c e e' -> edge_rel c (set_ends a b e) (set_ends a b e').
Proof. intros []. constructor; cbn; auto. Qed.
Lemma set_ahs_rel c e e' b : edge_rel c e e' -> edge_rel c (set_ahs b e) (set_ahs b e').
Proof. intros []. constructor; cbn; auto. Qed.

Lemma nW_rel c g g' n : graph_rel c g g' -> nW g' n == c * nW g n.
Proof. intros H. apply (gnode_rel n H). Qed.
Lemma nH_rel c g g' n : graph_rel c g g' -> nH g' n == c * nH g n.
Proof. intros H. apply (gnode_rel n H). Qed.
Lemma nX_rel c g g' n : graph_rel c g g' -> nX g' n == c * nX g n.
Proof. intros H. apply (gnode_rel n H). Qed.
Lemma nY_rel c g g' n : graph_rel c g g' -> nY g' n == c * nY g n.
Proof. intros H. apply (gnode_rel n H). Qed.

Arguments nW_rel {c g g'} n _.
Arguments nH_rel {c g g'} n _.
Arguments nX_rel {c g g'} n _.
Arguments nY_rel {c g g'} n _.

Lemma layer_of_rel c g g' n : graph_rel c g g' -> layer_of g' n = layer_of g n.
Proof. intros H. apply (gnode_rel n H). Qed.

Arguments layer_of_rel {c g g'} n _.

Lemma is_flat_rel c g g' e : graph_rel c g g' -> is_flat g' e = is_flat g e.
Proof.
  intros H. unfold is_flat. destruct (gedge_rel e H) as [Hf Ht _ _ _ _ _ _ _].
  rewrite Hf, Ht, !(layer_of_rel _ H). reflexivity.
Qed.
Arguments is_flat_rel {c g g'} e _.

(* ================================================================================================ *)
(** * Phase 4: assign_y, VAlign, PackRight *)

(** ** assign_y: no condition on c at all *)
Lemma assign_y_rel c sp sp' g g' :
  graph_rel c g g' -> sp' == c * sp -> graph_rel c (assign_y sp g) (assign_y sp' g').
Proof.
  intros H Hsp. unfold assign_y.
  set (P := fun (a : graph * Q) (a' : graph * Q) => graph_rel c (fst a) (fst a') /\ snd a' == c * snd a).
  enough (HP : P (fold_left (fun (acc : graph * Q) l =>
                    let '(g, y) := acc in
                    (fold_left (fun g n => upd_node g n (set_y y)) (l_nodes l) g, y + l_h l + sp))
                 (g_L g) (g, 0))
                (fold_left (fun (acc : graph * Q) l =>
                    let '(g, y) := acc in
                    (fold_left (fun g n => upd_node g n (set_y y)) (l_nodes l) g, y + l_h l + sp'))
                 (g_L g') (g', 0))) by apply HP.
  apply fold_left_rel2 with (R := layer_rel c).
  - apply H.
  - intros [a y] [a' y'] l l' [Ha Hy] [Hn _ Hh]; cbn in Ha, Hy. split; cbn [fst snd].
    + rewrite Hn. apply fold_left_rel; auto.
      intros b b' n Hb. apply upd_node_rel; auto. intros; apply set_y_rel; auto.
    + lra.
  - split; cbn; auto. ring.
Qed.

(** ** VAlign *)
Lemma layer_width_cons2 g s n m t acc :
  layer_width g s (n :: m :: t) acc = layer_width g s (m :: t) (acc + nW g n + s).
Proof. reflexivity. Qed.

Lemma layer_width_rel c s s' g g' :
  graph_rel c g g' -> s' == c * s ->
  forall ns acc acc', acc' == c * acc -> layer_width g' s' ns acc' == c * layer_width g s ns acc.
Proof.
  intros H Hs. induction ns as [|n t IH]; intros acc acc' Ha.
  - exact Ha.
  - destruct t as [|m t].
    + cbn. pose proof (nW_rel n H). lra.
    + rewrite !layer_width_cons2. apply IH. pose proof (nW_rel n H). lra.
Qed.

Lemma layer_height_rel c g g' ns h h' :
  0 <= c -> graph_rel c g g' -> h' == c * h -> layer_height g' ns h' == c * layer_height g ns h.
Proof.
  intros Hc H Hh. unfold layer_height.
  apply (fold_left_rel (fun a a' => a' == c * a)); auto.
  intros a a' n Ha. apply Qmax'_rel; auto. apply nH_rel; auto.
Qed.

Lemma place_from_rel c s s' ns :
  s' == c * s -> forall g g' pos pos', graph_rel c g g' -> pos' == c * pos ->
  graph_rel c (place_from g s ns pos) (place_from g' s' ns pos').
Proof.
  intros Hs. induction ns as [|n t IH]; intros g g' pos pos' H Hp; cbn [place_from]; auto.
  apply IH.
  - apply upd_node_rel; auto. intros; apply set_x_rel; auto.
  - pose proof (nW_rel n H). lra.
Qed.

Theorem exec_valign_rel c s s' g g' :
  0 <= c -> graph_rel c g g' -> s' == c * s -> graph_rel c (exec_valign s g) (exec_valign s' g').
Proof.
  intros Hc H Hs. unfold exec_valign.
  set (ls := map _ (g_L g)). set (ls' := map _ (g_L g')).
  assert (Hls : Forall2 (layer_rel c) ls ls').
  { apply Forall2_map2 with (R := layer_rel c); [apply H|].
    intros l l' [Hn _ _]. constructor; cbn [set_layer_wh l_nodes l_w l_h]; auto; rewrite Hn.
    - apply layer_width_rel; auto. ring.
    - apply layer_height_rel; auto. ring. }
  assert (HmaxW : fold_left (fun m l => Qmax' m (l_w l)) ls' 0 == c * fold_left (fun m l => Qmax' m (l_w l)) ls 0).
  { apply (fold_left_rel2 (fun a a' => a' == c * a) (layer_rel c)); auto; [|ring].
    intros a a' l l' Ha [_ Hw _]. apply Qmax'_rel; auto. }
  set (maxW := fold_left _ ls 0) in *. set (maxW' := fold_left _ ls' 0) in *.
  apply (fold_left_rel2 (graph_rel c) (layer_rel c)); auto.
  - intros a a' l l' Ha [Hn Hw _]. rewrite Hn. apply place_from_rel; auto.
    unfold Qdiv. rewrite Hw, HmaxW. ring.
  - apply with_L_rel; auto.
Qed.

(** ** PackRight *)
Lemma pack_back_rel c s s' ns :
  s' == c * s -> forall g g' x x', graph_rel c g g' -> x' == c * x ->
  graph_rel c (fst (pack_back g s ns x)) (fst (pack_back g' s' ns x')) /\
  snd (pack_back g' s' ns x') == c * snd (pack_back g s ns x).
Proof.
  intros Hs. induction ns as [|n t IH]; intros g g' x x' H Hx; cbn [pack_back].
  - split; cbn; auto.
  - assert (Hx' : x' - (nW g' n + s') == c * (x - (nW g n + s))).
    { pose proof (nW_rel n H). lra. }
    apply IH; auto.
    apply upd_node_rel; auto. intros; apply set_x_rel; auto.
Qed.

Arguments pack_back_rel {c s s'} ns _ {g g' x x'} _ _.

Theorem exec_pack_right_rel c s s' g g' :
  0 <= c -> graph_rel c g g' -> s' == c * s -> graph_rel c (exec_pack_right s g) (exec_pack_right s' g').
Proof.
  intros Hc H Hs. unfold exec_pack_right.
  set (F := fun s0 (acc : graph * Q) (l : layer) =>
              let '(g, lb) := acc in
              let '(g, x) := pack_back g s0 (rev (l_nodes l)) 0 in (g, Qmin' lb x)).
  change (fold_left _ (g_L g) (g, 0)) with (fold_left (F s) (g_L g) (g, 0)).
  change (fold_left _ (g_L g') (g', 0)) with (fold_left (F s') (g_L g') (g', 0)).
  assert (H1 : graph_rel c (fst (fold_left (F s) (g_L g) (g, 0))) (fst (fold_left (F s') (g_L g') (g', 0)))
               /\ snd (fold_left (F s') (g_L g') (g', 0)) == c * snd (fold_left (F s) (g_L g) (g, 0))).
  { apply (fold_left_rel2 (fun (a a' : graph * Q) => graph_rel c (fst a) (fst a') /\ snd a' == c * snd a)
                          (layer_rel c)).
    - apply H.
    - intros [a lb] [a' lb'] l l' [Ha Hlb] [Hn _ _]. cbn in Ha, Hlb. unfold F. rewrite Hn.
      assert (H0 : 0 == c * 0) by ring.
      destruct (pack_back_rel (rev (l_nodes l)) Hs Ha H0) as [Hg Hx].
      destruct (pack_back a s (rev (l_nodes l)) 0) as [b x].
      destruct (pack_back a' s' (rev (l_nodes l)) 0) as [b' x']. cbn in *.
      split; auto. apply Qmin'_rel; auto.
    - cbn; split; auto. ring. }
  destruct (fold_left (F s) (g_L g) (g, 0)) as [g1 lb].
  destruct (fold_left (F s') (g_L g') (g', 0)) as [g1' lb']. cbn in H1. destruct H1 as [Hg1 Hlb].
  set (G := fun (lb : Q) g (l : layer) =>
              fold_left (fun g n => upd_node g n (fun nd => set_x (n_x nd - lb) nd)) (l_nodes l) g).
  change (fold_left _ (g_L g1) g1) with (fold_left (G lb) (g_L g1) g1).
  change (fold_left _ (g_L g1') g1') with (fold_left (G lb') (g_L g1') g1').
  assert (H2 : graph_rel c (fold_left (G lb) (g_L g1) g1) (fold_left (G lb') (g_L g1') g1')).
  { apply (fold_left_rel2 (graph_rel c) (layer_rel c)); auto; [apply Hg1|].
    intros a a' l l' Ha [Hn _ _]. unfold G. rewrite Hn.
    apply fold_left_rel; auto. intros b b' n Hb. apply upd_node_rel; auto.
    intros nd nd' Hnd. apply set_x_rel; auto. destruct Hnd. lra. }
  set (g2 := fold_left (G lb) (g_L g1) g1) in *. set (g2' := fold_left (G lb') (g_L g1') g1') in *.
  apply with_L_rel; auto.
  apply Forall2_map2 with (R := layer_rel c); [apply H2|].
  intros l l' [Hn Hw Hh]. constructor; cbn [set_layer_h l_nodes l_w l_h]; auto.
  rewrite Hn. apply layer_height_rel; auto.
Qed.

(* ================================================================================================ *)
(** * Phase 5: route points *)

Ltac qfin := unfold start_point, end_point, nX, nY, nW, nH in *; cbn [fst snd] in *; unfold Qdiv in *; first [lra | nra].

Lemma start_point_rel c g g' n : graph_rel c g g' -> pt_rel c (start_point g n) (start_point g' n).
Proof.
  intros H. pose proof (nX_rel n H). pose proof (nY_rel n H). pose proof (nW_rel n H). pose proof (nH_rel n H).
  split; qfin.
Qed.
Arguments start_point_rel {c g g'} n _.

Lemma end_point_rel c g g' n : graph_rel c g g' -> pt_rel c (end_point g n) (end_point g' n).
Proof.
  intros H. pose proof (nX_rel n H). pose proof (nY_rel n H). pose proof (nW_rel n H).
  split; qfin.
Qed.
Arguments end_point_rel {c g g'} n _.

Lemma straight_rel c g g' a b : graph_rel c g g' -> pts_rel c (straight g a b) (straight g' a b).
Proof. intros H. repeat constructor; try apply (start_point_rel a); try apply (end_point_rel b); auto. Qed.

Lemma flat_straight_rel c g g' a b : graph_rel c g g' -> pts_rel c (flat_straight g a b) (flat_straight g' a b).
Proof.
  intros H.
  pose proof (nX_rel a H). pose proof (nY_rel a H). pose proof (nW_rel a H). pose proof (nH_rel a H).
  pose proof (nX_rel b H). pose proof (nY_rel b H). pose proof (nH_rel b H).
  repeat constructor; qfin.
Qed.

Lemma layer_h_of_rel c g g' n : graph_rel c g g' -> layer_h_of g' n == c * layer_h_of g n.
Proof.
  intros H. unfold layer_h_of. rewrite (layer_of_rel n H). apply (glayer_rel _ H).
Qed.
Arguments layer_h_of_rel {c g g'} n _.

(** route_straight: no hypothesis needed (flat_straight is itself equivariant) *)
Theorem route_straight_rel c g g' e ns :
  graph_rel c g g' -> pts_rel c (route_straight g e ns) (route_straight g' e ns).
Proof.
  intros H. unfold route_straight. destruct (first_last ns) as [a b].
  rewrite (is_flat_rel e H). destruct (is_flat g e).
  - apply flat_straight_rel; auto.
  - apply straight_rel; auto.
Qed.

Lemma forallb_virt_rel c g g' l :
  graph_rel c g g' -> forallb (fun n => n_virt (gnode g' n)) l = forallb (fun n => n_virt (gnode g n)) l.
Proof.
  intros H. induction l as [|n l IH]; cbn; auto. rewrite IH. f_equal. apply (gnode_rel n H).
Qed.
Arguments forallb_virt_rel {c g g'} l _.

Theorem route_polyline_rel c g g' e ns :
  graph_rel c g g' -> is_flat g e = false ->
  res_rel (pts_rel c) (route_polyline g e ns) (route_polyline g' e ns).
Proof.
  intros H Hflat. unfold route_polyline. destruct (first_last ns) as [a b].
  rewrite (is_flat_rel e H), Hflat.
  destruct (Nat.eqb (length ns) 2).
  - cbn. apply straight_rel; auto.
  - rewrite (forallb_virt_rel _ H). destruct (forallb _ (inner ns)); cbn; auto.
    apply Forall2_app; [apply (gedge_rel e H)|].
    constructor; [apply start_point_rel; auto|].
    apply Forall2_app; [|repeat constructor; apply end_point_rel; auto].
    apply Forall2_map2 with (R := eq); [apply Forall2_refl_In; auto|].
    intros n ? <-.
    pose proof (nX_rel n H). pose proof (nY_rel n H). pose proof (nW_rel n H). pose proof (layer_h_of_rel n H).
    split; qfin.
Qed.

Theorem ortho_legs_rel c g g' half half' ns :
  graph_rel c g g' -> half' == c * half -> pts_rel c (ortho_legs g half ns) (ortho_legs g' half' ns).
Proof.
  intros H Hh. induction ns as [|a t IH]; [constructor|].
  destruct t as [|b t]; [constructor|].
  cbn [ortho_legs]. apply Forall2_app; [|exact IH].
  destruct (start_point_rel a H) as [Hs1 Hs2]. destruct (end_point_rel b H) as [He1 He2].
  pose proof (nY_rel a H). pose proof (layer_h_of_rel a H).
  repeat constructor; auto; qfin.
Qed.

(** the branch test of route_ortho is invariant under scaling by c > 0 *)
Lemma ortho_test_rel c g g' f t :
  0 < c -> graph_rel c g g' ->
  Qeq_bool (nX g' f + nW g' f / 2) (nX g' t + nW g' t / 2) = Qeq_bool (nX g f + nW g f / 2) (nX g t + nW g t / 2).
Proof.
  intros Hc H. apply Qeq_bool_rel with (c := c); auto.
  - pose proof (nX_rel f H). pose proof (nW_rel f H). qfin.
  - pose proof (nX_rel t H). pose proof (nW_rel t H). qfin.
Qed.
Arguments ortho_test_rel {c g g'} f t _ _.

Theorem route_ortho_rel c g g' ls ls' e ns :
  0 < c -> graph_rel c g g' -> ls' == c * ls -> is_flat g e = false ->
  pts_rel c (route_ortho g ls e ns) (route_ortho g' ls' e ns).
Proof.
  intros Hc H Hls Hflat. unfold route_ortho. destruct (first_last ns) as [a b].
  rewrite (is_flat_rel e H), Hflat.
  destruct (gedge_rel e H) as [Hf Ht _ _ _ _ _ _ Hp]. rewrite Hf, Ht.
  rewrite (ortho_test_rel _ _ Hc H).
  destruct (Qeq_bool _ _).
  - apply straight_rel; auto.
  - apply Forall2_app; auto. apply ortho_legs_rel; auto. qfin.
Qed.

(* ================================================================================================ *)
(** * Phase 5: merge_long_edges does not read coordinates *)

Record mst_rel (c : Q) (s s' : mst) : Prop := mkMstRel {
  mr_g : graph_rel c (m_g s) (m_g s');
  mr_arr : m_arr s' = m_arr s;
  mr_len : m_len s' = m_len s }.

Arguments mr_g {c s s'} _.
Arguments mr_arr {c s s'} _.
Arguments mr_len {c s s'} _.
Arguments mkMstRel {c s s'} _ _ _.

Lemma ordered_nodes_rel c g g' e : graph_rel c g g' -> ordered_nodes g' e = ordered_nodes g e.
Proof.
  intros H. unfold ordered_nodes. destruct (gedge_rel e H) as [Hf Ht _ _ _ _ _ _ _]. rewrite Hf, Ht.
  rewrite !(layer_of_rel _ H).
  rewrite (nr_pos (gnode_rel (e_from (gedge g e)) H)), (nr_pos (gnode_rel (e_to (gedge g e)) H)).
  reflexivity.
Qed.
Arguments ordered_nodes_rel {c g g'} e _.

Lemma edge_type_rel c g g' e : graph_rel c g g' -> edge_type g' e = edge_type g e.
Proof.
  intros H. unfold edge_type. destruct (gedge_rel e H) as [Hf Ht _ _ _ _ _ _ _]. rewrite Hf, Ht.
  rewrite (nr_virt (gnode_rel (e_from (gedge g e)) H)), (nr_virt (gnode_rel (e_to (gedge g e)) H)).
  reflexivity.
Qed.
Arguments edge_type_rel {c g g'} e _.

Lemma set_ahs_rev_rel c g g' e :
  graph_rel c g g' ->
  graph_rel c (upd_edge g e (fun ed => set_ahs (e_rev ed) ed)) (upd_edge g' e (fun ed => set_ahs (e_rev ed) ed)).
Proof.
  intros H. apply upd_edge_rel; auto. intros ed ed' Hed. rewrite (er_rev Hed). apply set_ahs_rel; auto.
Qed.

Definition mres_rel c (r r' : mst * list nat) : Prop := mst_rel c (fst r) (fst r') /\ snd r' = snd r.

Lemma reduce_forward_rel c fuel : forall s s' e ns,
  mst_rel c s s' -> res_rel (mres_rel c) (reduce_forward fuel s e ns) (reduce_forward fuel s' e ns).
Proof.
  induction fuel as [|fu IH]; intros [g arr len] [g' arr' len'] e ns [H Harr Hlen]; cbn in H, Harr, Hlen; subst arr' len'.
  - cbn. reflexivity.
  - cbn [reduce_forward m_g m_arr m_len].
    rewrite (er_to (gedge_rel e H)).
    set (to := e_to (gedge g e)).
    rewrite (nr_virt (gnode_rel to H)), (nr_out (gnode_rel to H)).
    destruct (n_virt (gnode g to)).
    + destruct (n_out (gnode g to)) as [|f [|? ?]]; cbn; auto.
      rewrite (er_to (gedge_rel f H)).
      destruct (arr_remove arr len f) as [arr1 len1].
      apply IH. constructor; cbn; auto.
      apply with_E_rel. apply upd_edge_rel.
      * apply upd_node_rel; auto. intros n n' Hn. rewrite (nr_in Hn). apply set_in_rel; auto.
      * intros ed ed' Hed. rewrite (er_from Hed). apply set_ends_rel; auto.
    + rewrite (ordered_nodes_rel e H). destruct (ordered_nodes g e) as [u v].
      cbn. split; cbn; auto. constructor; cbn; auto. apply set_ahs_rev_rel; auto.
Qed.

Definition mlres_rel c (r r' : mst * list (nat * list nat)) : Prop := mst_rel c (fst r) (fst r') /\ snd r' = snd r.

Lemma merge_loop_rel c fuel : forall i s s' routes,
  mst_rel c s s' -> res_rel (mlres_rel c) (merge_loop fuel i s routes) (merge_loop fuel i s' routes).
Proof.
  induction fuel as [|fu IH]; intros i [g arr len] [g' arr' len'] routes Hs.
  - cbn. split; auto.
  - pose proof Hs as [H Harr Hlen]. cbn in H, Harr, Hlen. subst arr' len'.
    cbn [merge_loop m_g m_arr m_len].
    destruct (nth_error arr i) as [e|]; [|cbn; split; auto].
    rewrite (edge_type_rel e H).
    destruct (edge_type g e).
    + rewrite (ordered_nodes_rel e H). destruct (ordered_nodes g e) as [u v].
      apply IH. constructor; cbn; auto. apply set_ahs_rev_rel; auto.
    + rewrite (er_from (gedge_rel e H)).
      rewrite (nr_virt (gnode_rel (e_from (gedge g e)) H)).
      destruct (n_virt _).
      * apply IH. auto.
      * rewrite (Forall2_len _ _ _ (gr_na H)).
        pose proof (@reduce_forward_rel c (S (length (g_na g))) _ _ e [e_from (gedge g e)] Hs) as Hr.
        destruct (reduce_forward _ (mkMst g arr len) e _) as [r|er],
                 (reduce_forward _ (mkMst g' arr len) e _) as [r'|er']; cbn in Hr; try contradiction.
        -- cbn [bind]. destruct Hr as [Hr1 Hr2]. rewrite Hr2. apply IH; auto.
        -- cbn. auto.
    + apply IH. auto.
Qed.
Arguments merge_loop_rel {c} fuel i {s s'} routes _.

Definition mle_rel c (r r' : graph * list (nat * list nat)) : Prop := graph_rel c (fst r) (fst r') /\ snd r' = snd r.

(** merge_long_edges on the scaled graph = scaled result, same routes *)
Theorem merge_long_edges_rel c g g' :
  graph_rel c g g' -> res_rel (mle_rel c) (merge_long_edges g) (merge_long_edges g').
Proof.
  intros H. unfold merge_long_edges. rewrite (gr_E H).
  assert (Hs : mst_rel c (mkMst g (g_E g) (length (g_E g))) (mkMst g' (g_E g) (length (g_E g)))).
  { constructor; auto. }
  pose proof (merge_loop_rel (length (g_E g)) 0 [] Hs) as Hr.
  destruct (merge_loop _ _ (mkMst g _ _) _) as [r|er], (merge_loop _ _ (mkMst g' _ _) _) as [r'|er']; cbn in Hr |- *; auto.
  destruct Hr as [Hr1 Hr2]. split; cbn; auto. apply Hr1.
Qed.
Arguments merge_long_edges_rel {c g g'} _.

(* ================================================================================================ *)
(** * Phase 5 as a whole *)

Lemma nth_upd_proj {A B} (P : A -> B) (f : A -> A) l i j d :
  (forall a, P (f a) = P a) -> P (nth j (upd l i f) d) = P (nth j l d).
Proof.
  intros Hf. revert i j; induction l as [|x l IH]; intros [|i] [|j]; cbn; auto.
Qed.

(** routing an edge does not change which edges are flat *)
Lemma is_flat_upd_pts g i p e : is_flat (upd_edge g i (set_pts p)) e = is_flat g e.
Proof.
  unfold is_flat, layer_of, gnode, gedge, upd_edge, with_ea; cbn [g_na g_ea].
  rewrite (nth_upd_proj e_from), (nth_upd_proj e_to); auto.
Qed.

(** Hypothesis for Polyline / Ortho: none of the routed edges is flat (true in a proper layering). *)
Definition routes_not_flat (g : graph) : Prop :=
  forall g1 routes, merge_long_edges g = Ok (g1, routes) ->
  forall r, In r routes -> is_flat g1 (fst r) = false.

Definition needs_no_flat (alg : p5alg) : bool :=
  match alg with Polyline | Ortho => true | _ => false end.

Theorem phase5_rel c alg ls ls' g g' :
  0 < c -> graph_rel c g g' -> ls' == c * ls ->
  (needs_no_flat alg = true -> routes_not_flat g) ->
  res_rel (graph_rel c) (phase5 alg ls g) (phase5 alg ls' g').
Proof.
  intros Hc H Hls Hnf. unfold phase5. rewrite (gr_N H).
  destruct (Nat.eqb (length (g_N g)) 1); [exact H|].
  pose proof (merge_long_edges_rel H) as Hm.
  unfold routes_not_flat in Hnf.
  destruct (merge_long_edges g) as [[g1 routes]|er], (merge_long_edges g') as [[g1' routes']|er'];
    cbn in Hm; try contradiction; [|cbn; auto].
  destruct Hm as [Hg1 Hr]; cbn in Hg1, Hr; subst routes'. cbn [bind].
  set (I := fun (a a' : graph) => graph_rel c a a' /\ forall e, is_flat a e = is_flat g1 e).
  destruct alg; cbn [res_rel]; auto.
  - (* Straight *)
    apply fold_left_rel; auto. intros a a' r Ha. apply upd_edge_rel; auto.
    intros; apply set_pts_rel; auto. apply route_straight_rel; auto.
  - (* Polyline *)
    specialize (Hnf eq_refl g1 routes eq_refl).
    enough (HI : res_rel I
      (fold_left (fun (rg : res graph) r => do g <- rg; do p <- route_polyline g (fst r) (snd r);
                                             Ok (upd_edge g (fst r) (set_pts p))) routes (Ok g1))
      (fold_left (fun (rg : res graph) r => do g <- rg; do p <- route_polyline g (fst r) (snd r);
                                             Ok (upd_edge g (fst r) (set_pts p))) routes (Ok g1'))).
    { destruct (fold_left _ routes (Ok g1)), (fold_left _ routes (Ok g1')); cbn in HI |- *; auto. apply HI. }
    apply fold_left_rel_In; [|cbn; split; auto].
    intros [a|ea] [a'|ea'] r Hin Ha; cbn in Ha; try contradiction; cbn [bind]; [|exact Ha].
    destruct Ha as [Ha Hfl].
    assert (Hflat : is_flat a (fst r) = false) by (rewrite Hfl; auto).
    pose proof (route_polyline_rel c a a' (fst r) (snd r) Ha Hflat) as Hp.
    destruct (route_polyline a (fst r) (snd r)) as [p|ep], (route_polyline a' (fst r) (snd r)) as [p'|ep'];
      cbn in Hp; try contradiction; cbn; auto.
    split.
    + apply upd_edge_rel; auto. intros; apply set_pts_rel; auto.
    + intros e. rewrite is_flat_upd_pts. auto.
  - (* Ortho *)
    specialize (Hnf eq_refl g1 routes eq_refl).
    enough (HI : I
      (fold_left (fun g r => upd_edge g (fst r) (set_pts (route_ortho g ls (fst r) (snd r)))) routes g1)
      (fold_left (fun g r => upd_edge g (fst r) (set_pts (route_ortho g ls' (fst r) (snd r)))) routes g1'))
      by apply HI.
    apply fold_left_rel_In; [|split; auto].
    intros a a' r Hin [Ha Hfl].
    assert (Hflat : is_flat a (fst r) = false) by (rewrite Hfl; auto).
    split.
    + apply upd_edge_rel; auto. intros; apply set_pts_rel; auto. apply route_ortho_rel; auto.
    + intros e. rewrite is_flat_upd_pts. auto.
Qed.

(* ================================================================================================ *)
(** * Phase 4: SinkColoring *)

Lemma fold_left_ext {A X} (f f' : A -> X -> A) l : (forall a x, f a x = f' a x) -> forall a, fold_left f l a = fold_left f' l a.
Proof. intros Hf. induction l as [|x l IH]; cbn; intros a; auto. rewrite Hf. apply IH. Qed.

Lemma existsb_ext' {X} (f f' : X -> bool) l : (forall x, f x = f' x) -> existsb f l = existsb f' l.
Proof. intros Hf. induction l as [|x l IH]; cbn; auto. rewrite Hf, IH. reflexivity. Qed.

Set Implicit Arguments.

Definition qlist_rel (c : Q) (l l' : list Q) : Prop := Forall2 (fun a a' => a' == c * a) l l'.

Lemma qget_rel c l l' n : qlist_rel c l l' -> qget l' n == c * qget l n.
Proof. intros H. unfold qget. apply (Forall2_nth_rel (fun a a' => a' == c * a)); auto. ring. Qed.

Lemma set_nth_rel c l l' n q q' : qlist_rel c l l' -> q' == c * q -> qlist_rel c (set_nth l n q) (set_nth l' n q').
Proof. intros H Hq. unfold set_nth. apply Forall2_upd; auto. Qed.

Lemma bw_of_rel c bw bw' rt n : qlist_rel c bw bw' -> bw_of bw' rt n == c * bw_of bw rt n.
Proof. intros H. unfold bw_of. apply qget_rel; auto. Qed.

Lemma zeros_rel c n : qlist_rel c (repeat (0 : Q) n) (repeat (0 : Q) n).
Proof. induction n; cbn; constructor; auto. ring. Qed.

Lemma map_l_nodes_rel c l l' : Forall2 (layer_rel c) l l' -> map l_nodes l' = map l_nodes l.
Proof. intros H. induction H as [|x x' l l' Hx _ IH]; cbn; auto. rewrite (lr_nodes Hx), IH. reflexivity. Qed.

Lemma flat_nodes_rel c l l' : Forall2 (layer_rel c) l l' -> flat_map l_nodes l' = flat_map l_nodes l.
Proof. intros H. rewrite !flat_map_concat_map, (map_l_nodes_rel H). reflexivity. Qed.

Lemma flat_nodes_rev_rel c l l' : Forall2 (layer_rel c) l l' -> flat_map l_nodes (rev l') = flat_map l_nodes (rev l).
Proof. intros H. rewrite !flat_map_concat_map, !map_rev, (map_l_nodes_rel H). reflexivity. Qed.

(** ** the discrete helpers read no coordinates *)
Lemma self_loop_rel c g g' e : graph_rel c g g' -> self_loop g' e = self_loop g e.
Proof. intros H. unfold self_loop. rewrite (er_from (gedge_rel e H)), (er_to (gedge_rel e H)). reflexivity. Qed.

Lemma viable_rel c g g' e : graph_rel c g g' -> viable g' e = viable g e.
Proof. intros H. unfold viable. rewrite (self_loop_rel e H), (is_flat_rel e H). reflexivity. Qed.

Lemma first_viable_rel c g g' es : graph_rel c g g' -> first_viable g' es = first_viable g es.
Proof. intros H. induction es as [|e t IH]; cbn; auto. rewrite (viable_rel e H), IH. reflexivity. Qed.

Lemma connected_node_rel c g g' e n : graph_rel c g g' -> connected_node g' e n = connected_node g e n.
Proof. intros H. unfold connected_node. rewrite (er_from (gedge_rel e H)), (er_to (gedge_rel e H)). reflexivity. Qed.

Lemma candidate_edge_rel c g g' n : graph_rel c g g' -> candidate_edge g' n = candidate_edge g n.
Proof.
  intros H. unfold candidate_edge. rewrite (nr_in (gnode_rel n H)).
  rewrite (fold_left_ext (fun c0 f => if n_virt (gnode g' (connected_node g' f n)) then Some f else c0)
                         (fun c0 f => if n_virt (gnode g (connected_node g f n)) then Some f else c0)).
  - destruct (fold_left _ _ None) as [e|].
    + rewrite (viable_rel e H), (first_viable_rel _ H). reflexivity.
    + apply (first_viable_rel _ H).
  - intros a x. rewrite (connected_node_rel x n H). rewrite (nr_virt (gnode_rel _ H)). reflexivity.
Qed.

Lemma n_pos_rel c g g' n : graph_rel c g g' -> n_pos (gnode g' n) = n_pos (gnode g n).
Proof. intros H. apply (nr_pos (gnode_rel n H)). Qed.

Lemma sc_crosses_rel c g g' e f : graph_rel c g g' -> sc_crosses g' e f = sc_crosses g e f.
Proof.
  intros H. unfold sc_crosses.
  rewrite (er_from (gedge_rel e H)), (er_to (gedge_rel e H)), (er_from (gedge_rel f H)), (er_to (gedge_rel f H)).
  rewrite !(layer_of_rel _ H), !(n_pos_rel _ H). reflexivity.
Qed.

Definition scres_rel (c : Q) (r r' : nat * Q * scst) : Prop :=
  fst (fst r') = fst (fst r) /\ snd (fst r') == c * snd (fst r) /\ snd r' = snd r.

Lemma set_color_rel c g g' fuel : 0 <= c -> graph_rel c g g' ->
  forall n s, res_rel (scres_rel c) (set_color fuel g n s) (set_color fuel g' n s).
Proof.
  intros Hc H. induction fuel as [|fu IH]; intros n s; cbn [set_color].
  - cbn. reflexivity.
  - assert (Hbase : res_rel (scres_rel c) (Ok (n, nW g n, s)) (Ok (n, nW g' n, s))).
    { cbn. repeat split; cbn; auto. apply nW_rel; auto. }
    rewrite (nr_in (gnode_rel n H)).
    destruct (negb (Nat.eqb (nget (colors s) n) n) || Nat.eqb (length (n_in (gnode g n))) 0); auto.
    rewrite (candidate_edge_rel n H). destruct (candidate_edge g n) as [e|]; auto.
    rewrite (connected_node_rel e n H). set (m := connected_node g e n).
    destruct (negb (Nat.eqb (nget (colors s) m) m)); auto.
    rewrite (layer_of_rel n H).
    rewrite (existsb_ext' (sc_crosses g' e) (sc_crosses g e)) by (intros; apply (sc_crosses_rel _ _ H)).
    destruct (existsb _ _); auto.
    set (s1 := mkSc _ _ _).
    specialize (IH m s1).
    destruct (set_color fu g m s1) as [[[root rootw] s2]|er], (set_color fu g' m s1) as [[[root' rootw'] s2']|er'];
      cbn in IH; try contradiction; cbn [bind]; auto.
    destruct IH as (Hr & Hw & Hs2). cbn in Hr, Hw, Hs2. subst root' s2'.
    cbn. repeat split; cbn; auto. apply Qmax'_rel; auto. apply nW_rel; auto.
Qed.

(** ** placeBlock *)
Definition st_rel (c : Q) (st st' : list Q * list Q * bool) : Prop :=
  qlist_rel c (fst (fst st)) (fst (fst st')) /\ qlist_rel c (snd (fst st)) (snd (fst st')) /\ snd st' = snd st.

Lemma pb_fix_rel c bw bw' rt s s' a b st st' :
  0 < c -> s' == c * s -> qlist_rel c bw bw' -> st_rel c st st' ->
  st_rel c (pb_fix bw rt s a b st) (pb_fix bw' rt s' a b st').
Proof.
  intros Hc Hs Hbw. destruct st as [[xc bm] sh], st' as [[xc' bm'] sh']. intros (Hxc & Hbm & Hsh).
  cbn in Hxc, Hbm, Hsh. subst sh'. unfold pb_fix.
  assert (Hlim : qget xc' a + bw_of bw' rt a + s' == c * (qget xc a + bw_of bw rt a + s)).
  { pose proof (qget_rel a Hxc). pose proof (bw_of_rel rt a Hbw). lra. }
  rewrite (Qlt_bool_rel c (qget xc b) (qget xc' b) (qget xc a + bw_of bw rt a + s) (qget xc' a + bw_of bw' rt a + s'));
    auto; [|apply qget_rel; auto].
  destruct (Qlt_bool _ _).
  - repeat split; cbn; auto.
    + apply set_nth_rel; auto.
    + apply Forall2_upd; auto. intros m m' Hm. apply Qmax'_rel; auto. lra.
  - repeat split; cbn; auto.
Qed.

Lemma pb_sweep_rel c g g' bw bw' rt s s' lmax st st' :
  0 < c -> graph_rel c g g' -> s' == c * s -> qlist_rel c bw bw' -> st_rel c st st' ->
  st_rel c (pb_sweep g bw rt s lmax st) (pb_sweep g' bw' rt s' lmax st').
Proof.
  intros Hc H Hs Hbw Hst. unfold pb_sweep.
  apply fold_left_rel; auto. intros st1 st1' k Hst1.
  apply (fold_left_rel2 (st_rel c) (layer_rel c)); auto; [apply H|].
  intros st2 st2' l l' Hst2 Hl. rewrite (lr_nodes Hl).
  destruct (Nat.leb _ k); auto.
  destruct (Nat.eqb k _ && Nat.ltb 0 k); [apply pb_fix_rel; auto|].
  destruct (Nat.ltb k _); [apply pb_fix_rel; auto|auto].
Qed.

Lemma place_block_rel c g g' bw bw' rt s s' lmax fuel :
  0 < c -> graph_rel c g g' -> s' == c * s -> qlist_rel c bw bw' ->
  forall xc xc' bm bm', qlist_rel c xc xc' -> qlist_rel c bm bm' ->
  res_rel (qlist_rel c) (place_block fuel g bw rt s lmax xc bm) (place_block fuel g' bw' rt s' lmax xc' bm').
Proof.
  intros Hc H Hs Hbw. induction fuel as [|fu IH]; intros xc xc' bm bm' Hxc Hbm; cbn [place_block].
  - cbn. reflexivity.
  - rewrite (gr_N H).
    set (F := fun g bw (bm : list Q) (xc : list Q) n =>
                let x := qget bm (nget rt n) in set_nth xc n (Qmax' x (x + (bw_of bw rt n - nW g n) / 2))).
    change (fold_left _ (g_N g) xc) with (fold_left (F g bw bm) (g_N g) xc).
    change (fold_left _ (g_N g) xc') with (fold_left (F g' bw' bm') (g_N g) xc').
    assert (Hxc1 : qlist_rel c (fold_left (F g bw bm) (g_N g) xc) (fold_left (F g' bw' bm') (g_N g) xc')).
    { apply fold_left_rel; auto. intros a a' n Ha. unfold F. cbv zeta.
      pose proof (qget_rel (nget rt n) Hbm) as Hx.
      apply set_nth_rel; auto. apply Qmax'_rel; auto; [lra|].
      pose proof (bw_of_rel rt n Hbw). pose proof (nW_rel n H). qfin. }
    pose proof (@pb_sweep_rel c g g' bw bw' rt s s' lmax (_, bm, false) (_, bm', false) Hc H Hs Hbw
                  (conj Hxc1 (conj Hbm eq_refl))) as Hsw.
    destruct (pb_sweep g bw rt s lmax _) as [[xc2 bm2] sh2], (pb_sweep g' bw' rt s' lmax _) as [[xc2' bm2'] sh2'].
    destruct Hsw as (Hxc2 & Hbm2 & Hsh); cbn in Hxc2, Hbm2, Hsh. subst sh2'.
    destruct sh2; [apply IH; auto|exact Hxc2].
Qed.

(** ** exec_sink_coloring, decomposed into named stages *)
Definition sc_paint (g : graph) : res (scst * list Q) :=
  let na := length (g_na g) in
  fold_left (fun (acc : res (scst * list Q)) n =>
               do a <- acc;
               let '(s, bw) := a in
               do r <- set_color (S na) g n s;
               let '(_, w, s) := r in
               Ok (s, upd bw (nget (roots s) n) (fun b => Qmax' b w)))
            (flat_map l_nodes (rev (g_L g))) (Ok (mkSc (iota 0 na) (iota 0 na) [], repeat (0 : Q) na)).

Definition sc_pack (spacing : Q) (g : graph) (bw : list Q) (rt : list nat) : list Q :=
  fold_left (fun xc l =>
                fst (fold_left (fun (acc : list Q * Q) n => let '(xc, x) := acc in
                                  (set_nth xc n x, x + bw_of bw rt n + spacing)) (l_nodes l) (xc, 0)))
              (g_L g) (repeat (0 : Q) (length (g_na g))).

Definition sc_bm (g : graph) (rt : list nat) (xc : list Q) : list Q :=
  fold_left (fun bm n => upd bm (nget rt n) (fun m => Qmax' m (qget xc n))) (flat_map l_nodes (g_L g))
            (repeat (0 : Q) (length (g_na g))).

Definition sc_lmax (g : graph) : nat := fold_left (fun m l => Nat.max m (length (l_nodes l))) (g_L g) 0%nat.

Definition sc_finish (g : graph) (xc : list Q) : graph :=
  let g := fold_left (fun g l => fold_left (fun g n => upd_node g n (set_x (qget xc n))) (l_nodes l) g) (g_L g) g in
  with_L g (map (fun l => set_layer_h (layer_height g (l_nodes l) (l_h l)) l) (g_L g)).

Lemma exec_sink_coloring_eq spacing g :
  exec_sink_coloring spacing g =
  (do r <- sc_paint g;
   let '(s, bw) := r in
   let rt := roots s in
   let xc := sc_pack spacing g bw rt in
   let bm := sc_bm g rt xc in
   do xc <- place_block (S (length (g_N g) * length (g_N g)) + 8) g bw rt spacing (sc_lmax g) xc bm;
   Ok (sc_finish g xc)).
Proof. reflexivity. Qed.

Lemma sc_paint_rel c g g' : 0 <= c -> graph_rel c g g' ->
  res_rel (fun a a' => fst a' = fst a /\ qlist_rel c (snd a) (snd a')) (sc_paint g) (sc_paint g').
Proof.
  intros Hc H. unfold sc_paint. rewrite (Forall2_len _ _ _ (gr_na H)), (flat_nodes_rev_rel (gr_L H)).
  apply fold_left_rel.
  - intros [[s bw]|ea] [[s' bw']|ea'] n Ha; cbn in Ha; try contradiction; cbn [bind]; auto.
    destruct Ha as [Hs Hbw]; cbn in Hs, Hbw; subst s'.
    pose proof (set_color_rel (S (length (g_na g))) Hc H n s) as Hr.
    destruct (set_color _ g n s) as [[[r0 w] s1]|er], (set_color _ g' n s) as [[[r0' w'] s1']|er'];
      cbn in Hr; try contradiction; cbn [bind]; auto.
    destruct Hr as (_ & Hw & Hs1); cbn in Hw, Hs1; subst s1'.
    cbn. split; cbn; auto. apply Forall2_upd; auto. intros b b' Hb. apply Qmax'_rel; auto.
  - cbn. split; cbn; auto. apply zeros_rel.
Qed.

Lemma sc_pack_rel c s s' g g' bw bw' rt :
  graph_rel c g g' -> s' == c * s -> qlist_rel c bw bw' ->
  qlist_rel c (sc_pack s g bw rt) (sc_pack s' g' bw' rt).
Proof.
  intros H Hs Hbw. unfold sc_pack. rewrite (Forall2_len _ _ _ (gr_na H)).
  apply (fold_left_rel2 (qlist_rel c) (layer_rel c)); [apply H| |apply zeros_rel].
  intros xc xc' l l' Hxc Hl. rewrite (lr_nodes Hl).
  apply (fold_left_rel (fun (a a' : list Q * Q) => qlist_rel c (fst a) (fst a') /\ snd a' == c * snd a)).
  - intros [a x] [a' x'] n [Ha Hx]; cbn in Ha, Hx. split; cbn.
    + apply set_nth_rel; auto.
    + pose proof (bw_of_rel rt n Hbw). lra.
  - split; cbn; auto. ring.
Qed.

Lemma sc_bm_rel c g g' rt xc xc' :
  0 <= c -> graph_rel c g g' -> qlist_rel c xc xc' -> qlist_rel c (sc_bm g rt xc) (sc_bm g' rt xc').
Proof.
  intros Hc H Hxc. unfold sc_bm. rewrite (Forall2_len _ _ _ (gr_na H)), (flat_nodes_rel (gr_L H)).
  apply fold_left_rel; [|apply zeros_rel].
  intros bm bm' n Hbm. apply Forall2_upd; auto. intros m m' Hm. apply Qmax'_rel; auto. apply qget_rel; auto.
Qed.

Lemma sc_lmax_rel c g g' : graph_rel c g g' -> sc_lmax g' = sc_lmax g.
Proof.
  intros H. unfold sc_lmax. apply (fold_left_rel2 (fun a a' => a' = a) (layer_rel c)); auto; [apply H|].
  intros a a' l l' -> Hl. rewrite (lr_nodes Hl). reflexivity.
Qed.

Lemma sc_finish_rel c g g' xc xc' :
  0 <= c -> graph_rel c g g' -> qlist_rel c xc xc' -> graph_rel c (sc_finish g xc) (sc_finish g' xc').
Proof.
  intros Hc H Hxc. unfold sc_finish.
  set (G := fun (xc : list Q) g (l : layer) => fold_left (fun g n => upd_node g n (set_x (qget xc n))) (l_nodes l) g).
  change (fold_left _ (g_L g) g) with (fold_left (G xc) (g_L g) g).
  change (fold_left _ (g_L g') g') with (fold_left (G xc') (g_L g') g').
  assert (H2 : graph_rel c (fold_left (G xc) (g_L g) g) (fold_left (G xc') (g_L g') g')).
  { apply (fold_left_rel2 (graph_rel c) (layer_rel c)); auto; [apply H|].
    intros a a' l l' Ha Hl. unfold G. rewrite (lr_nodes Hl).
    apply fold_left_rel; auto. intros b b' n Hb. apply upd_node_rel; auto.
    intros nd nd' Hnd. apply set_x_rel; auto. apply qget_rel; auto. }
  set (g2 := fold_left (G xc) (g_L g) g) in *. set (g2' := fold_left (G xc') (g_L g') g') in *.
  apply with_L_rel; auto.
  apply Forall2_map2 with (R := layer_rel c); [apply H2|].
  intros l l' [Hn Hw Hh]. constructor; cbn [set_layer_h l_nodes l_w l_h]; auto.
  rewrite Hn. apply layer_height_rel; auto.
Qed.

Theorem exec_sink_coloring_rel c s s' g g' :
  0 < c -> graph_rel c g g' -> s' == c * s ->
  res_rel (graph_rel c) (exec_sink_coloring s g) (exec_sink_coloring s' g').
Proof.
  intros Hc H Hs. assert (Hc0 : 0 <= c) by lra.
  rewrite !exec_sink_coloring_eq.
  pose proof (sc_paint_rel Hc0 H) as Hp.
  destruct (sc_paint g) as [[s0 bw]|er], (sc_paint g') as [[s0' bw']|er']; cbn in Hp; try contradiction; cbn [bind]; auto.
  destruct Hp as [Hs0 Hbw]; cbn in Hs0, Hbw; subst s0'. cbv zeta.
  rewrite (gr_N H), (sc_lmax_rel H).
  pose proof (sc_pack_rel (roots s0) H Hs Hbw) as Hxc.
  pose proof (sc_bm_rel (roots s0) Hc0 H Hxc) as Hbm.
  pose proof (place_block_rel (roots s0) (sc_lmax g) (S (length (g_N g) * length (g_N g)) + 8) Hc H Hs Hbw Hxc Hbm) as Hpb.
  destruct (place_block _ g _ _ _ _ _ _) as [xc1|er], (place_block _ g' _ _ _ _ _ _) as [xc1'|er'];
    cbn in Hpb; try contradiction; cbn [bind]; auto.
  cbn. apply sc_finish_rel; auto.
Qed.

(* ================================================================================================ *)
(** * Phase 4 as a whole *)

Definition scale_p4 (c : Q) (p : p4params) : p4params :=
  mkP4 (c * node_spacing p) (c * layer_spacing p) (p4_thoroughness p) (p4_factor p).

(** NsPositioner is excluded: aux_graph rounds with Qceiling, which is not scale-equivariant
    (see [ns_positioner_not_equivariant] below). *)
Theorem phase4_rel c alg p p' g g' :
  0 < c -> alg <> NsPositioner -> graph_rel c g g' ->
  node_spacing p' == c * node_spacing p -> layer_spacing p' == c * layer_spacing p ->
  res_rel (graph_rel c) (phase4 alg p g) (phase4 alg p' g').
Proof.
  intros Hc Halg H Hns Hls. assert (Hc0 : 0 <= c) by lra.
  unfold phase4. rewrite (gr_N H).
  destruct (Nat.eqb (length (g_N g)) 1).
  - destruct (g_N g) as [|n t]; cbn; auto.
    apply upd_layer_rel; auto. intros l l' Hl. constructor; cbn; [apply Hl| |].
    + apply (nW_rel n H).
    + apply (nH_rel n H).
  - destruct alg; cbn [bind res_rel]; try congruence.
    + apply assign_y_rel; auto. apply exec_valign_rel; auto.
    + apply assign_y_rel; auto. apply exec_pack_right_rel; auto.
    + pose proof (exec_sink_coloring_rel Hc H Hns) as Hsc.
      destruct (exec_sink_coloring (node_spacing p) g) as [g1|er],
               (exec_sink_coloring (node_spacing p') g') as [g1'|er']; cbn in Hsc; try contradiction; cbn; auto.
      apply assign_y_rel; auto.
    + apply assign_y_rel; auto.
Qed.

Print Assumptions phase4_rel.
Print Assumptions phase5_rel.
Print Assumptions exec_sink_coloring_rel.

(* ================================================================================================ *)
(** * Main theorems, in the form  F (c*s) (scale_graph c g)  ~  scale_graph c (F s g)  *)

(** 1. VAlign *)
Theorem exec_valign_scale c s g :
  0 <= c -> graph_equiv (exec_valign (c * s) (scale_graph c g)) (scale_graph c (exec_valign s g)).
Proof. intros Hc. apply graph_rel_iff, exec_valign_rel; auto using graph_rel_scale. reflexivity. Qed.
Print Assumptions exec_valign_scale.

(** 2. PackRight *)
Theorem exec_pack_right_scale c s g :
  0 <= c -> graph_equiv (exec_pack_right (c * s) (scale_graph c g)) (scale_graph c (exec_pack_right s g)).
Proof. intros Hc. apply graph_rel_iff, exec_pack_right_rel; auto using graph_rel_scale. reflexivity. Qed.
Print Assumptions exec_pack_right_scale.

(** 3. assign_y: any c, even negative *)
Theorem assign_y_scale c sp g :
  graph_equiv (assign_y (c * sp) (scale_graph c g)) (scale_graph c (assign_y sp g)).
Proof. apply graph_rel_iff, assign_y_rel; auto using graph_rel_scale. reflexivity. Qed.
Print Assumptions assign_y_scale.

(** 4. route point functions *)
Lemma pt_rel_iff c p p' : pt_rel c p p' <-> pt_equiv p' (scale_pt c p).
Proof. reflexivity. Qed.

Lemma pts_rel_iff' c p p' : pts_rel c p p' <-> pts_equiv p' (map (scale_pt c) p).
Proof. apply pts_rel_iff. Qed.

Lemma res_pts_rel_iff c (r r' : res (list pt)) :
  res_rel (pts_rel c) r r' <-> res_rel pts_equiv r' (map_res (map (scale_pt c)) r).
Proof.
  destruct r, r'; cbn; try tauto.
  - apply pts_rel_iff'.
  - split; congruence.
Qed.

Theorem start_point_scale c g n : pt_equiv (start_point (scale_graph c g) n) (scale_pt c (start_point g n)).
Proof. apply pt_rel_iff, start_point_rel, graph_rel_scale. Qed.

Theorem end_point_scale c g n : pt_equiv (end_point (scale_graph c g) n) (scale_pt c (end_point g n)).
Proof. apply pt_rel_iff, end_point_rel, graph_rel_scale. Qed.

Theorem straight_scale c g a b :
  pts_equiv (straight (scale_graph c g) a b) (map (scale_pt c) (straight g a b)).
Proof. apply pts_rel_iff', straight_rel, graph_rel_scale. Qed.

Theorem flat_straight_scale c g a b :
  pts_equiv (flat_straight (scale_graph c g) a b) (map (scale_pt c) (flat_straight g a b)).
Proof. apply pts_rel_iff', flat_straight_rel, graph_rel_scale. Qed.

(** route_straight needs no non-flatness hypothesis *)
Theorem route_straight_scale c g e ns :
  pts_equiv (route_straight (scale_graph c g) e ns) (map (scale_pt c) (route_straight g e ns)).
Proof. apply pts_rel_iff', route_straight_rel, graph_rel_scale. Qed.

Theorem route_polyline_scale c g e ns :
  is_flat g e = false ->
  res_rel pts_equiv (route_polyline (scale_graph c g) e ns) (map_res (map (scale_pt c)) (route_polyline g e ns)).
Proof. intros Hf. apply res_pts_rel_iff, route_polyline_rel; auto using graph_rel_scale. Qed.

Theorem ortho_legs_scale c g half ns :
  pts_equiv (ortho_legs (scale_graph c g) (c * half) ns) (map (scale_pt c) (ortho_legs g half ns)).
Proof. apply pts_rel_iff', ortho_legs_rel; auto using graph_rel_scale. reflexivity. Qed.

(** the branch test of route_ortho is invariant under scaling by c > 0 *)
Theorem ortho_test_scale c g f t :
  0 < c ->
  Qeq_bool (nX (scale_graph c g) f + nW (scale_graph c g) f / 2) (nX (scale_graph c g) t + nW (scale_graph c g) t / 2)
  = Qeq_bool (nX g f + nW g f / 2) (nX g t + nW g t / 2).
Proof. intros Hc. apply (ortho_test_rel f t Hc (graph_rel_scale c g)). Qed.

Theorem route_ortho_scale c g ls e ns :
  0 < c -> is_flat g e = false ->
  pts_equiv (route_ortho (scale_graph c g) (c * ls) e ns) (map (scale_pt c) (route_ortho g ls e ns)).
Proof. intros Hc Hf. apply pts_rel_iff', route_ortho_rel; auto using graph_rel_scale. reflexivity. Qed.

Print Assumptions start_point_scale.
Print Assumptions end_point_scale.
Print Assumptions straight_scale.
Print Assumptions flat_straight_scale.
Print Assumptions route_straight_scale.
Print Assumptions route_polyline_scale.
Print Assumptions ortho_legs_scale.
Print Assumptions ortho_test_scale.
Print Assumptions route_ortho_scale.

(** 5. merge_long_edges reads no coordinates; phase5 *)
Theorem merge_long_edges_scale c g :
  res_rel (fun r' r => graph_equiv (fst r') (fst r) /\ snd r' = snd r)
          (merge_long_edges (scale_graph c g))
          (map_res (fun r => (scale_graph c (fst r), snd r)) (merge_long_edges g)).
Proof.
  pose proof (merge_long_edges_rel (graph_rel_scale c g)) as H.
  destruct (merge_long_edges g) as [r|er], (merge_long_edges (scale_graph c g)) as [r'|er']; cbn in *; auto.
  destruct H as [H1 H2]. split; auto. apply graph_rel_iff; auto.
Qed.
Print Assumptions merge_long_edges_scale.

Theorem phase5_scale c alg ls g :
  0 < c -> (needs_no_flat alg = true -> routes_not_flat g) ->
  res_equiv (phase5 alg (c * ls) (scale_graph c g)) (map_res (scale_graph c) (phase5 alg ls g)).
Proof. intros Hc Hnf. apply res_rel_iff, phase5_rel; auto using graph_rel_scale. reflexivity. Qed.
Print Assumptions phase5_scale.

(** 6. SinkColoring *)
Theorem exec_sink_coloring_scale c s g :
  0 < c ->
  res_equiv (exec_sink_coloring (c * s) (scale_graph c g)) (map_res (scale_graph c) (exec_sink_coloring s g)).
Proof. intros Hc. apply res_rel_iff, exec_sink_coloring_rel; auto using graph_rel_scale. reflexivity. Qed.
Print Assumptions exec_sink_coloring_scale.

Theorem exec_sink_coloring_scale_ok c s g g1 :
  0 < c -> exec_sink_coloring s g = Ok g1 ->
  exists g2, exec_sink_coloring (c * s) (scale_graph c g) = Ok g2 /\ graph_equiv g2 (scale_graph c g1).
Proof.
  intros Hc Hok. pose proof (exec_sink_coloring_scale s g Hc) as H. rewrite Hok in H.
  destruct (exec_sink_coloring (c * s) (scale_graph c g)) as [g2|]; cbn in H; [|contradiction].
  exists g2; auto.
Qed.
Print Assumptions exec_sink_coloring_scale_ok.

(** Phase 4 *)
Theorem phase4_scale c alg p g :
  0 < c -> alg <> NsPositioner ->
  res_equiv (phase4 alg (scale_p4 c p) (scale_graph c g)) (map_res (scale_graph c) (phase4 alg p g)).
Proof.
  intros Hc Halg. apply res_rel_iff, phase4_rel; auto using graph_rel_scale; cbn; reflexivity.
Qed.
Print Assumptions phase4_scale.

(** phase4 followed by phase5 *)
Theorem phase45_scale c a4 a5 p g :
  0 < c -> a4 <> NsPositioner ->
  (forall g1, phase4 a4 p g = Ok g1 -> needs_no_flat a5 = true -> routes_not_flat g1) ->
  res_equiv (do g1 <- phase4 a4 (scale_p4 c p) (scale_graph c g); phase5 a5 (layer_spacing (scale_p4 c p)) g1)
            (map_res (scale_graph c) (do g1 <- phase4 a4 p g; phase5 a5 (layer_spacing p) g1)).
Proof.
  intros Hc Ha4 Hnf. apply res_rel_iff.
  pose proof (@phase4_rel c a4 p (scale_p4 c p) g (scale_graph c g) Hc Ha4 (graph_rel_scale c g)) as H4.
  cbn [scale_p4 node_spacing layer_spacing] in H4. specialize (H4 (Qeq_refl _) (Qeq_refl _)).
  destruct (phase4 a4 p g) as [g1|er], (phase4 a4 (scale_p4 c p) (scale_graph c g)) as [g1'|er'];
    cbn in H4; try contradiction; cbn [bind]; auto.
  apply phase5_rel; auto. cbn. reflexivity.
Qed.
Print Assumptions phase45_scale.

(* ================================================================================================ *)
(** * Examples: concrete instances, computed *)

Unset Implicit Arguments.

(** A 4-node, 3-layer proper layering with one long edge 0 -> (1, virtual) -> 2 and a short path 0 -> 3 -> 2. *)
Definition g0 : graph :=
  mkGraph
    [ mkNode [] [0%nat; 2%nat] 0 0 false 0 0 30 20;
      mkNode [0%nat] [1%nat] 1 0 true 0 0 0 0;
      mkNode [1%nat; 3%nat] [] 2 0 false 0 0 50 10;
      mkNode [2%nat] [3%nat] 1 1 false 0 0 (7#2) 15 ]
    [ mkEdge 0 1 1 1 false false 0 [] false;
      mkEdge 1 2 1 1 false false 0 [] false;
      mkEdge 0 3 1 1 false false 0 [] false;
      mkEdge 3 2 1 1 false false 0 [] false ]
    [0%nat; 1%nat; 2%nat; 3%nat] [0%nat; 1%nat; 2%nat; 3%nat]
    [ mkLayer [0%nat] 0 0; mkLayer [1%nat; 3%nat] 0 0; mkLayer [2%nat] 0 0 ].
Definition p0 : p4params := mkP4 10 (25#2) 1 1.
(** g0 after phase 4 (so that it has coordinates), input of the phase-5 examples *)
Definition g0p : graph := match phase4 VAlign p0 g0 with Ok g => g | Err _ => g0 end.

Ltac check_equiv := vm_compute; repeat (constructor; cbn).

Example ex_valign : graph_equiv (exec_valign (2 * 10) (scale_graph 2 g0)) (scale_graph 2 (exec_valign 10 g0)).
Proof. check_equiv. Qed.
Example ex_valign_thm : graph_equiv (exec_valign ((2#3) * 10) (scale_graph (2#3) g0)) (scale_graph (2#3) (exec_valign 10 g0)).
Proof. apply exec_valign_scale. discriminate. Qed.

Example ex_pack_right : graph_equiv (exec_pack_right (2 * 10) (scale_graph 2 g0)) (scale_graph 2 (exec_pack_right 10 g0)).
Proof. check_equiv. Qed.

Example ex_assign_y :
  graph_equiv (assign_y (2 * (25#2)) (scale_graph 2 (exec_valign 10 g0))) (scale_graph 2 (assign_y (25#2) (exec_valign 10 g0))).
Proof. check_equiv. Qed.

Example ex_sink_coloring :
  res_equiv (exec_sink_coloring ((2#3) * 10) (scale_graph (2#3) g0)) (map_res (scale_graph (2#3)) (exec_sink_coloring 10 g0)).
Proof. check_equiv. Qed.
Example ex_sink_coloring_ok : is_ok (exec_sink_coloring 10 g0) = true.
Proof. reflexivity. Qed.

Example ex_phase4 :
  res_equiv (phase4 SinkColoring (scale_p4 (2#3) p0) (scale_graph (2#3) g0)) (map_res (scale_graph (2#3)) (phase4 SinkColoring p0 g0)).
Proof. check_equiv. Qed.
Example ex_phase4_thm alg : alg <> NsPositioner ->
  res_equiv (phase4 alg (scale_p4 (2#3) p0) (scale_graph (2#3) g0)) (map_res (scale_graph (2#3)) (phase4 alg p0 g0)).
Proof. intros. apply phase4_scale; auto. reflexivity. Qed.

(** the hypothesis of the phase-5 theorems is satisfiable: no routed edge of g0p is flat *)
Definition routes_not_flatb (g : graph) : bool :=
  match merge_long_edges g with
  | Ok (g1, routes) => forallb (fun r => negb (is_flat g1 (fst r))) routes
  | Err _ => true
  end.

Lemma routes_not_flatb_sound g : routes_not_flatb g = true -> routes_not_flat g.
Proof.
  unfold routes_not_flatb. intros Hb g1 routes Hm r Hin. rewrite Hm in Hb.
  rewrite forallb_forall in Hb. specialize (Hb r Hin). destruct (is_flat g1 (fst r)); auto; discriminate.
Qed.

Example ex_routes_not_flat : routes_not_flat g0p.
Proof. apply routes_not_flatb_sound. vm_compute. reflexivity. Qed.

Example ex_merge : match merge_long_edges g0p with Ok (_, routes) => routes = [(0, [0; 1; 2]); (2, [0; 3]); (3, [3; 2]); (3, [3; 2])]%nat | Err _ => False end.
Proof. vm_compute. reflexivity. Qed.

Example ex_phase5_ortho :
  res_equiv (phase5 Ortho (2 * (25#2)) (scale_graph 2 g0p)) (map_res (scale_graph 2) (phase5 Ortho (25#2) g0p)).
Proof. check_equiv. Qed.
Example ex_phase5_polyline :
  res_equiv (phase5 Polyline (2 * (25#2)) (scale_graph 2 g0p)) (map_res (scale_graph 2) (phase5 Polyline (25#2) g0p)).
Proof. check_equiv. Qed.
Example ex_phase5_thm alg c : 0 < c ->
  res_equiv (phase5 alg (c * (25#2)) (scale_graph c g0p)) (map_res (scale_graph c) (phase5 alg (25#2) g0p)).
Proof. intros Hc. apply phase5_scale; auto. intros _. apply ex_routes_not_flat. Qed.

(** the route functions on single edges; hypothesis [is_flat g e = false] is satisfiable *)
Example ex_not_flat : is_flat g0p 0 = false /\ is_flat g0p 2 = false.
Proof. split; vm_compute; reflexivity. Qed.
Example ex_route_ortho :
  pts_equiv (route_ortho (scale_graph 2 g0p) (2 * (25#2)) 2 [0; 3]%nat) (map (scale_pt 2) (route_ortho g0p (25#2) 2 [0; 3]%nat))
  /\ length (route_ortho g0p (25#2) 2 [0; 3]%nat) = 4%nat.
Proof. split; [check_equiv|vm_compute; reflexivity]. Qed.
Example ex_route_polyline :
  res_rel pts_equiv (route_polyline (scale_graph 2 g0p) 0 [0; 1; 2]%nat)
                    (map_res (map (scale_pt 2)) (route_polyline g0p 0 [0; 1; 2]%nat))
  /\ is_ok (route_polyline g0p 0 [0; 1; 2]%nat) = true.
Proof. split; [check_equiv|vm_compute; reflexivity]. Qed.
Example ex_route_ortho_thm c : 0 < c ->
  pts_equiv (route_ortho (scale_graph c g0p) (c * (25#2)) 2 [0; 3]%nat) (map (scale_pt c) (route_ortho g0p (25#2) 2 [0; 3]%nat)).
Proof. intros Hc. apply route_ortho_scale; [exact Hc|apply ex_not_flat]. Qed.

(** the route of the long edge 0 -> 1 -> 2 under Polyline really has a bend point, and Ortho produces legs *)
Example ex_polyline_pts :
  match phase5 Polyline (25#2) g0p with Ok g => length (e_pts (gedge g 0)) = 3%nat | Err _ => False end.
Proof. vm_compute. reflexivity. Qed.
Example ex_ortho_pts :
  match phase5 Ortho (25#2) g0p with Ok g => length (e_pts (gedge g 2)) = 4%nat | Err _ => False end.
Proof. vm_compute. reflexivity. Qed.

Example ex_phase45 c : 0 < c ->
  res_equiv (do g1 <- phase4 VAlign (scale_p4 c p0) (scale_graph c g0); phase5 Ortho (layer_spacing (scale_p4 c p0)) g1)
            (map_res (scale_graph c) (do g1 <- phase4 VAlign p0 g0; phase5 Ortho (layer_spacing p0) g1)).
Proof.
  intros Hc. apply phase45_scale; auto; [discriminate|].
  intros g1 Hg1 _. assert (g1 = g0p) as -> by (unfold g0p; rewrite Hg1; reflexivity).
  apply ex_routes_not_flat.
Qed.

(* ================================================================================================ *)
(** * Counterexamples: why flat_non_consecutive and NsPositioner are excluded *)

(** flat_non_consecutive adds the absolute constants 20, 10, 5: not scale-equivariant. *)
Example flat_non_consecutive_not_equivariant :
  ~ pts_equiv (flat_non_consecutive (scale_graph 2 g0p) 0 (2 * 10)) (map (scale_pt 2) (flat_non_consecutive g0p 0 10)).
Proof.
  intros H. vm_compute in H.
  inversion H as [|? ? ? ? _ Ht]; subst. inversion Ht as [|? ? ? ? Hp _]; subst.
  destruct Hp as [Hx _]. vm_compute in Hx. discriminate.
Qed.

(** NsPositioner: aux_graph rounds the minimum separation with Qceiling. Two unit-width nodes in one layer,
    spacing 1: x = [0; 2]. Everything scaled by 1/4: x = [0; 1], not [0; 1/2]. *)
Definition gN : graph :=
  mkGraph [ mkNode [] [] 0 0 false 0 0 1 1; mkNode [] [] 0 1 false 0 0 1 1 ] []
          [0%nat; 1%nat] [] [ mkLayer [0%nat; 1%nat] 0 0 ].
Definition pN : p4params := mkP4 1 1 1 1.

Example ns_positioner_values :
  map_res (fun g => map n_x (g_na g)) (phase4 NsPositioner pN gN) = Ok [0 # 4; 8 # 4] /\
  map_res (fun g => map n_x (g_na g)) (phase4 NsPositioner (scale_p4 (1#4) pN) (scale_graph (1#4) gN)) = Ok [0 # 64; 64 # 64].
Proof. split; vm_compute; reflexivity. Qed.

Example ns_positioner_not_equivariant :
  ~ res_equiv (phase4 NsPositioner (scale_p4 (1#4) pN) (scale_graph (1#4) gN))
              (map_res (scale_graph (1#4)) (phase4 NsPositioner pN gN)).
Proof.
  intros H. vm_compute in H. destruct H as [Hna _ _ _ _]. cbn in Hna.
  inversion Hna as [|? ? ? ? _ Ht]; subst. inversion Ht as [|? ? ? ? Hn _]; subst.
  destruct Hn as [_ _ _ _ _ Hx _ _ _]. vm_compute in Hx. discriminate.
Qed.
