(* ScaleLayout.v — C17 for the WHOLE Layout, part 1: the phases that never read a rational.

   [rz phi g] is g with every coordinate erased (x = y = 0, no route points, layer sizes 0) and the size of the
   node with arena index i REPLACED by [phi i] (by 0 if the node is virtual: the helper nodes that phase 3 appends
   to the arena have size 0 whatever the table says). Every function of the front end (components, self loops), of
   phase 1 (cycle breaking) and of phase 2 (layering) COMMUTES with [rz phi] — Leibniz equality, for every size
   table phi: these phases cannot see sizes or coordinates. Phase 3 is in ScaleLayout2.v, the composition with the
   scale-equivariant phases 4 and 5 (Proofs/Scale.v, Proofs/BKProofs.v) in ScaleLayout3.v. *)
From Autog Require Import Base Graph Populate Phase1 Phase2.
Local Open Scope nat_scope.

(* ====================================================================================================== *)
(** * The size-replacing map                                                                               *)
(* ====================================================================================================== *)

Definition rnode (s : Q * Q) (n : node) : node :=
  mkNode (n_in n) (n_out n) (n_layer n) (n_pos n) (n_virt n) 0%Q 0%Q
         (if n_virt n then 0%Q else fst s) (if n_virt n then 0%Q else snd s).
Definition redge (e : edge) : edge := set_pts [] e.
Definition rlayer (l : layer) : layer := mkLayer (l_nodes l) 0%Q 0%Q.

Fixpoint rz_na (phi : nat -> Q * Q) (i : nat) (na : list node) : list node :=
  match na with
  | [] => []
  | n :: t => rnode (phi i) n :: rz_na phi (S i) t
  end.

Definition rz (phi : nat -> Q * Q) (g : graph) : graph :=
  mkGraph (rz_na phi 0 (g_na g)) (map redge (g_ea g)) (g_N g) (g_E g) (map rlayer (g_L g)).

Arguments rz : simpl never.

Definition map_res' {A B} (f : A -> B) (r : res A) : res B :=
  match r with Ok a => Ok (f a) | Err e => Err e end.

(** a node / edge / layer function that does not look at what [rz] replaces *)
Definition ncomm (f : node -> node) : Prop := forall s n, f (rnode s n) = rnode s (f n).
Definition ecomm (f : edge -> edge) : Prop := forall e, f (redge e) = redge (f e).
Definition lcomm (f : layer -> layer) : Prop := forall l, f (rlayer l) = rlayer (f l).

Section RZ.
  Variable phi : nat -> Q * Q.

  Lemma rz_na_length : forall na k, length (rz_na phi k na) = length na.
  Proof. induction na as [|n t IH]; intros k; cbn; [reflexivity|]. rewrite IH. reflexivity. Qed.

  Lemma rz_na_nth : forall na k i, i < length na ->
    nth i (rz_na phi k na) node0 = rnode (phi (k + i)) (nth i na node0).
  Proof.
    induction na as [|n t IH]; intros k i Hi; cbn in Hi; [lia|].
    destruct i as [|i]; cbn [rz_na nth].
    - rewrite Nat.add_0_r. reflexivity.
    - rewrite IH by lia. f_equal. f_equal. lia.
  Qed.

  Lemma rz_na_upd : forall na k i f, ncomm f -> upd (rz_na phi k na) i f = rz_na phi k (upd na i f).
  Proof.
    induction na as [|n t IH]; intros k i f Hf; cbn; [reflexivity|].
    destruct i as [|i]; cbn.
    - rewrite Hf. reflexivity.
    - rewrite IH by assumption. reflexivity.
  Qed.

  Lemma rz_na_app : forall na k l, rz_na phi k (na ++ l) = rz_na phi k na ++ rz_na phi (k + length na) l.
  Proof.
    induction na as [|n t IH]; intros k l; cbn.
    - rewrite Nat.add_0_r. reflexivity.
    - rewrite IH. do 3 f_equal. lia.
  Qed.

  Lemma map_upd_comm {X} (h f : X -> X) : (forall x, f (h x) = h (f x)) ->
    forall l i, upd (map h l) i f = map h (upd l i f).
  Proof.
    intros Hf. induction l as [|x t IH]; intros i; cbn; [reflexivity|].
    destruct i as [|i]; cbn; [rewrite Hf; reflexivity|rewrite IH; reflexivity].
  Qed.

  (* ---------- reading ---------- *)
  Lemma gnode_rz_cases : forall g i,
    (i < length (g_na g) /\ gnode (rz phi g) i = rnode (phi i) (gnode g i)) \/
    (length (g_na g) <= i /\ gnode (rz phi g) i = node0 /\ gnode g i = node0).
  Proof.
    intros g i. unfold gnode, rz; cbn [g_na].
    destruct (Nat.lt_ge_cases i (length (g_na g))) as [L|L].
    - left. split; [exact L|]. rewrite rz_na_nth by exact L. reflexivity.
    - right. split; [exact L|]. split; apply nth_overflow; [rewrite rz_na_length|]; exact L.
  Qed.

  Lemma n_in_rz g i : n_in (gnode (rz phi g) i) = n_in (gnode g i).
  Proof. destruct (gnode_rz_cases g i) as [[_ ->]|(_ & -> & ->)]; reflexivity. Qed.
  Lemma n_out_rz g i : n_out (gnode (rz phi g) i) = n_out (gnode g i).
  Proof. destruct (gnode_rz_cases g i) as [[_ ->]|(_ & -> & ->)]; reflexivity. Qed.
  Lemma n_layer_rz g i : n_layer (gnode (rz phi g) i) = n_layer (gnode g i).
  Proof. destruct (gnode_rz_cases g i) as [[_ ->]|(_ & -> & ->)]; reflexivity. Qed.
  Lemma n_pos_rz g i : n_pos (gnode (rz phi g) i) = n_pos (gnode g i).
  Proof. destruct (gnode_rz_cases g i) as [[_ ->]|(_ & -> & ->)]; reflexivity. Qed.
  Lemma n_virt_rz g i : n_virt (gnode (rz phi g) i) = n_virt (gnode g i).
  Proof. destruct (gnode_rz_cases g i) as [[_ ->]|(_ & -> & ->)]; reflexivity. Qed.

  Lemma gedge_rz g e : gedge (rz phi g) e = redge (gedge g e).
  Proof. unfold gedge, rz; cbn [g_ea]. change edge0 with (redge edge0) at 1. apply map_nth. Qed.
  Lemma glayer_rz g i : glayer (rz phi g) i = rlayer (glayer g i).
  Proof. unfold glayer, rz; cbn [g_L]. change layer0 with (rlayer layer0) at 1. apply map_nth. Qed.

  Lemma e_from_rz g e : e_from (gedge (rz phi g) e) = e_from (gedge g e).
  Proof. rewrite gedge_rz. reflexivity. Qed.
  Lemma e_to_rz g e : e_to (gedge (rz phi g) e) = e_to (gedge g e).
  Proof. rewrite gedge_rz. reflexivity. Qed.
  Lemma e_delta_rz g e : e_delta (gedge (rz phi g) e) = e_delta (gedge g e).
  Proof. rewrite gedge_rz. reflexivity. Qed.
  Lemma e_weight_rz g e : e_weight (gedge (rz phi g) e) = e_weight (gedge g e).
  Proof. rewrite gedge_rz. reflexivity. Qed.
  Lemma e_tree_rz g e : e_tree (gedge (rz phi g) e) = e_tree (gedge g e).
  Proof. rewrite gedge_rz. reflexivity. Qed.
  Lemma e_rev_rz g e : e_rev (gedge (rz phi g) e) = e_rev (gedge g e).
  Proof. rewrite gedge_rz. reflexivity. Qed.
  Lemma e_cut_rz g e : e_cut (gedge (rz phi g) e) = e_cut (gedge g e).
  Proof. rewrite gedge_rz. reflexivity. Qed.
  Lemma e_ahs_rz g e : e_ahs (gedge (rz phi g) e) = e_ahs (gedge g e).
  Proof. rewrite gedge_rz. reflexivity. Qed.
  Lemma l_nodes_rz g i : l_nodes (glayer (rz phi g) i) = l_nodes (glayer g i).
  Proof. rewrite glayer_rz. reflexivity. Qed.

  Lemma g_N_rz g : g_N (rz phi g) = g_N g. Proof. reflexivity. Qed.
  Lemma g_E_rz g : g_E (rz phi g) = g_E g. Proof. reflexivity. Qed.
  Lemma len_na_rz g : length (g_na (rz phi g)) = length (g_na g).
  Proof. unfold rz; cbn [g_na]. apply rz_na_length. Qed.
  Lemma len_ea_rz g : length (g_ea (rz phi g)) = length (g_ea g).
  Proof. unfold rz; cbn [g_ea]. apply map_length. Qed.
  Lemma len_L_rz g : length (g_L (rz phi g)) = length (g_L g).
  Proof. unfold rz; cbn [g_L]. apply map_length. Qed.

  Lemma layer_of_rz g n : layer_of (rz phi g) n = layer_of g n.
  Proof. unfold layer_of. apply n_layer_rz. Qed.
  Lemma indeg_rz g n : indeg (rz phi g) n = indeg g n.
  Proof. unfold indeg. rewrite n_in_rz. reflexivity. Qed.
  Lemma outdeg_rz g n : outdeg (rz phi g) n = outdeg g n.
  Proof. unfold outdeg. rewrite n_out_rz. reflexivity. Qed.
  Lemma all_edges_rz g n : all_edges (rz phi g) n = all_edges g n.
  Proof. unfold all_edges. rewrite n_in_rz, n_out_rz. reflexivity. Qed.
  Lemma self_loop_rz g e : self_loop (rz phi g) e = self_loop g e.
  Proof. unfold self_loop. rewrite e_from_rz, e_to_rz. reflexivity. Qed.
  Lemma connected_node_rz g e n : connected_node (rz phi g) e n = connected_node g e n.
  Proof. unfold connected_node. rewrite e_from_rz, e_to_rz. reflexivity. Qed.
  Lemma is_flat_rz g e : is_flat (rz phi g) e = is_flat g e.
  Proof. unfold is_flat. rewrite !layer_of_rz, e_from_rz, e_to_rz. reflexivity. Qed.

  (* ---------- writing ---------- *)
  Lemma upd_node_rz g i f : ncomm f -> upd_node (rz phi g) i f = rz phi (upd_node g i f).
  Proof. intros Hf. unfold upd_node, with_na, rz; cbn [g_na g_ea g_N g_E g_L]. rewrite rz_na_upd by exact Hf. reflexivity. Qed.
  Lemma upd_edge_rz g i f : ecomm f -> upd_edge (rz phi g) i f = rz phi (upd_edge g i f).
  Proof. intros Hf. unfold upd_edge, with_ea, rz; cbn [g_na g_ea g_N g_E g_L]. rewrite map_upd_comm by exact Hf. reflexivity. Qed.
  Lemma upd_layer_rz g i f : lcomm f -> upd_layer (rz phi g) i f = rz phi (upd_layer g i f).
  Proof. intros Hf. unfold upd_layer, with_L, rz; cbn [g_na g_ea g_N g_E g_L]. rewrite map_upd_comm by exact Hf. reflexivity. Qed.
  Lemma with_N_rz g l : with_N (rz phi g) l = rz phi (with_N g l). Proof. reflexivity. Qed.
  Lemma with_E_rz g l : with_E (rz phi g) l = rz phi (with_E g l). Proof. reflexivity. Qed.
  Lemma with_L_rz g l : with_L (rz phi g) (map rlayer l) = rz phi (with_L g l). Proof. reflexivity. Qed.
End RZ.

(* commutation side conditions *)
Ltac comm := first [ intros ? ?; reflexivity | intros ?; reflexivity
                   | intros ? [? ? ? ? ? ? ? ? ?]; reflexivity | intros [? ? ? ? ? ? ? ? ?]; reflexivity
                   | intros [? ? ?]; reflexivity ].

#[export] Hint Rewrite n_in_rz n_out_rz n_layer_rz n_pos_rz n_virt_rz e_from_rz e_to_rz e_delta_rz e_weight_rz e_tree_rz
  e_rev_rz e_cut_rz e_ahs_rz l_nodes_rz g_N_rz g_E_rz len_na_rz len_ea_rz len_L_rz layer_of_rz indeg_rz outdeg_rz
  all_edges_rz self_loop_rz connected_node_rz is_flat_rz with_N_rz with_E_rz : rz.
#[export] Hint Rewrite upd_node_rz upd_edge_rz upd_layer_rz using (solve [comm]) : rz.

Ltac rzw := autorewrite with rz.

Lemma fold_left_ext_rz {A X} (f f' : A -> X -> A) l : (forall a x, f a x = f' a x) -> forall a, fold_left f l a = fold_left f' l a.
Proof. intros H. induction l as [|x t IH]; intros a; cbn; [reflexivity|]. rewrite H. apply IH. Qed.

Lemma filter_ext_rz {X} (f f' : X -> bool) l : (forall x, f x = f' x) -> filter f l = filter f' l.
Proof. intros H. induction l as [|x t IH]; cbn; [reflexivity|]. rewrite H, IH. reflexivity. Qed.

Lemma find_ext_rz {X} (f f' : X -> bool) l : (forall x, f x = f' x) -> find f l = find f' l.
Proof. intros H. induction l as [|x t IH]; cbn; [reflexivity|]. rewrite H, IH. reflexivity. Qed.

Lemma existsb_ext_rz {X} (f f' : X -> bool) l : (forall x, f x = f' x) -> existsb f l = existsb f' l.
Proof. intros H. induction l as [|x t IH]; cbn; [reflexivity|]. rewrite H, IH. reflexivity. Qed.

(** folding graph updates that commute with [rz] *)
Lemma fold_left_rz {X} phi (f : graph -> X -> graph) (l : list X) :
  (forall g x, f (rz phi g) x = rz phi (f g x)) ->
  forall g, fold_left f l (rz phi g) = rz phi (fold_left f l g).
Proof. intros H. induction l as [|x t IH]; intros g; cbn; [reflexivity|]. rewrite H. apply IH. Qed.

(* ====================================================================================================== *)
(** * Graph.v / Populate.v: reverse_edge, components, self loops                                           *)
(* ====================================================================================================== *)
Section Front.
  Variable phi : nat -> Q * Q.

  Lemma reverse_edge_rz g e : reverse_edge (rz phi g) e = rz phi (reverse_edge g e).
  Proof. unfold reverse_edge. rzw. reflexivity. Qed.

  Lemma fold_reverse_rz l g : fold_left reverse_edge l (rz phi g) = rz phi (fold_left reverse_edge l g).
  Proof. apply fold_left_rz. intros; apply reverse_edge_rz. Qed.

  Lemma neighbours_rz g n : neighbours (rz phi g) n = neighbours g n.
  Proof. unfold neighbours. rzw. apply map_ext. intros e. rzw. reflexivity. Qed.

  Lemma reach_step_rz g acc : reach_step (rz phi g) acc = reach_step g acc.
  Proof. unfold reach_step. apply fold_left_ext_rz. intros a n. rewrite neighbours_rz. reflexivity. Qed.

  Lemma reach_iter_rz fuel g : forall acc, reach_iter fuel (rz phi g) acc = reach_iter fuel g acc.
  Proof. induction fuel as [|f IH]; intros acc; cbn; [reflexivity|]. rewrite reach_step_rz, IH. reflexivity. Qed.

  Lemma reach_rz g n : reach (rz phi g) n = reach g n.
  Proof. unfold reach. rzw. apply reach_iter_rz. Qed.

  Lemma subgraph_rz g ns : subgraph (rz phi g) ns = rz phi (subgraph g ns).
  Proof.
    unfold subgraph. rzw. do 2 f_equal. apply filter_ext_rz. intros e. rzw. reflexivity.
  Qed.

  Lemma components_from_rz fuel g : forall todo vis,
    components_from fuel (rz phi g) todo vis = map (rz phi) (components_from fuel g todo vis).
  Proof.
    induction todo as [|n t IH]; intros vis; cbn [components_from map]; [reflexivity|].
    destruct (mem_nat n vis); [apply IH|]. rewrite reach_rz, subgraph_rz, IH. reflexivity.
  Qed.

  Lemma components_rz g : components (rz phi g) = map (rz phi) (components g).
  Proof. unfold components. rzw. apply components_from_rz. Qed.

  Lemma self_loops_rz g : self_loops (rz phi g) = self_loops g.
  Proof. unfold self_loops. rzw. apply filter_ext_rz. intros e. rzw. reflexivity. Qed.

  Lemma remove_self_loop_rz g e : remove_self_loop (rz phi g) e = rz phi (remove_self_loop g e).
  Proof. unfold remove_self_loop. rzw. reflexivity. Qed.

  Lemma ignore_self_loops_rz g :
    ignore_self_loops (rz phi g) = (rz phi (fst (ignore_self_loops g)), snd (ignore_self_loops g)).
  Proof.
    unfold ignore_self_loops. cbn [fst snd]. rewrite self_loops_rz. f_equal.
    apply fold_left_rz. intros; apply remove_self_loop_rz.
  Qed.

  Lemma restore_self_loop_rz g e : restore_self_loop (rz phi g) e = rz phi (restore_self_loop g e).
  Proof. unfold restore_self_loop. rzw. reflexivity. Qed.
End Front.

(* ====================================================================================================== *)
(** * Proof automation for "the same function of the erased graph"                                         *)
(* ====================================================================================================== *)
Lemma bind_ext2 {A B} (x x' : res A) (f f' : A -> res B) : x = x' -> (forall a, f a = f' a) -> bind x f = bind x' f'.
Proof. intros -> H. destruct x'; cbn; auto. Qed.

Lemma bind_map_res' {A B C} (h : A -> B) (x : res A) (f : B -> res C) :
  bind (map_res' h x) f = bind x (fun a => f (h a)).
Proof. destruct x; reflexivity. Qed.

Lemma map_res'_bind {A B C} (h : B -> C) (x : res A) (f : A -> res B) :
  map_res' h (bind x f) = bind x (fun a => map_res' h (f a)).
Proof. destruct x; reflexivity. Qed.

Ltac stp :=
  repeat first
  [ reflexivity
  | progress rzw
  | match goal with H : forall _, _ = _ |- _ => rewrite H end
  | match goal with H : forall _ _, _ = _ |- _ => rewrite H end
  | match goal with H : forall _ _ _, _ = _ |- _ => rewrite H end
  | match goal with H : forall _ _ _ _, _ = _ |- _ => rewrite H end
  | apply bind_ext2; [|intros ?]
  | match goal with |- (if ?b then _ else _) = (if ?b then _ else _) => destruct b end
  | match goal with |- (match ?x with _ => _ end) = (match ?x with _ => _ end) => destruct x end
  | match goal with |- fold_left _ ?l ?a = fold_left _ ?l ?a => apply fold_left_ext_rz; intros end
  | match goal with |- filter _ ?l = filter _ ?l => apply filter_ext_rz; intros end
  | match goal with |- map _ ?l = map _ ?l => apply map_ext; intros end
  | match goal with |- find _ ?l = find _ ?l => apply find_ext_rz; intros end
  | match goal with |- existsb _ ?l = existsb _ ?l => apply existsb_ext_rz; intros end
  | match goal with |- flat_map _ ?l = flat_map _ ?l => apply flat_map_ext; intros end
  | match goal with |- snd _ = snd _ => f_equal end
  | match goal with |- fst _ = fst _ => f_equal end ].

(* equality of two local loops that differ in the graph they read *)
Ltac loops :=
  match goal with
  | |- bind ((fix loop es x st {struct es} := _) ?a1 ?a2 ?a3) _ = bind (?F2 ?a1 ?a2 ?a3) _ =>
      match goal with |- bind (?F _ _ _) _ = _ =>
      let L := fresh "L" in assert (L : forall es x st, F es x st = F2 es x st); [| rewrite L; try reflexivity] end
  | |- bind (?F ?a1 ?a2) _ = bind (?F2 ?a1 ?a2) _ =>
      let L := fresh "L" in assert (L : forall es st, F es st = F2 es st); [| rewrite L; try reflexivity]
  | |- ?F ?a1 ?a2 = ?F2 ?a1 ?a2 =>
      let L := fresh "L" in assert (L : forall es st, F es st = F2 es st); [| apply L]
  end.

(* ====================================================================================================== *)
(** * Phase 1                                                                                              *)
(* ====================================================================================================== *)
Section P1.
  Variable phi : nat -> Q * Q.

  Lemma two_cycle_edges_rz g : forall es seen, two_cycle_edges (rz phi g) es seen = two_cycle_edges g es seen.
  Proof. induction es as [|e t IH]; intros seen; cbn [two_cycle_edges]; stp. Qed.

  Lemma remove_two_node_cycles_rz g : remove_two_node_cycles (rz phi g) = rz phi (remove_two_node_cycles g).
  Proof. unfold remove_two_node_cycles. rzw. rewrite two_cycle_edges_rz. apply fold_reverse_rz. Qed.

  Lemma hc_visit_rz fuel g : forall n st, hc_visit fuel (rz phi g) n st = hc_visit fuel g n st.
  Proof.
    induction fuel as [|f IH]; intros n st; cbn [hc_visit]; [reflexivity|].
    rewrite n_out_rz. loops.
    induction es as [|e t IHt]; intros st1; [reflexivity|].
    cbn. stp.
  Qed.

  Lemma hc_nodes_rz fuel g : forall ns st, hc_nodes fuel (rz phi g) ns st = hc_nodes fuel g ns st.
  Proof. induction ns as [|n t IH]; intros st; cbn [hc_nodes]; [reflexivity|]. rewrite hc_visit_rz. stp. Qed.

  Lemma has_cycles_rz g : has_cycles (rz phi g) = has_cycles g.
  Proof. unfold has_cycles. rzw. apply hc_nodes_rz. Qed.

  Lemma dfs_visit_rz fuel g : forall n st, dfs_visit fuel (rz phi g) n st = dfs_visit fuel g n st.
  Proof.
    induction fuel as [|f IH]; intros n st; cbn [dfs_visit]; [reflexivity|].
    destruct st as [[vis act] rv]. destruct (mem_nat n vis); [reflexivity|].
    rewrite n_out_rz. loops.
    induction es as [|e t IHt]; intros st1; [reflexivity|].
    cbn. stp.
  Qed.

  Lemma dfs_nodes_rz fuel g : forall ns st, dfs_nodes fuel (rz phi g) ns st = dfs_nodes fuel g ns st.
  Proof. induction ns as [|n t IH]; intros st; cbn [dfs_nodes]; [reflexivity|]. rewrite dfs_visit_rz. stp. Qed.

  Lemma exec_depth_first_rz g : exec_depth_first (rz phi g) = map_res' (rz phi) (exec_depth_first g).
  Proof.
    unfold exec_depth_first. rzw. rewrite !dfs_nodes_rz.
    rewrite (filter_ext_rz (fun n => Nat.eqb (indeg (rz phi g) n) 0) (fun n => Nat.eqb (indeg g n) 0))
      by (intros; rzw; reflexivity).
    destruct (dfs_nodes _ g (filter _ _) _) as [st|]; cbn [bind map_res']; [|reflexivity].
    rewrite dfs_nodes_rz. destruct (dfs_nodes _ g (g_N g) st) as [[[vis act] rv]|]; cbn [bind map_res']; [|reflexivity].
    rewrite fold_reverse_rz. reflexivity.
  Qed.

  Lemma update_neighbors_rz g s n : update_neighbors (rz phi g) s n = update_neighbors g s n.
  Proof.
    unfold update_neighbors. rzw.
    match goal with |- fold_left ?f ?l (fold_left ?f1 ?l1 ?s) = fold_left ?f' ?l (fold_left ?f1' ?l1 ?s) =>
      rewrite (fold_left_ext_rz f1 f1'); [apply fold_left_ext_rz|] end; intros; rzw; reflexivity.
  Qed.

  Lemma drain_sinks_rz fuel g : forall s, drain_sinks fuel (rz phi g) s = drain_sinks fuel g s.
  Proof.
    induction fuel as [|f IH]; intros s; cbn [drain_sinks]; [reflexivity|].
    destruct (snks s); [reflexivity|]. rewrite update_neighbors_rz. apply IH.
  Qed.

  Lemma drain_sources_rz fuel g : forall s, drain_sources fuel (rz phi g) s = drain_sources fuel g s.
  Proof.
    induction fuel as [|f IH]; intros s; cbn [drain_sources]; [reflexivity|].
    destruct (srcs s); [reflexivity|]. rewrite update_neighbors_rz. apply IH.
  Qed.

  Lemma max_outflow_nodes_rz g s : max_outflow_nodes (rz phi g) s = max_outflow_nodes g s.
  Proof. reflexivity. Qed.

  Lemma drain_rest_rz fuel g : forall s, drain_rest fuel (rz phi g) s = drain_rest fuel g s.
  Proof.
    induction fuel as [|f IH]; intros s; cbn [drain_rest]; [reflexivity|].
    rewrite max_outflow_nodes_rz. destruct (cnt s <=? 0)%Z; [reflexivity|].
    destruct (max_outflow_nodes g s); [reflexivity|]. rewrite update_neighbors_rz. apply IH.
  Qed.

  Lemma greedy_outer_rz fuel g : forall s, greedy_outer fuel (rz phi g) s = greedy_outer fuel g s.
  Proof.
    induction fuel as [|f IH]; intros s; cbn [greedy_outer]; [reflexivity|].
    destruct (cnt s <=? 0)%Z; [reflexivity|]. rzw.
    rewrite drain_sinks_rz. apply bind_ext2; [reflexivity|intros s1].
    rewrite drain_sources_rz. apply bind_ext2; [reflexivity|intros s2].
    rewrite drain_rest_rz. apply bind_ext2; [reflexivity|intros s3]. apply IH.
  Qed.

  Lemma greedy_ranks_rz g : greedy_ranks (rz phi g) = greedy_ranks g.
  Proof.
    unfold greedy_ranks. rzw.
    rewrite (fold_left_ext_rz (fun l n => set_nth l n (Z.of_nat (indeg (rz phi g) n)))
                              (fun l n => set_nth l n (Z.of_nat (indeg g n)))) by (intros; rzw; reflexivity).
    rewrite (fold_left_ext_rz (fun l n => set_nth l n (Z.of_nat (outdeg (rz phi g) n)))
                              (fun l n => set_nth l n (Z.of_nat (outdeg g n)))) by (intros; rzw; reflexivity).
    rewrite (filter_ext_rz (fun n => Nat.eqb (indeg (rz phi g) n) 0) (fun n => Nat.eqb (indeg g n) 0))
      by (intros; rzw; reflexivity).
    rewrite (filter_ext_rz (fun n => Nat.eqb (outdeg (rz phi g) n) 0) (fun n => Nat.eqb (outdeg g n) 0))
      by (intros; rzw; reflexivity).
    rewrite greedy_outer_rz. reflexivity.
  Qed.

  Lemma exec_greedy_rz g : exec_greedy (rz phi g) = map_res' (rz phi) (exec_greedy g).
  Proof.
    unfold exec_greedy. rewrite greedy_ranks_rz. destruct (greedy_ranks g) as [r|]; cbn [bind map_res']; [|reflexivity].
    f_equal. rzw. apply fold_left_rz. intros g1 n. rzw.
    generalize (n_out (gnode g1 n)). intros l. revert g1. induction l as [|e t IH]; intros g1; cbn [fold_left]; [reflexivity|].
    rzw. destruct (_ <? _)%Z; [rewrite reverse_edge_rz|]; apply IH.
  Qed.

  Theorem phase1_rz alg g : phase1 alg (rz phi g) = map_res' (rz phi) (phase1 alg g).
  Proof.
    unfold phase1. rzw. destruct (Nat.eqb (length (g_N g)) 1); [reflexivity|].
    rewrite remove_two_node_cycles_rz, has_cycles_rz.
    destruct (has_cycles (remove_two_node_cycles g)) as [c|]; cbn [bind map_res']; [|reflexivity].
    destruct (negb c); [reflexivity|].
    destruct alg; [rewrite exec_greedy_rz; destruct (exec_greedy _) as [g1|]
                  |rewrite exec_depth_first_rz; destruct (exec_depth_first _) as [g1|]];
      cbn [bind map_res']; try reflexivity;
      rewrite has_cycles_rz; destruct (has_cycles g1) as [c1|]; cbn [bind map_res']; try reflexivity;
      destruct c1; reflexivity.
  Qed.
End P1.
Print Assumptions phase1_rz.
Print Assumptions components_rz.
Print Assumptions ignore_self_loops_rz.
