(* ScaleLayout2.v — C17 for the whole Layout, part 2: phase 2 (longest path, network simplex, layer slices) commutes
   with the size-replacing / coordinate-erasing map [rz phi] of ScaleLayout.v. *)
From Autog Require Import Base Graph Populate Phase1 Phase2 ScaleLayout.
Local Open Scope nat_scope.

Section P2a.
  Variable phi : nat -> Q * Q.

  Definition rz2 {X} (t : graph * X) : graph * X := (rz phi (fst t), snd t).
  Definition rz3 {X Y} (t : graph * X * Y) : graph * X * Y := (rz phi (fst (fst t)), snd (fst t), snd t).

  Lemma fold_left_rz2 {X Y} (F : graph * X -> Y -> graph * X) l :
    (forall g a y, F (rz phi g, a) y = rz2 (F (g, a) y)) ->
    forall g a, fold_left F l (rz phi g, a) = rz2 (fold_left F l (g, a)).
  Proof.
    intros H. induction l as [|y t IH]; intros g a; cbn [fold_left]; [reflexivity|].
    rewrite H. destruct (F (g, a) y) as [g1 a1]. apply IH.
  Qed.

  Lemma fold_left_rz3 {X Y Z} (F : graph * X * Y -> Z -> graph * X * Y) l :
    (forall g a b y, F (rz phi g, a, b) y = rz3 (F (g, a, b) y)) ->
    forall g a b, fold_left F l (rz phi g, a, b) = rz3 (fold_left F l (g, a, b)).
  Proof.
    intros H. induction l as [|y t IH]; intros g a b; cbn [fold_left]; [reflexivity|].
    rewrite H. destruct (F (g, a, b) y) as [[g1 a1] b1]. apply IH.
  Qed.

  (* ---------- longest path ---------- *)
  Lemma follow_lp_rz fuel g : forall n st, follow_lp fuel (rz phi g) n st = follow_lp fuel g n st.
  Proof.
    induction fuel as [|f IH]; intros n st; cbn [follow_lp]; [reflexivity|].
    destruct (0 <=? nth n (fst st) (-1))%Z; [reflexivity|].
    rewrite n_out_rz. loops.
    induction es as [|e t IHt]; intros x st1; [reflexivity|].
    cbn. stp.
  Qed.

  Lemma lp_nodes_rz fuel g : forall ns st, lp_nodes fuel (rz phi g) ns st = lp_nodes fuel g ns st.
  Proof. induction ns as [|n t IH]; intros st; cbn [lp_nodes]; [reflexivity|]. rewrite follow_lp_rz. stp. Qed.

  Lemma exec_longest_path_rz g : exec_longest_path (rz phi g) = map_res' (rz phi) (exec_longest_path g).
  Proof.
    unfold exec_longest_path. rzw. rewrite lp_nodes_rz.
    destruct (lp_nodes _ g _ _) as [[hs nl]|]; cbn [bind map_res']; [|reflexivity].
    f_equal. apply fold_left_rz. intros; rzw; reflexivity.
  Qed.

  (* ---------- network simplex ---------- *)
  Lemma slack_rz g e : slack (rz phi g) e = slack g e.
  Proof. unfold slack. rzw. reflexivity. Qed.

End P2a.
Arguments rz2 phi {X} t.
Arguments rz3 phi {X Y} t.
#[export] Hint Rewrite follow_lp_rz lp_nodes_rz slack_rz : rz.

Section P2b.
  Variable phi : nat -> Q * Q.

  Lemma init_layers_loop_rz fuel : forall g queue unseen,
    init_layers_loop fuel (rz phi g) queue unseen = map_res' (rz phi) (init_layers_loop fuel g queue unseen).
  Proof.
    induction fuel as [|f IH]; intros g queue unseen; destruct queue as [|n rest]; cbn [init_layers_loop map_res']; try reflexivity.
    rzw. rewrite fold_left_rz3.
    - destruct (fold_left _ _ (g, unseen, rest)) as [[g1 u1] q1]. cbn [rz3 fst snd]. apply IH.
    - intros g1 a b y. rzw. destruct (_ =? 0)%Z; reflexivity.
  Qed.

  Lemma init_layers_rz g : init_layers (rz phi g) = map_res' (rz phi) (init_layers g).
  Proof.
    unfold init_layers. rzw.
    rewrite (fold_left_ext_rz (fun l n => set_nth l n (Z.of_nat (indeg (rz phi g) n)))
                              (fun l n => set_nth l n (Z.of_nat (indeg g n)))) by (intros; rzw; reflexivity).
    rewrite (filter_ext_rz (fun n => Nat.eqb (indeg (rz phi g) n) 0) (fun n => Nat.eqb (indeg g n) 0))
      by (intros; rzw; reflexivity).
    apply init_layers_loop_rz.
  Qed.

  Lemma tight_tree_rz fuel : forall n g ve vn,
    tight_tree fuel n (rz phi g, ve, vn) = map_res' (rz3 phi) (tight_tree fuel n (g, ve, vn)).
  Proof.
    induction fuel as [|f IH]; intros n g ve vn; cbn [tight_tree map_res']; [reflexivity|].
    rzw. generalize (all_edges g n), (n :: vn). intros es. revert g ve.
    induction es as [|e t IHt]; intros g ve vn1; [reflexivity|].
    cbn. destruct (mem_nat e ve); [apply IHt|]. rzw.
    destruct (e_tree (gedge g e)).
    - rewrite IH. destruct (tight_tree f _ _) as [[[g1 ve1] vn2]|]; cbn [bind map_res' rz3 fst snd]; [apply IHt|reflexivity].
    - destruct (_ && _)%bool; [|apply IHt].
      rewrite IH. destruct (tight_tree f _ _) as [[[g1 ve1] vn2]|]; cbn [bind map_res' rz3 fst snd]; [apply IHt|reflexivity].
  Qed.


  Lemma incident_non_tree_edge_rz g tree : incident_non_tree_edge (rz phi g) tree = incident_non_tree_edge g tree.
  Proof.
    unfold incident_non_tree_edge. rzw.
    match goal with |- (let '(_, c1) := ?x in c1) = (let '(_, c2) := ?y in c2) => replace x with y; [reflexivity|] end.
    stp.
  Qed.

  Lemma walk_stree_rz fuel g : forall n low st, walk_stree fuel (rz phi g) n low st = walk_stree fuel g n low st.
  Proof.
    induction fuel as [|f IH]; intros n low st; cbn [walk_stree]; [reflexivity|].
    destruct st as [[lims lows] vis]. rzw. loops.
    induction es as [|e t IHt]; intros x st1; [reflexivity|].
    cbn. stp.
  Qed.

  Lemma set_stree_values_rz g : set_stree_values (rz phi g) = set_stree_values g.
  Proof. unfold set_stree_values. rzw. destruct (g_N g); [reflexivity|]. rewrite walk_stree_rz. reflexivity. Qed.

  Lemma in_head_component_rz g ll n e : in_head_component (rz phi g) ll n e = in_head_component g ll n e.
  Proof. unfold in_head_component. rzw. reflexivity. Qed.
End P2b.
#[export] Hint Rewrite incident_non_tree_edge_rz walk_stree_rz set_stree_values_rz in_head_component_rz : rz.

Section P2c.
  Variable phi : nat -> Q * Q.

  Lemma set_cut_values_rz g ll : set_cut_values (rz phi g) ll = rz phi (set_cut_values g ll).
  Proof.
    unfold set_cut_values. rzw. apply fold_left_rz. intros g1 e. rzw.
    destruct (negb (e_tree (gedge g1 e))); [reflexivity|]. do 3 f_equal. stp.
  Qed.

  Lemma feasible_loop_rz fuel : forall g, feasible_loop fuel (rz phi g) = map_res' (rz phi) (feasible_loop fuel g).
  Proof.
    induction fuel as [|f IH]; intros g; cbn [feasible_loop map_res']; [reflexivity|].
    rzw. destruct (g_N g) as [|root ns] eqn:EN; [reflexivity|].
    rewrite (fold_left_rz phi (fun g e => upd_edge g e (set_tree false))) by (intros; rzw; reflexivity).
    rzw. rewrite tight_tree_rz.
    destruct (tight_tree _ root _) as [[[g1 ve] tree]|]; cbn [bind map_res' rz3 fst snd]; [|reflexivity].
    rzw. destruct (Nat.eqb (length tree) (length (g_N g1))); [reflexivity|].
    destruct (incident_non_tree_edge g1 tree) as [e|]; [|reflexivity].
    rewrite <- IH. f_equal.
    rewrite (fold_left_rz phi (fun g n => upd_node g n (fun nd => set_layer (n_layer nd + _) nd))) by (intros; rzw; reflexivity).
    rzw. reflexivity.
  Qed.

  Lemma feasible_tree_rz g : feasible_tree (rz phi g) = map_res' (rz2 phi) (feasible_tree g).
  Proof.
    unfold feasible_tree. rewrite init_layers_rz.
    destruct (init_layers g) as [g1|]; cbn [bind map_res']; [|reflexivity].
    rzw. rewrite feasible_loop_rz. destruct (feasible_loop _ g1) as [g2|]; cbn [bind map_res']; [|reflexivity].
    rzw. destruct (set_stree_values g2) as [ll|]; cbn [bind map_res']; [|reflexivity].
    rewrite set_cut_values_rz. reflexivity.
  Qed.

  Lemma neg_cut_tree_edge_rz g : neg_cut_tree_edge (rz phi g) = neg_cut_tree_edge g.
  Proof. unfold neg_cut_tree_edge. stp. Qed.

  Lemma min_slack_non_tree_edge_rz g ll e : min_slack_non_tree_edge (rz phi g) ll e = min_slack_non_tree_edge g ll e.
  Proof. unfold min_slack_non_tree_edge. stp. Qed.
End P2c.
#[export] Hint Rewrite neg_cut_tree_edge_rz min_slack_non_tree_edge_rz : rz.

Section P2d.
  Variable phi : nat -> Q * Q.

  Lemma exchange_rz g ll e f : exchange (rz phi g) ll e f = map_res' (rz2 phi) (exchange g ll e f).
  Proof.
    unfold exchange. rzw.
    assert (E : (if (0 <? slack g f)%Z
                 then fold_left (fun g' n => if negb (in_head_component (rz phi g) ll n e)
                                             then upd_node g' n (fun nd => set_layer (n_layer nd - slack g f) nd) else g')
                                (g_N g) (rz phi g)
                 else rz phi g) =
                rz phi (if (0 <? slack g f)%Z
                        then fold_left (fun g' n => if negb (in_head_component g ll n e)
                                                    then upd_node g' n (fun nd => set_layer (n_layer nd - slack g f) nd) else g')
                                       (g_N g) g
                        else g)).
    { destruct (0 <? slack g f)%Z; [|reflexivity].
      rewrite (fold_left_ext_rz _ (fun g' n => if negb (in_head_component g ll n e)
                 then upd_node g' n (fun nd => set_layer (n_layer nd - slack g f) nd) else g'))
        by (intros; rzw; reflexivity).
      apply fold_left_rz. intros g1 n. destruct (negb _); [|reflexivity]. rzw. reflexivity. }
    rewrite E. rzw. destruct (set_stree_values _) as [ll1|]; cbn [bind map_res']; [|reflexivity].
    rewrite set_cut_values_rz. reflexivity.
  Qed.

  Lemma pivot_loop_rz fuel : forall i maxitr g ll,
    pivot_loop fuel i maxitr (rz phi g) ll = map_res' (rz3 phi) (pivot_loop fuel i maxitr g ll).
  Proof.
    induction fuel as [|fu IH]; intros i maxitr g ll; cbn [pivot_loop]; rzw;
      (destruct (neg_cut_tree_edge g) as [e|]; [|reflexivity]);
      (destruct (maxitr <=? i)%Z; [reflexivity|]); rzw;
      (destruct (min_slack_non_tree_edge g ll e) as [f|]; [|reflexivity]); [reflexivity|].
    rewrite exchange_rz. destruct (exchange g ll e f) as [[g1 ll1]|]; cbn [bind map_res' rz2 fst snd]; [|reflexivity].
    apply IH.
  Qed.

  Lemma normalize_rz g : normalize (rz phi g) = rz phi (normalize g).
  Proof.
    unfold normalize. rzw. destruct (g_N g) as [|n0 t] eqn:EN; [reflexivity|]. rzw.
    rewrite (fold_left_ext_rz (fun m n => Z.min m (layer_of (rz phi g) n)) (fun m n => Z.min m (layer_of g n)))
      by (intros; rzw; reflexivity).
    match goal with |- (if ?b then _ else _) = _ => destruct b end; [reflexivity|].
    apply fold_left_rz. intros; rzw; reflexivity.
  Qed.

  Lemma vbalance_rz g : vbalance (rz phi g) = rz phi (vbalance g).
  Proof.
    unfold vbalance. rzw.
    rewrite (fold_left_ext_rz (fun l n => ladd l (layer_of (rz phi g) n) 1) (fun l n => ladd l (layer_of g n) 1))
      by (intros; rzw; reflexivity).
    rewrite (fold_left_ext_rz (fun m n => Z.max m (layer_of (rz phi g) n)) (fun m n => Z.max m (layer_of g n)))
      by (intros; rzw; reflexivity).
    rewrite fold_left_rz2; [reflexivity|].
    intros g1 a n. rzw. destruct (Nat.eqb _ _); [|reflexivity].
    rewrite (fold_left_ext_rz (fun lo e => Z.max lo (layer_of (rz phi g1) (e_from (gedge (rz phi g1) e)) + e_delta (gedge (rz phi g1) e)))
                              (fun lo e => Z.max lo (layer_of g1 (e_from (gedge g1 e)) + e_delta (gedge g1 e))))
      by (intros; rzw; reflexivity).
    rewrite (fold_left_ext_rz (fun hi e => Z.min hi (layer_of (rz phi g1) (e_to (gedge (rz phi g1) e)) - e_delta (gedge (rz phi g1) e)))
                              (fun hi e => Z.min hi (layer_of g1 (e_to (gedge g1 e)) - e_delta (gedge g1 e))))
      by (intros; rzw; reflexivity).
    match goal with |- (if ?b then _ else _) = _ => destruct b end; [|reflexivity].
    rzw. reflexivity.
  Qed.

  Lemma adjust_layers_rz fuel ll : forall n delta g,
    adjust_layers fuel ll n delta (rz phi g) = map_res' (rz phi) (adjust_layers fuel ll n delta g).
  Proof.
    induction fuel as [|f IH]; intros n delta g; cbn [adjust_layers map_res']; [reflexivity|].
    rzw.
    set (g0 := upd_node g n (fun nd => set_layer (n_layer nd - delta) nd)).
    match goal with |- bind (?F ?l (rz phi g0)) ?K = map_res' _ (bind (?F ?l g0) ?K') =>
      assert (L1 : forall es g, F es (rz phi g) = map_res' (rz phi) (F es g));
      [|assert (L2 : forall g, K (rz phi g) = map_res' (rz phi) (K' g))] end.
    - induction es as [|e t IHt]; intros g1; [reflexivity|]. cbn. rzw.
      destruct (negb (e_tree (gedge g1 e))); [apply IHt|].
      destruct (negb _); [|apply IHt].
      rewrite IH. destruct (adjust_layers f ll _ delta g1) as [g2|]; cbn [bind map_res']; [apply IHt|reflexivity].
    - intros g1. rzw. generalize (n_in (gnode g1 n)). intros es. revert g1.
      induction es as [|e t IHt]; intros g1; [reflexivity|]. cbn. rzw.
      destruct (negb (e_tree (gedge g1 e))); [apply IHt|].
      destruct (negb _); [|apply IHt].
      rewrite IH. destruct (adjust_layers f ll _ delta g1) as [g2|]; cbn [bind map_res']; [apply IHt|reflexivity].
    - rewrite L1. destruct (_ _ g0) as [g1|]; cbn [bind map_res']; [apply L2|reflexivity].
  Qed.

  Lemma hbalance_rz g ll : hbalance (rz phi g) ll = map_res' (rz phi) (hbalance g ll).
  Proof.
    unfold hbalance. rzw.
    assert (E : forall l (r : res graph),
      fold_left (fun (rg : res graph) e =>
        do g <- rg;
        if negb (e_tree (gedge g e)) then Ok g else
        if (e_cut (gedge g e) =? 0)%Z then
          match min_slack_non_tree_edge g ll e with
          | None => Ok g
          | Some f =>
              let d := slack g f in
              if (d <? 1)%Z then Ok g else
              if (lim_of ll (e_from (gedge g e)) <? lim_of ll (e_to (gedge g e)))%Z
              then adjust_layers (S (length (g_na g))) ll (e_from (gedge g e)) d g
              else adjust_layers (S (length (g_na g))) ll (e_to (gedge g e)) (- d) g
          end
        else Ok g) l (map_res' (rz phi) r) =
      map_res' (rz phi) (fold_left (fun (rg : res graph) e =>
        do g <- rg;
        if negb (e_tree (gedge g e)) then Ok g else
        if (e_cut (gedge g e) =? 0)%Z then
          match min_slack_non_tree_edge g ll e with
          | None => Ok g
          | Some f =>
              let d := slack g f in
              if (d <? 1)%Z then Ok g else
              if (lim_of ll (e_from (gedge g e)) <? lim_of ll (e_to (gedge g e)))%Z
              then adjust_layers (S (length (g_na g))) ll (e_from (gedge g e)) d g
              else adjust_layers (S (length (g_na g))) ll (e_to (gedge g e)) (- d) g
          end
        else Ok g) l r)).
    { induction l as [|e t IHt]; intros r; cbn [fold_left]; [reflexivity|].
      rewrite <- IHt. f_equal. destruct r as [g1|]; cbn [bind map_res']; [|reflexivity].
      rzw. destruct (negb _); [reflexivity|]. destruct (_ =? 0)%Z; [|reflexivity].
      destruct (min_slack_non_tree_edge g1 ll e) as [f|]; [|reflexivity].
      cbv zeta. rzw. destruct (_ <? 1)%Z; [reflexivity|].
      destruct (_ <? _)%Z; apply adjust_layers_rz. }
    apply (E (g_E g) (Ok g)).
  Qed.

  Lemma exec_network_simplex_capped_rz p g :
    exec_network_simplex_capped p (rz phi g) = map_res' (rz2 phi) (exec_network_simplex_capped p g).
  Proof.
    unfold exec_network_simplex_capped. rewrite feasible_tree_rz.
    destruct (feasible_tree g) as [[g1 ll]|]; cbn [bind map_res' rz2 fst snd]; [|reflexivity].
    rzw. rewrite pivot_loop_rz.
    destruct (pivot_loop _ 0 _ g1 ll) as [[[g2 ll2] capped]|]; cbn [bind map_res' rz3 fst snd]; [|reflexivity].
    rewrite !normalize_rz.
    destruct (ns_balance p =? 1)%Z; cbn [bind map_res'].
    - rewrite vbalance_rz. reflexivity.
    - destruct (ns_balance p =? 2)%Z; cbn [bind map_res']; [|reflexivity].
      rewrite hbalance_rz. destruct (hbalance (normalize g2) ll2) as [g3|]; cbn [bind map_res']; [|reflexivity].
      rewrite normalize_rz. reflexivity.
  Qed.

  Lemma exec_network_simplex_rz p g : exec_network_simplex p (rz phi g) = map_res' (rz phi) (exec_network_simplex p g).
  Proof.
    unfold exec_network_simplex. rewrite exec_network_simplex_capped_rz.
    destruct (exec_network_simplex_capped p g) as [[g1 c]|]; reflexivity.
  Qed.

  Lemma map_upd_rlayer (L : list layer) i n :
    upd (map rlayer L) i (fun l => mkLayer (l_nodes l ++ [n]) (l_w l) (l_h l)) =
    map rlayer (upd L i (fun l => mkLayer (l_nodes l ++ [n]) (l_w l) (l_h l))).
  Proof. apply map_upd_comm. intros l. reflexivity. Qed.

  Lemma init_layer_slices_rz g : init_layer_slices (rz phi g) = map_res' (rz phi) (init_layer_slices g).
  Proof.
    unfold init_layer_slices. rzw.
    rewrite (fold_left_ext_rz (fun m n => Z.max m (layer_of (rz phi g) n)) (fun m n => Z.max m (layer_of g n)))
      by (intros; rzw; reflexivity).
    rewrite (existsb_ext_rz (fun n => (layer_of (rz phi g) n <? 0)%Z) (fun n => (layer_of g n <? 0)%Z))
      by (intros; rzw; reflexivity).
    destruct (existsb _ _); [reflexivity|]. cbn [map_res']. f_equal.
    rewrite <- with_L_rz. f_equal.
    set (k := Z.to_nat _).
    assert (R : repeat layer0 k = map rlayer (repeat layer0 k)).
    { clear. induction k as [|k IH]; cbn; [reflexivity|]. rewrite <- IH. reflexivity. }
    rewrite R at 1. clear R.
    generalize (repeat layer0 k). generalize (g_N g).
    induction l as [|n t IHt]; intros L; cbn [fold_left]; [reflexivity|].
    rzw. rewrite map_upd_rlayer. apply IHt.
  Qed.

  Theorem phase2_rz alg p g : phase2 alg p (rz phi g) = map_res' (rz phi) (phase2 alg p g).
  Proof.
    unfold phase2, assign_layers. rzw.
    destruct (Nat.eqb (length (g_N g)) 1); cbn [bind map_res']; [apply init_layer_slices_rz|].
    destruct alg.
    - rewrite exec_longest_path_rz. destruct (exec_longest_path g) as [g1|]; cbn [bind map_res']; [|reflexivity].
      apply init_layer_slices_rz.
    - rewrite exec_network_simplex_rz. destruct (exec_network_simplex p g) as [g1|]; cbn [bind map_res']; [|reflexivity].
      apply init_layer_slices_rz.
  Qed.
End P2d.

Print Assumptions phase2_rz.
