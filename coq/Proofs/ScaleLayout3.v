(* ScaleLayout3.v — C17 for the whole Layout, part 3: phase 3 (breaking long edges, the weighted-median ordering with the
   Barth-Mutzel cross counter, and the no-op ordering) commutes with the size-replacing / coordinate-erasing map
   [rz phi] of ScaleLayout.v. Breaking long edges appends VIRTUAL nodes of size 0 to the arena: [rz] gives virtual
   nodes the size 0. *)
From Autog Require Import Base Graph Populate Phase1 Phase2 Phase3 CrossCount Wmedian PipelineNoop ListLemmas ScaleLayout ScaleLayout2.
Local Open Scope nat_scope.

Section Break.
  Variable phi : nat -> Q * Q.

  Lemma with_na_app_rz g x : (forall s, rnode s x = x) ->
    with_na (rz phi g) (g_na (rz phi g) ++ [x]) = rz phi (with_na g (g_na g ++ [x])).
  Proof.
    intros Hx. unfold with_na, rz; cbn [g_na g_ea g_N g_E g_L]. rewrite rz_na_app. cbn [rz_na Nat.add].
    rewrite Hx. reflexivity.
  Qed.

  Lemma with_ea_app_rz g x : redge x = x ->
    with_ea (rz phi g) (g_ea (rz phi g) ++ [x]) = rz phi (with_ea g (g_ea g ++ [x])).
  Proof.
    intros Hx. unfold with_ea, rz; cbn [g_na g_ea g_N g_E g_L]. rewrite map_app. cbn [map]. rewrite Hx. reflexivity.
  Qed.

  Lemma break_edge_rz g e : break_edge (rz phi g) e = rz phi (break_edge g e).
  Proof.
    unfold break_edge. rzw.
    rewrite with_na_app_rz by reflexivity.
    rewrite with_ea_app_rz by reflexivity. rzw. reflexivity.
  Qed.

  Lemma break_long_loop_rz fuel : forall i g,
    break_long_loop fuel i (rz phi g) = map_res' (rz phi) (break_long_loop fuel i g).
  Proof.
    induction fuel as [|fu IH]; intros i g; cbn [break_long_loop map_res']; [reflexivity|].
    rzw. destruct (nth_error (g_E g) i) as [e|]; [|reflexivity]. rzw.
    destruct (1 <? _)%Z.
    - rewrite break_edge_rz. apply IH.
    - destruct (1 <? _)%Z; [|apply IH].
      rewrite reverse_edge_rz. rzw. rewrite break_edge_rz. rewrite !reverse_edge_rz. apply IH.
  Qed.

  Lemma total_span_rz g : total_span (rz phi g) = total_span g.
  Proof. unfold total_span. stp. Qed.

  Lemma break_long_edges_rz g : break_long_edges (rz phi g) = map_res' (rz phi) (break_long_edges g).
  Proof. unfold break_long_edges. rzw. rewrite total_span_rz. apply break_long_loop_rz. Qed.
End Break.

Section Cross.
  Variable phi : nat -> Q * Q.

  Lemma pos_of_rz g n : pos_of (rz phi g) n = pos_of g n.
  Proof. unfold pos_of. apply n_pos_rz. Qed.
End Cross.
#[export] Hint Rewrite pos_of_rz total_span_rz : rz.

Section Cross2.
  Variable phi : nat -> Q * Q.

  Lemma cc_pairs_rz g ui li unodes : cc_pairs (rz phi g) ui li unodes = cc_pairs g ui li unodes.
  Proof. unfold cc_pairs. stp. Qed.

  Lemma count_crossings_rz g i1 i2 : count_crossings (rz phi g) i1 i2 = count_crossings g i1 i2.
  Proof.
    unfold count_crossings. rzw. destruct (_ || _)%bool; [reflexivity|].
    destruct (Nat.ltb _ _); rewrite cc_pairs_rz; reflexivity.
  Qed.
End Cross2.
#[export] Hint Rewrite count_crossings_rz : rz.

Section Cross3.
  Variable phi : nat -> Q * Q.

  Lemma reported_crossings_rz g : reported_crossings (rz phi g) = reported_crossings g.
  Proof. unfold reported_crossings. rzw. stp. Qed.

  Lemma crossings_around_rz g l : crossings_around (rz phi g) l = crossings_around g l.
  Proof. unfold crossings_around. rzw. reflexivity. Qed.

  Lemma positions_rz g : positions (rz phi g) = positions g.
  Proof.
    unfold positions, rz; cbn [g_na]. generalize 0. induction (g_na g) as [|n t IH]; intros k; cbn; [reflexivity|].
    rewrite IH. reflexivity.
  Qed.

  Lemma sort_by_pos_rz g ns : sort_by_pos (rz phi g) ns = sort_by_pos g ns.
  Proof.
    unfold sort_by_pos, isort. induction ns as [|n t IH]; cbn [fold_right]; [reflexivity|]. rewrite IH.
    generalize (fold_right (insert_sorted (fun a b : nat => (pos_of g a <=? pos_of g b)%Z)) [] t). intros l.
    induction l as [|y l IHl]; cbn [insert_sorted]; [reflexivity|]. rzw. rewrite IHl. reflexivity.
  Qed.

  Lemma adj_positions_rz g n edges adj : adj_positions (rz phi g) n edges adj = adj_positions g n edges adj.
  Proof. unfold adj_positions. f_equal. stp. Qed.
End Cross3.
#[export] Hint Rewrite reported_crossings_rz crossings_around_rz positions_rz sort_by_pos_rz adj_positions_rz : rz.

Section Wm.
  Variable phi : nat -> Q * Q.

  Lemma g_L_rz g : g_L (rz phi g) = map rlayer (g_L g).
  Proof. reflexivity. Qed.

  Lemma sort_layers_rz g : sort_layers (rz phi g) = rz phi (sort_layers g).
  Proof.
    unfold sort_layers. rewrite <- with_L_rz. f_equal. rewrite g_L_rz, !map_map. apply map_ext. intros l.
    rzw. reflexivity.
  Qed.

  Lemma init_pos_rz top fuel : forall n g vis idx,
    init_pos top fuel n (rz phi g, vis, idx) = map_res' (rz3 phi) (init_pos top fuel n (g, vis, idx)).
  Proof.
    induction fuel as [|f IH]; intros n g vis idx; cbn [init_pos map_res']; [reflexivity|].
    destruct (mem_nat n vis); [reflexivity|]. rzw.
    set (g0 := upd_node g n _). generalize (n :: vis), ((layer_of g n, (idx_get idx (layer_of g n) + 1)%Z) :: idx).
    generalize (if top then n_out (gnode g0 n) else n_in (gnode g0 n)). intros es. generalize g0. clear g0.
    induction es as [|e t IHt]; intros g0 vis1 idx1; [reflexivity|].
    cbn. rzw. rewrite IH. destruct (init_pos top f _ _) as [[[g1 v1] i1]|]; cbn [bind map_res' rz3 fst snd]; [apply IHt|reflexivity].
  Qed.

  Lemma init_positions_rz top g : init_positions top (rz phi g) = map_res' (rz phi) (init_positions top g).
  Proof.
    unfold init_positions. rzw.
    assert (E : forall l (r : res ip_st),
      fold_left (fun (r : res ip_st) n => do st <- r; init_pos top (S (length (g_na g))) n st) l (map_res' (rz3 phi) r) =
      map_res' (rz3 phi) (fold_left (fun (r : res ip_st) n => do st <- r; init_pos top (S (length (g_na g))) n st) l r)).
    { induction l as [|n t IHt]; intros r; cbn [fold_left]; [reflexivity|]. rewrite <- IHt. f_equal.
      destruct r as [[[g1 v1] i1]|]; cbn [bind map_res' rz3 fst snd]; [|reflexivity]. apply init_pos_rz. }
    change (Ok (rz phi g, @nil nat, @nil (Z * Z))) with (map_res' (rz3 phi) (Ok (g, @nil nat, @nil (Z * Z)))).
    rewrite E. match goal with |- bind (map_res' _ ?x) _ = _ => destruct x as [[[g1 v1] i1]|] end; reflexivity.
  Qed.

  Lemma swap_pos_rz g v w : swap_pos (rz phi g) v w = rz phi (swap_pos g v w).
  Proof. unfold swap_pos. rzw. reflexivity. Qed.

  Lemma sl_pass_rz fuel flip ms ep : forall lp g nodes,
    sl_pass fuel flip ms ep lp (rz phi g, nodes) = rz2 phi (sl_pass fuel flip ms ep lp (g, nodes)).
  Proof.
    induction fuel as [|f IH]; intros lp g nodes; cbn [sl_pass]; [reflexivity|].
    destruct (negb (Nat.ltb lp ep)); [reflexivity|].
    destruct (negb (Nat.ltb (skip_unset _ ms nodes lp ep) ep)); [reflexivity|].
    destruct (negb (Nat.ltb (skip_unset _ ms nodes (S _) ep) ep)); [reflexivity|].
    destruct (_ || _)%bool; [rewrite swap_pos_rz|]; apply IH.
  Qed.

  Lemma sl_iters_rz iters : forall flip ms ep g nodes,
    sl_iters iters flip ms ep (rz phi g, nodes) = rz2 phi (sl_iters iters flip ms ep (g, nodes)).
  Proof.
    induction iters as [|k IH]; intros flip ms ep g nodes; cbn [sl_iters]; [reflexivity|].
    cbn [snd]. rewrite sl_pass_rz. destruct (sl_pass _ flip ms ep 0 (g, nodes)) as [g1 n1]. apply IH.
  Qed.

  Lemma sort_layer_rz flip ms g r : sort_layer flip ms (rz phi g) r = rz phi (sort_layer flip ms g r).
  Proof.
    unfold sort_layer. rzw. rewrite sl_iters_rz. destruct (sl_iters _ flip ms _ (g, _)) as [g1 n1].
    cbn [rz2 fst snd]. rzw. reflexivity.
  Qed.

  Lemma sweep_layer_rz down flip g ms r : sweep_layer down flip (rz phi g, ms) r = rz2 phi (sweep_layer down flip (g, ms) r).
  Proof.
    unfold sweep_layer. rzw.
    match goal with |- (sort_layer _ ?a _ _, _) = rz2 _ (sort_layer _ ?b _ _, _) => assert (E : a = b) by stp; rewrite E end.
    rewrite sort_layer_rz. reflexivity.
  Qed.

  Lemma wmedian_sweep_rz down flip g : wmedian_sweep down flip (rz phi g) = rz phi (wmedian_sweep down flip g).
  Proof.
    unfold wmedian_sweep. rzw. rewrite fold_left_rz2; [reflexivity|]. intros; apply sweep_layer_rz.
  Qed.

  Lemma transpose_layer_rz g b l : transpose_layer (rz phi g, b) l = rz2 phi (transpose_layer (g, b) l).
  Proof.
    unfold transpose_layer. cbn [fst]. rzw. apply fold_left_rz2. intros g1 a i. rzw.
    rewrite !swap_pos_rz. rzw. destruct (_ <? _)%Z; [|reflexivity]. rzw. reflexivity.
  Qed.

  Lemma transpose_rz fuel : forall g, transpose fuel (rz phi g) = map_res' (rz phi) (transpose fuel g).
  Proof.
    induction fuel as [|f IH]; intros g; cbn [transpose map_res']; [reflexivity|].
    rzw. rewrite fold_left_rz2 by (intros; apply transpose_layer_rz).
    destruct (fold_left transpose_layer _ (g, false)) as [g1 imp]. cbn [rz2 fst snd].
    destruct imp; [apply IH|reflexivity].
  Qed.

  Lemma wm_iter_rz k : forall i flip g bestx bestp,
    wm_iter k i flip (rz phi g) bestx bestp = map_res' (rz3 phi) (wm_iter k i flip g bestx bestp).
  Proof.
    induction k as [|k IH]; intros i flip g bestx bestp; cbn [wm_iter map_res']; [reflexivity|].
    rewrite wmedian_sweep_rz. rzw. rewrite transpose_rz.
    destruct (transpose _ (wmedian_sweep (Nat.even i) flip g)) as [g1|]; cbn [bind map_res']; [|reflexivity].
    rzw. destruct (_ <? bestx)%Z; (destruct (_ =? 0)%Z; [reflexivity|apply IH]).
  Qed.

  Lemma wmedian_run_rz maxiter top g :
    wmedian_run maxiter top (rz phi g) = map_res' (rz3 phi) (wmedian_run maxiter top g).
  Proof.
    unfold wmedian_run. rewrite init_positions_rz. destruct (init_positions top g) as [g1|]; cbn [bind map_res']; [|reflexivity].
    rewrite sort_layers_rz. rzw. destruct (_ =? 0)%Z; [reflexivity|apply wm_iter_rz].
  Qed.

  Lemma exec_wmedian_rz maxiter g : exec_wmedian maxiter (rz phi g) = map_res' (rz2 phi) (exec_wmedian maxiter g).
  Proof.
    unfold exec_wmedian. rzw.
    rewrite (existsb_ext_rz (is_flat (rz phi g)) (is_flat g)) by (intros; rzw; reflexivity).
    destruct (existsb _ _); [reflexivity|]. rewrite wmedian_run_rz.
    destruct (wmedian_run maxiter true g) as [[[g1 xt] pt]|]; cbn [bind map_res' rz3 fst snd]; [|reflexivity].
    rewrite wmedian_run_rz.
    destruct (wmedian_run maxiter false g1) as [[[g2 xb] pb]|]; cbn [bind map_res' rz3 fst snd]; [|reflexivity].
    destruct (xt <? xb)%Z; rzw;
      (rewrite (fold_left_rz phi (fun g n => upd_node g n (set_pos (nth n _ 0%Z)))) by (intros; rzw; reflexivity));
      rewrite sort_layers_rz; reflexivity.
  Qed.

  Theorem phase3_wmedian_rz maxiter g :
    phase3_wmedian maxiter (rz phi g) = map_res' (rz2 phi) (phase3_wmedian maxiter g).
  Proof.
    unfold phase3_wmedian. rzw.
    destruct (Nat.eqb (length (g_N g)) 1); [reflexivity|].
    destruct (Nat.eqb (length (g_L g)) 1); [reflexivity|].
    rewrite break_long_edges_rz.
    destruct (break_long_edges g) as [g1|]; cbn [bind map_res']; [|reflexivity].
    rewrite exec_wmedian_rz. destruct (exec_wmedian maxiter g1) as [[g2 x]|]; reflexivity.
  Qed.

  (* ---------- the no-op ordering (Model/PipelineNoop.v) ---------- *)
  Lemma number_positions_rz g : number_positions (rz phi g) = rz phi (number_positions g).
  Proof.
    unfold number_positions. rewrite g_L_rz. generalize (g_L g). intros L. revert g.
    induction L as [|l t IH]; intros g; cbn [map fold_left]; [reflexivity|].
    cbn [rlayer l_nodes]. rewrite fold_left_rz2 by (intros; cbn [fst snd]; rzw; reflexivity).
    cbn [rz2 fst]. apply IH.
  Qed.

  Theorem phase3_noop_rz g :
    phase3_noop (rz phi g) = map_res' (rz2 phi) (phase3_noop g).
  Proof.
    unfold phase3_noop. rzw.
    destruct (Nat.eqb (length (g_N g)) 1); [reflexivity|].
    destruct (Nat.ltb 1 (length (g_L g))).
    - rewrite break_long_edges_rz.
      destruct (break_long_edges g) as [g1|]; cbn [bind map_res']; [|reflexivity].
      rewrite number_positions_rz. reflexivity.
    - cbn [bind map_res']. rewrite number_positions_rz. reflexivity.
  Qed.
End Wm.
Print Assumptions phase3_wmedian_rz.
Print Assumptions phase3_noop_rz.
