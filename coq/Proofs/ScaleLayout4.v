(* ScaleLayout4.v — C17 for the whole Layout, part 4: the state that reaches phase 5 has no flat routed edge.
   Discharges the premise [routes_not_flat] of [Scale.phase5_rel] from the pipeline: for a component as the front end
   produces it, the layering is proper after phase 2/3, phase 4 does not move nodes between layers, and merging the
   long edges gives back the edges of the layered graph, each of span >= 1. *)
From Autog Require Import Base Graph Populate Phase1 Phase2 Phase3 Phase4 Phase5 Layout Wmedian Pipeline BK PipelineBK PipelineNoop.
From Autog.Proofs Require Import ListLemmas Consistent SelfLoopProofs.
From Autog.Proofs Require CBBase CBGreedy CBGreedyRanks CBDepthFirst CBHasCycles CycleBreaking LongestPath
                          OptNormalize OptVbalance OptPipeline.
From Autog.Proofs Require Import Positioners Routes BreakMerge SinkColoringProofs E2EBridge E2EBackbone.
From Autog.Proofs Require Import NSBridge WholeBridge BKPipeline Scale.
From Coq Require Import Permutation Lia Lqa.
Local Open Scope nat_scope.

(** the part of [BKPipeline.stage45_ok_x] that does not need phase 5 to have returned; of the ordering phase it uses only
    that it keeps the topology, the well-formedness of the layers, the node list and the layer heights *)
Lemma stage4_not_flat : forall bk alg4 p g1 g2 g3 k g3' g4,
  stage23 g1 g2 g3 k -> break_long_edges g2 = Ok g3 ->
  same_topology g3 g3' -> layers_wf g3' -> g_N g3' = g_N g3 -> (forall kk, l_h (glayer g3' kk) = l_h (glayer g3 kk)) ->
  phase4x bk alg4 p g3' = Ok g4 -> routes_not_flat g4.
Proof.
  intros bk alg4 p g1 g2 g3 k g3' g4 S BR T1 OWF O2 OLH P4.
  destruct S as [PP PRE LOK WF2 PL2 INL2 ENDS TWO L1 S1 S2 S3 S4 S5 S6 S7 S8 WF3 PL3 SL SLH SUB SINL].
  assert (N3' : Nat.eqb (length (g_N g3')) 1 = false).
  { apply Nat.eqb_neq. rewrite O2, S2, app_length. lia. }
  assert (LH3' : forall kk, (0 <= l_h (glayer g3' kk))%Q).
  { intros kk. rewrite OLH, SLH. destruct (p2_wh _ _ PP kk) as [_ ->]. apply Qle_refl. }
  destruct (phase4x_facts bk alg4 p g3' g4 N3' P4 OWF LH3') as (F1 & F2 & F3 & F4 & F5 & F6 & F7 & F8 & F9 & F10).
  assert (T2 : same_topology g3' g4).
  { split; [exact F1|]. split; [exact F3|]. split; [exact F4|]. intros n.
    destruct (set_xy_fields _ _ (F5 n)) as (-> & -> & -> & _ & -> & _). repeat split; reflexivity. }
  pose proof (same_topology_trans _ _ _ T1 T2) as T.
  destruct (break_phase4_merge_roundtrip g2 g3 g4 PRE BR T)
    as (gm & routes & M & A1 & A2 & A3 & A4' & A5' & A6 & A7 & A8 & A9).
  intros gm' routes' M' r Hr. rewrite M in M'. injection M' as <- <-.
  assert (LY4 : forall n, layer_of g4 n = layer_of g3 n) by (intros n; apply (same_topology_layer _ _ _ T)).
  assert (LYm : forall n, layer_of gm n = layer_of g4 n).
  { intros n. pose proof (A7 n) as Sb. apply same_but_in_fields in Sb. unfold layer_of. apply Sb. }
  assert (FST : In (fst r) (g_E g2)) by (rewrite <- A8; apply in_map, Hr).
  destruct (bp_edges PRE _ FST) as (_ & Ra & Rb & SPN).
  assert (LY32 : forall n, n < length (g_na g2) -> layer_of g3 n = layer_of g2 n).
  { intros n Hn. pose proof (S7 n Hn) as Sb. apply same_but_in_fields in Sb. unfold layer_of. apply Sb. }
  unfold is_flat. rewrite (A5' _ FST). cbn [set_ahs e_from e_to].
  rewrite !LYm, !LY4, !LY32 by assumption. apply Z.eqb_neq. unfold span in SPN. lia.
Qed.

(** phases 0-2 of a component as the front end produces it: the layered graph and its version with the long edges broken *)
Lemma pipeline_stage23 : forall o g g0 del g1 g2,
  component_input g ->
  ignore_self_loops g = (g0, del) ->
  phase1 (o_p1 o) g0 = Ok g1 ->
  phase2 (o_p2 o) (Layout.ns_params o) g1 = Ok g2 ->
  exists g3 k, break_long_edges g2 = Ok g3 /\ stage23 g1 g2 g3 k /\
      (forall cx g3', exec_wmedian wmedian_max_iter g3 = Ok (g3', cx) -> order_contract g3 g3').
Proof.
  intros o g g0 del g1 g2 CI E0 P1 P2.
  pose proof (ns_premise_holds o g CI) as NS. pose proof (wm_premise_holds o g CI NS) as WM.
  assert (Eg0 : g0 = fst (ignore_self_loops g)) by (rewrite E0; reflexivity).
  pose proof (stage01_ok o g g0 del g1 CI E0 P1) as S01.
  assert (TWO1 : 2 <= length (g_N g1)).
  { destruct (rev_star_frame _ _ (s1_rs _ _ _ _ S01)) as (-> & _). rewrite (s0_N _ _ _ _ S01). apply (ci_two _ CI). }
  assert (LO : forall g2a, match o_p2 o with
                           | LongestPath => exec_longest_path g1
                           | NetworkSimplex => exec_network_simplex (Layout.ns_params o) g1
                           end = Ok g2a -> layering_ok g1 g2a).
  { intros g2a Hg. destruct (o_p2 o) eqn:EA.
    - apply lp_layering_ok; [apply (s1_c _ _ _ _ S01)|apply (s1_ranked _ _ _ _ S01)| |exact Hg].
      intros e He. apply (s1_edge _ _ _ _ S01 e He).
    - apply (NS EA g1); [rewrite <- Eg0; exact P1|exact Hg]. }
  destruct (stage23_ok (o_p2 o) (Layout.ns_params o) g1 g2 (s1_c _ _ _ _ S01) (s1_nonvirt _ _ _ _ S01) TWO1
              (s1_some_edge _ _ _ _ S01) LO P2) as (g3 & k & BR & S23).
  exists g3, k. split; [exact BR|]. split; [exact S23|].
  intros cx g3' WE. apply (WM g1 g2 g3) with (x := cx); [rewrite <- Eg0; exact P1|exact P2|exact BR|exact WE].
Qed.

(** one component of at least two nodes, as the front end produces it: whatever reaches phase 5 has no flat route *)
Theorem pipeline_not_flat : forall bk o g g0 del g1 g2 g3' x g4,
  component_input g ->
  ignore_self_loops g = (g0, del) ->
  phase1 (o_p1 o) g0 = Ok g1 ->
  phase2 (o_p2 o) (Layout.ns_params o) g1 = Ok g2 ->
  phase3_wmedian wmedian_max_iter g2 = Ok (g3', x) ->
  phase4x bk (o_p4 o) (p4_params o) g3' = Ok g4 ->
  routes_not_flat g4.
Proof.
  intros bk o g g0 del g1 g2 g3' x g4 CI E0 P1 P2 P3 P4.
  destruct (pipeline_stage23 o g g0 del g1 g2 CI E0 P1 P2) as (g3 & k & BR & S23 & WM).
  unfold phase3_wmedian in P3.
  assert (N2 : Nat.eqb (length (g_N g2)) 1 = false).
  { apply Nat.eqb_neq. pose proof (s2_two _ _ _ _ S23). lia. }
  rewrite N2, (s2_L1 _ _ _ _ S23), BR in P3. cbn [bind] in P3.
  destruct (exec_wmedian wmedian_max_iter g3) as [[g3a cx]|] eqn:WE; cbn [bind fst snd] in P3; [|discriminate].
  injection P3 as -> _.
  pose proof (WM cx g3' eq_refl) as OC.
  destruct (order_contract_facts g3 g3' OC) as (T1 & OWF & _ & _ & _ & OLH).
  exact (stage4_not_flat bk (o_p4 o) (p4_params o) g1 g2 g3 k g3' g4 S23 BR T1 (OWF (s3_wf _ _ _ _ S23))
           (oc_N _ _ OC) OLH P4).
Qed.
Print Assumptions pipeline_not_flat.

(* ====================================================================================================== *)
(** * The same with the no-op ordering (Model/PipelineNoop.v)                                              *)
(* ====================================================================================================== *)
Definition pos_only (g0 g : graph) : Prop :=
  g_ea g = g_ea g0 /\ g_N g = g_N g0 /\ g_E g = g_E g0 /\ g_L g = g_L g0 /\ length (g_na g) = length (g_na g0) /\
      forall n, set_pos 0 (gnode g n) = set_pos 0 (gnode g0 n).

Lemma pos_only_upd g0 g i z : pos_only g0 g -> pos_only g0 (upd_node g i (set_pos z)).
Proof.
  intros (A1 & A2 & A3 & A4 & A5 & A6). unfold pos_only, upd_node, with_na; cbn [g_na g_ea g_N g_E g_L].
  repeat split; auto.
  - rewrite upd_length. exact A5.
  - intros n. rewrite <- A6. unfold gnode; cbn [g_na]. apply (nth_upd_proj (set_pos 0)). reflexivity.
Qed.

Lemma number_positions_pos_only g : pos_only g (number_positions g).
Proof.
  unfold number_positions.
  assert (I : forall ns (acc : graph * Z), pos_only g (fst acc) ->
            pos_only g (fst (fold_left (fun (acc : graph * Z) n => (upd_node (fst acc) n (set_pos (snd acc)), (snd acc + 1)%Z)) ns acc))).
  { induction ns as [|n ns IHn]; intros acc Hacc; cbn [fold_left]; [exact Hacc|].
    apply IHn. cbn [fst]. apply pos_only_upd, Hacc. }
  assert (O : forall L g1, pos_only g g1 ->
            pos_only g (fold_left (fun g l =>
              fst (fold_left (fun (acc : graph * Z) n => (upd_node (fst acc) n (set_pos (snd acc)), (snd acc + 1)%Z))
                             (l_nodes l) (g, 0%Z))) L g1)).
  { induction L as [|l t IH]; intros g1 R; cbn [fold_left]; [exact R|].
    apply IH. apply (I (l_nodes l) (g1, 0%Z)). exact R. }
  apply O. unfold pos_only; repeat split; reflexivity.
Qed.

Theorem pipeline_not_flat_n : forall bk o g g0 del g1 g2 g3' x g4,
  component_input g ->
  ignore_self_loops g = (g0, del) ->
  phase1 (o_p1 o) g0 = Ok g1 ->
  phase2 (o_p2 o) (Layout.ns_params o) g1 = Ok g2 ->
  phase3_noop g2 = Ok (g3', x) ->
  phase4x bk (o_p4 o) (p4_params o) g3' = Ok g4 ->
  routes_not_flat g4.
Proof.
  intros bk o g g0 del g1 g2 g3' x g4 CI E0 P1 P2 P3 P4.
  destruct (pipeline_stage23 o g g0 del g1 g2 CI E0 P1 P2) as (g3 & k & BR & S23 & _).
  unfold phase3_noop in P3.
  assert (N2 : Nat.eqb (length (g_N g2)) 1 = false).
  { apply Nat.eqb_neq. pose proof (s2_two _ _ _ _ S23). lia. }
  assert (L2 : Nat.ltb 1 (length (g_L g2)) = true).
  { apply Nat.ltb_lt. pose proof (s2_L1 _ _ _ _ S23) as L1. apply Nat.eqb_neq in L1.
    pose proof (s2_two _ _ _ _ S23) as TWO.
    destruct (g_N g2) as [|n t] eqn:EN; [cbn in TWO; lia|].
    destruct (s2_placed _ _ _ _ S23 n) as [_ IN]; [rewrite EN; left; reflexivity|].
    destruct (Nat.lt_ge_cases (Z.to_nat (layer_of g2 n)) (length (g_L g2))) as [Lt|Ge]; [lia|].
    unfold glayer in IN. rewrite nth_overflow in IN by exact Ge. destruct IN. }
  rewrite N2, L2, BR in P3. cbn [bind] in P3. injection P3 as <- _.
  destruct (number_positions_pos_only g3) as (A1 & A2 & A3 & A4 & A5 & A6).
  assert (FLD : forall n, n_in (gnode (number_positions g3) n) = n_in (gnode g3 n) /\
      n_out (gnode (number_positions g3) n) = n_out (gnode g3 n) /\
      n_virt (gnode (number_positions g3) n) = n_virt (gnode g3 n) /\
      n_layer (gnode (number_positions g3) n) = n_layer (gnode g3 n)).
  { intros n. pose proof (A6 n) as E. destruct (gnode (number_positions g3) n), (gnode g3 n).
    unfold set_pos in E. cbn in E |- *. injection E as -> -> -> -> -> -> -> ->. repeat split; reflexivity. }
  apply (stage4_not_flat bk (o_p4 o) (p4_params o) g1 g2 g3 k (number_positions g3) g4 S23 BR); auto.
  - split; [exact A1|]. split; [exact A3|]. split; [exact A5|]. exact FLD.
  - destruct (s3_wf _ _ _ _ S23) as [ND LT]. unfold layers_wf. rewrite A4, A5. split; assumption.
  - intros kk. unfold glayer. rewrite A4. reflexivity.
Qed.
Print Assumptions pipeline_not_flat_n.
